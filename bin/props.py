"""Per-property configuration of bin/check: which theorems carry the claim, which result fields of the
correspondence each property depends on (aspect-scoped comparison), evidence texts."""

TRUSTED = [
    "Lean 4.33.0 kernel (re-checked with leanchecker in the thorough tier); axioms allowed: propext, Classical.choice, Quot.sound",
    "xlate (Go AST -> op lists / tables / frame descriptors / facts): validated by the correspondence run over all types",
    "hand-written Lean models of the codec primitives, checksums and registry: validated by correspondence only",
    "Go standard library behaviour (bytes.Buffer, encoding/binary, io.ReadFull, hash/crc32, sync.RWMutex, maps) and the harness's reflection walker",
]

ENC_ALL = {"enc": [0, 1, 2], "wop": [0, 1, 2]}
DEC_ALL = {"dec": [0, 1, 2], "rop": [0, 1, 2]}
DEC_CONSUME = {"dec": [0, 1], "rop": [0, 1]}
DEC_CLASS = {"dec": [0], "rop": [0]}

PROPS = {
    "C01": {
        "theorems": [],
        "aspects": {**ENC_ALL, **DEC_ALL},
        "rule": "type-directed canonical values of all 170 types (scalars {0,1,max,sign bit,non-palindromic,NaN payloads,random}; "
                "text {empty,short,exact width, interior/other-side pad, NUL, >=0x80}; lists {0,1,2,random,255,256,16384[,65535]}), every one of the "
                "226 discriminator keys, random prior buffer content / consumed prefix / stale spare capacity; each value is encoded by the real "
                "library and by the model, the produced bytes (+ random trailing bytes) are decoded by both. distinct = (type, outcome class, "
                "length class, buffer history); non-trivial = the message has at least one field.",
        "assumptions": ["canonical domain as stated in the property; absent and empty lists are identified"],
    },
}
for i in range(2, 21):
    PROPS.setdefault("C%02d" % i, {"theorems": [], "aspects": {}, "suite": False})


def check_facts(pid, facts):
    return []
