"""Per-property configuration of bin/check: which theorems carry the claim, which result fields of the
correspondence each property depends on (aspect-scoped comparison), evidence texts."""

TRUSTED = [
    "Lean 4.33.0 kernel (re-checked with leanchecker in the thorough tier); axioms allowed: propext, Classical.choice, Quot.sound",
    "xlate (Go AST -> op lists / tables / frame descriptors / facts; shape recognisers, the normalisation rules N1-N5 of xlate/normalise.go, the symbolic executor of xlate/symex.go for bodies the recognisers do not know, path-wise execution of registry and look-up functions): validated by the correspondence run over all types against the regenerated AND the pinned model, and by bin/xlate-selftest",
    "hand-written Lean models of the codec primitives and checksums (Prim.lean, Checksum.lean): PROVED (Props/GoIR_*.lean, GoIRTie.lean) to be what the function bodies of codec/binary_codec.go and the Calc bodies of codec/checksum.go compute, as translated statement by statement into the deep embedding GoIR by xlate/goir.go; the theorems apply to the current sources when Obl.ir_repo (regenerated translation = committed translation, kernel-evaluated) holds, and the regenerated translation is executed against the library on every run (irw/irr/irc); registry model: validated by correspondence and the lock-program translation",
    "GoIR's semantics of the Go constructs and standard-library calls used by codec/*.go (GoIR.lean), the translator's desugaring and local type inference (validated by the executed correspondence)",
    "Go standard library behaviour (bytes.Buffer, encoding/binary, io.ReadFull, hash/crc32, sync.RWMutex, maps) and the harness's reflection walker",
]

# result lines are `class | field1 | field2`; a property lists the fields it depends on
ENC_ALL = {"enc": [0, 1, 2], "wop": [0, 1, 2], "irw": [0, 1, 2]}
ENC_BYTES = {"enc": [0, 1], "wop": [0, 1], "irw": [0, 1]}
ENC_CLASS = {"enc": [0], "wop": [0], "irw": [0]}
DEC_ALL = {"dec": [0, 1, 2], "rop": [0, 1, 2], "irr": [0, 1, 2]}
DEC_CONSUME = {"dec": [0, 1], "rop": [0, 1], "irr": [0, 1]}
DEC_CLASS = {"dec": [0], "rop": [0], "irr": [0]}
OTHER = {"cks": [0, 1], "irc": [0, 1], "cksrep": [0, 1], "reg": [0, 1], "lookup": [0, 1], "zero": [0, 1]}

VALUES = ("type-directed values of all 170 types: scalars {0,1,max,sign bit,non-palindromic,NaN payloads,random}; text {empty,short,"
          "exact width,over-long,interior/leading/trailing pad,NUL,>=0x80,multi-byte runes at the cut}; lists {0,1,2,random,255,256,16384"
          "[,65535]}; every one of the 226 discriminator keys; buffer histories {empty, prior content, earlier frames, consumed prefix, "
          "no spare capacity, stale spare capacity}. ")

# theorems about the committed GoIR translation of codec/*.go (Props/GoIR_*.lean); they carry over to the current sources when
# the regenerated translation is identical (Obl.ir_repo, kernel-evaluated on every run)
_G = "FinProto.GoIR."
IR_A = [_G + x for x in ("ir_writeScalar", "ir_readScalar", "ir_writeLen", "ir_writeVstr", "ir_readVstr")]
IR_B = [_G + x for x in ("ir_padding", "ir_writeFixed", "ir_writeFixedDef", "ir_readFixed", "ir_readFixedDef")]
IR_C = [_G + x for x in ("ir_writeNums", "ir_writeFixeds", "ir_writeFixedsDef", "ir_writeVstrs", "ir_writeObjs")]
IR_D = [_G + x for x in ("ir_readNums", "ir_readFixeds", "ir_readFixedsDef", "ir_readVstrs", "ir_readObjs")]
IR_E = [_G + x for x in ("ir_crc16", "ir_crc32", "ir_sse", "ir_szse")]
IR_TIE = [_G + x for x in ("encOp_ir", "encOp_ir_default", "decOp_ir", "cks_ir")] + ["FinProto.Obl.encOp_ir_repo", "FinProto.Obl.decOp_ir_repo", "FinProto.Obl.cks_ir_repo"]
IR_THEOREMS = ["FinProto.Obl.ir_repo", "FinProto.Obl.ir_calls", "FinProto.Obl.ir_calls_cover"] + IR_A + IR_B + IR_C + IR_D + IR_E + IR_TIE
IR_DEC = IR_D + [_G + "decOp_ir", "FinProto.Obl.decOp_ir_repo"]      # proved in Props/GoIR_D.lean / GoIRTieDec.lean


def ir_present(lean_dir, thms):
    """the IR theorems whose proof files are in the tree (the decoder half lives in its own files)"""
    import os
    dec = os.path.exists(os.path.join(lean_dir, "FinProto", "Props", "GoIRTieDec.lean"))
    return [t for t in thms if dec or t not in IR_DEC]


PROPS = {
    "C01": {
        "ir_theorems": [_G + "encOp_ir", _G + "encOp_ir_default", _G + "decOp_ir", "FinProto.Obl.encOp_ir_repo", "FinProto.Obl.decOp_ir_repo"],
        "theorems": ["FinProto.Obl.C01_mirror", "FinProto.Obl.C01_keys", "FinProto.Obl.C01_widths", "FinProto.Obl.C01_no_unrecognised_statement", "FinProto.Obl.C01_repo", "FinProto.Obl.C01_api", "FinProto.Obl.C01_same", "FinProto.roundtrip", "FinProto.enc_canon_val", "FinProto.enc_canon_val_frame"],
        "aspects": {**ENC_ALL, **DEC_ALL},
        "rule": VALUES + "Each canonical value is encoded by the real library and by the model, the produced bytes (+ random trailing "
                "bytes) are decoded by both. distinct = (type, outcome class, length class, buffer history); non-trivial = the message has at "
                "least one field.",
        "assumptions": ["canonical domain as stated in the property; absent and empty lists are identified"],
    },
    "C02": {
        "ir_theorems": [_G + "encOp_ir", _G + "encOp_ir_default", _G + "decOp_ir", "FinProto.Obl.encOp_ir_repo", "FinProto.Obl.decOp_ir_repo"],
        "theorems": ["FinProto.Obl.C02_types", "FinProto.Obl.C02_tables", "FinProto.Obl.C02_repo", "FinProto.Obl.C02_decode", "FinProto.enc_eq_render",
                     "FinProto.encode_eq_render", "FinProto.render_table_equiv", "FinProto.padOrCut_eq_writeFixed"],
        "aspects": {"penc": [0, 1], "pdec": [0, 1, 2]},
        "oracle": True,   # a disagreement with the pinned-schema renderer IS a failing input (the oracle is the spec)
        "rule": VALUES + "Library bytes vs Spec.render of the committed Pinned schema (canonical AND non-canonical values); library decode vs "
                "decode under Pinned of the produced bytes with trailing data and of mutated encodings. distinct = (type, outcome, length class).",
        "assumptions": ["Pinned.lean is a reviewed snapshot of the pinned commit (the .pdsl sources are not in the tree): a layout error already "
                        "present in the generator's output at that commit is invisible to this property"],
    },
    "C03": {
        "ir_theorems": IR_A + IR_C + IR_D + [_G + "encOp_ir", _G + "decOp_ir", "FinProto.Obl.encOp_ir_repo", "FinProto.Obl.decOp_ir_repo"],
        "theorems": ["FinProto.Obl.C03_prims", "FinProto.Obl.C03_messages", "FinProto.Obl.C03_no_unrecognised_statement", "FinProto.Obl.C03_scalar", "FinProto.toE_le_eq_reverse_be", "FinProto.writeNums_ok", "FinProto.writeVstr_ok", "FinProto.writeFixeds_ok", "FinProto.writeVstrs_ok", "FinProto.writeNums_le_be", "FinProto.writeNums_is", "FinProto.readNums_is", "FinProto.writeVstrs_is", "FinProto.readVstrs_is", "FinProto.writeFixeds_is", "FinProto.readFixeds_is", "FinProto.writeNums_mixed_differs", "FinProto.writeVstr_le_be", "FinProto.writeFixeds_le_be", "FinProto.writeVstrs_le_be",
                     "FinProto.Obl.C03_nosvc", "FinProto.encodeNS_spec", "FinProto.encFrameNS_spec"],
        "aspects": {**ENC_BYTES, **DEC_ALL, "encns": [0, 1]},
        "rule": "every BE/LE primitive pair x prefix widths {1,2,4,8} x element kinds {u8..u64,i8..i64,f32,f64 and NAMED numeric types} x "
                "values with counts >= 2 and lengths >= 256 (count 1 and palindromic values cannot see byte order); the LE bytes must be the BE "
                "bytes with each integer reversed; plus messages of all types vs the model; the checksummed frames encoded while NO checksum service is registered (the caller's "
                "checksum is written: byte order of that path). distinct = (op, kind, outcome, length class).",
    },
    "C04": {
        "theorems": ["FinProto.Obl.C04_frames_recognised", "FinProto.Obl.C04_repo", "FinProto.Obl.C04_shape", "FinProto.frame_len_exact", "FinProto.frame_shape", "FinProto.patch_mid", "FinProto.Obl.C04_nosvc", "FinProto.encFrameNS_frame"],
        "aspects": {**ENC_ALL, "encns": [0, 1, 2]},
        "rule": "the 4 self-measuring frames x every body type of their tables x {stale length/checksum, absent body, unregistered key} x "
                "bodies of 30/120/300 elements (> 1 KiB: the buffer reallocates while the body is written) x buffer histories; the length on the "
                "wire, the object's field and an independent count must agree; re-encode after a size-preserving change.",
    },
    "C05": {
        "ir_theorems": [_G + "cks_ir", "FinProto.Obl.cks_ir_repo"],
        "theorems": ["FinProto.Obl.C05_frames_recognised", "FinProto.Obl.C05_repo", "FinProto.Obl.C05_calc_bodies", "FinProto.Obl.C05_sse_alg", "FinProto.Obl.C05_szse_alg", "FinProto.Obl.C05_crc32_alg", "FinProto.frame_cks_exact", "FinProto.frame_shape"],
        "aspects": {**ENC_ALL},
        "rule": "as C04 for the 3 checksummed frames; the trailer and the object's field must equal an independent byte sum / bitwise CRC-32 of "
                "exactly this frame's bytes (corrected length included, earlier buffer content excluded), incl. frames > 1 KiB of heavy bytes.",
    },
    "C06": {
        "ir_theorems": [_G + "encOp_ir", _G + "encOp_ir_default", "FinProto.Obl.encOp_ir_repo"],
        "theorems": ["FinProto.Obl.C06_no_unrecognised_statement", "FinProto.Obl.C06_mirror", "FinProto.Obl.C06_ctxFree", "FinProto.Obl.C06_append_only", "FinProto.Obl.C06_context_free", "FinProto.Obl.C06_idempotent", "FinProto.Obl.C06_concat", "FinProto.ctxFree_encTy", "FinProto.enc_idempotent", "FinProto.enc_concat"],
        "aspects": {**ENC_ALL},
        "rule": VALUES + "every type, shuffled so that messages with different pad bytes / algorithms follow each other in one process; "
                "appended bytes == encoding into an empty buffer; prior bytes untouched; encode again == same; one object twice into one "
                "buffer; a 400-message sequence into one partially consumed buffer == concatenation.",
    },
    "C07": {
        "ir_theorems": [_G + "decOp_ir", "FinProto.Obl.decOp_ir_repo"],
        "theorems": ["FinProto.Obl.C07_mirror", "FinProto.Obl.C07_prefix", "FinProto.Obl.C07_repo", "FinProto.Obl.C07_stream", "FinProto.obl_decTy", "FinProto.dec_extend", "FinProto.stream", "FinProto.dec_stream"],
        "aspects": {**DEC_ALL},
        "rule": VALUES + "each encoding followed by {0, 1..15, 16..80} arbitrary bytes: consumed == message length, rest untouched; a stream "
                "of mixed messages recovered by successive decodes from one buffer.",
    },
    "C08": {
        "ir_theorems": [_G + "encOp_ir", _G + "encOp_ir_default", _G + "decOp_ir", "FinProto.Obl.encOp_ir_repo", "FinProto.Obl.decOp_ir_repo"],
        "theorems": ["FinProto.Obl.C08_mirror", "FinProto.Obl.C08_framesTop", "FinProto.Obl.C08_repo", "FinProto.Obl.C08_frames", "FinProto.Obl.C08_frames_iff", "FinProto.dec_enc", "FinProto.dec_enc_frame", "FinProto.writeFixed_trim"],
        "aspects": {**DEC_ALL, **ENC_ALL},
        "rule": "valid encodings of all types with pad/NUL/space/0xFF/random bytes sprinkled over them (accepted byte strings the encoder "
                "would not produce); every accepted one is re-encoded and compared with the consumed bytes (frames: length/checksum "
                "fields may only be replaced by their correct values).",
    },
    "C09": {
        "ir_theorems": [_G + x for x in ("ir_readScalar", "ir_readVstr", "ir_readFixed", "ir_readNums", "ir_readFixeds", "ir_readVstrs", "ir_readObjs")],
        "theorems": ["FinProto.Obl.C09_widths", "FinProto.Obl.C09_elems", "FinProto.Obl.C09_no_unrecognised_statement", "FinProto.Obl.C09_no_panic", "FinProto.dec_no_panic", "FinProto.dec_ok_or_err", "FinProto.Obl.C09_linear_time", "FinProto.Obl.C09_cost_projection", "FinProto.decTyC_steps_linear", "FinProto.repIters_le"],
        "aspects": {**DEC_CLASS},
        "extra_race": "C09PAR",
        "rule": "malformed stream into all 170 decoders: bit flips, random windows, pad sprinkles, truncations (every cut in the first 24 and last "
                "12 bytes), 0xFF windows, random bytes, maximal length/count prefixes followed by 0/1/3/40 bytes; outcome class compared with "
                "the model's; panics and hangs (60 s watchdog) are violations. Second pass under the race detector: 16 goroutines "
                "decode the same hostile inputs (unregistered discriminators, truncations, bit flips, random bytes) at the same moment; a process "
                "abort (fatal error: concurrent map writes), a data race on an error path, or an outcome differing from the sequential one is a violation.",
        "assumptions": ["a Go runtime abort that is not a panic (out-of-memory kill) is C10's subject"],
    },
    "C10": {
        "theorems": ["FinProto.Obl.C10_prims", "FinProto.Obl.C10_widths", "FinProto.Obl.C10_elems", "FinProto.Obl.C10_projection", "FinProto.Obl.C10_request_local", "FinProto.Obl.C10_total_linear",
                     "FinProto.decTyC_fst", "FinProto.decTyC_maxReq", "FinProto.decTyC_alloc_linear"],
        "aspects": {**DEC_CLASS},
        "rule": "hostile short inputs (every length/count prefix of a valid encoding set to 0xFFFFFFFF/0x7FFFFFFF/0x04000000/0xFFF0/0x8000, "
                "followed by 0/1/3/40 bytes) x buffers {exact, 1 MiB stale spare capacity, consumed prefix}; runtime.MemStats.TotalAlloc "
                "delta of the Decode call must stay below 8192 + 64*len(input).",
        "assumptions": ["the model counts requested bytes; the Go allocator's rounding and GC are outside it"],
    },
    "C11": {
        "ir_theorems": [_G + "decOp_ir", "FinProto.Obl.decOp_ir_repo"],
        "theorems": ["FinProto.Obl.C11_mirror", "FinProto.Obl.C11_repo", "FinProto.truncated_rejected", "FinProto.dec_truncated_not_ok", "FinProto.dec_no_panic"],
        "aspects": {**DEC_CLASS},
        "rule": "every cut position 0..len-1 of valid encodings of all types and all keys (sampled for encodings > 600 bytes in the quick tier), "
                "in exact buffers and in reused receive buffers whose spare capacity holds stale bytes.",
    },
    "C12": {
        "theorems": ["FinProto.Obl.C12_tables", "FinProto.Obl.C12_types", "FinProto.Obl.C12_mirror", "FinProto.Obl.C12_refs", "FinProto.Obl.C12_dec_builds_table_type", "FinProto.Obl.C12_dec_unknown_is_error", "FinProto.dec_union_ok", "FinProto.dec_union_unknown", "FinProto.enc_union_nil", "FinProto.lookup_last_wins", "FinProto.decTy_ok_msg"],
        "aspects": {**ENC_ALL, **DEC_ALL, **OTHER},
        "rule": "all 18 tables x all 226 registered keys (decode builds the pinned type; encoder fills in the same type for an absent body; "
                "round trip) x unregistered keys (key+-1, shifted, random; text keys with one byte replaced by : / ; 0 9 A space NUL +-1 +-10, "
                "digit-arithmetic aliases, trimmed/lower-cased) decoded four times through fresh and reused receivers.",
    },
    "C13": {
        "ir_theorems": IR_B + [_G + "ir_writeFixeds", _G + "ir_readFixeds"],
        "theorems": ["FinProto.Obl.C13_fixed_fields", "FinProto.Obl.C13_prims", "FinProto.writeFixed_length", "FinProto.writeFixed_long", "FinProto.writeFixed_exact", "FinProto.writeFixed_short_left", "FinProto.writeFixed_short_right", "FinProto.trimL_spec", "FinProto.trimR_spec", "FinProto.readFixed_eq", "FinProto.trim_writeFixed", "FinProto.writeFixed_trim", "FinProto.writeFixeds_ok", "FinProto.readFixeds_writeFixeds"],
        "aspects": {**ENC_BYTES, **DEC_ALL},
        "rule": "N in 0..40 x pad bytes {space,'0',NUL,0xE9,0x80,0xFF,'A',0xC3,0xA9,random} x both sides x text generator (incl. multi-byte "
                "runes); reads of arbitrary N-byte fields; exhaustive for N<=2 over strings of length <=2 (<=3 thorough) over {pad,'a',NUL,0xC3}.",
    },
    "C14": {
        "ir_theorems": IR_E + [_G + "cks_ir", "FinProto.Obl.cks_ir_repo"],
        "theorems": ["FinProto.Obl.C14_calc_bodies", "FinProto.crc16_template_is", "FinProto.sse_template_is", "FinProto.szse_template_is", "FinProto.sseGo_eq", "FinProto.sseGo_lt", "FinProto.szseGo_eq", "FinProto.szseGo_lt", "FinProto.crc16Go_eq_modbus", "FinProto.crc32Go_eq_ieee"],
        "aspects": {**OTHER},
        "rule": "4 algorithms x all byte strings of length <= 2 against independent references (<= 3 in the thorough tier), random lengths to "
                "70 KB incl. all-high-bit bytes, runs of one byte up to 8,421,760 (33 MiB thorough), buffer unchanged and result repeatable, "
                "same backing array and length with new contents.",
        "assumptions": ["CRC-32: the Go body is a call into hash/crc32; the model is the bitwise reference and the tie is this differential run"],
    },
    "C15": {
        "theorems": ["FinProto.Obl.C15_fields_assigned", "FinProto.Obl.C15_repo", "FinProto.Obl.C15_plain", "FinProto.decTyR_eq", "FinProto.dec_receiver_irrelevant"],
        "aspects": {**DEC_ALL},
        "rule": "every type: bytes decoded into receivers that hold a larger earlier message / an earlier successful decode / a decode that "
                "failed half way / a truncated decode of the same bytes, compared with a fresh receiver and with the model.",
    },
    "C16": {
        "theorems": ["FinProto.Obl.C16_readString_copying", "FinProto.Obl.C16_readFixed_copying", "FinProto.Obl.C16_readBasic_copying", "FinProto.Obl.C16_no_unrecognised_statement", "FinProto.Obl.C16_readers_copying", "FinProto.Obl.C16_readers_immune",
                     "FinProto.Alias.noalias_return", "FinProto.Alias.decode_immune_clean", "FinProto.Alias.ret_region_ne_buf", "FinProto.Alias.copyOfView_retClean", "FinProto.Alias.subOfView_not_retClean", "FinProto.Alias.unsafeOfView_not_retClean", "FinProto.Alias.decode_immune", "FinProto.Alias.return_observable", "FinProto.Alias.view_aliases",
                     "FinProto.Alias.encode_immune", "FinProto.Alias.encode_immune_contents"],
        "aspects": {**ENC_ALL},
        "rule": "every type: decode from a harness-owned slice, snapshot, overwrite the whole backing array and reuse the buffer; mutate and "
                "append to every list/text/nested part of the decoded message and compare the source bytes; encode, mutate the message, "
                "compare the written bytes; long texts (>= 64 bytes) and lists of 12.",
        "assumptions": ["the Lean model has no addresses: the theorem is about value semantics, the facts and this dynamic run carry the aliasing part"],
    },
    "C17": {
        "theorems": ["FinProto.Obl.C17_guards", "FinProto.Obl.C17_repo", "FinProto.enc_no_panic", "FinProto.enc_no_panic_of_mirrorOK"],
        "aspects": {**ENC_CLASS, "zero": [0, 1]},
        "rule": "every type: zero value, constructor result, random non-canonical values, values with nil in half of the pointer/interface "
                "fields, multi-byte text in every text field, absent body with each registered and 8 unregistered keys; outcome class vs model.",
    },
    "C18": {
        "ir_theorems": [_G + x for x in ("ir_writeLen", "ir_writeVstr", "ir_writeNums", "ir_writeFixeds", "ir_writeVstrs", "ir_writeObjs")],
        "theorems": ["FinProto.Obl.C18_prims", "FinProto.Obl.C18_no_unrecognised_statement", "FinProto.writeLen_ok", "FinProto.writeLen_err", "FinProto.writeVstr_err", "FinProto.writeList_err", "FinProto.writeNums_err", "FinProto.writeFixeds_err", "FinProto.writeVstrs_err", "FinProto.writeVstrs_err_elem", "FinProto.readVstr_writeVstr", "FinProto.readNums_writeNums", "FinProto.readFixeds_writeFixeds", "FinProto.readVstrs_writeVstrs"],
        "aspects": {**ENC_BYTES, **DEC_ALL},
        "rule": "every prefixed primitive x prefix widths {1,2} x lengths {max-1,max,max+1,max+2,2max+1,2max+2,max+4} x both byte orders x "
                "element kinds {u8,u32,NamedU8,i16}; an over-long element inside a string list; every message field with an 8/16-bit prefix at "
                "and beyond the limit (32-bit boundaries by theorem only).",
    },
    "C19": {
        "theorems": ["FinProto.Reg.mutual_exclusion", "FinProto.Reg.write_needs_lock", "FinProto.Reg.linearizable", "FinProto.Reg.real_time_order", "FinProto.Reg.ret_before_inv_lin", "FinProto.Reg.thread_projection", "FinProto.Reg.reg_winner_unique", "FinProto.Reg.reg_winner_unique_run", "FinProto.Reg.get_after_reg", "FinProto.Reg.reg_fails_when_present", "FinProto.Reg.get_right_name",
                     "FinProto.Obl.C19_wellBracketed", "FinProto.Obl.C19_progs_pinned", "FinProto.Obl.C19_mutual_exclusion", "FinProto.Obl.C19_write_needs_lock",
                     "FinProto.Obl.C19_linearizable", "FinProto.Obl.C19_real_time", "FinProto.Reg.pmutual_exclusion", "FinProto.Reg.plinearizable",
                     "FinProto.Reg.pinned_atomic", "FinProto.Reg.pinned_linearizable", "FinProto.Reg.preal_time", "FinProto.Reg.badRegShared_not_linearizable"],
        "race": True,
        "aspects": {**OTHER},
        "rule": "sequential histories of 1..14 Registry/Get/Remove/Clear calls over 3 names vs the model's map specification; concurrent "
                "histories (4-5 goroutines x 6-7 calls over 2 names) recorded and checked for linearizability with porcupine; 8 goroutines "
                "registering one fresh name at once (exactly one winner, look-up returns it); 8 goroutines looking up two names; all under the "
                "race detector.",
        "assumptions": ["sync.RWMutex provides the modelled exclusion and the Go memory model's happens-before edges"],
    },
    "C20": {
        "theorems": ["FinProto.Obl.C20_repo", "FinProto.Par.par_eq_seq", "FinProto.Par.sched_irrelevant", "FinProto.Par.workers_par_eq_seq"],
        "race": True,
        "history": True,
        "aspects": {**ENC_ALL, **DEC_ALL},
        "rule": "all types (3-20 values each, mixed protocols, pad bytes and checksum algorithms) encoded and decoded by 16 goroutines on "
                "their own objects and buffers, in different orders, compared with the sequential results; under the race detector. History independence: the same raw field bytes read / texts written "
                "under every pad byte and pad side, interleaved, and messages whose text fields all hold the same few raw strings decoded back to back, "
                "compared with the stateless model.",
        "assumptions": ["the Go memory model; the theorem and the effect inventory say there is nothing shared to race on"],
    },
}



LOCK_PROGS = {
    "Registry": ["Lock", "defer Unlock", "map-load", "return", "map-store", "return", "return"],
    "Get": ["RLock", "defer RUnlock", "map-load", "return", "return"],
    "Remove": ["Lock", "defer Unlock", "map-delete"],
    "Clear": ["Lock", "defer Unlock", "map-replace"],
}
PREFIX_WRITERS = ["WriteBasicTypeList", "WriteBasicTypeListLE", "WriteString", "WriteStringLE", "WriteFixedStringListWithPadding",
                  "WriteFixedStringListWithPaddingLE", "WriteStringList", "WriteStringListLE", "WriteObjectList", "WriteObjectListLE"]
REGISTRY_FUNCS = ("Registry", "Get", "Remove", "Clear", "init")


def check_facts(pid, facts):
    """facts obligations of a property: list of (name, ok, detail); ok is True / False (recognised and contradicting the
    expectation: breaks the obligation) / None (shape not recognised: left to the correspondence check, reported)."""
    out = []
    codec = facts.get("codec", {})
    if pid in ("C01", "C02", "C03", "C04", "C05", "C06", "C07", "C08", "C09", "C10", "C11", "C12", "C15", "C17", "C18"):
        # the two translators (shape recognisers / symbolic executor) must agree wherever both read a body completely
        sd = facts.get("translator_disagreements") or []
        out.append(("translators-agree", False if sd else True, "%s" % (sd[:5] or "all bodies both read completely are read alike")))
    if not codec:
        return [("facts-extracted", None, "no facts")]

    def fn(name):
        return codec.get(name)

    if pid in ("C03", "C10", "C13", "C18"):
        # template translation of the primitives (the agreement itself is kernel-evaluated: Obl.gen_prims_agree); here only
        # the report of which primitives were not recognised and are therefore judged by the correspondence alone
        unk = sorted(n for n, d in facts.get("prim_defs", {}).items() if d in (".unknown", ".missing"))
        out.append(("template-translated-primitives", None if unk else True,
                    "%d of %d primitives recognised%s" % (len(facts.get("prim_defs", {})) - len(unk), len(facts.get("prim_defs", {})),
                                                          "; unrecognised (left to the correspondence): " + ", ".join(unk) if unk else "")))
    if pid == "C02":
        want = {"bjse-trade-bin": "bse_trade_bin_v0.9.pdsl", "risk-bin": "risk_v0.1.0.pdsl", "sample-bin": "sample.pdsl",
                "sse-bin": "sse_bin_v0.57.pdsl", "szse-bin": "szse_bin_v1.29.pdsl"}
        got = facts.get("proto_dsl", {})
        for mod, dsl in sorted(want.items()):
            out.append(("pinned-protocol-version:" + mod, True if got.get(mod) == dsl else False, "Makefile PROTO_DSL = %s" % got.get(mod)))
    if pid == "C03":
        for name, f in sorted(codec.items()):
            if not (name.startswith("Read") or name.startswith("Write")):
                continue
            le = name.endswith("LE")
            want = "LittleEndian" if le else "BigEndian"
            bad = [o for o in f["orders"] if o != want]
            helpers = [c for c in f["callees"] if c in ("WriteBasicType", "ReadBasicType", "WriteBasicTypeLE", "ReadBasicTypeLE")]
            badh = [c for c in helpers if c.endswith("LE") != le]
            ok = not bad and not badh
            out.append(("byte-order:" + name, True if ok else False, "orders=%s helpers=%s" % (f["orders"], helpers)))
    if pid == "C10":
        for name, f in sorted(codec.items()):
            if not name.startswith("Read"):
                continue
            for m in f["makes"]:
                if m.startswith("unguarded"):
                    out.append(("alloc-guard:" + name, False, m))
                elif m.startswith("unknown"):
                    out.append(("alloc-guard:" + name, None, m))
                else:
                    out.append(("alloc-guard:" + name, True, m))
            views = [v for v in f["buf_views"] if v in ("buf.Available", "buf.Cap", "buf.AvailableBuffer")]
            if views:
                out.append(("alloc-guard:" + name, False, "capacity-based bound %s (spare capacity is not input)" % views))
    if pid in ("C14", "C05"):
        want = {"Crc16ChecksumService": "CRC16", "Crc32ChecksumService": "CRC32", "SseBinChecksumService": "SSE_BIN", "SzseBinChecksumService": "SZSE_BIN"}
        got = facts.get("algorithms", {})
        for svc, alg in sorted(want.items()):
            out.append(("algorithm-name:" + svc, True if got.get(svc) == alg else (None if svc not in got else False), "Algorithm() = %r" % got.get(svc)))
        regs = facts.get("init_registrations") or []
        for svc in sorted(want):
            ok = any(svc in r and r.startswith("Registry(") for r in regs)
            out.append(("registered-at-init:" + svc, True if ok else False, "init: %s" % regs))
    if pid == "C14":
        for name, calls in sorted(facts.get("calc", {}).items()):
            ok = set(calls) <= {"data.Bytes", "data.Len"}
            out.append(("calc-pure:" + name, True if ok else False, "calls on the argument: %s" % calls))
        for name, f in sorted(codec.items()):
            if name.endswith(".Calc"):
                out.append(("calc-stateless:" + name, False if f["uses_global"] else True, "package-level variables used: %s" % f["uses_global"]))
    if pid == "C16":
        for pkg, imps in sorted(facts.get("imports", {}).items()):
            bad = [i for i in imps if i in ("unsafe", "reflect")]
            out.append(("no-unsafe:" + pkg, False if bad else True, "imports %s" % bad))
        for name, f in sorted(codec.items()):
            if name.startswith("Read"):
                views = [v for v in f["buf_views"] if v in ("buf.Bytes", "buf.Next", "buf.AvailableBuffer") or v.startswith("unsafe")]
                # informational when a view is taken: whether the RETURNED value can point into the buffer is decided in Lean on
                # the regenerated memory programs (Obl.C16_readers_copying: Prog.retClean); string(buf.Next(n)) is a copy
                out.append(("reader-copies:" + name, None if views else True, "views of the buffer's memory: %s" % views))
    if pid == "C18":
        for name in PREFIX_WRITERS:
            f = fn(name)
            if f is None:
                out.append(("len-check:" + name, None, "function not found"))
                continue
            # through unexported helpers of the package: the prefix must be written by writeLen somewhere below, and no
            # function on the way may convert a length to the prefix type unchecked
            seen, todo, unchecked = set(), [name], []
            while todo:
                g = todo.pop()
                if g in seen or fn(g) is None:
                    continue
                seen.add(g)
                unchecked += fn(g)["len_conv"]
                todo += [c for c in fn(g)["callees"] if c != "writeLen"]
            reaches = any("writeLen" in fn(g)["callees"] for g in seen)
            ok = False if unchecked else (True if reaches else None)   # neither: a shape the extractor does not know
            out.append(("len-check:" + name, ok, "callees=%s unchecked=%s" % (sorted(seen - {name}) + (["writeLen"] if reaches else []), unchecked)))
        f = fn("writeLen")
        out.append(("len-check:writeLen", True if f is not None else None, "present" if f is not None else "missing"))
    if pid == "C19":
        for name, want in LOCK_PROGS.items():
            got = facts.get("lock_progs", {}).get(name)
            # informational: the obligation proper is the Lean check on the structured programs (wellBracketed Gen.lockProgs,
            # Gen.lockProgs = pinnedProgs); a flat token list that differs only says the source was rearranged
            out.append(("lock-program:" + name, True if got == want else None, "%s" % got))
    if pid in ("C20", "C06"):
        for g in facts.get("globals", []):
            writers = sorted({w["func"] for w in g["writes"]})
            if g["pkg"] == "codec":
                ok = set(writers) <= {"Registry", "Remove", "Clear"}
            else:
                ok = all(w.startswith("Registry") and w.endswith("Factory") for w in writers)
            out.append(("global-writes:%s.%s" % (g["pkg"], g["name"]), True if ok else False, "written by %s" % writers))
        for name, f in sorted(codec.items()):
            if name in REGISTRY_FUNCS or name.split(".")[-1] == "Algorithm":
                continue
            if f["uses_global"]:
                out.append(("stateless:" + name, False, "uses package-level %s" % f["uses_global"]))
        out.append(("stateless:codec-primitives", True, "%d functions inspected" % len(codec)))
    if pid == "C20":
        for mut, callers in sorted(facts.get("callers_of_mutators", {}).items()):
            ok = all(c.endswith(".init") for c in callers)
            out.append(("mutator-callers:" + mut, True if ok else False, "called from %s" % callers))
        gs = facts.get("go_statements") or []
        out.append(("no-hidden-concurrency", False if gs else True, "%s" % gs))
    return out
