package main

import (
	"bytes"
	"fmt"
	"runtime"
)

// accepted byte strings that the library's own encoder would not produce: pad bytes / NULs / spaces in text fields,
// random scalars, wrong length / checksum fields in frames
func acceptedVariants(g *Gen, enc []byte) [][]byte {
	var out [][]byte
	out = append(out, enc)
	for k := 0; k < 4; k++ {
		d := append([]byte{}, enc...)
		if len(d) == 0 {
			break
		}
		for j := 0; j < 1+g.r.Intn(1+len(d)/6); j++ {
			d[g.r.Intn(len(d))] = []byte{' ', 0, '0', 0xFF, 0x80, 'A', byte(g.r.Intn(256))}[g.r.Intn(7)]
		}
		out = append(out, d)
	}
	return out
}

// ---- C08: decode then encode reproduces the accepted bytes ----
func init() {
	suites["C08"] = func(o *Out, g *Gen, thorough bool) map[string]any {
		per := 12
		if thorough {
			per = 200
		}
		accepted := 0
		for _, v := range canonValues(g, per) {
			t := schema.Types[v.Ty]
			r := goEnc(v, nil, BufMode{})
			if r.Class != "ok" {
				continue
			}
			variants := acceptedVariants(g, r.Appended)
			// bytes the pinned schema prescribes for values with INCONSISTENT fields (a text-length field of 0 next to a non-empty
			// text, zero scalars, …): accepted input that this library's own encoder might not produce
			for k := 0; k < 2; k++ {
				v2 := g.msg(v.Ty, k == 0, 0)
				for fi, op := range t.fieldOps() {
					if op.K == "scalar" && g.r.Intn(3) == 0 {
						v2.Fs[fi] = &Val{K: 'n'}
					}
				}
				if b, ok := renderPinned(v2); ok {
					variants = append(variants, b)
				}
			}
			if t.Frame != nil && len(r.Appended) >= hdrSize(t.Frame)+4+t.Frame.CksW {
				// a frame whose length field claims MORE (or less) than the body's structural size, with that many bytes present
				H := hdrSize(t.Frame)
				real := getUint(r.Appended[H:H+4], t.Frame.E)
				for _, k := range []int{1, 2, 7} {
					d := append([]byte{}, r.Appended[:len(r.Appended)-t.Frame.CksW]...)
					putUint(d[H:H+4], t.Frame.E, real+uint64(k))
					d = append(d, g.bytes(k, ' ')...)
					d = append(d, r.Appended[len(r.Appended)-t.Frame.CksW:]...)
					variants = append(variants, d)
					if real >= uint64(k) {
						d2 := append([]byte{}, r.Appended...)
						putUint(d2[H:H+4], t.Frame.E, real-uint64(k))
						variants = append(variants, d2)
					}
				}
			}
			for _, data0 := range variants {
				data := append(append([]byte{}, data0...), g.prefix()...)
				d := corrDec(o, v.Ty, data, g.mode())
				if d.Class != "ok" {
					continue
				}
				accepted++
				consumed := append([]byte{}, data[:d.Consumed]...)
				// decode once more from a buffer the harness owns and overwrite / reuse that buffer before re-encoding: the
				// decoded message must carry everything it needs (a zero-copy field would re-encode the NEW buffer content)
				own := append(make([]byte, 0, len(data)+32), data...)
				ob := bytes.NewBuffer(own)
				obj := typeCtors[v.Ty]()
				if c, _ := guard(func() error { return obj.(decoder).Decode(ob) }); c == "ok" {
					scribble(own)
					ob.Reset()
					ob.Write(bytes.Repeat([]byte{0x55}, len(data)))
					if held := goEncObj(obj, nil, BufMode{}); held.Class == "ok" {
						want := append([]byte{}, consumed...)
						got := held.Appended
						if t.Frame != nil && len(want) == len(got) && len(got) >= hdrSize(t.Frame)+4+t.Frame.CksW {
							H := hdrSize(t.Frame)
							copy(want[H:H+4], got[H:H+4])
							if t.Frame.CksW > 0 {
								copy(want[len(want)-4:], got[len(got)-4:])
							}
						}
						if !bytes.Equal(want, got) {
							o.violate(Violation{Property: "C08", Kind: "direct", What: "re-encoding a decoded message after its source buffer was reused does not reproduce the consumed bytes",
								Case: fmt.Sprintf("dec %d %s", v.Ty, hexOf(data)), Expected: hexOf(consumed), Observed: hexOf(got), Key: "reuse:" + t.QName()})
						}
					}
				}
				re := corrEnc(o, d.Val, nil, g.mode())
				if re.Class != "ok" {
					o.violate(Violation{Property: "C08", Kind: "direct", What: "a decoded message does not re-encode: " + re.Class,
						Case: fmt.Sprintf("dec %d %s", v.Ty, hexOf(data)), Key: "reenc:" + t.QName()})
					continue
				}
				want := append([]byte{}, consumed...)
				got := append([]byte{}, re.Appended...)
				if t.Frame != nil && len(want) == len(got) && len(got) >= hdrSize(t.Frame)+4+t.Frame.CksW {
					// the only permitted differences: self-computed length / checksum replaced by their correct values
					H := hdrSize(t.Frame)
					copy(want[H:H+4], got[H:H+4])
					if t.Frame.CksW > 0 {
						copy(want[len(want)-4:], got[len(got)-4:])
					}
				}
				if !bytes.Equal(want, got) {
					o.violate(Violation{Property: "C08", Kind: "direct", What: "re-encoding a decoded message does not reproduce the consumed bytes",
						Case: fmt.Sprintf("dec %d %s", v.Ty, hexOf(data)), Expected: hexOf(consumed), Observed: hexOf(re.Appended), Key: "bytes:" + t.QName()})
				}
			}
		}
		return map[string]any{"accepted": accepted}
	}
}

// malformed inputs for a decoder
func malformed(g *Gen, enc []byte, n int) [][]byte {
	var out [][]byte
	for i := 0; i < n; i++ {
		switch {
		case len(enc) == 0 || g.r.Intn(6) == 0:
			out = append(out, g.bytes(g.r.Intn(80), ' '))
		default:
			out = append(out, mutateBytes(g, enc))
		}
	}
	return out
}

// hostile inputs: a valid encoding cut right after a length/count prefix that has been set to a large value
func hostile(g *Gen, v *Val, enc []byte) [][]byte {
	var spans []Span
	sizeOfMsg(v, 0, &spans)
	var out [][]byte
	// a self-measuring frame's own length field is a claimed length too (a decoder that trusts it carves, skips or
	// allocates by it): hostile values there are followed by the WHOLE rest of the frame as well
	frameLen := -1
	if t := schema.Types[v.Ty]; t.Frame != nil {
		off := 0
		for _, h := range t.Frame.Hdr {
			off += h.W
		}
		spans = append(spans, Span{off, t.Frame.LenW, t.Frame.E, "len"})
		frameLen = len(spans) - 1
	}
	if t := schema.Types[v.Ty]; t.Frame != nil && frameLen >= 0 && t.Frame.Key < len(t.Frame.Hdr) {
		// … and so it is when the message type is NOT registered (a decoder that skips the unknown body by its claimed size)
		ls := spans[frameLen]
		koff := 0
		for _, h := range t.Frame.Hdr[:t.Frame.Key] {
			koff += h.W
		}
		kw := t.Frame.Hdr[t.Frame.Key].W
		if ls.Off+ls.W <= len(enc) && koff+kw <= len(enc) {
			for _, val := range []uint64{^uint64(0), 0x7FFFFFFF, 0x80000000, 0x04000000, 0xFFF0} {
				for _, follow := range []int{0, 3, len(enc)} {
					d := append([]byte{}, enc[:min(len(enc), ls.Off+ls.W+follow)]...)
					putUint(d[koff:], t.Frame.Hdr[t.Frame.Key].E, 0xFFFFFFFE&maxOf(kw))
					putUint(d[ls.Off:], ls.E, val)
					out = append(out, d)
				}
			}
		}
	}
	for si, s := range spans {
		if s.Off+s.W > len(enc) {
			continue
		}
		vals := []uint64{^uint64(0), 0x7FFFFFFF, 0x04000000, 0xFFF0, 0x8000}
		follows := []int{0, 1, 3, 40}
		if si == frameLen {
			cur := getUint(enc[s.Off:s.Off+s.W], s.E)
			vals = append(vals, 0x80000000, 0xFF000000|(cur&0xFFFF), 0x80000000|cur, cur+1, cur-1, cur+4, 0)
			follows = append(follows, len(enc))
		}
		for _, val := range vals {
			for _, follow := range follows {
				d := append([]byte{}, enc[:s.Off+s.W]...)
				putUint(d[s.Off:], s.E, val)
				end := s.Off + s.W + follow
				if end > len(enc) {
					end = len(enc)
				}
				d = append(d, enc[s.Off+s.W:end]...)
				out = append(out, d)
			}
		}
	}
	return out
}

// ---- C09: decoding arbitrary bytes never panics or hangs ----
func init() {
	suites["C09"] = func(o *Out, g *Gen, thorough bool) map[string]any {
		per, nm := 6, 14
		if thorough {
			per, nm = 60, 40
		}
		for _, t := range schema.Types {
			for i := 0; i < per; i++ {
				v := g.msg(t.ID, true, 0)
				r := goEnc(v, nil, BufMode{})
				if r.Class != "ok" {
					continue
				}
				inputs := malformed(g, r.Appended, nm)
				// every truncation inside the first 24 bytes and the last 12
				for k := 0; k < len(r.Appended) && k < 24; k++ {
					inputs = append(inputs, r.Appended[:k])
				}
				for k := len(r.Appended) - 12; k < len(r.Appended); k++ {
					if k >= 24 {
						inputs = append(inputs, r.Appended[:k])
					}
				}
				if i == 0 {
					inputs = append(inputs, hostile(g, v, r.Appended)...)
					// every kind of unregistered / blank / odd discriminator, as the pinned layout puts it on the wire
					for fi, op := range t.fieldOps() {
						if op.K != "union" {
							continue
						}
						kop := t.fieldOps()[op.Key]
						for _, kv := range nearMissKeys(g, schema.Tables[op.Tbl]) {
							if kop.K == "scalar" {
								kv.N &= maxOf(kop.W)
							} else if len(kv.S) > kop.N {
								continue
							}
							bad := v.clone()
							bad.Fs[op.Key] = kv
							_ = fi
							if wire, ok := renderPinned(bad); ok {
								inputs = append(inputs, wire)
							}
						}
					}
				}
				for _, data := range inputs {
					d := corrDec(o, t.ID, data, g.mode())
					if d.Class == "panic" {
						o.violate(Violation{Property: "C09", Kind: "direct", What: "decoder panicked: " + d.PanicMsg,
							Case: fmt.Sprintf("dec %d %s", t.ID, hexOf(data)), Key: "panic:" + t.QName()})
					}
				}
			}
		}
		return nil
	}
}

// ---- C10: allocation proportional to the input ----
func allocBound(n int) uint64 { return 8192 + 64*uint64(n) }

func init() {
	suites["C10"] = func(o *Out, g *Gen, thorough bool) map[string]any {
		per := 2
		if thorough {
			per = 12
		}
		var worst uint64
		worstCase := ""
		gross := 0
		modes := []BufMode{{0, 0, false}, {0, 1 << 20, true}, {9, 1 << 16, false}}
	types:
		for _, t := range schema.Types {
			for i := 0; i < per; i++ {
				v := g.msg(t.ID, true, 0)
				r := goEnc(v, nil, BufMode{})
				if r.Class != "ok" {
					continue
				}
				inputs := hostile(g, v, r.Appended)
				inputs = append(inputs, r.Appended)
				inputs = append(inputs, malformed(g, r.Appended, 4)...)
				for _, data := range inputs {
					for _, m := range modes {
						line := fmt.Sprintf("dec %d %s", t.ID, hexOf(data))
						begin(line)
						obj := typeCtors[t.ID]()
						d := goDecInto(obj, data, m, true)
						// TotalAlloc counts every goroutine: confirm a large reading by re-measuring (minimum of up to 4 runs)
						for retry := 0; retry < 3 && d.Alloc > 2048+16*uint64(len(data)) && d.Alloc < 64<<20; retry++ {
							d2 := goDecInto(typeCtors[t.ID](), data, m, true)
							if d2.Alloc < d.Alloc {
								d.Alloc = d2.Alloc
							}
						}
						o.emit(line, d.Line(), fmt.Sprintf("alloc:%d:%s:%s:%d", t.ID, d.Class, lenClass(len(data)), m.Spare), true)
						// the cost model's predicted allocation vs the measured one (one-sided: measured <= 4*predicted + 4096)
						o.emit(fmt.Sprintf("cost %d %s", t.ID, hexOf(data)), fmt.Sprintf("ok | %d", d.Alloc), fmt.Sprintf("cost:%d:%s", t.ID, d.Class), true)
						o.stat("dec-" + d.Class)
						if d.Class == "panic" {
							continue // C09's subject
						}
						if d.Alloc > worst {
							worst, worstCase = d.Alloc, line
						}
						if d.Alloc > allocBound(len(data)) {
							o.violate(Violation{Property: "C10", Kind: "direct", What: fmt.Sprintf("decoding %d bytes allocated %d bytes (bound %d); buffer %s", len(data), d.Alloc, allocBound(len(data)), m),
								Case: line, Key: "alloc:" + t.QName()})
							if d.Alloc >= 64<<20 {
								// tens of megabytes for a few bytes of input: three such cases are enough, more would only
								// drive the process into the garbage collector (or out of memory) before it can report
								if gross++; gross >= 3 {
									break types
								}
								runtime.GC()
							}
						}
					}
				}
			}
		}
		return map[string]any{"worst_alloc_bytes": worst, "worst_case": trunc(worstCase, 200), "bound": "8192 + 64*len(input)"}
	}
}

// ---- C11: every strict prefix of a valid encoding is rejected ----
func init() {
	suites["C11"] = func(o *Out, g *Gen, thorough bool) map[string]any {
		per := 3
		if thorough {
			per = 30
		}
		cuts := 0
		usedRecv := map[int]any{}
		g.maxList = 3
		vals := canonValues(g, per)
		// the same keyed messages again with every length-prefixed text at least eleven bytes long
		for _, k := range keyedTypes() {
			v := g.msgWithKey(k.Ty, k.E, true)
			lengthenText(v)
			vals = append(vals, v)
		}
		for _, v := range vals {
			r := goEnc(v, nil, BufMode{})
			if r.Class != "ok" {
				continue
			}
			w := r.Appended
			step := 1
			if len(w) > 600 && !thorough {
				step = len(w)/300 + 1
			}
			for k := 0; k < len(w); k += step {
				cuts++
				m := BufMode{}
				switch k % 3 {
				case 1:
					m = BufMode{Consumed: 3, Spare: 2048, Stale: true} // a reused receive buffer holding stale bytes
				case 2:
					m = BufMode{Spare: len(w) - k, Stale: true}
				}
				d := corrDec(o, v.Ty, w[:k], m)
				if d.Class != "ok" && k%5 == 2 {
					// the same prefix into a receiver that holds an earlier, different message of this type
					if usedRecv[v.Ty] == nil {
						other := goEnc(g.msg(v.Ty, true, 0), nil, BufMode{})
						usedRecv[v.Ty] = typeCtors[v.Ty]()
						if other.Class == "ok" {
							goDecInto(usedRecv[v.Ty], other.Appended, BufMode{}, false)
						}
					}
					line := fmt.Sprintf("dec %d %s", v.Ty, hexOf(w[:k]))
					begin(line)
					d = goDecInto(usedRecv[v.Ty], w[:k], m, false)
					begin("")
					o.emit(line, d.Line(), fmt.Sprintf("cutused:%d:%s", v.Ty, d.Class), true)
				}
				if d.Class == "ok" {
					o.violate(Violation{Property: "C11", Kind: "direct", What: fmt.Sprintf("a strict prefix (%d of %d bytes) decoded successfully; buffer %s", k, len(w), m),
						Case: fmt.Sprintf("dec %d %s", v.Ty, hexOf(w[:k])), Key: "prefix:" + tname(v.Ty)})
					break
				}
			}
			// the last few cuts always (trailing fields)
			for k := len(w) - 8; k < len(w); k++ {
				if k > 0 && k%step != 0 {
					d := corrDec(o, v.Ty, w[:k], BufMode{Spare: 64, Stale: true})
					cuts++
					if d.Class == "ok" {
						o.violate(Violation{Property: "C11", Kind: "direct", What: fmt.Sprintf("a strict prefix (%d of %d bytes) decoded successfully", k, len(w)),
							Case: fmt.Sprintf("dec %d %s", v.Ty, hexOf(w[:k])), Key: "prefix:" + tname(v.Ty)})
					}
				}
			}
		}
		return map[string]any{"cut_positions": cuts}
	}
}
