// harness: drives the REAL library in-process, writes each case as one line for the Lean model driver
// together with the library's canonicalised result, and evaluates each property's statement directly on
// the implementation (search for a replayable witness).
package main

import (
	"bufio"
	"encoding/json"
	"flag"
	"fmt"
	"os"
	"path/filepath"
	"sort"
	"strings"
	"sync"
	"sync/atomic"
	"time"
)

type Violation struct {
	Property string `json:"property"`
	Kind     string `json:"kind"` // direct | crash
	What     string `json:"what"`
	Case     string `json:"case"`
	Expected string `json:"expected,omitempty"`
	Observed string `json:"observed,omitempty"`
	Key      string `json:"key"` // stable identification for known-findings
}

type Out struct {
	dir        string
	in, gout   *bufio.Writer
	fin, fgout *os.File
	n          int
	aspects    []string
	stats      map[string]int
	distinct   map[string]struct{}
	samples    []string
	violations []Violation
	mu         sync.Mutex
}

func newOut(dir string) *Out {
	os.MkdirAll(dir, 0o755)
	fin, _ := os.Create(filepath.Join(dir, "cases.in"))
	fg, _ := os.Create(filepath.Join(dir, "cases.go"))
	return &Out{dir: dir, fin: fin, fgout: fg, in: bufio.NewWriterSize(fin, 1<<20), gout: bufio.NewWriterSize(fg, 1<<20),
		stats: map[string]int{}, distinct: map[string]struct{}{}}
}

// emit one correspondence case: the model input line and the implementation's result line.
// sig is the distinctness signature (type, branch, length class); nontrivial says whether it counts.
func (o *Out) emit(in, goOut, sig string, nontrivial bool) {
	end()
	o.in.WriteString(in)
	o.in.WriteByte('\n')
	o.gout.WriteString(goOut)
	o.gout.WriteByte('\n')
	o.n++
	if nontrivial {
		o.distinct[sig] = struct{}{}
	}
	if len(o.samples) < 6 && o.n%97 == 1 {
		s := in + "  =>  " + goOut
		if len(s) > 400 {
			s = s[:400] + "…"
		}
		o.samples = append(o.samples, s)
	}
}

func (o *Out) stat(k string) { o.stats[k]++ }

func (o *Out) violate(v Violation) {
	if len(o.violations) < 50 {
		if len(v.Case) > 4000 {
			v.Case = v.Case[:4000] + "…"
		}
		o.violations = append(o.violations, v)
		// written through at once: a run that later dies (out of memory, fatal error, watchdog) must not lose what it found
		if o.dir != "" {
			res := map[string]any{"cases": o.n, "distinct_nontrivial": len(o.distinct), "stats": o.stats, "samples": o.samples, "violations": o.violations, "partial": true}
			if b, err := json.MarshalIndent(res, "", " "); err == nil {
				os.WriteFile(filepath.Join(o.dir, "direct.json"), b, 0o644)
			}
		}
	}
}

func (o *Out) close(extra map[string]any) {
	o.in.Flush()
	o.gout.Flush()
	o.fin.Close()
	o.fgout.Close()
	keys := make([]string, 0, len(o.stats))
	for k := range o.stats {
		keys = append(keys, k)
	}
	sort.Strings(keys)
	res := map[string]any{
		"cases": o.n, "distinct_nontrivial": len(o.distinct), "stats": o.stats, "samples": o.samples,
		"violations": o.violations,
	}
	for k, v := range extra {
		res[k] = v
	}
	b, _ := json.MarshalIndent(res, "", " ")
	os.WriteFile(filepath.Join(o.dir, "direct.json"), b, 0o644)
}

// watchdog: a case that runs longer than the limit is a hang (C09); report it and stop.
var current struct {
	sync.Mutex
	desc  string
	start time.Time
	limit time.Duration
}

// begin arms the watchdog for ONE case (begin("") disarms it)
var inPhase atomic.Bool

func begin(desc string) {
	inPhase.Store(false)
	current.Lock()
	current.desc, current.start, current.limit = desc, time.Now(), 0
	current.Unlock()
}

// end disarms the watchdog of ONE case: the implementation call the case was armed for has returned. (A phase armed by
// beginPhase stays armed: its goroutines return from many calls.) Without it a case stays armed through whatever
// bookkeeping follows, and on a loaded machine a slow reference computation was once reported as a hang of the library.
func end() {
	// inside a multi-goroutine phase nothing is disarmed - and no lock is taken: a mutex shared by all workers would order
	// their library calls for the race detector and hide the very races the phase is there to find
	if inPhase.Load() {
		return
	}
	current.Lock()
	if current.limit == 0 {
		current.desc = ""
	}
	current.Unlock()
}

// beginPhase arms it for a whole multi-goroutine phase, with a longer limit
func beginPhase(desc string) {
	inPhase.Store(true)
	current.Lock()
	current.desc, current.start, current.limit = "phase: "+desc, time.Now(), 900*time.Second
	current.Unlock()
}

func watchdog(caseLimit time.Duration, dir string) {
	limit := caseLimit
	for {
		time.Sleep(500 * time.Millisecond)
		current.Lock()
		d, s := current.desc, current.start
		if current.limit > 0 {
			limit = current.limit
		} else {
			limit = caseLimit
		}
		current.Unlock()
		if d != "" && time.Since(s) > limit {
			if len(d) > 4000 {
				d = d[:4000]
			}
			os.WriteFile(filepath.Join(dir, "hang.txt"), []byte(d), 0o644)
			fmt.Fprintln(os.Stderr, "HANG:", d[:min(len(d), 300)])
			os.Exit(3)
		}
	}
}

func main() {
	prop := flag.String("prop", "", "property id (C01..C20) or 'corr'")
	tier := flag.String("tier", "quick", "quick|thorough")
	seed := flag.Int64("seed", 1, "PRNG seed")
	dir := flag.String("dir", "", "output directory")
	schemaPath := flag.String("schema", "", "pinned schema.json")
	genSchemaPath := flag.String("gen-schema", "", "schema.json regenerated by xlate (fallback when the set of types changed)")
	replay := flag.String("replay", "", "replay file (a case line)")
	flag.Parse()
	loadSchema(*schemaPath, *genSchemaPath)
	initTypeIDs()
	if *replay != "" {
		os.Exit(doReplay(*prop, *replay))
	}
	o := newOut(*dir)
	go watchdog(60*time.Second, *dir)
	g := newGen(*seed)
	thorough := *tier == "thorough"
	fn, ok := suites[strings.ToUpper(*prop)]
	if !ok {
		fmt.Fprintln(os.Stderr, "unknown property", *prop)
		os.Exit(2)
	}
	extra := fn(o, g, thorough)
	begin("")
	o.close(extra)
	fmt.Printf("harness: %s %s seed=%d cases=%d distinct=%d violations=%d\n", *prop, *tier, *seed, o.n, len(o.distinct), len(o.violations))
}
