package main

import (
	"encoding/binary"
	"hash/crc32"
)

// Span: where a length / count prefix sits in the encoding of a value (computed from the schema, used only to
// build hostile inputs and to locate frame fields).
type Span struct {
	Off, W int
	E      string
	Kind   string // count | len
}

// sizeOf walks a value along the ops of its type and returns its wire size, appending prefix spans.
func sizeOfMsg(v *Val, off int, spans *[]Span) int {
	t := schema.Types[v.Ty]
	start := off
	for i, op := range t.fieldOps() {
		off += sizeOfField(op, v.Fs[i], off, spans)
	}
	return off - start
}

func sizeOfField(op Op, v *Val, off int, spans *[]Span) int {
	add := func(o, w int, e, k string) {
		if spans != nil {
			*spans = append(*spans, Span{o, w, e, k})
		}
	}
	switch op.K {
	case "scalar":
		return op.W
	case "fixed":
		return op.N
	case "vstr":
		add(off, op.PW, op.E, "len")
		return op.PW + len(v.S)
	case "nums":
		add(off, op.CW, op.E, "count")
		return op.CW + len(v.Ns)*op.W
	case "fixeds":
		add(off, op.CW, op.E, "count")
		return op.CW + len(v.Ss)*op.N
	case "vstrs":
		add(off, op.CW, op.E, "count")
		n := op.CW
		for _, s := range v.Ss {
			add(off+n, op.PW, op.E, "len")
			n += op.PW + len(s)
		}
		return n
	case "nested", "union":
		if v.K != 'm' {
			return 0
		}
		return sizeOfMsg(v, off, spans)
	case "objs":
		add(off, op.CW, op.E, "count")
		n := op.CW
		for _, e := range v.Fs {
			n += sizeOfMsg(e, off+n, spans)
		}
		return n
	}
	return 0
}

func getUint(b []byte, e string) uint64 {
	var x uint64
	if e == "le" {
		for i := len(b) - 1; i >= 0; i-- {
			x = x<<8 | uint64(b[i])
		}
	} else {
		for _, c := range b {
			x = x<<8 | uint64(c)
		}
	}
	return x
}

func putUint(b []byte, e string, x uint64) {
	if e == "le" {
		for i := 0; i < len(b); i++ {
			b[i] = byte(x)
			x >>= 8
		}
	} else {
		for i := len(b) - 1; i >= 0; i-- {
			b[i] = byte(x)
			x >>= 8
		}
	}
}

// ---- independent reference checksums (written differently from codec/checksum.go) ----

func refSum(b []byte) uint64 {
	var s uint64
	for _, c := range b {
		s += uint64(c)
	}
	return s % 256
}

func reflectBits(x uint32, n int) uint32 {
	var r uint32
	for i := 0; i < n; i++ {
		if x&(1<<uint(i)) != 0 {
			r |= 1 << uint(n-1-i)
		}
	}
	return r
}

// CRC-16/MODBUS by the catalogue's parameter model: poly 0x8005, init 0xFFFF, refin, refout, xorout 0 (MSB-first)
func refCRC16(b []byte) uint64 {
	reg := uint32(0xFFFF)
	for _, c := range b {
		reg ^= reflectBits(uint32(c), 8) << 8
		for i := 0; i < 8; i++ {
			if reg&0x8000 != 0 {
				reg = (reg << 1) ^ 0x8005
			} else {
				reg <<= 1
			}
			reg &= 0xFFFF
		}
	}
	return uint64(reflectBits(reg, 16))
}

// CRC-32/ISO-HDLC by the parameter model: poly 0x04C11DB7, init 0xFFFFFFFF, refin, refout, xorout 0xFFFFFFFF
func refCRC32(b []byte) uint64 {
	reg := uint32(0xFFFFFFFF)
	for _, c := range b {
		reg ^= reflectBits(uint32(c), 8) << 24
		for i := 0; i < 8; i++ {
			if reg&0x80000000 != 0 {
				reg = (reg << 1) ^ 0x04C11DB7
			} else {
				reg <<= 1
			}
		}
	}
	return uint64(reflectBits(reg, 32) ^ 0xFFFFFFFF)
}

func refAlg(alg string, b []byte) uint64 {
	switch alg {
	case "CRC16":
		return refCRC16(b)
	case "CRC32":
		if len(b) > 1<<16 { // the bitwise reference is slow on multi-megabyte inputs; it is itself validated on short ones
			return uint64(crc32.ChecksumIEEE(b))
		}
		return refCRC32(b)
	}
	return refSum(b)
}

var _ = binary.BigEndian
