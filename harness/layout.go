package main

import (
	"bytes"
	"encoding/binary"
	"hash/crc32"
)

// Span: where a length / count prefix sits in the encoding of a value (computed from the schema, used only to
// build hostile inputs and to locate frame fields).
type Span struct {
	Off, W int
	E      string
	Kind   string // count | len
}

// sizeOf walks a value along the ops of its type and returns its wire size, appending prefix spans.
func sizeOfMsg(v *Val, off int, spans *[]Span) int {
	t := schema.Types[v.Ty]
	start := off
	for i, op := range t.fieldOps() {
		off += sizeOfField(op, v.Fs[i], off, spans)
	}
	return off - start
}

func sizeOfField(op Op, v *Val, off int, spans *[]Span) int {
	add := func(o, w int, e, k string) {
		if spans != nil {
			*spans = append(*spans, Span{o, w, e, k})
		}
	}
	switch op.K {
	case "scalar":
		return op.W
	case "fixed":
		return op.N
	case "vstr":
		add(off, op.PW, op.E, "len")
		return op.PW + len(v.S)
	case "nums":
		add(off, op.CW, op.E, "count")
		return op.CW + len(v.Ns)*op.W
	case "fixeds":
		add(off, op.CW, op.E, "count")
		return op.CW + len(v.Ss)*op.N
	case "vstrs":
		add(off, op.CW, op.E, "count")
		n := op.CW
		for _, s := range v.Ss {
			add(off+n, op.PW, op.E, "len")
			n += op.PW + len(s)
		}
		return n
	case "nested", "union":
		if v.K != 'm' {
			return 0
		}
		return sizeOfMsg(v, off, spans)
	case "objs":
		add(off, op.CW, op.E, "count")
		n := op.CW
		for _, e := range v.Fs {
			n += sizeOfMsg(e, off+n, spans)
		}
		return n
	}
	return 0
}

func getUint(b []byte, e string) uint64 {
	var x uint64
	if e == "le" {
		for i := len(b) - 1; i >= 0; i-- {
			x = x<<8 | uint64(b[i])
		}
	} else {
		for _, c := range b {
			x = x<<8 | uint64(c)
		}
	}
	return x
}

func putUint(b []byte, e string, x uint64) {
	if e == "le" {
		for i := 0; i < len(b); i++ {
			b[i] = byte(x)
			x >>= 8
		}
	} else {
		for i := len(b) - 1; i >= 0; i-- {
			b[i] = byte(x)
			x >>= 8
		}
	}
}

// ---- independent reference checksums (written differently from codec/checksum.go) ----

func refSum(b []byte) uint64 {
	var s uint64
	for _, c := range b {
		s += uint64(c)
	}
	return s % 256
}

func reflectBits(x uint32, n int) uint32 {
	var r uint32
	for i := 0; i < n; i++ {
		if x&(1<<uint(i)) != 0 {
			r |= 1 << uint(n-1-i)
		}
	}
	return r
}

// CRC-16/MODBUS by the catalogue's parameter model: poly 0x8005, init 0xFFFF, refin, refout, xorout 0 (MSB-first)
func refCRC16(b []byte) uint64 {
	reg := uint32(0xFFFF)
	for _, c := range b {
		reg ^= reflectBits(uint32(c), 8) << 8
		for i := 0; i < 8; i++ {
			if reg&0x8000 != 0 {
				reg = (reg << 1) ^ 0x8005
			} else {
				reg <<= 1
			}
			reg &= 0xFFFF
		}
	}
	return uint64(reflectBits(reg, 16))
}

// CRC-32/ISO-HDLC by the parameter model: poly 0x04C11DB7, init 0xFFFFFFFF, refin, refout, xorout 0xFFFFFFFF
func refCRC32(b []byte) uint64 {
	reg := uint32(0xFFFFFFFF)
	for _, c := range b {
		reg ^= reflectBits(uint32(c), 8) << 24
		for i := 0; i < 8; i++ {
			if reg&0x80000000 != 0 {
				reg = (reg << 1) ^ 0x04C11DB7
			} else {
				reg <<= 1
			}
		}
	}
	return uint64(reflectBits(reg, 32) ^ 0xFFFFFFFF)
}

func refAlg(alg string, b []byte) uint64 {
	switch alg {
	case "CRC16":
		return refCRC16(b)
	case "CRC32":
		if len(b) > 1<<16 { // the bitwise reference is slow on multi-megabyte inputs; it is itself validated on short ones
			return uint64(crc32.ChecksumIEEE(b))
		}
		return refCRC32(b)
	}
	return refSum(b)
}

var _ = binary.BigEndian

// ---- Go-side renderer of the PINNED schema (independent of the library's encoder and of the Lean model) ----
// renderPinned returns the bytes the pinned schema prescribes for a value (computing a self-measuring frame's length
// and checksum itself), or ok=false when the value cannot be rendered (a prefix overflows, an absent body that the
// schema cannot fill in, an unknown key).
func renderPinned(v *Val) (out []byte, ok bool) {
	defer func() {
		if r := recover(); r != nil {
			out, ok = nil, false
		}
	}()
	return renderMsg(v)
}

func padOrCut(n int, pad byte, left bool, s []byte) []byte {
	if len(s) > n {
		return append([]byte{}, s[:n]...)
	}
	fill := bytes.Repeat([]byte{pad}, n-len(s))
	if left {
		return append(fill, s...)
	}
	return append(append([]byte{}, s...), fill...)
}

func prefixed(w int, e string, n int, payload []byte) ([]byte, bool) {
	if w < 8 && uint64(n) > maxOf(w) {
		return nil, false
	}
	b := make([]byte, w)
	putUint(b, e, uint64(n))
	return append(b, payload...), true
}

func lookupEntry(tb *Table, key *Val) (int, bool) {
	ty, found := 0, false
	for _, e := range tb.Entries { // last registration wins
		if valEq(keyVal(tb, e), key) {
			ty, found = e.Ty, true
		}
	}
	return ty, found
}

func zeroValOf(ty int) *Val {
	t := schema.Types[ty]
	v := &Val{K: 'm', Ty: ty}
	for _, op := range t.fieldOps() {
		switch op.K {
		case "scalar":
			v.Fs = append(v.Fs, &Val{K: 'n'})
		case "fixed", "vstr":
			v.Fs = append(v.Fs, &Val{K: 's'})
		case "nums":
			v.Fs = append(v.Fs, &Val{K: 'N'})
		case "fixeds", "vstrs":
			v.Fs = append(v.Fs, &Val{K: 'S'})
		case "objs":
			v.Fs = append(v.Fs, &Val{K: 'M'})
		case "nested":
			if op.G == "val" {
				v.Fs = append(v.Fs, zeroValOf(op.Ty))
			} else {
				v.Fs = append(v.Fs, &Val{K: 'z'})
			}
		default:
			v.Fs = append(v.Fs, &Val{K: 'z'})
		}
	}
	return v
}

func renderPtr(g string, body *Val, ty int, tyOK bool) ([]byte, bool) {
	if body.K == 'm' {
		return renderMsg(body)
	}
	switch g {
	case "skip":
		return nil, true
	case "mat":
		if !tyOK {
			return nil, false
		}
		return renderMsg(zeroValOf(ty))
	}
	return nil, false
}

func renderField(op Op, encG string, f *Val, all []*Val) ([]byte, bool) {
	switch op.K {
	case "scalar":
		b := make([]byte, op.W)
		putUint(b, op.E, f.N)
		return b, true
	case "fixed":
		return padOrCut(op.N, byte(op.Pad), op.Left, f.S), true
	case "vstr":
		return prefixed(op.PW, op.E, len(f.S), f.S)
	case "nums":
		var p []byte
		for _, n := range f.Ns {
			b := make([]byte, op.W)
			putUint(b, op.E, n)
			p = append(p, b...)
		}
		return prefixed(op.CW, op.E, len(f.Ns), p)
	case "fixeds":
		var p []byte
		for _, s := range f.Ss {
			p = append(p, padOrCut(op.N, byte(op.Pad), op.Left, s)...)
		}
		return prefixed(op.CW, op.E, len(f.Ss), p)
	case "vstrs":
		var p []byte
		for _, s := range f.Ss {
			e, ok := prefixed(op.PW, op.E, len(s), s)
			if !ok {
				return nil, false
			}
			p = append(p, e...)
		}
		return prefixed(op.CW, op.E, len(f.Ss), p)
	case "nested":
		return renderPtr(encG, f, op.Ty, true)
	case "objs":
		var p []byte
		for _, e := range f.Fs {
			b, ok := renderMsg(e)
			if !ok {
				return nil, false
			}
			p = append(p, b...)
		}
		return prefixed(op.CW, op.E, len(f.Fs), p)
	case "union":
		ty, ok := lookupEntry(schema.Tables[op.Tbl], all[op.Key])
		return renderPtr(encG, f, ty, ok)
	}
	return nil, false
}

func renderMsg(v *Val) ([]byte, bool) {
	if v.K != 'm' {
		return nil, false
	}
	t := schema.Types[v.Ty]
	ops := t.fieldOps()
	if len(ops) != len(v.Fs) {
		return nil, false
	}
	var out []byte
	if t.Frame == nil {
		for i, op := range ops {
			g := op.G
			if i < len(t.Enc) {
				g = t.Enc[i].G
			}
			b, ok := renderField(op, g, v.Fs[i], v.Fs)
			if !ok {
				return nil, false
			}
			out = append(out, b...)
		}
		return out, true
	}
	f := t.Frame
	nh := len(f.Hdr)
	for i := 0; i < nh; i++ {
		b, ok := renderField(f.Hdr[i], "", v.Fs[i], v.Fs)
		if !ok {
			return nil, false
		}
		out = append(out, b...)
	}
	ty, tyOK := lookupEntry(schema.Tables[f.Tbl], v.Fs[f.Key])
	body, ok := renderPtr(f.G, v.Fs[nh+1], ty, tyOK)
	if !ok {
		return nil, false
	}
	lb := make([]byte, 4)
	putUint(lb, f.E, uint64(len(body))&0xFFFFFFFF)
	out = append(append(out, lb...), body...)
	if f.Cks != "" {
		cb := make([]byte, f.CksW)
		putUint(cb, f.E, refAlg(f.Cks, out))
		out = append(out, cb...)
	}
	return out, true
}

// IntSpan: one multi-byte integer of an encoding (scalar field, count / length prefix, numeric list element), where
// the pinned layout puts it and which value it must hold.
type IntSpan struct {
	Off, W int
	E      string
	Val    uint64
}

func intSpansMsg(v *Val, off int, spans *[]IntSpan) int {
	t := schema.Types[v.Ty]
	start := off
	for i, op := range t.fieldOps() {
		off += intSpansField(op, v.Fs[i], off, spans)
	}
	return off - start
}

func intSpansField(op Op, v *Val, off int, spans *[]IntSpan) int {
	add := func(o, w int, e string, val uint64) { *spans = append(*spans, IntSpan{o, w, e, val}) }
	switch op.K {
	case "scalar":
		add(off, op.W, op.E, v.N)
		return op.W
	case "fixed":
		return op.N
	case "vstr":
		add(off, op.PW, op.E, uint64(len(v.S)))
		return op.PW + len(v.S)
	case "nums":
		add(off, op.CW, op.E, uint64(len(v.Ns)))
		for k, n := range v.Ns {
			add(off+op.CW+k*op.W, op.W, op.E, n)
		}
		return op.CW + len(v.Ns)*op.W
	case "fixeds":
		add(off, op.CW, op.E, uint64(len(v.Ss)))
		return op.CW + len(v.Ss)*op.N
	case "vstrs":
		add(off, op.CW, op.E, uint64(len(v.Ss)))
		n := op.CW
		for _, s := range v.Ss {
			add(off+n, op.PW, op.E, uint64(len(s)))
			n += op.PW + len(s)
		}
		return n
	case "nested", "union":
		if v.K != 'm' {
			return 0
		}
		return intSpansMsg(v, off, spans)
	case "objs":
		add(off, op.CW, op.E, uint64(len(v.Fs)))
		n := op.CW
		for _, e := range v.Fs {
			n += intSpansMsg(e, off+n, spans)
		}
		return n
	}
	return 0
}
