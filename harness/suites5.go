package main

import (
	"bytes"
	"encoding/hex"
	"fmt"
	"sort"
	"strconv"
	"strings"

	"github.com/xinchentechnote/fin-proto-go/codec"
)

// ---- C12: discriminators ----
func nearMissKeys(g *Gen, tb *Table) []*Val {
	var ks []*Val
	if tb.KeyKind == "num" {
		reg := map[uint64]bool{}
		for _, e := range tb.Entries {
			n, _ := strconv.ParseUint(e.Key, 10, 64)
			reg[n] = true
		}
		cands := []uint64{0, 1, 0xFFFF, 0xFFFFFFFF, 0x10000 + 33, 256 * 33}
		for n := range reg {
			cands = append(cands, n+1, n-1, n<<8, n|0x10000)
		}
		for i := 0; i < 6; i++ {
			cands = append(cands, uint64(g.r.Uint32()))
		}
		// keys are structured (category digits, business digits, kind digits): recombine the decimal digit groups of pairs
		// of registered keys - a table built by nested loops over such groups registers a combination nobody asked for
		var regList []string
		for n := range reg {
			regList = append(regList, strconv.FormatUint(n, 10))
		}
		sort.Strings(regList)
		seen := map[uint64]bool{}
		var cross []uint64
		for _, a := range regList {
			for _, b := range regList {
				if len(a) != len(b) || a == b {
					continue
				}
				for i := 1; i < len(a); i++ {
					for j := i; j <= len(a); j++ {
						if n, err := strconv.ParseUint(a[:i]+b[i:j]+a[j:], 10, 64); err == nil && !reg[n] && !seen[n] {
							seen[n] = true
							cross = append(cross, n)
						}
					}
				}
			}
		}
		g.r.Shuffle(len(cross), func(i, j int) { cross[i], cross[j] = cross[j], cross[i] })
		if len(cross) > 400 {
			cross = cross[:400]
		}
		cands = append(cands, cross...)
		for _, c := range cands {
			if !reg[c] {
				ks = append(ks, &Val{K: 'n', N: c})
			}
		}
		return ks
	}
	reg := map[string]bool{}
	for _, e := range tb.Entries {
		b, _ := hex.DecodeString(e.Key)
		reg[string(b)] = true
	}
	add := func(s string) {
		if !reg[s] && !reg[strings.TrimRight(s, " ")] {
			ks = append(ks, &Val{K: 's', S: []byte(s)})
		}
	}
	for s := range reg {
		b := []byte(s)
		for i := range b {
			for _, c := range []byte{':', '/', ';', '0', '9', 'A', ' ', 0, b[i] + 1, b[i] - 1, b[i] + 10, b[i] - 10} {
				d := append([]byte{}, b...)
				d[i] = c
				add(string(d))
			}
		}
		// aliases under "digit arithmetic": (b0-'0')*100+(b1-'0')*10+(b2-'0') preserved
		if len(b) == 3 && b[1] > '0' && b[2] <= '9'-0 {
			add(string([]byte{b[0], b[1] - 1, b[2] + 10}))
		}
		if len(b) == 3 && b[0] > '0' {
			add(string([]byte{b[0] - 1, b[1] + 10, b[2]}))
		}
		add(s[:len(s)-1])
		add(" " + s[:len(s)-1])
		add(strings.ToLower(s))
	}
	for _, k := range []string{"-12", "-01", "+12", " 12", "1e1", "0x1", "-1 ", "1_0", "٠١٢"[:3]} {
		add(k)
	}
	add("")
	add("   ")
	add("999")
	add("\x00\x00\x00")
	return ks
}

func init() {
	suites["C12"] = func(o *Out, g *Gen, thorough bool) map[string]any {
		reps := 2
		if thorough {
			reps = 6
		}
		keys, unknown := 0, 0
		// an application may register its own body type BEFORE the library has looked anything up: do that first, in every
		// table, and require (below) that every pinned key still resolves and that the custom key resolves to what was registered
		custom := map[int]*Val{}
		for _, tb := range schema.Tables {
			reg := tableRegFns[tb.Pkg+"."+tb.Reg]
			if reg == nil || len(tb.Entries) == 0 {
				continue
			}
			ty := tb.Entries[0].Ty
			if tb.KeyKind == "str" {
				reg("ZZ9", func() codec.BinaryCodec { return typeCtors[ty]().(codec.BinaryCodec) })
				custom[tb.ID] = &Val{K: 's', S: []byte("ZZ9")}
			} else {
				reg(uint64(0x7FF0), func() codec.BinaryCodec { return typeCtors[ty]().(codec.BinaryCodec) })
				custom[tb.ID] = &Val{K: 'n', N: 0x7FF0}
			}
		}
		for _, t := range schema.Types {
			for i, op := range t.fieldOps() {
				if op.K != "union" {
					continue
				}
				if ck := custom[op.Tbl]; ck != nil {
					// the custom key selects the custom body type, both ways
					tbc := schema.Tables[op.Tbl]
					v := g.msgWithKey(t.ID, tbc.Entries[0], true)
					v.Fs[op.Key] = ck
					r := goEnc(v, nil, BufMode{})
					if r.Class == "ok" {
						d := goDec(t.ID, r.Appended, BufMode{})
						if d.Class != "ok" || d.Val.Fs[i].K != 'm' || d.Val.Fs[i].Ty != tbc.Entries[0].Ty {
							o.violate(Violation{Property: "C12", Kind: "direct", What: fmt.Sprintf("a body type registered by the application under a new key of %s.%s is not used by the decoder (%s)", tbc.Pkg, tbc.Lookup, d.Class),
								Case: "enc - " + v.String(), Key: "custom:" + tbc.Pkg + "." + tbc.Lookup})
						}
					}
				}
				tb := schema.Tables[op.Tbl]
				encG := op.G
				if t.Frame != nil {
					encG = t.Frame.G
				} else {
					encG = t.Enc[i].G
				}
				for rep := 0; rep < reps; rep++ {
					// registered keys: lookup in the model, decode builds the pinned type, encoder fills in the same type, round trip
					for _, e := range tb.Entries {
						keys++
						kv := keyVal(tb, e)
						if kv.K == 'n' {
							o.emit(fmt.Sprintf("lookup %d n %d", tb.ID, kv.N), fmt.Sprintf("ok | %d", e.Ty), fmt.Sprintf("lk:%d:%s", tb.ID, e.Key), true)
						} else {
							o.emit(fmt.Sprintf("lookup %d s %s", tb.ID, hexOf(kv.S)), fmt.Sprintf("ok | %d", e.Ty), fmt.Sprintf("lk:%d:%s", tb.ID, e.Key), true)
						}
						v := g.msgWithKey(t.ID, e, true)
						r := corrEnc(o, v, nil, g.mode())
						if r.Class == "ok" {
							d := corrDec(o, t.ID, append(append([]byte{}, r.Appended...), g.prefix()...), g.mode())
							if d.Class != "ok" || d.Val.Fs[i].K != 'm' || d.Val.Fs[i].Ty != e.Ty || !valEq(d.Val, r.Val) {
								o.violate(Violation{Property: "C12", Kind: "direct", What: fmt.Sprintf("key %s of %s.%s: decoder did not build %s / round trip failed", e.Key, tb.Pkg, tb.Lookup, tname(e.Ty)),
									Case: "enc - " + v.String(), Key: fmt.Sprintf("dec:%s.%s:%s", tb.Pkg, tb.Lookup, e.Key)})
							}
						}
						// body left out by the caller
						vn := v.clone()
						vn.Fs[i] = &Val{K: 'z'}
						rn := corrEnc(o, vn, g.prefix(), g.mode())
						switch encG {
						case "mat":
							// an error is legitimate only when it comes from INSIDE the filled-in body (its own extension has an
							// unregistered key); the body the encoder built must be of the pinned type either way
							if rn.Class == "panic" || rn.Val == nil || rn.Val.Fs[i].K != 'm' || rn.Val.Fs[i].Ty != e.Ty || (rn.Class == "err" && !hasUnion(e.Ty)) {
								o.violate(Violation{Property: "C12", Kind: "direct", What: fmt.Sprintf("key %s of %s.%s: encoder did not fill in %s for an absent body (%s)", e.Key, tb.Pkg, tb.Lookup, tname(e.Ty), rn.Class),
									Case: "enc - " + vn.String(), Key: fmt.Sprintf("enc:%s.%s:%s", tb.Pkg, tb.Lookup, e.Key)})
							}
						case "skip":
							if rn.Class == "panic" {
								o.violate(Violation{Property: "C12", Kind: "direct", What: "encoder panicked on an absent body", Case: "enc - " + vn.String(), Key: "encpanic:" + t.QName()})
							}
						}
					}
					// unregistered keys: decoder and (when it has to fill in the body) encoder must return an error
					for _, kv := range nearMissKeys(g, tb) {
						unknown++
						v := g.msg(t.ID, true, 0)
						kop := t.fieldOps()[op.Key]
						if kop.K == "scalar" {
							kv.N &= maxOf(kop.W)
							known := false
							for _, e := range tb.Entries {
								if n, _ := strconv.ParseUint(e.Key, 10, 64); n == kv.N {
									known = true
								}
							}
							if known {
								continue
							}
						} else if len(kv.S) > kop.N {
							continue
						}
						v.Fs[op.Key] = kv
						// wire bytes with that key: encode with a (mismatching) body present, then decode
						r := goEnc(v, nil, BufMode{})
						if r.Class == "ok" {
							// the key as the decoder will see it (after trimming)
							obj := typeCtors[t.ID]()
							d1 := goDecInto(obj, r.Appended, g.mode(), false)
							line := fmt.Sprintf("dec %d %s", t.ID, hexOf(r.Appended))
							o.emit(line, d1.Line(), fmt.Sprintf("unk:%d:%s", t.ID, d1.Class), true)
							// the same receiver again (a decoder must not remember a previous body)
							d2 := goDecInto(obj, r.Appended, g.mode(), false)
							o.emit(line, d2.Line(), fmt.Sprintf("unk2:%d:%s", t.ID, d2.Class), true)
							// and after a successful decode of a registered frame into the same receiver
							e := tb.Entries[g.r.Intn(len(tb.Entries))]
							rg := goEnc(g.msgWithKey(t.ID, e, true), nil, BufMode{})
							obj2 := typeCtors[t.ID]()
							goDecInto(obj2, rg.Appended, BufMode{}, false)
							d3 := goDecInto(obj2, r.Appended, g.mode(), false)
							o.emit(line, d3.Line(), fmt.Sprintf("unk3:%d:%s", t.ID, d3.Class), true)
							d4 := goDecInto(obj2, r.Appended, g.mode(), false)
							o.emit(line, d4.Line(), fmt.Sprintf("unk4:%d:%s", t.ID, d4.Class), true)
							keyTrim := kv
							if kv.K == 's' {
								keyTrim = &Val{K: 's', S: bytes.TrimRight(kv.S, " ")}
							}
							registered := false
							for _, e := range tb.Entries {
								if valEq(keyVal(tb, e), keyTrim) {
									registered = true
								}
							}
							if !registered {
								for n, d := range []DecResult{d1, d2, d3, d4} {
									if d.Class != "err" {
										o.violate(Violation{Property: "C12", Kind: "direct", What: fmt.Sprintf("unregistered key %s of %s.%s: decoder returned %s (history step %d)", kv.String(), tb.Pkg, tb.Lookup, d.Class, n),
											Case: line, Key: fmt.Sprintf("unkdec:%s.%s", tb.Pkg, tb.Lookup)})
										break
									}
								}
							}
						}
						vn := v.clone()
						vn.Fs[i] = &Val{K: 'z'}
						rn := corrEnc(o, vn, nil, g.mode())
						registered := false
						for _, e := range tb.Entries {
							if valEq(keyVal(tb, e), kv) {
								registered = true
							}
						}
						if encG == "mat" && !registered && rn.Class != "err" {
							o.violate(Violation{Property: "C12", Kind: "direct", What: fmt.Sprintf("unregistered key %s of %s.%s: encoder with absent body returned %s", kv.String(), tb.Pkg, tb.Lookup, rn.Class),
								Case: "enc - " + vn.String(), Key: fmt.Sprintf("unkenc:%s.%s", tb.Pkg, tb.Lookup)})
						}
						if rn.Class == "panic" {
							o.violate(Violation{Property: "C12", Kind: "direct", What: "encoder panicked on an unregistered key", Case: "enc - " + vn.String(), Key: "unkpanic:" + t.QName()})
						}
					}
				}
			}
		}
		return map[string]any{"registered_keys_checked": keys, "unregistered_keys_checked": unknown, "tables": len(schema.Tables)}
	}
}

func hasUnion(ty int) bool {
	for _, op := range schema.Types[ty].fieldOps() {
		if op.K == "union" {
			return true
		}
	}
	return false
}

// ---- C13: fixed-width text ----
func refTrim(b []byte, pad byte, left bool) []byte {
	if left {
		i := 0
		for i < len(b) && b[i] == pad {
			i++
		}
		return b[i:]
	}
	j := len(b)
	for j > 0 && b[j-1] == pad {
		j--
	}
	return b[:j]
}

func init() {
	suites["C13"] = func(o *Out, g *Gen, thorough bool) map[string]any {
		rounds := 20
		if thorough {
			rounds = 300
		}
		pads := []int{' ', '0', 0, 0xE9, 0x80, 0xFF, 'A', 0xC3, 0xA9}
		check := func(n int, pad int, left bool, s []byte) {
			op := Op{K: "fixed", N: n, Pad: pad, Left: left}
			plain := pad == ' ' && !left && g.r.Intn(2) == 0
			w := corrWop(o, op, "", plain, &Val{K: 's', S: s}, g.prefix(), g.mode())
			c := "wop " + opTokens(op) + " s " + hexOf(s)
			if w.Class != "ok" {
				o.violate(Violation{Property: "C13", Kind: "direct", What: "fixed-width write failed: " + w.Class + " " + w.Msg, Case: c, Key: "wfail"})
				return
			}
			var want []byte
			switch {
			case len(s) > n:
				want = s[:n]
			case left:
				want = append(bytes.Repeat([]byte{byte(pad)}, n-len(s)), s...)
			default:
				want = append(append([]byte{}, s...), bytes.Repeat([]byte{byte(pad)}, n-len(s))...)
			}
			if !bytes.Equal(w.Appended, want) {
				o.violate(Violation{Property: "C13", Kind: "direct", What: "fixed-width write: wrong bytes", Case: c, Expected: hexOf(want), Observed: hexOf(w.Appended), Key: "wbytes"})
			}
			// read an arbitrary N-byte field (not only what the writer produces)
			field := g.bytes(n, byte(pad))
			if g.r.Intn(2) == 0 {
				field = want
			}
			data := append(append([]byte{}, field...), g.prefix()...)
			r := corrRop(o, op, "", plain, data, g.mode())
			wantR := refTrim(field, byte(pad), left)
			if r.Class != "ok" || r.Consumed != n || !bytes.Equal(r.Val.S, wantR) {
				o.violate(Violation{Property: "C13", Kind: "direct", What: "fixed-width read: not the field with only the pad byte stripped from the pad side",
					Case: "rop " + opTokens(op) + " " + hexOf(data), Expected: hexOf(wantR), Observed: r.Class + " " + func() string {
						if r.Val != nil {
							return hexOf(r.Val.S)
						}
						return ""
					}(), Key: "rbytes"})
			}
		}
		// the SAME field bytes read under different padding conventions, back to back in one process (a reader must not
		// remember what it returned for these bytes under another convention)
		for r := 0; r < rounds*3; r++ {
			n := 1 + g.r.Intn(16)
			field := g.bytes(n, '0')
			if r%2 == 0 {
				k := g.r.Intn(n + 1)
				field = append(bytes.Repeat([]byte{'0'}, k), g.bytes(n-k, ' ')...)
			}
			for _, cv := range []struct {
				pad  int
				left bool
			}{{'0', true}, {' ', false}, {0, false}, {'0', false}, {' ', true}} {
				op := Op{K: "fixed", N: n, Pad: cv.pad, Left: cv.left}
				rr := corrRop(o, op, "", false, field, g.mode())
				want := refTrim(field, byte(cv.pad), cv.left)
				if rr.Class != "ok" || !bytes.Equal(rr.Val.S, want) {
					o.violate(Violation{Property: "C13", Kind: "direct", What: "fixed-width read depends on an earlier read of the same bytes under another padding convention",
						Case: "rop " + opTokens(op) + " " + hexOf(field), Expected: hexOf(want), Observed: rr.Class, Key: "convention"})
				}
			}
		}
		for r := 0; r < rounds; r++ {
			for n := 0; n <= 40; n++ {
				pad := pads[g.r.Intn(len(pads))]
				if g.r.Intn(3) == 0 {
					pad = g.r.Intn(256)
				}
				left := g.r.Intn(2) == 0
				check(n, pad, left, g.anyFixed(n, byte(pad)))
				check(n, pad, left, g.canonFixed(n, byte(pad), left))
			}
		}
		// exhaustive: N <= 2, every byte string of length <= 2 over a small alphabet containing the pad
		for n := 0; n <= 2; n++ {
			for _, pad := range []int{' ', 0, 0xE9} {
				alpha := []byte{byte(pad), 'a', 0, 0xC3}
				for _, left := range []bool{false, true} {
					check(n, pad, left, nil)
					for _, a := range alpha {
						check(n, pad, left, []byte{a})
						for _, b := range alpha {
							check(n, pad, left, []byte{a, b})
							if thorough {
								for _, c := range alpha {
									check(n, pad, left, []byte{a, b, c})
								}
							}
						}
					}
				}
			}
		}
		// message level: in every message made only of fixed-width text and scalars, each text field occupies exactly its N
		// bytes at the pinned offset, padded or cut as the pinned schema says (scalars are not judged here)
		for _, t := range schema.Types {
			plainT := len(t.fieldOps()) > 0 && t.Frame == nil
			total := 0
			for _, op := range t.fieldOps() {
				if op.K != "fixed" && op.K != "scalar" {
					plainT = false
				}
				total += op.N + op.W
			}
			if !plainT {
				continue
			}
			for rep := 0; rep < 3; rep++ {
				v := g.msg(t.ID, false, 0)
				if rep == 2 {
					for k, op := range t.fieldOps() {
						if op.K == "fixed" && op.N > 0 {
							v.Fs[k] = &Val{K: 's', S: g.runes(1 + g.r.Intn(op.N))}
						}
					}
				}
				r := corrEnc(o, v, nil, g.mode())
				if r.Class != "ok" {
					o.violate(Violation{Property: "C13", Kind: "direct", What: "a message of fixed-width fields did not encode: " + r.Class + " " + r.PanicMsg, Case: "enc - " + v.String(), Key: "msgfail:" + t.QName()})
					continue
				}
				if len(r.Appended) != total {
					o.violate(Violation{Property: "C13", Kind: "direct", What: fmt.Sprintf("%s: %d bytes emitted, the fixed-width layout has %d", t.QName(), len(r.Appended), total),
						Case: "enc - " + v.String(), Key: "msglen:" + t.QName()})
					continue
				}
				off := 0
				for k, op := range t.fieldOps() {
					if op.K == "fixed" {
						want := padOrCut(op.N, byte(op.Pad), op.Left, v.Fs[k].S)
						if !bytes.Equal(r.Appended[off:off+op.N], want) {
							o.violate(Violation{Property: "C13", Kind: "direct", What: fmt.Sprintf("%s.%s: the %d-byte field is not the value padded/cut as specified", t.QName(), t.Fields[k].Name, op.N),
								Case: "enc - " + v.String(), Expected: hexOf(want), Observed: hexOf(r.Appended[off : off+op.N]), Key: "msgfield:" + t.QName()})
							break
						}
					}
					off += op.N + op.W
				}
			}
		}
		// any message: where its bytes first differ from the pinned rendering, the pinned layout must not have a fixed-width text
		// field (a difference inside a scalar or a prefix belongs to other properties)
		for _, t := range schema.Types {
			if t.Frame != nil {
				continue
			}
			hasFixed := false
			for _, op := range t.fieldOps() {
				if op.K == "fixed" || op.K == "fixeds" {
					hasFixed = true
				}
			}
			if !hasFixed {
				continue
			}
			// one value per fixed-width field in which THAT field is certainly shorter than its width (so that the pad byte and
			// the pad side show), plus two random ones
			var shortOf []int
			for k, op := range t.fieldOps() {
				if (op.K == "fixed" || op.K == "fixeds") && op.N > 0 {
					shortOf = append(shortOf, k)
				}
			}
			for rep := 0; rep < 2+len(shortOf); rep++ {
				v := g.msg(t.ID, false, 0)
				if rep == 1 {
					for k, op := range t.fieldOps() {
						if op.K == "fixed" && op.N > 0 {
							v.Fs[k] = &Val{K: 's', S: g.runes(1 + g.r.Intn(op.N))}
						}
					}
				}
				if rep >= 2 {
					k := shortOf[rep-2]
					op := t.fieldOps()[k]
					short := []byte("Ab9z.Qx7"[:min(8, op.N/2)])
					if op.K == "fixed" {
						v.Fs[k] = &Val{K: 's', S: short}
					} else {
						v.Fs[k] = &Val{K: 'S', Ss: [][]byte{short, []byte("k"[:min(1, op.N-1)]), short}}
					}
				}
				want, ok := renderPinned(v)
				r := goEnc(v, nil, BufMode{})
				if !ok || r.Class != "ok" || bytes.Equal(want, r.Appended) {
					continue
				}
				m := 0
				for m < len(want) && m < len(r.Appended) && want[m] == r.Appended[m] {
					m++
				}
				off := 0
				for k, op := range t.fieldOps() {
					g2 := op.G
					if k < len(t.Enc) {
						g2 = t.Enc[k].G
					}
					fb, ok := renderField(op, g2, v.Fs[k], v.Fs)
					if !ok {
						break
					}
					if m < off+len(fb) || k == len(t.fieldOps())-1 {
						if op.K == "fixed" || op.K == "fixeds" {
							o.violate(Violation{Property: "C13", Kind: "direct", What: fmt.Sprintf("%s.%s: the fixed-width text field is not rendered as exactly its N bytes, padded/cut as specified", t.QName(), t.Fields[k].Name),
								Case: "enc - " + v.String(), Expected: hexOf(want), Observed: hexOf(r.Appended), Key: "msgfield2:" + t.QName()})
						}
						break
					}
					off += len(fb)
				}
			}
		}
		// lists of fixed text
		for r := 0; r < rounds*4; r++ {
			op := Op{K: "fixeds", CW: []int{1, 2, 4}[g.r.Intn(3)], N: g.r.Intn(12), Pad: pads[g.r.Intn(len(pads))], Left: g.r.Intn(2) == 0, E: g.endian()}
			v := g.opVal(op, false, 0)
			if r%2 == 0 && len(v.Ss) >= 2 { // a longer element followed by a shorter one (a reused scratch field would show)
				v.Ss[0] = g.bytes(op.N, byte(op.Pad))
				v.Ss[1] = g.bytes(op.N/3, 'x')
			}
			w := corrWop(o, op, "", false, v, nil, g.mode())
			if w.Class == "ok" {
				want, _ := prefixed(op.CW, op.E, len(v.Ss), nil)
				for _, e := range v.Ss {
					want = append(want, padOrCut(op.N, byte(op.Pad), op.Left, e)...)
				}
				if !bytes.Equal(w.Appended, want) {
					o.violate(Violation{Property: "C13", Kind: "direct", What: "a list of fixed-width text is not the count followed by each element padded/cut to N bytes",
						Case: "wop " + opTokens(op) + " " + v.String(), Expected: hexOf(want), Observed: hexOf(w.Appended), Key: "listbytes"})
				}
				corrRop(o, op, "", false, append(append([]byte{}, w.Appended...), g.prefix()...), g.mode())
			}
		}
		return nil
	}
}

// ---- C14: checksum algorithms ----
type cksSvc struct {
	name string
	calc func(*bytes.Buffer) uint64
}

func cksServices() []cksSvc {
	var out []cksSvc
	for _, name := range []string{"CRC16", "CRC32", "SSE_BIN", "SZSE_BIN"} {
		svc, ok := codec.Get(name)
		if !ok {
			continue
		}
		switch s := svc.(type) {
		case codec.ChecksumService[*bytes.Buffer, uint16]:
			out = append(out, cksSvc{name, func(b *bytes.Buffer) uint64 { return uint64(s.Calc(b)) }})
		case codec.ChecksumService[*bytes.Buffer, uint32]:
			out = append(out, cksSvc{name, func(b *bytes.Buffer) uint64 { return uint64(s.Calc(b)) }})
		case codec.ChecksumService[*bytes.Buffer, int32]:
			out = append(out, cksSvc{name, func(b *bytes.Buffer) uint64 { return uint64(uint32(s.Calc(b))) }})
		}
	}
	return out
}

func init() {
	suites["C14"] = func(o *Out, g *Gen, thorough bool) map[string]any {
		svcs := cksServices()
		if len(svcs) != 4 {
			o.violate(Violation{Property: "C14", Kind: "direct", What: fmt.Sprintf("only %d of the 4 checksum services are registered with their expected result types", len(svcs)), Case: "codec.Get", Key: "registry"})
		}
		one := func(s cksSvc, data []byte, m BufMode, emitLine bool) {
			buf := mkBuffer(data, m)
			before := append([]byte{}, buf.Bytes()...)
			var got, got2 uint64
			line := "cks " + s.name + " " + hexOf(data)
			begin(line)
			c, msg := guard(func() error { got = s.calc(buf); got2 = s.calc(buf); return nil })
			if c != "ok" {
				o.violate(Violation{Property: "C14", Kind: "direct", What: "Calc panicked: " + msg, Case: trunc(line, 300), Key: "panic:" + s.name})
				return
			}
			if emitLine {
				o.emit(line, fmt.Sprintf("ok | %d", got), fmt.Sprintf("cks:%s:%s", s.name, lenClass(len(data))), true)
				if len(data) <= 8192 {
					// the Calc body as translated into GoIR from the source
					o.emit("irc "+s.name+" "+hexOf(data), fmt.Sprintf("ok | %d", got), "", false)
				}
			}
			want := refAlg(s.name, data)
			if got != want || got2 != want {
				o.violate(Violation{Property: "C14", Kind: "direct", What: s.name + " differs from its published definition", Case: trunc(line, 2000),
					Expected: fmt.Sprint(want), Observed: fmt.Sprintf("%d then %d", got, got2), Key: "value:" + s.name})
			}
			if buf.Len() != len(data) || !bytes.Equal(buf.Bytes(), before) {
				o.violate(Violation{Property: "C14", Kind: "direct", What: s.name + ": Calc consumed or modified its buffer", Case: trunc(line, 2000), Key: "pure:" + s.name})
			}
		}
		// exhaustive over all byte strings of length <= 2 (<= 3 in the thorough tier for the direct check)
		n := 0
		for _, s := range svcs {
			one(s, nil, BufMode{}, true)
			for a := 0; a < 256; a++ {
				one(s, []byte{byte(a)}, BufMode{Consumed: a % 3}, true)
				for b := 0; b < 256; b++ {
					one(s, []byte{byte(a), byte(b)}, BufMode{}, (a*256+b)%8 == 0 || thorough)
					n++
					if thorough {
						for c := 0; c < 256; c += 1 {
							one(s, []byte{byte(a), byte(b), byte(c)}, BufMode{}, false)
						}
					}
				}
			}
		}
		// random lengths, buffers with history
		rounds := 300
		if thorough {
			rounds = 4000
		}
		for i := 0; i < rounds; i++ {
			l := g.r.Intn(300)
			if i%10 == 0 {
				l = g.r.Intn(70000)
			}
			data := make([]byte, l)
			g.r.Read(data)
			if i%7 == 0 {
				for k := range data {
					data[k] |= 0x80
				}
			}
			for _, s := range svcs {
				one(s, data, g.mode(), l < 5000)
			}
		}
		// the same backing array and length with different contents, consecutively (a result must not be remembered)
		for _, s := range svcs {
			backing := make([]byte, 64)
			for i := 0; i < 6; i++ {
				for k := range backing {
					backing[k] = byte(g.r.Intn(256))
				}
				buf := bytes.NewBuffer(backing)
				got := s.calc(buf)
				if want := refAlg(s.name, backing); got != want {
					o.violate(Violation{Property: "C14", Kind: "direct", What: s.name + ": stale result for a reused buffer of equal length", Case: "cks " + s.name + " " + hexOf(backing),
						Expected: fmt.Sprint(want), Observed: fmt.Sprint(got), Key: "stale:" + s.name})
				}
			}
		}
		// inputs just above 1 MiB (a chunked implementation may consume its argument) and the registry's name -> service
		// mapping after removals and re-registrations (each name must still give ITS algorithm)
		for _, s := range svcs {
			data := make([]byte, 1<<20+1+g.r.Intn(1000))
			g.r.Read(data)
			one(s, data, BufMode{}, false)
			one(s, data[:1<<20], BufMode{Consumed: 1}, false)
		}
		names := []string{"CRC16", "CRC32", "SSE_BIN", "SZSE_BIN"}
		probe := []byte("123456789")
		checkAll := func(when string) {
			for _, s2 := range cksServices() {
				if got, want := s2.calc(bytes.NewBuffer(probe)), refAlg(s2.name, probe); got != want {
					o.violate(Violation{Property: "C14", Kind: "direct", What: "the service registered as " + s2.name + " does not compute " + s2.name + " " + when,
						Case: "cks " + s2.name + " " + hexOf(probe), Expected: fmt.Sprint(want), Observed: fmt.Sprint(got), Key: "registry:" + s2.name})
				}
			}
			if len(cksServices()) != 4 {
				o.violate(Violation{Property: "C14", Kind: "direct", What: "a checksum service is missing or has the wrong result type " + when, Case: "codec.Get", Key: "registry-missing"})
			}
		}
		if c, msg := guard(func() error {
			for _, n := range names {
				svc, ok := codec.Get(n)
				if !ok {
					continue
				}
				codec.Remove(n)
				codec.Registry(svc)
				checkAll("after " + n + " was removed and registered again")
			}
			return nil
		}); c != "ok" {
			o.violate(Violation{Property: "C14", Kind: "direct", What: "removing and re-registering the default services failed: " + c + " " + msg, Case: "codec.Remove / codec.Registry of CRC16, CRC32, SSE_BIN, SZSE_BIN in turn", Key: "registry-panic"})
		}
		// long runs of one byte (sums must stay in 0..255; 8,421,505 x 0xFF overflows an int32 accumulator)
		reps := []int{1 << 16, 1 << 20, 8421505, 8421505 + 255}
		if thorough {
			reps = append(reps, 16843010, 33554432+7)
		}
		for _, s := range svcs {
			for _, n := range reps {
				for _, b := range []byte{0xFF, 0x80, 0x01} {
					if (s.name == "CRC16" || s.name == "CRC32") && n > 1<<20 {
						continue
					}
					data := bytes.Repeat([]byte{b}, n)
					buf := bytes.NewBuffer(data)
					line := fmt.Sprintf("cksrep %s %d %d", s.name, n, b)
					begin(line)
					got := s.calc(buf)
					if n <= 1<<20 || (b == 0xFF && n <= 8421505+255) {
						o.emit(line, fmt.Sprintf("ok | %d", got), "cksrep:"+s.name+fmt.Sprint(n), true)
					}
					if want := refAlg(s.name, data); got != want {
						o.violate(Violation{Property: "C14", Kind: "direct", What: s.name + " differs from its published definition on a long input", Case: line,
							Expected: fmt.Sprint(want), Observed: fmt.Sprint(got), Key: "long:" + s.name})
					}
				}
			}
		}
		// check values (labelled tests)
		for _, cv := range []struct {
			alg  string
			want uint64
		}{{"CRC16", 0x4B37}, {"CRC32", 0xCBF43926}, {"SSE_BIN", 0xDD}, {"SZSE_BIN", 0xDD}} {
			if got := refAlg(cv.alg, []byte("123456789")); got != cv.want {
				o.violate(Violation{Property: "C14", Kind: "direct", What: "harness reference for " + cv.alg + " is wrong", Case: "123456789", Key: "ref:" + cv.alg})
			}
		}
		return map[string]any{"exhaustive_len_le_2": true}
	}
}

// crossKeys: every recombination of the digit / character groups of two registered keys that is not itself registered
// (numeric keys by their decimal digits). Tables built by nested loops over such groups can register combinations
// nobody asked for; the near-miss sample alone rarely hits them.
func crossKeys(tb *Table) []*Val {
	var regList []string
	reg := map[string]bool{}
	for _, e := range tb.Entries {
		k := e.Key
		if tb.KeyKind != "num" {
			b, _ := hex.DecodeString(e.Key)
			k = string(b)
		}
		if !reg[k] {
			reg[k] = true
			regList = append(regList, k)
		}
	}
	sort.Strings(regList)
	seen := map[string]bool{}
	var out []*Val
	for _, a := range regList {
		for _, b := range regList {
			if len(a) != len(b) || a == b {
				continue
			}
			for i := 0; i < len(a); i++ {
				for j := i + 1; j <= len(a); j++ {
					c := a[:i] + b[i:j] + a[j:]
					if reg[c] || seen[c] {
						continue
					}
					seen[c] = true
					if tb.KeyKind == "num" {
						if n, err := strconv.ParseUint(c, 10, 64); err == nil {
							out = append(out, &Val{K: 'n', N: n})
						}
					} else {
						out = append(out, &Val{K: 's', S: []byte(c)})
					}
				}
			}
		}
	}
	return out
}

// C12 (continued): the look-up functions themselves, on every recombined key: an unregistered key must be an error
func init() {
	prev := suites["C12"]
	suites["C12"] = func(o *Out, g *Gen, thorough bool) map[string]any {
		res := prev(o, g, thorough)
		n := 0
		for _, tb := range schema.Tables {
			fn := lookupFns[tb.Pkg+"."+tb.Lookup]
			if fn == nil {
				continue
			}
			for _, kv := range crossKeys(tb) {
				var key any = kv.N
				desc := fmt.Sprintf("lookup %d n %d", tb.ID, kv.N)
				if kv.K == 's' {
					key = string(kv.S)
					desc = fmt.Sprintf("lookup %d s %s", tb.ID, hexOf(kv.S))
				}
				var m codec.BinaryCodec
				begin(desc)
				c, _ := guard(func() error { var err error; m, err = fn(key); return err })
				n++
				if c != "err" {
					got := "nil"
					if m != nil {
						got = fmt.Sprintf("%T", m)
					}
					o.violate(Violation{Property: "C12", Kind: "direct", What: fmt.Sprintf("%s.%s(%v): the key is not registered in the pinned table, the look-up answered %s (%s) instead of an error", tb.Pkg, tb.Lookup, key, c, got),
						Case: desc, Expected: "err", Observed: c + " " + got, Key: fmt.Sprintf("crosskey:%s.%s", tb.Pkg, tb.Lookup)})
					break
				}
			}
		}
		o.stats["recombined-keys"] += n
		res["recombined_keys"] = n
		return res
	}
}

// C12 (first thing in the process, before any look-up has been made): registering a factory again for a key that is
// already registered (same type) changes nothing - afterwards every pinned key still selects its pinned type. A table that
// is filled lazily, or replaced by the first registration, loses its built-in entries exactly here.
func init() {
	prev := suites["C12"]
	suites["C12"] = func(o *Out, g *Gen, thorough bool) map[string]any {
		for _, tb := range schema.Tables {
			reg := tableRegFns[tb.Pkg+"."+tb.Reg]
			if reg == nil || len(tb.Entries) == 0 {
				continue
			}
			fn := lookupFns[tb.Pkg+"."+tb.Lookup]
			if fn == nil {
				continue
			}
			e0 := tb.Entries[len(tb.Entries)-1]
			ty := e0.Ty
			var key any
			kv := keyVal(tb, e0)
			if kv.K == 'n' {
				key = kv.N
			} else {
				key = string(kv.S)
			}
			c, msg := guard(func() error {
				reg(key, func() codec.BinaryCodec { return typeCtors[ty]().(codec.BinaryCodec) })
				return nil
			})
			if c != "ok" {
				o.violate(Violation{Property: "C12", Kind: "direct", What: "registering a factory panicked: " + msg, Case: fmt.Sprintf("register %s.%s key %s", tb.Pkg, tb.Lookup, e0.Key), Key: "reregister-panic:" + tb.Lookup})
				continue
			}
			for _, e := range tb.Entries {
				kv := keyVal(tb, e)
				var k any = kv.N
				desc := fmt.Sprintf("lookup %d n %d", tb.ID, kv.N)
				if kv.K == 's' {
					k = string(kv.S)
					desc = fmt.Sprintf("lookup %d s %s", tb.ID, hexOf(kv.S))
				}
				var m codec.BinaryCodec
				c, _ := guard(func() error { var err error; m, err = fn(k); return err })
				want := fmt.Sprintf("%T", typeCtors[lastEntryTy(tb, e)]())
				if c != "ok" || m == nil || fmt.Sprintf("%T", m) != want {
					o.violate(Violation{Property: "C12", Kind: "direct", What: fmt.Sprintf("after registering the factory of key %s again (first call into the table in this process), %s.%s(%v) no longer selects %s (%s)", e0.Key, tb.Pkg, tb.Lookup, k, want, c),
						Case: fmt.Sprintf("register %s.%s key %s ; %s", tb.Pkg, tb.Lookup, e0.Key, desc), Expected: want, Observed: fmt.Sprintf("%s %T", c, m), Key: "reregister:" + tb.Pkg + "." + tb.Lookup})
					break
				}
			}
			o.stat("reregistered-tables")
		}
		return prev(o, g, thorough)
	}
}

// the type the LAST registration of e's key selects (later registrations win)
func lastEntryTy(tb *Table, e Entry) int {
	ty := e.Ty
	for _, x := range tb.Entries {
		if x.Key == e.Key {
			ty = x.Ty
		}
	}
	return ty
}
