package main

import (
	"bytes"
	"fmt"
	"math"

	"github.com/xinchentechnote/fin-proto-go/codec"
	"golang.org/x/exp/constraints"
)

// Named numeric types: the codec's type parameters admit them (~uint32 …); the generated messages do not use them.
type NamedU32 uint32
type NamedI16 int16
type NamedU64 uint64
type NamedU8 uint8

// element kinds the primitives are instantiated at
var elemKinds = []string{"u8", "u16", "u32", "u64", "i8", "i16", "i32", "i64", "f32", "f64", "NamedU32", "NamedI16", "NamedU64", "NamedU8"}

func kindWidth(k string) int {
	switch k {
	case "u8", "i8", "NamedU8":
		return 1
	case "u16", "i16", "NamedI16":
		return 2
	case "u32", "i32", "f32", "NamedU32":
		return 4
	}
	return 8
}

type primErr struct{ class string }

func guard(f func() error) (class string, msg string) {
	defer end()
	defer func() {
		if r := recover(); r != nil {
			class, msg = "panic", fmt.Sprint(r)
		}
	}()
	if err := f(); err != nil {
		return "err", err.Error()
	}
	return "ok", ""
}

func conv[K codec.BasicType](n uint64) K {
	var z K
	switch any(z).(type) {
	case float32:
		f := math.Float32frombits(uint32(n))
		return any(f).(K)
	case float64:
		f := math.Float64frombits(n)
		return any(f).(K)
	}
	return K(n) // integer kinds: truncating conversion keeps the low bits
}

func bitsOf[K codec.BasicType](v K) uint64 {
	switch x := any(v).(type) {
	case float32:
		return uint64(math.Float32bits(x))
	case float64:
		return math.Float64bits(x)
	case int8:
		return uint64(uint8(x))
	case int16:
		return uint64(uint16(x))
	case int32:
		return uint64(uint32(x))
	case int64:
		return uint64(x)
	case uint8:
		return uint64(x)
	case uint16:
		return uint64(x)
	case uint32:
		return uint64(x)
	case uint64:
		return x
	case NamedU32:
		return uint64(x)
	case NamedI16:
		return uint64(uint16(x))
	case NamedU64:
		return uint64(x)
	case NamedU8:
		return uint64(x)
	}
	panic("bitsOf")
}

// ---- scalars ----

func wScalarK[K codec.BasicType](buf *bytes.Buffer, le bool, n uint64) error {
	if le {
		return codec.WriteBasicTypeLE(buf, conv[K](n))
	}
	return codec.WriteBasicType(buf, conv[K](n))
}

func rScalarK[K codec.BasicType](buf *bytes.Buffer, le bool) (uint64, error) {
	if le {
		v, err := codec.ReadBasicTypeLE[K](buf)
		return bitsOf(v), err
	}
	v, err := codec.ReadBasicType[K](buf)
	return bitsOf(v), err
}

func wScalar(buf *bytes.Buffer, kind string, le bool, n uint64) error {
	switch kind {
	case "u8":
		return wScalarK[uint8](buf, le, n)
	case "u16":
		return wScalarK[uint16](buf, le, n)
	case "u32":
		return wScalarK[uint32](buf, le, n)
	case "u64":
		return wScalarK[uint64](buf, le, n)
	case "i8":
		return wScalarK[int8](buf, le, n)
	case "i16":
		return wScalarK[int16](buf, le, n)
	case "i32":
		return wScalarK[int32](buf, le, n)
	case "i64":
		return wScalarK[int64](buf, le, n)
	case "f32":
		return wScalarK[float32](buf, le, n)
	case "f64":
		return wScalarK[float64](buf, le, n)
	case "NamedU32":
		return wScalarK[NamedU32](buf, le, n)
	case "NamedI16":
		return wScalarK[NamedI16](buf, le, n)
	case "NamedU64":
		return wScalarK[NamedU64](buf, le, n)
	case "NamedU8":
		return wScalarK[NamedU8](buf, le, n)
	}
	panic("kind " + kind)
}

func rScalar(buf *bytes.Buffer, kind string, le bool) (uint64, error) {
	switch kind {
	case "u8":
		return rScalarK[uint8](buf, le)
	case "u16":
		return rScalarK[uint16](buf, le)
	case "u32":
		return rScalarK[uint32](buf, le)
	case "u64":
		return rScalarK[uint64](buf, le)
	case "i8":
		return rScalarK[int8](buf, le)
	case "i16":
		return rScalarK[int16](buf, le)
	case "i32":
		return rScalarK[int32](buf, le)
	case "i64":
		return rScalarK[int64](buf, le)
	case "f32":
		return rScalarK[float32](buf, le)
	case "f64":
		return rScalarK[float64](buf, le)
	case "NamedU32":
		return rScalarK[NamedU32](buf, le)
	case "NamedI16":
		return rScalarK[NamedI16](buf, le)
	case "NamedU64":
		return rScalarK[NamedU64](buf, le)
	case "NamedU8":
		return rScalarK[NamedU8](buf, le)
	}
	panic("kind " + kind)
}

// ---- numeric lists ----

func wNumsTK[T constraints.Unsigned, K codec.BasicType](buf *bytes.Buffer, le bool, ns []uint64) error {
	var vals []K
	if ns != nil {
		vals = make([]K, len(ns))
		for i, n := range ns {
			vals[i] = conv[K](n)
		}
	}
	if le {
		return codec.WriteBasicTypeListLE[T](buf, vals)
	}
	return codec.WriteBasicTypeList[T](buf, vals)
}

func rNumsTK[T constraints.Unsigned, K codec.BasicType](buf *bytes.Buffer, le bool) ([]uint64, error) {
	var vals []K
	var err error
	if le {
		vals, err = codec.ReadBasicTypeListLE[T, K](buf)
	} else {
		vals, err = codec.ReadBasicTypeList[T, K](buf)
	}
	out := make([]uint64, len(vals))
	for i, v := range vals {
		out[i] = bitsOf(v)
	}
	return out, err
}

func wNumsT[T constraints.Unsigned](buf *bytes.Buffer, kind string, le bool, ns []uint64) error {
	switch kind {
	case "u8":
		return wNumsTK[T, uint8](buf, le, ns)
	case "u16":
		return wNumsTK[T, uint16](buf, le, ns)
	case "u32":
		return wNumsTK[T, uint32](buf, le, ns)
	case "u64":
		return wNumsTK[T, uint64](buf, le, ns)
	case "i8":
		return wNumsTK[T, int8](buf, le, ns)
	case "i16":
		return wNumsTK[T, int16](buf, le, ns)
	case "i32":
		return wNumsTK[T, int32](buf, le, ns)
	case "i64":
		return wNumsTK[T, int64](buf, le, ns)
	case "f32":
		return wNumsTK[T, float32](buf, le, ns)
	case "f64":
		return wNumsTK[T, float64](buf, le, ns)
	case "NamedU32":
		return wNumsTK[T, NamedU32](buf, le, ns)
	case "NamedI16":
		return wNumsTK[T, NamedI16](buf, le, ns)
	case "NamedU64":
		return wNumsTK[T, NamedU64](buf, le, ns)
	case "NamedU8":
		return wNumsTK[T, NamedU8](buf, le, ns)
	}
	panic("kind " + kind)
}

func rNumsT[T constraints.Unsigned](buf *bytes.Buffer, kind string, le bool) ([]uint64, error) {
	switch kind {
	case "u8":
		return rNumsTK[T, uint8](buf, le)
	case "u16":
		return rNumsTK[T, uint16](buf, le)
	case "u32":
		return rNumsTK[T, uint32](buf, le)
	case "u64":
		return rNumsTK[T, uint64](buf, le)
	case "i8":
		return rNumsTK[T, int8](buf, le)
	case "i16":
		return rNumsTK[T, int16](buf, le)
	case "i32":
		return rNumsTK[T, int32](buf, le)
	case "i64":
		return rNumsTK[T, int64](buf, le)
	case "f32":
		return rNumsTK[T, float32](buf, le)
	case "f64":
		return rNumsTK[T, float64](buf, le)
	case "NamedU32":
		return rNumsTK[T, NamedU32](buf, le)
	case "NamedI16":
		return rNumsTK[T, NamedI16](buf, le)
	case "NamedU64":
		return rNumsTK[T, NamedU64](buf, le)
	case "NamedU8":
		return rNumsTK[T, NamedU8](buf, le)
	}
	panic("kind " + kind)
}

func wNums(buf *bytes.Buffer, cw int, kind string, le bool, ns []uint64) error {
	switch cw {
	case 1:
		return wNumsT[uint8](buf, kind, le, ns)
	case 2:
		return wNumsT[uint16](buf, kind, le, ns)
	case 4:
		return wNumsT[uint32](buf, kind, le, ns)
	}
	return wNumsT[uint64](buf, kind, le, ns)
}

func rNums(buf *bytes.Buffer, cw int, kind string, le bool) ([]uint64, error) {
	switch cw {
	case 1:
		return rNumsT[uint8](buf, kind, le)
	case 2:
		return rNumsT[uint16](buf, kind, le)
	case 4:
		return rNumsT[uint32](buf, kind, le)
	}
	return rNumsT[uint64](buf, kind, le)
}

// ---- text ----

func wVstr(buf *bytes.Buffer, pw int, le bool, s string) error {
	switch {
	case pw == 1 && le:
		return codec.WriteStringLE[uint8](buf, s)
	case pw == 1:
		return codec.WriteString[uint8](buf, s)
	case pw == 2 && le:
		return codec.WriteStringLE[uint16](buf, s)
	case pw == 2:
		return codec.WriteString[uint16](buf, s)
	case pw == 4 && le:
		return codec.WriteStringLE[uint32](buf, s)
	case pw == 4:
		return codec.WriteString[uint32](buf, s)
	case le:
		return codec.WriteStringLE[uint64](buf, s)
	}
	return codec.WriteString[uint64](buf, s)
}

func rVstr(buf *bytes.Buffer, pw int, le bool) (string, error) {
	switch {
	case pw == 1 && le:
		return codec.ReadStringLE[uint8](buf)
	case pw == 1:
		return codec.ReadString[uint8](buf)
	case pw == 2 && le:
		return codec.ReadStringLE[uint16](buf)
	case pw == 2:
		return codec.ReadString[uint16](buf)
	case pw == 4 && le:
		return codec.ReadStringLE[uint32](buf)
	case pw == 4:
		return codec.ReadString[uint32](buf)
	case le:
		return codec.ReadStringLE[uint64](buf)
	}
	return codec.ReadString[uint64](buf)
}

func wVstrsT[T constraints.Unsigned](buf *bytes.Buffer, pw int, le bool, l []string) error {
	switch {
	case pw == 1 && le:
		return codec.WriteStringListLE[T, uint8](buf, l)
	case pw == 1:
		return codec.WriteStringList[T, uint8](buf, l)
	case pw == 2 && le:
		return codec.WriteStringListLE[T, uint16](buf, l)
	case pw == 2:
		return codec.WriteStringList[T, uint16](buf, l)
	case pw == 4 && le:
		return codec.WriteStringListLE[T, uint32](buf, l)
	case pw == 4:
		return codec.WriteStringList[T, uint32](buf, l)
	case le:
		return codec.WriteStringListLE[T, uint64](buf, l)
	}
	return codec.WriteStringList[T, uint64](buf, l)
}

func rVstrsT[T constraints.Unsigned](buf *bytes.Buffer, pw int, le bool) ([]string, error) {
	switch {
	case pw == 1 && le:
		return codec.ReadStringListLE[T, uint8](buf)
	case pw == 1:
		return codec.ReadStringList[T, uint8](buf)
	case pw == 2 && le:
		return codec.ReadStringListLE[T, uint16](buf)
	case pw == 2:
		return codec.ReadStringList[T, uint16](buf)
	case pw == 4 && le:
		return codec.ReadStringListLE[T, uint32](buf)
	case pw == 4:
		return codec.ReadStringList[T, uint32](buf)
	case le:
		return codec.ReadStringListLE[T, uint64](buf)
	}
	return codec.ReadStringList[T, uint64](buf)
}

func wVstrs(buf *bytes.Buffer, cw, pw int, le bool, l []string) error {
	switch cw {
	case 1:
		return wVstrsT[uint8](buf, pw, le, l)
	case 2:
		return wVstrsT[uint16](buf, pw, le, l)
	case 4:
		return wVstrsT[uint32](buf, pw, le, l)
	}
	return wVstrsT[uint64](buf, pw, le, l)
}

func rVstrs(buf *bytes.Buffer, cw, pw int, le bool) ([]string, error) {
	switch cw {
	case 1:
		return rVstrsT[uint8](buf, pw, le)
	case 2:
		return rVstrsT[uint16](buf, pw, le)
	case 4:
		return rVstrsT[uint32](buf, pw, le)
	}
	return rVstrsT[uint64](buf, pw, le)
}

func wFixedsT[T constraints.Unsigned](buf *bytes.Buffer, n int, pad byte, left, le, plain bool, l []string) error {
	switch {
	case plain && le:
		return codec.WriteFixedStringListLE[T](buf, l, n)
	case plain:
		return codec.WriteFixedStringList[T](buf, l, n)
	case le:
		return codec.WriteFixedStringListWithPaddingLE[T](buf, l, n, rune(pad), left)
	}
	return codec.WriteFixedStringListWithPadding[T](buf, l, n, rune(pad), left)
}

func rFixedsT[T constraints.Unsigned](buf *bytes.Buffer, n int, pad byte, left, le, plain bool) ([]string, error) {
	switch {
	case plain && le:
		return codec.ReadFixedStringListLE[T](buf, n)
	case plain:
		return codec.ReadFixedStringList[T](buf, n)
	case le:
		return codec.ReadFixedStringListTrimPaddingLE[T](buf, n, rune(pad), left)
	}
	return codec.ReadFixedStringListTrimPadding[T](buf, n, rune(pad), left)
}

// plain: use the variant without explicit padding arguments (pad ' ', right)
func wFixeds(buf *bytes.Buffer, cw, n int, pad byte, left, le, plain bool, l []string) error {
	switch cw {
	case 1:
		return wFixedsT[uint8](buf, n, pad, left, le, plain, l)
	case 2:
		return wFixedsT[uint16](buf, n, pad, left, le, plain, l)
	case 4:
		return wFixedsT[uint32](buf, n, pad, left, le, plain, l)
	}
	return wFixedsT[uint64](buf, n, pad, left, le, plain, l)
}

func rFixeds(buf *bytes.Buffer, cw, n int, pad byte, left, le, plain bool) ([]string, error) {
	switch cw {
	case 1:
		return rFixedsT[uint8](buf, n, pad, left, le, plain)
	case 2:
		return rFixedsT[uint16](buf, n, pad, left, le, plain)
	case 4:
		return rFixedsT[uint32](buf, n, pad, left, le, plain)
	}
	return rFixedsT[uint64](buf, n, pad, left, le, plain)
}

func strs(l [][]byte) []string {
	if l == nil {
		return nil
	}
	out := make([]string, len(l))
	for i, b := range l {
		out[i] = string(b)
	}
	return out
}

func unstrs(l []string) [][]byte {
	out := make([][]byte, len(l))
	for i, s := range l {
		out[i] = []byte(s)
	}
	return out
}
