package main

import (
	"encoding/hex"
	"fmt"
	"math"
	"reflect"
	"strconv"
	"strings"
)

// Val mirrors the Lean `Val` (wire values): bit patterns, byte strings, lists, messages, nil.
type Val struct {
	K  byte // n s N S m M z
	N  uint64
	S  []byte
	Ns []uint64
	Ss [][]byte
	Ty int
	Fs []*Val
}

func hexOf(b []byte) string {
	if len(b) == 0 {
		return "-"
	}
	return hex.EncodeToString(b)
}

func parseHex(s string) ([]byte, error) {
	if s == "-" {
		return nil, nil
	}
	return hex.DecodeString(s)
}

func (v *Val) write(sb *strings.Builder) {
	switch v.K {
	case 'n':
		sb.WriteString("n ")
		sb.WriteString(strconv.FormatUint(v.N, 10))
	case 's':
		sb.WriteString("s ")
		sb.WriteString(hexOf(v.S))
	case 'N':
		sb.WriteString("N ")
		sb.WriteString(strconv.Itoa(len(v.Ns)))
		for _, n := range v.Ns {
			sb.WriteByte(' ')
			sb.WriteString(strconv.FormatUint(n, 10))
		}
	case 'S':
		sb.WriteString("S ")
		sb.WriteString(strconv.Itoa(len(v.Ss)))
		for _, s := range v.Ss {
			sb.WriteByte(' ')
			sb.WriteString(hexOf(s))
		}
	case 'm':
		fmt.Fprintf(sb, "m %d %d", v.Ty, len(v.Fs))
		for _, f := range v.Fs {
			sb.WriteByte(' ')
			f.write(sb)
		}
	case 'M':
		fmt.Fprintf(sb, "M %d", len(v.Fs))
		for _, f := range v.Fs {
			sb.WriteByte(' ')
			f.write(sb)
		}
	default:
		sb.WriteString("z")
	}
}

func (v *Val) String() string {
	var sb strings.Builder
	v.write(&sb)
	return sb.String()
}

func parseVal(toks []string) (*Val, []string, error) {
	if len(toks) == 0 {
		return nil, nil, fmt.Errorf("eof")
	}
	t, toks := toks[0], toks[1:]
	num := func() (int, error) {
		if len(toks) == 0 {
			return 0, fmt.Errorf("eof")
		}
		n, err := strconv.Atoi(toks[0])
		toks = toks[1:]
		return n, err
	}
	switch t {
	case "n":
		n, err := strconv.ParseUint(toks[0], 10, 64)
		return &Val{K: 'n', N: n}, toks[1:], err
	case "s":
		b, err := parseHex(toks[0])
		return &Val{K: 's', S: b}, toks[1:], err
	case "N":
		k, err := num()
		if err != nil {
			return nil, nil, err
		}
		v := &Val{K: 'N'}
		for i := 0; i < k; i++ {
			n, err := strconv.ParseUint(toks[0], 10, 64)
			if err != nil {
				return nil, nil, err
			}
			toks = toks[1:]
			v.Ns = append(v.Ns, n)
		}
		return v, toks, nil
	case "S":
		k, err := num()
		if err != nil {
			return nil, nil, err
		}
		v := &Val{K: 'S'}
		for i := 0; i < k; i++ {
			b, err := parseHex(toks[0])
			if err != nil {
				return nil, nil, err
			}
			toks = toks[1:]
			v.Ss = append(v.Ss, b)
		}
		return v, toks, nil
	case "m", "M":
		v := &Val{K: t[0]}
		if t == "m" {
			ty, err := num()
			if err != nil {
				return nil, nil, err
			}
			v.Ty = ty
		}
		k, err := num()
		if err != nil {
			return nil, nil, err
		}
		for i := 0; i < k; i++ {
			f, rest, err := parseVal(toks)
			if err != nil {
				return nil, nil, err
			}
			toks = rest
			v.Fs = append(v.Fs, f)
		}
		return v, toks, nil
	case "z":
		return &Val{K: 'z'}, toks, nil
	}
	return nil, nil, fmt.Errorf("bad token %q", t)
}

func valEq(a, b *Val) bool { return a.String() == b.String() }

func (v *Val) clone() *Val {
	c, _, _ := parseVal(strings.Fields(v.String()))
	return c
}

// ---- Go message objects <-> Val (reflection over struct fields, in declaration order) ---------------

var typeIDOf = map[reflect.Type]int{}

func initTypeIDs() {
	for i, c := range typeCtors {
		typeIDOf[reflect.TypeOf(c())] = i
	}
}

func widthOfKind(k reflect.Kind) int {
	switch k {
	case reflect.Int8, reflect.Uint8:
		return 1
	case reflect.Int16, reflect.Uint16:
		return 2
	case reflect.Int32, reflect.Uint32, reflect.Float32:
		return 4
	case reflect.Int64, reflect.Uint64, reflect.Float64:
		return 8
	}
	return 0
}

func setNum(rv reflect.Value, n uint64) {
	switch rv.Kind() {
	case reflect.Uint8, reflect.Uint16, reflect.Uint32, reflect.Uint64:
		rv.SetUint(n & (1<<(8*uint(widthOfKind(rv.Kind()))) - 1 | boolMask(widthOfKind(rv.Kind()) == 8)))
	case reflect.Int8:
		rv.SetInt(int64(int8(n)))
	case reflect.Int16:
		rv.SetInt(int64(int16(n)))
	case reflect.Int32:
		rv.SetInt(int64(int32(n)))
	case reflect.Int64:
		rv.SetInt(int64(n))
	case reflect.Float32:
		rv.SetFloat(float64(math.Float32frombits(uint32(n))))
		// SetFloat converts through float64: signalling NaNs may be quietened; set the bits exactly
		*(rv.Addr().Interface().(*float32)) = math.Float32frombits(uint32(n))
	case reflect.Float64:
		*(rv.Addr().Interface().(*float64)) = math.Float64frombits(n)
	default:
		panic("setNum: kind " + rv.Kind().String())
	}
}

func boolMask(b bool) uint64 {
	if b {
		return ^uint64(0)
	}
	return 0
}

func getNum(rv reflect.Value) uint64 {
	switch rv.Kind() {
	case reflect.Uint8, reflect.Uint16, reflect.Uint32, reflect.Uint64:
		return rv.Uint()
	case reflect.Int8:
		return uint64(uint8(rv.Int()))
	case reflect.Int16:
		return uint64(uint16(rv.Int()))
	case reflect.Int32:
		return uint64(uint32(rv.Int()))
	case reflect.Int64:
		return uint64(rv.Int())
	case reflect.Float32:
		if rv.CanAddr() {
			return uint64(math.Float32bits(*(rv.Addr().Interface().(*float32))))
		}
		return uint64(math.Float32bits(float32(rv.Float())))
	case reflect.Float64:
		return math.Float64bits(rv.Float())
	}
	panic("getNum: kind " + rv.Kind().String())
}

// newObj builds the Go object for a message value (pointer to struct).
func newObj(v *Val) any {
	obj := typeCtors[v.Ty]()
	fillStruct(reflect.ValueOf(obj).Elem(), v)
	return obj
}

func fillStruct(sv reflect.Value, v *Val) {
	if v.K != 'm' || sv.NumField() != len(v.Fs) {
		panic(fmt.Sprintf("fillStruct: %s expects %d fields, value %.80s", sv.Type(), sv.NumField(), v.String()))
	}
	for i := 0; i < sv.NumField(); i++ {
		fillField(sv.Field(i), v.Fs[i])
	}
}

func fillField(fv reflect.Value, v *Val) {
	switch fv.Kind() {
	case reflect.String:
		fv.SetString(string(v.S))
	case reflect.Slice:
		et := fv.Type().Elem()
		switch {
		case et.Kind() == reflect.String:
			if len(v.Ss) == 0 {
				fv.Set(reflect.Zero(fv.Type()))
				return
			}
			s := reflect.MakeSlice(fv.Type(), len(v.Ss), len(v.Ss))
			for i, x := range v.Ss {
				s.Index(i).SetString(string(x))
			}
			fv.Set(s)
		case et.Kind() == reflect.Ptr:
			if len(v.Fs) == 0 {
				fv.Set(reflect.Zero(fv.Type()))
				return
			}
			s := reflect.MakeSlice(fv.Type(), len(v.Fs), len(v.Fs))
			for i, x := range v.Fs {
				if x.K == 'z' {
					continue
				}
				p := reflect.New(et.Elem())
				fillStruct(p.Elem(), x)
				s.Index(i).Set(p)
			}
			fv.Set(s)
		default:
			if len(v.Ns) == 0 {
				fv.Set(reflect.Zero(fv.Type()))
				return
			}
			s := reflect.MakeSlice(fv.Type(), len(v.Ns), len(v.Ns))
			for i, x := range v.Ns {
				setNum(s.Index(i), x)
			}
			fv.Set(s)
		}
	case reflect.Ptr:
		if v.K == 'z' {
			fv.Set(reflect.Zero(fv.Type()))
			return
		}
		p := reflect.New(fv.Type().Elem())
		fillStruct(p.Elem(), v)
		fv.Set(p)
	case reflect.Interface:
		if v.K == 'z' {
			fv.Set(reflect.Zero(fv.Type()))
			return
		}
		fv.Set(reflect.ValueOf(newObj(v)))
	case reflect.Struct:
		fillStruct(fv, v)
	default:
		setNum(fv, v.N)
	}
}

// readObj converts a Go message object (pointer to struct) back to a Val.
func readObj(obj any) *Val {
	rv := reflect.ValueOf(obj)
	if !rv.IsValid() || (rv.Kind() == reflect.Ptr && rv.IsNil()) {
		return &Val{K: 'z'}
	}
	id, ok := typeIDOf[rv.Type()]
	if !ok {
		return &Val{K: 'm', Ty: -1}
	}
	return readStruct(rv.Elem(), id)
}

func readStruct(sv reflect.Value, id int) *Val {
	v := &Val{K: 'm', Ty: id}
	for i := 0; i < sv.NumField(); i++ {
		v.Fs = append(v.Fs, readField(sv.Field(i)))
	}
	return v
}

func readField(fv reflect.Value) *Val {
	switch fv.Kind() {
	case reflect.String:
		return &Val{K: 's', S: []byte(fv.String())}
	case reflect.Slice:
		et := fv.Type().Elem()
		switch {
		case et.Kind() == reflect.String:
			v := &Val{K: 'S'}
			for i := 0; i < fv.Len(); i++ {
				v.Ss = append(v.Ss, []byte(fv.Index(i).String()))
			}
			return v
		case et.Kind() == reflect.Ptr:
			v := &Val{K: 'M'}
			for i := 0; i < fv.Len(); i++ {
				e := fv.Index(i)
				if e.IsNil() {
					v.Fs = append(v.Fs, &Val{K: 'z'})
				} else {
					v.Fs = append(v.Fs, readStruct(e.Elem(), typeIDOf[e.Type()]))
				}
			}
			return v
		default:
			v := &Val{K: 'N'}
			for i := 0; i < fv.Len(); i++ {
				v.Ns = append(v.Ns, getNum(fv.Index(i)))
			}
			return v
		}
	case reflect.Ptr:
		if fv.IsNil() {
			return &Val{K: 'z'}
		}
		return readStruct(fv.Elem(), typeIDOf[fv.Type()])
	case reflect.Interface:
		if fv.IsNil() {
			return &Val{K: 'z'}
		}
		return readObj(fv.Interface())
	case reflect.Struct:
		return readStruct(fv, typeIDOf[reflect.PointerTo(fv.Type())])
	default:
		return &Val{K: 'n', N: getNum(fv)}
	}
}
