package main

import (
	"encoding/hex"
	"math/rand"
	"strconv"
)

// Gen produces type-directed values; every random choice comes from one PRNG.
type Gen struct {
	r        *rand.Rand
	maxList  int // typical upper bound for list lengths
	bigLists []int
}

func newGen(seed int64) *Gen { return &Gen{r: rand.New(rand.NewSource(seed)), maxList: 6} }

func maxOf(w int) uint64 {
	if w >= 8 {
		return ^uint64(0)
	}
	return 1<<(8*uint(w)) - 1
}

var pow2Edges = []uint64{1 << 7, 1 << 8, 1 << 15, 1 << 16, 1 << 24, 1 << 31, 1 << 32, 1 << 40, 1 << 48, 1 << 63}

func (g *Gen) scalar(w int) uint64 {
	m := maxOf(w)
	if g.r.Intn(8) == 0 { // values around the powers of two where narrower arithmetic wraps
		e := pow2Edges[g.r.Intn(len(pow2Edges))]
		return (e + uint64(g.r.Intn(3)) - 1) & m
	}
	switch g.r.Intn(10) {
	case 0:
		return 0
	case 1:
		return 1
	case 2:
		return m
	case 3:
		return m>>1 + 1 // sign bit
	case 4:
		return 0x0102030405060708 & m // non-palindromic
	case 5:
		return 0x7FF8000000000001 & m // NaN-ish payloads
	case 6:
		return 0xFFF0000000000000 >> (64 - 8*uint(w)) // -inf pattern for floats
	default:
		return g.r.Uint64() & m
	}
}

var alphabet = []byte("ABCxyz019 .-_")

func (g *Gen) byteFor(pad byte) byte {
	switch g.r.Intn(12) {
	case 0:
		return pad
	case 1:
		return 0
	case 2:
		return ' '
	case 3:
		return '0'
	case 4:
		return byte(0x80 + g.r.Intn(0x80))
	case 5:
		return byte(g.r.Intn(256))
	default:
		return alphabet[g.r.Intn(len(alphabet))]
	}
}

var multibyte = [][]byte{[]byte("中"), []byte("文"), []byte("é"), []byte("沪"), []byte("€"), []byte("😀")}

func (g *Gen) bytes(n int, pad byte) []byte {
	b := make([]byte, n)
	for i := range b {
		b[i] = g.byteFor(pad)
	}
	// valid multi-byte UTF-8 text (possibly reaching the end of the value, so that a cut may fall inside a rune)
	if n >= 2 && g.r.Intn(4) == 0 {
		k := 1 + g.r.Intn(3)
		pos := g.r.Intn(n)
		if g.r.Intn(2) == 0 {
			pos = n - 1 - g.r.Intn(min(n, 4))
		}
		for ; k > 0 && pos < n; k-- {
			mb := multibyte[g.r.Intn(len(multibyte))]
			pos += copy(b[pos:], mb)
		}
	}
	return b
}

// text made only of valid multi-byte runes (rune count much smaller than byte count)
func (g *Gen) runes(nRunes int) []byte {
	var b []byte
	for i := 0; i < nRunes; i++ {
		b = append(b, multibyte[g.r.Intn(len(multibyte))]...)
	}
	return b
}

// canonical fixed text: length <= n, no pad byte on the pad side
func (g *Gen) canonFixed(n int, pad byte, left bool) []byte {
	if n == 0 {
		return nil
	}
	var l int
	switch g.r.Intn(5) {
	case 0:
		l = 0
	case 1:
		l = n
	case 2:
		l = 1
	default:
		l = g.r.Intn(n + 1)
	}
	b := g.bytes(l, pad)
	if l > 0 {
		i := l - 1
		if left {
			i = 0
		}
		for b[i] == pad {
			b[i] = alphabet[g.r.Intn(len(alphabet))]
			if b[i] == pad {
				b[i] = 'Q'
			}
		}
	}
	return b
}

// arbitrary fixed text: may be too long, may start/end with pad
func (g *Gen) anyFixed(n int, pad byte) []byte {
	if n > 0 && g.r.Intn(8) == 0 {
		return g.runes(1 + g.r.Intn(n+1)) // up to n+1 runes: more bytes than n, possibly fewer runes than n
	}
	var l int
	switch g.r.Intn(6) {
	case 0:
		l = n + 1 + g.r.Intn(4)
	case 1:
		l = n
	case 2:
		l = 2*n + 3
	default:
		l = g.r.Intn(n + 2)
	}
	b := g.bytes(l, pad)
	if l > 0 && g.r.Intn(3) == 0 {
		b[0] = pad
	}
	if l > 0 && g.r.Intn(3) == 0 {
		b[l-1] = pad
	}
	return b
}

var lenEdges = []int{15, 16, 17, 31, 32, 33, 63, 64, 65, 127, 128, 129}

func (g *Gen) listLen() int {
	if len(g.bigLists) > 0 && g.r.Intn(40) == 0 {
		return g.bigLists[g.r.Intn(len(g.bigLists))]
	}
	if g.maxList >= 6 && g.r.Intn(25) == 0 {
		return lenEdges[g.r.Intn(len(lenEdges))]
	}
	switch g.r.Intn(6) {
	case 0:
		return 0
	case 1:
		return 1
	case 2:
		return 2
	default:
		return g.r.Intn(g.maxList + 1)
	}
}

func (g *Gen) vstr(pw int) []byte {
	var l int
	switch g.r.Intn(10) {
	case 0:
		l = 0
	case 1:
		l = 255
	case 2:
		l = 256
	case 3:
		l = 300 + g.r.Intn(200)
	case 4:
		l = []int{15, 16, 17, 31, 32, 33, 61, 62, 63, 64, 65, 66, 126, 127, 128, 129, 511, 512, 513, 1023, 1024, 1025, 4095, 4096, 4097}[g.r.Intn(25)] // around scratch-buffer sizes
	default:
		l = g.r.Intn(40)
	}
	if pw == 1 && l > 255 {
		l = 255
	}
	return g.bytes(l, ' ')
}

func keyVal(t *Table, e Entry) *Val {
	if t.KeyKind == "num" {
		n, _ := strconv.ParseUint(e.Key, 10, 64)
		return &Val{K: 'n', N: n}
	}
	b, _ := hex.DecodeString(e.Key)
	return &Val{K: 's', S: b}
}

// opVal: a value for one field; canon selects the canonical domain of C01
func (g *Gen) opVal(o Op, canon bool, depth int) *Val {
	switch o.K {
	case "scalar":
		return &Val{K: 'n', N: g.scalar(o.W)}
	case "fixed":
		if canon {
			return &Val{K: 's', S: g.canonFixed(o.N, byte(o.Pad), o.Left)}
		}
		return &Val{K: 's', S: g.anyFixed(o.N, byte(o.Pad))}
	case "vstr":
		return &Val{K: 's', S: g.vstr(o.PW)}
	case "nums":
		n := g.listLen()
		v := &Val{K: 'N'}
		for i := 0; i < n; i++ {
			v.Ns = append(v.Ns, g.scalar(o.W))
		}
		return v
	case "fixeds":
		n := g.listLen()
		v := &Val{K: 'S'}
		for i := 0; i < n; i++ {
			if canon {
				v.Ss = append(v.Ss, g.canonFixed(o.N, byte(o.Pad), o.Left))
			} else {
				v.Ss = append(v.Ss, g.anyFixed(o.N, byte(o.Pad)))
			}
		}
		return v
	case "vstrs":
		n := g.listLen()
		v := &Val{K: 'S'}
		for i := 0; i < n; i++ {
			v.Ss = append(v.Ss, g.vstr(o.PW))
		}
		return v
	case "nested":
		return g.msg(o.Ty, canon, depth+1)
	case "objs":
		n := g.listLen()
		if n > 64 && len(schema.Types[o.Ty].Dec) > 3 {
			n = 64
		}
		v := &Val{K: 'M'}
		for i := 0; i < n; i++ {
			v.Fs = append(v.Fs, g.msg(o.Ty, canon, depth+1))
		}
		return v
	}
	return &Val{K: 'z'}
}

// msg: a message of type ty. Unions get a registered key and the matching body.
func (g *Gen) msg(ty int, canon bool, depth int) *Val {
	t := schema.Types[ty]
	ops := t.fieldOps()
	v := &Val{K: 'm', Ty: ty, Fs: make([]*Val, len(ops))}
	for i, o := range ops {
		if o.K != "union" {
			v.Fs[i] = g.opVal(o, canon, depth)
		}
	}
	for i, o := range ops {
		if o.K == "union" {
			tb := schema.Tables[o.Tbl]
			e := tb.Entries[g.r.Intn(len(tb.Entries))]
			g.setUnion(v, i, o, tb, e, canon, depth)
		}
	}
	return v
}

func (g *Gen) setUnion(v *Val, i int, o Op, tb *Table, e Entry, canon bool, depth int) {
	v.Fs[o.Key] = keyVal(tb, e)
	v.Fs[i] = g.msg(e.Ty, canon, depth+1)
}

// msgWithKey: message of type ty whose (first) union uses the given table entry
func (g *Gen) msgWithKey(ty int, e Entry, canon bool) *Val {
	t := schema.Types[ty]
	v := g.msg(ty, canon, 0)
	for i, o := range t.fieldOps() {
		if o.K == "union" {
			g.setUnion(v, i, o, schema.Tables[o.Tbl], e, canon, 0)
			break
		}
	}
	return v
}
