package main

import (
	"bytes"
	"fmt"

	"github.com/xinchentechnote/fin-proto-go/codec"
)

// run one codec primitive (write direction) on the real library
func goWop(op Op, kind string, plain bool, v *Val, pre []byte, m BufMode) (class string, appended []byte, preChanged bool, msg string) {
	buf := mkBuffer(pre, m)
	le := op.E == "le"
	class, msg = guard(func() error {
		switch op.K {
		case "scalar":
			return wScalar(buf, kind, le, v.N)
		case "fixed":
			if plain {
				return codec.WriteFixedString(buf, string(v.S), op.N)
			}
			return codec.WriteFixedStringWithPadding(buf, string(v.S), op.N, rune(op.Pad), op.Left)
		case "vstr":
			return wVstr(buf, op.PW, le, string(v.S))
		case "nums":
			return wNums(buf, op.CW, kind, le, v.Ns)
		case "fixeds":
			return wFixeds(buf, op.CW, op.N, byte(op.Pad), op.Left, le, plain, strs(v.Ss))
		case "vstrs":
			return wVstrs(buf, op.CW, op.PW, le, strs(v.Ss))
		}
		panic("goWop " + op.K)
	})
	out := buf.Bytes()
	if class == "ok" {
		if len(out) < len(pre) || !bytes.Equal(out[:len(pre)], pre) {
			preChanged = true
		} else {
			appended = append([]byte{}, out[len(pre):]...)
		}
	}
	return
}

func goRop(op Op, kind string, plain bool, data []byte, m BufMode) (class string, consumed int, v *Val, restChanged bool, msg string) {
	buf := mkBuffer(data, m)
	le := op.E == "le"
	class, msg = guard(func() error {
		var err error
		switch op.K {
		case "scalar":
			var n uint64
			n, err = rScalar(buf, kind, le)
			v = &Val{K: 'n', N: n}
		case "fixed":
			var s string
			if plain {
				s, err = codec.ReadFixedString(buf, op.N)
			} else {
				s, err = codec.ReadFixedStringTrimPadding(buf, op.N, rune(op.Pad), op.Left)
			}
			v = &Val{K: 's', S: []byte(s)}
		case "vstr":
			var s string
			s, err = rVstr(buf, op.PW, le)
			v = &Val{K: 's', S: []byte(s)}
		case "nums":
			var ns []uint64
			ns, err = rNums(buf, op.CW, kind, le)
			v = &Val{K: 'N', Ns: ns}
		case "fixeds":
			var l []string
			l, err = rFixeds(buf, op.CW, op.N, byte(op.Pad), op.Left, le, plain)
			v = &Val{K: 'S', Ss: unstrs(l)}
		case "vstrs":
			var l []string
			l, err = rVstrs(buf, op.CW, op.PW, le)
			v = &Val{K: 'S', Ss: unstrs(l)}
		default:
			panic("goRop " + op.K)
		}
		return err
	})
	if class == "ok" {
		consumed = len(data) - buf.Len()
		if consumed < 0 || consumed > len(data) || !bytes.Equal(buf.Bytes(), data[consumed:]) {
			restChanged = true
		}
	}
	return
}

type WopResult struct {
	Class    string
	Appended []byte
	Msg      string
}

func corrWop(o *Out, op Op, kind string, plain bool, v *Val, pre []byte, m BufMode) WopResult {
	line := "wop " + opTokens(op) + " " + v.String()
	begin(line + " kind=" + kind)
	class, app, pc, msg := goWop(op, kind, plain, v, pre, m)
	begin("")
	out := class
	if class == "ok" {
		p := ""
		if pc {
			p = "PRE-CHANGED "
		}
		out = "ok | " + p + hexOf(app) + " | " + v.String()
	}
	o.emit(line, out, fmt.Sprintf("wop:%s:%s:%s:%s:%v", opTokens(op), kind, class, lenClass(len(app)), plain), true)
	// the same case for the function body as translated into GoIR from the source (driver command irw)
	// (the interpreter appends to immutable lists: very long values are left to the proof and to the wop line)
	if len(v.Ns)+len(v.Ss) <= 3000 && len(v.S) <= 20000 && len(app) <= 40000 {
		o.emit("irw "+b01(plain)+" "+opTokens(op)+" "+v.String(), out, "", false)
	}
	o.stat("wop-" + op.K + "-" + class)
	return WopResult{class, app, msg}
}

type RopResult struct {
	Class    string
	Consumed int
	Val      *Val
	Msg      string
}

func corrRop(o *Out, op Op, kind string, plain bool, data []byte, m BufMode) RopResult {
	line := "rop " + opTokens(op) + " " + hexOf(data)
	begin(line + " kind=" + kind)
	class, consumed, v, rc, msg := goRop(op, kind, plain, data, m)
	begin("")
	out := class
	if class == "ok" {
		p := ""
		if rc {
			p = "REST-CHANGED "
		}
		out = fmt.Sprintf("ok | %s%d | %s", p, consumed, v.String())
	}
	o.emit(line, out, fmt.Sprintf("rop:%s:%s:%s:%s:%v", opTokens(op), kind, class, lenClass(len(data)), plain), true)
	if len(data) <= 20000 {
		o.emit("irr "+b01(plain)+" "+opTokens(op)+" "+hexOf(data), out, "", false)
	}
	o.stat("rop-" + op.K + "-" + class)
	return RopResult{class, consumed, v, msg}
}

// kinds whose width is w
func kindsOfWidth(w int) []string {
	var ks []string
	for _, k := range elemKinds {
		if kindWidth(k) == w {
			ks = append(ks, k)
		}
	}
	return ks
}

func (g *Gen) kindOfWidth(w int) string {
	ks := kindsOfWidth(w)
	return ks[g.r.Intn(len(ks))]
}

var widths = []int{1, 2, 4, 8}

func (g *Gen) width() int { return widths[g.r.Intn(4)] }
func (g *Gen) endian() string {
	if g.r.Intn(2) == 0 {
		return "le"
	}
	return "be"
}

func b01(b bool) string {
	if b {
		return "1"
	}
	return "0"
}
