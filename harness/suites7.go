package main

import (
	"bytes"
	"fmt"
	"sort"
	"strings"
	"sync"
	"sync/atomic"
	"time"

	"github.com/anishathalye/porcupine"
	"github.com/xinchentechnote/fin-proto-go/codec"
)

// a registrable service whose identity can be observed
type fakeSvc struct {
	name string
	id   int
}

func (f *fakeSvc) Algorithm() string { return f.name }

type regOp struct {
	Kind byte // R G D C
	Name int
	ID   int
}

type regOut struct {
	B  bool
	ID int // -1 = absent, -2 = wrong name
}

func regName(n int) string { return fmt.Sprintf("VERIF_ALG_%d", n) }

func doRegOp(op regOp) regOut {
	switch op.Kind {
	case 'R':
		return regOut{B: codec.Registry(&fakeSvc{regName(op.Name), op.ID})}
	case 'G':
		s, ok := codec.Get(regName(op.Name))
		if !ok {
			return regOut{ID: -1}
		}
		f, isFake := s.(*fakeSvc)
		if !isFake || f.name != regName(op.Name) {
			return regOut{ID: -2}
		}
		return regOut{ID: f.id}
	case 'D':
		codec.Remove(regName(op.Name))
	case 'C':
		codec.Clear()
	}
	return regOut{}
}

func regTokens(ops []regOp) string {
	var sb strings.Builder
	for _, o := range ops {
		switch o.Kind {
		case 'R':
			fmt.Fprintf(&sb, " R %d %d", o.Name, o.ID)
		case 'G':
			fmt.Fprintf(&sb, " G %d", o.Name)
		case 'D':
			fmt.Fprintf(&sb, " D %d", o.Name)
		default:
			sb.WriteString(" C")
		}
	}
	return sb.String()
}

func regOutTokens(ops []regOp, outs []regOut) string {
	var sb strings.Builder
	for i, o := range ops {
		switch o.Kind {
		case 'R':
			if outs[i].B {
				sb.WriteString(" t")
			} else {
				sb.WriteString(" f")
			}
		case 'G':
			if outs[i].ID == -1 {
				sb.WriteString(" none")
			} else {
				fmt.Fprintf(&sb, " s%d", outs[i].ID)
			}
		default:
			sb.WriteString(" u")
		}
	}
	return sb.String()
}

func (g *Gen) regOp(names int, nextID *int) regOp {
	n := g.r.Intn(names)
	switch g.r.Intn(10) {
	case 0, 1, 2:
		*nextID++
		return regOp{'R', n, *nextID}
	case 3, 4, 5, 6:
		return regOp{'G', n, 0}
	case 7, 8:
		return regOp{'D', n, 0}
	}
	return regOp{'C', 0, 0}
}

// sequential map specification for porcupine
type regState map[int]int

var regModel = porcupine.Model{
	Init: func() interface{} { return "" },
	Step: func(state, input, output interface{}) (bool, interface{}) {
		m := parseRegState(state.(string))
		op, out := input.(regOp), output.(regOut)
		switch op.Kind {
		case 'R':
			_, exists := m[op.Name]
			if exists {
				return !out.B, state
			}
			if !out.B {
				return false, state
			}
			m[op.Name] = op.ID
			return true, fmtRegState(m)
		case 'G':
			id, exists := m[op.Name]
			if !exists {
				return out.ID == -1, state
			}
			return out.ID == id, state
		case 'D':
			delete(m, op.Name)
			return true, fmtRegState(m)
		}
		return true, ""
	},
	Equal: func(a, b interface{}) bool { return a.(string) == b.(string) },
}

func parseRegState(s string) regState {
	m := regState{}
	for _, kv := range strings.Fields(s) {
		var k, v int
		fmt.Sscanf(kv, "%d=%d", &k, &v)
		m[k] = v
	}
	return m
}

func fmtRegState(m regState) string {
	keys := make([]int, 0, len(m))
	for k := range m {
		keys = append(keys, k)
	}
	sort.Ints(keys)
	var sb strings.Builder
	for _, k := range keys {
		fmt.Fprintf(&sb, "%d=%d ", k, m[k])
	}
	return sb.String()
}

func describeOps(ops []porcupine.Operation) string {
	sort.Slice(ops, func(i, j int) bool { return ops[i].Call < ops[j].Call })
	var sb strings.Builder
	for _, o := range ops {
		in, out := o.Input.(regOp), o.Output.(regOut)
		fmt.Fprintf(&sb, "[g%d %d..%d %c name=%d id=%d -> %v %d] ", o.ClientId, o.Call, o.Return, in.Kind, in.Name, in.ID, out.B, out.ID)
	}
	return sb.String()
}

// ---- C19: the registry under concurrency ----
func init() {
	suites["C19"] = func(o *Out, g *Gen, thorough bool) map[string]any {
		// keep the default services to restore them afterwards
		defaults := map[string]any{}
		for _, n := range []string{"CRC16", "CRC32", "SSE_BIN", "SZSE_BIN"} {
			if s, ok := codec.Get(n); ok {
				defaults[n] = s
			}
		}
		defer func() {
			codec.Clear()
			for _, n := range []string{"CRC16", "CRC32", "SSE_BIN", "SZSE_BIN"} {
				if s, ok := defaults[n]; ok {
					codec.Registry(s)
				}
			}
		}()
		if len(defaults) != 4 {
			o.violate(Violation{Property: "C19", Kind: "direct", What: "default services not registered at start-up", Case: "codec.Get", Key: "defaults"})
		}
		// (a) sequential histories: implementation vs the model's map specification
		seqRuns := 1500
		if thorough {
			seqRuns = 6000
		}
		nextID := 0
		for i := 0; i < seqRuns; i++ {
			codec.Clear()
			n := 1 + g.r.Intn(14)
			ops := make([]regOp, n)
			outs := make([]regOut, n)
			for k := range ops {
				ops[k] = g.regOp(3, &nextID)
				outs[k] = doRegOp(ops[k])
				if outs[k].ID == -2 {
					o.violate(Violation{Property: "C19", Kind: "direct", What: "look-up returned a service registered under another name", Case: "reg" + regTokens(ops[:k+1]), Key: "wrong-name"})
				}
			}
			o.emit("reg"+regTokens(ops), "ok |"+regOutTokens(ops, outs), fmt.Sprintf("reg:%d:%s", n, regOutTokens(ops, outs)), n > 1)
		}
		beginPhase("concurrent registry calls (a hang here means a call never returned: deadlock)")
		// (b) concurrent histories checked for linearizability against the same specification
		runs, workers, perWorker := 300, 4, 6
		if thorough {
			runs, workers, perWorker = 5000, 5, 7
		}
		var clock int64
		linChecked := 0
		for r := 0; r < runs; r++ {
			codec.Clear()
			plans := make([][]regOp, workers)
			for w := range plans {
				for k := 0; k < perWorker; k++ {
					plans[w] = append(plans[w], g.regOp(2, &nextID))
				}
			}
			hist := make([][]porcupine.Operation, workers)
			var wg sync.WaitGroup
			start := make(chan struct{})
			for w := 0; w < workers; w++ {
				wg.Add(1)
				go func(w int) {
					defer wg.Done()
					<-start
					for _, op := range plans[w] {
						c := atomic.AddInt64(&clock, 1)
						out := doRegOp(op)
						rt := atomic.AddInt64(&clock, 1)
						hist[w] = append(hist[w], porcupine.Operation{ClientId: w, Input: op, Call: c, Output: out, Return: rt})
					}
				}(w)
			}
			close(start)
			wg.Wait()
			var all []porcupine.Operation
			for _, h := range hist {
				all = append(all, h...)
			}
			res := porcupine.CheckOperationsTimeout(regModel, all, 5*time.Second)
			linChecked++
			if res == porcupine.Illegal {
				o.violate(Violation{Property: "C19", Kind: "direct", What: "a concurrent history of registry calls is not linearizable",
					Case: describeOps(all), Key: "linearizability"})
				break
			}
		}
		// (c) many goroutines register one fresh name at once: exactly one winner, every later look-up returns it;
		//     concurrent look-ups of two names never return the other name's service
		rounds := 3000
		if thorough {
			rounds = 40000
		}
		nG := 8
		for r := 0; r < rounds; r++ {
			name := 1000 + r
			var wins int32
			var winner int32 = -1
			var wg sync.WaitGroup
			start := make(chan struct{})
			for w := 0; w < nG; w++ {
				wg.Add(1)
				go func(w int) {
					defer wg.Done()
					<-start
					if codec.Registry(&fakeSvc{regName(name), w}) {
						atomic.AddInt32(&wins, 1)
						atomic.StoreInt32(&winner, int32(w))
					}
				}(w)
			}
			close(start)
			wg.Wait()
			got := doRegOp(regOp{'G', name, 0})
			if wins != 1 || got.ID != int(winner) {
				o.violate(Violation{Property: "C19", Kind: "direct", What: fmt.Sprintf("%d concurrent registrations of one name: %d succeeded, later look-up returned id %d (winner %d)", nG, wins, got.ID, winner),
					Case: fmt.Sprintf("%d goroutines Registry(%s)", nG, regName(name)), Key: "winner"})
				break
			}
			codec.Remove(regName(name))
		}
		codec.Clear()
		codec.Registry(&fakeSvc{regName(1), 11})
		codec.Registry(&fakeSvc{regName(2), 22})
		var bad int32
		var wg sync.WaitGroup
		iters := 20000
		if thorough {
			iters = 300000
		}
		for w := 0; w < 8; w++ {
			wg.Add(1)
			go func(w int) {
				defer wg.Done()
				n := 1 + w%2
				for i := 0; i < iters; i++ {
					if out := doRegOp(regOp{'G', n, 0}); out.ID != n*11 {
						atomic.AddInt32(&bad, 1)
					}
				}
			}(w)
		}
		wg.Wait()
		if bad > 0 {
			o.violate(Violation{Property: "C19", Kind: "direct", What: fmt.Sprintf("%d concurrent look-ups returned a service under the wrong name / a half-updated state", bad),
				Case: "8 goroutines alternating Get of two registered names", Key: "get-mix"})
		}
		return map[string]any{"sequential_histories": seqRuns, "concurrent_histories_linearizability_checked": linChecked, "winner_rounds": rounds, "race_detector": raceEnabled}
	}
}

// ---- C20: independent messages encode/decode in parallel with the sequential results ----
func init() {
	suites["C20"] = func(o *Out, g *Gen, thorough bool) map[string]any {
		per := 6
		if thorough {
			per = 60
		}
		type item struct {
			v    *Val
			want EncResult
			dec  DecResult
		}
		var items []item
		for _, t := range schema.Types {
			for i := 0; i < per; i++ {
				v := g.msg(t.ID, i%2 == 0, 0)
				r := corrEnc(o, v, nil, BufMode{}) // sequential result, also checked against the model
				it := item{v: v, want: r}
				if r.Class == "ok" {
					it.dec = goDec(t.ID, r.Appended, BufMode{})
				}
				items = append(items, it)
			}
		}
		// every discriminator key twice, with different content: a table that hands out one shared instance for some key
		// (instead of a fresh object per look-up) is only seen when two messages with THAT key are alive at the same time
		for _, k := range keyedTypes() {
			for rep := 0; rep < 2; rep++ {
				v := g.msgWithKey(k.Ty, k.E, true)
				r := goEnc(v, nil, BufMode{})
				it := item{v: v, want: r}
				if r.Class == "ok" {
					it.dec = goDec(k.Ty, r.Appended, BufMode{})
				}
				items = append(items, it)
			}
		}
		// values whose encode fails part-way: a failed encode in one goroutine must not leak into anybody's later encode
		nFail := 0
		for _, t := range schema.Types {
			for i, op := range t.fieldOps() {
				if op.K == "nums" && op.CW == 2 && nFail < 3 {
					nFail++
					v := g.msg(t.ID, true, 0)
					l := &Val{K: 'N'}
					for k := 0; k < 65536; k++ {
						l.Ns = append(l.Ns, uint64(k)&maxOf(op.W))
					}
					v.Fs[i] = l
					items = append(items, item{v: v, want: goEnc(v, nil, BufMode{})})
					for _, ft := range frameTypes() {
						for _, e := range schema.Tables[ft.Frame.Tbl].Entries {
							if e.Ty == t.ID {
								fv := g.msgWithKey(ft.ID, e, true)
								fv.Fs[len(ft.Frame.Hdr)+1] = v
								items = append(items, item{v: fv, want: goEnc(fv, nil, BufMode{})})
							}
						}
					}
				}
			}
		}
		// … and sequentially, against an oracle that has no history (the pinned layout): for every frame type, a frame whose
		// body fails to encode part-way, then the next frame of that type; scratch space that is recycled without being
		// cleared shows up in the second frame whichever goroutine or pool slot it lands in
		for _, ft := range frameTypes() {
			var failing *Val
			for _, e := range schema.Tables[ft.Frame.Tbl].Entries {
				bt := schema.Types[e.Ty]
				for i, op := range bt.fieldOps() {
					var big *Val
					switch {
					case (op.K == "nums" || op.K == "fixeds" || op.K == "vstrs") && op.CW == 2:
						big = &Val{K: 'N'}
						if op.K == "nums" {
							for k := 0; k < 65536; k++ {
								big.Ns = append(big.Ns, uint64(k)&maxOf(op.W))
							}
						} else {
							big.K = 'S'
							for k := 0; k < 65536; k++ {
								big.Ss = append(big.Ss, []byte("x"))
							}
						}
					case op.K == "vstr" && op.PW == 2:
						big = &Val{K: 's', S: bytes.Repeat([]byte("y"), 65536)}
					}
					if big != nil && i > 0 { // i > 0: something is written before the field that fails
						body := g.msg(bt.ID, true, 0)
						body.Fs[i] = big
						failing = g.msgWithKey(ft.ID, e, true)
						failing.Fs[len(ft.Frame.Hdr)+1] = body
						break
					}
				}
				if failing != nil {
					break
				}
			}
			if failing == nil {
				continue
			}
			for rep := 0; rep < 3; rep++ {
				es := schema.Tables[ft.Frame.Tbl].Entries
				next := g.msgWithKey(ft.ID, es[g.r.Intn(len(es))], true)
				ref, ok := renderPinned(next)
				if !ok {
					continue
				}
				f := goEnc(failing, nil, BufMode{})
				r := goEnc(next, nil, BufMode{})
				o.stat("failed-then-next:" + f.Class)
				if f.Class == "err" && r.Class == "ok" && !bytes.Equal(r.Appended, ref) {
					o.violate(Violation{Property: "C20", Kind: "direct", What: "after an encode that failed part-way, the next frame of that type is not what it is when encoded alone (state left behind by the failed call)",
						Case: "enc - " + trunc(failing.String(), 600) + " ; enc - " + next.String(), Expected: trunc(hexOf(ref), 400), Observed: trunc(hexOf(r.Appended), 400), Key: "failed-then-next:" + ft.QName()})
					break
				}
			}
		}
		bads := unknownKeyWires(g)
		beginPhase("16 goroutines encoding and decoding their own messages")
		workers := 16
		loops := 3
		if thorough {
			loops = 20
		}
		var mism int32
		var first atomic.Value
		var wg sync.WaitGroup
		for w := 0; w < workers; w++ {
			wg.Add(1)
			order := g.r.Perm(len(items))
			go func(w int, order []int) {
				defer wg.Done()
				for l := 0; l < loops; l++ {
					for _, ix := range order {
						it := items[ix]
						r := goEnc(it.v, nil, BufMode{})
						if r.Class != it.want.Class || !bytes.Equal(r.Appended, it.want.Appended) || (r.Class == "ok" && !valEq(r.Val, it.want.Val)) {
							if atomic.AddInt32(&mism, 1) == 1 {
								first.Store("enc - " + it.v.String() + "  sequential: " + trunc(it.want.Line(), 300) + "  parallel: " + trunc(r.Line(), 300) + " " + r.PanicMsg)
							}
							continue
						}
						if r.Class == "ok" {
							d := goDec(it.v.Ty, r.Appended, BufMode{})
							if d.Class != it.dec.Class || (d.Class == "ok" && !valEq(d.Val, it.dec.Val)) {
								if atomic.AddInt32(&mism, 1) == 1 {
									first.Store(fmt.Sprintf("dec %d %s", it.v.Ty, hexOf(r.Appended)))
								}
							}
						}
					}
				}
			}(w, order)
		}
		wg.Wait()
		// frames of the three checksummed protocols hammered in parallel: each goroutine's frames must carry its own
		// protocol's checksum (a shared look-up cache or scratch state would mix them up)
		var frameItems []item
		for _, t := range frameTypes() {
			if t.Frame.Cks == "" {
				continue
			}
			for k := 0; k < 4; k++ {
				v := g.msg(t.ID, true, 0)
				frameItems = append(frameItems, item{v: v, want: goEnc(v, nil, BufMode{})})
			}
		}
		hammer := 4000
		if thorough {
			hammer = 60000
		}
		for w := 0; w < workers; w++ {
			wg.Add(1)
			go func(w int) {
				defer wg.Done()
				for i := 0; i < hammer; i++ {
					it := frameItems[(w+i*7)%len(frameItems)]
					if w%2 == 0 {
						it = frameItems[w%len(frameItems)] // half of the workers stay on one protocol
					}
					r := goEnc(it.v, nil, BufMode{})
					if r.Class != it.want.Class || !bytes.Equal(r.Appended, it.want.Appended) {
						if atomic.AddInt32(&mism, 1) == 1 {
							first.Store("enc - " + it.v.String() + "  sequential: " + trunc(it.want.Line(), 300) + "  parallel: " + trunc(r.Line(), 300) + " " + r.PanicMsg)
						}
					}
				}
			}(w)
		}
		wg.Wait()
		for w := 0; w < workers; w++ {
			wg.Add(1)
			go func(w int) {
				defer wg.Done()
				for l := 0; l < loops*4; l++ {
					for i := range bads {
						b := bads[(i+w*5)%len(bads)]
						if d := goDec(b.ty, b.wire, BufMode{}); d.Class != b.want {
							if atomic.AddInt32(&mism, 1) == 1 {
								first.Store(fmt.Sprintf("dec %d %s  sequential: %s  parallel: %s %s", b.ty, hexOf(b.wire), b.want, d.Class, d.PanicMsg))
							}
						}
					}
				}
			}(w)
		}
		wg.Wait()
		if mism > 0 {
			c, _ := first.Load().(string)
			o.violate(Violation{Property: "C20", Kind: "direct", What: fmt.Sprintf("%d results of parallel encode/decode differ from the sequential results", mism), Case: c, Key: "parallel"})
		}
		return map[string]any{"goroutines": workers, "items": len(items), "loops": loops, "race_detector": raceEnabled}
	}
}

// frames and messages with UNREGISTERED discriminators (expected outcome by the property itself: an unregistered key is
// an error; NOT pre-computed by a sequential decode, so that the first look-up of each unknown key can happen inside a
// parallel phase)
type badItem struct {
	ty   int
	wire []byte
	want string
}

func unknownKeyWires(g *Gen) []badItem {
	var bads []badItem
	for _, t := range schema.Types {
		for _, op := range t.fieldOps() {
			if op.K != "union" {
				continue
			}
			kop := t.fieldOps()[op.Key]
			perType := 0
			for n, kv := range nearMissKeys(g, schema.Tables[op.Tbl]) {
				if n%5 != 0 || perType >= 5 {
					continue
				}
				perType++
				if kop.K == "scalar" {
					kv.N &= maxOf(kop.W)
				} else if len(kv.S) > kop.N {
					continue
				}
				keyTrim := kv
				if kv.K == 's' {
					keyTrim = &Val{K: 's', S: bytes.TrimRight(kv.S, " ")}
				}
				if _, registered := lookupEntry(schema.Tables[op.Tbl], keyTrim); registered {
					continue // masked / trimmed onto a registered key
				}
				bad := g.msg(t.ID, true, 0)
				bad.Fs[op.Key] = kv
				if wire, ok := renderPinned(bad); ok {
					bads = append(bads, badItem{t.ID, wire, "err"})
				}
			}
		}
	}
	return bads
}

// ---- C09PAR: hostile inputs decoded by many goroutines at once (run under the race detector as a second pass of C09):
// a decoder that memoises look-up failures, caches, or otherwise writes shared state on its error paths aborts the
// process ("fatal error: concurrent map writes") only when two hostile frames are decoded at the same time ----
func init() {
	suites["C09PAR"] = func(o *Out, g *Gen, thorough bool) map[string]any {
		type hostile struct {
			ty   int
			wire []byte
		}
		var hs []hostile
		for _, b := range unknownKeyWires(g) {
			hs = append(hs, hostile{b.ty, b.wire})
		}
		per := 2
		if thorough {
			per = 12
		}
		for _, t := range schema.Types {
			for i := 0; i < per; i++ {
				v := g.msg(t.ID, true, 0)
				wire, ok := renderPinned(v)
				if !ok || len(wire) == 0 {
					continue
				}
				hs = append(hs, hostile{t.ID, wire[:g.r.Intn(len(wire))]}) // truncated
				fl := append([]byte{}, wire...)
				fl[g.r.Intn(len(fl))] ^= byte(1 << uint(g.r.Intn(8)))
				hs = append(hs, hostile{t.ID, fl}) // one flipped bit
				rnd := make([]byte, g.r.Intn(48))
				g.r.Read(rnd)
				hs = append(hs, hostile{t.ID, rnd})
			}
		}
		workers := 16
		loops := 2
		if thorough {
			loops = 10
		}
		res := make([][]string, workers)
		beginPhase(fmt.Sprintf("%d goroutines decoding %d hostile inputs (unknown discriminators, truncated, bit-flipped, random)", workers, len(hs)))
		var wg sync.WaitGroup
		for w := 0; w < workers; w++ {
			wg.Add(1)
			res[w] = make([]string, len(hs))
			go func(w int) {
				defer wg.Done()
				for l := 0; l < loops; l++ {
					for i := range hs {
						ix := (i + w*(l+1)) % len(hs)
						if l == 0 {
							ix = i // first pass: every goroutine meets each input at about the same moment
						}
						d := goDec(hs[ix].ty, hs[ix].wire, BufMode{})
						if l == 0 || res[w][ix] == "ok" || res[w][ix] == "err" {
							res[w][ix] = d.Class
						}
					}
				}
			}(w)
		}
		wg.Wait()
		begin("")
		for i, h := range hs {
			line := fmt.Sprintf("dec %d %s", h.ty, hexOf(h.wire))
			seq := goDec(h.ty, h.wire, BufMode{})
			o.n++
			o.stat("hostile-parallel:" + seq.Class)
			for w := 0; w < workers; w++ {
				if res[w][i] != seq.Class || (seq.Class != "ok" && seq.Class != "err") {
					o.violate(Violation{Property: "C09", Kind: "direct", What: "a hostile input decoded by 16 goroutines at once: outcome " + res[w][i] + ", alone: " + seq.Class,
						Case: line, Expected: "ok or err, the same as alone", Observed: res[w][i], Key: "hostile-parallel"})
					break
				}
			}
		}
		return map[string]any{"goroutines": workers, "hostile_inputs": len(hs), "race_detector": raceEnabled}
	}
}

// ---- C20 (continued): results must not depend on what the library was asked EARLIER. The same raw field bytes are read
// (and the same texts written) under every pad byte / pad side the protocols use, interleaved; messages whose text
// fields all hold the same few raw byte strings are decoded back to back. A memo table, an interning cache or scratch
// state keyed by less than the full call shows up as a disagreement with the (stateless) model. ----
func init() {
	prev := suites["C20"]
	suites["C20"] = func(o *Out, g *Gen, thorough bool) map[string]any {
		res := prev(o, g, thorough)
		alphabet := []byte{'0', ' ', 0, 'a', '0', ' '}
		pads := []struct {
			pad  int
			left bool
		}{{' ', false}, {' ', true}, {'0', true}, {'0', false}, {0, false}, {0, true}}
		pool := map[int][][]byte{}
		raw := func(n int) []byte {
			if len(pool[n]) < 3 {
				b := make([]byte, n)
				for i := range b {
					b[i] = alphabet[g.r.Intn(len(alphabet))]
				}
				pool[n] = append(pool[n], b)
				return b
			}
			return pool[n][g.r.Intn(3)]
		}
		rounds := 2
		if thorough {
			rounds = 8
		}
		for r := 0; r < rounds; r++ {
			for _, n := range []int{1, 2, 3, 6, 10} {
				for _, ix := range g.r.Perm(len(pads)) {
					p := pads[ix]
					b := raw(n)
					corrRop(o, Op{K: "fixed", N: n, Pad: p.pad, Left: p.left}, "", false, b, BufMode{})
					corrWop(o, Op{K: "fixed", N: n + 2, Pad: p.pad, Left: p.left}, "", false, &Val{K: 's', S: b}, nil, BufMode{})
					l := &Val{K: 'S', Ss: [][]byte{raw(n), raw(n), b}}
					wl, _ := renderField(Op{K: "fixeds", CW: 2, N: n, Pad: p.pad, Left: p.left, E: "le"}, "", l, nil)
					corrRop(o, Op{K: "fixeds", CW: 2, N: n, Pad: p.pad, Left: p.left, E: "le"}, "", false, wl, BufMode{})
				}
			}
			o.stat("history-independence-prims")
			for _, t := range schema.Types {
				nText := 0
				for _, op := range t.fieldOps() {
					if op.K == "fixed" || op.K == "fixeds" {
						nText++
					}
				}
				if nText < 2 && r > 0 {
					continue
				}
				if nText == 0 {
					continue
				}
				v := g.msg(t.ID, true, 0)
				for i, op := range t.fieldOps() {
					switch op.K {
					case "fixed":
						if !isUnionKey(t, i) {
							v.Fs[i] = &Val{K: 's', S: raw(op.N)}
						}
					case "fixeds":
						v.Fs[i] = &Val{K: 'S', Ss: [][]byte{raw(op.N), raw(op.N)}}
					}
				}
				if wire, ok := renderPinned(v); ok {
					corrDec(o, t.ID, wire, BufMode{})
					o.stat("history-independence-msgs")
				}
			}
		}
		return res
	}
}

func isUnionKey(t *Type, i int) bool {
	for _, op := range t.fieldOps() {
		if op.K == "union" && op.Key == i {
			return true
		}
	}
	return false
}

// ---- frames encoded while NO checksum service is registered (codec.Remove / codec.Clear were called): the generated
// code keeps the caller's Checksum and writes it; byte order (C03), length field (C04) and the rest of the frame must
// be what the model's `encodeNS` says ----
func goEncNoSvc(v *Val, pre []byte) EncResult {
	var saved []any
	for _, n := range []string{"CRC16", "CRC32", "SSE_BIN", "SZSE_BIN"} {
		if s, ok := codec.Get(n); ok {
			saved = append(saved, s)
			codec.Remove(n)
		}
	}
	defer func() {
		for _, s := range saved {
			codec.Registry(s)
		}
	}()
	return goEnc(v, pre, BufMode{})
}

func noSvcCases(pid string, o *Out, g *Gen, thorough bool) {
	per := 3
	if thorough {
		per = 12
	}
	for _, ft := range frameTypes() {
		if ft.Frame.Cks == "" {
			continue
		}
		es := schema.Tables[ft.Frame.Tbl].Entries
		for k := 0; k < per; k++ {
			e := es[g.r.Intn(len(es))]
			v := g.msgWithKey(ft.ID, e, true)
			ci := len(ft.Frame.Hdr) + 2
			stale := []uint64{0x01020304, 0xA1B2C3D4, uint64(g.r.Uint32())}[k%3] & maxOf(ft.Frame.CksW)
			v.Fs[ci] = &Val{K: 'n', N: stale}
			var pre []byte
			if k%2 == 1 {
				pre = g.bytes(1+g.r.Intn(9), 0)
			}
			line := "encns " + hexOf(pre) + " " + v.String()
			begin(line)
			r := goEncNoSvc(v, pre)
			begin("")
			o.emit(line, r.Line(), fmt.Sprintf("encns:%d:%s", ft.ID, r.Class), true)
			o.stat("enc-no-service-" + r.Class)
			if r.Class != "ok" {
				continue
			}
			want := make([]byte, ft.Frame.CksW)
			putUint(want, ft.Frame.E, stale)
			n := len(r.Appended)
			if n < len(want) || !bytes.Equal(r.Appended[n-len(want):], want) {
				o.violate(Violation{Property: pid, Kind: "direct", What: "frame encoded with no checksum service registered: the trailer is not the caller's checksum in the protocol's byte order",
					Case: line, Expected: "... " + hexOf(want), Observed: trunc(hexOf(r.Appended), 400), Key: "nosvc:" + ft.QName()})
			}
			// the services are back: the ordinary encode must compute the checksum again
			if r2 := goEnc(v, pre, BufMode{}); r2.Class == "ok" && len(r2.Appended) == n && bytes.Equal(r2.Appended, r.Appended) && stale != 0x01020304 {
				if ref, ok := renderPinned(v); ok && !bytes.Equal(ref, r2.Appended) {
					o.violate(Violation{Property: pid, Kind: "direct", What: "after the checksum services were registered again the frame still carries the stale checksum",
						Case: "enc " + hexOf(pre) + " " + v.String(), Expected: trunc(hexOf(ref), 400), Observed: trunc(hexOf(r2.Appended), 400), Key: "nosvc-restore:" + ft.QName()})
				}
			}
		}
	}
}

func init() {
	for _, pid := range []string{"C03", "C04"} {
		pid := pid
		prev := suites[pid]
		suites[pid] = func(o *Out, g *Gen, thorough bool) map[string]any {
			res := prev(o, g, thorough)
			noSvcCases(pid, o, g, thorough)
			return res
		}
	}
}

// ---- C03 (continued): frames whose body is larger than 64 KiB - the high bytes of a 4-byte length (and of a checksum over
// that much data) only differ from zero then, so only then can a hand-rolled shift or a transposed byte show ----
func init() {
	prev := suites["C03"]
	suites["C03"] = func(o *Out, g *Gen, thorough bool) map[string]any {
		res := prev(o, g, thorough)
		for _, ft := range frameTypes() {
			made := 0
			for _, e := range schema.Tables[ft.Frame.Tbl].Entries {
				if made >= 2 {
					break
				}
				bt := schema.Types[e.Ty]
				for i, op := range bt.fieldOps() {
					var big *Val
					switch {
					case op.K == "nums" && op.W >= 2 && (op.CW >= 4 || 65535*op.W > 70000):
						n := 70000/op.W + 7
						big = &Val{K: 'N'}
						for k := 0; k < n; k++ {
							big.Ns = append(big.Ns, g.scalar(op.W))
						}
					case op.K == "vstr" && op.PW >= 4:
						big = &Val{K: 's', S: bytes.Repeat([]byte("0123456789abcdef"), 4400)}
					case op.K == "fixeds" && op.N >= 2 && (op.CW >= 4 || 65535*op.N > 70000):
						big = &Val{K: 'S'}
						for k := 0; k < 70000/op.N+7; k++ {
							big.Ss = append(big.Ss, g.canonFixed(op.N, byte(op.Pad), op.Left))
						}
					}
					if big == nil {
						continue
					}
					body := g.msg(bt.ID, true, 0)
					body.Fs[i] = big
					fv := g.msgWithKey(ft.ID, e, true)
					fv.Fs[len(ft.Frame.Hdr)+1] = body
					ref, ok := renderPinned(fv)
					r := corrEnc(o, fv, nil, BufMode{})
					o.stat("frame-over-64KiB")
					made++
					if ok && r.Class == "ok" && !bytes.Equal(ref, r.Appended) {
						at := 0
						for at < len(ref) && at < len(r.Appended) && ref[at] == r.Appended[at] {
							at++
						}
						lo, hi := max(0, at-6), min(len(ref), at+6)
						hi2 := min(len(r.Appended), at+6)
						o.violate(Violation{Property: "C03", Kind: "direct", What: fmt.Sprintf("a %s frame with a body of %d bytes differs from the pinned layout at offset %d (the numbers of a frame - header fields, length, checksum - are in the protocol's byte order)", ft.QName(), len(ref), at),
							Case: "enc - " + trunc(fv.String(), 300) + " …", Expected: "… " + hexOf(ref[lo:hi]) + " …", Observed: "… " + hexOf(r.Appended[lo:hi2]) + " …", Key: "bigframe:" + ft.QName()})
					}
					break
				}
			}
		}
		return res
	}
}
