package main

import (
	"encoding/json"
	"fmt"
	"os"
)

type Op struct {
	K    string `json:"k"`
	W    int    `json:"w"`
	E    string `json:"e"`
	N    int    `json:"n"`
	Pad  int    `json:"pad"`
	Left bool   `json:"left"`
	CW   int    `json:"cw"`
	PW   int    `json:"pw"`
	Ty   int    `json:"ty"`
	Key  int    `json:"key"`
	Tbl  int    `json:"tbl"`
	G    string `json:"g"`
	F    string `json:"f"`
}

type Frame struct {
	Hdr  []Op   `json:"hdr"`
	LenW int    `json:"lenw"`
	E    string `json:"e"`
	Key  int    `json:"key"`
	Tbl  int    `json:"tbl"`
	G    string `json:"g"`
	Cks  string `json:"cks"`
	CksW int    `json:"cksw"`
}

type Field struct {
	Name   string `json:"name"`
	GoType string `json:"gotype"`
}

type Type struct {
	ID     int     `json:"id"`
	Pkg    string  `json:"pkg"`
	Name   string  `json:"name"`
	Fields []Field `json:"fields"`
	Enc    []Op    `json:"enc"`
	Dec    []Op    `json:"dec"`
	Frame  *Frame  `json:"frame"`
	Ctor   bool    `json:"ctor"`
	Codec  bool    `json:"codec"`
}

type Entry struct {
	Key string `json:"key"`
	Ty  int    `json:"ty"`
}

type Table struct {
	ID      int     `json:"id"`
	Pkg     string  `json:"pkg"`
	Lookup  string  `json:"lookup"`
	Reg     string  `json:"reg"`
	KeyKind string  `json:"keykind"`
	Entries []Entry `json:"entries"`
}

type Schema struct {
	Types  []*Type  `json:"types"`
	Tables []*Table `json:"tables"`
}

var schema Schema

// loadSchema reads the PINNED schema (the specification the harness generates values and expectations from); when the
// set of types in the working tree differs from it (types added / removed / renamed), the regenerated schema is used
// instead so that the run still covers the current types (the pinned-equality obligation is broken in that case anyway).
func loadSchema(path, genPath string) {
	if !tryLoad(path) && genPath != "" {
		fmt.Fprintln(os.Stderr, "harness: pinned schema does not match the current set of types; using the regenerated schema")
		schema = Schema{}
		if !tryLoad(genPath) {
			fmt.Fprintln(os.Stderr, "schema/type registry mismatch")
			os.Exit(2)
		}
	}
}

func tryLoad(path string) bool {
	b, err := os.ReadFile(path)
	if err != nil {
		fmt.Fprintln(os.Stderr, "schema:", err)
		os.Exit(2)
	}
	if err := json.Unmarshal(b, &schema); err != nil {
		fmt.Fprintln(os.Stderr, "schema:", err)
		os.Exit(2)
	}
	if len(schema.Types) != len(typeCtors) {
		return false
	}
	for i, t := range schema.Types {
		if t.QName() != typeQNames[i] {
			return false
		}
	}
	return true
}

func (t *Type) QName() string { return t.Pkg + "." + t.Name }

// ops that describe the fields of a type, in field order (the decoder's list covers frames too)
func (t *Type) fieldOps() []Op { return t.Dec }

func opTokens(o Op) string {
	b := func(x bool) string {
		if x {
			return "1"
		}
		return "0"
	}
	switch o.K {
	case "scalar":
		return fmt.Sprintf("scalar %d %s", o.W, o.E)
	case "fixed":
		return fmt.Sprintf("fixed %d %d %s", o.N, o.Pad, b(o.Left))
	case "vstr":
		return fmt.Sprintf("vstr %d %s", o.PW, o.E)
	case "nums":
		return fmt.Sprintf("nums %d %d %s", o.CW, o.W, o.E)
	case "fixeds":
		return fmt.Sprintf("fixeds %d %d %d %s %s", o.CW, o.N, o.Pad, b(o.Left), o.E)
	case "vstrs":
		return fmt.Sprintf("vstrs %d %d %s", o.CW, o.PW, o.E)
	case "objs":
		return fmt.Sprintf("objs %d %d %s", o.CW, o.Ty, o.E)
	case "nested":
		return fmt.Sprintf("nested %d %s", o.Ty, o.G)
	case "union":
		return fmt.Sprintf("union %d %d %s", o.Key, o.Tbl, o.G)
	}
	return "opaque"
}
