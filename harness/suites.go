package main

import (
	"fmt"
	"github.com/xinchentechnote/fin-proto-go/codec"
	"os"
	"strconv"
	"strings"
)

var suites = map[string]func(o *Out, g *Gen, thorough bool) map[string]any{}

var bufModes = []BufMode{{0, 0, false}, {3, 0, false}, {0, 64, true}, {7, 4096, true}, {0, 1 << 16, true}}

func (g *Gen) mode() BufMode { return bufModes[g.r.Intn(len(bufModes))] }

func (g *Gen) prefix() []byte {
	switch g.r.Intn(4) {
	case 0:
		return g.bytes(1+g.r.Intn(40), ' ')
	default:
		return nil
	}
}

func lenClass(n int) string {
	switch {
	case n == 0:
		return "0"
	case n < 16:
		return "s"
	case n < 256:
		return "m"
	case n < 65536:
		return "l"
	}
	return "x"
}

func corrEnc(o *Out, v *Val, pre []byte, m BufMode) EncResult {
	line := "enc " + hexOf(pre) + " " + v.String()
	begin(line)
	r := goEnc(v, pre, m)
	begin("")
	o.emit(line, r.Line(), fmt.Sprintf("enc:%d:%s:%s:%d", v.Ty, r.Class, lenClass(len(r.Appended)), m.Consumed+m.Spare), len(v.Fs) > 0)
	o.stat("enc-" + r.Class)
	return r
}

func corrDec(o *Out, ty int, data []byte, m BufMode) DecResult {
	line := fmt.Sprintf("dec %d %s", ty, hexOf(data))
	begin(line)
	r := goDec(ty, data, m)
	begin("")
	o.emit(line, r.Line(), fmt.Sprintf("dec:%d:%s:%s:%d", ty, r.Class, lenClass(len(data)), m.Consumed+m.Spare), len(data) > 0)
	o.stat("dec-" + r.Class)
	return r
}

// every (type, table entry) pair reachable through a union op
func keyedTypes() (res []struct {
	Ty int
	E  Entry
	T  *Table
}) {
	for _, t := range schema.Types {
		for _, op := range t.fieldOps() {
			if op.K == "union" {
				tb := schema.Tables[op.Tbl]
				for _, e := range tb.Entries {
					res = append(res, struct {
						Ty int
						E  Entry
						T  *Table
					}{t.ID, e, tb})
				}
				break
			}
		}
	}
	return
}

// canonical values of every type (random), plus every registered key once
func canonValues(g *Gen, perType int) []*Val {
	var vs []*Val
	for _, t := range schema.Types {
		for i := 0; i < perType; i++ {
			vs = append(vs, g.msg(t.ID, true, 0))
		}
	}
	for _, k := range keyedTypes() {
		vs = append(vs, g.msgWithKey(k.Ty, k.E, true))
	}
	// two levels of discriminators: a frame whose body has an extension table of its own, once per extension key
	for _, ft := range schema.Types {
		if ft.Frame == nil {
			continue
		}
		for _, e := range schema.Tables[ft.Frame.Tbl].Entries {
			bt := schema.Types[e.Ty]
			for _, bop := range bt.fieldOps() {
				if bop.K != "union" {
					continue
				}
				for _, ie := range schema.Tables[bop.Tbl].Entries {
					fv := g.msgWithKey(ft.ID, e, true)
					fv.Fs[len(ft.Frame.Hdr)+1] = g.msgWithKey(bt.ID, ie, true)
					vs = append(vs, fv)
				}
				break
			}
		}
	}
	// the zero value of every type without a discriminator (all-zero numbers, empty text and lists) is canonical too,
	// and so is a message whose nested value-structs are all zero
	for _, t := range schema.Types {
		hasUnion := false
		for _, op := range t.fieldOps() {
			if op.K == "union" || (op.K == "nested" && op.G != "val") {
				hasUnion = true
			}
		}
		if !hasUnion {
			vs = append(vs, zeroValOf(t.ID))
			v := g.msg(t.ID, true, 0)
			for i, op := range t.fieldOps() {
				if op.K == "nested" && op.G == "val" {
					v.Fs[i] = zeroValOf(op.Ty)
				}
			}
			vs = append(vs, v)
		}
	}
	return vs
}

// messages with one long list (boundary lengths of 8/16-bit counts; element-block sizes that cross 2^16)
func bigListValues(g *Gen, thorough bool) []*Val {
	sizes := []int{255, 256, 16384}
	if thorough {
		sizes = []int{255, 256, 4096, 16384, 32768, 65535}
	}
	var vs []*Val
	for _, t := range schema.Types {
		for i, op := range t.fieldOps() {
			if op.K != "nums" && op.K != "fixeds" && op.K != "vstrs" && op.K != "objs" {
				continue
			}
			for _, n := range sizes {
				if op.K == "objs" && n > 300 {
					continue // the model's buffer threading is quadratic in the number of nested encodes
				}
				if op.CW == 1 && n > 255 {
					continue
				}
				v := g.msg(t.ID, true, 0)
				old := g.bigLists
				g.bigLists = nil
				save := g.maxList
				switch op.K {
				case "nums":
					l := &Val{K: 'N'}
					for k := 0; k < n; k++ {
						l.Ns = append(l.Ns, g.scalar(op.W))
					}
					v.Fs[i] = l
				case "fixeds":
					l := &Val{K: 'S'}
					for k := 0; k < n; k++ {
						l.Ss = append(l.Ss, g.canonFixed(op.N, byte(op.Pad), op.Left))
					}
					v.Fs[i] = l
				case "vstrs":
					l := &Val{K: 'S'}
					for k := 0; k < n; k++ {
						l.Ss = append(l.Ss, g.bytes(g.r.Intn(4), ' '))
					}
					v.Fs[i] = l
				case "objs":
					l := &Val{K: 'M'}
					g.maxList = 1
					for k := 0; k < n; k++ {
						l.Fs = append(l.Fs, g.msg(op.Ty, true, 1))
					}
					v.Fs[i] = l
				}
				g.maxList = save
				g.bigLists = old
				vs = append(vs, v)
			}
		}
	}
	return vs
}

func tname(ty int) string { return schema.Types[ty].QName() }

// C01: Encode then Decode returns the same message
func init() {
	suites["C01"] = func(o *Out, g *Gen, thorough bool) map[string]any {
		per := 30
		if thorough {
			per = 600
		}
		keysHit := map[string]bool{}
		vals := canonValues(g, per)
		vals = append(vals, bigListValues(g, thorough)...)
		for _, v := range vals {
			m := g.mode()
			r := corrEnc(o, v, g.prefix(), m)
			if r.Class != "ok" {
				o.violate(Violation{Property: "C01", Kind: "direct", What: "canonical value did not encode: " + r.Class + " " + r.PanicMsg,
					Case: "enc - " + v.String(), Key: "enc-fails:" + tname(v.Ty)})
				continue
			}
			if t := schema.Types[v.Ty]; t.Frame != nil && !r.PreChanged {
				// self-computed fields are compared against their CORRECT values (independent count / reference checksum)
				checkFrameLen(o, t, v, r, "C01")
				checkFrameCks(o, t, v, r)
			}
			rest := g.prefix()
			data := append(append([]byte{}, r.Appended...), rest...)
			d := corrDec(o, v.Ty, data, g.mode())
			if d.Class != "ok" || d.Consumed != len(r.Appended) || d.RestChanged || !valEq(d.Val, r.Val) {
				o.violate(Violation{Property: "C01", Kind: "direct", What: "decode(encode(v)) differs from v",
					Case: "enc - " + v.String(), Expected: "ok | " + fmt.Sprint(len(r.Appended)) + " | " + r.Val.String(), Observed: d.Line(),
					Key: "roundtrip:" + tname(v.Ty)})
			}
			for i, op := range schema.Types[v.Ty].fieldOps() {
				if op.K == "union" && v.Fs[i].K == 'm' {
					keysHit[fmt.Sprintf("%d:%s", op.Tbl, v.Fs[op.Key].String())] = true
				}
			}
		}
		return map[string]any{"keys_hit": len(keysHit), "types": len(schema.Types)}
	}
}

// doReplay re-executes one recorded case line against the real library and prints the implementation's
// result line (bin/check runs the model driver on the same line and compares).
func doReplay(prop, path string) int {
	b, err := os.ReadFile(path)
	if err != nil {
		fmt.Println("replay:", err)
		return 2
	}
	line := strings.TrimSpace(strings.SplitN(string(b), "\n", 2)[0])
	toks := strings.Fields(line)
	if len(toks) == 0 {
		fmt.Println("not-replayable: empty case")
		return 3
	}
	// the IR commands name the same library calls as wop / rop / cks (the model side differs: the function body as translated
	// into GoIR from the source instead of the hand-written primitive model)
	irPlain := false
	if (toks[0] == "irw" || toks[0] == "irr") && len(toks) > 2 {
		irPlain = toks[1] == "1"
		toks = append([]string{map[string]string{"irw": "wop", "irr": "rop"}[toks[0]]}, toks[2:]...)
	}
	switch toks[0] {
	case "enc", "penc", "encns":
		pre, err1 := parseHex(toks[1])
		v, _, err2 := parseVal(toks[2:])
		if err1 != nil || err2 != nil {
			fmt.Println("not-replayable: malformed case")
			return 3
		}
		r := goEnc(v, pre, BufMode{})
		if toks[0] == "encns" {
			r = goEncNoSvc(v, pre)
		}
		if toks[0] == "penc" {
			if r.Class == "ok" {
				fmt.Println("ok | " + hexOf(r.Appended))
			} else {
				fmt.Println("fail")
			}
		} else {
			fmt.Println(r.Line() + func() string {
				if r.PanicMsg != "" {
					return "   # " + r.PanicMsg
				}
				return ""
			}())
		}
	case "dec", "pdec", "cost":
		ty, err1 := strconv.Atoi(toks[1])
		data, err2 := parseHex(toks[2])
		if err1 != nil || err2 != nil || ty < 0 || ty >= len(typeCtors) {
			fmt.Println("not-replayable: malformed case")
			return 3
		}
		if toks[0] == "cost" {
			d := goDecInto(typeCtors[ty](), data, BufMode{}, true)
			fmt.Printf("ok | %d\n", d.Alloc)
			return 0
		}
		// run the buffer / receiver variants the suites use; print the first result that is not an error, else the error
		var first *DecResult
		for _, m := range []BufMode{{}, {Consumed: 3, Spare: 2048, Stale: true}, {Spare: 1 << 16, Stale: true}} {
			d := goDec(ty, data, m)
			if first == nil || (first.Class == "err" && d.Class != "err") {
				dd := d
				first = &dd
			}
		}
		fmt.Println(first.Line())
	case "lookup":
		// lookup <table> n <number> | lookup <table> s <hex>
		if len(toks) != 4 {
			fmt.Println("not-replayable: malformed case")
			return 3
		}
		ti, err := strconv.Atoi(toks[1])
		if err != nil || ti < 0 || ti >= len(schema.Tables) {
			fmt.Println("not-replayable: malformed case")
			return 3
		}
		tb := schema.Tables[ti]
		fn := lookupFns[tb.Pkg+"."+tb.Lookup]
		if fn == nil {
			fmt.Println("not-replayable: the look-up function " + tb.Pkg + "." + tb.Lookup + " no longer exists")
			return 3
		}
		var key any
		if toks[2] == "n" {
			n, err := strconv.ParseUint(toks[3], 10, 64)
			if err != nil {
				fmt.Println("not-replayable: malformed case")
				return 3
			}
			key = n
		} else {
			b, err := parseHex(toks[3])
			if err != nil {
				fmt.Println("not-replayable: malformed case")
				return 3
			}
			key = string(b)
		}
		var m codec.BinaryCodec
		c, _ := guard(func() error { var err error; m, err = fn(key); return err })
		if c == "ok" && m != nil {
			id := -1
			for i, q := range typeQNames {
				if fmt.Sprintf("%T", typeCtors[i]()) == fmt.Sprintf("%T", m) {
					id = i
					_ = q
				}
			}
			fmt.Printf("ok | %d\n", id)
		} else {
			fmt.Println(c)
		}
	case "rop", "wop":
		op, rest, ok := parseOpTokens(toks[1:])
		if !ok || len(rest) == 0 {
			fmt.Println("not-replayable: malformed case")
			return 3
		}
		kind := ""
		if op.K == "scalar" || op.K == "nums" {
			kind = fmt.Sprintf("u%d", op.W*8)
		}
		if toks[0] == "rop" {
			data, err := parseHex(rest[0])
			if err != nil {
				fmt.Println("not-replayable: malformed case")
				return 3
			}
			class, consumed, v, rc, _ := goRop(op, kind, irPlain, data, BufMode{})
			if class == "ok" {
				p := ""
				if rc {
					p = "REST-CHANGED "
				}
				fmt.Printf("ok | %s%d | %s\n", p, consumed, v.String())
			} else {
				fmt.Println(class)
			}
		} else {
			v, _, err := parseVal(rest)
			if err != nil {
				fmt.Println("not-replayable: malformed case")
				return 3
			}
			class, app, pc, _ := goWop(op, kind, irPlain, v, nil, BufMode{})
			if class == "ok" {
				p := ""
				if pc {
					p = "PRE-CHANGED "
				}
				fmt.Println("ok | " + p + hexOf(app) + " | " + v.String())
			} else {
				fmt.Println(class)
			}
		}
	default:
		fmt.Println("not-replayable: re-run the check (" + toks[0] + " cases are replayed by the whole suite)")
		return 3
	}
	return 0
}

// inverse of opTokens for the primitive ops
func parseOpTokens(toks []string) (op Op, rest []string, ok bool) {
	at := func(i int) int {
		if i >= len(toks) {
			return -1
		}
		n, err := strconv.Atoi(toks[i])
		if err != nil {
			return -1
		}
		return n
	}
	str := func(i int) string {
		if i >= len(toks) {
			return ""
		}
		return toks[i]
	}
	if len(toks) == 0 {
		return
	}
	op.K = toks[0]
	n := 0
	switch op.K {
	case "scalar":
		op.W, op.E, n = at(1), str(2), 3
	case "fixed":
		op.N, op.Pad, op.Left, n = at(1), at(2), str(3) == "1", 4
	case "vstr":
		op.PW, op.E, n = at(1), str(2), 3
	case "nums":
		op.CW, op.W, op.E, n = at(1), at(2), str(3), 4
	case "fixeds":
		op.CW, op.N, op.Pad, op.Left, op.E, n = at(1), at(2), at(3), str(4) == "1", str(5), 6
	case "vstrs":
		op.CW, op.PW, op.E, n = at(1), at(2), str(3), 4
	default:
		return
	}
	if len(toks) < n || op.W < 0 || op.N < 0 || op.CW < 0 || op.PW < 0 || op.Pad < 0 {
		return
	}
	return op, toks[n:], true
}

// lengthenText gives every length-prefixed text of a message (recursively) at least eleven bytes: a reader that fails on a
// cut text WITHOUT consuming what is left of it leaves enough bytes behind for whatever is read next to succeed
func lengthenText(v *Val) {
	if v == nil || v.K != 'm' {
		return
	}
	for i, op := range schema.Types[v.Ty].fieldOps() {
		if i >= len(v.Fs) || v.Fs[i] == nil {
			continue
		}
		switch op.K {
		case "vstr":
			if len(v.Fs[i].S) < 8 {
				v.Fs[i] = &Val{K: 's', S: []byte("truncate-me")}
			}
		case "vstrs":
			if len(v.Fs[i].Ss) == 0 {
				v.Fs[i] = &Val{K: 'S', Ss: [][]byte{[]byte("truncate-me")}}
			} else if last := len(v.Fs[i].Ss) - 1; len(v.Fs[i].Ss[last]) < 8 {
				v.Fs[i].Ss[last] = []byte("truncate-me")
			}
		case "nested", "union":
			lengthenText(v.Fs[i])
		case "objs":
			for _, e := range v.Fs[i].Fs {
				lengthenText(e)
			}
		}
	}
}
