package main

import (
	"bytes"
	"fmt"
)

func corrP(o *Out, cmd string, line string, goOut string, sig string) {
	o.emit(cmd+" "+line, goOut, sig, true)
}

// ---- C02: wire layout equals the pinned schema (oracle = the Lean renderer of the committed snapshot) ----
func init() {
	suites["C02"] = func(o *Out, g *Gen, thorough bool) map[string]any {
		per := 24
		if thorough {
			per = 400
		}
		var vals []*Val
		for _, t := range schema.Types {
			for i := 0; i < per; i++ {
				vals = append(vals, g.msg(t.ID, i%2 == 0, 0))
			}
		}
		for _, k := range keyedTypes() {
			vals = append(vals, g.msgWithKey(k.Ty, k.E, false))
		}
		vals = append(vals, bigListValues(g, thorough)...)
		for _, v := range vals {
			line := hexOf(nil) + " " + v.String()
			begin("penc " + line)
			r := goEnc(v, nil, g.mode())
			out := "fail"
			if r.Class == "ok" {
				out = "ok | " + hexOf(r.Appended)
			}
			corrP(o, "penc", line, out, fmt.Sprintf("penc:%d:%s:%s", v.Ty, r.Class, lenClass(len(r.Appended))))
			o.stat("penc-" + r.Class)
			// second, Go-side oracle: the harness's own renderer of the pinned schema
			if want, ok := renderPinned(v); ok != (r.Class == "ok") || (ok && !bytes.Equal(want, r.Appended)) {
				o.violate(Violation{Property: "C02", Kind: "direct", What: "the library's bytes differ from the pinned schema's rendering of the value",
					Case: "penc - " + v.String(), Expected: hexOf(want), Observed: r.Class + " " + hexOf(r.Appended), Key: "layout:" + tname(v.Ty)})
			}
			if r.Class == "ok" {
				data := append(append([]byte{}, r.Appended...), g.prefix()...)
				begin("pdec")
				d := goDec(v.Ty, data, g.mode())
				corrP(o, "pdec", fmt.Sprintf("%d %s", v.Ty, hexOf(data)), d.Line(), fmt.Sprintf("pdec:%d:%s:%s", v.Ty, d.Class, lenClass(len(data))))
				o.stat("pdec-" + d.Class)
			}
		}
		// one receiver per type decoded into repeatedly (different keys / bodies in a row): the layout read must be the pinned one
		recv := map[int]any{}
		for _, k := range keyedTypes() {
			for rep := 0; rep < 2; rep++ {
				v := g.msgWithKey(k.Ty, k.E, true)
				want, ok := renderPinned(v)
				if !ok {
					continue
				}
				if recv[k.Ty] == nil {
					recv[k.Ty] = typeCtors[k.Ty]()
				}
				data := append(append([]byte{}, want...), g.prefix()...)
				begin("pdec reused")
				d := goDecInto(recv[k.Ty], data, g.mode(), false)
				corrP(o, "pdec", fmt.Sprintf("%d %s", k.Ty, hexOf(data)), d.Line(), fmt.Sprintf("pdecr:%d:%s", k.Ty, d.Class))
				o.stat("pdec-reused-" + d.Class)
			}
		}
		// absent extensions AFTER the decodes above: the encoder fills in a blank body of the pinned type, whatever was decoded before
		for _, k := range keyedTypes() {
			t := schema.Types[k.Ty]
			v := g.msgWithKey(k.Ty, k.E, true)
			for i, op := range t.fieldOps() {
				if op.K == "union" {
					v.Fs[i] = &Val{K: 'z'}
				}
			}
			want, ok := renderPinned(v)
			r := goEnc(v, nil, g.mode())
			if ok != (r.Class == "ok") || (ok && !bytes.Equal(want, r.Appended)) {
				o.violate(Violation{Property: "C02", Kind: "direct", What: "with the body/extension left out, the library's bytes differ from the pinned schema's rendering (blank body of the pinned type)",
					Case: "penc - " + v.String(), Expected: hexOf(want), Observed: r.Class + " " + hexOf(r.Appended), Key: "layout-absent:" + tname(v.Ty)})
			}
			o.stat("penc-absent-" + r.Class)
		}
		// arbitrary bytes through the decoders: layout on the read side
		for _, t := range schema.Types {
			for i := 0; i < per/2+1; i++ {
				v := g.msg(t.ID, true, 0)
				r := goEnc(v, nil, BufMode{})
				if r.Class != "ok" || len(r.Appended) == 0 {
					continue
				}
				data := mutateBytes(g, r.Appended)
				d := goDec(t.ID, data, g.mode())
				corrP(o, "pdec", fmt.Sprintf("%d %s", t.ID, hexOf(data)), d.Line(), fmt.Sprintf("pdecm:%d:%s", t.ID, d.Class))
				o.stat("pdec-mut-" + d.Class)
			}
		}
		return nil
	}
}

func mutateBytes(g *Gen, b []byte) []byte {
	d := append([]byte{}, b...)
	switch g.r.Intn(5) {
	case 0: // bit flip
		i := g.r.Intn(len(d))
		d[i] ^= 1 << uint(g.r.Intn(8))
	case 1: // random window
		i := g.r.Intn(len(d))
		for k := i; k < len(d) && k < i+1+g.r.Intn(8); k++ {
			d[k] = byte(g.r.Intn(256))
		}
	case 2: // pad / NUL / space bytes sprinkled (touches fixed-width text)
		for k := 0; k < 1+len(d)/8; k++ {
			d[g.r.Intn(len(d))] = []byte{' ', 0, '0', 0xFF}[g.r.Intn(4)]
		}
	case 3: // truncate
		d = d[:g.r.Intn(len(d))]
	case 4: // 0xFF window
		i := g.r.Intn(len(d))
		for k := i; k < len(d) && k < i+4; k++ {
			d[k] = 0xFF
		}
	}
	return d
}

// ---- C03: one byte order per protocol (primitive level: LE = BE with each integer's bytes reversed) ----

func reverse(b []byte) []byte {
	r := make([]byte, len(b))
	for i := range b {
		r[i] = b[len(b)-1-i]
	}
	return r
}

// expected LE bytes from BE bytes, given the structure of the primitive's output
func swapInts(op Op, v *Val, be []byte) []byte {
	out := []byte{}
	take := func(n int) []byte { x := be[:n]; be = be[n:]; return x }
	switch op.K {
	case "scalar":
		return reverse(be)
	case "vstr":
		out = append(out, reverse(take(op.PW))...)
		return append(out, be...)
	case "nums":
		out = append(out, reverse(take(op.CW))...)
		for len(be) > 0 {
			out = append(out, reverse(take(op.W))...)
		}
		return out
	case "fixeds":
		out = append(out, reverse(take(op.CW))...)
		return append(out, be...)
	case "vstrs":
		out = append(out, reverse(take(op.CW))...)
		for _, s := range v.Ss {
			out = append(out, reverse(take(op.PW))...)
			out = append(out, take(len(s))...)
		}
		return out
	}
	return be
}

func primOps(g *Gen) []Op {
	var ops []Op
	for _, w := range widths {
		ops = append(ops, Op{K: "scalar", W: w})
		ops = append(ops, Op{K: "vstr", PW: w})
		for _, w2 := range widths {
			ops = append(ops, Op{K: "nums", CW: w, W: w2})
			ops = append(ops, Op{K: "vstrs", CW: w, PW: w2})
		}
		ops = append(ops, Op{K: "fixeds", CW: w, N: 1 + g.r.Intn(6), Pad: ' '})
		ops = append(ops, Op{K: "fixeds", CW: w, N: 3, Pad: '0', Left: true})
	}
	return ops
}

func (g *Gen) primVal(op Op, maxLen int) *Val {
	save := g.maxList
	g.maxList = maxLen
	defer func() { g.maxList = save }()
	switch op.K {
	case "scalar":
		return &Val{K: 'n', N: g.scalar(op.W)}
	case "vstr":
		s := g.vstr(op.PW)
		return &Val{K: 's', S: s}
	}
	v := g.opVal(op, false, 0)
	if op.K == "nums" || op.K == "vstrs" || op.K == "fixeds" {
		// make sure counts >= 2 and 256.. occur (count 1 cannot see byte order)
		if g.r.Intn(3) == 0 {
			n := []int{2, 3, 256, 258, 300}[g.r.Intn(5)]
			if op.CW == 1 && n > 255 {
				n = 2
			}
			for listLen(v) < n {
				switch op.K {
				case "nums":
					v.Ns = append(v.Ns, g.scalar(op.W))
				case "vstrs":
					v.Ss = append(v.Ss, g.bytes(g.r.Intn(5), ' '))
				case "fixeds":
					v.Ss = append(v.Ss, g.anyFixed(op.N, byte(op.Pad)))
				}
			}
		}
	}
	return v
}

func listLen(v *Val) int {
	switch v.K {
	case 'N':
		return len(v.Ns)
	case 'S':
		return len(v.Ss)
	}
	return len(v.Fs)
}

func init() {
	suites["C03"] = func(o *Out, g *Gen, thorough bool) map[string]any {
		rounds := 15
		if thorough {
			rounds = 300
		}
		for r := 0; r < rounds; r++ {
			for _, op0 := range primOps(g) {
				kinds := []string{""}
				if op0.K == "scalar" || op0.K == "nums" {
					kinds = kindsOfWidth(op0.W)
				}
				for _, kind := range kinds {
					v := g.primVal(op0, 5)
					if op0.K == "vstr" && op0.PW >= 2 && r%2 == 0 {
						v.S = g.bytes(256+g.r.Intn(300), ' ') // lengths >= 256: both prefix bytes matter
					}
					plain := op0.K == "fixeds" && op0.Pad == ' ' && !op0.Left && g.r.Intn(2) == 0
					be, le := op0, op0
					be.E, le.E = "be", "le"
					rb := corrWop(o, be, kind, plain, v, g.prefix(), g.mode())
					rl := corrWop(o, le, kind, plain, v, g.prefix(), g.mode())
					if rb.Class != rl.Class {
						o.violate(Violation{Property: "C03", Kind: "direct", What: "LE and BE variants disagree on success",
							Case: "wop " + opTokens(le) + " " + v.String() + " kind=" + kind, Expected: rb.Class, Observed: rl.Class, Key: "class:" + op0.K})
					} else if rb.Class == "ok" {
						want := swapInts(op0, v, rb.Appended)
						if !bytes.Equal(want, rl.Appended) {
							o.violate(Violation{Property: "C03", Kind: "direct", What: "little-endian variant is not the big-endian bytes with each integer reversed",
								Case: "wop " + opTokens(le) + " " + v.String() + " kind=" + kind, Expected: hexOf(want), Observed: hexOf(rl.Appended), Key: "bytes:" + op0.K + ":" + kind})
						}
						// read back with the matching reader
						corrRop(o, le, kind, plain, append(append([]byte{}, rl.Appended...), g.prefix()...), g.mode())
						corrRop(o, be, kind, plain, append(append([]byte{}, rb.Appended...), g.prefix()...), g.mode())
					}
				}
			}
		}
		// message level: every message of the little-endian protocols (BSE, sample generated) and big-endian ones
		per := 8
		if thorough {
			per = 100
		}
		for _, t := range schema.Types {
			for i := 0; i < per; i++ {
				v := g.msg(t.ID, true, 0)
				if i%3 == 0 { // zero in scalar fields: an encoder that "fills in" a zero field itself must still use the protocol's order
					for k, op := range t.fieldOps() {
						if op.K == "scalar" && g.r.Intn(2) == 0 {
							v.Fs[k] = &Val{K: 'n'}
						}
					}
				}
				r := corrEnc(o, v, g.prefix(), g.mode())
				if r.Class != "ok" || r.Val == nil {
					continue
				}
				// every multi-byte integer of the emitted message, at the offset the pinned layout gives it, must be the
				// reported value in the protocol's byte order (checked only when the total size is the pinned one)
				var spans []IntSpan
				if intSpansMsg(r.Val, 0, &spans) != len(r.Appended) {
					continue
				}
				for _, sp := range spans {
					if sp.W < 2 {
						continue
					}
					got := r.Appended[sp.Off : sp.Off+sp.W]
					right, wrong := make([]byte, sp.W), make([]byte, sp.W)
					putUint(right, sp.E, sp.Val)
					putUint(wrong, map[string]string{"le": "be", "be": "le"}[sp.E], sp.Val)
					if !bytes.Equal(got, right) && bytes.Equal(got, wrong) {
						o.violate(Violation{Property: "C03", Kind: "direct", What: fmt.Sprintf("a %d-byte integer at offset %d of %s is in the wrong byte order", sp.W, sp.Off, t.QName()),
							Case: "enc - " + v.String(), Expected: hexOf(right), Observed: hexOf(got), Key: "order:" + t.QName()})
						break
					}
				}
			}
		}
		return nil
	}
}
