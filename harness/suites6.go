package main

import (
	"bytes"
	"fmt"
	"reflect"
)

// ---- C15: decode result independent of the receiver's prior content ----
func init() {
	suites["C15"] = func(o *Out, g *Gen, thorough bool) map[string]any {
		per := 16
		if thorough {
			per = 300
		}
		for _, t := range schema.Types {
			for i := 0; i < per; i++ {
				// the bytes to decode: sometimes with empty lists / short text so that leftovers would show
				save := g.maxList
				if i%2 == 0 {
					g.maxList = 0
				}
				v := g.msg(t.ID, true, 0)
				g.maxList = save
				if i%4 == 3 {
					// "nothing here" values on the wire: zero numbers, blank / "0" one-character codes — a decoder that assigns a
					// field only under a condition typically keys on these
					for k, op := range t.fieldOps() {
						switch {
						case op.K == "scalar" && g.r.Intn(2) == 0:
							v.Fs[k] = &Val{K: 'n'}
						case op.K == "fixed" && op.N <= 2:
							v.Fs[k] = &Val{K: 's', S: [][]byte{nil, []byte("0"), []byte("1"), []byte("N")}[g.r.Intn(4)]}
						case op.K == "fixed" && g.r.Intn(3) == 0:
							v.Fs[k] = &Val{K: 's'}
						}
					}
				}
				r := goEnc(v, nil, BufMode{})
				if r.Class != "ok" {
					continue
				}
				data := append(append([]byte{}, r.Appended...), g.prefix()...)
				fresh := goDec(t.ID, data, BufMode{})
				// dirty receiver: a previously decoded, larger message (longer lists, another body type) …
				g.maxList = 5
				obj := newObj(g.msg(t.ID, false, 0))
				g.maxList = save
				hist := "filled"
				switch i % 4 {
				case 1: // … then a decode that fails half way
					other := goEnc(g.msg(t.ID, true, 0), nil, BufMode{})
					if other.Class == "ok" && len(other.Appended) > 1 {
						cut := 1 + g.r.Intn(len(other.Appended)-1)
						goDecInto(obj, other.Appended[:cut], BufMode{}, false)
						hist = "filled+failed-decode"
					}
				case 2: // … an earlier successful decode of another message
					other := goEnc(g.msg(t.ID, true, 0), nil, BufMode{})
					if other.Class == "ok" {
						goDecInto(obj, other.Appended, BufMode{}, false)
						hist = "filled+decoded"
					}
				case 3: // a successful decode, then a failing one that only got past the header
					a := goEnc(g.msg(t.ID, true, 0), nil, BufMode{})
					if a.Class == "ok" {
						goDecInto(obj, a.Appended, BufMode{}, false)
					}
					if len(data) > 4 {
						goDecInto(obj, data[:4+g.r.Intn(min(len(data)-4, 6))], BufMode{}, false)
					}
					hist = "decoded+truncated-same"
				}
				line := fmt.Sprintf("dec %d %s", t.ID, hexOf(data))
				begin(line)
				d := goDecInto(obj, data, g.mode(), false)
				o.emit(line, d.Line(), fmt.Sprintf("dirty:%d:%s:%s", t.ID, d.Class, hist), true)
				o.stat("dirty-" + hist)
				if d.Class != fresh.Class || (d.Class == "ok" && (!valEq(d.Val, fresh.Val) || d.Consumed != fresh.Consumed)) {
					o.violate(Violation{Property: "C15", Kind: "direct", What: "decoding into a used receiver (" + hist + ") differs from decoding into a fresh one",
						Case: line, Expected: trunc(fresh.Line(), 400), Observed: trunc(d.Line(), 400), Key: "dirty:" + t.QName()})
				}
			}
		}
		return nil
	}
}

// give every numeric / string slice field reachable from obj a window of ONE shared backing array (capacity reaching
// over the following windows), as a caller that carved its lists out of one allocation would
// shareStride is the distance between consecutive windows: 2 = adjacent windows, 0 = every list is the SAME window
var shareStride = 2

func shareBacking(rv reflect.Value, pools map[reflect.Type]reflect.Value, used map[reflect.Type]int) {
	switch rv.Kind() {
	case reflect.Ptr, reflect.Interface:
		if !rv.IsNil() {
			shareBacking(rv.Elem(), pools, used)
		}
	case reflect.Struct:
		for i := 0; i < rv.NumField(); i++ {
			shareBacking(rv.Field(i), pools, used)
		}
	case reflect.Slice:
		et := rv.Type().Elem()
		if et.Kind() == reflect.Ptr {
			for i := 0; i < rv.Len(); i++ {
				shareBacking(rv.Index(i), pools, used)
			}
			return
		}
		if !rv.CanSet() {
			return
		}
		if _, ok := pools[rv.Type()]; !ok {
			pools[rv.Type()] = reflect.MakeSlice(rv.Type(), 64, 64)
		}
		n := 2
		off := used[rv.Type()]
		if off+n > 64 {
			return
		}
		used[rv.Type()] = off + shareStride
		rv.Set(pools[rv.Type()].Slice(off, off+n)) // len 2, capacity up to the end of the pool
	}
}

func init() {
	prev := suites["C15"]
	suites["C15"] = func(o *Out, g *Gen, thorough bool) map[string]any {
		res := prev(o, g, thorough)
		reps := 2
		if thorough {
			reps = 20
		}
		for _, t := range schema.Types {
			for rep := 0; rep < reps; rep++ {
				// (a) receivers whose lists are windows of one shared allocation
				v := g.msg(t.ID, true, 0)
				r := goEnc(v, nil, BufMode{})
				for _, stride := range []int{2, 0} {
					if r.Class != "ok" {
						break
					}
					fresh := goDec(t.ID, r.Appended, BufMode{})
					obj := newObj(g.msg(t.ID, true, 0))
					shareStride = stride
					shareBacking(reflect.ValueOf(obj), map[reflect.Type]reflect.Value{}, map[reflect.Type]int{})
					line := fmt.Sprintf("dec %d %s", t.ID, hexOf(r.Appended))
					begin(line)
					d := goDecInto(obj, r.Appended, g.mode(), false)
					o.emit(line, d.Line(), fmt.Sprintf("shared:%d:%s", t.ID, d.Class), true)
					o.stat("dirty-shared-backing")
					if d.Class != fresh.Class || (d.Class == "ok" && !valEq(d.Val, fresh.Val)) {
						o.violate(Violation{Property: "C15", Kind: "direct", What: "decoding into a receiver whose lists share one backing array differs from decoding into a fresh one",
							Case: line, Expected: trunc(fresh.Line(), 400), Observed: trunc(d.Line(), 400), Key: "shared:" + t.QName()})
					}
				}
				// (b) bytes with an UNREGISTERED discriminator, into a receiver that holds an earlier body / extension
				for i, op := range t.fieldOps() {
					if op.K != "union" {
						continue
					}
					tb := schema.Tables[op.Tbl]
					keys := nearMissKeys(g, tb)
					kv := keys[g.r.Intn(len(keys))]
					kop := t.fieldOps()[op.Key]
					if kop.K == "scalar" {
						kv.N &= maxOf(kop.W)
					} else if len(kv.S) > kop.N {
						continue
					}
					bad := g.msg(t.ID, true, 0)
					bad.Fs[op.Key] = kv
					_ = i
					wire, ok := renderPinned(bad) // the body present on the wire belongs to some registered type; the key does not
					if !ok {
						continue
					}
					fresh := goDec(t.ID, wire, BufMode{})
					obj := newObj(g.msg(t.ID, true, 0))
					line := fmt.Sprintf("dec %d %s", t.ID, hexOf(wire))
					begin(line)
					d := goDecInto(obj, wire, g.mode(), false)
					o.emit(line, d.Line(), fmt.Sprintf("dirtyunk:%d:%s", t.ID, d.Class), true)
					o.stat("dirty-unregistered-key")
					if d.Class != fresh.Class || (d.Class == "ok" && !valEq(d.Val, fresh.Val)) {
						o.violate(Violation{Property: "C15", Kind: "direct", What: "decoding bytes with an unregistered discriminator into a used receiver differs from a fresh one",
							Case: line, Expected: trunc(fresh.Line(), 400), Observed: trunc(d.Line(), 400), Key: "dirtyunk:" + t.QName()})
					}
				}
			}
		}
		return res
	}
}

// ---- C16: no aliasing between messages and buffers ----
func scribble(b []byte) {
	b = b[:cap(b)]
	for i := range b {
		b[i] ^= 0x5A
	}
}

// mutate every list / text / nested part of a message object in place
func mutateObj(rv reflect.Value) {
	switch rv.Kind() {
	case reflect.Ptr, reflect.Interface:
		if !rv.IsNil() {
			mutateObj(rv.Elem())
		}
	case reflect.Struct:
		for i := 0; i < rv.NumField(); i++ {
			mutateObj(rv.Field(i))
		}
	case reflect.Slice:
		for i := 0; i < rv.Len(); i++ {
			mutateObj(rv.Index(i))
		}
		if rv.CanSet() && rv.Len() > 0 && rv.Type().Elem().Kind() != reflect.Ptr {
			// append within capacity writes behind the visible elements
			rv.Set(reflect.Append(rv, rv.Index(0)))
		}
	case reflect.String:
		if rv.CanSet() {
			rv.SetString(rv.String() + "~")
		}
	case reflect.Uint8, reflect.Uint16, reflect.Uint32, reflect.Uint64:
		if rv.CanSet() {
			rv.SetUint(rv.Uint() ^ 0x3C)
		}
	case reflect.Int8, reflect.Int16, reflect.Int32, reflect.Int64:
		if rv.CanSet() {
			rv.SetInt(rv.Int() ^ 0x3C)
		}
	}
}

func init() {
	suites["C16"] = func(o *Out, g *Gen, thorough bool) map[string]any {
		per := 12
		if thorough {
			per = 200
		}
		// messages held across the WHOLE run: later decodes (through reused buffers) must not change them
		type heldMsg struct {
			obj  any
			snap string
			c    string
		}
		var held []heldMsg
		defer func() {
			for _, h := range held {
				if after := readObj(h.obj).String(); after != h.snap {
					o.violate(Violation{Property: "C16", Kind: "direct", What: "a decoded message changed while later messages were decoded (it was held across the run)",
						Case: h.c, Expected: trunc(h.snap, 300), Observed: trunc(after, 300), Key: "held"})
					break
				}
			}
		}()
		for _, t := range schema.Types {
			for i := 0; i < per; i++ {
				save := g.maxList
				if i%3 == 0 {
					g.maxList = 12
				}
				v := g.msg(t.ID, true, 0)
				if i%3 == 1 { // long text (a zero-copy path may apply only above a size threshold)
					for k, op := range t.fieldOps() {
						if op.K == "vstr" {
							v.Fs[k] = &Val{K: 's', S: g.bytes(64+g.r.Intn(200), ' ')}
						}
					}
				}
				g.maxList = save
				r := corrEnc(o, v, nil, BufMode{})
				if r.Class != "ok" {
					continue
				}
				// decode from a slice the harness owns, then overwrite / reuse it
				own := make([]byte, len(r.Appended), len(r.Appended)+64)
				copy(own, r.Appended)
				buf := bytes.NewBuffer(own)
				obj := typeCtors[t.ID]()
				c, _ := guard(func() error { return obj.(decoder).Decode(buf) })
				if c != "ok" {
					continue
				}
				snap := readObj(obj).String()
				if i == 0 {
					held = append(held, heldMsg{obj, snap, fmt.Sprintf("dec %d %s", t.ID, hexOf(r.Appended))})
				}
				scribble(own)
				buf.Reset()
				buf.Write(bytes.Repeat([]byte{0xEE}, len(own)))
				if after := readObj(obj).String(); after != snap {
					o.violate(Violation{Property: "C16", Kind: "direct", What: "a decoded message changed when its source buffer was overwritten",
						Case: fmt.Sprintf("dec %d %s", t.ID, hexOf(r.Appended)), Expected: trunc(snap, 300), Observed: trunc(after, 300), Key: "dec-alias:" + t.QName()})
					continue
				}
				// mutating the decoded message must not write into the source buffer
				own2 := make([]byte, len(r.Appended), len(r.Appended)+64)
				copy(own2, r.Appended)
				obj2 := typeCtors[t.ID]()
				guard(func() error { return obj2.(decoder).Decode(bytes.NewBuffer(own2)) })
				mutateObj(reflect.ValueOf(obj2))
				if !bytes.Equal(own2, r.Appended) {
					o.violate(Violation{Property: "C16", Kind: "direct", What: "changing a decoded message wrote into its source buffer",
						Case: fmt.Sprintf("dec %d %s", t.ID, hexOf(r.Appended)), Key: "dec-alias-w:" + t.QName()})
				}
				// encode, then change the message: the bytes already written must stay
				obj3 := newObj(v)
				out := &bytes.Buffer{}
				if c, _ := guard(func() error { return callEncode(obj3, out) }); c == "ok" {
					snapB := append([]byte{}, out.Bytes()...)
					mutateObj(reflect.ValueOf(obj3))
					if !bytes.Equal(out.Bytes(), snapB) {
						o.violate(Violation{Property: "C16", Kind: "direct", What: "changing a message after encoding changed the bytes already written",
							Case: "enc - " + v.String(), Key: "enc-alias:" + t.QName()})
					}
				}
			}
		}
		// two live messages of one type (same discriminators) must be independent objects, also after a truncated decode of
		// that type was attempted and also when the receivers were earlier ENCODED with absent nested parts
		for _, t := range schema.Types {
			for rep := 0; rep < 2; rep++ {
				a := g.msg(t.ID, true, 0)
				b := a.clone()
				// same keys, different contents
				var bump func(v *Val)
				bump = func(v *Val) {
					for _, f := range v.Fs {
						switch f.K {
						case 'n':
							f.N ^= 0x11
						case 'm', 'M':
							bump(f)
						}
					}
				}
				bump(b)
				for i, op := range t.fieldOps() { // keep the discriminators
					if op.K == "union" {
						b.Fs[op.Key] = a.Fs[op.Key].clone()
						_ = i
					}
				}
				ra, rb := goEnc(a, nil, BufMode{}), goEnc(b, nil, BufMode{})
				if ra.Class != "ok" || rb.Class != "ok" || len(ra.Appended) < 2 {
					continue
				}
				shared := make([]byte, 0, len(ra.Appended)+len(rb.Appended)+16)
				buf := bytes.NewBuffer(shared)
				// a truncated frame of this type first
				buf.Write(ra.Appended[:len(ra.Appended)/2])
				guard(func() error { return typeCtors[t.ID]().(decoder).Decode(buf) })
				buf.Reset()
				objA, objB := typeCtors[t.ID](), typeCtors[t.ID]()
				if rep == 1 { // receivers that were encoded before with everything absent
					guard(func() error { return callEncode(objA, &bytes.Buffer{}) })
					guard(func() error { return callEncode(objB, &bytes.Buffer{}) })
				}
				buf.Write(ra.Appended)
				if c, _ := guard(func() error { return objA.(decoder).Decode(buf) }); c != "ok" {
					continue
				}
				snapA := readObj(objA).String()
				buf.Reset()
				buf.Write(rb.Appended)
				guard(func() error { return objB.(decoder).Decode(buf) })
				if after := readObj(objA).String(); after != snapA {
					o.violate(Violation{Property: "C16", Kind: "direct", What: "decoding a second message of the same type changed the first, still-live message (shared instance)",
						Case: fmt.Sprintf("dec %d %s then dec %d %s", t.ID, hexOf(ra.Appended), t.ID, hexOf(rb.Appended)), Expected: trunc(snapA, 300), Observed: trunc(after, 300), Key: "shared-instance:" + t.QName()})
					break
				}
				o.stat("two-live-messages")
			}
		}
		return nil
	}
}

// ---- C17: encoding any constructible message never panics ----
func (g *Gen) withNils(v *Val, p float64) *Val {
	c := v.clone()
	var walk func(x *Val, ty int)
	walk = func(x *Val, ty int) {
		if x.K != 'm' {
			return
		}
		for i, op := range schema.Types[x.Ty].fieldOps() {
			f := x.Fs[i]
			switch op.K {
			case "nested":
				if op.G != "val" && g.r.Float64() < p {
					x.Fs[i] = &Val{K: 'z'}
				} else {
					walk(f, op.Ty)
				}
			case "union":
				if g.r.Float64() < p {
					x.Fs[i] = &Val{K: 'z'}
				} else {
					walk(f, 0)
				}
			case "objs":
				for _, e := range f.Fs {
					walk(e, op.Ty)
				}
			}
		}
	}
	walk(c, c.Ty)
	return c
}

func init() {
	suites["C17"] = func(o *Out, g *Gen, thorough bool) map[string]any {
		per := 12
		if thorough {
			per = 250
		}
		check := func(what string, v *Val, obj any) {
			var r EncResult
			if obj != nil {
				line := "enc - " + v.String()
				begin(line)
				r = goEncObj(obj, nil, g.mode())
				o.emit(line, r.Line(), fmt.Sprintf("enc17:%d:%s:%s", v.Ty, r.Class, what), true)
			} else {
				r = corrEnc(o, v, g.prefix(), g.mode())
			}
			o.stat(what + "-" + r.Class)
			if r.Class == "panic" {
				o.violate(Violation{Property: "C17", Kind: "direct", What: "Encode panicked (" + what + "): " + r.PanicMsg, Case: "enc - " + v.String(), Key: "panic:" + tname(v.Ty)})
			}
		}
		for _, t := range schema.Types {
			zero := typeCtors[t.ID]()
			// the model's notion of the zero value (what &T{} holds; what a `mat` guard fills in) vs the real one
			o.emit(fmt.Sprintf("zero %d", t.ID), "ok | "+readObj(zero).String(), fmt.Sprintf("zero:%d", t.ID), true)
			if typeNewFns[t.ID] != nil {
				if c := typeNewFns[t.ID](); readObj(c).String() != readObj(zero).String() {
					o.stat("ctor-differs-from-zero") // not a violation of any property: only recorded
				}
			}
			check("zero", readObj(zero), zero)
			if typeNewFns[t.ID] != nil {
				c := typeNewFns[t.ID]()
				check("ctor", readObj(c), c)
			}
			for i := 0; i < per; i++ {
				v := g.msg(t.ID, false, 0)
				check("random", v, nil)
				check("nils", g.withNils(v, 0.5), nil)
				// multi-byte text in every text field
				mb := v.clone()
				for k, op := range t.fieldOps() {
					if op.K == "fixed" && op.N > 0 {
						mb.Fs[k] = &Val{K: 's', S: g.runes(1 + g.r.Intn(op.N))}
					}
				}
				check("multibyte", mb, nil)
			}
		}
		// frames with every body type, absent bodies, and bodies of more than 65,535 bytes
		for _, t := range frameTypes() {
			for _, v := range frameValues(g, t, 1, true) {
				check("frame", v, nil)
			}
		}
		// absent body / extension with every registered and some unregistered discriminators
		for _, k := range keyedTypes() {
			v := g.msgWithKey(k.Ty, k.E, false)
			for i, op := range schema.Types[k.Ty].fieldOps() {
				if op.K == "union" {
					v.Fs[i] = &Val{K: 'z'}
				}
			}
			check("absent-registered", v, nil)
		}
		for _, t := range schema.Types {
			for i, op := range t.fieldOps() {
				if op.K == "union" {
					all := nearMissKeys(g, schema.Tables[op.Tbl])
					pick := append([]*Val{}, all[:min(4, len(all))]...)
					if len(all) > 14 {
						pick = append(pick, all[len(all)-14:]...) // the special ones: sign characters, blanks, NULs, …
					}
					for _, kv := range pick {
						v := g.msg(t.ID, false, 0)
						kop := t.fieldOps()[op.Key]
						if kop.K == "scalar" {
							kv.N &= maxOf(kop.W)
						}
						v.Fs[op.Key] = kv
						v.Fs[i] = &Val{K: 'z'}
						check("absent-unregistered", v, nil)
					}
				}
			}
		}
		return nil
	}
}

// ---- C18: over-long values are refused ----
func init() {
	suites["C18"] = func(o *Out, g *Gen, thorough bool) map[string]any {
		lens := func(w int) []int {
			m := 1<<(8*uint(w)) - 1
			return []int{m - 1, m, m + 1, m + 2, 2*m + 1, 2*m + 2, m + 4}
		}
		check := func(op Op, kind string, v *Val, n, limit int) {
			w := corrWop(o, op, kind, false, v, g.prefix(), g.mode())
			c := fmt.Sprintf("wop %s (length %d, kind %s)", opTokens(op), n, kind)
			if n > limit && w.Class != "err" {
				o.violate(Violation{Property: "C18", Kind: "direct", What: fmt.Sprintf("a value of length %d behind a prefix that holds at most %d was not refused (%s)", n, limit, w.Class),
					Case: c, Key: "wrap:" + op.K + ":" + kind})
			}
			if n <= limit {
				if w.Class != "ok" {
					o.violate(Violation{Property: "C18", Kind: "direct", What: fmt.Sprintf("a value of length %d within the prefix limit %d was refused", n, limit), Case: c, Key: "refuse:" + op.K})
					return
				}
				r := corrRop(o, op, kind, false, w.Appended, g.mode())
				if r.Class != "ok" || r.Consumed != len(w.Appended) || listLenOrStr(r.Val) != n {
					o.violate(Violation{Property: "C18", Kind: "direct", What: fmt.Sprintf("a value of length %d at/below the prefix limit did not round-trip", n), Case: c, Key: "rt:" + op.K})
				}
			}
		}
		for _, pw := range []int{1, 2} {
			if pw == 2 && !thorough && false {
				continue
			}
			limit := 1<<(8*uint(pw)) - 1
			for _, n := range lens(pw) {
				for _, e := range []string{"be", "le"} {
					check(Op{K: "vstr", PW: pw, E: e}, "", &Val{K: 's', S: g.bytes(n, ' ')}, n, limit)
					// counts
					for _, kind := range []string{"u8", "u32", "NamedU8", "i16"} {
						l := &Val{K: 'N'}
						for i := 0; i < n; i++ {
							l.Ns = append(l.Ns, g.scalar(kindWidth(kind)))
						}
						check(Op{K: "nums", CW: pw, W: kindWidth(kind), E: e}, kind, l, n, limit)
					}
					ls := &Val{K: 'S'}
					for i := 0; i < n; i++ {
						ls.Ss = append(ls.Ss, g.canonFixed(2, ' ', false))
					}
					check(Op{K: "fixeds", CW: pw, N: 2, Pad: ' ', E: e}, "", ls, n, limit)
					lv := &Val{K: 'S'}
					for i := 0; i < n; i++ {
						lv.Ss = append(lv.Ss, g.bytes(g.r.Intn(3), ' '))
					}
					check(Op{K: "vstrs", CW: pw, PW: 1, E: e}, "", lv, n, limit)
				}
				// an over-long element inside a string list (count fine, element too long)
				le := &Val{K: 'S', Ss: [][]byte{[]byte("ok"), g.bytes(n, ' '), []byte("x")}}
				w := corrWop(o, Op{K: "vstrs", CW: 2, PW: pw, E: "be"}, "", false, le, nil, BufMode{})
				if n > limit && w.Class != "err" {
					o.violate(Violation{Property: "C18", Kind: "direct", What: "an over-long element of a string list was not refused", Case: fmt.Sprintf("vstrs element length %d", n), Key: "wrap:elem"})
				}
			}
		}
		// an over-limit list INSIDE an element of a repeating group (the element's refusal must reach the caller)
		for _, t := range schema.Types {
			for i, op := range t.fieldOps() {
				if op.K != "objs" {
					continue
				}
				et := schema.Types[op.Ty]
				for j, eop := range et.fieldOps() {
					if eop.K != "nums" || eop.CW > 2 {
						continue
					}
					limit := 1<<(8*uint(eop.CW)) - 1
					v := g.msg(t.ID, true, 0)
					good := g.msg(op.Ty, true, 1)
					bad := g.msg(op.Ty, true, 1)
					l := &Val{K: 'N'}
					for k := 0; k <= limit; k++ {
						l.Ns = append(l.Ns, uint64(k)&maxOf(eop.W))
					}
					bad.Fs[j] = l
					v.Fs[i] = &Val{K: 'M', Fs: []*Val{good, bad, good}}
					r := corrEnc(o, v, nil, g.mode())
					if r.Class != "err" {
						o.violate(Violation{Property: "C18", Kind: "direct", What: fmt.Sprintf("%s: an element of %s holding %d entries behind a %d-byte count encoded without error (%s)", t.QName(), t.Fields[i].Name, limit+1, eop.CW, r.Class),
							Case: fmt.Sprintf("%s.%s[1].%s length %d", t.QName(), t.Fields[i].Name, et.Fields[j].Name, limit+1), Key: "nestedwrap:" + t.QName()})
					}
				}
			}
		}
		// message level: every message type with a prefixed field, at and beyond the limit
		for _, t := range schema.Types {
			for i, op := range t.fieldOps() {
				var w int
				switch op.K {
				case "vstr":
					w = op.PW
				case "nums", "fixeds", "vstrs", "objs":
					w = op.CW
				default:
					continue
				}
				if w > 2 {
					continue // 4 GiB values are out of reach: covered by the theorems only
				}
				limit := 1<<(8*uint(w)) - 1
				for _, n := range []int{limit, limit + 1} {
					if op.K == "objs" && !thorough && n > 300 {
						// the model's nested encodes are quadratic; beyond-limit is still checked on the implementation
					}
					save := g.maxList
					g.maxList = 1
					v := g.msg(t.ID, true, 0)
					switch op.K {
					case "vstr":
						v.Fs[i] = &Val{K: 's', S: g.bytes(n, ' ')}
					case "nums":
						l := &Val{K: 'N'}
						for k := 0; k < n; k++ {
							l.Ns = append(l.Ns, g.scalar(op.W))
						}
						v.Fs[i] = l
					case "fixeds":
						l := &Val{K: 'S'}
						for k := 0; k < n; k++ {
							l.Ss = append(l.Ss, g.canonFixed(op.N, byte(op.Pad), op.Left))
						}
						v.Fs[i] = l
					case "vstrs":
						l := &Val{K: 'S'}
						for k := 0; k < n; k++ {
							l.Ss = append(l.Ss, nil)
						}
						v.Fs[i] = l
					case "objs":
						l := &Val{K: 'M'}
						e := g.msg(op.Ty, true, 1)
						for k := 0; k < n; k++ {
							l.Fs = append(l.Fs, e)
						}
						v.Fs[i] = l
					}
					g.maxList = save
					var r EncResult
					if op.K == "objs" && n > 300 {
						begin("enc big objs")
						r = goEnc(v, nil, BufMode{}) // implementation only
						o.stat("objs-impl-only")
					} else {
						r = corrEnc(o, v, nil, g.mode())
					}
					if n > limit && r.Class != "err" {
						o.violate(Violation{Property: "C18", Kind: "direct", What: fmt.Sprintf("%s.%s with %d entries/bytes behind a %d-byte prefix encoded without error (%s)", t.QName(), t.Fields[i].Name, n, w, r.Class),
							Case: fmt.Sprintf("%s field %s length %d", t.QName(), t.Fields[i].Name, n), Key: "msgwrap:" + t.QName() + "." + t.Fields[i].Name})
					}
					if n == limit {
						if r.Class != "ok" {
							o.violate(Violation{Property: "C18", Kind: "direct", What: fmt.Sprintf("%s.%s at the prefix limit was refused", t.QName(), t.Fields[i].Name),
								Case: fmt.Sprintf("%s field %s length %d", t.QName(), t.Fields[i].Name, n), Key: "msgrefuse:" + t.QName()})
						} else {
							d := goDec(t.ID, r.Appended, BufMode{})
							if d.Class != "ok" || !valEq(d.Val, r.Val) {
								o.violate(Violation{Property: "C18", Kind: "direct", What: fmt.Sprintf("%s.%s at the prefix limit did not round-trip", t.QName(), t.Fields[i].Name),
									Case: fmt.Sprintf("%s field %s length %d", t.QName(), t.Fields[i].Name, n), Key: "msgrt:" + t.QName()})
							}
						}
					}
				}
			}
		}
		return nil
	}
}

func listLenOrStr(v *Val) int {
	if v == nil {
		return -1
	}
	if v.K == 's' {
		return len(v.S)
	}
	return listLen(v)
}
