package main

import (
	"bytes"
	"fmt"
	"reflect"
	"strings"
)

func frameTypes() []*Type {
	var fs []*Type
	for _, t := range schema.Types {
		if t.Frame != nil {
			fs = append(fs, t)
		}
	}
	return fs
}

func hasVstr(t *Type) bool {
	for _, op := range t.fieldOps() {
		if op.K == "vstr" && op.PW >= 2 {
			return true
		}
	}
	return false
}

func hdrSize(f *Frame) int {
	n := 0
	for _, o := range f.Hdr {
		n += o.W
	}
	return n
}

// frame values: every body type of the frame's table, stale caller-supplied length / checksum, absent bodies,
// and bodies long enough to make the output buffer reallocate while the body is written
func frameValues(g *Gen, t *Type, per int, big bool) []*Val {
	var vs []*Val
	tb := schema.Tables[t.Frame.Tbl]
	nh := len(t.Frame.Hdr)
	for _, e := range tb.Entries {
		for i := 0; i < per; i++ {
			v := g.msgWithKey(t.ID, e, i%3 != 2)
			vs = append(vs, v)
		}
		// absent body
		v := g.msgWithKey(t.ID, e, true)
		v.Fs[nh+1] = &Val{K: 'z'}
		vs = append(vs, v)
	}
	// unregistered discriminator with absent body
	v := g.msg(t.ID, true, 0)
	v.Fs[t.Frame.Key] = &Val{K: 'n', N: 64999}
	v.Fs[nh+1] = &Val{K: 'z'}
	vs = append(vs, v)
	if big {
		save := g.maxList
		for _, e := range tb.Entries {
			bt := schema.Types[e.Ty]
			hasList := false
			for _, op := range bt.fieldOps() {
				if op.K == "objs" || op.K == "nums" || op.K == "vstrs" || op.K == "fixeds" || op.K == "vstr" {
					hasList = true
				}
			}
			if !hasList {
				continue
			}
			for _, n := range []int{30, 120, 300, 14000} {
				if n > 300 && !hasVstr(bt) {
					continue // only a long text makes a body of more than 65,535 bytes cheaply
				}
				g.maxList = n
				v := g.msgWithKey(t.ID, e, true)
				body := v.Fs[nh+1]
				for i, op := range bt.fieldOps() {
					switch op.K {
					case "objs":
						l := &Val{K: 'M'}
						g.maxList = 2
						for k := 0; k < n; k++ {
							l.Fs = append(l.Fs, g.msg(op.Ty, true, 1))
						}
						body.Fs[i] = l
					case "nums":
						l := &Val{K: 'N'}
						for k := 0; k < n; k++ {
							l.Ns = append(l.Ns, g.scalar(op.W))
						}
						body.Fs[i] = l
					case "vstr":
						l := n * 5
						if op.PW < 4 && l > 32000 {
							l = 32000 // several 16-bit-prefixed texts together still exceed 65,535 bytes
						}
						body.Fs[i] = &Val{K: 's', S: g.bytes(l, ' ')}
					}
				}
				vs = append(vs, v)
			}
		}
		g.maxList = save
	}
	return vs
}

// ---- C04 / C05 / C06: frames; append-only, context-free, repeatable encoding ----

func checkFrameLen(o *Out, t *Type, v *Val, r EncResult, pid string) {
	f := t.Frame
	H := hdrSize(f)
	A := r.Appended
	if len(A) < H+4+f.CksW {
		o.violate(Violation{Property: pid, Kind: "direct", What: "frame shorter than its fixed parts", Case: "enc - " + v.String(), Key: "short:" + t.QName()})
		return
	}
	bodyLen := len(A) - H - 4 - f.CksW
	wire := int(getUint(A[H:H+4], f.E))
	obj := int(r.Val.Fs[len(f.Hdr)].N)
	if wire != bodyLen || obj != bodyLen {
		o.violate(Violation{Property: pid, Kind: "direct", What: "body-length field differs from the number of body bytes emitted",
			Case: "enc - " + v.String(), Expected: fmt.Sprint(bodyLen), Observed: fmt.Sprintf("wire=%d object=%d", wire, obj), Key: "len:" + t.QName()})
	}
	// independent body bytes: the body encoded alone into a fresh buffer
	body := v.Fs[len(f.Hdr)+1]
	if body.K == 'm' {
		rb := goEnc(body, nil, BufMode{})
		if rb.Class == "ok" && !bytes.Equal(rb.Appended, A[H+4:len(A)-f.CksW]) {
			o.violate(Violation{Property: pid, Kind: "direct", What: "frame body bytes differ from the body encoded alone",
				Case: "enc - " + v.String(), Key: "body:" + t.QName()})
		}
	}
}

func checkFrameCks(o *Out, t *Type, v *Val, r EncResult) {
	f := t.Frame
	if f.Cks == "" {
		return
	}
	A := r.Appended
	if len(A) < 4 {
		return
	}
	want := refAlg(f.Cks, A[:len(A)-4])
	wire := getUint(A[len(A)-4:], f.E)
	obj := r.Val.Fs[len(f.Hdr)+2].N
	if wire != want || obj != want {
		o.violate(Violation{Property: "C05", Kind: "direct", What: "frame checksum is not the " + f.Cks + " of exactly this frame's bytes",
			Case: "enc - " + v.String(), Expected: fmt.Sprint(want), Observed: fmt.Sprintf("wire=%d object=%d", wire, obj), Key: "cks:" + t.QName()})
	}
}

// a prior buffer state holding earlier frames
func (g *Gen) earlierFrames(t *Type) []byte {
	var pre []byte
	for i := 0; i < 1+g.r.Intn(2); i++ {
		r := goEnc(g.msg(t.ID, true, 0), nil, BufMode{})
		if r.Class == "ok" {
			pre = append(pre, r.Appended...)
		}
	}
	return pre
}

func frameSuite(pid string) func(o *Out, g *Gen, thorough bool) map[string]any {
	return func(o *Out, g *Gen, thorough bool) map[string]any {
		per := 4
		if thorough {
			per = 40
		}
		for _, t := range frameTypes() {
			if pid == "C05" && t.Frame.Cks == "" {
				continue
			}
			for _, v := range frameValues(g, t, per, true) {
				var pre []byte
				switch g.r.Intn(3) {
				case 0:
					pre = g.earlierFrames(t)
				case 1:
					pre = g.prefix()
				}
				m := g.mode()
				if g.r.Intn(2) == 0 {
					m = BufMode{Consumed: g.r.Intn(9)} // no spare capacity: the buffer must grow while the body is written
				}
				r := corrEnc(o, v, pre, m)
				if r.Class != "ok" {
					continue
				}
				if r.PreChanged {
					o.violate(Violation{Property: "C06", Kind: "direct", What: "bytes already in the buffer were altered", Case: "enc " + hexOf(pre) + " " + v.String(), Key: "pre:" + t.QName()})
					continue
				}
				checkFrameLen(o, t, v, r, pid)
				checkFrameCks(o, t, v, r)
				// re-encode after a change that keeps the body size (stale but plausible length / checksum left by the previous encode)
				v2 := r.Val.clone()
				v2.Fs[0].N ^= 0 // header kept; mutate one scalar inside the body if there is one
				if b := v2.Fs[len(t.Frame.Hdr)+1]; b.K == 'm' {
					for _, fld := range b.Fs {
						if fld.K == 'n' {
							fld.N ^= 1
							break
						}
					}
				}
				r2 := corrEnc(o, v2, g.prefix(), g.mode())
				if r2.Class == "ok" {
					checkFrameLen(o, t, v2, r2, pid)
					checkFrameCks(o, t, v2, r2)
				}
			}
		}
		return nil
	}
}

func init() {
	suites["C04"] = frameSuite("C04")
	suites["C05"] = frameSuite("C05")
	suites["C06"] = func(o *Out, g *Gen, thorough bool) map[string]any {
		per := 16
		if thorough {
			per = 300
		}
		var all []*Val
		for _, t := range schema.Types {
			for i := 0; i < per; i++ {
				all = append(all, g.msg(t.ID, i%2 == 0, 0))
			}
		}
		for _, t := range frameTypes() {
			all = append(all, frameValues(g, t, 1, true)...)
		}
		// shuffle so that messages with different pad bytes / algorithms follow each other in one process
		g.r.Shuffle(len(all), func(i, j int) { all[i], all[j] = all[j], all[i] })
		var seqBuf []byte
		var seqWant []byte
		// values whose encode FAILS part-way (absent extension under an unregistered key, a list one longer than its count
		// prefix allows): a failed encode must leave nothing behind that a later encode can pick up
		var failing []*Val
		for _, t := range schema.Types {
			for i, op := range t.fieldOps() {
				switch {
				case op.K == "union" && len(failing) < 40:
					v := g.msg(t.ID, true, 0)
					kop := t.fieldOps()[op.Key]
					if kop.K == "fixed" {
						v.Fs[op.Key] = &Val{K: 's', S: []byte("~~~")[:min(3, kop.N)]}
					} else {
						v.Fs[op.Key] = &Val{K: 'n', N: 64999 & maxOf(kop.W)}
					}
					v.Fs[i] = &Val{K: 'z'}
					failing = append(failing, v)
				case op.K == "nums" && op.CW == 2 && len(failing) < 60:
					v := g.msg(t.ID, true, 0)
					l := &Val{K: 'N'}
					for k := 0; k < 65536; k++ {
						l.Ns = append(l.Ns, uint64(k)&maxOf(op.W))
					}
					v.Fs[i] = l
					failing = append(failing, v)
				}
			}
		}
		// frames holding such bodies
		for _, t := range frameTypes() {
			tb := schema.Tables[t.Frame.Tbl]
			for _, fv := range failing {
				for _, e := range tb.Entries {
					if e.Ty == fv.Ty {
						v := g.msgWithKey(t.ID, e, true)
						v.Fs[len(t.Frame.Hdr)+1] = fv
						failing = append(failing, v)
					}
				}
				if len(failing) > 120 {
					break
				}
			}
		}
		for n, v := range all {
			if n%5 == 0 && len(failing) > 0 {
				fv := failing[(n/5)%len(failing)]
				begin("failing encode")
				goEnc(fv, g.prefix(), g.mode()) // implementation only: the outcome is C17/C18's subject
				o.stat("failing-encode-interleaved")
			}
			t := schema.Types[v.Ty]
			fresh := goEnc(v, nil, BufMode{})
			pre := g.prefix()
			if g.r.Intn(3) == 0 && t.Frame != nil {
				pre = g.earlierFrames(t)
			}
			r := corrEnc(o, v, pre, g.mode())
			if r.Class != fresh.Class {
				o.violate(Violation{Property: "C06", Kind: "direct", What: "outcome depends on the buffer's prior content", Case: "enc " + hexOf(pre) + " " + v.String(), Expected: fresh.Class, Observed: r.Class, Key: "class:" + t.QName()})
				continue
			}
			if r.Class != "ok" {
				continue
			}
			if r.PreChanged {
				o.violate(Violation{Property: "C06", Kind: "direct", What: "bytes already in the buffer were altered", Case: "enc " + hexOf(pre) + " " + v.String(), Key: "pre:" + t.QName()})
				continue
			}
			if !bytes.Equal(r.Appended, fresh.Appended) {
				o.violate(Violation{Property: "C06", Kind: "direct", What: "appended bytes differ from the encoding into an empty buffer", Case: "enc " + hexOf(pre) + " " + v.String(),
					Expected: hexOf(fresh.Appended), Observed: hexOf(r.Appended), Key: "ctx:" + t.QName()})
			}
			// encode the same (updated) message again
			r2 := corrEnc(o, r.Val, g.prefix(), g.mode())
			if r2.Class != "ok" || !bytes.Equal(r2.Appended, r.Appended) || !valEq(r2.Val, r.Val) {
				o.violate(Violation{Property: "C06", Kind: "direct", What: "encoding the same message again gives different bytes", Case: "enc - " + r.Val.String(),
					Expected: hexOf(r.Appended), Observed: r2.Class + " " + hexOf(r2.Appended), Key: "idem:" + t.QName()})
			}
			// same Go object encoded twice into one buffer
			obj := newObj(v)
			b := mkBuffer(nil, BufMode{})
			c1, _ := guard(func() error { return callEncode(obj, b) })
			n1 := b.Len()
			c2, _ := guard(func() error { return callEncode(obj, b) })
			if c1 == "ok" && c2 == "ok" {
				if !bytes.Equal(b.Bytes()[:n1], fresh.Appended) || !bytes.Equal(b.Bytes()[n1:], fresh.Appended) {
					o.violate(Violation{Property: "C06", Kind: "direct", What: "two encodes of one object into one buffer are not two copies of its encoding", Case: "enc - " + v.String(), Key: "twice:" + t.QName()})
				}
			}
			// running concatenation
			if len(seqBuf) < 1<<20 {
				seqBuf = append(seqBuf, r.Appended...)
				seqWant = append(seqWant, fresh.Appended...)
			}
		}
		// an extension the encoder filled in belongs to THAT message: changing it must not change what the next message
		// with an absent extension encodes
		for _, t := range schema.Types {
			for i, op := range t.fieldOps() {
				if op.K != "union" || t.Frame != nil || i >= len(t.Enc) || t.Enc[i].G != "mat" {
					continue
				}
				for n, e := range schema.Tables[op.Tbl].Entries {
					if n > 6 {
						break
					}
					v := g.msgWithKey(t.ID, e, true)
					v.Fs[i] = &Val{K: 'z'}
					want := goEnc(v, nil, BufMode{})
					obj1 := newObj(v)
					guard(func() error { return callEncode(obj1, &bytes.Buffer{}) })
					mutateObj(reflect.ValueOf(obj1)) // the caller edits the extension it was given
					got := goEnc(v, nil, BufMode{})
					if want.Class == "ok" && (got.Class != "ok" || !bytes.Equal(got.Appended, want.Appended)) {
						o.violate(Violation{Property: "C06", Kind: "direct", What: "encoding a message with an absent extension depends on what an earlier caller did to the extension it was given",
							Case: "enc - " + v.String(), Expected: hexOf(want.Appended), Observed: got.Class + " " + hexOf(got.Appended), Key: "shared-ext:" + t.QName()})
						break
					}
				}
			}
		}
		// a sequence of mixed messages into ONE real buffer
		buf := mkBuffer(nil, BufMode{})
		var want []byte
		for i, v := range all {
			if i > 400 {
				break
			}
			fresh := goEnc(v, nil, BufMode{})
			if fresh.Class != "ok" {
				continue
			}
			obj := newObj(v)
			if c, _ := guard(func() error { return callEncode(obj, buf) }); c != "ok" {
				break
			}
			want = append(want, fresh.Appended...)
			if i%37 == 0 && buf.Len() > 10 { // consume part of the buffer between encodes
				k := g.r.Intn(buf.Len())
				buf.Next(k)
				want = want[k:]
			}
		}
		if !bytes.Equal(buf.Bytes(), want) {
			o.violate(Violation{Property: "C06", Kind: "direct", What: "a sequence of messages encoded into one buffer is not the concatenation of their encodings",
				Case: "sequence of the first 400 generated messages (seeded)", Key: "concat"})
		}
		return nil
	}
}

// ---- C07: decoding consumes exactly one message; streams ----
func init() {
	suites["C07"] = func(o *Out, g *Gen, thorough bool) map[string]any {
		per := 16
		if thorough {
			per = 300
		}
		vals := canonValues(g, per)
		vals = append(vals, bigListValues(g, thorough)...)
		var stream []byte
		var streamVals []*Val
		var streamSrc []*Val
		for _, v := range vals {
			r := goEnc(v, nil, BufMode{})
			if r.Class != "ok" {
				continue
			}
			for _, tail := range [][]byte{nil, g.bytes(1+g.r.Intn(15), ' '), g.bytes(16+g.r.Intn(64), ' ')} {
				data := append(append([]byte{}, r.Appended...), tail...)
				d := corrDec(o, v.Ty, data, g.mode())
				if d.Class != "ok" || d.Consumed != len(r.Appended) || d.RestChanged || !valEq(d.Val, r.Val) {
					o.violate(Violation{Property: "C07", Kind: "direct", What: "decode did not consume exactly the message's bytes / altered the rest",
						Case: fmt.Sprintf("dec %d %s", v.Ty, hexOf(data)), Expected: fmt.Sprintf("ok | %d | …", len(r.Appended)), Observed: trunc(d.Line(), 300), Key: "consume:" + tname(v.Ty)})
					break
				}
			}
			if len(stream) < 1<<19 && len(r.Appended) < 1<<14 {
				stream = append(stream, r.Appended...)
				streamVals = append(streamVals, r.Val)
				streamSrc = append(streamSrc, v)
			}
		}
		// n back-to-back messages of mixed types recovered by n successive decodes from ONE buffer
		buf := mkBuffer(stream, BufMode{Consumed: 5, Spare: 100, Stale: true})
		okAll := true
		reused := map[int]any{}
		for i, want := range streamVals {
			obj := typeCtors[want.Ty]()
			if i%2 == 1 { // every other message goes into ONE long-lived receiver per type (a read loop reusing its object)
				if reused[want.Ty] == nil {
					reused[want.Ty] = typeCtors[want.Ty]()
				}
				obj = reused[want.Ty]
			}
			c, _ := guard(func() error { return obj.(decoder).Decode(buf) })
			if c != "ok" || !valEq(readObj(obj), want) {
				o.violate(Violation{Property: "C07", Kind: "direct", What: fmt.Sprintf("stream of %d messages: message %d not recovered", len(streamVals), i),
					Case: "stream (seeded)", Key: "stream"})
				okAll = false
				break
			}
		}
		if okAll && buf.Len() != 0 {
			o.violate(Violation{Property: "C07", Kind: "direct", What: "stream not fully consumed", Case: "stream (seeded)", Key: "stream-left"})
		}
		// the same messages ENCODED one after another into one buffer by the library itself (frames back-patch their length
		// and checksum inside a buffer that already holds earlier frames), then recovered by n successive decodes
		for start := 0; start < len(streamSrc); start += 40 {
			endIx := min(start+40, len(streamSrc))
			wbuf := new(bytes.Buffer)
			var desc []string
			good := true
			for _, v := range streamSrc[start:endIx] {
				obj := newObj(v)
				c, _ := guard(func() error { return callEncode(obj, wbuf) })
				if c != "ok" {
					good = false
					break
				}
				desc = append(desc, "enc - "+trunc(v.String(), 200))
			}
			if !good {
				continue
			}
			rbuf := bytes.NewBuffer(append([]byte{}, wbuf.Bytes()...))
			for i, want := range streamVals[start:endIx] {
				obj := typeCtors[want.Ty]()
				c, _ := guard(func() error { return obj.(decoder).Decode(rbuf) })
				if c != "ok" || !valEq(readObj(obj), want) {
					o.violate(Violation{Property: "C07", Kind: "direct", What: fmt.Sprintf("%d messages encoded one after another into one buffer: message %d is not recovered by the %d-th decode", endIx-start, i, i+1),
						Case: strings.Join(desc[:i+1], " ; "), Expected: trunc(want.String(), 300), Observed: c + " " + trunc(readObj(obj).String(), 300), Key: "encoded-stream:" + tname(want.Ty)})
					good = false
					break
				}
			}
			if good && rbuf.Len() != 0 {
				o.violate(Violation{Property: "C07", Kind: "direct", What: "messages encoded one after another into one buffer: bytes left after the last decode", Case: strings.Join(desc, " ; "), Key: "encoded-stream-left"})
			}
			o.stat("encoded-stream")
			if !good {
				break
			}
		}
		return map[string]any{"stream_messages": len(streamVals), "stream_bytes": len(stream)}
	}
}

func trunc(s string, n int) string {
	if len(s) > n {
		return s[:n] + "…"
	}
	return s
}
