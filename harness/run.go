package main

import (
	"bytes"
	"fmt"
	"runtime"
)

type encoder interface{ Encode(*bytes.Buffer) error }
type encoderNoErr interface{ Encode(*bytes.Buffer) }
type decoder interface{ Decode(*bytes.Buffer) error }

// BufMode: the history of the Go buffer that the model must not be able to see: bytes already consumed,
// spare capacity, and whether the spare capacity holds stale data.
type BufMode struct {
	Consumed int
	Spare    int
	Stale    bool
}

func (m BufMode) String() string { return fmt.Sprintf("consumed=%d spare=%d stale=%v", m.Consumed, m.Spare, m.Stale) }

func mkBuffer(unread []byte, m BufMode) *bytes.Buffer {
	total := m.Consumed + len(unread) + m.Spare
	backing := make([]byte, total)
	for i := range backing {
		if m.Stale {
			backing[i] = byte(0x41 + i%23) // looks like text
		}
	}
	for i := 0; i < m.Consumed; i++ {
		backing[i] = byte(0xC0 + i%7)
	}
	copy(backing[m.Consumed:], unread)
	buf := bytes.NewBuffer(backing[:m.Consumed+len(unread)])
	if m.Consumed > 0 {
		buf.Next(m.Consumed)
	}
	return buf
}

type EncResult struct {
	Class      string // ok err panic
	Appended   []byte
	Val        *Val
	PreChanged bool
	PanicMsg   string
}

func (r EncResult) Line() string {
	switch r.Class {
	case "ok":
		p := ""
		if r.PreChanged {
			p = "PRE-CHANGED "
		}
		return "ok | " + p + hexOf(r.Appended) + " | " + r.Val.String()
	}
	return r.Class
}

func callEncode(obj any, buf *bytes.Buffer) (err error) {
	switch e := obj.(type) {
	case encoder:
		return e.Encode(buf)
	case encoderNoErr:
		e.Encode(buf)
		return nil
	}
	panic("no Encode method")
}

// goEncObj encodes an existing object into a buffer holding `pre` (with history m)
func goEncObj(obj any, pre []byte, m BufMode) (res EncResult) {
	buf := mkBuffer(pre, m)
	defer end()
	defer func() {
		if r := recover(); r != nil {
			res = EncResult{Class: "panic", PanicMsg: fmt.Sprint(r)}
		}
	}()
	err := callEncode(obj, buf)
	if err != nil {
		return EncResult{Class: "err", Val: readObj(obj)}
	}
	out := buf.Bytes()
	res.Class = "ok"
	if len(out) < len(pre) || !bytes.Equal(out[:len(pre)], pre) {
		res.PreChanged = true
		if len(out) >= len(pre) {
			res.Appended = append([]byte{}, out[len(pre):]...)
		}
	} else {
		res.Appended = append([]byte{}, out[len(pre):]...)
	}
	res.Val = readObj(obj)
	return res
}

func goEnc(v *Val, pre []byte, m BufMode) EncResult { return goEncObj(newObj(v), pre, m) }

type DecResult struct {
	Class       string
	Consumed    int
	Val         *Val
	RestChanged bool
	Alloc       uint64
	PanicMsg    string
}

func (r DecResult) Line() string {
	if r.Class == "ok" {
		p := ""
		if r.RestChanged {
			p = "REST-CHANGED "
		}
		return fmt.Sprintf("ok | %s%d | %s", p, r.Consumed, r.Val.String())
	}
	return r.Class
}

// goDecInto decodes data (with buffer history m) into obj
func goDecInto(obj any, data []byte, m BufMode, measure bool) (res DecResult) {
	buf := mkBuffer(data, m)
	var m0, m1 runtime.MemStats
	defer end()
	defer func() {
		if r := recover(); r != nil {
			res = DecResult{Class: "panic", PanicMsg: fmt.Sprint(r)}
		}
	}()
	if measure {
		runtime.ReadMemStats(&m0)
	}
	err := obj.(decoder).Decode(buf)
	if measure {
		runtime.ReadMemStats(&m1)
		res.Alloc = m1.TotalAlloc - m0.TotalAlloc
	}
	if err != nil {
		res.Class = "err"
		return res
	}
	res.Class = "ok"
	res.Consumed = len(data) - buf.Len()
	if res.Consumed < 0 || res.Consumed > len(data) || !bytes.Equal(buf.Bytes(), data[res.Consumed:]) {
		res.RestChanged = true
	}
	res.Val = readObj(obj)
	return res
}

func goDec(ty int, data []byte, m BufMode) DecResult {
	return goDecInto(typeCtors[ty](), data, m, false)
}
