/-
  GoIR: a deep embedding of the subset of Go in which `codec/binary_codec.go` and the `Calc` bodies of
  `codec/checksum.go` are written, with an executable big-step semantics.

  `xlate` translates EVERY function body of those files statement by statement into this language
  (syntax-directed: no templates, no holes) and emits the result as `GenCodec.lean` on every run.
  The meaning of a construct is defined once, here, independently of any primitive; that the bodies
  so translated compute the primitive model (`Prim.lean`, `Checksum.lean`) that all property theorems
  are about is PROVED (`Props/GoIR*.lean`), and the executable semantics is run against the real Go
  functions on every run (driver commands `irw` / `irr` / `irc`).

  What is modelled: integers with explicit wrapping conversions, byte strings (`string` and `[]byte`
  are both immutable byte sequences here), slices of numbers / strings / objects, `error` as nil / non-nil,
  the unread region of THE `*bytes.Buffer` argument, local variables (numbered slots), `if`, three-clause and
  condition-only `for`, `for range`, `return`, calls to other functions of the package, and the
  standard-library calls the package makes (`binary.Write/Read`, `io.ReadFull`, `buf.Read/Write/WriteString/
  Len/Bytes`, `bytes.Repeat`, `make`, `append`, `len`, `min`, `crc32.ChecksumIEEE`), each with its documented
  behaviour on short input.  A Go panic (index / slice out of range, negative `make`) is the outcome `panic`.
  Core Lean only (the driver links this file).
-/
import FinProto.Outcome
import FinProto.Checksum
namespace FinProto.GoIR

/-! ### types and values -/

/-- integer types: unsigned / signed of `w` bytes; `big` = arithmetic on `int` values that are lengths
    (never near 2^63: not wrapped) -/
inductive Ty | u (w : Nat) | s (w : Nat) | big
  deriving DecidableEq, Repr, Inhabited

/-- a type written in the source: concrete, or the i-th type parameter of the function -/
inductive TyRef | ty (t : Ty) | param (i : Nat)
  deriving DecidableEq, Repr, Inhabited

/-- Go's integer conversion `T(x)`: keep the low bits, reinterpret -/
def Ty.wrap : Ty → Int → Int
  | .u w, n => n % ((256 ^ w : Nat) : Int)
  | .s w, n =>
    let m : Int := ((256 ^ w : Nat) : Int)
    let r := n % m
    if 2 * r < m then r else r - m
  | .big, n => n

def Ty.width : Ty → Nat
  | .u w => w
  | .s w => w
  | .big => 8

inductive V (O : Type)
  | int (n : Int)
  | bool (b : Bool)
  | bytes (bs : Bytes)
  | ints (l : List Int)
  | strs (l : List Bytes)
  | objs (l : List O)
  | obj (o : O)
  | err (nonNil : Bool)
  | order (e : Endian)
  | unit
  deriving Repr, Inhabited

inductive AOp | add | sub | mul | mod | band | bxor | bor | shr | shl | div
  deriving DecidableEq, Repr
inductive COp | lt | le | gt | ge | eq | ne
  deriving DecidableEq, Repr
inductive ListKind | ints | strs | objs
  deriving DecidableEq, Repr

inductive Expr
  | var (i : Nat)
  | int (n : Int)
  | bool (b : Bool)
  | nilErr                              -- nil, as an error
  | newErr                              -- errors.New(…) / fmt.Errorf(…) / io.ErrUnexpectedEOF: a non-nil error
  | nil                                 -- nil, as a slice or any other non-error result
  | emptyStr                            -- ""
  | order (e : Endian)                  -- binary.BigEndian / binary.LittleEndian
  | len (a : Expr)
  | bufLen                              -- buf.Len()
  | bufBytes                            -- buf.Bytes(): the unread region
  | conv (t : TyRef) (a : Expr)         -- T(a)
  | maxOf (t : TyRef)                   -- ^T(0)
  | arith (op : AOp) (t : TyRef) (a b : Expr)   -- a op b at type t (wrapping)
  | cmp (op : COp) (a b : Expr)
  | and (a b : Expr)                    -- a && b (b not evaluated when a is false)
  | or (a b : Expr)
  | not (a : Expr)
  | min (a b : Expr)
  | index (a i : Expr)                  -- a[i], a a byte string
  | sliceFrom (a lo : Expr)             -- a[lo:]
  | sliceTo (a hi : Expr)               -- a[:hi]
  | toStr (a : Expr)                    -- string(a): a copy
  | toBytes (a : Expr)                  -- []byte(a): a copy
  | bytes1 (a : Expr)                   -- []byte{a}
  | repeat (a n : Expr)                 -- bytes.Repeat(a, n)
  | crc32 (a : Expr)                    -- crc32.ChecksumIEEE(a)
  | elem (a i : Expr)                   -- a[i], a a slice of numbers / strings / objects
  deriving DecidableEq, Repr, Inhabited

inductive Stmt
  | skip
  | seq (a b : Stmt)
  | set (x : Nat) (e : Expr)                                   -- x = e / x := e / var x T (e = zero value)
  | makeBytes (x : Nat) (n : Expr)                             -- x := make([]byte, n)
  | makeList (x : Nat) (k : ListKind) (cap : Expr)             -- x := make([]K, 0, cap)
  | append (x : Nat) (e : Expr)                                -- x = append(x, e)
  | call (f : Nat) (targs : List TyRef) (args : List Expr) (dsts : List (Option Nat))
  | binWrite (ord : Expr) (t : TyRef) (e : Expr) (dst : Option Nat)   -- dst = binary.Write(buf, ord, e), e of type t
  | binRead (ord : Expr) (t : TyRef) (x : Nat) (dst : Option Nat)     -- dst = binary.Read(buf, ord, &x), x of type t
  | readFull (x : Nat) (n : Option Nat) (dst : Option Nat)     -- n, dst = io.ReadFull(buf, x)
  | bufRead (x : Nat) (n : Option Nat) (dst : Option Nat)      -- n, dst = buf.Read(x)
  | bufWrite (e : Expr) (n : Option Nat) (dst : Option Nat)    -- n, dst = buf.Write(e) / buf.WriteString(e)
  | objEncode (e : Expr) (dst : Option Nat)                    -- dst = e.Encode(buf)
  | objNew (x : Nat)                                           -- x := newFn()
  | objDecode (x : Nat) (dst : Option Nat)                     -- dst = x.Decode(buf)
  | ite (c : Expr) (t e : Stmt)
  | while (c : Expr) (post body : Stmt)                        -- for ; c; post { body }
  | range (x : Nat) (e : Expr) (body : Stmt)                   -- for _, x := range e { body }
  | ret (es : List Expr)
  | opaque                                                     -- a statement the translator does not know
  | setByte (x : Nat) (i e : Expr)                             -- x[i] = e, x a byte slice
  | panicS                                                     -- panic(…)
  deriving DecidableEq, Repr, Inhabited

structure Func where
  name : String
  nparams : Nat          -- value parameters after the buffer; they occupy slots 0 … nparams-1
  body : Stmt
  deriving DecidableEq, Repr, Inhabited

/-! ### states and results -/

structure St (O : Type) where
  buf : Bytes
  loc : Nat → V O

def St.set (s : St O) (x : Nat) (v : V O) : St O := { s with loc := fun j => if j = x then v else s.loc j }
def St.setOpt (s : St O) (x : Option Nat) (v : V O) : St O :=
  match x with
  | some x => s.set x v
  | none => s

@[simp] theorem St.set_buf (s : St O) (x : Nat) (v : V O) : (s.set x v).buf = s.buf := rfl
@[simp] theorem St.set_loc (s : St O) (x : Nat) (v : V O) (j : Nat) :
    (s.set x v).loc j = if j = x then v else s.loc j := rfl
@[simp] theorem St.setOpt_none (s : St O) (v : V O) : s.setOpt none v = s := rfl
@[simp] theorem St.setOpt_some (s : St O) (x : Nat) (v : V O) : s.setOpt (some x) v = s.set x v := rfl

inductive Res (O : Type)
  | norm (s : St O)
  | ret (vs : List (V O)) (s : St O)
  | panic
  | timeout

/-- result of a call: the returned values and the buffer afterwards -/
inductive CallRes (O : Type)
  | ret (vs : List (V O)) (buf : Bytes)
  | panic
  | timeout

/-- the methods of the objects a list primitive is instantiated at -/
structure Ext (O : Type) where
  enc : O → Bytes → Outcome Bytes       -- s.Encode(buf): the whole buffer afterwards
  new : O                               -- newFn()
  dec : O → R O                         -- k.Decode(buf) on the receiver k

/-! ### expressions -/

def resolve (targs : List Ty) : TyRef → Option Ty
  | .ty t => some t
  | .param i => targs[i]?

def aop : AOp → Int → Int → Option Int
  | .add, a, b => some (a + b)
  | .sub, a, b => some (a - b)
  | .mul, a, b => some (a * b)
  | .mod, a, b => if b = 0 then none else some (Int.tmod a b)
  | .band, a, b => if 0 ≤ a ∧ 0 ≤ b then some ((a.toNat &&& b.toNat : Nat) : Int) else none
  | .bxor, a, b => if 0 ≤ a ∧ 0 ≤ b then some ((a.toNat ^^^ b.toNat : Nat) : Int) else none
  | .bor, a, b => if 0 ≤ a ∧ 0 ≤ b then some ((a.toNat ||| b.toNat : Nat) : Int) else none
  | .shr, a, b => if 0 ≤ a ∧ 0 ≤ b then some ((a.toNat >>> b.toNat : Nat) : Int) else none
  | .shl, a, b => if 0 ≤ a ∧ 0 ≤ b then some ((a.toNat <<< b.toNat : Nat) : Int) else none
  | .div, a, b => if b = 0 then none else some (Int.tdiv a b)

def cop : COp → Int → Int → Bool
  | .lt, a, b => decide (a < b)
  | .le, a, b => decide (a ≤ b)
  | .gt, a, b => decide (a > b)
  | .ge, a, b => decide (a ≥ b)
  | .eq, a, b => decide (a = b)
  | .ne, a, b => decide (a ≠ b)

def lenV : V O → Option Int
  | .bytes bs => some bs.length
  | .ints l => some l.length
  | .strs l => some l.length
  | .objs l => some l.length
  | .unit => some 0                     -- len(nil)
  | _ => none

def evalE (targs : List Ty) (s : St O) : Expr → Option (V O)
  | .var i => some (s.loc i)
  | .int n => some (.int n)
  | .bool b => some (.bool b)
  | .nilErr => some (.err false)
  | .newErr => some (.err true)
  | .nil => some .unit
  | .emptyStr => some (.bytes [])
  | .order e => some (.order e)
  | .len a => (evalE targs s a).bind (fun v => (lenV v).map V.int)
  | .bufLen => some (.int s.buf.length)
  | .bufBytes => some (.bytes s.buf)
  | .conv t a =>
    match resolve targs t, evalE targs s a with
    | some t, some (.int n) => some (.int (t.wrap n))
    | _, _ => none
  | .maxOf t =>
    match resolve targs t with
    | some (.u w) => some (.int (((256 ^ w : Nat) : Int) - 1))
    | _ => none
  | .arith op t a b =>
    match resolve targs t, evalE targs s a, evalE targs s b with
    | some t, some (.int x), some (.int y) => (aop op x y).map (fun r => V.int (t.wrap r))
    | _, _, _ => none
  | .cmp op a b =>
    match evalE targs s a, evalE targs s b with
    | some (.int x), some (.int y) => some (.bool (cop op x y))
    | some (.err x), some (.err false) => (match op with | .ne => some (.bool x) | .eq => some (.bool !x) | _ => none)
    | _, _ => none
  | .and a b =>
    match evalE targs s a with
    | some (.bool false) => some (.bool false)
    | some (.bool true) => (match evalE targs s b with | some (.bool y) => some (.bool y) | _ => none)
    | _ => none
  | .or a b =>
    match evalE targs s a with
    | some (.bool true) => some (.bool true)
    | some (.bool false) => (match evalE targs s b with | some (.bool y) => some (.bool y) | _ => none)
    | _ => none
  | .not a =>
    match evalE targs s a with
    | some (.bool x) => some (.bool !x)
    | _ => none
  | .min a b =>
    match evalE targs s a, evalE targs s b with
    | some (.int x), some (.int y) => some (.int (if x ≤ y then x else y))
    | _, _ => none
  | .index a i =>
    match evalE targs s a, evalE targs s i with
    | some (.bytes bs), some (.int k) =>
      if 0 ≤ k then (bs[k.toNat]?).map (fun b => V.int b.toNat) else none
    | _, _ => none
  | .sliceFrom a lo =>
    match evalE targs s a, evalE targs s lo with
    | some (.bytes bs), some (.int k) => if 0 ≤ k ∧ k ≤ bs.length then some (.bytes (bs.drop k.toNat)) else none
    | _, _ => none
  | .sliceTo a hi =>
    match evalE targs s a, evalE targs s hi with
    | some (.bytes bs), some (.int k) => if 0 ≤ k ∧ k ≤ bs.length then some (.bytes (bs.take k.toNat)) else none
    | _, _ => none
  | .toStr a => (match evalE targs s a with | some (.bytes bs) => some (.bytes bs) | _ => none)
  | .toBytes a => (match evalE targs s a with | some (.bytes bs) => some (.bytes bs) | _ => none)
  | .bytes1 a =>
    match evalE targs s a with
    | some (.int n) => if 0 ≤ n ∧ n < 256 then some (.bytes [UInt8.ofNat n.toNat]) else none
    | _ => none
  | .repeat a n =>
    match evalE targs s a, evalE targs s n with
    | some (.bytes bs), some (.int k) => if 0 ≤ k then some (.bytes (List.replicate k.toNat bs).flatten) else none
    | _, _ => none
  | .crc32 a => (match evalE targs s a with | some (.bytes bs) => some (.int (crc32Go bs).toNat) | _ => none)
  | .elem a i =>
    match evalE targs s a, evalE targs s i with
    | some (.ints l), some (.int k) => if 0 ≤ k then (l[k.toNat]?).map V.int else none
    | some (.strs l), some (.int k) => if 0 ≤ k then (l[k.toNat]?).map V.bytes else none
    | some (.objs l), some (.int k) => if 0 ≤ k then (l[k.toNat]?).map V.obj else none
    | _, _ => none

def evalArgs (targs : List Ty) (s : St O) : List Expr → Option (List (V O))
  | [] => some []
  | e :: es => (evalE targs s e).bind (fun v => (evalArgs targs s es).map (v :: ·))

def resolveAll (targs : List Ty) : List TyRef → Option (List Ty)
  | [] => some []
  | t :: ts => (resolve targs t).bind (fun t => (resolveAll targs ts).map (t :: ·))

/-- store the results of a call into its destinations (`_` = `none`) -/
def assignAll (s : St O) : List (Option Nat) → List (V O) → St O
  | d :: ds, v :: vs => assignAll (s.setOpt d v) ds vs
  | _, _ => s

/-! ### loops -/

def whileLoop (cond : St O → Option (V O)) (body post : St O → Res O) : Nat → St O → Res O
  | 0, _ => .timeout
  | k+1, s =>
    match cond s with
    | some (.bool false) => .norm s
    | some (.bool true) =>
      match body s with
      | .norm s1 =>
        match post s1 with
        | .norm s2 => whileLoop cond body post k s2
        | r => r
      | r => r
    | _ => .panic

def rangeLoop (x : Nat) (body : St O → Res O) : List (V O) → St O → Res O
  | [], s => .norm s
  | v :: vs, s =>
    match body (s.set x v) with
    | .norm s1 => rangeLoop x body vs s1
    | r => r

/-- the elements a `range` visits -/
def elems : V O → Option (List (V O))
  | .bytes bs => some (bs.map (fun b => V.int b.toNat))
  | .ints l => some (l.map V.int)
  | .strs l => some (l.map V.bytes)
  | .objs l => some (l.map V.obj)
  | .unit => some []
  | _ => none

/-! ### statements -/

def appendV : V O → V O → Option (V O)
  | .ints l, .int n => some (.ints (l ++ [n]))
  | .strs l, .bytes b => some (.strs (l ++ [b]))
  | .objs l, .obj o => some (.objs (l ++ [o]))
  | _, _ => none

/-- `copy` of up to `n` available bytes into a slice of `n` bytes: what `io.ReadFull` / `buf.Read` leave in it -/
def fillFrom (avail : Bytes) (old : Bytes) : Bytes := avail ++ old.drop avail.length

def exec (ext : Ext O) (callee : Nat → List Ty → List (V O) → Bytes → CallRes O) (lf : Nat) (targs : List Ty) :
    Stmt → St O → Res O
  | .skip, s => .norm s
  | .seq a b, s =>
    match exec ext callee lf targs a s with
    | .norm s1 => exec ext callee lf targs b s1
    | r => r
  | .set x e, s =>
    match evalE targs s e with
    | some v => .norm (s.set x v)
    | none => .panic
  | .makeBytes x n, s =>
    match evalE targs s n with
    | some (.int k) => if 0 ≤ k then .norm (s.set x (.bytes (List.replicate k.toNat 0))) else .panic
    | _ => .panic
  | .makeList x kind cap, s =>
    match evalE targs s cap with
    | some (.int k) =>
      if 0 ≤ k then
        .norm (s.set x (match kind with | .ints => .ints [] | .strs => .strs [] | .objs => .objs []))
      else .panic
    | _ => .panic
  | .append x e, s =>
    match evalE targs s e with
    | some v => (match appendV (s.loc x) v with | some l => .norm (s.set x l) | none => .panic)
    | none => .panic
  | .call f tas args dsts, s =>
    match resolveAll targs tas, evalArgs targs s args with
    | some tas, some vs =>
      match callee f tas vs s.buf with
      | .ret rs b => .norm (assignAll { s with buf := b } dsts rs)
      | .panic => .panic
      | .timeout => .timeout
    | _, _ => .panic
  | .binWrite ord t e dst, s =>
    match evalE targs s ord, resolve targs t, evalE targs s e with
    | some (.order o), some t, some (.int n) =>
      .norm (({ s with buf := s.buf ++ toE o t.width ((Ty.u t.width).wrap n).toNat } : St O).setOpt dst (.err false))
    | _, _, _ => .panic
  | .binRead ord t x dst, s =>
    match evalE targs s ord, resolve targs t with
    | some (.order o), some t =>
      if t.width ≤ s.buf.length then
        .norm ((({ s with buf := s.buf.drop t.width } : St O).set x (.int (t.wrap (ofE o (s.buf.take t.width))))).setOpt dst
          (.err false))
      else .norm (({ s with buf := [] } : St O).setOpt dst (.err true))      -- io.ReadFull drains what is there
    | _, _ => .panic
  | .readFull x n dst, s =>
    match s.loc x with
    | .bytes old =>
      if old.length ≤ s.buf.length then
        .norm (((({ s with buf := s.buf.drop old.length } : St O).set x (.bytes (s.buf.take old.length))).setOpt n
          (.int old.length)).setOpt dst (.err false))
      else
        .norm (((({ s with buf := [] } : St O).set x (.bytes (fillFrom s.buf old))).setOpt n (.int s.buf.length)).setOpt dst
          (.err true))
    | _ => .panic
  | .bufRead x n dst, s =>
    match s.loc x with
    | .bytes old =>
      if s.buf.isEmpty then
        .norm ((s.setOpt n (.int 0)).setOpt dst (.err (!old.isEmpty)))       -- empty buffer: (0, nil) for an empty slice, else (0, EOF)
      else
        let k := Nat.min old.length s.buf.length
        .norm (((({ s with buf := s.buf.drop k } : St O).set x (.bytes (fillFrom (s.buf.take k) old))).setOpt n (.int k)).setOpt
          dst (.err false))
    | _ => .panic
  | .bufWrite e n dst, s =>
    match evalE targs s e with
    | some (.bytes bs) => .norm ((({ s with buf := s.buf ++ bs } : St O).setOpt n (.int bs.length)).setOpt dst (.err false))
    | _ => .panic
  | .objEncode e dst, s =>
    match evalE targs s e with
    | some (.obj o) =>
      match ext.enc o s.buf with
      | .ok b => .norm (({ s with buf := b } : St O).setOpt dst (.err false))
      | .err => .norm (s.setOpt dst (.err true))
      | .panic => .panic
    | _ => .panic
  | .objNew x, s => .norm (s.set x (.obj ext.new))
  | .objDecode x dst, s =>
    match s.loc x with
    | .obj o =>
      match ext.dec o s.buf with
      | .ok (o', b) => .norm ((({ s with buf := b } : St O).set x (.obj o')).setOpt dst (.err false))
      | .err => .norm (s.setOpt dst (.err true))
      | .panic => .panic
    | _ => .panic
  | .ite c t e, s =>
    match evalE targs s c with
    | some (.bool true) => exec ext callee lf targs t s
    | some (.bool false) => exec ext callee lf targs e s
    | _ => .panic
  | .while c post body, s =>
    whileLoop (fun s => evalE targs s c) (exec ext callee lf targs body) (exec ext callee lf targs post) lf s
  | .range x e body, s =>
    match (evalE targs s e).bind elems with
    | some vs => rangeLoop x (exec ext callee lf targs body) vs s
    | none => .panic
  | .ret es, s =>
    match evalArgs targs s es with
    | some vs => .ret vs s
    | none => .panic
  | .opaque, _ => .panic
  | .setByte x i e, s =>
    match s.loc x, evalE targs s i, evalE targs s e with
    | .bytes bs, some (.int k), some (.int v) =>
      if 0 ≤ k ∧ k < bs.length ∧ 0 ≤ v ∧ v < 256 then .norm (s.set x (.bytes (bs.set k.toNat (UInt8.ofNat v.toNat)))) else .panic
    | _, _, _ => .panic
  | .panicS, _ => .panic

/-- the frame of a call: the arguments in the first slots, every other slot unset -/
def initLoc (args : List (V O)) : Nat → V O := fun i => args.getD i .unit

/-- run function `f` of the program; `k` bounds the call depth, `lf` the iterations of each condition loop -/
def runFn (ext : Ext O) (prog : List Func) (lf : Nat) : Nat → Nat → List Ty → List (V O) → Bytes → CallRes O
  | 0, _, _, _, _ => .timeout
  | k+1, f, targs, args, buf =>
    match prog[f]? with
    | none => .panic
    | some fn =>
      match exec ext (runFn ext prog lf k) lf targs fn.body { buf := buf, loc := initLoc args } with
      | .ret vs s => .ret vs s.buf
      | .norm _ => .panic
      | .panic => .panic
      | .timeout => .timeout

end FinProto.GoIR
