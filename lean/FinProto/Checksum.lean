/-
  The four checksum services of codec/checksum.go, written in the shape of the Go loops over
  fixed-width machine integers (UInt16 / UInt32), plus the function the frames use.
-/
import FinProto.Basic
namespace FinProto

inductive Alg | crc16 | crc32 | sse | szse | unknown
  deriving DecidableEq, Repr, Inhabited

/-- Crc16ChecksumService.Calc: reflected CRC-16, polynomial 0xA001, initial value 0xFFFF -/
def crc16Bit (crc : UInt16) : UInt16 :=
  if crc &&& 0x0001 != 0 then (crc >>> 1) ^^^ 0xA001 else crc >>> 1

def crc16Byte (crc : UInt16) (b : UInt8) : UInt16 :=
  let c := crc ^^^ b.toUInt16
  crc16Bit (crc16Bit (crc16Bit (crc16Bit (crc16Bit (crc16Bit (crc16Bit (crc16Bit c)))))))

def crc16Go (bs : Bytes) : UInt16 := bs.foldl crc16Byte 0xFFFF

/-- hash/crc32.ChecksumIEEE, as the reflected bitwise reference (polynomial 0xEDB88320) -/
def crc32Bit (crc : UInt32) : UInt32 :=
  if crc &&& 1 != 0 then (crc >>> 1) ^^^ 0xEDB88320 else crc >>> 1

def crc32Byte (crc : UInt32) (b : UInt8) : UInt32 :=
  let c := crc ^^^ b.toUInt32
  crc32Bit (crc32Bit (crc32Bit (crc32Bit (crc32Bit (crc32Bit (crc32Bit (crc32Bit c)))))))

def crc32Go (bs : Bytes) : UInt32 := (bs.foldl crc32Byte 0xFFFFFFFF) ^^^ 0xFFFFFFFF

/-- SseBinChecksumService.Calc: `checksum = (checksum + uint32(b)) & 0xFF` -/
def sseGo (bs : Bytes) : UInt32 := bs.foldl (fun acc b => (acc + b.toUInt32) &&& 0xFF) 0

/-- SzseBinChecksumService.Calc: `checksum += uint32(b)` (wrapping), then `int32(checksum % 256)` -/
def szseAcc (bs : Bytes) : UInt32 := bs.foldl (fun acc b => acc + b.toUInt32) 0
def szseGo (bs : Bytes) : UInt32 := szseAcc bs % 256

/-- the value a frame stores in its checksum field, as an unsigned bit pattern -/
def cksNat : Alg → Bytes → Nat
  | .crc16, bs => (crc16Go bs).toNat
  | .crc32, bs => (crc32Go bs).toNat
  | .sse, bs => (sseGo bs).toNat
  | .szse, bs => (szseGo bs).toNat
  | .unknown, _ => 0

end FinProto
