/-
  Schemas (what the translator extracts from the Go sources) and wire values.
-/
import FinProto.Checksum
namespace FinProto

/-- nil handling of an encoder statement: dereference (panics on nil), materialise, skip; `val` = a
    struct held by value (cannot be nil) -/
inductive Guard | none | mat | skip | val
  deriving DecidableEq, Repr, Inhabited

inductive Op
  | scalar (w : Nat) (e : Endian)
  | fixed (n : Nat) (pad : Nat) (left : Bool)
  | vstr (pw : Nat) (e : Endian)
  | nums (cw w : Nat) (e : Endian)
  | fixeds (cw n : Nat) (pad : Nat) (left : Bool) (e : Endian)
  | vstrs (cw pw : Nat) (e : Endian)
  | nested (ty : Nat) (g : Guard)
  | objs (cw : Nat) (ty : Nat) (e : Endian)
  | union (key tbl : Nat) (g : Guard)
  | opaque
  deriving DecidableEq, Repr, Inhabited

/-- encoder of a self-measuring frame: header scalars, 4-byte length placeholder patched after the
    body, body selected by a header field, optional checksum trailer over the frame's own bytes -/
structure FrameDesc where
  hdr : List Op
  lenW : Nat
  e : Endian
  key : Nat
  tbl : Nat
  g : Guard
  cks : Option (Alg × Nat)
  deriving DecidableEq, Repr

structure TyDef where
  nfields : Nat
  enc : List Op
  dec : List Op
  frame : Option FrameDesc
  deriving DecidableEq, Repr

inductive Key | n (v : Nat) | s (b : List UInt8)
  deriving DecidableEq, Repr

structure Env where
  types : List TyDef
  tables : List (List (Key × Nat))

inductive Val
  | num (n : Nat)
  | str (s : Bytes)
  | nums (l : List Nat)
  | strs (l : List Bytes)
  | msg (ty : Nat) (fields : List Val)
  | msgs (l : List Val)
  | nil
  deriving Repr, Inhabited

def lookupKey (k : Key) : List (Key × Nat) → Option Nat
  | [] => none
  | (k', t) :: rest => if k' = k then some t else lookupKey k rest

/-- a Go map filled by successive registrations: the last registration of a key wins -/
def Env.lookup (env : Env) (tbl : Nat) (k : Key) : Option Nat :=
  match env.tables[tbl]? with
  | some t => lookupKey k t.reverse
  | none => none

def keyOf : Val → Option Key
  | .num n => some (.n n)
  | .str s => some (.s s)
  | _ => none

end FinProto
