/-
  A frame's `Encode` when NO checksum service is registered under the frame's algorithm name
  (`codec.Get(name)` answers `ok = false`, e.g. after `codec.Remove` / `codec.Clear`): the generated code
  skips the `p.Checksum = service.Calc(...)` assignment and writes the value the caller left in the field.
  Everything before the trailer is the ordinary frame; the trailer is the caller's value in the
  protocol's byte order.
-/
import FinProto.Interp
namespace FinProto

def encFrameNS (env : Env) (encTy : Nat → Val → E Val) (zero : Nat → Val) (fd : FrameDesc) (ty : Nat)
    (fields : List Val) : E Val := fun buf =>
  let nh := fd.hdr.length
  (encSeq (encOp env encTy zero fields) fd.hdr (fields.take nh) buf).bind fun (hv, b1) =>
  let pos := b1.length
  let b2 := b1 ++ toE fd.e fd.lenW 0
  let bodyStart := b2.length
  let ty? := unionTy env fd.key fd.tbl fields
  match fields[nh + 1]? with
  | none => .err
  | some body =>
  (encPtr encTy fd.g (ty?.map zero) ty? body b2).bind fun (body', b3) =>
  let len := (b3.length - bodyStart) % 2 ^ 32
  let b4 := patch b3 pos (toE fd.e fd.lenW len)
  match fd.cks with
  | none => if fields.length = nh + 2 then .ok (.msg ty (hv ++ [.num len, body']), b4) else .err
  | some (_, w) =>
    match fields[nh + 2]? with
    | some (.num c) =>                                                 -- `codec.Get` missed: p.Checksum keeps the caller's value
      if fields.length = nh + 3 then .ok (.msg ty (hv ++ [.num len, body', .num c]), b4 ++ toE fd.e w c)
      else .err
    | _ => .err

/-- frames are top-level only (obligation `framesTop`), so only the outermost type needs the variant -/
def encodeNS (env : Env) (v : Val) : E Val :=
  match v with
  | .msg ty fields =>
    match env.types[ty]? with
    | some td =>
      match td.frame with
      | some fd => encFrameNS env (encTy env (env.fuel - 1)) (zeroTy env (env.fuel - 1)) fd ty fields
      | none => encode env v
    | none => errE
  | _ => errE

end FinProto
