/-
  Template translation of codec/binary_codec.go.  xlate matches the WHOLE body of every primitive against the template
  of its kind (normalised source text with holes for the byte orders and the helper called) and emits one `PrimDef` per
  primitive.  `sem…` gives each template its meaning in terms of the primitive model (`Prim.lean`); the `…_is` theorems
  say that the templates with the PINNED holes are exactly the model functions the interpreter uses.  A body that matches
  no template is `.unknown` and is left to the correspondence check.
-/
import FinProto.Prim
import FinProto.Checksum
namespace FinProto

inductive PrimDef
  | writeScalar (e : Endian)                 -- return binary.Write(buf, binary.<e>, &v)
  | readScalar (e : Endian)                  -- var v T; err := binary.Read(buf, binary.<e>, &v); return v, err
  | writeLen                                 -- refuse n > max(T), else binary.Write(buf, order, T(n))
  | writeNums (ce ee : Endian)               -- writeLen[T](<ce>, len); for each: WriteBasicType<ee>
  | readNums (ce ee : Endian)                -- read count <ce>; make cap min(count, Len); loop ReadBasicType<ee>
  | writeVstr (e : Endian)                   -- writeLen[T](<e>, len(s)); buf.WriteString(s)
  | readVstr (e : Endian)                    -- read length <e>; reject length > Len; make; io.ReadFull; string(…)
  | writeFixedDefault | readFixedDefault     -- the variant with pad ' ', right
  | writeFixed                               -- cut to fixedLen, or Padding on the pad side around the data
  | padding                                  -- bytes.Repeat([]byte{byte(padChar)}, n)
  | readFixed                                -- make fixedLen; io.ReadFull; strip byte(padChar) from the pad side
  | writeFixedsDefault (e : Endian) | readFixedsDefault (e : Endian)
  | writeFixeds (ce : Endian)                -- writeLen[T](<ce>, len); for each: WriteFixedStringWithPadding
  | readFixeds (ce : Endian)
  | writeVstrs (ce pe : Endian)              -- writeLen[T](<ce>, len); for each: writeLen[K](<pe>, len(s)); WriteString
  | readVstrs (ce pe : Endian)
  | writeObjs (ce : Endian)                  -- writeLen[T](<ce>, len); for each: s.Encode(buf)
  | readObjs (ce : Endian)                   -- read count <ce>; loop newFn().Decode(buf)
  | unknown                                  -- body matched no template
  | missing                                  -- function not found
  deriving DecidableEq, Repr

/-- the primitives in the order xlate emits them -/
def primNames : List String := [
  "WriteBasicType", "WriteBasicTypeLE", "ReadBasicType", "ReadBasicTypeLE", "writeLen",
  "WriteBasicTypeList", "WriteBasicTypeListLE", "ReadBasicTypeList", "ReadBasicTypeListLE",
  "WriteString", "WriteStringLE", "ReadString", "ReadStringLE",
  "WriteFixedString", "WriteFixedStringWithPadding", "Padding", "ReadFixedString", "ReadFixedStringTrimPadding",
  "WriteFixedStringList", "WriteFixedStringListWithPadding", "WriteFixedStringListLE", "WriteFixedStringListWithPaddingLE",
  "ReadFixedStringList", "ReadFixedStringListTrimPadding", "ReadFixedStringListLE", "ReadFixedStringListTrimPaddingLE",
  "WriteStringList", "WriteStringListLE", "ReadStringList", "ReadStringListLE",
  "WriteObjectList", "WriteObjectListLE", "ReadObjectList", "ReadObjectListLE"]

/-- what each primitive must be: every `…LE` primitive uses little-endian for the count, every element and every length
    prefix; every other one big-endian -/
def pinnedPrims : List PrimDef := [
  .writeScalar .be, .writeScalar .le, .readScalar .be, .readScalar .le, .writeLen,
  .writeNums .be .be, .writeNums .le .le, .readNums .be .be, .readNums .le .le,
  .writeVstr .be, .writeVstr .le, .readVstr .be, .readVstr .le,
  .writeFixedDefault, .writeFixed, .padding, .readFixedDefault, .readFixed,
  .writeFixedsDefault .be, .writeFixeds .be, .writeFixedsDefault .le, .writeFixeds .le,
  .readFixedsDefault .be, .readFixeds .be, .readFixedsDefault .le, .readFixeds .le,
  .writeVstrs .be .be, .writeVstrs .le .le, .readVstrs .be .be, .readVstrs .le .le,
  .writeObjs .be, .writeObjs .le, .readObjs .be, .readObjs .le]

/-- every regenerated primitive is either the pinned template instance or unrecognised -/
def primsAgree : List PrimDef → List PrimDef → Bool
  | [], [] => true
  | g :: gs, p :: ps => (g == p || g == .unknown) && primsAgree gs ps
  | _, _ => false

def primsUnknown (l : List PrimDef) : Nat := l.countP (· == .unknown)

/-! ### meaning of the templates (statement by statement, in terms of the primitive model) -/

/-- writeLen[T] then the elements through the scalar helper of order `ee` -/
def semWriteNums (ce ee : Endian) (cw w : Nat) (l : List Nat) : Outcome Bytes :=
  writeList cw ce (fun n => .ok (writeScalar w ee n)) l
def semReadNums (ce ee : Endian) (cw w : Nat) : R (List Nat) := readList cw ce (readScalar w ee)
def semWriteVstr (e : Endian) (pw : Nat) (s : Bytes) : Outcome Bytes := (writeLen pw e s.length).map (· ++ s)
def semReadVstr (e : Endian) (pw : Nat) : R Bytes := bindR (readScalar pw e) (fun len => lenGuard len (takeN len))
def semWriteFixeds (ce : Endian) (cw n : Nat) (pad : UInt8) (left : Bool) (l : List Bytes) : Outcome Bytes :=
  writeList cw ce (fun s => .ok (writeFixed n pad left s)) l
def semReadFixeds (ce : Endian) (cw n : Nat) (pad : UInt8) (left : Bool) : R (List Bytes) :=
  readList cw ce (readFixed n pad left)
def semWriteVstrs (ce pe : Endian) (cw pw : Nat) (l : List Bytes) : Outcome Bytes := writeList cw ce (semWriteVstr pe pw) l
def semReadVstrs (ce pe : Endian) (cw pw : Nat) : R (List Bytes) := readList cw ce (semReadVstr pe pw)

/-- the pinned template instances ARE the model functions the interpreter uses: one byte order per primitive -/
theorem writeNums_is (e : Endian) : semWriteNums e e = fun cw w l => writeNums cw w e l := rfl
theorem readNums_is (e : Endian) : semReadNums e e = fun cw w => readNums cw w e := rfl
theorem writeVstr_is (e : Endian) : semWriteVstr e = fun pw s => writeVstr pw e s := rfl
theorem readVstr_is (e : Endian) : semReadVstr e = fun pw => readVstr pw e := rfl
theorem writeFixeds_is (e : Endian) : semWriteFixeds e = fun cw n pad left l => writeFixeds cw n pad left e l := rfl
theorem readFixeds_is (e : Endian) : semReadFixeds e = fun cw n pad left => readFixeds cw n pad left e := rfl
theorem writeVstrs_is (e : Endian) : semWriteVstrs e e = fun cw pw l => writeVstrs cw pw e l := rfl
theorem readVstrs_is (e : Endian) : semReadVstrs e e = fun cw pw => readVstrs cw pw e := rfl

/-- a template instance with MIXED byte orders (the defect repaired in commit aef9d6d) is a different function -/
theorem writeNums_mixed_differs : semWriteNums .le .be 2 2 [0x0102] ≠ writeNums 2 2 .le [0x0102] := by decide


/-! ### the checksum services' `Calc` bodies, template-translated from codec/checksum.go -/

inductive CksDef
  | crc16Reflected (init poly : Nat)   -- crc := init; per byte: crc ^= b; 8 x (if crc&1 != 0 then (crc>>1)^poly else crc>>1)
  | crc32IEEE                          -- return crc32.ChecksumIEEE(data.Bytes())
  | sumMasked (mask : Nat)             -- uint32: checksum = (checksum + b) & mask
  | sumThenMod (m : Nat)               -- uint32: checksum += b (wrapping); return int32(checksum % m)
  | unknown
  deriving DecidableEq, Repr

def pinnedCksDefs : List CksDef := [.crc16Reflected 0xFFFF 0xA001, .crc32IEEE, .sumMasked 0xFF, .sumThenMod 256]

def cksAgree : List CksDef → List CksDef → Bool
  | [], [] => true
  | g :: gs, p :: ps => (g == p || g == .unknown) && cksAgree gs ps
  | _, _ => false

/-- meaning of the loop templates over machine integers, parametrised by the extracted constants -/
def semCrc16Bit (poly : UInt16) (crc : UInt16) : UInt16 :=
  if crc &&& 0x0001 != 0 then (crc >>> 1) ^^^ poly else crc >>> 1
def semCrc16Byte (poly : UInt16) (crc : UInt16) (b : UInt8) : UInt16 :=
  let c := crc ^^^ b.toUInt16
  semCrc16Bit poly (semCrc16Bit poly (semCrc16Bit poly (semCrc16Bit poly (semCrc16Bit poly (semCrc16Bit poly
    (semCrc16Bit poly (semCrc16Bit poly c)))))))
def semCrc16 (init poly : Nat) (bs : Bytes) : UInt16 := bs.foldl (semCrc16Byte (UInt16.ofNat poly)) (UInt16.ofNat init)
def semSumMasked (mask : Nat) (bs : Bytes) : UInt32 := bs.foldl (fun acc b => (acc + b.toUInt32) &&& UInt32.ofNat mask) 0
def semSumThenMod (m : Nat) (bs : Bytes) : UInt32 := (bs.foldl (fun acc b => acc + b.toUInt32) 0) % UInt32.ofNat m

/-- with the pinned constants the templates are the model's checksum functions (whose published definitions are proved
    in Props/ChecksumProofs.lean) -/
theorem crc16Bit_template (c : UInt16) : semCrc16Bit (UInt16.ofNat 0xA001) c = crc16Bit c := rfl
theorem crc16_template_is : semCrc16 0xFFFF 0xA001 = crc16Go := by
  funext bs
  have hb : semCrc16Byte (UInt16.ofNat 0xA001) = crc16Byte := by
    funext c b; simp only [semCrc16Byte, crc16Byte, crc16Bit_template]
  simp only [semCrc16, crc16Go, hb]
  rfl
theorem sse_template_is : semSumMasked 0xFF = sseGo := by
  funext bs; rfl
theorem szse_template_is : semSumThenMod 256 = szseGo := by
  funext bs; rfl

end FinProto
