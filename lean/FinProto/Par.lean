/-
  C20: goroutines with private state that only READ a shared component run, under every interleaving,
  exactly as they run alone.  The shared component `G` (discriminator tables, checksum registry) is a
  parameter of the step function and is never written.
-/
import FinProto.Interp
namespace FinProto.Par

/-- one goroutine: private state `S`, deterministic step reading the shared `G`; a finished goroutine stutters -/
structure Sys (G S : Type) where
  step : G → S → S

/-- `k` steps of one goroutine running alone -/
def runAlone (sys : Sys G S) (g : G) : Nat → S → S
  | 0, s => s
  | k+1, s => runAlone sys g k (sys.step g s)

/-- a schedule is the sequence of goroutine ids that take the next step; ANY list is a legal schedule -/
def runSched (sys : Sys G S) (g : G) : List Nat → (Nat → S) → (Nat → S)
  | [], st => st
  | t :: sched, st => runSched sys g sched (fun u => if u = t then sys.step g (st t) else st u)

/-- every interleaving gives each goroutine the state it reaches running alone for as many steps as it was scheduled -/
theorem par_eq_seq (sys : Sys G S) (g : G) (sched : List Nat) (st : Nat → S) (t : Nat) :
    runSched sys g sched st t = runAlone sys g (sched.count t) (st t) := by
  induction sched generalizing st with
  | nil => rfl
  | cons u sched ih =>
    simp only [runSched, ih, List.count_cons]
    by_cases h : u = t
    · subst h; simp [runAlone]
    · have h' : ¬ t = u := fun e => h e.symm
      simp [h, h']

/-- two schedules that give a goroutine the same number of steps give it the same state, whatever the others do -/
theorem sched_irrelevant (sys : Sys G S) (g : G) (s1 s2 : List Nat) (st st' : Nat → S) (t : Nat)
    (hc : s1.count t = s2.count t) (hs : st t = st' t) :
    runSched sys g s1 st t = runSched sys g s2 st' t := by
  rw [par_eq_seq, par_eq_seq, hc, hs]

/-! ### instantiation: workers that encode / decode their own messages on their own buffers -/

inductive Job
  | enc (v : Val)                 -- encode v into the worker's buffer
  | dec (ty : Nat)                -- decode a message of type ty from the worker's buffer
  deriving Inhabited

/-- a worker's private state: remaining jobs, its own buffer, the results so far -/
structure Worker where
  todo : List Job
  buf : Bytes
  done : List (Outcome Val)

def workerStep (env : Env) (w : Worker) : Worker :=
  match w.todo with
  | [] => w
  | .enc v :: rest =>
    match encode env v w.buf with
    | .ok (v', b) => { todo := rest, buf := b, done := w.done ++ [.ok v'] }
    | .err => { w with todo := rest, done := w.done ++ [.err] }
    | .panic => { w with todo := rest, done := w.done ++ [.panic] }
  | .dec ty :: rest =>
    match decode env ty w.buf with
    | .ok (v, b) => { todo := rest, buf := b, done := w.done ++ [.ok v] }
    | .err => { w with todo := rest, done := w.done ++ [.err] }
    | .panic => { w with todo := rest, done := w.done ++ [.panic] }

def codecSys : Sys Env Worker := ⟨workerStep⟩

/-- any number of workers, any mix of protocols and message types, any interleaving: each worker obtains
    exactly the bytes / messages it obtains running alone -/
theorem workers_par_eq_seq (env : Env) (sched : List Nat) (ws : Nat → Worker) (t : Nat) :
    runSched codecSys env sched ws t = runAlone codecSys env (sched.count t) (ws t) :=
  par_eq_seq codecSys env sched ws t

example : (runSched codecSys ⟨[], []⟩ [0, 1, 0, 1] (fun _ => ⟨[.dec 0, .dec 0], [1, 2], []⟩) 1).done.length = 2 := by
  rfl

end FinProto.Par
