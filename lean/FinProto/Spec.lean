/-
  The specification side of C02: an independent, much simpler renderer of a schema — the
  concatenation, in schema order, of each field rendered with its width, byte order, pad/side or
  length-prefix width, with discriminators selecting the body type.  No buffer threading, no updated
  message, no Outcome monad.  `Pinned.lean` is the committed snapshot it is applied to.
-/
import FinProto.Interp
namespace FinProto.Spec
open FinProto

/-- N bytes: cut, or pad on the pad side -/
def padOrCut (n : Nat) (pad : UInt8) (left : Bool) (s : Bytes) : Bytes :=
  if n < s.length then s.take n
  else
    let fill := List.replicate (n - s.length) pad
    if left then fill ++ s else s ++ fill

/-- a length / count prefix, representable or nothing -/
def prefixed (w : Nat) (e : Endian) (n : Nat) (payload : Bytes) : Option Bytes :=
  if n < 256 ^ w then some (toE e w n ++ payload) else none

def concatAll : List (Option Bytes) → Option Bytes
  | [] => some []
  | none :: _ => none
  | some b :: rest => (concatAll rest).map (b ++ ·)

def renderPtr (renderTy : Nat → Val → Option Bytes) (g : Guard) (mk : Option Val) (ty? : Option Nat) : Val → Option Bytes
  | .nil =>
    match g with
    | .skip => some []
    | .mat =>
      match mk, ty? with
      | some z, some ty => renderTy ty z
      | _, _ => none
    | _ => none
  | .msg ty' fs => renderTy ty' (.msg ty' fs)
  | _ => none

def renderField (env : Env) (renderTy : Nat → Val → Option Bytes) (zero : Nat → Val) (all : List Val) :
    Op → Val → Option Bytes
  | .scalar w e, .num n => some (toE e w n)
  | .fixed n pad left, .str s => some (padOrCut n (UInt8.ofNat pad) left s)
  | .vstr pw e, .str s => prefixed pw e s.length s
  | .nums cw w e, .nums l => prefixed cw e l.length (l.flatMap (toE e w))
  | .fixeds cw n pad left e, .strs l => prefixed cw e l.length (l.flatMap (padOrCut n (UInt8.ofNat pad) left))
  | .vstrs cw pw e, .strs l =>
    (concatAll (l.map (fun s => prefixed pw e s.length s))).bind (prefixed cw e l.length)
  | .nested ty g, v =>
    match v with
    | .msg ty' fs => if ty' = ty then renderTy ty (.msg ty' fs) else none
    | .nil => renderPtr renderTy g (some (zero ty)) (some ty) .nil
    | _ => none
  | .objs cw ty e, .msgs l => (concatAll (l.map (renderTy ty))).bind (prefixed cw e l.length)
  | .union key tbl g, v =>
    let ty? := unionTy env key tbl all
    renderPtr renderTy g (ty?.map zero) ty? v
  | _, _ => none

def renderFields (step : Op → Val → Option Bytes) : List Op → List Val → Option Bytes
  | [], [] => some []
  | op :: ops, v :: vs => (step op v).bind (fun b => (renderFields step ops vs).map (b ++ ·))
  | _, _ => none

def renderTy (env : Env) : Nat → Nat → Val → Option Bytes
  | 0, _, _ => none
  | f+1, ty, .msg ty' fields =>
    if ty' = ty then
      match env.types[ty]? with
      | none => none
      | some td =>
        let step := renderField env (renderTy env f) (zeroTy env f) fields
        match td.frame with
        | none => renderFields step td.enc fields
        | some fd =>
          let nh := fd.hdr.length
          let okLen := match fd.cks with
            | none => fields.length == nh + 2
            | some _ => fields.length == nh + 3
          if !okLen then none else
          (renderFields step fd.hdr (fields.take nh)).bind fun hdr =>
          (fields[nh + 1]?).bind fun body =>
          (renderPtr (renderTy env f) fd.g ((unionTy env fd.key fd.tbl fields).map (zeroTy env f))
              (unionTy env fd.key fd.tbl fields) body).map fun bodyBytes =>
          let frame := hdr ++ toE fd.e fd.lenW (bodyBytes.length % 2 ^ 32) ++ bodyBytes
          match fd.cks with
          | none => frame
          | some (alg, w) => frame ++ toE fd.e w (cksNat alg frame)
    else none
  | _+1, _, _ => none

def render (env : Env) (v : Val) : Option Bytes :=
  match v with
  | .msg ty _ => renderTy env env.fuel ty v
  | _ => none

/-- two registration lists denote the same finite map -/
def tableEquiv (a b : List (Key × Nat)) : Bool :=
  a.all (fun kv => lookupKey kv.1 a.reverse == lookupKey kv.1 b.reverse) &&
  b.all (fun kv => lookupKey kv.1 a.reverse == lookupKey kv.1 b.reverse)

def tablesEquiv : List (List (Key × Nat)) → List (List (Key × Nat)) → Bool
  | [], [] => true
  | a :: as, b :: bs => tableEquiv a b && tablesEquiv as bs
  | _, _ => false

end FinProto.Spec
