/-
  Text form of values, ops and results used on the line protocol between the Go harness and the
  model driver.  Parsing and printing only; no semantics here.
-/
import FinProto.Interp
namespace FinProto.Wire
open FinProto

def hexDigit (n : Nat) : Char :=
  if n < 10 then Char.ofNat (48 + n) else Char.ofNat (87 + n)

def hexOf (bs : Bytes) : String :=
  if bs.isEmpty then "-" else
  String.ofList (bs.foldr (fun b acc => hexDigit (b.toNat / 16) :: hexDigit (b.toNat % 16) :: acc) [])

def hexVal (c : Char) : Option Nat :=
  if '0' ≤ c ∧ c ≤ '9' then some (c.toNat - 48)
  else if 'a' ≤ c ∧ c ≤ 'f' then some (c.toNat - 87)
  else if 'A' ≤ c ∧ c ≤ 'F' then some (c.toNat - 55)
  else none

def parseHexChars : List Char → Option Bytes
  | [] => some []
  | a :: b :: rest => do
    let x ← hexVal a
    let y ← hexVal b
    let r ← parseHexChars rest
    pure (UInt8.ofNat (x * 16 + y) :: r)
  | _ => none

def parseHex (s : String) : Option Bytes :=
  if s == "-" then some [] else parseHexChars s.toList

partial def showVal : Val → String
  | .num n => s!"n {n}"
  | .str s => s!"s {hexOf s}"
  | .nums l => l.foldl (fun acc n => acc ++ s!" {n}") s!"N {l.length}"
  | .strs l => l.foldl (fun acc s => acc ++ " " ++ hexOf s) s!"S {l.length}"
  | .msg ty fs => fs.foldl (fun acc v => acc ++ " " ++ showVal v) s!"m {ty} {fs.length}"
  | .msgs l => l.foldl (fun acc v => acc ++ " " ++ showVal v) s!"M {l.length}"
  | .nil => "z"

abbrev P (α : Type) := List String → Option (α × List String)

def pNat : P Nat
  | t :: ts => t.toNat?.map (·, ts)
  | [] => none

def pHex : P Bytes
  | t :: ts => (parseHex t).map (·, ts)
  | [] => none

def pMany (p : P α) : Nat → P (List α)
  | 0, ts => some ([], ts)
  | n+1, ts => do
    let (a, ts) ← p ts
    let (as, ts) ← pMany p n ts
    pure (a :: as, ts)

partial def pVal : P Val
  | "n" :: ts => do let (n, ts) ← pNat ts; pure (.num n, ts)
  | "s" :: ts => do let (s, ts) ← pHex ts; pure (.str s, ts)
  | "N" :: ts => do
    let (k, ts) ← pNat ts
    let (l, ts) ← pMany pNat k ts
    pure (.nums l, ts)
  | "S" :: ts => do
    let (k, ts) ← pNat ts
    let (l, ts) ← pMany pHex k ts
    pure (.strs l, ts)
  | "m" :: ts => do
    let (ty, ts) ← pNat ts
    let (k, ts) ← pNat ts
    let (l, ts) ← pMany pVal k ts
    pure (.msg ty l, ts)
  | "M" :: ts => do
    let (k, ts) ← pNat ts
    let (l, ts) ← pMany pVal k ts
    pure (.msgs l, ts)
  | "z" :: ts => some (.nil, ts)
  | _ => none

def pEndian : P Endian
  | "be" :: ts => some (.be, ts)
  | "le" :: ts => some (.le, ts)
  | _ => none

def pBool : P Bool
  | "1" :: ts => some (true, ts)
  | "0" :: ts => some (false, ts)
  | _ => none

def pGuard : P Guard
  | "none" :: ts => some (.none, ts)
  | "mat" :: ts => some (.mat, ts)
  | "skip" :: ts => some (.skip, ts)
  | "val" :: ts => some (.val, ts)
  | _ => none

def pOp : P Op
  | "scalar" :: ts => do let (w, ts) ← pNat ts; let (e, ts) ← pEndian ts; pure (.scalar w e, ts)
  | "fixed" :: ts => do
    let (n, ts) ← pNat ts; let (p, ts) ← pNat ts; let (l, ts) ← pBool ts; pure (.fixed n p l, ts)
  | "vstr" :: ts => do let (w, ts) ← pNat ts; let (e, ts) ← pEndian ts; pure (.vstr w e, ts)
  | "nums" :: ts => do
    let (cw, ts) ← pNat ts; let (w, ts) ← pNat ts; let (e, ts) ← pEndian ts; pure (.nums cw w e, ts)
  | "fixeds" :: ts => do
    let (cw, ts) ← pNat ts; let (n, ts) ← pNat ts; let (p, ts) ← pNat ts; let (l, ts) ← pBool ts
    let (e, ts) ← pEndian ts; pure (.fixeds cw n p l e, ts)
  | "vstrs" :: ts => do
    let (cw, ts) ← pNat ts; let (pw, ts) ← pNat ts; let (e, ts) ← pEndian ts; pure (.vstrs cw pw e, ts)
  | "nested" :: ts => do let (ty, ts) ← pNat ts; let (g, ts) ← pGuard ts; pure (.nested ty g, ts)
  | "objs" :: ts => do
    let (cw, ts) ← pNat ts; let (ty, ts) ← pNat ts; let (e, ts) ← pEndian ts; pure (.objs cw ty e, ts)
  | "union" :: ts => do
    let (k, ts) ← pNat ts; let (t, ts) ← pNat ts; let (g, ts) ← pGuard ts; pure (.union k t g, ts)
  | _ => none

def pAlg : P Alg
  | "CRC16" :: ts => some (.crc16, ts)
  | "CRC32" :: ts => some (.crc32, ts)
  | "SSE_BIN" :: ts => some (.sse, ts)
  | "SZSE_BIN" :: ts => some (.szse, ts)
  | _ => none

end FinProto.Wire
