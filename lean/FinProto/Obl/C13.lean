/- C13: fixed-width text — theorems about the primitive model for every width, pad byte, side and byte string. -/
import FinProto.Obl.SPrims
import FinProto.Props.PrimLemmas
namespace FinProto.Obl
open FinProto
/-- the primitives, template-translated from the current source, are the pinned ones (or unrecognised) -/
theorem C13_prims : primsAgree Gen.prims pinnedPrims = true := gen_prims_agree

end FinProto.Obl
