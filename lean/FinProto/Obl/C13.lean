/- C13: fixed-width text — theorems about the primitive model for every width, pad byte, side and byte string. -/
import FinProto.Props.PrimLemmas
namespace FinProto.Obl
end FinProto.Obl
