/- C13: fixed-width text — theorems about the primitive model for every width, pad byte, side and byte string. -/
import FinProto.Obl.SPrims
import FinProto.Obl.SFixed
import FinProto.Props.PrimLemmas
namespace FinProto.Obl
open FinProto
/-- the primitives, template-translated from the current source, are the pinned ones (or unrecognised) -/
theorem C13_prims : primsAgree Gen.prims pinnedPrims = true := gen_prims_agree

/-- every fixed-width text field of every message of the current source is written and read with the pinned width, pad byte
    and pad side (the primitive theorems are about those arguments) -/
theorem C13_fixed_fields : Gen.types.map fixedProj = Pinned.types.map fixedProj := gen_fixed_eq_pinned

end FinProto.Obl
