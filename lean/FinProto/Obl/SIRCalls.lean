/-
  Obligation of the GoIR tie at message level: every call `codec.F[…](buf, …)` in the Encode / Decode bodies of the message
  types, which xlate reads as an op of the schema language, is the call that the model's own table (`GoIR.opWriter` /
  `GoIR.opReader`, the table `encOp_ir` / `decOp_ir` are stated with) makes for that op: same function, and the variant
  without padding arguments only for pad ' ' on the right.
-/
import FinProto.GenCodec
import FinProto.GoIRSpec
namespace FinProto.Obl

theorem ir_calls : GoIR.callsOK GoIR.prog Gen.calls = true := by decide +kernel

end FinProto.Obl
