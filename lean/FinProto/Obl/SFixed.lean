/- the fixed-width text statements of every message (position in the body, width, pad byte, pad side - encoder and decoder)
   are the pinned ones; statements of other kinds are not looked at -/
import FinProto.Checks
import FinProto.Gen
import FinProto.Pinned
namespace FinProto.Obl
open FinProto

/-- the fixed-width text ops of an op list, with their positions (an unrecognised statement counts: it may be one) -/
def fixedOps (ops : List Op) : List (Nat × Op) :=
  (ops.zipIdx.filter (fun p => match p.1 with
    | .fixed .. => true
    | .fixeds .. => true
    | .opaque => true
    | _ => false)).map (fun p => (p.2, p.1))

def fixedProj (td : TyDef) : List (Nat × Op) × List (Nat × Op) := (fixedOps td.enc, fixedOps td.dec)

theorem gen_fixed_eq_pinned : Gen.types.map fixedProj = Pinned.types.map fixedProj := by decide +kernel
end FinProto.Obl
