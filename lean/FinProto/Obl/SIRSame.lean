/-
  Optional obligation: every function body of codec/binary_codec.go and every Calc body of codec/checksum.go, as translated
  into GoIR from the CURRENT sources, is statement for statement the committed translation `PinnedIR` that the theorems
  `GoIR.ir_*` (Props/GoIR_*.lean) are about.  When it holds, those theorems are theorems about the code as it is now
  (`encOp_ir_repo`, `decOp_ir_repo`, `cks_ir_repo` below state the three assembled ones about `Gen.codecProg` itself).
  When it does not (a body was rewritten), nothing is concluded from it: the regenerated bodies are then only EXECUTED
  against the library and compared with the primitive model (driver commands irw / irr / irc).
-/
import FinProto.GenCodec
import FinProto.GoIRSpec
import FinProto.Props.GoIRTie
import FinProto.Props.GoIRTieDec
namespace FinProto.Obl
open FinProto.GoIR

theorem ir_repo : Gen.codecProg = GoIR.prog := by decide +kernel

/-- the encoder leaves of the interpreter, against the library as it is in the tree now -/
theorem encOp_ir_repo (env : Env) (encTy : Nat → Val → E Val) (zero : Nat → Val) (all : List Val) (ext : Ext Val)
    (op : Op) (v : Val) (c : Nat × List Ty × List (V Val)) (hc : opWriter false op v = some c) (hok : opOK op v)
    (hext : ∀ cw ty e, op = .objs cw ty e → ∀ o b, ext.enc o b = (encTy ty o b).map (·.2))
    (buf : Bytes) (lf k : Nat) (hk : 4 ≤ k) :
    WSpecE (runFn ext Gen.codecProg lf k c.1 c.2.1 c.2.2 buf) (encOp env encTy zero all op v buf) := by
  rw [ir_repo]; exact encOp_ir env encTy zero all ext op v c hc hok hext buf lf k hk

/-- the decoder leaves -/
theorem decOp_ir_repo (env : Env) (decTy : Nat → R Val) (acc : List Val) (ext : Ext Val)
    (op : Op) (c : Nat × List Ty × List (V Val)) (hc : opReader false op = some c) (hok : opOKr op)
    (hext : ∀ cw ty e, op = .objs cw ty e → ∀ b, ext.dec ext.new b = decTy ty b)
    (buf : Bytes) (lf k : Nat) (hlf : 2 ^ 64 ≤ lf) (hk : 4 ≤ k) :
    RSpec (runFn ext Gen.codecProg lf k c.1 c.2.1 c.2.2 buf) vOfVal (decOp env decTy acc op buf) := by
  rw [ir_repo]; exact decOp_ir env decTy acc ext op c hc hok hext buf lf k hlf hk

/-- the checksum services -/
theorem cks_ir_repo (ext : Ext Val) (a : Alg) (f : Nat)
    (hf : (a = .crc16 ∧ f = ixCrc16) ∨ (a = .crc32 ∧ f = ixCrc32) ∨ (a = .sse ∧ f = ixSse) ∨ (a = .szse ∧ f = ixSzse))
    (bs : Bytes) (lf k : Nat) (hlf : 9 ≤ lf) (hk : 1 ≤ k) :
    runFn ext Gen.codecProg lf k f [] [] bs = .ret [.int (Int.ofNat (cksNat a bs))] bs := by
  rw [ir_repo]; exact cks_ir ext a f hf bs lf k hlf hk

end FinProto.Obl
