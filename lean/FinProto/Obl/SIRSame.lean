/-
  Optional obligation: every function body of codec/binary_codec.go and every Calc body of codec/checksum.go, as translated
  into GoIR from the CURRENT sources, is statement for statement the committed translation `PinnedIR` that the theorems
  `GoIR.ir_*` (Props/GoIR_*.lean) are about.  When it holds, those theorems are theorems about the code as it is now.
  When it does not (a body was rewritten), nothing is concluded from it: the regenerated bodies are then only EXECUTED
  against the library and compared with the primitive model (driver commands irw / irr / irc).
-/
import FinProto.GenCodec
import FinProto.GoIRSpec
namespace FinProto.Obl

theorem ir_repo : Gen.codecProg = GoIR.prog := by decide +kernel

end FinProto.Obl
