/- side condition evaluated by the kernel on the environment regenerated from the current Go sources -/
import FinProto.Checks
import FinProto.Gen
namespace FinProto.Obl
open FinProto
theorem gen_keysOK : Gen.env.keysOK = true := by decide +kernel
end FinProto.Obl
