/- C02: every message is laid out on the wire exactly as the pinned schema says.  The regenerated op lists, frame
   descriptors and tables equal the committed Pinned snapshot (kernel-evaluated); hence the library's encoder (the model
   at Gen.env) produces exactly the bytes of the independent renderer `Spec.render` applied to the PINNED schema, for every
   value (canonical or not), and decoding agrees with the pinned schema in the other direction. -/
import FinProto.Obl.SPinnedTables
import FinProto.Obl.SPinnedTypes
import FinProto.Props.RenderEq
namespace FinProto.Obl
open FinProto

theorem C02_types : Gen.types = Pinned.types := gen_types_eq_pinned
theorem C02_tables : Spec.tablesEquiv Gen.tables Pinned.tables = true := gen_tables_equiv_pinned

theorem C02_repo (v : Val) (pre : Bytes) :
    (∀ v' out, encode Gen.env v pre = .ok (v', out) → ∃ bs, Spec.render Pinned.env v = some bs ∧ out = pre ++ bs) ∧
    (∀ bs, Spec.render Pinned.env v = some bs → ∃ v', encode Gen.env v pre = .ok (v', pre ++ bs)) := by
  have h := render_table_equiv (env := Gen.env) (env' := Pinned.env) gen_tables_equiv_pinned gen_types_eq_pinned
  rw [← h.2.2.2.2.1]
  exact encode_eq_render Gen.env v pre

theorem C02_decode : decode Gen.env = decode Pinned.env :=
  (render_table_equiv (env := Gen.env) (env' := Pinned.env) gen_tables_equiv_pinned gen_types_eq_pinned).2.2.2.2.2.1

end FinProto.Obl
