/- the regenerated discriminator tables equal the pinned ones as finite maps -/
import FinProto.Spec
import FinProto.Gen
import FinProto.Pinned
namespace FinProto.Obl
open FinProto
theorem gen_tables_equiv_pinned : Spec.tablesEquiv Gen.tables Pinned.tables = true := by decide +kernel
end FinProto.Obl
