/- every primitive of codec/binary_codec.go, template-translated from the current source, is the pinned template instance
   (whose meaning is the model function the interpreter uses) or unrecognised (left to the correspondence check) -/
import FinProto.CodecProg
import FinProto.GenLock
namespace FinProto.Obl
open FinProto
theorem gen_prims_agree : primsAgree Gen.prims pinnedPrims = true := by decide
end FinProto.Obl
