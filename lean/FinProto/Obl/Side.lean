/-
  Side conditions of the generic theorems, evaluated by the kernel on the environment REGENERATED from
  the current Go sources (`Gen.env`).  A change in the Go code changes `Gen`, the condition evaluates to
  `false`, and the obligation (this file, or the property files importing it) no longer compiles.
-/
import FinProto.Checks
import FinProto.Spec
import FinProto.Gen
import FinProto.Pinned
namespace FinProto.Obl
open FinProto

theorem gen_mirrorOK : Gen.env.mirrorOK = true := by decide +kernel
theorem gen_noOpaque : Gen.env.noOpaque = true := by decide +kernel
theorem gen_keysOK : Gen.env.keysOK = true := by decide +kernel
theorem gen_widthsOK : Gen.env.widthsOK = true := by decide +kernel
theorem gen_guardsOK : Gen.env.guardsOK = true := by decide +kernel
theorem gen_refsOK : Gen.env.refsOK = true := by decide +kernel
theorem gen_elemsOK : Gen.env.elemsOK = true := by decide +kernel
theorem gen_framesTop : Gen.env.framesTop = true := by decide +kernel
theorem gen_endianOK : Gen.env.endianOK Gen.typeProto = true := by decide +kernel

end FinProto.Obl
