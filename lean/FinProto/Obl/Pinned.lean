/-
  The regenerated schema equals the committed pinned schema (C02, C12): op lists (widths, order, pads,
  sides, prefix widths, byte orders, nesting), frame descriptors, and the discriminator tables as finite maps.
-/
import FinProto.Obl.Side
namespace FinProto.Obl
open FinProto

theorem gen_types_eq_pinned : Gen.types = Pinned.types := by decide +kernel
theorem gen_tables_equiv_pinned : Spec.tablesEquiv Gen.tables Pinned.tables = true := by decide +kernel
theorem gen_proto_eq_pinned : Gen.typeProto = Pinned.typeProto := by decide +kernel

end FinProto.Obl
