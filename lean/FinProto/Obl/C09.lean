/- C09: decoding arbitrary bytes never panics: every decode returns ok or err (dec_no_panic at Gen.env under the
   kernel-evaluated width condition); every repeated element consumes at least one byte (elemsOK). -/
import FinProto.Obl.SElems
import FinProto.Obl.SNoOpaque
import FinProto.Obl.SWidths
import FinProto.Props.DecLemmas
import FinProto.Props.CostProofs
namespace FinProto.Obl
open FinProto

theorem C09_widths : Gen.env.widthsOK = true := gen_widthsOK
theorem C09_elems : Gen.env.elemsOK = true := gen_elemsOK
theorem C09_no_unrecognised_statement : Gen.env.noOpaque = true := gen_noOpaque
theorem C09_no_panic : ∀ f ty, NoPanic (decTy Gen.env f ty) := dec_no_panic gen_widthsOK

/-- time proportional to the input: every loop iteration consumes at least one byte or ends the loop -/
theorem C09_linear_time (objSize : Nat → Nat) (f ty : Nat) (b : Bytes) :
    (decTyC Gen.env objSize f ty b).2.steps ≤ stepConst Gen.env f ty * (b.length + 1) :=
  decTyC_steps_linear objSize gen_elemsOK f ty b
theorem C09_cost_projection (objSize : Nat → Nat) (f ty : Nat) (b : Bytes) :
    (decTyC Gen.env objSize f ty b).1 = decTy Gen.env f ty b := decTyC_fst Gen.env objSize f ty b

end FinProto.Obl
