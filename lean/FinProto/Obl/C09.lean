/- C09: decoding arbitrary bytes never panics: every decode returns ok or err (dec_no_panic at Gen.env under the
   kernel-evaluated width condition); every repeated element consumes at least one byte (elemsOK). -/
import FinProto.Obl.Side
import FinProto.Props.DecLemmas
namespace FinProto.Obl
open FinProto

theorem C09_widths : Gen.env.widthsOK = true := gen_widthsOK
theorem C09_elems : Gen.env.elemsOK = true := gen_elemsOK
theorem C09_no_unrecognised_statement : Gen.env.noOpaque = true := gen_noOpaque
theorem C09_no_panic : ∀ f ty, NoPanic (decTy Gen.env f ty) := dec_no_panic gen_widthsOK

end FinProto.Obl
