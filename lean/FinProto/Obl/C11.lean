/- C11: a truncated message is always rejected. -/
import FinProto.Obl.SKeys
import FinProto.Obl.SMirror
import FinProto.Obl.SWidths
import FinProto.Props.RoundTrip
namespace FinProto.Obl
open FinProto

theorem C11_mirror : Gen.env.mirrorOK = true := gen_mirrorOK
theorem C11_repo {f ty : Nat} {v v' : Val} {w : Bytes} {k : Nat}
    (hc : canonTy Gen.env f ty v = true) (he : encTy Gen.env f ty v [] = .ok (v', w)) (hlt : k < w.length) :
    decTy Gen.env f ty (w.take k) = .err :=
  truncated_rejected Gen.env gen_mirrorOK gen_keysOK gen_widthsOK hc he hlt

end FinProto.Obl
