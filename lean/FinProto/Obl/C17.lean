/- C17: encoding any constructible message never panics (enc_no_panic at Gen.env; guards, references and frame headers
   kernel-evaluated on Gen). -/
import FinProto.Obl.SGuards
import FinProto.Obl.SMirror
import FinProto.Obl.SRefs
import FinProto.Props.EncLemmas
namespace FinProto.Obl
open FinProto

theorem C17_guards : Gen.env.guardsOK = true := gen_guardsOK
theorem C17_repo : ∀ f ty fs pre, noNilElems (.msg ty fs) = true → encTy Gen.env f ty (.msg ty fs) pre ≠ .panic :=
  enc_no_panic_of_mirrorOK gen_guardsOK gen_refsOK gen_mirrorOK

end FinProto.Obl
