/- C07: decoding consumes exactly one message's bytes; back-to-back messages stream. -/
import FinProto.Obl.SKeys
import FinProto.Obl.SMirror
import FinProto.Obl.SWidths
import FinProto.Props.RoundTrip
namespace FinProto.Obl
open FinProto
set_option linter.defProp false

theorem C07_mirror : Gen.env.mirrorOK = true := gen_mirrorOK
/-- a successful decode reads a prefix and leaves the rest untouched, whatever follows -/
theorem C07_prefix : ∀ f ty, Obl (decTy Gen.env f ty) := obl_decTy Gen.env
/-- `∀ rest`: the encoded message followed by arbitrary further bytes decodes to the message and leaves `rest` -/
theorem C07_repo : ∀ f ty v pre v' out, canonTy Gen.env f ty v = true → encTy Gen.env f ty v pre = .ok (v', out) →
    ∃ bs, out = pre ++ bs ∧ ∀ rest, decTy Gen.env f ty (bs ++ rest) = .ok (v', rest) :=
  roundtrip Gen.env gen_mirrorOK gen_keysOK gen_widthsOK
/-- n messages of mixed types encoded one after another are recovered, in order, by n successive decodes, leaving [] -/
def C07_stream := stream Gen.env gen_mirrorOK gen_keysOK gen_widthsOK

end FinProto.Obl
