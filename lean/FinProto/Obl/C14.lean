/- C14: each checksum algorithm computes its published definition on every byte string. -/
import FinProto.Props.ChecksumProofs
namespace FinProto.Obl
end FinProto.Obl
