/- C14: each checksum algorithm computes its published definition on every byte string. -/
import FinProto.Obl.SCks
import FinProto.Props.ChecksumProofs
namespace FinProto.Obl
open FinProto
/-- the services' Calc bodies, template-translated from the current source, are the pinned ones (or unrecognised) -/
theorem C14_calc_bodies : cksAgree Gen.cksDefs pinnedCksDefs = true := gen_cks_agree

end FinProto.Obl
