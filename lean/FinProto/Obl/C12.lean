/- C12: discriminators: the regenerated tables equal the pinned tables as finite maps; decoder and encoder consult the
   same table with the same key; unknown keys are errors (generic theorems of DecLemmas at Gen.env). -/
import FinProto.Obl.SMirror
import FinProto.Obl.SPinnedTables
import FinProto.Obl.SPinnedTypes
import FinProto.Obl.SRefs
import FinProto.Props.DecLemmas
set_option linter.defProp false
namespace FinProto.Obl
open FinProto

theorem C12_tables : Spec.tablesEquiv Gen.tables Pinned.tables = true := gen_tables_equiv_pinned
theorem C12_types : Gen.types = Pinned.types := gen_types_eq_pinned
theorem C12_mirror : Gen.env.mirrorOK = true := gen_mirrorOK
theorem C12_refs : Gen.env.refsOK = true := gen_refsOK

def C12_dec_builds_table_type := @dec_union_ok Gen.env

theorem C12_dec_unknown_is_error {f : Nat} {acc : List Val} {key tbl : Nat} {g : Guard}
    (h : unionTy Gen.env key tbl acc = none) : ∀ b, decOp Gen.env (decTy Gen.env f) acc (.union key tbl g) b = .err :=
  dec_union_unknown h

end FinProto.Obl
