/- the regenerated op lists and frame descriptors equal the committed pinned schema -/
import FinProto.Checks
import FinProto.Gen
import FinProto.Pinned
namespace FinProto.Obl
open FinProto
theorem gen_types_eq_pinned : Gen.types = Pinned.types := by decide +kernel
theorem gen_proto_eq_pinned : Gen.typeProto = Pinned.typeProto := by decide +kernel
end FinProto.Obl
