/- the Calc bodies of the four checksum services, template-translated from the current source, are the pinned template
   instances (whose meaning is the model's checksum functions) or unrecognised (left to the correspondence check) -/
import FinProto.CodecProg
import FinProto.GenLock
namespace FinProto.Obl
open FinProto
theorem gen_cks_agree : cksAgree Gen.cksDefs pinnedCksDefs = true := by decide
end FinProto.Obl
