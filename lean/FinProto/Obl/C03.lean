/- C03: one byte order per protocol. Message level: every op of every message of the regenerated schema uses its
   protocol's byte order (kernel-evaluated on Gen); primitive level: the single `Endian` argument of each primitive
   is used for the count, every element and every length prefix (closed forms), so the LE variant emits the BE
   variant's bytes with each integer reversed. -/
import FinProto.Obl.SPrims
import FinProto.Obl.SEndian
import FinProto.Obl.SNoOpaque
import FinProto.Props.PrimLemmas
import FinProto.Props.NoSvcProofs
namespace FinProto.Obl
open FinProto

theorem C03_messages : Gen.env.endianOK Gen.typeProto = true := gen_endianOK
theorem C03_no_unrecognised_statement : Gen.env.noOpaque = true := gen_noOpaque

theorem C03_scalar (w n : Nat) : writeScalar w .le n = (writeScalar w .be n).reverse := by
  simp [writeScalar, toE_le_eq_reverse_be]

/-- the primitives, template-translated from the current source, are the pinned ones (or unrecognised) -/
theorem C03_prims : primsAgree Gen.prims pinnedPrims = true := gen_prims_agree

set_option linter.defProp false in
/-- no checksum service registered: the frame is unchanged up to the trailer, which is the caller's value in the
    frame's byte order (instantiated at the regenerated schema) -/
def C03_nosvc := @encodeNS_spec Gen.env

end FinProto.Obl
