/- side condition evaluated by the kernel on the environment regenerated from the current Go sources -/
import FinProto.Checks
import FinProto.Gen
namespace FinProto.Obl
open FinProto
theorem gen_refsOK : Gen.env.refsOK = true := by decide +kernel
end FinProto.Obl
