/- C15: a decode result depends only on the bytes: the receiver-aware decoder equals the plain one (generic), every
   field of every type is assigned by exactly one recognised decode statement (kernel-evaluated on Gen). -/
import FinProto.Props.RecvProofs
import FinProto.Checks
import FinProto.Gen
namespace FinProto.Obl
open FinProto

/-- every struct field has exactly one decode statement, none unrecognised -/
def fieldsAssigned (env : Env) : Bool :=
  env.types.all (fun td => td.dec.length == td.nfields && opsNoOpaque td.dec)

theorem C15_fields_assigned : fieldsAssigned Gen.env = true := by decide +kernel
theorem C15_repo (f ty : Nat) (old old' : Val) (b : Bytes) :
    decTyR Gen.env f ty old b = decTyR Gen.env f ty old' b := dec_receiver_irrelevant Gen.env f ty old old' b
theorem C15_plain (f ty : Nat) (old : Val) : decTyR Gen.env f ty old = decTy Gen.env f ty := decTyR_eq Gen.env f ty old

end FinProto.Obl
