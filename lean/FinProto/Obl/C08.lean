/- C08: whatever bytes a decoder accepts, re-encoding the result reproduces those bytes. -/
import FinProto.Obl.SFramesTop
import FinProto.Obl.SKeys
import FinProto.Obl.SMirror
import FinProto.Props.DecEnc
namespace FinProto.Obl
open FinProto
set_option linter.defProp false

theorem C08_mirror : Gen.env.mirrorOK = true := gen_mirrorOK
theorem C08_framesTop : Gen.env.framesTop = true := gen_framesTop
theorem C08_repo : ∀ f ty b v r, Gen.env.isFrame ty = false → decTy Gen.env f ty b = .ok (v, r) →
    ∃ c, b = c ++ r ∧ ∀ pre, encTy Gen.env f ty v pre = .ok (v, pre ++ c) :=
  dec_enc Gen.env gen_mirrorOK gen_keysOK gen_framesTop
def C08_frames := @dec_enc_frame Gen.env gen_mirrorOK gen_keysOK gen_framesTop
def C08_frames_iff := @dec_enc_frame_iff Gen.env gen_mirrorOK gen_keysOK gen_framesTop

end FinProto.Obl
