/- C10: decoding allocates in proportion to the input, never to a claimed length: theorems about the cost-instrumented
   decoder (which projects onto the plain decoder) at Gen.env, for every struct-size function, fuel, type and byte string. -/
import FinProto.Obl.SPrims
import FinProto.Obl.SElems
import FinProto.Obl.SWidths
import FinProto.Props.CostProofs
namespace FinProto.Obl
open FinProto

theorem C10_widths : Gen.env.widthsOK = true := gen_widthsOK
theorem C10_elems : Gen.env.elemsOK = true := gen_elemsOK
theorem C10_projection (objSize : Nat → Nat) (f ty : Nat) (b : Bytes) :
    (decTyC Gen.env objSize f ty b).1 = decTy Gen.env f ty b := decTyC_fst Gen.env objSize f ty b
/-- a length or count read from the wire never makes the decoder request more than 16x the bytes present (+ a schema constant) -/
theorem C10_request_local (objSize : Nat → Nat) (f ty : Nat) (b : Bytes) :
    (decTyC Gen.env objSize f ty b).2.maxReq ≤ 16 * b.length + maxConst Gen.env objSize :=
  decTyC_maxReq objSize gen_widthsOK f ty b
theorem C10_total_linear (objSize : Nat → Nat) (f ty : Nat) (b : Bytes) :
    (decTyC Gen.env objSize f ty b).2.alloc ≤ allocConst Gen.env objSize f ty * (b.length + 1) :=
  decTyC_alloc_linear objSize gen_elemsOK f ty b

/-- the primitives, template-translated from the current source, are the pinned ones (or unrecognised) -/
theorem C10_prims : primsAgree Gen.prims pinnedPrims = true := gen_prims_agree

end FinProto.Obl
