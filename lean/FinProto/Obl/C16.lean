/- C16: decoded messages and encoded bytes never alias each other's memory.  The interpreter is value-semantic; aliasing is
   expressed in the explicit memory model `FinProto.Alias`: the bodies of the functions that return text / bytes are
   micro-programs (make / readFull / toString / sub / view / unsafeString / ret), one per return statement; a static taint
   analysis (`Prog.retClean`) says whether the returned local can point into the buffer's backing array, and every clean
   program provably returns a reference into a region allocated during the call, so no later mutation of the buffer's
   backing array changes what it denotes; returning a `view` (or a sub-slice / unsafe string of one) provably aliases. -/
import FinProto.Obl.SNoOpaque
import FinProto.Props.AliasProofs
import FinProto.Props.AliasTaint
import FinProto.GenLock
namespace FinProto.Obl
open FinProto FinProto.Alias

theorem C16_readString_copying (len : Nat) : (progReadString len).copying = true := progReadString_copying len
theorem C16_readFixed_copying (n a b : Nat) : (progReadFixedStringTrimPadding n a b).copying = true :=
  progReadFixedStringTrimPadding_copying n a b
theorem C16_readBasic_copying (w : Nat) : (progReadBasicType w).copying = true := progReadBasicType_copying w
/-- every function of codec/binary_codec.go that returns text or bytes read from a buffer, as REGENERATED from the source
    (one program per return statement, data flow followed through its locals): the returned local is statically clean -
    it is a fresh allocation or a COPY (`string(buf.Next(n))` is fine; a view, a sub-slice of a view or an `unsafe.String`
    of a view is not) -/
theorem C16_readers_copying : Gen.readerProgs.all Alias.Prog.retClean = true := by decide

/-- hence whatever a reader returns lives in memory allocated during the call, and no later overwrite, reset or reuse
    of the source buffer's backing array (`f` arbitrary) changes what it denotes -/
theorem C16_readers_immune {p : Alias.Prog} (hp : p ∈ Gen.readerProgs) {s s' : Alias.State} {r : Alias.Ref}
    (hs : s.Initial) (hrun : Alias.run p s = some (r, s')) (f : List UInt8 → List UInt8) :
    Alias.observe (Alias.scribble s'.mem s.bufRegion f) r = Alias.observe s'.mem r :=
  decode_immune_clean (List.all_eq_true.mp C16_readers_copying p hp) hs hrun f

theorem C16_no_unrecognised_statement : Gen.env.noOpaque = true := gen_noOpaque

end FinProto.Obl
