/- C16: decoded messages and encoded bytes never alias each other's memory.  The interpreter is value-semantic; aliasing is
   expressed in the explicit memory model `FinProto.Alias`: reader bodies are micro-programs (make / readFull / toString / sub /
   ret); every program without the `view` instruction returns a reference into a region allocated during the call, so no
   later mutation of the buffer's backing array changes what it denotes; `view` provably aliases.  The facts obligations
   (no unsafe/reflect import, no reader takes buf.Bytes()/buf.Next()) tie the Go readers to the copying programs. -/
import FinProto.Obl.SNoOpaque
import FinProto.Props.AliasProofs
import FinProto.GenLock
namespace FinProto.Obl
open FinProto FinProto.Alias

theorem C16_readString_copying (len : Nat) : (progReadString len).copying = true := progReadString_copying len
theorem C16_readFixed_copying (n a b : Nat) : (progReadFixedStringTrimPadding n a b).copying = true :=
  progReadFixedStringTrimPadding_copying n a b
theorem C16_readBasic_copying (w : Nat) : (progReadBasicType w).copying = true := progReadBasicType_copying w
/-- every reader primitive of codec/binary_codec.go, as REGENERATED from the source, is a copying program -/
theorem C16_readers_copying : Gen.readerProgs.all Alias.Prog.copying = true := by decide

/-- hence whatever a reader returns lives in memory allocated during the call, and no later overwrite, reset or reuse
    of the source buffer's backing array (`f` arbitrary) changes what it denotes -/
theorem C16_readers_immune {p : Alias.Prog} (hp : p ∈ Gen.readerProgs) {s s' : Alias.State} {r : Alias.Ref}
    (hs : s.Initial) (hrun : Alias.run p s = some (r, s')) (f : List UInt8 → List UInt8) :
    Alias.observe (Alias.scribble s'.mem s.bufRegion f) r = Alias.observe s'.mem r :=
  decode_immune (List.all_eq_true.mp C16_readers_copying p hp) hs hrun f

theorem C16_no_unrecognised_statement : Gen.env.noOpaque = true := gen_noOpaque

end FinProto.Obl
