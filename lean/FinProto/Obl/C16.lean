/- C16: decoded messages and encoded bytes never alias each other's memory.  The interpreter is value-semantic; aliasing is
   expressed in the explicit memory model `FinProto.Alias`: reader bodies are micro-programs (make / readFull / toString / sub /
   ret); every program without the `view` instruction returns a reference into a region allocated during the call, so no
   later mutation of the buffer's backing array changes what it denotes; `view` provably aliases.  The facts obligations
   (no unsafe/reflect import, no reader takes buf.Bytes()/buf.Next()) tie the Go readers to the copying programs. -/
import FinProto.Obl.SNoOpaque
import FinProto.Props.AliasProofs
namespace FinProto.Obl
open FinProto FinProto.Alias

theorem C16_readString_copying (len : Nat) : (progReadString len).copying = true := progReadString_copying len
theorem C16_readFixed_copying (n a b : Nat) : (progReadFixedStringTrimPadding n a b).copying = true :=
  progReadFixedStringTrimPadding_copying n a b
theorem C16_readBasic_copying (w : Nat) : (progReadBasicType w).copying = true := progReadBasicType_copying w
theorem C16_no_unrecognised_statement : Gen.env.noOpaque = true := gen_noOpaque

end FinProto.Obl
