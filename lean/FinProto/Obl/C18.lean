/- C18: values too long for their length prefix are refused — theorems about the primitive model for every prefix width;
   the hand-written types propagate the primitives' errors (a dropped error is an unrecognised statement). -/
import FinProto.Obl.SPrims
import FinProto.Obl.SNoOpaque
import FinProto.Props.PrimLemmas
namespace FinProto.Obl
open FinProto
theorem C18_no_unrecognised_statement : Gen.env.noOpaque = true := gen_noOpaque
/-- the primitives, template-translated from the current source, are the pinned ones (or unrecognised) -/
theorem C18_prims : primsAgree Gen.prims pinnedPrims = true := gen_prims_agree

end FinProto.Obl
