/- C06: encoding is append-only, context-free and repeatable — generic over every environment, instantiated at Gen.env;
   the regenerated schema has no unrecognised statement and its frames have the recognised shape. -/
import FinProto.Obl.SMirror
import FinProto.Obl.SNoOpaque
import FinProto.Props.EncLemmas
set_option linter.defProp false
namespace FinProto.Obl
open FinProto

theorem C06_no_unrecognised_statement : Gen.env.noOpaque = true := gen_noOpaque
theorem C06_mirror : Gen.env.mirrorOK = true := gen_mirrorOK
theorem C06_ctxFree : ∀ f ty v, CtxFree (encTy Gen.env f ty v) := ctxFree_encTy Gen.env
theorem C06_append_only {f ty : Nat} {v v' : Val} {pre out : Bytes}
    (h : encTy Gen.env f ty v pre = .ok (v', out)) : ∃ bs, out = pre ++ bs := enc_append_only h
theorem C06_context_free {f ty : Nat} {v v' : Val} {pre bs : Bytes}
    (h : encTy Gen.env f ty v pre = .ok (v', pre ++ bs)) : ∀ pre', encTy Gen.env f ty v pre' = .ok (v', pre' ++ bs) :=
  enc_context_free h
theorem C06_idempotent {f ty : Nat} {v v' : Val} {pre out : Bytes}
    (h : encTy Gen.env f ty v pre = .ok (v', out)) : encTy Gen.env f ty v' pre = .ok (v', out) := enc_idempotent h
def C06_concat := enc_concat Gen.env

end FinProto.Obl
