/- C01: Encode then Decode returns the same message, for every message type: `roundtrip` at the regenerated environment;
   its side conditions (Decode mirrors Encode statement by statement, union keys are earlier fields, prefix widths) are
   evaluated by the kernel on Gen. -/
import FinProto.Obl.SFramesTop
import FinProto.Obl.SKeys
import FinProto.Obl.SMirror
import FinProto.Obl.SNoOpaque
import FinProto.Obl.SWidths
import FinProto.Props.RoundTrip
namespace FinProto.Obl
open FinProto

theorem C01_mirror : Gen.env.mirrorOK = true := gen_mirrorOK
theorem C01_keys : Gen.env.keysOK = true := gen_keysOK
theorem C01_widths : Gen.env.widthsOK = true := gen_widthsOK
theorem C01_no_unrecognised_statement : Gen.env.noOpaque = true := gen_noOpaque

theorem C01_repo : ∀ f ty v pre v' out, canonTy Gen.env f ty v = true → encTy Gen.env f ty v pre = .ok (v', out) →
    ∃ bs, out = pre ++ bs ∧ ∀ rest, decTy Gen.env f ty (bs ++ rest) = .ok (v', rest) :=
  roundtrip Gen.env gen_mirrorOK gen_keysOK gen_widthsOK

/-- the decoded message is the original, except for a frame's self-computed fields -/
theorem C01_same : ∀ f ty v pre v' out, Gen.env.isFrame ty = false → canonTy Gen.env f ty v = true →
    encTy Gen.env f ty v pre = .ok (v', out) → v' = v :=
  enc_canon_val Gen.env gen_framesTop

/-- the same at the level of the API model (`encode` / `decode`, no fuel): a canonical message of type `ty`, encoded after
    arbitrary earlier content `pre` and followed by arbitrary further bytes `rest`, decodes to the message the encoder
    reports and leaves `rest` -/
theorem C01_api (ty : Nat) (fs : List Val) (pre : Bytes) (v' : Val) (out : Bytes)
    (hc : canonTy Gen.env Gen.env.fuel ty (.msg ty fs) = true) (h : encode Gen.env (.msg ty fs) pre = .ok (v', out)) :
    ∃ bs, out = pre ++ bs ∧ ∀ rest, decode Gen.env ty (bs ++ rest) = .ok (v', rest) :=
  C01_repo Gen.env.fuel ty (.msg ty fs) pre v' out hc h

end FinProto.Obl
