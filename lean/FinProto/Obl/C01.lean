import FinProto.Obl.Side
namespace FinProto.Obl
end FinProto.Obl
