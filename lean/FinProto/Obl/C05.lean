/- C05: a frame's checksum covers exactly that frame's bytes (frame_cks_exact at Gen.env), by the algorithm the
   pinned schema names; the algorithms themselves are C14. -/
import FinProto.Obl.SCks
import FinProto.Checks
import FinProto.Gen
import FinProto.Pinned
import FinProto.Props.EncLemmas
import FinProto.Props.ChecksumProofs
set_option linter.defProp false
namespace FinProto.Obl
open FinProto

/-- the self-measuring frames of the current source are exactly the pinned ones (other types may come and go) -/
theorem C05_frames_recognised : Gen.types.filterMap (·.frame) = Pinned.types.filterMap (·.frame) := by decide +kernel

/-- `frame_cks_exact` at the regenerated environment -/
def C05_repo := @frame_cks_exact Gen.env

/-- the value a frame stores is the exchange's algorithm: byte sum mod 256 (SSE, SZSE), CRC-32/ISO-HDLC (sample) -/
theorem C05_sse_alg (bs : Bytes) : cksNat .sse bs = (bs.map (·.toNat)).sum % 256 := sseGo_eq bs
theorem C05_szse_alg (bs : Bytes) : cksNat .szse bs = (bs.map (·.toNat)).sum % 256 := szseGo_eq bs
theorem C05_crc32_alg (bs : Bytes) :
    BitVec.ofNat 32 (cksNat .crc32 bs) = crcRef ⟨0x04C11DB7#32, 0xFFFFFFFF#32, 0xFFFFFFFF#32, true, true⟩ bs := by
  rw [← crc32Go_eq_ieee]
  simp [cksNat]

/-- the services' Calc bodies, template-translated from the current source, are the pinned ones (or unrecognised) -/
theorem C05_calc_bodies : cksAgree Gen.cksDefs pinnedCksDefs = true := gen_cks_agree

end FinProto.Obl
