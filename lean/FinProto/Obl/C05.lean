/- C05: a frame's checksum covers exactly that frame's bytes (frame_cks_exact at Gen.env), by the algorithm the
   pinned schema names; the algorithms themselves are C14. -/
import FinProto.Obl.SPinnedTypes
import FinProto.Props.EncLemmas
set_option linter.defProp false
namespace FinProto.Obl
open FinProto

theorem C05_frames_recognised : Gen.types.map (·.frame) = Pinned.types.map (·.frame) := by
  rw [gen_types_eq_pinned]

/-- `frame_cks_exact` at the regenerated environment -/
def C05_repo := @frame_cks_exact Gen.env

end FinProto.Obl
