/- C04: a frame's body-length field equals the number of body bytes emitted (frame_len_exact at Gen.env);
   the four self-measuring frames were recognised with the pinned shape. -/
import FinProto.Checks
import FinProto.Gen
import FinProto.Pinned
import FinProto.Props.EncLemmas
import FinProto.Props.NoSvcProofs
set_option linter.defProp false
namespace FinProto.Obl
open FinProto

/-- the self-measuring frames of the current source are exactly the pinned ones (other types may come and go) -/
theorem C04_frames_recognised : Gen.types.filterMap (·.frame) = Pinned.types.filterMap (·.frame) := by decide +kernel

/-- `frame_len_exact` at the regenerated environment -/
def C04_repo := @frame_len_exact Gen.env
/-- `frame_shape` at the regenerated environment -/
def C04_shape := @frame_shape Gen.env

/-- with no checksum service registered the appended bytes are still the ordinary frame (length patched to the body's
    size), followed by the caller's checksum -/
def C04_nosvc := @encFrameNS_frame Gen.env

end FinProto.Obl
