/-
  Optional obligation of the GoIR tie at message level (see SIRCalls.lean): every primitive op of every regenerated message
  type (encoder, decoder, frame header) was read from a logged call of a codec function.  It fails - and then only says that
  the tie theorems do not speak about those statements - when a body writes or reads a field by other means (raw
  `binary.Write` / `buf.Write` of an integer, which the symbolic executor also reads as an op).
-/
import FinProto.GenCodec
import FinProto.Gen
import FinProto.GoIRSpec
namespace FinProto.Obl

theorem ir_calls_cover : GoIR.callsCover Gen.types Gen.calls = true := by decide +kernel

end FinProto.Obl
