/- C20: independent messages encode/decode in parallel with the sequential results. -/
import FinProto.Par
import FinProto.Gen
namespace FinProto.Obl
open FinProto
theorem C20_repo (sched : List Nat) (ws : Nat → Par.Worker) (t : Nat) :
    Par.runSched Par.codecSys Gen.env sched ws t = Par.runAlone Par.codecSys Gen.env (sched.count t) (ws t) :=
  Par.workers_par_eq_seq Gen.env sched ws t
end FinProto.Obl
