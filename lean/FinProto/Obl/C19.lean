/- C19: the registry behaves as one atomic map under any concurrency — theorems about the small-step lock model. -/
import FinProto.Props.RegistryProofs
namespace FinProto.Obl
end FinProto.Obl
