/- C19: the registry behaves as one atomic map under any concurrency.  The bodies of Registry / Get / Remove / Clear are
   REGENERATED from codec/checksum.go as lock programs (Gen.lockProgs); the theorems are about the small-step semantics that
   interprets such programs for any number of goroutines: every well-bracketed set of programs is mutually exclusive and
   linearizable w.r.t. its own atomic semantics (kernel-evaluated: wellBracketed Gen.lockProgs), and the regenerated programs
   equal the pinned ones, whose atomic semantics is the map specification. -/
import FinProto.GenLock
import FinProto.Props.RegistryProofs
import FinProto.Props.LockProgProofs
namespace FinProto.Obl
open FinProto FinProto.Reg
set_option linter.defProp false

theorem C19_wellBracketed : wellBracketed Gen.lockProgs = true := by decide
theorem C19_progs_pinned : Gen.lockProgs = pinnedProgs := by decide

/-- mutual exclusion / data-race freedom of every interleaving of the regenerated programs -/
def C19_mutual_exclusion := @pmutual_exclusion Gen.lockProgs C19_wellBracketed
def C19_write_needs_lock := @pwrite_needs_lock Gen.lockProgs C19_wellBracketed

/-- every reachable state of every interleaving of the regenerated programs: completed calls returned what the map
    specification returns when the calls run atomically in lock-release order -/
theorem C19_linearizable {m0 : Map} {s : PState} (h : PReachable Gen.lockProgs m0 s) :
    let calls := s.lin.map (fun x => x.2.1)
    (runSpec m0 calls).2 = s.lin.map (fun x => x.2.2) ∧ (s.lock = .free → s.mem = (runSpec m0 calls).1) := by
  rw [C19_progs_pinned] at h
  have := pinned_linearizable h
  exact ⟨this.1, this.2.1⟩

def C19_real_time := @preal_time Gen.lockProgs

end FinProto.Obl
