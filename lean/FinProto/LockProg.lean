import FinProto.Registry
/-
  Lock PROGRAMS for the checksum-service registry of codec/checksum.go (property C19, regenerated
  model).  Instead of a hand-written step relation whose program counters are specific to the four
  Go functions (`Step` in Registry.lean), the step relation `PStep ps` INTERPRETS one small program
  per API function.  The programs `ps : Progs` are extracted from the Go source on every run and only
  have to pass the decidable check `wellBracketed`; `pinnedProgs` is the expected extraction.
  Definitions only; core Lean only.
-/
namespace FinProto.Reg

inductive Stmt
  | lock | rlock | deferUnlock | deferRUnlock
  | ifExistsRetFalse        -- if _, exists := cache[name]; exists { return false }
  | ifExistsRetLoaded       -- if v, exists := cache[name]; exists { return v, exists }
  | store                   -- cache[name] = service
  | delete                  -- delete(cache, name)
  | replace                 -- cache = make(map…)
  | retTrue | retFalse | retNone
  | opaque                  -- statement the extractor did not recognise
  deriving DecidableEq, Repr

abbrev Prog := List Stmt

/-- one program per API function (fields in parentheses: `where reg get remove clear : Prog` would
    parse `get remove clear` as binders of the field `reg`) -/
structure Progs where (reg get remove clear : Prog)
  deriving DecidableEq

def pinnedProgs : Progs := { reg := [.lock, .deferUnlock, .ifExistsRetFalse, .store, .retTrue],
                             get := [.rlock, .deferRUnlock, .ifExistsRetLoaded, .retNone],
                             remove := [.lock, .deferUnlock, .delete], clear := [.lock, .deferUnlock, .replace] }

/-- the program a call executes -/
def progOf (ps : Progs) : Call → Prog
  | .reg _ _ => ps.reg
  | .get _ => ps.get
  | .remove _ => ps.remove
  | .clear => ps.clear

/-- the `name` a call's statements refer to (`cs.Algorithm()` / the `name` parameter); `Clear` has
    none, and no statement of a sensible `Clear` program uses it -/
def keyOf : Call → Name
  | .reg n _ => n
  | .get n => n
  | .remove n => n
  | .clear => 0

/-- the `service` a call's `store` statement writes -/
def valOf : Call → Svc
  | .reg _ s => s
  | _ => 0

/-! ### statements -/

/-- lock-manipulating statements -/
def isLockStmt : Stmt → Bool
  | .lock | .rlock | .deferUnlock | .deferRUnlock => true
  | _ => false

/-- statements that write the map -/
def isWrite : Stmt → Bool
  | .store | .delete | .replace => true
  | _ => false

/-- a recognised statement that is not a lock statement: the eight "body" statements -/
def isBody (st : Stmt) : Bool := !isLockStmt st && st != .opaque

/-- a body statement that does not write the map -/
def isRO (st : Stmt) : Bool := isBody st && !isWrite st

/-- The effect of ONE statement of call `c` on the map, and `some r` if the statement returns `r`.
    Lock statements and `opaque` are no-ops here (they are given their meaning by `PStep`; they
    are skipped by `atomicSem`). -/
def execStmt (st : Stmt) (c : Call) (m : Map) : Map × Option Res :=
  match st with
  | .ifExistsRetFalse =>
    match get m (keyOf c) with
    | some _ => (m, some (.bool false))
    | none => (m, none)
  | .ifExistsRetLoaded =>
    match get m (keyOf c) with
    | some v => (m, some (.svc (some v)))
    | none => (m, none)
  | .store => (insert m (keyOf c) (valOf c), none)
  | .delete => (erase m (keyOf c), none)
  | .replace => ([], none)
  | .retTrue => (m, some (.bool true))
  | .retFalse => (m, some (.bool false))
  | .retNone => (m, some (.svc none))
  | .lock | .rlock | .deferUnlock | .deferRUnlock | .opaque => (m, none)

/-- running a program's statements atomically (lock statements ignored); falling off the end
    returns `.unit` -/
def atomicSem (p : Prog) (c : Call) (m : Map) : Map × Res :=
  match p with
  | [] => (m, .unit)
  | st :: rest =>
    match (execStmt st c m).2 with
    | some r => ((execStmt st c m).1, r)
    | none => atomicSem rest c (execStmt st c m).1

/-- run a list of calls atomically, in order, each with its program -/
def runAtomic (ps : Progs) (m : Map) : List Call → Map × List Res
  | [] => (m, [])
  | c :: cs =>
    let (m', r) := atomicSem (progOf ps c) c m
    let (m'', rs) := runAtomic ps m' cs
    (m'', r :: rs)

/-! ### the decidable check on extracted programs -/

/-- one program is a single lock bracket: `lock, deferUnlock, body…` with a body of recognised
    non-lock statements, or `rlock, deferRUnlock, body…` with a body of recognised non-lock
    statements that do not write the map -/
def wbProg (p : Prog) : Bool :=
  match p with
  | .lock :: .deferUnlock :: body => body.all isBody
  | .rlock :: .deferRUnlock :: body => body.all isRO
  | _ => false

def wellBracketed (ps : Progs) : Bool :=
  wbProg ps.reg && wbProg ps.get && wbProg ps.remove && wbProg ps.clear

/-! ### concurrent small-step model: any number of goroutines interpreting `ps` -/

/-- the pending deferred unlock of a running call -/
inductive Pend
  | nothing
  | X          -- `defer mu.Unlock()` registered
  | S          -- `defer mu.RUnlock()` registered
  deriving DecidableEq, Repr

/-- what a goroutine is doing -/
inductive TSt
  | idle
  /-- executing call `c`: remaining statements, pending deferred unlock, result slot -/
  | run (c : Call) (rest : Prog) (pend : Pend) (res : Option Res)
  /-- deferred unlock done; about to return `r` -/
  | ret (c : Call) (r : Res)
  deriving DecidableEq, Repr

structure PState where
  lock : Lock
  mem : Map                                  -- the Go map
  th : Tid → TSt
  hist : List Event                          -- invocations / returns in real-time order
  lin : List (Tid × Call × Res)              -- calls in the order they released the lock

def setTh (th : Tid → TSt) (t : Tid) (x : TSt) : Tid → TSt := fun u => if u = t then x else th u

def pinit (m0 : Map) : PState :=
  { lock := .free, mem := m0, th := fun _ => .idle, hist := [], lin := [] }

/-- `some r` when the running call is at its return sequence with result `r`: the result slot has
    been filled by a `ret*` / successful `ifExists…` statement, or the program has run off its end
    (result `.unit`) -/
def finished : Prog → Option Res → Option Res
  | _, some r => some r
  | [], none => some .unit
  | _ :: _, none => none

/-- the statements still to run after a statement that did (`some _`) / did not (`none`) return -/
def contRest : Option Res → Prog → Prog
  | some _, _ => []
  | none, rest => rest

/-- One micro-step of one goroutine.  ONE statement per step; the return sequence is two steps:
    first the deferred unlock (`unlock` / `runlock`; it appends the call and its result to `lin`),
    then `return` (it appends `.ret` to `hist`).  A call that reaches its return sequence with no
    deferred unlock registered (impossible for well-bracketed programs) takes `finishNoDefer`
    instead of the unlock step. -/
inductive PStep (ps : Progs) : PState → PState → Prop
  | invoke (s : PState) (t : Tid) (c : Call) (h : s.th t = .idle) :
      PStep ps s { s with th := setTh s.th t (.run c (progOf ps c) .nothing none),
                          hist := s.hist ++ [.inv t c] }
  /-- `mu.Lock()`: requires the lock free -/
  | lock (s : PState) (t : Tid) (c : Call) (rest : Prog) (pend : Pend)
      (h : s.th t = .run c (.lock :: rest) pend none) (hl : s.lock = .free) :
      PStep ps s { s with lock := .excl t, th := setTh s.th t (.run c rest pend none) }
  /-- `mu.RLock()`: requires the lock free … -/
  | rlockFree (s : PState) (t : Tid) (c : Call) (rest : Prog) (pend : Pend)
      (h : s.th t = .run c (.rlock :: rest) pend none) (hl : s.lock = .free) :
      PStep ps s { s with lock := .shared [t], th := setTh s.th t (.run c rest pend none) }
  /-- … or shared -/
  | rlockShared (s : PState) (t : Tid) (c : Call) (rest : Prog) (pend : Pend) (ts : List Tid)
      (h : s.th t = .run c (.rlock :: rest) pend none) (hl : s.lock = .shared ts) :
      PStep ps s { s with lock := .shared (t :: ts), th := setTh s.th t (.run c rest pend none) }
  /-- `defer mu.Unlock()`: only registers the pending unlock -/
  | deferUnlock (s : PState) (t : Tid) (c : Call) (rest : Prog) (pend : Pend)
      (h : s.th t = .run c (.deferUnlock :: rest) pend none) :
      PStep ps s { s with th := setTh s.th t (.run c rest .X none) }
  /-- `defer mu.RUnlock()`: only registers the pending unlock -/
  | deferRUnlock (s : PState) (t : Tid) (c : Call) (rest : Prog) (pend : Pend)
      (h : s.th t = .run c (.deferRUnlock :: rest) pend none) :
      PStep ps s { s with th := setTh s.th t (.run c rest .S none) }
  /-- one of the eight body statements (`ifExists…`, `store`, `delete`, `replace`, `ret*`):
      its effect on the map and on the result slot is `execStmt`; a statement that returns
      discards the remaining statements -/
  | stmt (s : PState) (t : Tid) (c : Call) (st : Stmt) (rest : Prog) (pend : Pend)
      (h : s.th t = .run c (st :: rest) pend none) (hb : isBody st = true) :
      PStep ps s { s with mem := (execStmt st c s.mem).1,
                          th := setTh s.th t (.run c (contRest (execStmt st c s.mem).2 rest) pend
                                  (execStmt st c s.mem).2) }
  /-- an unrecognised statement may do anything to the map (`wellBracketed` rejects it) -/
  | opaque (s : PState) (t : Tid) (c : Call) (rest : Prog) (pend : Pend) (m' : Map)
      (h : s.th t = .run c (.opaque :: rest) pend none) :
      PStep ps s { s with mem := m', th := setTh s.th t (.run c rest pend none) }
  /-- return sequence, part 1: the deferred `mu.Unlock()` -/
  | unlock (s : PState) (t : Tid) (c : Call) (rest : Prog) (res : Option Res) (r : Res)
      (h : s.th t = .run c rest .X res) (hf : finished rest res = some r) :
      PStep ps s { s with lock := .free, th := setTh s.th t (.ret c r), lin := s.lin ++ [(t, c, r)] }
  /-- return sequence, part 1: the deferred `mu.RUnlock()` -/
  | runlock (s : PState) (t : Tid) (c : Call) (rest : Prog) (res : Option Res) (r : Res)
      (ts : List Tid) (h : s.th t = .run c rest .S res) (hf : finished rest res = some r)
      (hl : s.lock = .shared ts) :
      PStep ps s { s with lock := (if ts.erase t = [] then .free else .shared (ts.erase t)),
                          th := setTh s.th t (.ret c r), lin := s.lin ++ [(t, c, r)] }
  /-- return sequence, part 1 when nothing was deferred -/
  | finishNoDefer (s : PState) (t : Tid) (c : Call) (rest : Prog) (res : Option Res) (r : Res)
      (h : s.th t = .run c rest .nothing res) (hf : finished rest res = some r) :
      PStep ps s { s with th := setTh s.th t (.ret c r), lin := s.lin ++ [(t, c, r)] }
  /-- return sequence, part 2: the call returns -/
  | return (s : PState) (t : Tid) (c : Call) (r : Res) (h : s.th t = .ret c r) :
      PStep ps s { s with th := setTh s.th t .idle, hist := s.hist ++ [.ret t c r] }

inductive PReachable (ps : Progs) (m0 : Map) : PState → Prop
  | init : PReachable ps m0 (pinit m0)
  | step {s s' : PState} : PReachable ps m0 s → PStep ps s s' → PReachable ps m0 s'

end FinProto.Reg
