/-
  The schema interpreter: what `Encode` / `Decode` of a message type do, as a function of the op lists
  the translator extracted.  Structural recursion on fuel; sequences and repetitions go through
  named combinators only.
-/
import FinProto.Prim
import FinProto.Schema
namespace FinProto

/-! ### decoding -/

def optR (o : Option α) (k : α → R β) : R β :=
  match o with
  | some a => k a
  | none => failR

@[simp] theorem optR_some (a : α) (k : α → R β) : optR (some a) k = k a := rfl
@[simp] theorem optR_none (k : α → R β) : optR (none : Option α) k = failR := rfl

/-- the body type a union op selects, given the fields decoded (or held) so far -/
def unionTy (env : Env) (key tbl : Nat) (fields : List Val) : Option Nat :=
  (fields[key]?.bind keyOf).bind (env.lookup tbl)

def decOp (env : Env) (decTy : Nat → R Val) (acc : List Val) : Op → R Val
  | .scalar w e => mapR Val.num (readScalar w e)
  | .fixed n pad left => mapR Val.str (readFixed n (UInt8.ofNat pad) left)
  | .vstr pw e => mapR Val.str (readVstr pw e)
  | .nums cw w e => mapR Val.nums (readNums cw w e)
  | .fixeds cw n pad left e => mapR Val.strs (readFixeds cw n (UInt8.ofNat pad) left e)
  | .vstrs cw pw e => mapR Val.strs (readVstrs cw pw e)
  | .nested ty _ => decTy ty
  | .objs cw ty e => mapR Val.msgs (readList cw e (decTy ty))
  | .union key tbl _ => optR (unionTy env key tbl acc) decTy
  | .opaque => failR

/-- statements run in order; each sees the fields assigned so far (a union reads its key there) -/
def decSeq (step : List Val → Op → R Val) : List Op → List Val → R (List Val)
  | [], acc => pureR acc
  | op :: ops, acc => bindR (step acc op) (fun v => decSeq step ops (acc ++ [v]))

def decTy (env : Env) : Nat → Nat → R Val
  | 0, _ => failR
  | f+1, ty => optR env.types[ty]? (fun td =>
      mapR (Val.msg ty) (decSeq (decOp env (decTy env f)) td.dec []))

/-! ### zero values (what `&T{}` holds) -/

def zeroOp (zeroTy : Nat → Val) : Op → Val
  | .scalar _ _ => .num 0
  | .fixed _ _ _ => .str []
  | .vstr _ _ => .str []
  | .nums _ _ _ => .nums []
  | .fixeds _ _ _ _ _ => .strs []
  | .vstrs _ _ _ => .strs []
  | .nested ty g => if g = .val then zeroTy ty else .nil
  | .objs _ _ _ => .msgs []
  | .union _ _ _ => .nil
  | .opaque => .nil

def zeroTy (env : Env) : Nat → Nat → Val
  | 0, _ => .nil
  | f+1, ty =>
    match env.types[ty]? with
    | some td => .msg ty (td.dec.map (zeroOp (zeroTy env f)))
    | none => .nil

/-! ### encoding (threads the output buffer, as the Go code does) -/

/-- an encoder step: buffer in, updated value and buffer out -/
abbrev E (α : Type) := Bytes → Outcome (α × Bytes)

def errE : E α := fun _ => .err
def panicE : E α := fun _ => .panic
def bindE (x : E α) (f : α → E β) : E β := fun buf => (x buf).bind (fun p => f p.1 p.2)
def mapE (f : α → β) (x : E α) : E β := fun buf => (x buf).map (fun p => (f p.1, p.2))
/-- append the primitive's output to the buffer and keep the field value -/
def emit (v : α) (o : Outcome Bytes) : E α := fun buf => o.map (fun bs => (v, buf ++ bs))

/-- `binary.<Order>.PutUint32(buf.Bytes()[pos:pos+4], v)` -/
def patch (buf : Bytes) (pos : Nat) (bs : Bytes) : Bytes :=
  buf.take pos ++ bs ++ buf.drop (pos + bs.length)

def encSeq (step : Op → Val → E Val) : List Op → List Val → E (List Val)
  | [], [] => fun buf => .ok ([], buf)
  | op :: ops, v :: vs => bindE (step op v) (fun v' => mapE (fun vs' => v' :: vs') (encSeq step ops vs))
  | _, _ => errE

/-- WriteObjectList's loop -/
def encAll (f : Val → E Val) : List Val → E (List Val)
  | [] => fun buf => .ok ([], buf)
  | v :: vs => bindE (f v) (fun v' => mapE (fun vs' => v' :: vs') (encAll f vs))

/-- a pointer / interface field: absent values are dereferenced, materialised or skipped -/
def encPtr (encTy : Nat → Val → E Val) (g : Guard) (mk : Option Val) (ty? : Option Nat) : Val → E Val
  | .nil =>
    match g with
    | .none => panicE
    | .val => errE
    | .skip => fun buf => .ok (.nil, buf)
    | .mat =>
      match mk, ty? with
      | some z, some ty => encTy ty z
      | _, _ => errE
  | .msg ty' fs => encTy ty' (.msg ty' fs)
  | _ => errE

def encOp (env : Env) (encTy : Nat → Val → E Val) (zero : Nat → Val) (all : List Val) : Op → Val → E Val
  | .scalar w e, .num n => emit (.num n) (.ok (writeScalar w e n))
  | .fixed n pad left, .str s => emit (.str s) (.ok (writeFixed n (UInt8.ofNat pad) left s))
  | .vstr pw e, .str s => emit (.str s) (writeVstr pw e s)
  | .nums cw w e, .nums l => emit (.nums l) (writeNums cw w e l)
  | .fixeds cw n pad left e, .strs l => emit (.strs l) (writeFixeds cw n (UInt8.ofNat pad) left e l)
  | .vstrs cw pw e, .strs l => emit (.strs l) (writeVstrs cw pw e l)
  | .nested ty g, v =>
    match v with
    | .msg ty' fs => if ty' = ty then encTy ty (.msg ty' fs) else errE
    | .nil => encPtr encTy g (some (zero ty)) (some ty) .nil
    | _ => errE
  | .objs cw ty e, .msgs l =>
    bindE (emit () (writeLen cw e l.length)) (fun _ => mapE Val.msgs (encAll (encTy ty) l))
  | .union key tbl g, v =>
    let ty? := unionTy env key tbl all
    encPtr encTy g (ty?.map zero) ty? v
  | _, _ => errE

/-- the encoder of a self-measuring frame, statement by statement -/
def encFrame (env : Env) (encTy : Nat → Val → E Val) (zero : Nat → Val) (fd : FrameDesc) (ty : Nat)
    (fields : List Val) : E Val := fun buf =>
  let start := buf.length                                             -- frameStart := buf.Len()
  let nh := fd.hdr.length
  (encSeq (encOp env encTy zero fields) fd.hdr (fields.take nh) buf).bind fun (hv, b1) =>
  let pos := b1.length                                                -- bodyPos := buf.Len()
  let b2 := b1 ++ toE fd.e fd.lenW 0                                  -- placeholder
  let bodyStart := b2.length                                          -- bodyStart := buf.Len()
  let ty? := unionTy env fd.key fd.tbl fields
  match fields[nh + 1]? with
  | none => .err
  | some body =>
  (encPtr encTy fd.g (ty?.map zero) ty? body b2).bind fun (body', b3) =>
  let len := (b3.length - bodyStart) % 2 ^ 32                         -- uint32(bodyEnd - bodyStart)
  let b4 := patch b3 pos (toE fd.e fd.lenW len)                       -- PutUint32(buf.Bytes()[pos:pos+4], len)
  match fd.cks with
  | none => if fields.length = nh + 2 then .ok (.msg ty (hv ++ [.num len, body']), b4) else .err
  | some (alg, w) =>
    let c := cksNat alg (b4.drop start)                               -- Calc(buf.Bytes()[frameStart:])
    if fields.length = nh + 3 then .ok (.msg ty (hv ++ [.num len, body', .num c]), b4 ++ toE fd.e w c)
    else .err

def encTy (env : Env) : Nat → Nat → Val → E Val
  | 0, _, _ => errE
  | f+1, ty, .msg ty' fields =>
    if ty' = ty then
      match env.types[ty]? with
      | none => errE
      | some td =>
        match td.frame with
        | none => mapE (Val.msg ty) (encSeq (encOp env (encTy env f) (zeroTy env f) fields) td.enc fields)
        | some fd => encFrame env (encTy env f) (zeroTy env f) fd ty fields
    else errE
  | _+1, _, .nil => panicE
  | _+1, _, _ => errE

/-- fuel that suffices for any acyclic environment -/
def Env.fuel (env : Env) : Nat := env.types.length + 1

def encode (env : Env) (v : Val) : E Val :=
  match v with
  | .msg ty _ => encTy env env.fuel ty v
  | _ => errE

def decode (env : Env) (ty : Nat) : R Val := decTy env env.fuel ty

end FinProto
