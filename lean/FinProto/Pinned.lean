-- PINNED SCHEMA (committed; checks never rewrite it): the five protocols as laid out at the pinned commit
-- (SSE bin v0.57, SZSE bin v1.29, BSE trade bin v0.9, risk v0.1.0, sample; plus the hand-written big-endian
-- sample.RiskControlRequest/SubOrder), produced once by `bin/pin` (xlate -ns Pinned) and reviewed by hand.  C02 compares
-- the regenerated `Gen` data and the library's bytes against THIS file, not against the current code.
import FinProto.Schema
namespace FinProto.Pinned
open FinProto

/-- bse.AllegeQuote -/
def t0 : TyDef := { nfields := 28, enc := [.scalar 4 .le, .scalar 8 .le, .fixed 3 32 false, .fixed 6 32 false, .fixed 6 32 false, .fixed 8 32 false, .fixed 4 32 false, .scalar 2 .le, .fixed 2 32 false, .scalar 8 .le, .fixed 32 32 false, .fixed 16 32 false, .fixed 16 32 false, .fixed 10 32 false, .fixed 10 32 false, .fixed 10 32 false, .fixed 10 32 false, .fixed 10 32 false, .scalar 1 .le, .scalar 8 .le, .scalar 8 .le, .scalar 8 .le, .scalar 8 .le, .scalar 1 .le, .scalar 8 .le, .scalar 1 .le, .fixed 120 32 false, .union 2 0 .mat], dec := [.scalar 4 .le, .scalar 8 .le, .fixed 3 32 false, .fixed 6 32 false, .fixed 6 32 false, .fixed 8 32 false, .fixed 4 32 false, .scalar 2 .le, .fixed 2 32 false, .scalar 8 .le, .fixed 32 32 false, .fixed 16 32 false, .fixed 16 32 false, .fixed 10 32 false, .fixed 10 32 false, .fixed 10 32 false, .fixed 10 32 false, .fixed 10 32 false, .scalar 1 .le, .scalar 8 .le, .scalar 8 .le, .scalar 8 .le, .scalar 8 .le, .scalar 1 .le, .scalar 8 .le, .scalar 1 .le, .fixed 120 32 false, .union 2 0 .mat], frame := none }
/-- bse.AllegeQuoteExtend070 -/
def t1 : TyDef := { nfields := 2, enc := [.fixed 1 32 false, .fixed 6 32 false], dec := [.fixed 1 32 false, .fixed 6 32 false], frame := none }
/-- bse.AllegeQuoteResponse -/
def t2 : TyDef := { nfields := 24, enc := [.scalar 4 .le, .scalar 8 .le, .fixed 3 32 false, .fixed 6 32 false, .fixed 6 32 false, .fixed 8 32 false, .fixed 4 32 false, .scalar 2 .le, .fixed 2 32 false, .scalar 8 .le, .fixed 32 32 false, .fixed 16 32 false, .fixed 16 32 false, .fixed 10 32 false, .fixed 10 32 false, .fixed 10 32 false, .fixed 10 32 false, .scalar 1 .le, .scalar 1 .le, .scalar 8 .le, .scalar 8 .le, .scalar 8 .le, .scalar 1 .le, .scalar 1 .le], dec := [.scalar 4 .le, .scalar 8 .le, .fixed 3 32 false, .fixed 6 32 false, .fixed 6 32 false, .fixed 8 32 false, .fixed 4 32 false, .scalar 2 .le, .fixed 2 32 false, .scalar 8 .le, .fixed 32 32 false, .fixed 16 32 false, .fixed 16 32 false, .fixed 10 32 false, .fixed 10 32 false, .fixed 10 32 false, .fixed 10 32 false, .scalar 1 .le, .scalar 1 .le, .scalar 8 .le, .scalar 8 .le, .scalar 8 .le, .scalar 1 .le, .scalar 1 .le], frame := none }
/-- bse.BjseBinary -/
def t3 : TyDef := { nfields := 4, enc := [.scalar 4 .le, .scalar 4 .le, .union 0 1 .mat, .scalar 4 .le], dec := [.scalar 4 .le, .scalar 4 .le, .union 0 1 .mat, .scalar 4 .le], frame := none }
/-- bse.BusinessReject -/
def t4 : TyDef := { nfields := 10, enc := [.fixed 3 32 false, .scalar 8 .le, .fixed 6 32 false, .fixed 8 32 false, .fixed 4 32 false, .scalar 8 .le, .scalar 4 .le, .fixed 10 32 false, .scalar 2 .le, .fixed 50 32 false], dec := [.fixed 3 32 false, .scalar 8 .le, .fixed 6 32 false, .fixed 8 32 false, .fixed 4 32 false, .scalar 8 .le, .scalar 4 .le, .fixed 10 32 false, .scalar 2 .le, .fixed 50 32 false], frame := none }
/-- bse.CancelReject -/
def t5 : TyDef := { nfields := 19, enc := [.scalar 4 .le, .scalar 8 .le, .fixed 3 32 false, .fixed 6 32 false, .fixed 6 32 false, .fixed 8 32 false, .fixed 4 32 false, .scalar 2 .le, .fixed 2 32 false, .scalar 8 .le, .fixed 32 32 false, .fixed 10 32 false, .fixed 10 32 false, .fixed 10 32 false, .fixed 2 32 false, .fixed 1 32 false, .scalar 2 .le, .fixed 16 32 false, .fixed 16 32 false], dec := [.scalar 4 .le, .scalar 8 .le, .fixed 3 32 false, .fixed 6 32 false, .fixed 6 32 false, .fixed 8 32 false, .fixed 4 32 false, .scalar 2 .le, .fixed 2 32 false, .scalar 8 .le, .fixed 32 32 false, .fixed 10 32 false, .fixed 10 32 false, .fixed 10 32 false, .fixed 2 32 false, .fixed 1 32 false, .scalar 2 .le, .fixed 16 32 false, .fixed 16 32 false], frame := none }
/-- bse.ConfirmExtend010 -/
def t6 : TyDef := { nfields := 5, enc := [.scalar 8 .le, .scalar 8 .le, .scalar 2 .le, .fixed 1 32 false, .fixed 1 32 false], dec := [.scalar 8 .le, .scalar 8 .le, .scalar 2 .le, .fixed 1 32 false, .fixed 1 32 false], frame := none }
/-- bse.ConfirmExtend040 -/
def t7 : TyDef := { nfields := 5, enc := [.scalar 8 .le, .scalar 8 .le, .scalar 2 .le, .fixed 1 32 false, .fixed 1 32 false], dec := [.scalar 8 .le, .scalar 8 .le, .scalar 2 .le, .fixed 1 32 false, .fixed 1 32 false], frame := none }
/-- bse.ConfirmExtend041 -/
def t8 : TyDef := { nfields := 0, enc := [], dec := [], frame := none }
/-- bse.ConfirmExtend042 -/
def t9 : TyDef := { nfields := 0, enc := [], dec := [], frame := none }
/-- bse.ConfirmExtend043 -/
def t10 : TyDef := { nfields := 0, enc := [], dec := [], frame := none }
/-- bse.ConfirmExtend044 -/
def t11 : TyDef := { nfields := 0, enc := [], dec := [], frame := none }
/-- bse.ConfirmExtend045 -/
def t12 : TyDef := { nfields := 0, enc := [], dec := [], frame := none }
/-- bse.ConfirmExtend050 -/
def t13 : TyDef := { nfields := 3, enc := [.scalar 2 .le, .scalar 1 .le, .fixed 2 32 false], dec := [.scalar 2 .le, .scalar 1 .le, .fixed 2 32 false], frame := none }
/-- bse.ExecutionConfirm -/
def t14 : TyDef := { nfields := 28, enc := [.scalar 4 .le, .scalar 8 .le, .fixed 3 32 false, .fixed 6 32 false, .fixed 6 32 false, .fixed 8 32 false, .fixed 4 32 false, .scalar 2 .le, .fixed 2 32 false, .scalar 8 .le, .fixed 32 32 false, .fixed 16 32 false, .fixed 10 32 false, .fixed 10 32 false, .fixed 16 32 false, .fixed 1 32 false, .fixed 1 32 false, .scalar 2 .le, .scalar 8 .le, .scalar 8 .le, .fixed 1 32 false, .fixed 1 32 false, .scalar 8 .le, .scalar 8 .le, .fixed 10 32 false, .fixed 2 32 false, .fixed 4 32 false, .union 2 2 .mat], dec := [.scalar 4 .le, .scalar 8 .le, .fixed 3 32 false, .fixed 6 32 false, .fixed 6 32 false, .fixed 8 32 false, .fixed 4 32 false, .scalar 2 .le, .fixed 2 32 false, .scalar 8 .le, .fixed 32 32 false, .fixed 16 32 false, .fixed 10 32 false, .fixed 10 32 false, .fixed 16 32 false, .fixed 1 32 false, .fixed 1 32 false, .scalar 2 .le, .scalar 8 .le, .scalar 8 .le, .fixed 1 32 false, .fixed 1 32 false, .scalar 8 .le, .scalar 8 .le, .fixed 10 32 false, .fixed 2 32 false, .fixed 4 32 false, .union 2 2 .mat], frame := none }
/-- bse.ExecutionReport -/
def t15 : TyDef := { nfields := 24, enc := [.scalar 4 .le, .scalar 8 .le, .fixed 3 32 false, .fixed 6 32 false, .fixed 6 32 false, .fixed 8 32 false, .fixed 4 32 false, .scalar 2 .le, .fixed 2 32 false, .scalar 8 .le, .fixed 32 32 false, .fixed 16 32 false, .fixed 10 32 false, .fixed 16 32 false, .fixed 1 32 false, .fixed 1 32 false, .scalar 8 .le, .scalar 8 .le, .scalar 8 .le, .scalar 8 .le, .fixed 1 32 false, .fixed 10 32 false, .fixed 2 32 false, .union 2 3 .mat], dec := [.scalar 4 .le, .scalar 8 .le, .fixed 3 32 false, .fixed 6 32 false, .fixed 6 32 false, .fixed 8 32 false, .fixed 4 32 false, .scalar 2 .le, .fixed 2 32 false, .scalar 8 .le, .fixed 32 32 false, .fixed 16 32 false, .fixed 10 32 false, .fixed 16 32 false, .fixed 1 32 false, .fixed 1 32 false, .scalar 8 .le, .scalar 8 .le, .scalar 8 .le, .scalar 8 .le, .fixed 1 32 false, .fixed 10 32 false, .fixed 2 32 false, .union 2 3 .mat], frame := none }
/-- bse.ExtendNewOrder010 -/
def t16 : TyDef := { nfields := 7, enc := [.scalar 8 .le, .scalar 8 .le, .scalar 2 .le, .fixed 1 32 false, .fixed 1 32 false, .fixed 1 32 false, .fixed 1 32 false], dec := [.scalar 8 .le, .scalar 8 .le, .scalar 2 .le, .fixed 1 32 false, .fixed 1 32 false, .fixed 1 32 false, .fixed 1 32 false], frame := none }
/-- bse.ExtendNewOrder040 -/
def t17 : TyDef := { nfields := 5, enc := [.scalar 8 .le, .scalar 8 .le, .scalar 2 .le, .fixed 1 32 false, .fixed 1 32 false], dec := [.scalar 8 .le, .scalar 8 .le, .scalar 2 .le, .fixed 1 32 false, .fixed 1 32 false], frame := none }
/-- bse.ExtendNewOrder041 -/
def t18 : TyDef := { nfields := 0, enc := [], dec := [], frame := none }
/-- bse.ExtendNewOrder042 -/
def t19 : TyDef := { nfields := 0, enc := [], dec := [], frame := none }
/-- bse.ExtendNewOrder043 -/
def t20 : TyDef := { nfields := 0, enc := [], dec := [], frame := none }
/-- bse.ExtendNewOrder044 -/
def t21 : TyDef := { nfields := 0, enc := [], dec := [], frame := none }
/-- bse.ExtendNewOrder045 -/
def t22 : TyDef := { nfields := 0, enc := [], dec := [], frame := none }
/-- bse.ExtendNewOrder050 -/
def t23 : TyDef := { nfields := 3, enc := [.scalar 2 .le, .scalar 1 .le, .fixed 2 32 false], dec := [.scalar 2 .le, .scalar 1 .le, .fixed 2 32 false], frame := none }
/-- bse.Heartbeat -/
def t24 : TyDef := { nfields := 0, enc := [], dec := [], frame := none }
/-- bse.Logon -/
def t25 : TyDef := { nfields := 5, enc := [.fixed 20 32 false, .fixed 20 32 false, .scalar 4 .le, .fixed 16 32 false, .fixed 32 32 false], dec := [.fixed 20 32 false, .fixed 20 32 false, .scalar 4 .le, .fixed 16 32 false, .fixed 32 32 false], frame := none }
/-- bse.Logout -/
def t26 : TyDef := { nfields := 2, enc := [.scalar 4 .le, .fixed 200 32 false], dec := [.scalar 4 .le, .fixed 200 32 false], frame := none }
/-- bse.NewOrder -/
def t27 : TyDef := { nfields := 17, enc := [.fixed 3 32 false, .fixed 6 32 false, .fixed 8 32 false, .fixed 4 32 false, .scalar 2 .le, .fixed 2 32 false, .scalar 8 .le, .fixed 32 32 false, .fixed 10 32 false, .fixed 10 32 false, .fixed 2 32 false, .fixed 4 32 false, .fixed 1 32 false, .fixed 1 32 false, .scalar 8 .le, .scalar 8 .le, .union 0 4 .mat], dec := [.fixed 3 32 false, .fixed 6 32 false, .fixed 8 32 false, .fixed 4 32 false, .scalar 2 .le, .fixed 2 32 false, .scalar 8 .le, .fixed 32 32 false, .fixed 10 32 false, .fixed 10 32 false, .fixed 2 32 false, .fixed 4 32 false, .fixed 1 32 false, .fixed 1 32 false, .scalar 8 .le, .scalar 8 .le, .union 0 4 .mat], frame := none }
/-- bse.NoPartitions -/
def t28 : TyDef := { nfields := 2, enc := [.scalar 4 .le, .fixed 20 32 false], dec := [.scalar 4 .le, .fixed 20 32 false], frame := none }
/-- bse.OrderCancelRequest -/
def t29 : TyDef := { nfields := 14, enc := [.fixed 3 32 false, .fixed 6 32 false, .fixed 8 32 false, .fixed 4 32 false, .scalar 2 .le, .fixed 2 32 false, .scalar 8 .le, .fixed 32 32 false, .fixed 10 32 false, .fixed 10 32 false, .fixed 10 32 false, .fixed 2 32 false, .fixed 16 32 false, .scalar 8 .le], dec := [.fixed 3 32 false, .fixed 6 32 false, .fixed 8 32 false, .fixed 4 32 false, .scalar 2 .le, .fixed 2 32 false, .scalar 8 .le, .fixed 32 32 false, .fixed 10 32 false, .fixed 10 32 false, .fixed 10 32 false, .fixed 2 32 false, .fixed 16 32 false, .scalar 8 .le], frame := none }
/-- bse.PlatformInfo -/
def t30 : TyDef := { nfields := 2, enc := [.scalar 2 .le, .objs 2 28 .le], dec := [.scalar 2 .le, .objs 2 28 .le], frame := none }
/-- bse.PlatformStateInfo -/
def t31 : TyDef := { nfields := 2, enc := [.scalar 2 .le, .scalar 2 .le], dec := [.scalar 2 .le, .scalar 2 .le], frame := none }
/-- bse.Quote -/
def t32 : TyDef := { nfields := 17, enc := [.fixed 3 32 false, .fixed 6 32 false, .fixed 8 32 false, .fixed 4 32 false, .scalar 2 .le, .fixed 2 32 false, .scalar 8 .le, .fixed 32 32 false, .fixed 10 32 false, .fixed 10 32 false, .fixed 10 32 false, .scalar 1 .le, .scalar 8 .le, .scalar 8 .le, .scalar 8 .le, .scalar 8 .le, .union 0 5 .mat], dec := [.fixed 3 32 false, .fixed 6 32 false, .fixed 8 32 false, .fixed 4 32 false, .scalar 2 .le, .fixed 2 32 false, .scalar 8 .le, .fixed 32 32 false, .fixed 10 32 false, .fixed 10 32 false, .fixed 10 32 false, .scalar 1 .le, .scalar 8 .le, .scalar 8 .le, .scalar 8 .le, .scalar 8 .le, .union 0 5 .mat], frame := none }
/-- bse.Quote1 -/
def t33 : TyDef := { nfields := 3, enc := [.fixed 10 32 false, .scalar 8 .le, .scalar 8 .le], dec := [.fixed 10 32 false, .scalar 8 .le, .scalar 8 .le], frame := none }
/-- bse.Quote2 -/
def t34 : TyDef := { nfields := 3, enc := [.fixed 10 32 false, .scalar 8 .le, .scalar 8 .le], dec := [.fixed 10 32 false, .scalar 8 .le, .scalar 8 .le], frame := none }
/-- bse.QuoteExtend070 -/
def t35 : TyDef := { nfields := 9, enc := [.fixed 2 32 false, .fixed 10 32 false, .fixed 10 32 false, .scalar 1 .le, .scalar 8 .le, .scalar 1 .le, .fixed 1 32 false, .fixed 6 32 false, .fixed 120 32 false], dec := [.fixed 2 32 false, .fixed 10 32 false, .fixed 10 32 false, .scalar 1 .le, .scalar 8 .le, .scalar 1 .le, .fixed 1 32 false, .fixed 6 32 false, .fixed 120 32 false], frame := none }
/-- bse.QuoteExtend071 -/
def t36 : TyDef := { nfields := 0, enc := [], dec := [], frame := none }
/-- bse.QuoteResponse -/
def t37 : TyDef := { nfields := 20, enc := [.fixed 3 32 false, .fixed 6 32 false, .fixed 6 32 false, .fixed 8 32 false, .fixed 4 32 false, .scalar 2 .le, .fixed 2 32 false, .scalar 8 .le, .fixed 32 32 false, .fixed 10 32 false, .fixed 10 32 false, .fixed 2 32 false, .fixed 10 32 false, .scalar 1 .le, .fixed 1 32 false, .scalar 8 .le, .scalar 1 .le, .scalar 1 .le, .objs 2 34 .le, .union 0 6 .mat], dec := [.fixed 3 32 false, .fixed 6 32 false, .fixed 6 32 false, .fixed 8 32 false, .fixed 4 32 false, .scalar 2 .le, .fixed 2 32 false, .scalar 8 .le, .fixed 32 32 false, .fixed 10 32 false, .fixed 10 32 false, .fixed 2 32 false, .fixed 10 32 false, .scalar 1 .le, .fixed 1 32 false, .scalar 8 .le, .scalar 1 .le, .scalar 1 .le, .objs 2 34 .le, .union 0 6 .mat], frame := none }
/-- bse.QuoteResponseExtend070 -/
def t38 : TyDef := { nfields := 1, enc := [.fixed 1 32 false], dec := [.fixed 1 32 false], frame := none }
/-- bse.QuoteStatusReport -/
def t39 : TyDef := { nfields := 21, enc := [.scalar 4 .le, .scalar 8 .le, .fixed 3 32 false, .fixed 6 32 false, .fixed 6 32 false, .fixed 8 32 false, .fixed 4 32 false, .scalar 2 .le, .fixed 2 32 false, .scalar 8 .le, .fixed 32 32 false, .fixed 10 32 false, .fixed 10 32 false, .fixed 10 32 false, .scalar 8 .le, .scalar 1 .le, .scalar 8 .le, .scalar 8 .le, .scalar 8 .le, .scalar 8 .le, .union 2 7 .mat], dec := [.scalar 4 .le, .scalar 8 .le, .fixed 3 32 false, .fixed 6 32 false, .fixed 6 32 false, .fixed 8 32 false, .fixed 4 32 false, .scalar 2 .le, .fixed 2 32 false, .scalar 8 .le, .fixed 32 32 false, .fixed 10 32 false, .fixed 10 32 false, .fixed 10 32 false, .scalar 8 .le, .scalar 1 .le, .scalar 8 .le, .scalar 8 .le, .scalar 8 .le, .scalar 8 .le, .union 2 7 .mat], frame := none }
/-- bse.QuoteStatusReportExtend070 -/
def t40 : TyDef := { nfields := 12, enc := [.fixed 2 32 false, .fixed 16 32 false, .fixed 16 32 false, .fixed 10 32 false, .scalar 1 .le, .fixed 1 32 false, .scalar 1 .le, .scalar 8 .le, .fixed 1 32 false, .fixed 6 32 false, .fixed 120 32 false, .objs 2 33 .le], dec := [.fixed 2 32 false, .fixed 16 32 false, .fixed 16 32 false, .fixed 10 32 false, .scalar 1 .le, .fixed 1 32 false, .scalar 1 .le, .scalar 8 .le, .fixed 1 32 false, .fixed 6 32 false, .fixed 120 32 false, .objs 2 33 .le], frame := none }
/-- bse.ReportExtend010 -/
def t41 : TyDef := { nfields := 3, enc := [.fixed 1 32 false, .fixed 1 32 false, .fixed 1 32 false], dec := [.fixed 1 32 false, .fixed 1 32 false, .fixed 1 32 false], frame := none }
/-- bse.ReportExtend040 -/
def t42 : TyDef := { nfields := 1, enc := [.fixed 1 32 false], dec := [.fixed 1 32 false], frame := none }
/-- bse.ReportExtend050 -/
def t43 : TyDef := { nfields := 4, enc := [.scalar 2 .le, .scalar 1 .le, .scalar 4 .le, .fixed 2 32 false], dec := [.scalar 2 .le, .scalar 1 .le, .scalar 4 .le, .fixed 2 32 false], frame := none }
/-- bse.ReportFinished -/
def t44 : TyDef := { nfields := 3, enc := [.scalar 4 .le, .scalar 8 .le, .scalar 2 .le], dec := [.scalar 4 .le, .scalar 8 .le, .scalar 2 .le], frame := none }
/-- bse.ReportPartitionSync -/
def t45 : TyDef := { nfields := 2, enc := [.scalar 4 .le, .scalar 8 .le], dec := [.scalar 4 .le, .scalar 8 .le], frame := none }
/-- bse.ReportSynchronization -/
def t46 : TyDef := { nfields := 1, enc := [.objs 2 45 .le], dec := [.objs 2 45 .le], frame := none }
/-- bse.TradeCaptureConfirm -/
def t47 : TyDef := { nfields := 30, enc := [.scalar 4 .le, .scalar 8 .le, .fixed 3 32 false, .fixed 6 32 false, .fixed 6 32 false, .fixed 8 32 false, .fixed 4 32 false, .scalar 2 .le, .fixed 2 32 false, .scalar 8 .le, .fixed 32 32 false, .fixed 16 32 false, .fixed 10 32 false, .scalar 1 .le, .scalar 1 .le, .fixed 1 32 false, .scalar 8 .le, .scalar 8 .le, .scalar 2 .le, .scalar 2 .le, .scalar 4 .le, .fixed 16 32 false, .fixed 1 32 false, .fixed 6 32 false, .fixed 10 32 false, .fixed 2 32 false, .fixed 6 32 false, .fixed 10 32 false, .fixed 2 32 false, .union 2 8 .mat], dec := [.scalar 4 .le, .scalar 8 .le, .fixed 3 32 false, .fixed 6 32 false, .fixed 6 32 false, .fixed 8 32 false, .fixed 4 32 false, .scalar 2 .le, .fixed 2 32 false, .scalar 8 .le, .fixed 32 32 false, .fixed 16 32 false, .fixed 10 32 false, .scalar 1 .le, .scalar 1 .le, .fixed 1 32 false, .scalar 8 .le, .scalar 8 .le, .scalar 2 .le, .scalar 2 .le, .scalar 4 .le, .fixed 16 32 false, .fixed 1 32 false, .fixed 6 32 false, .fixed 10 32 false, .fixed 2 32 false, .fixed 6 32 false, .fixed 10 32 false, .fixed 2 32 false, .union 2 8 .mat], frame := none }
/-- bse.TradeCaptureConfirmExtend031 -/
def t48 : TyDef := { nfields := 8, enc := [.fixed 6 32 false, .fixed 5 32 false, .fixed 6 32 false, .fixed 5 32 false, .fixed 1 32 false, .fixed 1 32 false, .fixed 1 32 false, .fixed 120 32 false], dec := [.fixed 6 32 false, .fixed 5 32 false, .fixed 6 32 false, .fixed 5 32 false, .fixed 1 32 false, .fixed 1 32 false, .fixed 1 32 false, .fixed 120 32 false], frame := none }
/-- bse.TradeCaptureConfirmExtend051 -/
def t49 : TyDef := { nfields := 4, enc := [.scalar 2 .le, .scalar 1 .le, .scalar 4 .le, .fixed 2 32 false], dec := [.scalar 2 .le, .scalar 1 .le, .scalar 4 .le, .fixed 2 32 false], frame := none }
/-- bse.TradeCaptureConfirmExtend060 -/
def t50 : TyDef := { nfields := 0, enc := [], dec := [], frame := none }
/-- bse.TradeCaptureConfirmExtend061 -/
def t51 : TyDef := { nfields := 0, enc := [], dec := [], frame := none }
/-- bse.TradeCaptureConfirmExtend062 -/
def t52 : TyDef := { nfields := 1, enc := [.fixed 1 32 false], dec := [.fixed 1 32 false], frame := none }
/-- bse.TradeCaptureReport -/
def t53 : TyDef := { nfields := 26, enc := [.fixed 3 32 false, .fixed 6 32 false, .fixed 8 32 false, .fixed 4 32 false, .scalar 2 .le, .fixed 2 32 false, .scalar 8 .le, .fixed 32 32 false, .fixed 10 32 false, .scalar 1 .le, .scalar 1 .le, .fixed 1 32 false, .fixed 10 32 false, .scalar 8 .le, .scalar 8 .le, .scalar 2 .le, .scalar 2 .le, .scalar 4 .le, .fixed 1 32 false, .fixed 6 32 false, .fixed 10 32 false, .fixed 2 32 false, .fixed 6 32 false, .fixed 10 32 false, .fixed 2 32 false, .union 0 10 .mat], dec := [.fixed 3 32 false, .fixed 6 32 false, .fixed 8 32 false, .fixed 4 32 false, .scalar 2 .le, .fixed 2 32 false, .scalar 8 .le, .fixed 32 32 false, .fixed 10 32 false, .scalar 1 .le, .scalar 1 .le, .fixed 1 32 false, .fixed 10 32 false, .scalar 8 .le, .scalar 8 .le, .scalar 2 .le, .scalar 2 .le, .scalar 4 .le, .fixed 1 32 false, .fixed 6 32 false, .fixed 10 32 false, .fixed 2 32 false, .fixed 6 32 false, .fixed 10 32 false, .fixed 2 32 false, .union 0 10 .mat], frame := none }
/-- bse.TradeCaptureReportAck -/
def t54 : TyDef := { nfields := 34, enc := [.scalar 4 .le, .scalar 8 .le, .fixed 3 32 false, .fixed 6 32 false, .fixed 6 32 false, .fixed 8 32 false, .fixed 4 32 false, .scalar 2 .le, .fixed 2 32 false, .scalar 8 .le, .fixed 32 32 false, .fixed 16 32 false, .fixed 10 32 false, .scalar 1 .le, .scalar 1 .le, .fixed 1 32 false, .fixed 10 32 false, .scalar 1 .le, .scalar 1 .le, .scalar 2 .le, .scalar 8 .le, .scalar 8 .le, .scalar 2 .le, .scalar 2 .le, .scalar 4 .le, .fixed 16 32 false, .fixed 1 32 false, .fixed 6 32 false, .fixed 10 32 false, .fixed 2 32 false, .fixed 6 32 false, .fixed 10 32 false, .fixed 2 32 false, .union 2 9 .mat], dec := [.scalar 4 .le, .scalar 8 .le, .fixed 3 32 false, .fixed 6 32 false, .fixed 6 32 false, .fixed 8 32 false, .fixed 4 32 false, .scalar 2 .le, .fixed 2 32 false, .scalar 8 .le, .fixed 32 32 false, .fixed 16 32 false, .fixed 10 32 false, .scalar 1 .le, .scalar 1 .le, .fixed 1 32 false, .fixed 10 32 false, .scalar 1 .le, .scalar 1 .le, .scalar 2 .le, .scalar 8 .le, .scalar 8 .le, .scalar 2 .le, .scalar 2 .le, .scalar 4 .le, .fixed 16 32 false, .fixed 1 32 false, .fixed 6 32 false, .fixed 10 32 false, .fixed 2 32 false, .fixed 6 32 false, .fixed 10 32 false, .fixed 2 32 false, .union 2 9 .mat], frame := none }
/-- bse.TradeCaptureReportAckExtend031 -/
def t55 : TyDef := { nfields := 8, enc := [.fixed 6 32 false, .fixed 5 32 false, .fixed 6 32 false, .fixed 5 32 false, .fixed 1 32 false, .fixed 1 32 false, .fixed 1 32 false, .fixed 120 32 false], dec := [.fixed 6 32 false, .fixed 5 32 false, .fixed 6 32 false, .fixed 5 32 false, .fixed 1 32 false, .fixed 1 32 false, .fixed 1 32 false, .fixed 120 32 false], frame := none }
/-- bse.TradeCaptureReportAckExtend051 -/
def t56 : TyDef := { nfields := 3, enc := [.scalar 2 .le, .scalar 1 .le, .fixed 2 32 false], dec := [.scalar 2 .le, .scalar 1 .le, .fixed 2 32 false], frame := none }
/-- bse.TradeCaptureReportAckExtend060 -/
def t57 : TyDef := { nfields := 0, enc := [], dec := [], frame := none }
/-- bse.TradeCaptureReportAckExtend061 -/
def t58 : TyDef := { nfields := 0, enc := [], dec := [], frame := none }
/-- bse.TradeCaptureReportAckExtend062 -/
def t59 : TyDef := { nfields := 1, enc := [.fixed 1 32 false], dec := [.fixed 1 32 false], frame := none }
/-- bse.TradeCaptureReportExtend031 -/
def t60 : TyDef := { nfields := 8, enc := [.fixed 6 32 false, .fixed 5 32 false, .fixed 6 32 false, .fixed 5 32 false, .fixed 1 32 false, .fixed 1 32 false, .fixed 1 32 false, .fixed 120 32 false], dec := [.fixed 6 32 false, .fixed 5 32 false, .fixed 6 32 false, .fixed 5 32 false, .fixed 1 32 false, .fixed 1 32 false, .fixed 1 32 false, .fixed 120 32 false], frame := none }
/-- bse.TradeCaptureReportExtend051 -/
def t61 : TyDef := { nfields := 3, enc := [.scalar 2 .le, .scalar 1 .le, .fixed 2 32 false], dec := [.scalar 2 .le, .scalar 1 .le, .fixed 2 32 false], frame := none }
/-- bse.TradeCaptureReportExtend060 -/
def t62 : TyDef := { nfields := 0, enc := [], dec := [], frame := none }
/-- bse.TradeCaptureReportExtend061 -/
def t63 : TyDef := { nfields := 0, enc := [], dec := [], frame := none }
/-- bse.TradeCaptureReportExtend062 -/
def t64 : TyDef := { nfields := 1, enc := [.fixed 1 32 false], dec := [.fixed 1 32 false], frame := none }
/-- bse.TradingSessionStatus -/
def t65 : TyDef := { nfields := 6, enc := [.fixed 3 32 false, .fixed 3 32 false, .fixed 3 32 false, .fixed 3 32 false, .scalar 1 .le, .scalar 8 .le], dec := [.fixed 3 32 false, .fixed 3 32 false, .fixed 3 32 false, .fixed 3 32 false, .scalar 1 .le, .scalar 8 .le], frame := none }
/-- risk.CancelReject -/
def t66 : TyDef := { nfields := 5, enc := [.vstr 4 .be, .vstr 4 .be, .vstr 4 .be, .vstr 4 .be, .scalar 4 .be], dec := [.vstr 4 .be, .vstr 4 .be, .vstr 4 .be, .vstr 4 .be, .scalar 4 .be], frame := none }
/-- risk.ExecutionReport -/
def t67 : TyDef := { nfields := 6, enc := [.vstr 4 .be, .vstr 4 .be, .vstr 4 .be, .scalar 8 .be, .scalar 8 .be, .fixed 1 32 false], dec := [.vstr 4 .be, .vstr 4 .be, .vstr 4 .be, .scalar 8 .be, .scalar 8 .be, .fixed 1 32 false], frame := none }
/-- risk.NewOrder -/
def t68 : TyDef := { nfields := 8, enc := [.vstr 4 .be, .vstr 4 .be, .vstr 4 .be, .fixed 1 32 false, .scalar 8 .be, .scalar 8 .be, .fixed 1 32 false, .vstr 4 .be], dec := [.vstr 4 .be, .vstr 4 .be, .vstr 4 .be, .fixed 1 32 false, .scalar 8 .be, .scalar 8 .be, .fixed 1 32 false, .vstr 4 .be], frame := none }
/-- risk.OrderCancel -/
def t69 : TyDef := { nfields := 5, enc := [.vstr 4 .be, .vstr 4 .be, .vstr 4 .be, .vstr 4 .be, .vstr 4 .be], dec := [.vstr 4 .be, .vstr 4 .be, .vstr 4 .be, .vstr 4 .be, .vstr 4 .be], frame := none }
/-- risk.OrderConfirm -/
def t70 : TyDef := { nfields := 6, enc := [.vstr 4 .be, .vstr 4 .be, .vstr 4 .be, .fixed 1 32 false, .scalar 4 .be, .vstr 4 .be], dec := [.vstr 4 .be, .vstr 4 .be, .vstr 4 .be, .fixed 1 32 false, .scalar 4 .be, .vstr 4 .be], frame := none }
/-- risk.RcBinary -/
def t71 : TyDef := { nfields := 4, enc := [], dec := [.scalar 4 .be, .scalar 4 .be, .scalar 4 .be, .union 0 11 .mat], frame := some { hdr := [.scalar 4 .be, .scalar 4 .be], lenW := 4, e := .be, key := 0, tbl := 11, g := .skip, cks := none } }
/-- risk.RiskResult -/
def t72 : TyDef := { nfields := 3, enc := [.vstr 4 .be, .scalar 1 .be, .vstr 4 .be], dec := [.vstr 4 .be, .scalar 1 .be, .vstr 4 .be], frame := none }
/-- sample.BasicPacket -/
def t73 : TyDef := { nfields := 22, enc := [.scalar 1 .le, .scalar 2 .le, .scalar 4 .le, .scalar 8 .le, .fixed 1 48 true, .scalar 1 .le, .scalar 2 .le, .scalar 4 .le, .scalar 8 .le, .scalar 4 .le, .scalar 8 .le, .nums 2 1 .le, .nums 2 2 .le, .nums 2 4 .le, .nums 2 8 .le, .fixeds 2 1 48 true .le, .nums 2 1 .le, .nums 2 2 .le, .nums 2 4 .le, .nums 2 8 .le, .nums 2 4 .le, .nums 2 8 .le], dec := [.scalar 1 .le, .scalar 2 .le, .scalar 4 .le, .scalar 8 .le, .fixed 1 48 true, .scalar 1 .le, .scalar 2 .le, .scalar 4 .le, .scalar 8 .le, .scalar 4 .le, .scalar 8 .le, .nums 2 1 .le, .nums 2 2 .le, .nums 2 4 .le, .nums 2 8 .le, .fixeds 2 1 48 true .le, .nums 2 1 .le, .nums 2 2 .le, .nums 2 4 .le, .nums 2 8 .le, .nums 2 4 .le, .nums 2 8 .le], frame := none }
/-- sample.EmptyPacket -/
def t74 : TyDef := { nfields := 0, enc := [], dec := [], frame := none }
/-- sample.InerPacket -/
def t75 : TyDef := { nfields := 2, enc := [.scalar 4 .le, .nums 2 2 .le], dec := [.scalar 4 .le, .nums 2 2 .le], frame := none }
/-- sample.NestedPacket -/
def t76 : TyDef := { nfields := 3, enc := [.nested 81 .mat, .objs 2 81 .le, .nested 75 .mat], dec := [.nested 81 .mat, .objs 2 81 .le, .nested 75 .mat], frame := none }
/-- sample.RiskControlRequest -/
def t77 : TyDef := { nfields := 10, enc := [.vstr 2 .be, .fixed 16 32 false, .fixed 3 32 false, .fixed 12 32 false, .scalar 1 .be, .scalar 1 .be, .scalar 8 .be, .scalar 4 .be, .vstrs 2 2 .be, .nested 80 .val], dec := [.vstr 2 .be, .fixed 16 32 false, .fixed 3 32 false, .fixed 12 32 false, .scalar 1 .be, .scalar 1 .be, .scalar 8 .be, .scalar 4 .be, .vstrs 2 2 .be, .nested 80 .val], frame := none }
/-- sample.RootPacket -/
def t78 : TyDef := { nfields := 4, enc := [], dec := [.scalar 2 .le, .scalar 4 .le, .union 0 12 .mat, .scalar 4 .le], frame := some { hdr := [.scalar 2 .le], lenW := 4, e := .le, key := 0, tbl := 12, g := .skip, cks := some (.crc32, 4) } }
/-- sample.StringPacket -/
def t79 : TyDef := { nfields := 12, enc := [.vstr 2 .le, .vstr 2 .le, .fixed 1 48 true, .fixed 10 48 true, .fixed 10 32 true, .fixed 10 0 false, .vstrs 2 2 .le, .vstrs 2 2 .le, .fixeds 2 1 48 true .le, .fixeds 2 10 48 true .le, .fixeds 2 10 48 false .le, .fixeds 2 10 0 false .le], dec := [.vstr 2 .le, .vstr 2 .le, .fixed 1 48 true, .fixed 10 48 true, .fixed 10 32 true, .fixed 10 0 false, .vstrs 2 2 .le, .vstrs 2 2 .le, .fixeds 2 1 48 true .le, .fixeds 2 10 48 true .le, .fixeds 2 10 48 false .le, .fixeds 2 10 0 false .le], frame := none }
/-- sample.SubOrder -/
def t80 : TyDef := { nfields := 3, enc := [.fixed 16 32 false, .scalar 8 .be, .scalar 4 .be], dec := [.fixed 16 32 false, .scalar 8 .be, .scalar 4 .be], frame := none }
/-- sample.SubPacket -/
def t81 : TyDef := { nfields := 2, enc := [.scalar 4 .le, .nums 2 2 .le], dec := [.scalar 4 .le, .nums 2 2 .le], frame := none }
/-- sse.CancelReject -/
def t82 : TyDef := { nfields := 13, enc := [.fixed 8 32 false, .scalar 4 .be, .scalar 8 .be, .scalar 4 .be, .fixed 8 32 false, .fixed 10 32 false, .fixed 12 32 false, .fixed 10 32 false, .fixed 8 32 false, .scalar 4 .be, .scalar 4 .be, .scalar 8 .be, .fixed 32 32 false], dec := [.fixed 8 32 false, .scalar 4 .be, .scalar 8 .be, .scalar 4 .be, .fixed 8 32 false, .fixed 10 32 false, .fixed 12 32 false, .fixed 10 32 false, .fixed 8 32 false, .scalar 4 .be, .scalar 4 .be, .scalar 8 .be, .fixed 32 32 false], frame := none }
/-- sse.Confirm -/
def t83 : TyDef := { nfields := 28, enc := [.fixed 8 32 false, .scalar 4 .be, .scalar 8 .be, .scalar 4 .be, .fixed 1 32 false, .fixed 8 32 false, .fixed 10 32 false, .fixed 12 32 false, .fixed 13 32 false, .scalar 1 .be, .fixed 1 32 false, .scalar 8 .be, .scalar 8 .be, .scalar 8 .be, .scalar 8 .be, .fixed 1 32 false, .fixed 1 32 false, .fixed 1 32 false, .fixed 2 32 false, .fixed 10 32 false, .fixed 8 32 false, .fixed 8 32 false, .scalar 4 .be, .fixed 16 32 false, .fixed 16 32 false, .scalar 4 .be, .scalar 8 .be, .fixed 32 32 false], dec := [.fixed 8 32 false, .scalar 4 .be, .scalar 8 .be, .scalar 4 .be, .fixed 1 32 false, .fixed 8 32 false, .fixed 10 32 false, .fixed 12 32 false, .fixed 13 32 false, .scalar 1 .be, .fixed 1 32 false, .scalar 8 .be, .scalar 8 .be, .scalar 8 .be, .scalar 8 .be, .fixed 1 32 false, .fixed 1 32 false, .fixed 1 32 false, .fixed 2 32 false, .fixed 10 32 false, .fixed 8 32 false, .fixed 8 32 false, .scalar 4 .be, .fixed 16 32 false, .fixed 16 32 false, .scalar 4 .be, .scalar 8 .be, .fixed 32 32 false], frame := none }
/-- sse.ExecRptEndOfStream -/
def t84 : TyDef := { nfields := 3, enc := [.fixed 8 32 false, .scalar 4 .be, .scalar 8 .be], dec := [.fixed 8 32 false, .scalar 4 .be, .scalar 8 .be], frame := none }
/-- sse.ExecRptInfo -/
def t85 : TyDef := { nfields := 3, enc := [.scalar 2 .be, .fixeds 2 8 32 false .be, .nums 2 4 .be], dec := [.scalar 2 .be, .fixeds 2 8 32 false .be, .nums 2 4 .be], frame := none }
/-- sse.ExecRptSync -/
def t86 : TyDef := { nfields := 1, enc := [.objs 2 97 .be], dec := [.objs 2 97 .be], frame := none }
/-- sse.ExecRptSyncRsp -/
def t87 : TyDef := { nfields := 1, enc := [.objs 2 98 .be], dec := [.objs 2 98 .be], frame := none }
/-- sse.Heartbeat -/
def t88 : TyDef := { nfields := 0, enc := [], dec := [], frame := none }
/-- sse.Logon -/
def t89 : TyDef := { nfields := 6, enc := [.fixed 32 32 false, .fixed 32 32 false, .scalar 2 .be, .fixed 8 32 false, .scalar 4 .be, .scalar 4 .be], dec := [.fixed 32 32 false, .fixed 32 32 false, .scalar 2 .be, .fixed 8 32 false, .scalar 4 .be, .scalar 4 .be], frame := none }
/-- sse.Logout -/
def t90 : TyDef := { nfields := 2, enc := [.scalar 4 .be, .fixed 64 32 false], dec := [.scalar 4 .be, .fixed 64 32 false], frame := none }
/-- sse.NewOrderSingle -/
def t91 : TyDef := { nfields := 16, enc := [.scalar 4 .be, .fixed 8 32 false, .fixed 10 32 false, .fixed 12 32 false, .fixed 13 32 false, .scalar 1 .be, .fixed 1 32 false, .scalar 8 .be, .scalar 8 .be, .fixed 1 32 false, .fixed 1 32 false, .scalar 8 .be, .fixed 2 32 false, .fixed 8 32 false, .fixed 8 32 false, .fixed 32 32 false], dec := [.scalar 4 .be, .fixed 8 32 false, .fixed 10 32 false, .fixed 12 32 false, .fixed 13 32 false, .scalar 1 .be, .fixed 1 32 false, .scalar 8 .be, .scalar 8 .be, .fixed 1 32 false, .fixed 1 32 false, .scalar 8 .be, .fixed 2 32 false, .fixed 8 32 false, .fixed 8 32 false, .fixed 32 32 false], frame := none }
/-- sse.OrderCancel -/
def t92 : TyDef := { nfields := 11, enc := [.scalar 4 .be, .fixed 8 32 false, .fixed 10 32 false, .fixed 12 32 false, .fixed 13 32 false, .scalar 1 .be, .fixed 1 32 false, .fixed 10 32 false, .scalar 8 .be, .fixed 8 32 false, .fixed 32 32 false], dec := [.scalar 4 .be, .fixed 8 32 false, .fixed 10 32 false, .fixed 12 32 false, .fixed 13 32 false, .scalar 1 .be, .fixed 1 32 false, .fixed 10 32 false, .scalar 8 .be, .fixed 8 32 false, .fixed 32 32 false], frame := none }
/-- sse.OrderReject -/
def t93 : TyDef := { nfields := 8, enc := [.scalar 4 .be, .fixed 8 32 false, .fixed 10 32 false, .fixed 12 32 false, .scalar 4 .be, .scalar 4 .be, .scalar 8 .be, .fixed 32 32 false], dec := [.scalar 4 .be, .fixed 8 32 false, .fixed 10 32 false, .fixed 12 32 false, .scalar 4 .be, .scalar 4 .be, .scalar 8 .be, .fixed 32 32 false], frame := none }
/-- sse.PlatformState -/
def t94 : TyDef := { nfields := 2, enc := [.scalar 2 .be, .scalar 2 .be], dec := [.scalar 2 .be, .scalar 2 .be], frame := none }
/-- sse.Report -/
def t95 : TyDef := { nfields := 26, enc := [.fixed 8 32 false, .scalar 4 .be, .scalar 8 .be, .scalar 4 .be, .fixed 1 32 false, .fixed 8 32 false, .fixed 10 32 false, .fixed 12 32 false, .fixed 13 32 false, .scalar 1 .be, .scalar 8 .be, .scalar 8 .be, .scalar 8 .be, .scalar 8 .be, .fixed 1 32 false, .scalar 8 .be, .scalar 8 .be, .fixed 1 32 false, .fixed 2 32 false, .fixed 8 32 false, .fixed 8 32 false, .fixed 16 32 false, .fixed 16 32 false, .scalar 4 .be, .scalar 8 .be, .fixed 32 32 false], dec := [.fixed 8 32 false, .scalar 4 .be, .scalar 8 .be, .scalar 4 .be, .fixed 1 32 false, .fixed 8 32 false, .fixed 10 32 false, .fixed 12 32 false, .fixed 13 32 false, .scalar 1 .be, .scalar 8 .be, .scalar 8 .be, .scalar 8 .be, .scalar 8 .be, .fixed 1 32 false, .scalar 8 .be, .scalar 8 .be, .fixed 1 32 false, .fixed 2 32 false, .fixed 8 32 false, .fixed 8 32 false, .fixed 16 32 false, .fixed 16 32 false, .scalar 4 .be, .scalar 8 .be, .fixed 32 32 false], frame := none }
/-- sse.SseBinary -/
def t96 : TyDef := { nfields := 5, enc := [], dec := [.scalar 4 .be, .scalar 8 .be, .scalar 4 .be, .union 0 13 .mat, .scalar 4 .be], frame := some { hdr := [.scalar 4 .be, .scalar 8 .be], lenW := 4, e := .be, key := 0, tbl := 13, g := .skip, cks := some (.sse, 4) } }
/-- sse.SubExecRptSync -/
def t97 : TyDef := { nfields := 3, enc := [.fixed 8 32 false, .scalar 4 .be, .scalar 8 .be], dec := [.fixed 8 32 false, .scalar 4 .be, .scalar 8 .be], frame := none }
/-- sse.SubExecRptSyncRsp -/
def t98 : TyDef := { nfields := 6, enc := [.fixed 8 32 false, .scalar 4 .be, .scalar 8 .be, .scalar 8 .be, .scalar 4 .be, .fixed 64 32 false], dec := [.fixed 8 32 false, .scalar 4 .be, .scalar 8 .be, .scalar 8 .be, .scalar 4 .be, .fixed 64 32 false], frame := none }
/-- szse.BusinessReject -/
def t99 : TyDef := { nfields := 10, enc := [.fixed 3 32 false, .scalar 8 .be, .fixed 6 32 false, .fixed 8 32 false, .fixed 4 32 false, .scalar 8 .be, .scalar 4 .be, .fixed 10 32 false, .scalar 2 .be, .fixed 50 32 false], dec := [.fixed 3 32 false, .scalar 8 .be, .fixed 6 32 false, .fixed 8 32 false, .fixed 4 32 false, .scalar 8 .be, .scalar 4 .be, .fixed 10 32 false, .scalar 2 .be, .fixed 50 32 false], frame := none }
/-- szse.CancelReject -/
def t100 : TyDef := { nfields := 18, enc := [.scalar 4 .be, .scalar 8 .be, .fixed 3 32 false, .fixed 6 32 false, .fixed 6 32 false, .fixed 8 32 false, .fixed 4 32 false, .scalar 2 .be, .fixed 2 32 false, .scalar 8 .be, .fixed 8 32 false, .fixed 10 32 false, .fixed 10 32 false, .fixed 1 32 false, .fixed 1 32 false, .scalar 2 .be, .fixed 16 32 false, .fixed 16 32 false], dec := [.scalar 4 .be, .scalar 8 .be, .fixed 3 32 false, .fixed 6 32 false, .fixed 6 32 false, .fixed 8 32 false, .fixed 4 32 false, .scalar 2 .be, .fixed 2 32 false, .scalar 8 .be, .fixed 8 32 false, .fixed 10 32 false, .fixed 10 32 false, .fixed 1 32 false, .fixed 1 32 false, .scalar 2 .be, .fixed 16 32 false, .fixed 16 32 false], frame := none }
/-- szse.ExecutionConfirm -/
def t101 : TyDef := { nfields := 29, enc := [.scalar 4 .be, .scalar 8 .be, .fixed 3 32 false, .fixed 6 32 false, .fixed 6 32 false, .fixed 8 32 false, .fixed 4 32 false, .scalar 2 .be, .fixed 2 32 false, .scalar 8 .be, .fixed 8 32 false, .fixed 16 32 false, .fixed 10 32 false, .fixed 10 32 false, .fixed 10 32 false, .fixed 16 32 false, .fixed 1 32 false, .fixed 1 32 false, .scalar 2 .be, .scalar 8 .be, .scalar 8 .be, .fixed 1 32 false, .fixed 1 32 false, .scalar 8 .be, .scalar 8 .be, .fixed 12 32 false, .fixed 4 32 false, .fixed 4 32 false, .union 2 14 .mat], dec := [.scalar 4 .be, .scalar 8 .be, .fixed 3 32 false, .fixed 6 32 false, .fixed 6 32 false, .fixed 8 32 false, .fixed 4 32 false, .scalar 2 .be, .fixed 2 32 false, .scalar 8 .be, .fixed 8 32 false, .fixed 16 32 false, .fixed 10 32 false, .fixed 10 32 false, .fixed 10 32 false, .fixed 16 32 false, .fixed 1 32 false, .fixed 1 32 false, .scalar 2 .be, .scalar 8 .be, .scalar 8 .be, .fixed 1 32 false, .fixed 1 32 false, .scalar 8 .be, .scalar 8 .be, .fixed 12 32 false, .fixed 4 32 false, .fixed 4 32 false, .union 2 14 .mat], frame := none }
/-- szse.ExecutionReport -/
def t102 : TyDef := { nfields := 25, enc := [.scalar 4 .be, .scalar 8 .be, .fixed 3 32 false, .fixed 6 32 false, .fixed 6 32 false, .fixed 8 32 false, .fixed 4 32 false, .scalar 2 .be, .fixed 2 32 false, .scalar 8 .be, .fixed 8 32 false, .fixed 16 32 false, .fixed 10 32 false, .fixed 10 32 false, .fixed 16 32 false, .fixed 1 32 false, .fixed 1 32 false, .scalar 8 .be, .scalar 8 .be, .scalar 8 .be, .scalar 8 .be, .fixed 1 32 false, .fixed 12 32 false, .fixed 4 32 false, .union 2 15 .mat], dec := [.scalar 4 .be, .scalar 8 .be, .fixed 3 32 false, .fixed 6 32 false, .fixed 6 32 false, .fixed 8 32 false, .fixed 4 32 false, .scalar 2 .be, .fixed 2 32 false, .scalar 8 .be, .fixed 8 32 false, .fixed 16 32 false, .fixed 10 32 false, .fixed 10 32 false, .fixed 16 32 false, .fixed 1 32 false, .fixed 1 32 false, .scalar 8 .be, .scalar 8 .be, .scalar 8 .be, .scalar 8 .be, .fixed 1 32 false, .fixed 12 32 false, .fixed 4 32 false, .union 2 15 .mat], frame := none }
/-- szse.Extend100101 -/
def t103 : TyDef := { nfields := 5, enc := [.scalar 8 .be, .scalar 8 .be, .scalar 2 .be, .fixed 1 32 false, .fixed 1 32 false], dec := [.scalar 8 .be, .scalar 8 .be, .scalar 2 .be, .fixed 1 32 false, .fixed 1 32 false], frame := none }
/-- szse.Extend100201 -/
def t104 : TyDef := { nfields := 4, enc := [.scalar 8 .be, .scalar 8 .be, .scalar 2 .be, .fixed 1 32 false], dec := [.scalar 8 .be, .scalar 8 .be, .scalar 2 .be, .fixed 1 32 false], frame := none }
/-- szse.Extend100301 -/
def t105 : TyDef := { nfields := 4, enc := [.scalar 8 .be, .scalar 8 .be, .scalar 2 .be, .fixed 1 32 false], dec := [.scalar 8 .be, .scalar 8 .be, .scalar 2 .be, .fixed 1 32 false], frame := none }
/-- szse.Extend100501 -/
def t106 : TyDef := { nfields := 2, enc := [.fixed 8 32 false, .fixed 1 32 false], dec := [.fixed 8 32 false, .fixed 1 32 false], frame := none }
/-- szse.Extend100601 -/
def t107 : TyDef := { nfields := 1, enc := [.fixed 1 32 false], dec := [.fixed 1 32 false], frame := none }
/-- szse.Extend100701 -/
def t108 : TyDef := { nfields := 3, enc := [.scalar 2 .be, .scalar 1 .be, .fixed 2 32 false], dec := [.scalar 2 .be, .scalar 1 .be, .fixed 2 32 false], frame := none }
/-- szse.Extend101401 -/
def t109 : TyDef := { nfields := 8, enc := [.scalar 8 .be, .scalar 8 .be, .scalar 2 .be, .fixed 1 32 false, .fixed 1 32 false, .scalar 1 .be, .fixed 6 32 false, .fixed 16 32 false], dec := [.scalar 8 .be, .scalar 8 .be, .scalar 2 .be, .fixed 1 32 false, .fixed 1 32 false, .scalar 1 .be, .fixed 6 32 false, .fixed 16 32 false], frame := none }
/-- szse.Extend101501 -/
def t110 : TyDef := { nfields := 1, enc := [.fixed 2 32 false], dec := [.fixed 2 32 false], frame := none }
/-- szse.Extend101601 -/
def t111 : TyDef := { nfields := 1, enc := [.fixed 6 32 false], dec := [.fixed 6 32 false], frame := none }
/-- szse.Extend101701 -/
def t112 : TyDef := { nfields := 1, enc := [.scalar 8 .be], dec := [.scalar 8 .be], frame := none }
/-- szse.Extend101801 -/
def t113 : TyDef := { nfields := 1, enc := [.fixed 6 32 false], dec := [.fixed 6 32 false], frame := none }
/-- szse.Extend102701 -/
def t114 : TyDef := { nfields := 2, enc := [.fixed 6 32 false, .fixed 12 32 false], dec := [.fixed 6 32 false, .fixed 12 32 false], frame := none }
/-- szse.Extend102801 -/
def t115 : TyDef := { nfields := 2, enc := [.fixed 6 32 false, .fixed 12 32 false], dec := [.fixed 6 32 false, .fixed 12 32 false], frame := none }
/-- szse.Extend102901 -/
def t116 : TyDef := { nfields := 2, enc := [.fixed 6 32 false, .fixed 12 32 false], dec := [.fixed 6 32 false, .fixed 12 32 false], frame := none }
/-- szse.Extend103501 -/
def t117 : TyDef := { nfields := 1, enc := [.fixed 6 32 false], dec := [.fixed 6 32 false], frame := none }
/-- szse.Extend103701 -/
def t118 : TyDef := { nfields := 1, enc := [.fixed 1 32 false], dec := [.fixed 1 32 false], frame := none }
/-- szse.Extend104101 -/
def t119 : TyDef := { nfields := 5, enc := [.scalar 8 .be, .scalar 8 .be, .scalar 2 .be, .fixed 1 32 false, .fixed 1 32 false], dec := [.scalar 8 .be, .scalar 8 .be, .scalar 2 .be, .fixed 1 32 false, .fixed 1 32 false], frame := none }
/-- szse.Extend104128 -/
def t120 : TyDef := { nfields := 17, enc := [.fixed 6 32 false, .fixed 2 32 false, .fixed 10 32 false, .fixed 120 32 false, .fixed 8 32 false, .fixed 16 32 false, .scalar 2 .be, .scalar 2 .be, .scalar 8 .be, .scalar 8 .be, .scalar 8 .be, .scalar 4 .be, .scalar 2 .be, .scalar 1 .be, .scalar 1 .be, .fixed 1 32 false, .fixed 160 32 false], dec := [.fixed 6 32 false, .fixed 2 32 false, .fixed 10 32 false, .fixed 120 32 false, .fixed 8 32 false, .fixed 16 32 false, .scalar 2 .be, .scalar 2 .be, .scalar 8 .be, .scalar 8 .be, .scalar 8 .be, .scalar 4 .be, .scalar 2 .be, .scalar 1 .be, .scalar 1 .be, .fixed 1 32 false, .fixed 160 32 false], frame := none }
/-- szse.Extend104701 -/
def t121 : TyDef := { nfields := 1, enc := [.fixed 16 32 false], dec := [.fixed 16 32 false], frame := none }
/-- szse.Extend106301 -/
def t122 : TyDef := { nfields := 5, enc := [.scalar 8 .be, .scalar 8 .be, .scalar 2 .be, .fixed 1 32 false, .fixed 1 32 false], dec := [.scalar 8 .be, .scalar 8 .be, .scalar 2 .be, .fixed 1 32 false, .fixed 1 32 false], frame := none }
/-- szse.Extend200102 -/
def t123 : TyDef := { nfields := 5, enc := [.scalar 8 .be, .scalar 8 .be, .scalar 2 .be, .fixed 1 32 false, .fixed 1 32 false], dec := [.scalar 8 .be, .scalar 8 .be, .scalar 2 .be, .fixed 1 32 false, .fixed 1 32 false], frame := none }
/-- szse.Extend200115 -/
def t124 : TyDef := { nfields := 1, enc := [.fixed 1 32 false], dec := [.fixed 1 32 false], frame := none }
/-- szse.Extend200202 -/
def t125 : TyDef := { nfields := 4, enc := [.scalar 8 .be, .scalar 8 .be, .scalar 2 .be, .fixed 1 32 false], dec := [.scalar 8 .be, .scalar 8 .be, .scalar 2 .be, .fixed 1 32 false], frame := none }
/-- szse.Extend200215 -/
def t126 : TyDef := { nfields := 1, enc := [.scalar 4 .be], dec := [.scalar 4 .be], frame := none }
/-- szse.Extend200302 -/
def t127 : TyDef := { nfields := 4, enc := [.scalar 8 .be, .scalar 8 .be, .scalar 2 .be, .fixed 1 32 false], dec := [.scalar 8 .be, .scalar 8 .be, .scalar 2 .be, .fixed 1 32 false], frame := none }
/-- szse.Extend200315 -/
def t128 : TyDef := { nfields := 1, enc := [.scalar 4 .be], dec := [.scalar 4 .be], frame := none }
/-- szse.Extend200402 -/
def t129 : TyDef := { nfields := 8, enc := [.scalar 8 .be, .scalar 8 .be, .scalar 2 .be, .fixed 1 32 false, .fixed 1 32 false, .scalar 1 .be, .fixed 6 32 false, .fixed 16 32 false], dec := [.scalar 8 .be, .scalar 8 .be, .scalar 2 .be, .fixed 1 32 false, .fixed 1 32 false, .scalar 1 .be, .fixed 6 32 false, .fixed 16 32 false], frame := none }
/-- szse.Extend200415 -/
def t130 : TyDef := { nfields := 4, enc := [.fixed 1 32 false, .scalar 1 .be, .fixed 6 32 false, .fixed 16 32 false], dec := [.fixed 1 32 false, .scalar 1 .be, .fixed 6 32 false, .fixed 16 32 false], frame := none }
/-- szse.Extend200502 -/
def t131 : TyDef := { nfields := 2, enc := [.fixed 8 32 false, .fixed 1 32 false], dec := [.fixed 8 32 false, .fixed 1 32 false], frame := none }
/-- szse.Extend200515 -/
def t132 : TyDef := { nfields := 2, enc := [.fixed 8 32 false, .fixed 1 32 false], dec := [.fixed 8 32 false, .fixed 1 32 false], frame := none }
/-- szse.Extend200602 -/
def t133 : TyDef := { nfields := 1, enc := [.fixed 1 32 false], dec := [.fixed 1 32 false], frame := none }
/-- szse.Extend200615 -/
def t134 : TyDef := { nfields := 1, enc := [.fixed 1 32 false], dec := [.fixed 1 32 false], frame := none }
/-- szse.Extend200702 -/
def t135 : TyDef := { nfields := 3, enc := [.scalar 2 .be, .scalar 1 .be, .fixed 2 32 false], dec := [.scalar 2 .be, .scalar 1 .be, .fixed 2 32 false], frame := none }
/-- szse.Extend200715 -/
def t136 : TyDef := { nfields := 4, enc := [.scalar 2 .be, .scalar 1 .be, .scalar 4 .be, .fixed 2 32 false], dec := [.scalar 2 .be, .scalar 1 .be, .scalar 4 .be, .fixed 2 32 false], frame := none }
/-- szse.Extend201202 -/
def t137 : TyDef := { nfields := 6, enc := [.fixed 8 32 false, .scalar 4 .be, .fixed 8 32 false, .fixed 4 32 false, .scalar 8 .be, .scalar 8 .be], dec := [.fixed 8 32 false, .scalar 4 .be, .fixed 8 32 false, .fixed 4 32 false, .scalar 8 .be, .scalar 8 .be], frame := none }
/-- szse.Extend201502 -/
def t138 : TyDef := { nfields := 1, enc := [.fixed 2 32 false], dec := [.fixed 2 32 false], frame := none }
/-- szse.Extend201602 -/
def t139 : TyDef := { nfields := 1, enc := [.fixed 6 32 false], dec := [.fixed 6 32 false], frame := none }
/-- szse.Extend201702 -/
def t140 : TyDef := { nfields := 1, enc := [.scalar 8 .be], dec := [.scalar 8 .be], frame := none }
/-- szse.Extend201802 -/
def t141 : TyDef := { nfields := 1, enc := [.fixed 6 32 false], dec := [.fixed 6 32 false], frame := none }
/-- szse.Extend202702 -/
def t142 : TyDef := { nfields := 2, enc := [.fixed 6 32 false, .fixed 12 32 false], dec := [.fixed 6 32 false, .fixed 12 32 false], frame := none }
/-- szse.Extend202802 -/
def t143 : TyDef := { nfields := 2, enc := [.fixed 6 32 false, .fixed 12 32 false], dec := [.fixed 6 32 false, .fixed 12 32 false], frame := none }
/-- szse.Extend202902 -/
def t144 : TyDef := { nfields := 2, enc := [.fixed 6 32 false, .fixed 12 32 false], dec := [.fixed 6 32 false, .fixed 12 32 false], frame := none }
/-- szse.Extend203102 -/
def t145 : TyDef := { nfields := 5, enc := [.fixed 8 32 false, .scalar 4 .be, .fixed 8 32 false, .fixed 4 32 false, .scalar 8 .be], dec := [.fixed 8 32 false, .scalar 4 .be, .fixed 8 32 false, .fixed 4 32 false, .scalar 8 .be], frame := none }
/-- szse.Extend203502 -/
def t146 : TyDef := { nfields := 1, enc := [.fixed 6 32 false], dec := [.fixed 6 32 false], frame := none }
/-- szse.Extend203702 -/
def t147 : TyDef := { nfields := 1, enc := [.fixed 1 32 false], dec := [.fixed 1 32 false], frame := none }
/-- szse.Extend203715 -/
def t148 : TyDef := { nfields := 1, enc := [.fixed 1 32 false], dec := [.fixed 1 32 false], frame := none }
/-- szse.Extend204102 -/
def t149 : TyDef := { nfields := 5, enc := [.scalar 8 .be, .scalar 8 .be, .scalar 2 .be, .fixed 1 32 false, .fixed 1 32 false], dec := [.scalar 8 .be, .scalar 8 .be, .scalar 2 .be, .fixed 1 32 false, .fixed 1 32 false], frame := none }
/-- szse.Extend204115 -/
def t150 : TyDef := { nfields := 8, enc := [.fixed 1 32 false, .scalar 2 .be, .scalar 1 .be, .fixed 6 32 false, .fixed 2 32 false, .fixed 10 32 false, .fixed 120 32 false, .fixed 8 32 false], dec := [.fixed 1 32 false, .scalar 2 .be, .scalar 1 .be, .fixed 6 32 false, .fixed 2 32 false, .fixed 10 32 false, .fixed 120 32 false, .fixed 8 32 false], frame := none }
/-- szse.Extend204129 -/
def t151 : TyDef := { nfields := 17, enc := [.fixed 6 32 false, .fixed 2 32 false, .fixed 10 32 false, .fixed 120 32 false, .fixed 8 32 false, .fixed 16 32 false, .scalar 2 .be, .scalar 2 .be, .scalar 8 .be, .scalar 8 .be, .scalar 8 .be, .scalar 4 .be, .scalar 2 .be, .scalar 1 .be, .scalar 1 .be, .fixed 1 32 false, .fixed 160 32 false], dec := [.fixed 6 32 false, .fixed 2 32 false, .fixed 10 32 false, .fixed 120 32 false, .fixed 8 32 false, .fixed 16 32 false, .scalar 2 .be, .scalar 2 .be, .scalar 8 .be, .scalar 8 .be, .scalar 8 .be, .scalar 4 .be, .scalar 2 .be, .scalar 1 .be, .scalar 1 .be, .fixed 1 32 false, .fixed 160 32 false], frame := none }
/-- szse.Extend204130 -/
def t152 : TyDef := { nfields := 17, enc := [.fixed 6 32 false, .fixed 2 32 false, .fixed 10 32 false, .fixed 120 32 false, .fixed 8 32 false, .fixed 6 32 false, .fixed 2 32 false, .fixed 10 32 false, .fixed 120 32 false, .fixed 8 32 false, .fixed 16 32 false, .scalar 2 .be, .scalar 2 .be, .scalar 2 .be, .scalar 1 .be, .fixed 1 32 false, .fixed 160 32 false], dec := [.fixed 6 32 false, .fixed 2 32 false, .fixed 10 32 false, .fixed 120 32 false, .fixed 8 32 false, .fixed 6 32 false, .fixed 2 32 false, .fixed 10 32 false, .fixed 120 32 false, .fixed 8 32 false, .fixed 16 32 false, .scalar 2 .be, .scalar 2 .be, .scalar 2 .be, .scalar 1 .be, .fixed 1 32 false, .fixed 160 32 false], frame := none }
/-- szse.Extend204702 -/
def t153 : TyDef := { nfields := 1, enc := [.fixed 16 32 false], dec := [.fixed 16 32 false], frame := none }
/-- szse.Extend204715 -/
def t154 : TyDef := { nfields := 4, enc := [.scalar 2 .be, .scalar 1 .be, .scalar 4 .be, .fixed 2 32 false], dec := [.scalar 2 .be, .scalar 1 .be, .scalar 4 .be, .fixed 2 32 false], frame := none }
/-- szse.Extend206302 -/
def t155 : TyDef := { nfields := 8, enc := [.fixed 16 32 false, .scalar 8 .be, .scalar 8 .be, .scalar 2 .be, .fixed 1 32 false, .fixed 1 32 false, .scalar 4 .be, .vstr 4 .be], dec := [.fixed 16 32 false, .scalar 8 .be, .scalar 8 .be, .scalar 2 .be, .fixed 1 32 false, .fixed 1 32 false, .scalar 4 .be, .vstr 4 .be], frame := none }
/-- szse.Extend206315 -/
def t156 : TyDef := { nfields := 1, enc := [.fixed 1 32 false], dec := [.fixed 1 32 false], frame := none }
/-- szse.Heartbeat -/
def t157 : TyDef := { nfields := 0, enc := [], dec := [], frame := none }
/-- szse.Logon -/
def t158 : TyDef := { nfields := 5, enc := [.fixed 20 32 false, .fixed 20 32 false, .scalar 4 .be, .fixed 16 32 false, .fixed 32 32 false], dec := [.fixed 20 32 false, .fixed 20 32 false, .scalar 4 .be, .fixed 16 32 false, .fixed 32 32 false], frame := none }
/-- szse.Logout -/
def t159 : TyDef := { nfields := 2, enc := [.scalar 4 .be, .fixed 200 32 false], dec := [.scalar 4 .be, .fixed 200 32 false], frame := none }
/-- szse.NewOrder -/
def t160 : TyDef := { nfields := 17, enc := [.fixed 3 32 false, .fixed 6 32 false, .fixed 8 32 false, .fixed 4 32 false, .scalar 2 .be, .fixed 2 32 false, .scalar 8 .be, .fixed 8 32 false, .fixed 10 32 false, .fixed 12 32 false, .fixed 4 32 false, .fixed 4 32 false, .fixed 1 32 false, .fixed 1 32 false, .scalar 8 .be, .scalar 8 .be, .union 0 16 .mat], dec := [.fixed 3 32 false, .fixed 6 32 false, .fixed 8 32 false, .fixed 4 32 false, .scalar 2 .be, .fixed 2 32 false, .scalar 8 .be, .fixed 8 32 false, .fixed 10 32 false, .fixed 12 32 false, .fixed 4 32 false, .fixed 4 32 false, .fixed 1 32 false, .fixed 1 32 false, .scalar 8 .be, .scalar 8 .be, .union 0 16 .mat], frame := none }
/-- szse.OrderCancelRequest -/
def t161 : TyDef := { nfields := 13, enc := [.fixed 3 32 false, .fixed 6 32 false, .fixed 8 32 false, .fixed 4 32 false, .scalar 2 .be, .fixed 2 32 false, .scalar 8 .be, .fixed 8 32 false, .fixed 10 32 false, .fixed 10 32 false, .fixed 1 32 false, .fixed 16 32 false, .scalar 8 .be], dec := [.fixed 3 32 false, .fixed 6 32 false, .fixed 8 32 false, .fixed 4 32 false, .scalar 2 .be, .fixed 2 32 false, .scalar 8 .be, .fixed 8 32 false, .fixed 10 32 false, .fixed 10 32 false, .fixed 1 32 false, .fixed 16 32 false, .scalar 8 .be], frame := none }
/-- szse.PartitionReport -/
def t162 : TyDef := { nfields := 2, enc := [.scalar 4 .be, .scalar 8 .be], dec := [.scalar 4 .be, .scalar 8 .be], frame := none }
/-- szse.PlatformInfo -/
def t163 : TyDef := { nfields := 2, enc := [.scalar 2 .be, .objs 4 164 .be], dec := [.scalar 2 .be, .objs 4 164 .be], frame := none }
/-- szse.PlatformPartition -/
def t164 : TyDef := { nfields := 1, enc := [.scalar 4 .be], dec := [.scalar 4 .be], frame := none }
/-- szse.PlatformStateInfo -/
def t165 : TyDef := { nfields := 2, enc := [.scalar 2 .be, .scalar 2 .be], dec := [.scalar 2 .be, .scalar 2 .be], frame := none }
/-- szse.ReportFinished -/
def t166 : TyDef := { nfields := 3, enc := [.scalar 4 .be, .scalar 8 .be, .scalar 2 .be], dec := [.scalar 4 .be, .scalar 8 .be, .scalar 2 .be], frame := none }
/-- szse.ReportSynchronization -/
def t167 : TyDef := { nfields := 1, enc := [.objs 4 162 .be], dec := [.objs 4 162 .be], frame := none }
/-- szse.SzseBinary -/
def t168 : TyDef := { nfields := 4, enc := [], dec := [.scalar 4 .be, .scalar 4 .be, .union 0 17 .mat, .scalar 4 .be], frame := some { hdr := [.scalar 4 .be], lenW := 4, e := .be, key := 0, tbl := 17, g := .skip, cks := some (.szse, 4) } }
/-- szse.TradingSessionStatus -/
def t169 : TyDef := { nfields := 7, enc := [.fixed 8 32 false, .fixed 8 32 false, .fixed 4 32 false, .fixed 4 32 false, .scalar 2 .be, .scalar 8 .be, .scalar 8 .be], dec := [.fixed 8 32 false, .fixed 8 32 false, .fixed 4 32 false, .fixed 4 32 false, .scalar 2 .be, .scalar 8 .be, .scalar 8 .be], frame := none }

def types : List TyDef := [t0, t1, t2, t3, t4, t5, t6, t7, t8, t9, t10, t11, t12, t13, t14, t15, t16, t17, t18, t19, t20, t21, t22, t23, t24, t25, t26, t27, t28, t29, t30, t31, t32, t33, t34, t35, t36, t37, t38, t39, t40, t41, t42, t43, t44, t45, t46, t47, t48, t49, t50, t51, t52, t53, t54, t55, t56, t57, t58, t59, t60, t61, t62, t63, t64, t65, t66, t67, t68, t69, t70, t71, t72, t73, t74, t75, t76, t77, t78, t79, t80, t81, t82, t83, t84, t85, t86, t87, t88, t89, t90, t91, t92, t93, t94, t95, t96, t97, t98, t99, t100, t101, t102, t103, t104, t105, t106, t107, t108, t109, t110, t111, t112, t113, t114, t115, t116, t117, t118, t119, t120, t121, t122, t123, t124, t125, t126, t127, t128, t129, t130, t131, t132, t133, t134, t135, t136, t137, t138, t139, t140, t141, t142, t143, t144, t145, t146, t147, t148, t149, t150, t151, t152, t153, t154, t155, t156, t157, t158, t159, t160, t161, t162, t163, t164, t165, t166, t167, t168, t169]

/-- bse.NewAllegeQuoteMessageByApplId -/
def tb0 : List (Key × Nat) := [(.s [48, 55, 48], 1)]
/-- bse.NewBjseBinaryMessageByMsgType -/
def tb1 : List (Key × Nat) := [(.n 1, 25), (.n 2, 26), (.n 3, 24), (.n 101000, 27), (.n 102000, 29), (.n 201000, 5), (.n 202010, 14), (.n 203010, 15), (.n 5, 46), (.n 6, 31), (.n 7, 44)]
/-- bse.NewExecutionConfirmMessageByApplId -/
def tb2 : List (Key × Nat) := [(.s [48, 49, 48], 6), (.s [48, 52, 48], 7), (.s [48, 52, 49], 8), (.s [48, 52, 50], 9), (.s [48, 52, 51], 10), (.s [48, 52, 52], 11), (.s [48, 52, 53], 12), (.s [48, 53, 48], 13)]
/-- bse.NewExecutionReportMessageByApplId -/
def tb3 : List (Key × Nat) := [(.s [48, 49, 48], 41), (.s [48, 52, 48], 42), (.s [48, 53, 48], 43)]
/-- bse.NewNewOrderMessageByApplId -/
def tb4 : List (Key × Nat) := [(.s [48, 49, 48], 16), (.s [48, 52, 48], 17), (.s [48, 52, 49], 18), (.s [48, 52, 50], 19), (.s [48, 52, 51], 20), (.s [48, 52, 52], 21), (.s [48, 52, 53], 22), (.s [48, 53, 48], 23)]
/-- bse.NewQuoteMessageByApplId -/
def tb5 : List (Key × Nat) := [(.s [48, 55, 48], 35), (.s [48, 55, 49], 36)]
/-- bse.NewQuoteResponseMessageByApplId -/
def tb6 : List (Key × Nat) := [(.s [48, 55, 48], 38)]
/-- bse.NewQuoteStatusReportMessageByApplId -/
def tb7 : List (Key × Nat) := [(.s [48, 55, 48], 40)]
/-- bse.NewTradeCaptureConfirmMessageByApplId -/
def tb8 : List (Key × Nat) := [(.s [48, 51, 49], 48), (.s [48, 53, 49], 49), (.s [48, 54, 48], 50), (.s [48, 54, 49], 51), (.s [48, 54, 50], 52)]
/-- bse.NewTradeCaptureReportAckMessageByApplId -/
def tb9 : List (Key × Nat) := [(.s [48, 51, 49], 55), (.s [48, 53, 49], 56), (.s [48, 54, 48], 57), (.s [48, 54, 49], 58), (.s [48, 54, 50], 59)]
/-- bse.NewTradeCaptureReportMessageByApplId -/
def tb10 : List (Key × Nat) := [(.s [48, 51, 49], 60), (.s [48, 53, 49], 61), (.s [48, 54, 48], 62), (.s [48, 54, 49], 63), (.s [48, 54, 50], 64)]
/-- risk.NewRcBinaryMessageByMsgType -/
def tb11 : List (Key × Nat) := [(.n 100101, 68), (.n 200102, 70), (.n 200115, 67), (.n 190007, 69), (.n 290008, 66), (.n 800001, 72)]
/-- sample.NewRootPacketMessageByMsgType -/
def tb12 : List (Key × Nat) := [(.n 1, 73), (.n 2, 79), (.n 3, 76), (.n 4, 74)]
/-- sse.NewSseBinaryMessageByMsgType -/
def tb13 : List (Key × Nat) := [(.n 33, 88), (.n 40, 89), (.n 41, 90), (.n 58, 91), (.n 61, 92), (.n 32, 83), (.n 59, 82), (.n 103, 95), (.n 204, 93), (.n 209, 94), (.n 208, 85), (.n 206, 86), (.n 207, 87), (.n 210, 84)]
/-- szse.NewExecutionConfirmMessageByApplId -/
def tb14 : List (Key × Nat) := [(.s [48, 49, 48], 123), (.s [48, 50, 48], 125), (.s [48, 51, 48], 127), (.s [48, 53, 49], 131), (.s [48, 53, 50], 131), (.s [48, 54, 48], 133), (.s [48, 54, 49], 133), (.s [48, 55, 48], 135), (.s [49, 53, 48], 138), (.s [49, 53, 49], 138), (.s [49, 53, 50], 138), (.s [49, 54, 48], 139), (.s [49, 55, 48], 140), (.s [49, 56, 48], 141), (.s [49, 56, 49], 141), (.s [50, 55, 48], 142), (.s [50, 55, 49], 142), (.s [50, 56, 48], 143), (.s [50, 56, 49], 143), (.s [50, 57, 48], 144), (.s [50, 57, 49], 144), (.s [54, 51, 48], 155), (.s [51, 53, 48], 146), (.s [51, 53, 49], 146), (.s [51, 55, 48], 147), (.s [52, 49, 48], 149), (.s [52, 49, 55], 151), (.s [52, 55, 48], 153)]
/-- szse.NewExecutionReportMessageByApplId -/
def tb15 : List (Key × Nat) := [(.s [48, 49, 48], 124), (.s [48, 50, 48], 126), (.s [48, 51, 48], 128), (.s [48, 53, 49], 132), (.s [48, 53, 50], 132), (.s [48, 53, 54], 132), (.s [48, 53, 55], 132), (.s [48, 54, 48], 134), (.s [48, 54, 49], 134), (.s [48, 55, 48], 136), (.s [54, 51, 48], 156), (.s [51, 55, 48], 148), (.s [52, 49, 48], 150), (.s [52, 49, 50], 150), (.s [52, 49, 51], 150), (.s [52, 49, 53], 150), (.s [52, 49, 54], 150), (.s [52, 49, 55], 152), (.s [52, 55, 48], 154)]
/-- szse.NewNewOrderMessageByApplId -/
def tb16 : List (Key × Nat) := [(.s [48, 49, 48], 103), (.s [48, 50, 48], 104), (.s [48, 51, 48], 105), (.s [48, 53, 49], 106), (.s [48, 53, 50], 106), (.s [48, 54, 48], 107), (.s [48, 54, 49], 107), (.s [48, 55, 48], 108), (.s [49, 53, 48], 110), (.s [49, 53, 49], 110), (.s [49, 53, 50], 110), (.s [49, 54, 48], 111), (.s [49, 55, 48], 112), (.s [49, 56, 48], 113), (.s [49, 56, 49], 113), (.s [50, 55, 48], 114), (.s [50, 55, 49], 114), (.s [50, 56, 48], 115), (.s [50, 56, 49], 115), (.s [50, 57, 48], 116), (.s [50, 57, 49], 116), (.s [54, 51, 48], 122), (.s [51, 53, 48], 117), (.s [51, 53, 49], 117), (.s [51, 55, 48], 118), (.s [52, 49, 48], 119), (.s [52, 49, 55], 120), (.s [52, 55, 48], 121)]
/-- szse.NewSzseBinaryMessageByMsgType -/
def tb17 : List (Key × Nat) := [(.n 1, 158), (.n 2, 159), (.n 3, 157), (.n 4, 99), (.n 5, 167), (.n 6, 165), (.n 7, 166), (.n 9, 164), (.n 10, 169), (.n 100101, 160), (.n 100201, 160), (.n 100301, 160), (.n 100401, 160), (.n 100501, 160), (.n 100601, 160), (.n 100701, 160), (.n 101201, 160), (.n 101301, 160), (.n 101401, 160), (.n 101501, 160), (.n 101601, 160), (.n 101701, 160), (.n 101801, 160), (.n 101901, 160), (.n 102301, 160), (.n 102701, 160), (.n 102801, 160), (.n 102901, 160), (.n 103101, 160), (.n 106301, 160), (.n 103301, 160), (.n 103501, 160), (.n 103701, 160), (.n 104101, 160), (.n 104128, 160), (.n 104701, 160), (.n 200102, 101), (.n 200202, 101), (.n 200302, 101), (.n 200402, 101), (.n 200502, 101), (.n 200602, 101), (.n 200702, 101), (.n 201202, 101), (.n 201302, 101), (.n 201402, 101), (.n 201502, 101), (.n 201602, 101), (.n 201702, 101), (.n 201802, 101), (.n 201902, 101), (.n 202202, 101), (.n 202302, 101), (.n 202702, 101), (.n 202802, 101), (.n 202902, 101), (.n 203102, 101), (.n 206302, 101), (.n 203302, 101), (.n 203502, 101), (.n 203702, 101), (.n 204102, 101), (.n 204129, 101), (.n 204702, 101), (.n 200115, 102), (.n 200215, 102), (.n 200315, 102), (.n 200415, 102), (.n 200515, 102), (.n 200615, 102), (.n 200715, 102), (.n 206315, 102), (.n 203715, 102), (.n 204115, 102), (.n 204130, 102), (.n 190007, 161), (.n 290008, 100)]

def tables : List (List (Key × Nat)) := [tb0, tb1, tb2, tb3, tb4, tb5, tb6, tb7, tb8, tb9, tb10, tb11, tb12, tb13, tb14, tb15, tb16, tb17]

def env : Env := { types := types, tables := tables }

def typeNames : List String := ["bse.AllegeQuote", "bse.AllegeQuoteExtend070", "bse.AllegeQuoteResponse", "bse.BjseBinary", "bse.BusinessReject", "bse.CancelReject", "bse.ConfirmExtend010", "bse.ConfirmExtend040", "bse.ConfirmExtend041", "bse.ConfirmExtend042", "bse.ConfirmExtend043", "bse.ConfirmExtend044", "bse.ConfirmExtend045", "bse.ConfirmExtend050", "bse.ExecutionConfirm", "bse.ExecutionReport", "bse.ExtendNewOrder010", "bse.ExtendNewOrder040", "bse.ExtendNewOrder041", "bse.ExtendNewOrder042", "bse.ExtendNewOrder043", "bse.ExtendNewOrder044", "bse.ExtendNewOrder045", "bse.ExtendNewOrder050", "bse.Heartbeat", "bse.Logon", "bse.Logout", "bse.NewOrder", "bse.NoPartitions", "bse.OrderCancelRequest", "bse.PlatformInfo", "bse.PlatformStateInfo", "bse.Quote", "bse.Quote1", "bse.Quote2", "bse.QuoteExtend070", "bse.QuoteExtend071", "bse.QuoteResponse", "bse.QuoteResponseExtend070", "bse.QuoteStatusReport", "bse.QuoteStatusReportExtend070", "bse.ReportExtend010", "bse.ReportExtend040", "bse.ReportExtend050", "bse.ReportFinished", "bse.ReportPartitionSync", "bse.ReportSynchronization", "bse.TradeCaptureConfirm", "bse.TradeCaptureConfirmExtend031", "bse.TradeCaptureConfirmExtend051", "bse.TradeCaptureConfirmExtend060", "bse.TradeCaptureConfirmExtend061", "bse.TradeCaptureConfirmExtend062", "bse.TradeCaptureReport", "bse.TradeCaptureReportAck", "bse.TradeCaptureReportAckExtend031", "bse.TradeCaptureReportAckExtend051", "bse.TradeCaptureReportAckExtend060", "bse.TradeCaptureReportAckExtend061", "bse.TradeCaptureReportAckExtend062", "bse.TradeCaptureReportExtend031", "bse.TradeCaptureReportExtend051", "bse.TradeCaptureReportExtend060", "bse.TradeCaptureReportExtend061", "bse.TradeCaptureReportExtend062", "bse.TradingSessionStatus", "risk.CancelReject", "risk.ExecutionReport", "risk.NewOrder", "risk.OrderCancel", "risk.OrderConfirm", "risk.RcBinary", "risk.RiskResult", "sample.BasicPacket", "sample.EmptyPacket", "sample.InerPacket", "sample.NestedPacket", "sample.RiskControlRequest", "sample.RootPacket", "sample.StringPacket", "sample.SubOrder", "sample.SubPacket", "sse.CancelReject", "sse.Confirm", "sse.ExecRptEndOfStream", "sse.ExecRptInfo", "sse.ExecRptSync", "sse.ExecRptSyncRsp", "sse.Heartbeat", "sse.Logon", "sse.Logout", "sse.NewOrderSingle", "sse.OrderCancel", "sse.OrderReject", "sse.PlatformState", "sse.Report", "sse.SseBinary", "sse.SubExecRptSync", "sse.SubExecRptSyncRsp", "szse.BusinessReject", "szse.CancelReject", "szse.ExecutionConfirm", "szse.ExecutionReport", "szse.Extend100101", "szse.Extend100201", "szse.Extend100301", "szse.Extend100501", "szse.Extend100601", "szse.Extend100701", "szse.Extend101401", "szse.Extend101501", "szse.Extend101601", "szse.Extend101701", "szse.Extend101801", "szse.Extend102701", "szse.Extend102801", "szse.Extend102901", "szse.Extend103501", "szse.Extend103701", "szse.Extend104101", "szse.Extend104128", "szse.Extend104701", "szse.Extend106301", "szse.Extend200102", "szse.Extend200115", "szse.Extend200202", "szse.Extend200215", "szse.Extend200302", "szse.Extend200315", "szse.Extend200402", "szse.Extend200415", "szse.Extend200502", "szse.Extend200515", "szse.Extend200602", "szse.Extend200615", "szse.Extend200702", "szse.Extend200715", "szse.Extend201202", "szse.Extend201502", "szse.Extend201602", "szse.Extend201702", "szse.Extend201802", "szse.Extend202702", "szse.Extend202802", "szse.Extend202902", "szse.Extend203102", "szse.Extend203502", "szse.Extend203702", "szse.Extend203715", "szse.Extend204102", "szse.Extend204115", "szse.Extend204129", "szse.Extend204130", "szse.Extend204702", "szse.Extend204715", "szse.Extend206302", "szse.Extend206315", "szse.Heartbeat", "szse.Logon", "szse.Logout", "szse.NewOrder", "szse.OrderCancelRequest", "szse.PartitionReport", "szse.PlatformInfo", "szse.PlatformPartition", "szse.PlatformStateInfo", "szse.ReportFinished", "szse.ReportSynchronization", "szse.SzseBinary", "szse.TradingSessionStatus"]

/-- protocol of each type: 0 bse, 1 risk, 2 sample, 3 sse, 4 szse, 5 sample hand-written -/
def typeProto : List Nat := [0, 0, 0, 0, 0, 0, 0, 0, 0, 0, 0, 0, 0, 0, 0, 0, 0, 0, 0, 0, 0, 0, 0, 0, 0, 0, 0, 0, 0, 0, 0, 0, 0, 0, 0, 0, 0, 0, 0, 0, 0, 0, 0, 0, 0, 0, 0, 0, 0, 0, 0, 0, 0, 0, 0, 0, 0, 0, 0, 0, 0, 0, 0, 0, 0, 0, 1, 1, 1, 1, 1, 1, 1, 2, 2, 2, 2, 5, 2, 2, 5, 2, 3, 3, 3, 3, 3, 3, 3, 3, 3, 3, 3, 3, 3, 3, 3, 3, 3, 4, 4, 4, 4, 4, 4, 4, 4, 4, 4, 4, 4, 4, 4, 4, 4, 4, 4, 4, 4, 4, 4, 4, 4, 4, 4, 4, 4, 4, 4, 4, 4, 4, 4, 4, 4, 4, 4, 4, 4, 4, 4, 4, 4, 4, 4, 4, 4, 4, 4, 4, 4, 4, 4, 4, 4, 4, 4, 4, 4, 4, 4, 4, 4, 4, 4, 4, 4, 4, 4, 4]

def tableNames : List String := ["bse.NewAllegeQuoteMessageByApplId", "bse.NewBjseBinaryMessageByMsgType", "bse.NewExecutionConfirmMessageByApplId", "bse.NewExecutionReportMessageByApplId", "bse.NewNewOrderMessageByApplId", "bse.NewQuoteMessageByApplId", "bse.NewQuoteResponseMessageByApplId", "bse.NewQuoteStatusReportMessageByApplId", "bse.NewTradeCaptureConfirmMessageByApplId", "bse.NewTradeCaptureReportAckMessageByApplId", "bse.NewTradeCaptureReportMessageByApplId", "risk.NewRcBinaryMessageByMsgType", "sample.NewRootPacketMessageByMsgType", "sse.NewSseBinaryMessageByMsgType", "szse.NewExecutionConfirmMessageByApplId", "szse.NewExecutionReportMessageByApplId", "szse.NewNewOrderMessageByApplId", "szse.NewSzseBinaryMessageByMsgType"]

end FinProto.Pinned
