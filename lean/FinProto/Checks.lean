/-
  Decidable side conditions on a (regenerated) environment, and the canonical value domain of C01.
  The universally quantified theorems in FinProto/Props are proved for every environment that passes
  these checks; FinProto/Obl evaluates the checks on `Gen.env` with the kernel (`decide`).
-/
import FinProto.Interp
namespace FinProto

/-- forget the nil-handling annotation (it differs legitimately between Encode and Decode) -/
def Op.eraseG : Op → Op
  | .nested ty _ => .nested ty .none
  | .union k t _ => .union k t .none
  | op => op

def Op.isScalar : Op → Bool
  | .scalar _ _ => true
  | _ => false

def Op.isOpaque : Op → Bool
  | .opaque => true
  | _ => false

/-- the decoder statements that a self-measuring frame's encoder corresponds to -/
def FrameDesc.decOps (fd : FrameDesc) : List Op :=
  fd.hdr ++ [.scalar fd.lenW fd.e, .union fd.key fd.tbl .mat] ++
    (match fd.cks with
     | some (_, w) => [.scalar w fd.e]
     | none => [])

/-- Decode mirrors Encode: same primitives, type arguments and literals, in the same order -/
def TyDef.mirrorOK (td : TyDef) : Bool :=
  match td.frame with
  | none => td.enc.map Op.eraseG == td.dec.map Op.eraseG && td.enc.length == td.nfields
  | some fd =>
    td.dec.map Op.eraseG == fd.decOps.map Op.eraseG && td.dec.length == td.nfields &&
    fd.hdr.all Op.isScalar && decide (fd.key < fd.hdr.length) && fd.lenW == 4 &&
    (match fd.cks with
     | some (a, w) => w == 4 && a != .unknown
     | none => true)

def Env.mirrorOK (env : Env) : Bool := env.types.all TyDef.mirrorOK

def opsNoOpaque (ops : List Op) : Bool := ops.all (fun o => !o.isOpaque)

def Env.noOpaque (env : Env) : Bool :=
  env.types.all (fun td => opsNoOpaque td.enc && opsNoOpaque td.dec)

/-- a union's key is an earlier scalar or fixed-text field -/
def keysEarlierAux : List Op → Nat → List Op → Bool
  | _, _, [] => true
  | all, i, op :: rest =>
    (match op with
     | .union key _ _ =>
       decide (key < i) &&
       (match all[key]? with
        | some (.scalar _ _) => true
        | some (.fixed _ _ _) => true
        | _ => false)
     | _ => true) && keysEarlierAux all (i + 1) rest

def keysEarlier (ops : List Op) : Bool := keysEarlierAux ops 0 ops

def Env.keysOK (env : Env) : Bool := env.types.all (fun td => keysEarlier td.dec)

/-- widths the Go types allow, and prefixes narrow enough that `int(prefix)` is never negative -/
def Op.widthsOK : Op → Bool
  | .scalar w _ => w == 1 || w == 2 || w == 4 || w == 8
  | .fixed _ pad _ => decide (pad < 256)
  | .vstr pw _ => pw == 1 || pw == 2 || pw == 4
  | .nums cw w _ => (cw == 1 || cw == 2 || cw == 4) && (w == 1 || w == 2 || w == 4 || w == 8)
  | .fixeds cw n pad _ _ => (cw == 1 || cw == 2 || cw == 4) && decide (pad < 256) && decide (0 < n)
  | .vstrs cw pw _ => (cw == 1 || cw == 2 || cw == 4) && (pw == 1 || pw == 2 || pw == 4)
  | .nested _ _ => true
  | .objs cw _ _ => cw == 1 || cw == 2 || cw == 4
  | .union _ _ _ => true
  | .opaque => false

def Env.widthsOK (env : Env) : Bool :=
  env.types.all (fun td => td.dec.all Op.widthsOK && td.enc.all Op.widthsOK &&
    (match td.frame with
     | some fd => fd.hdr.all Op.widthsOK
     | none => true))

/-- every pointer / interface field is guarded against nil in Encode (C17) -/
def Op.guardOK : Op → Bool
  | .nested _ g => g == .mat || g == .val
  | .union _ _ g => g == .mat || g == .skip
  | _ => true

def Env.guardsOK (env : Env) : Bool :=
  env.types.all (fun td => td.enc.all Op.guardOK &&
    (match td.frame with
     | some fd => fd.g == .mat || fd.g == .skip
     | none => true))

/-- all type and table references are in range -/
def Op.refsOK (env : Env) : Op → Bool
  | .nested ty _ => decide (ty < env.types.length)
  | .objs _ ty _ => decide (ty < env.types.length)
  | .union _ tbl _ => decide (tbl < env.tables.length)
  | _ => true

def Env.refsOK (env : Env) : Bool :=
  env.types.all (fun td => td.dec.all (Op.refsOK env) && td.enc.all (Op.refsOK env)) &&
  env.tables.all (fun t => t.all (fun kv => decide (kv.2 < env.types.length)))

/-- minimum number of bytes any successful decode of the op consumes (with fuel) -/
def minSizeOp (minTy : Nat → Nat) : Op → Nat
  | .scalar w _ => w
  | .fixed n _ _ => n
  | .vstr pw _ => pw
  | .nums cw _ _ => cw
  | .fixeds cw _ _ _ _ => cw
  | .vstrs cw _ _ => cw
  | .nested ty _ => minTy ty
  | .objs cw _ _ => cw
  | .union _ _ _ => 0
  | .opaque => 0

def minSizeTy (env : Env) : Nat → Nat → Nat
  | 0, _ => 0
  | f+1, ty =>
    match env.types[ty]? with
    | some td => (td.dec.map (minSizeOp (minSizeTy env f))).sum
    | none => 0

/-- every repeated element consumes at least one byte, so a loop cannot spin on an empty buffer (C09) -/
def Env.elemsOK (env : Env) : Bool :=
  env.types.all (fun td => td.dec.all (fun op =>
    match op with
    | .objs _ ty _ => decide (0 < minSizeTy env env.fuel ty)
    | .nums _ w _ => decide (0 < w)
    | .fixeds _ n _ _ _ => decide (0 < n)
    | .vstrs _ pw _ => decide (0 < pw)
    | _ => true))

/-! ### one byte order per protocol (C03) -/

/-- byte order of each protocol module: BSE (0) and sample (2) little-endian; risk (1), SSE (3), SZSE (4)
    and the hand-written sample types (5) big-endian -/
def protoEndian : Nat → Endian
  | 0 => .le
  | 2 => .le
  | _ => .be

def Op.endianIs (e : Endian) : Op → Bool
  | .scalar _ e' => e' == e
  | .vstr _ e' => e' == e
  | .nums _ _ e' => e' == e
  | .fixeds _ _ _ _ e' => e' == e
  | .vstrs _ _ e' => e' == e
  | .objs _ _ e' => e' == e
  | _ => true

def TyDef.endianIs (e : Endian) (td : TyDef) : Bool :=
  td.enc.all (Op.endianIs e) && td.dec.all (Op.endianIs e) &&
  (match td.frame with
   | some fd => fd.e == e && fd.hdr.all (Op.endianIs e)
   | none => true)

def endianOKAux : List TyDef → List Nat → Bool
  | [], [] => true
  | td :: tds, p :: ps => td.endianIs (protoEndian p) && endianOKAux tds ps
  | _, _ => false

/-- every multi-byte integer of every message of a protocol uses that protocol's byte order -/
def Env.endianOK (env : Env) (protos : List Nat) : Bool := endianOKAux env.types protos

/-! ### the canonical domain of C01 -/

def fixedCanon (n : Nat) (pad : UInt8) (left : Bool) (s : Bytes) : Bool :=
  decide (s.length ≤ n) && (if left then s.head? != some pad else s.getLast? != some pad)

def isMsgOf (ty : Nat) : Val → Bool
  | .msg ty' _ => ty' == ty
  | _ => false

def canonOp (env : Env) (canonTy : Nat → Val → Bool) (all : List Val) : Op → Val → Bool
  | .scalar w _, .num n => decide (n < 256 ^ w)
  | .fixed n pad left, .str s => fixedCanon n (UInt8.ofNat pad) left s
  | .vstr pw _, .str s => decide (s.length < 256 ^ pw)
  | .nums cw w _, .nums l => decide (l.length < 256 ^ cw) && l.all (fun n => decide (n < 256 ^ w))
  | .fixeds cw n pad left _, .strs l =>
    decide (l.length < 256 ^ cw) && l.all (fixedCanon n (UInt8.ofNat pad) left)
  | .vstrs cw pw _, .strs l => decide (l.length < 256 ^ cw) && l.all (fun s => decide (s.length < 256 ^ pw))
  | .nested ty _, v => isMsgOf ty v && canonTy ty v
  | .objs cw ty _, .msgs l => decide (l.length < 256 ^ cw) && l.all (fun v => isMsgOf ty v && canonTy ty v)
  | .union key tbl _, v =>
    (match unionTy env key tbl all with
     | some ty => isMsgOf ty v && canonTy ty v
     | none => false)
  | _, _ => false

def canonSeq (step : Op → Val → Bool) : List Op → List Val → Bool
  | [], [] => true
  | op :: ops, v :: vs => step op v && canonSeq step ops vs
  | _, _ => false

/-- `canonTy env f ty v`: `v` is a message of type `ty` all of whose fields fit their wire fields
    (C01's domain): scalars in range, text within its width and not starting/ending with the pad on the
    pad side, counts and lengths representable, body type matching the discriminator, nothing absent.
    For a self-measuring frame the caller's length and checksum fields are unconstrained. -/
def canonTy (env : Env) : Nat → Nat → Val → Bool
  | 0, _, _ => false
  | f+1, ty, .msg ty' fields =>
    ty' == ty &&
    (match env.types[ty]? with
     | none => false
     | some td =>
       match td.frame with
       | none => canonSeq (canonOp env (canonTy env f) fields) td.enc fields
       | some fd =>
         decide (fields.length = td.nfields) &&
         canonSeq (canonOp env (canonTy env f) fields) fd.hdr (fields.take fd.hdr.length) &&
         (match fields[fd.hdr.length + 1]? with
          | some body => canonOp env (canonTy env f) fields (.union fd.key fd.tbl fd.g) body
          | none => false))
  | _+1, _, _ => false

/-! ### values outside C17's exclusion: no nil element inside a list -/

mutual
  def noNilElems : Val → Bool
    | .msgs l => noNilElemsL l true
    | .msg _ fs => noNilElemsL fs false
    | _ => true
  /-- `strict`: the list is a repeating group, whose elements must be present -/
  def noNilElemsL : List Val → Bool → Bool
    | [], _ => true
    | v :: vs, strict =>
      (match v, strict with
       | .nil, true => false
       | _, _ => true) && noNilElems v && noNilElemsL vs strict
end

/-- no table entry, nested field or repeating group refers to a self-measuring frame type
    (frames occur only at the top level) -/
def Env.isFrame (env : Env) (ty : Nat) : Bool :=
  match env.types[ty]? with
  | some td => td.frame.isSome
  | none => false

def Env.framesTop (env : Env) : Bool :=
  env.tables.all (fun t => t.all (fun kv => !env.isFrame kv.2)) &&
  env.types.all (fun td => (td.dec ++ td.enc).all (fun op =>
    match op with
    | .nested ty _ => !env.isFrame ty
    | .objs _ ty _ => !env.isFrame ty
    | _ => true))

end FinProto
