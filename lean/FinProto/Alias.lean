/-
  Property C16 ("decoded values never alias the source buffer; encoded bytes never alias the
  message").  The main model of this project is value-semantic, so aliasing cannot even be stated in
  it.  This file gives a deliberately tiny explicit MEMORY model in which it can:

  * memory = a list of byte regions (region id = index), a reference = (region, offset, length);
  * the state of one reader/writer primitive call: the memory, the id of the buffer's backing
    array, the read offset, the number of valid bytes, and an environment of local slice/string
    variables holding references;
  * a micro-instruction language into which the bodies of the Go reader/writer primitives are
    translated by the extractor (`make`, `readFull`, `toString`, `sub`, `view`, `unsafeString`,
    `write`, `ret`).  `view` (buf.Next(n) / buf.Bytes()[:n]) is the only instruction that creates a
    reference into the buffer's backing array.

  Definitions only (core Lean, all executable).  Proofs are in `FinProto/Props/AliasProofs.lean`.
-/

namespace FinProto.Alias

/-- Memory: a list of byte regions; the region id is the index.  Regions are never freed. -/
structure Mem where
  regions : List (List UInt8)
deriving Repr, DecidableEq

/-- A reference (Go slice header / string header): `len` bytes at `off` inside region `region`. -/
structure Ref where
  region : Nat
  off : Nat
  len : Nat
deriving Repr, DecidableEq

/-- What one sees through a reference: `none` if the region does not exist or the window is out of
    bounds. -/
def observe (m : Mem) (r : Ref) : Option (List UInt8) :=
  match m.regions[r.region]? with
  | none => none
  | some bs => if r.off + r.len ≤ bs.length then some ((bs.drop r.off).take r.len) else none

/-- Arbitrary later mutation of ONE region: overwrite, Reset, reuse of the buffer's backing array
    including its spare capacity, truncation, growth ... any `f`. -/
def scribble (m : Mem) (region : Nat) (f : List UInt8 → List UInt8) : Mem :=
  ⟨m.regions.modify region f⟩

/-- Allocate a fresh region holding `bs`; its id is the old region count. -/
def Mem.alloc (m : Mem) (bs : List UInt8) : Mem × Nat :=
  (⟨m.regions ++ [bs]⟩, m.regions.length)

/-- Overwrite the window `[off, off + data.length)` of `bs` with `data` (may grow `bs` when the
    window reaches past its end; callers that must not grow check bounds first). -/
def splice (bs : List UInt8) (off : Nat) (data : List UInt8) : List UInt8 :=
  bs.take off ++ data ++ bs.drop (off + data.length)

/-- Machine state of one primitive call. -/
structure State where
  mem : Mem
  /-- region id of the buffer's backing array -/
  bufRegion : Nat
  /-- read offset into the buffer; the bytes before it are consumed -/
  off : Nat
  /-- number of valid bytes in the backing array (the rest is spare capacity) -/
  valid : Nat
  /-- local variables holding references -/
  env : Nat → Option Ref

def State.setVar (s : State) (dst : Nat) (r : Ref) : State :=
  { s with env := fun k => if k = dst then some r else s.env k }

/-- Micro-instructions: what the Go reader/writer bodies do to memory. -/
inductive Instr where
  /-- `dst := make([]byte, n)`: fresh zero-filled region -/
  | make (dst : Nat) (n : Nat)
  /-- `io.ReadFull(buf, dst)` / `buf.Read(dst)` / `binary.Read`: COPY `len dst` bytes from the
      buffer at `off` into the memory `dst` refers to, advance `off`; fails on short input -/
  | readFull (dst : Nat)
  /-- `dst := string(src)`: fresh region holding a COPY of `src`'s bytes -/
  | toString (dst src : Nat)
  /-- `dst := src[a:b]`: same region, narrower window -/
  | sub (dst src : Nat) (a b : Nat)
  /-- `dst := buf.Next(n)` / `buf.Bytes()[:n]`: a reference INTO THE BUFFER's region at `off`,
      advance `off`.  The aliasing instruction. -/
  | view (dst : Nat) (n : Nat)
  /-- `dst := unsafe.String(&src[0], len(src))`: no copy; aliasing iff `src` is a view -/
  | unsafeString (dst src : Nat)
  /-- `buf.Write(src)` / `buf.WriteString(src)`: append a COPY of `src`'s bytes to the buffer -/
  | write (src : Nat)
  /-- `return src` -/
  | ret (src : Nat)
deriving Repr, DecidableEq

abbrev Prog := List Instr

/-- One non-`ret` instruction. `none` = the primitive fails (error return / panic). -/
def step : Instr → State → Option State
  | .make dst n, s =>
      let (m, id) := s.mem.alloc (List.replicate n 0)
      some ({ s with mem := m }.setVar dst ⟨id, 0, n⟩)
  | .readFull dst, s =>
      match s.env dst, s.mem.regions[s.bufRegion]? with
      | some r, some buf =>
          match s.mem.regions[r.region]? with
          | some tgt =>
              if s.off + r.len ≤ s.valid ∧ s.valid ≤ buf.length ∧ r.off + r.len ≤ tgt.length then
                let data := (buf.drop s.off).take r.len
                some { s with
                  mem := ⟨s.mem.regions.set r.region (splice tgt r.off data)⟩
                  off := s.off + r.len }
              else none
          | none => none
      | _, _ => none
  | .toString dst src, s =>
      match s.env src with
      | some r =>
          match observe s.mem r with
          | some bs =>
              let (m, id) := s.mem.alloc bs
              some ({ s with mem := m }.setVar dst ⟨id, 0, bs.length⟩)
          | none => none
      | none => none
  | .sub dst src a b, s =>
      match s.env src with
      | some r =>
          if a ≤ b ∧ b ≤ r.len then some (s.setVar dst ⟨r.region, r.off + a, b - a⟩) else none
      | none => none
  | .view dst n, s =>
      match s.mem.regions[s.bufRegion]? with
      | some buf =>
          if s.off + n ≤ s.valid ∧ s.valid ≤ buf.length then
            some ({ s with off := s.off + n }.setVar dst ⟨s.bufRegion, s.off, n⟩)
          else none
      | none => none
  | .unsafeString dst src, s =>
      match s.env src with
      | some r => some (s.setVar dst r)
      | none => none
  | .write src, s =>
      match s.env src, s.mem.regions[s.bufRegion]? with
      | some r, some buf =>
          match observe s.mem r with
          | some data =>
              if s.valid ≤ buf.length then
                some { s with
                  mem := ⟨s.mem.regions.set s.bufRegion (splice buf s.valid data)⟩
                  valid := s.valid + data.length }
              else none
          | none => none
      | _, _ => none
  | .ret _, _ => none

/-- Run a reader body up to its `ret`; the result is the returned reference and the final state.
    Falling off the end without `ret`, or any failing instruction, gives `none`. -/
def run : Prog → State → Option (Ref × State)
  | [], _ => none
  | .ret src :: _, s => (s.env src).map fun r => (r, s)
  | i :: rest, s => (step i s).bind (run rest)

/-- Run a writer body (no result value): all instructions in sequence. -/
def exec : Prog → State → Option State
  | [], s => some s
  | i :: rest, s => (step i s).bind (exec rest)

def Instr.isView : Instr → Bool
  | .view _ _ => true
  | _ => false

def Instr.isWrite : Instr → Bool
  | .write _ => true
  | _ => false

/-- A copying program: no `view` instruction (then `unsafeString` is harmless: it can only copy
    a reference to memory allocated during the call). -/
def Prog.copying (p : Prog) : Bool := p.all fun i => !i.isView

/-- A program consisting of `write`s only (the encode side). -/
def Prog.writesOnly (p : Prog) : Bool := p.all Instr.isWrite

/-- Initial state of a primitive call: the buffer exists and no local is bound yet. -/
def State.Initial (s : State) : Prop :=
  s.bufRegion < s.mem.regions.length ∧ ∀ k, s.env k = none

/-- The valid (written, not yet overwritten) bytes of the buffer. -/
def State.bufBytes (m : Mem) (s : State) : List UInt8 :=
  ((m.regions[s.bufRegion]?).getD []).take s.valid

/-- Convenience constructor: a buffer with backing array `buf` (all of it valid) as region 0,
    further regions `others` (e.g. the message being encoded), nothing consumed, no locals. -/
def State.ofBuffer (buf : List UInt8) (others : List (List UInt8) := []) : State :=
  { mem := ⟨buf :: others⟩, bufRegion := 0, off := 0, valid := buf.length, env := fun _ => none }

/-! ### The Go primitives as data (emitted by the extractor) -/

/-- ReadString / ReadStringLE / string-list element: `b := make([]byte, len); io.ReadFull(buf, b);
    return string(b)`. -/
def progReadString (len : Nat) : Prog :=
  [.make 0 len, .readFull 0, .toString 1 0, .ret 1]

/-- ReadFixedStringTrimPadding: read `n` bytes, trim to `[a:b]`, convert. -/
def progReadFixedStringTrimPadding (n a b : Nat) : Prog :=
  [.make 0 n, .readFull 0, .sub 0 0 a b, .toString 1 0, .ret 1]

/-- ReadBasicType: `binary.Read` of a `w`-byte value into a local. -/
def progReadBasicType (w : Nat) : Prog :=
  [.make 0 w, .readFull 0, .ret 0]

/-- The zero-copy variant that C16 forbids: `return buf.Next(n)`. -/
def progViewString (n : Nat) : Prog :=
  [.view 0 n, .ret 0]

/-! ### static taint analysis: which locals may point into the buffer's backing array -/

/-- the effect of one instruction on the set of possibly-aliasing locals (`true` = may point into the buffer) -/
def taintStep : Instr → (Nat → Bool) → (Nat → Bool)
  | .make d _, t => fun k => if k = d then false else t k
  | .readFull _, t => t
  | .toString d _, t => fun k => if k = d then false else t k
  | .sub d s _ _, t => fun k => if k = d then t s else t k
  | .view d _, t => fun k => if k = d then true else t k
  | .unsafeString d s, t => fun k => if k = d then t s else t k
  | .write _, t => t
  | .ret _, t => t

/-- the local returned by the first `ret` is statically clean -/
def retCleanFrom : Prog → (Nat → Bool) → Bool
  | [], _ => false
  | .ret r :: _, t => !t r
  | i :: rest, t => retCleanFrom rest (taintStep i t)

/-- a reader body whose result cannot point into the buffer: copies of views (`string(buf.Next(n))`) are fine,
    returning a view, a sub-slice of a view or an `unsafe.String` of a view is not -/
def Prog.retClean (p : Prog) : Bool := retCleanFrom p (fun _ => true)

end FinProto.Alias
