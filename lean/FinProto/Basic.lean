/-
  Bytes and fixed-width integers.  Scalars are modelled as bit patterns (`Nat < 256^w`): signedness
  and float-ness do not exist on the wire.  Core Lean only (the driver links this file).
-/
namespace FinProto

abbrev Bytes := List UInt8

inductive Endian | be | le
  deriving DecidableEq, Repr, Inhabited

/-- little-endian rendering of `n` in exactly `w` bytes (high bits are dropped, as Go's `T(n)` does) -/
def toLE : Nat → Nat → Bytes
  | 0, _ => []
  | w+1, n => UInt8.ofNat n :: toLE w (n / 256)

def toBE (w n : Nat) : Bytes := (toLE w n).reverse

def ofLE : Bytes → Nat
  | [] => 0
  | b :: bs => b.toNat + 256 * ofLE bs

def ofBE (bs : Bytes) : Nat := ofLE bs.reverse

def toE : Endian → Nat → Nat → Bytes
  | .le, w, n => toLE w n
  | .be, w, n => toBE w n

def ofE : Endian → Bytes → Nat
  | .le, bs => ofLE bs
  | .be, bs => ofBE bs

theorem u8_toNat_ofNat (n : Nat) : (UInt8.ofNat n).toNat = n % 256 := by simp

@[simp] theorem toLE_length (w n : Nat) : (toLE w n).length = w := by
  induction w generalizing n with
  | zero => rfl
  | succ w ih => simp [toLE, ih]

@[simp] theorem toBE_length (w n : Nat) : (toBE w n).length = w := by simp [toBE]

@[simp] theorem toE_length (e : Endian) (w n : Nat) : (toE e w n).length = w := by
  cases e <;> simp [toE]

theorem ofLE_lt (bs : Bytes) : ofLE bs < 256 ^ bs.length := by
  induction bs with
  | nil => simp [ofLE]
  | cons b bs ih =>
    have hb : b.toNat < 256 := b.toNat_lt
    simp only [ofLE, List.length_cons, Nat.pow_succ]
    omega

theorem ofLE_toLE (w n : Nat) : ofLE (toLE w n) = n % 256 ^ w := by
  induction w generalizing n with
  | zero => simp [toLE, ofLE, Nat.mod_one]
  | succ w ih =>
    simp only [toLE, ofLE, ih, u8_toNat_ofNat]
    rw [Nat.pow_succ, Nat.mul_comm (256 ^ w) 256, Nat.mod_mul]

theorem toLE_ofLE (bs : Bytes) : toLE bs.length (ofLE bs) = bs := by
  induction bs with
  | nil => rfl
  | cons b bs ih =>
    have hb : b.toNat < 256 := b.toNat_lt
    simp only [List.length_cons, toLE, ofLE]
    have h1 : (b.toNat + 256 * ofLE bs) / 256 = ofLE bs := by omega
    have h2 : UInt8.ofNat (b.toNat + 256 * ofLE bs) = b := by
      apply UInt8.toNat_inj.mp
      simp only [u8_toNat_ofNat]
      omega
    rw [h1, h2, ih]

theorem ofE_toE (e : Endian) (w n : Nat) : ofE e (toE e w n) = n % 256 ^ w := by
  cases e <;> simp [ofE, toE, ofBE, toBE, ofLE_toLE]

theorem ofE_toE_of_lt (e : Endian) (w n : Nat) (h : n < 256 ^ w) : ofE e (toE e w n) = n := by
  rw [ofE_toE, Nat.mod_eq_of_lt h]

theorem toE_ofE (e : Endian) (bs : Bytes) : toE e bs.length (ofE e bs) = bs := by
  cases e with
  | le => exact toLE_ofLE bs
  | be =>
    simp only [toE, ofE, toBE, ofBE]
    have := toLE_ofLE bs.reverse
    rw [List.length_reverse] at this
    rw [this, List.reverse_reverse]

theorem ofE_lt (e : Endian) (bs : Bytes) : ofE e bs < 256 ^ bs.length := by
  cases e with
  | le => exact ofLE_lt bs
  | be => simpa [ofE, ofBE] using ofLE_lt bs.reverse

/-- the two byte orders differ exactly by reversing each integer's bytes (C03) -/
theorem toE_le_eq_reverse_be (w n : Nat) : toE .le w n = (toE .be w n).reverse := by
  simp [toE, toBE]

theorem toE_mod (e : Endian) (w n : Nat) : toE e w (n % 256 ^ w) = toE e w n := by
  have h : toLE w (n % 256 ^ w) = toLE w n := by
    induction w generalizing n with
    | zero => rfl
    | succ w ih =>
      simp only [toLE]
      have h1 : UInt8.ofNat (n % 256 ^ (w + 1)) = UInt8.ofNat n := by
        apply UInt8.toNat_inj.mp
        simp only [u8_toNat_ofNat]
        rw [Nat.pow_succ, Nat.mul_comm, Nat.mod_mul_right_mod]
      have h2 : n % 256 ^ (w + 1) / 256 = (n / 256) % 256 ^ w := by
        rw [Nat.pow_succ, Nat.mul_comm, Nat.mod_mul_right_div_self]
      rw [h1, h2, ih]
  cases e <;> simp [toE, toBE, h]

end FinProto
