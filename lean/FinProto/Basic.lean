def hello := "world"
