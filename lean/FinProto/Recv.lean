/-
  C15: a decoder that is handed the receiver's PREVIOUS content, following what the Go statements do
  with it: every field statement assigns its field from a reader that never looks at the old value, list
  readers return new lists, a union re-creates its body from the factory, and the one shape that reuses
  an existing pointer (`if p.F == nil { p.F = &T{} }; p.F.Decode(buf)`) decodes INTO the old object.
-/
import FinProto.Interp
namespace FinProto

/-- the old value of field `i` of a receiver (anything, if the receiver is not a message of that shape) -/
def oldField (old : Val) (i : Nat) : Val :=
  match old with
  | .msg _ fs => fs[i]?.getD .nil
  | _ => .nil

def decOpR (env : Env) (decTyR : Nat → Val → R Val) (zero : Nat → Val) (acc : List Val) (old : Val) : Op → R Val
  | .scalar w e => mapR Val.num (readScalar w e)                          -- p.F = val
  | .fixed n pad left => mapR Val.str (readFixed n (UInt8.ofNat pad) left)
  | .vstr pw e => mapR Val.str (readVstr pw e)
  | .nums cw w e => mapR Val.nums (readNums cw w e)                       -- a new slice
  | .fixeds cw n pad left e => mapR Val.strs (readFixeds cw n (UInt8.ofNat pad) left e)
  | .vstrs cw pw e => mapR Val.strs (readVstrs cw pw e)
  | .nested ty _ =>                                                       -- reuse the old object if there is one
    match old with
    | .msg ty' fs => decTyR ty (.msg ty' fs)
    | _ => decTyR ty (zero ty)
  | .objs cw ty e => mapR Val.msgs (readList cw e (decTyR ty (zero ty)))  -- newFn() per element
  | .union key tbl _ => optR (unionTy env key tbl acc) (fun ty => decTyR ty (zero ty))   -- factory()
  | .opaque => failR

def decSeqR (step : List Val → Val → Op → R Val) (old : Val) : List Op → List Val → R (List Val)
  | [], acc => pureR acc
  | op :: ops, acc => bindR (step acc (oldField old acc.length) op) (fun v => decSeqR step old ops (acc ++ [v]))

def decTyR (env : Env) : Nat → Nat → Val → R Val
  | 0, _, _ => failR
  | f+1, ty, old => optR env.types[ty]? (fun td =>
      mapR (Val.msg ty) (decSeqR (decOpR env (decTyR env f) (zeroTy env f)) old td.dec []))

end FinProto
