/-
  Outcomes and reader combinators.  Lean functions are total, so a Go panic is an explicit outcome.
  The interpreter is written ONLY with these named combinators (never a raw `match` on results) so
  that every cross-cutting property is a compositional predicate proved once per combinator.
-/
import FinProto.Basic
namespace FinProto

inductive Outcome (α : Type) where
  | ok (a : α)
  | err
  | panic
  deriving Repr, DecidableEq

namespace Outcome
def map (f : α → β) : Outcome α → Outcome β
  | ok a => ok (f a)
  | err => err
  | panic => panic
def bind (o : Outcome α) (f : α → Outcome β) : Outcome β :=
  match o with
  | ok a => f a
  | err => err
  | panic => panic
@[simp] theorem bind_ok (a : α) (f : α → Outcome β) : (ok a).bind f = f a := rfl
@[simp] theorem bind_err (f : α → Outcome β) : (err : Outcome α).bind f = err := rfl
@[simp] theorem bind_panic (f : α → Outcome β) : (panic : Outcome α).bind f = panic := rfl
@[simp] theorem map_ok (a : α) (f : α → β) : (ok a).map f = ok (f a) := rfl
@[simp] theorem map_err (f : α → β) : (err : Outcome α).map f = err := rfl
@[simp] theorem map_panic (f : α → β) : (panic : Outcome α).map f = panic := rfl
theorem bind_eq_ok {o : Outcome α} {f : α → Outcome β} {b : β} :
    o.bind f = ok b ↔ ∃ a, o = ok a ∧ f a = ok b := by
  cases o <;> simp [bind]
theorem map_eq_ok {o : Outcome α} {f : α → β} {b : β} :
    o.map f = ok b ↔ ∃ a, o = ok a ∧ f a = b := by
  cases o <;> simp [map]
end Outcome

/-- a reader consumes from the front of the unread region -/
abbrev R (α : Type) := Bytes → Outcome (α × Bytes)

def pureR (a : α) : R α := fun b => .ok (a, b)
def failR : R α := fun _ => .err
def panicR : R α := fun _ => .panic
def bindR (r : R α) (f : α → R β) : R β := fun b => (r b).bind (fun p => f p.1 p.2)
def mapR (f : α → β) (r : R α) : R β := bindR r (fun a => pureR (f a))

/-- split off exactly `n` bytes, walking the list once (no `length`: the driver runs this on long inputs) -/
def splitN : Nat → Bytes → Option (Bytes × Bytes)
  | 0, b => some ([], b)
  | _+1, [] => none
  | n+1, x :: xs => (splitN n xs).map (fun p => (x :: p.1, p.2))

theorem splitN_eq (n : Nat) (b : Bytes) :
    splitN n b = if n ≤ b.length then some (b.take n, b.drop n) else none := by
  induction n generalizing b with
  | zero => simp [splitN]
  | succ n ih =>
    cases b with
    | nil => simp [splitN]
    | cons x xs =>
      simp only [splitN, ih, List.length_cons, Nat.add_le_add_iff_right, List.take_succ_cons, List.drop_succ_cons]
      split <;> simp

/-- `io.ReadFull` of exactly `n` bytes: all or error -/
def takeN (n : Nat) : R Bytes := fun b =>
  match splitN n b with
  | some p => .ok p
  | none => .err

theorem takeN_def (n : Nat) (b : Bytes) :
    takeN n b = if n ≤ b.length then .ok (b.take n, b.drop n) else .err := by
  simp only [takeN, splitN_eq]
  by_cases h : n ≤ b.length <;> simp [h]

/-- run `elem` `n` times, collecting the results in order -/
def decRep (elem : R α) : Nat → R (List α)
  | 0 => pureR []
  | n+1 => bindR elem (fun a => mapR (fun l => a :: l) (decRep elem n))

@[simp] theorem pureR_apply (a : α) (b : Bytes) : pureR a b = .ok (a, b) := rfl
@[simp] theorem failR_apply (b : Bytes) : (failR : R α) b = .err := rfl
@[simp] theorem panicR_apply (b : Bytes) : (panicR : R α) b = .panic := rfl

theorem bindR_eq_ok {r : R α} {f : α → R β} {b : Bytes} {v : β} {rest : Bytes} :
    bindR r f b = .ok (v, rest) ↔ ∃ a b', r b = .ok (a, b') ∧ f a b' = .ok (v, rest) := by
  simp only [bindR, Outcome.bind_eq_ok]
  constructor
  · rintro ⟨⟨a, b'⟩, h1, h2⟩; exact ⟨a, b', h1, h2⟩
  · rintro ⟨a, b', h1, h2⟩; exact ⟨(a, b'), h1, h2⟩

theorem mapR_eq_ok {r : R α} {f : α → β} {b : Bytes} {v : β} {rest : Bytes} :
    mapR f r b = .ok (v, rest) ↔ ∃ a, r b = .ok (a, rest) ∧ f a = v := by
  simp only [mapR, bindR_eq_ok, pureR_apply, Outcome.ok.injEq, Prod.mk.injEq]
  constructor
  · rintro ⟨a, b', h1, h2, h3⟩; subst h3; exact ⟨a, h1, h2⟩
  · rintro ⟨a, h1, h2⟩; exact ⟨a, rest, h1, h2, rfl⟩

theorem takeN_eq_ok {n : Nat} {b : Bytes} {v rest : Bytes} :
    takeN n b = .ok (v, rest) ↔ n ≤ b.length ∧ v = b.take n ∧ rest = b.drop n := by
  rw [takeN_def]
  split
  · simp only [Outcome.ok.injEq, Prod.mk.injEq]
    constructor
    · rintro ⟨h1, h2⟩; exact ⟨by assumption, h1.symm, h2.symm⟩
    · rintro ⟨_, h1, h2⟩; exact ⟨h1.symm, h2.symm⟩
  · constructor
    · intro h; cases h
    · rintro ⟨h, _⟩; omega

theorem takeN_append (c r : Bytes) : takeN c.length (c ++ r) = .ok (c, r) := by
  simp [takeN_def]

end FinProto
