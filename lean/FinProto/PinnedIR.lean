-- COMMITTED snapshot of what xlate (goir.go) produces from codec/binary_codec.go and codec/checksum.go at the pinned tree;
-- the theorems of Props/GoIR*.lean are about this program; regenerate only deliberately (bin/pin)
import FinProto.GoIR
namespace FinProto.PinnedIR
open FinProto.GoIR

/-- WriteBasicType -/
def fn0 : Func := { name := "WriteBasicType", nparams := 1, body :=
 (.seq (.binWrite (.order .be) (.param 0) (.var 0) (some 1))
 (.ret [(.var 1)])) }

/-- WriteBasicTypeLE -/
def fn1 : Func := { name := "WriteBasicTypeLE", nparams := 1, body :=
 (.seq (.binWrite (.order .le) (.param 0) (.var 0) (some 1))
 (.ret [(.var 1)])) }

/-- ReadBasicType -/
def fn2 : Func := { name := "ReadBasicType", nparams := 0, body :=
 (.seq (.set 0 (.int 0))
 (.seq (.binRead (.order .be) (.param 0) 0 (some 1))
 (.ret [(.var 0), (.var 1)]))) }

/-- ReadBasicTypeLE -/
def fn3 : Func := { name := "ReadBasicTypeLE", nparams := 0, body :=
 (.seq (.set 0 (.int 0))
 (.seq (.binRead (.order .le) (.param 0) 0 (some 1))
 (.ret [(.var 0), (.var 1)]))) }

/-- writeLen -/
def fn4 : Func := { name := "writeLen", nparams := 2, body :=
 (.seq (.ite (.cmp .gt (.conv (.ty (.u 8)) (.var 1)) (.conv (.ty (.u 8)) (.maxOf (.param 0))))
 (.ret [.newErr])
 .skip)
 (.seq (.binWrite (.var 0) (.param 0) (.conv (.param 0) (.var 1)) (some 2))
 (.ret [(.var 2)]))) }

/-- WriteBasicTypeList -/
def fn5 : Func := { name := "WriteBasicTypeList", nparams := 1, body :=
 (.seq (.seq (.call 4 [(.param 0)] [(.order .be), (.len (.var 0))] [(some 1)])
 (.ite (.cmp .ne (.var 1) .nilErr)
 (.ret [(.var 1)])
 .skip))
 (.seq (.range 2 (.var 0)
 (.seq (.call 0 [(.param 1)] [(.var 2)] [(some 3)])
 (.ite (.cmp .ne (.var 3) .nilErr)
 (.ret [(.var 3)])
 .skip)))
 (.ret [.nilErr]))) }

/-- WriteBasicTypeListLE -/
def fn6 : Func := { name := "WriteBasicTypeListLE", nparams := 1, body :=
 (.seq (.seq (.call 4 [(.param 0)] [(.order .le), (.len (.var 0))] [(some 1)])
 (.ite (.cmp .ne (.var 1) .nilErr)
 (.ret [(.var 1)])
 .skip))
 (.seq (.range 2 (.var 0)
 (.seq (.call 1 [(.param 1)] [(.var 2)] [(some 3)])
 (.ite (.cmp .ne (.var 3) .nilErr)
 (.ret [(.var 3)])
 .skip)))
 (.ret [.nilErr]))) }

/-- ReadBasicTypeList -/
def fn7 : Func := { name := "ReadBasicTypeList", nparams := 0, body :=
 (.seq (.set 0 (.int 0))
 (.seq (.seq (.binRead (.order .be) (.param 0) 0 (some 1))
 (.ite (.cmp .ne (.var 1) .nilErr)
 (.ret [.nil, (.var 1)])
 .skip))
 (.seq (.set 2 (.conv (.ty (.s 8)) (.var 0)))
 (.seq (.makeList 3 .ints (.min (.var 2) .bufLen))
 (.seq (.set 4 .nilErr)
 (.seq (.seq (.set 5 (.int 0))
 (.while (.cmp .lt (.var 5) (.var 2)) (.set 5 (.arith .add (.ty .big) (.var 5) (.int 1)))
 (.seq (.call 2 [(.param 1)] [] [(some 6), (some 7)])
 (.seq (.ite (.cmp .ne (.var 7) .nilErr)
 (.ret [.nil, (.var 7)])
 .skip)
 (.append 3 (.var 6))))))
 (.ret [(.var 3), (.var 4)]))))))) }

/-- ReadBasicTypeListLE -/
def fn8 : Func := { name := "ReadBasicTypeListLE", nparams := 0, body :=
 (.seq (.set 0 (.int 0))
 (.seq (.seq (.binRead (.order .le) (.param 0) 0 (some 1))
 (.ite (.cmp .ne (.var 1) .nilErr)
 (.ret [.nil, (.var 1)])
 .skip))
 (.seq (.set 2 (.conv (.ty (.s 8)) (.var 0)))
 (.seq (.makeList 3 .ints (.min (.var 2) .bufLen))
 (.seq (.set 4 .nilErr)
 (.seq (.seq (.set 5 (.int 0))
 (.while (.cmp .lt (.var 5) (.var 2)) (.set 5 (.arith .add (.ty .big) (.var 5) (.int 1)))
 (.seq (.call 3 [(.param 1)] [] [(some 6), (some 7)])
 (.seq (.ite (.cmp .ne (.var 7) .nilErr)
 (.ret [.nil, (.var 7)])
 .skip)
 (.append 3 (.var 6))))))
 (.ret [(.var 3), (.var 4)]))))))) }

/-- WriteString -/
def fn9 : Func := { name := "WriteString", nparams := 1, body :=
 (.seq (.seq (.call 4 [(.param 0)] [(.order .be), (.len (.var 0))] [(some 1)])
 (.ite (.cmp .ne (.var 1) .nilErr)
 (.ret [(.var 1)])
 .skip))
 (.seq (.seq (.bufWrite (.var 0) none (some 2))
 (.ite (.cmp .ne (.var 2) .nilErr)
 (.ret [(.var 2)])
 .skip))
 (.ret [.nilErr]))) }

/-- WriteStringLE -/
def fn10 : Func := { name := "WriteStringLE", nparams := 1, body :=
 (.seq (.seq (.call 4 [(.param 0)] [(.order .le), (.len (.var 0))] [(some 1)])
 (.ite (.cmp .ne (.var 1) .nilErr)
 (.ret [(.var 1)])
 .skip))
 (.seq (.seq (.bufWrite (.var 0) none (some 2))
 (.ite (.cmp .ne (.var 2) .nilErr)
 (.ret [(.var 2)])
 .skip))
 (.ret [.nilErr]))) }

/-- ReadString -/
def fn11 : Func := { name := "ReadString", nparams := 0, body :=
 (.seq (.set 0 (.int 0))
 (.seq (.seq (.binRead (.order .be) (.param 0) 0 (some 1))
 (.ite (.cmp .ne (.var 1) .nilErr)
 (.ret [.emptyStr, (.var 1)])
 .skip))
 (.seq (.set 2 (.conv (.ty (.s 8)) (.var 0)))
 (.seq (.ite (.cmp .gt (.var 2) .bufLen)
 (.ret [.emptyStr, .newErr])
 .skip)
 (.seq (.makeBytes 3 (.var 2))
 (.seq (.readFull 3 none (some 4))
 (.ret [(.toStr (.var 3)), (.var 4)]))))))) }

/-- ReadStringLE -/
def fn12 : Func := { name := "ReadStringLE", nparams := 0, body :=
 (.seq (.set 0 (.int 0))
 (.seq (.seq (.binRead (.order .le) (.param 0) 0 (some 1))
 (.ite (.cmp .ne (.var 1) .nilErr)
 (.ret [.emptyStr, (.var 1)])
 .skip))
 (.seq (.set 2 (.conv (.ty (.s 8)) (.var 0)))
 (.seq (.ite (.cmp .gt (.var 2) .bufLen)
 (.ret [.emptyStr, .newErr])
 .skip)
 (.seq (.makeBytes 3 (.var 2))
 (.seq (.readFull 3 none (some 4))
 (.ret [(.toStr (.var 3)), (.var 4)]))))))) }

/-- WriteFixedString -/
def fn13 : Func := { name := "WriteFixedString", nparams := 2, body :=
 (.seq (.call 14 [] [(.var 0), (.var 1), (.int 32), (.bool false)] [(some 2)])
 (.ret [(.var 2)])) }

/-- WriteFixedStringWithPadding -/
def fn14 : Func := { name := "WriteFixedStringWithPadding", nparams := 4, body :=
 (.seq (.set 4 (.toBytes (.var 0)))
 (.seq (.ite (.cmp .gt (.len (.var 4)) (.var 1))
 (.seq (.bufWrite (.sliceTo (.var 4) (.var 1)) none (some 5))
 (.ite (.cmp .ne (.var 5) .nilErr)
 (.ret [(.var 5)])
 .skip))
 (.seq (.ite (.var 3)
 (.seq (.call 15 [] [(.arith .sub (.ty .big) (.var 1) (.len (.var 4))), (.var 2)] [(some 6)])
 (.ite (.cmp .ne (.var 6) .nilErr)
 (.ret [(.var 6)])
 .skip))
 .skip)
 (.seq (.seq (.bufWrite (.var 4) none (some 7))
 (.ite (.cmp .ne (.var 7) .nilErr)
 (.ret [(.var 7)])
 .skip))
 (.ite (.not (.var 3))
 (.seq (.call 15 [] [(.arith .sub (.ty .big) (.var 1) (.len (.var 4))), (.var 2)] [(some 8)])
 (.ite (.cmp .ne (.var 8) .nilErr)
 (.ret [(.var 8)])
 .skip))
 .skip))))
 (.ret [.nilErr]))) }

/-- Padding -/
def fn15 : Func := { name := "Padding", nparams := 2, body :=
 (.seq (.set 2 (.repeat (.bytes1 (.conv (.ty (.u 1)) (.var 1))) (.var 0)))
 (.seq (.seq (.bufWrite (.var 2) none (some 3))
 (.ite (.cmp .ne (.var 3) .nilErr)
 (.ret [(.var 3)])
 .skip))
 (.ret [.nilErr]))) }

/-- ReadFixedString -/
def fn16 : Func := { name := "ReadFixedString", nparams := 1, body :=
 (.seq (.call 17 [] [(.var 0), (.int 32), (.bool false)] [(some 1), (some 2)])
 (.ret [(.var 1), (.var 2)])) }

/-- ReadFixedStringTrimPadding -/
def fn17 : Func := { name := "ReadFixedStringTrimPadding", nparams := 3, body :=
 (.seq (.makeBytes 3 (.var 0))
 (.seq (.readFull 3 none (some 4))
 (.seq (.set 5 (.conv (.ty (.u 1)) (.var 1)))
 (.seq (.ite (.var 2)
 (.seq (.while (.and (.cmp .gt (.len (.var 3)) (.int 0)) (.cmp .eq (.index (.var 3) (.int 0)) (.var 5))) .skip
 (.set 3 (.sliceFrom (.var 3) (.int 1))))
 (.ret [(.toStr (.var 3)), (.var 4)]))
 .skip)
 (.seq (.while (.and (.cmp .gt (.len (.var 3)) (.int 0)) (.cmp .eq (.index (.var 3) (.arith .sub (.ty .big) (.len (.var 3)) (.int 1))) (.var 5))) .skip
 (.set 3 (.sliceTo (.var 3) (.arith .sub (.ty .big) (.len (.var 3)) (.int 1)))))
 (.ret [(.toStr (.var 3)), (.var 4)])))))) }

/-- WriteFixedStringList -/
def fn18 : Func := { name := "WriteFixedStringList", nparams := 2, body :=
 (.seq (.call 19 [(.param 0)] [(.var 0), (.var 1), (.int 32), (.bool false)] [(some 2)])
 (.ret [(.var 2)])) }

/-- WriteFixedStringListWithPadding -/
def fn19 : Func := { name := "WriteFixedStringListWithPadding", nparams := 4, body :=
 (.seq (.seq (.call 4 [(.param 0)] [(.order .be), (.len (.var 0))] [(some 4)])
 (.ite (.cmp .ne (.var 4) .nilErr)
 (.ret [(.var 4)])
 .skip))
 (.seq (.range 5 (.var 0)
 (.seq (.call 14 [] [(.var 5), (.var 1), (.var 2), (.var 3)] [(some 6)])
 (.ite (.cmp .ne (.var 6) .nilErr)
 (.ret [.nilErr])
 .skip)))
 (.ret [.nilErr]))) }

/-- WriteFixedStringListLE -/
def fn20 : Func := { name := "WriteFixedStringListLE", nparams := 2, body :=
 (.seq (.call 21 [(.param 0)] [(.var 0), (.var 1), (.int 32), (.bool false)] [(some 2)])
 (.ret [(.var 2)])) }

/-- WriteFixedStringListWithPaddingLE -/
def fn21 : Func := { name := "WriteFixedStringListWithPaddingLE", nparams := 4, body :=
 (.seq (.seq (.call 4 [(.param 0)] [(.order .le), (.len (.var 0))] [(some 4)])
 (.ite (.cmp .ne (.var 4) .nilErr)
 (.ret [(.var 4)])
 .skip))
 (.seq (.range 5 (.var 0)
 (.seq (.call 14 [] [(.var 5), (.var 1), (.var 2), (.var 3)] [(some 6)])
 (.ite (.cmp .ne (.var 6) .nilErr)
 (.ret [.nilErr])
 .skip)))
 (.ret [.nilErr]))) }

/-- ReadFixedStringList -/
def fn22 : Func := { name := "ReadFixedStringList", nparams := 1, body :=
 (.seq (.call 23 [(.param 0)] [(.var 0), (.int 32), (.bool false)] [(some 1), (some 2)])
 (.ret [(.var 1), (.var 2)])) }

/-- ReadFixedStringListTrimPadding -/
def fn23 : Func := { name := "ReadFixedStringListTrimPadding", nparams := 3, body :=
 (.seq (.set 3 (.int 0))
 (.seq (.seq (.binRead (.order .be) (.param 0) 3 (some 4))
 (.ite (.cmp .ne (.var 4) .nilErr)
 (.ret [.nil, (.var 4)])
 .skip))
 (.seq (.set 5 (.conv (.ty (.s 8)) (.var 3)))
 (.seq (.makeList 6 .strs (.min (.var 5) .bufLen))
 (.seq (.set 7 .nilErr)
 (.seq (.seq (.set 8 (.int 0))
 (.while (.cmp .lt (.var 8) (.var 5)) (.set 8 (.arith .add (.ty .big) (.var 8) (.int 1)))
 (.seq (.call 17 [] [(.var 0), (.var 1), (.var 2)] [(some 9), (some 10)])
 (.seq (.ite (.cmp .ne (.var 10) .nilErr)
 (.ret [.nil, (.var 10)])
 .skip)
 (.append 6 (.var 9))))))
 (.ret [(.var 6), (.var 7)]))))))) }

/-- ReadFixedStringListLE -/
def fn24 : Func := { name := "ReadFixedStringListLE", nparams := 1, body :=
 (.seq (.call 25 [(.param 0)] [(.var 0), (.int 32), (.bool false)] [(some 1), (some 2)])
 (.ret [(.var 1), (.var 2)])) }

/-- ReadFixedStringListTrimPaddingLE -/
def fn25 : Func := { name := "ReadFixedStringListTrimPaddingLE", nparams := 3, body :=
 (.seq (.set 3 (.int 0))
 (.seq (.seq (.binRead (.order .le) (.param 0) 3 (some 4))
 (.ite (.cmp .ne (.var 4) .nilErr)
 (.ret [.nil, (.var 4)])
 .skip))
 (.seq (.set 5 (.conv (.ty (.s 8)) (.var 3)))
 (.seq (.makeList 6 .strs (.min (.var 5) .bufLen))
 (.seq (.set 7 .nilErr)
 (.seq (.seq (.set 8 (.int 0))
 (.while (.cmp .lt (.var 8) (.var 5)) (.set 8 (.arith .add (.ty .big) (.var 8) (.int 1)))
 (.seq (.call 17 [] [(.var 0), (.var 1), (.var 2)] [(some 9), (some 10)])
 (.seq (.ite (.cmp .ne (.var 10) .nilErr)
 (.ret [.nil, (.var 10)])
 .skip)
 (.append 6 (.var 9))))))
 (.ret [(.var 6), (.var 7)]))))))) }

/-- WriteStringList -/
def fn26 : Func := { name := "WriteStringList", nparams := 1, body :=
 (.seq (.seq (.call 4 [(.param 0)] [(.order .be), (.len (.var 0))] [(some 1)])
 (.ite (.cmp .ne (.var 1) .nilErr)
 (.ret [(.var 1)])
 .skip))
 (.seq (.range 2 (.var 0)
 (.seq (.seq (.call 4 [(.param 1)] [(.order .be), (.len (.var 2))] [(some 3)])
 (.ite (.cmp .ne (.var 3) .nilErr)
 (.ret [(.var 3)])
 .skip))
 (.bufWrite (.var 2) none none)))
 (.ret [.nilErr]))) }

/-- WriteStringListLE -/
def fn27 : Func := { name := "WriteStringListLE", nparams := 1, body :=
 (.seq (.seq (.call 4 [(.param 0)] [(.order .le), (.len (.var 0))] [(some 1)])
 (.ite (.cmp .ne (.var 1) .nilErr)
 (.ret [(.var 1)])
 .skip))
 (.seq (.range 2 (.var 0)
 (.seq (.seq (.call 4 [(.param 1)] [(.order .le), (.len (.var 2))] [(some 3)])
 (.ite (.cmp .ne (.var 3) .nilErr)
 (.ret [(.var 3)])
 .skip))
 (.bufWrite (.var 2) none none)))
 (.ret [.nilErr]))) }

/-- ReadStringList -/
def fn28 : Func := { name := "ReadStringList", nparams := 0, body :=
 (.seq (.set 0 (.int 0))
 (.seq (.seq (.binRead (.order .be) (.param 0) 0 (some 1))
 (.ite (.cmp .ne (.var 1) .nilErr)
 (.ret [.nil, (.var 1)])
 .skip))
 (.seq (.set 2 (.conv (.ty (.s 8)) (.var 0)))
 (.seq (.makeList 3 .strs (.min (.var 2) .bufLen))
 (.seq (.seq (.set 4 (.int 0))
 (.while (.cmp .lt (.var 4) (.var 2)) (.set 4 (.arith .add (.ty .big) (.var 4) (.int 1)))
 (.seq (.set 5 (.int 0))
 (.seq (.seq (.binRead (.order .be) (.param 1) 5 (some 6))
 (.ite (.cmp .ne (.var 6) .nilErr)
 (.ret [.nil, (.var 6)])
 .skip))
 (.seq (.set 7 (.conv (.ty (.s 8)) (.var 5)))
 (.seq (.ite (.cmp .gt (.var 7) .bufLen)
 (.ret [.nil, .newErr])
 .skip)
 (.seq (.makeBytes 8 (.var 7))
 (.seq (.bufRead 8 (some 9) (some 10))
 (.seq (.ite (.or (.cmp .ne (.var 10) .nilErr) (.cmp .ne (.var 9) (.var 7)))
 (.ret [.nil, .newErr])
 .skip)
 (.append 3 (.toStr (.var 8))))))))))))
 (.ret [(.var 3), .nilErr])))))) }

/-- ReadStringListLE -/
def fn29 : Func := { name := "ReadStringListLE", nparams := 0, body :=
 (.seq (.set 0 (.int 0))
 (.seq (.seq (.binRead (.order .le) (.param 0) 0 (some 1))
 (.ite (.cmp .ne (.var 1) .nilErr)
 (.ret [.nil, (.var 1)])
 .skip))
 (.seq (.set 2 (.conv (.ty (.s 8)) (.var 0)))
 (.seq (.makeList 3 .strs (.min (.var 2) .bufLen))
 (.seq (.seq (.set 4 (.int 0))
 (.while (.cmp .lt (.var 4) (.var 2)) (.set 4 (.arith .add (.ty .big) (.var 4) (.int 1)))
 (.seq (.set 5 (.int 0))
 (.seq (.seq (.binRead (.order .le) (.param 1) 5 (some 6))
 (.ite (.cmp .ne (.var 6) .nilErr)
 (.ret [.nil, (.var 6)])
 .skip))
 (.seq (.set 7 (.conv (.ty (.s 8)) (.var 5)))
 (.seq (.ite (.cmp .gt (.var 7) .bufLen)
 (.ret [.nil, .newErr])
 .skip)
 (.seq (.makeBytes 8 (.var 7))
 (.seq (.bufRead 8 (some 9) (some 10))
 (.seq (.ite (.or (.cmp .ne (.var 10) .nilErr) (.cmp .ne (.var 9) (.var 7)))
 (.ret [.nil, .newErr])
 .skip)
 (.append 3 (.toStr (.var 8))))))))))))
 (.ret [(.var 3), .nilErr])))))) }

/-- WriteObjectList -/
def fn30 : Func := { name := "WriteObjectList", nparams := 1, body :=
 (.seq (.seq (.call 4 [(.param 0)] [(.order .be), (.len (.var 0))] [(some 1)])
 (.ite (.cmp .ne (.var 1) .nilErr)
 (.ret [(.var 1)])
 .skip))
 (.seq (.range 2 (.var 0)
 (.seq (.objEncode (.var 2) (some 3))
 (.ite (.cmp .ne (.var 3) .nilErr)
 (.ret [(.var 3)])
 .skip)))
 (.ret [.nilErr]))) }

/-- WriteObjectListLE -/
def fn31 : Func := { name := "WriteObjectListLE", nparams := 1, body :=
 (.seq (.seq (.call 4 [(.param 0)] [(.order .le), (.len (.var 0))] [(some 1)])
 (.ite (.cmp .ne (.var 1) .nilErr)
 (.ret [(.var 1)])
 .skip))
 (.seq (.range 2 (.var 0)
 (.seq (.objEncode (.var 2) (some 3))
 (.ite (.cmp .ne (.var 3) .nilErr)
 (.ret [(.var 3)])
 .skip)))
 (.ret [.nilErr]))) }

/-- ReadObjectList -/
def fn32 : Func := { name := "ReadObjectList", nparams := 1, body :=
 (.seq (.set 1 (.int 0))
 (.seq (.seq (.binRead (.order .be) (.param 0) 1 (some 2))
 (.ite (.cmp .ne (.var 2) .nilErr)
 (.ret [.nil, (.var 2)])
 .skip))
 (.seq (.set 3 (.conv (.ty (.s 8)) (.var 1)))
 (.seq (.makeList 4 .objs (.min (.var 3) .bufLen))
 (.seq (.seq (.set 5 (.int 0))
 (.while (.cmp .lt (.var 5) (.var 3)) (.set 5 (.arith .add (.ty .big) (.var 5) (.int 1)))
 (.seq (.objNew 6)
 (.seq (.seq (.objDecode 6 (some 7))
 (.ite (.cmp .ne (.var 7) .nilErr)
 (.ret [(.var 4), (.var 7)])
 .skip))
 (.append 4 (.var 6))))))
 (.ret [(.var 4), .nilErr])))))) }

/-- ReadObjectListLE -/
def fn33 : Func := { name := "ReadObjectListLE", nparams := 1, body :=
 (.seq (.set 1 (.int 0))
 (.seq (.seq (.binRead (.order .le) (.param 0) 1 (some 2))
 (.ite (.cmp .ne (.var 2) .nilErr)
 (.ret [.nil, (.var 2)])
 .skip))
 (.seq (.set 3 (.conv (.ty (.s 8)) (.var 1)))
 (.seq (.makeList 4 .objs (.min (.var 3) .bufLen))
 (.seq (.seq (.set 5 (.int 0))
 (.while (.cmp .lt (.var 5) (.var 3)) (.set 5 (.arith .add (.ty .big) (.var 5) (.int 1)))
 (.seq (.objNew 6)
 (.seq (.seq (.objDecode 6 (some 7))
 (.ite (.cmp .ne (.var 7) .nilErr)
 (.ret [(.var 4), (.var 7)])
 .skip))
 (.append 4 (.var 6))))))
 (.ret [(.var 4), .nilErr])))))) }

/-- Crc16ChecksumService.Calc -/
def fn34 : Func := { name := "Crc16ChecksumService.Calc", nparams := 0, body :=
 (.seq (.set 0 (.int 65535))
 (.seq (.range 1 .bufBytes
 (.seq (.set 0 (.arith .bxor (.ty (.u 2)) (.var 0) (.conv (.ty (.u 2)) (.var 1))))
 (.seq (.set 2 (.int 0))
 (.while (.cmp .lt (.var 2) (.int 8)) (.set 2 (.arith .add (.ty .big) (.var 2) (.int 1)))
 (.ite (.cmp .ne (.arith .band (.ty (.u 2)) (.var 0) (.int 1)) (.int 0))
 (.set 0 (.arith .bxor (.ty (.u 2)) (.arith .shr (.ty (.u 2)) (.var 0) (.int 1)) (.int 40961)))
 (.set 0 (.arith .shr (.ty (.u 2)) (.var 0) (.int 1))))))))
 (.ret [(.var 0)]))) }

/-- Crc32ChecksumService.Calc -/
def fn35 : Func := { name := "Crc32ChecksumService.Calc", nparams := 0, body :=
 (.ret [(.crc32 .bufBytes)]) }

/-- SseBinChecksumService.Calc -/
def fn36 : Func := { name := "SseBinChecksumService.Calc", nparams := 0, body :=
 (.seq (.set 0 (.int 0))
 (.seq (.range 1 .bufBytes
 (.set 0 (.arith .band (.ty (.u 4)) (.arith .add (.ty (.u 4)) (.var 0) (.conv (.ty (.u 4)) (.var 1))) (.int 255))))
 (.ret [(.var 0)]))) }

/-- SzseBinChecksumService.Calc -/
def fn37 : Func := { name := "SzseBinChecksumService.Calc", nparams := 0, body :=
 (.seq (.set 0 (.int 0))
 (.seq (.range 1 .bufBytes
 (.set 0 (.arith .add (.ty (.u 4)) (.var 0) (.conv (.ty (.u 4)) (.var 1)))))
 (.ret [(.conv (.ty (.s 4)) (.arith .mod (.ty (.u 4)) (.var 0) (.int 256)))]))) }

/-- every function of the codec package that takes the buffer, in the order of CodecProg.primNames, then the Calc bodies of the CRC16 / CRC32 / SSE_BIN / SZSE_BIN services, then any other -/
def codecProg : List Func := [fn0, fn1, fn2, fn3, fn4, fn5, fn6, fn7, fn8, fn9, fn10, fn11, fn12, fn13, fn14, fn15, fn16, fn17, fn18, fn19, fn20, fn21, fn22, fn23, fn24, fn25, fn26, fn27, fn28, fn29, fn30, fn31, fn32, fn33, fn34, fn35, fn36, fn37]

end FinProto.PinnedIR
