/-
  The checksum-service registry of codec/checksum.go: the abstract map specification, and a small-step
  model of any number of goroutines calling Registry / Get / Remove / Clear concurrently through a
  reader/writer lock (the micro-steps follow the Go function bodies).  Definitions only.
-/
namespace FinProto.Reg

abbrev Name := Nat
abbrev Svc := Nat
abbrev Tid := Nat

/-- the cache: an association list, first match wins, at most one entry per name after `insert` -/
abbrev Map := List (Name × Svc)

def get (m : Map) (n : Name) : Option Svc :=
  match m with
  | [] => none
  | (k, v) :: rest => if k = n then some v else get rest n

def erase (m : Map) (n : Name) : Map := m.filter (fun p => p.1 != n)
def insert (m : Map) (n : Name) (s : Svc) : Map := (n, s) :: erase m n

inductive Call
  | reg (n : Name) (s : Svc)     -- Registry(service) with service.Algorithm() = n
  | get (n : Name)
  | remove (n : Name)
  | clear
  deriving DecidableEq, Repr

inductive Res
  | bool (b : Bool)
  | svc (o : Option Svc)
  | unit
  deriving DecidableEq, Repr

/-- the sequential specification: one atomic map -/
def spec (m : Map) : Call → Map × Res
  | .reg n s =>
    match get m n with
    | some _ => (m, .bool false)
    | none => (insert m n s, .bool true)
  | .get n => (m, .svc (get m n))
  | .remove n => (erase m n, .unit)
  | .clear => ([], .unit)

/-- run a list of calls atomically, in order -/
def runSpec (m : Map) : List Call → Map × List Res
  | [] => (m, [])
  | c :: cs =>
    let (m', r) := spec m c
    let (m'', rs) := runSpec m' cs
    (m'', r :: rs)

/-! ### concurrent small-step model -/

inductive Lock
  | free
  | excl (t : Tid)
  | shared (ts : List Tid)      -- readers currently inside (non-empty)
  deriving DecidableEq, Repr

/-- where a goroutine is inside (or between) calls -/
inductive PC
  | idle
  | want (c : Call)                         -- invoked; about to Lock()/RLock()
  | regCheck (n : Name) (s : Svc)           -- holds the write lock; about to test `cache[n]`
  | regStore (n : Name) (s : Svc)           -- holds the write lock; test said absent; about to store
  | wrBody (c : Call)                       -- holds the write lock; Remove/Clear about to mutate
  | rdBody (n : Name)                       -- holds the read lock; Get about to read
  | unlockX (c : Call) (r : Res)            -- result computed; deferred Unlock() pending
  | unlockS (c : Call) (r : Res)            -- result computed; deferred RUnlock() pending
  | ret (c : Call) (r : Res)                -- lock released; about to return r
  deriving DecidableEq, Repr

inductive Event
  | inv (t : Tid) (c : Call)
  | ret (t : Tid) (c : Call) (r : Res)
  deriving DecidableEq, Repr

structure State where
  lock : Lock
  mem : Map                                  -- the Go map
  pc : Tid → PC
  hist : List Event                          -- invocations / returns in real-time order
  lin : List (Tid × Call × Res)              -- calls in the order they released the lock

def setPc (pc : Tid → PC) (t : Tid) (p : PC) : Tid → PC := fun u => if u = t then p else pc u

def init (m0 : Map) : State := { lock := .free, mem := m0, pc := fun _ => .idle, hist := [], lin := [] }

def isWriter : Call → Bool
  | .get _ => false
  | _ => true

inductive Step : State → State → Prop
  | invoke (s : State) (t : Tid) (c : Call) (h : s.pc t = .idle) :
      Step s { s with pc := setPc s.pc t (.want c), hist := s.hist ++ [.inv t c] }
  | lockReg (s : State) (t : Tid) (n : Name) (v : Svc) (h : s.pc t = .want (.reg n v)) (hl : s.lock = .free) :
      Step s { s with lock := .excl t, pc := setPc s.pc t (.regCheck n v) }
  | lockWr (s : State) (t : Tid) (c : Call) (h : s.pc t = .want c) (hc : c = .clear ∨ ∃ n, c = .remove n)
      (hl : s.lock = .free) :
      Step s { s with lock := .excl t, pc := setPc s.pc t (.wrBody c) }
  | rlockFree (s : State) (t : Tid) (n : Name) (h : s.pc t = .want (.get n)) (hl : s.lock = .free) :
      Step s { s with lock := .shared [t], pc := setPc s.pc t (.rdBody n) }
  | rlockShared (s : State) (t : Tid) (n : Name) (ts : List Tid) (h : s.pc t = .want (.get n))
      (hl : s.lock = .shared ts) :
      Step s { s with lock := .shared (t :: ts), pc := setPc s.pc t (.rdBody n) }
  | regExists (s : State) (t : Tid) (n : Name) (v w : Svc) (h : s.pc t = .regCheck n v) (hg : get s.mem n = some w) :
      Step s { s with pc := setPc s.pc t (.unlockX (.reg n v) (.bool false)) }
  | regAbsent (s : State) (t : Tid) (n : Name) (v : Svc) (h : s.pc t = .regCheck n v) (hg : get s.mem n = none) :
      Step s { s with pc := setPc s.pc t (.regStore n v) }
  | regStore (s : State) (t : Tid) (n : Name) (v : Svc) (h : s.pc t = .regStore n v) :
      Step s { s with mem := insert s.mem n v, pc := setPc s.pc t (.unlockX (.reg n v) (.bool true)) }
  | doRemove (s : State) (t : Tid) (n : Name) (h : s.pc t = .wrBody (.remove n)) :
      Step s { s with mem := erase s.mem n, pc := setPc s.pc t (.unlockX (.remove n) .unit) }
  | doClear (s : State) (t : Tid) (h : s.pc t = .wrBody .clear) :
      Step s { s with mem := [], pc := setPc s.pc t (.unlockX .clear .unit) }
  | doGet (s : State) (t : Tid) (n : Name) (h : s.pc t = .rdBody n) :
      Step s { s with pc := setPc s.pc t (.unlockS (.get n) (.svc (get s.mem n))) }
  | unlock (s : State) (t : Tid) (c : Call) (r : Res) (h : s.pc t = .unlockX c r) :
      Step s { s with lock := .free, pc := setPc s.pc t (.ret c r), lin := s.lin ++ [(t, c, r)] }
  | runlock (s : State) (t : Tid) (c : Call) (r : Res) (ts : List Tid) (h : s.pc t = .unlockS c r)
      (hl : s.lock = .shared ts) :
      Step s { s with lock := (if ts.erase t = [] then .free else .shared (ts.erase t)),
                      pc := setPc s.pc t (.ret c r), lin := s.lin ++ [(t, c, r)] }
  | return (s : State) (t : Tid) (c : Call) (r : Res) (h : s.pc t = .ret c r) :
      Step s { s with pc := setPc s.pc t .idle, hist := s.hist ++ [.ret t c r] }

inductive Reachable (m0 : Map) : State → Prop
  | init : Reachable m0 (init m0)
  | step {s s' : State} : Reachable m0 s → Step s s' → Reachable m0 s'

end FinProto.Reg
