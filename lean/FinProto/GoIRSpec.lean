/-
  What it means for the GoIR translation of a codec function to compute a primitive of the model (`Prim.lean`,
  `Checksum.lean`): the shapes of the statements proved in `Props/GoIR*.lean`, and executable versions of the same
  relations (used by the non-vacuity examples and by the driver).
-/
import FinProto.GoIR
import FinProto.PinnedIR
import FinProto.Prim
import FinProto.Interp
namespace FinProto.GoIR
open FinProto

/-- positions of the functions in `codecProg` (the order of `CodecProg.primNames`, then the four `Calc` bodies) -/
def ixWScalar : Endian → Nat | .be => 0 | .le => 1
def ixRScalar : Endian → Nat | .be => 2 | .le => 3
def ixWriteLen : Nat := 4
def ixWNums : Endian → Nat | .be => 5 | .le => 6
def ixRNums : Endian → Nat | .be => 7 | .le => 8
def ixWVstr : Endian → Nat | .be => 9 | .le => 10
def ixRVstr : Endian → Nat | .be => 11 | .le => 12
def ixWFixedDef : Nat := 13
def ixWFixed : Nat := 14
def ixPadding : Nat := 15
def ixRFixedDef : Nat := 16
def ixRFixed : Nat := 17
def ixWFixedsDef : Endian → Nat | .be => 18 | .le => 20
def ixWFixeds : Endian → Nat | .be => 19 | .le => 21
def ixRFixedsDef : Endian → Nat | .be => 22 | .le => 24
def ixRFixeds : Endian → Nat | .be => 23 | .le => 25
def ixWVstrs : Endian → Nat | .be => 26 | .le => 27
def ixRVstrs : Endian → Nat | .be => 28 | .le => 29
def ixWObjs : Endian → Nat | .be => 30 | .le => 31
def ixRObjs : Endian → Nat | .be => 32 | .le => 33
def ixCrc16 : Nat := 34
def ixCrc32 : Nat := 35
def ixSse : Nat := 36
def ixSzse : Nat := 37

/-- the program the theorems are about: the committed translation of the codec package -/
abbrev prog : List Func := PinnedIR.codecProg

/-- a writer computes the model's outcome: on success exactly the model's bytes are appended and nil is returned;
    on failure a non-nil error is returned; a panic is a panic -/
def WSpec (r : CallRes O) (buf : Bytes) : Outcome Bytes → Prop
  | .ok bs => r = .ret [.err false] (buf ++ bs)
  | .err => ∃ b', r = .ret [.err true] b'
  | .panic => r = .panic

/-- a writer whose model threads the buffer -/
def WSpecE (r : CallRes O) : Outcome (α × Bytes) → Prop
  | .ok p => r = .ret [.err false] p.2
  | .err => ∃ b', r = .ret [.err true] b'
  | .panic => r = .panic

/-- a reader computes the model's outcome: on success the model's value and nil are returned and exactly the model's
    bytes are consumed; on failure a non-nil error is returned -/
def RSpec (r : CallRes O) (inj : α → V O) : Outcome (α × Bytes) → Prop
  | .ok p => r = .ret [inj p.1, .err false] p.2
  | .err => ∃ v b', r = .ret [v, .err true] b'
  | .panic => r = .panic

def natsV (l : List Nat) : V O := .ints (l.map Int.ofNat)
def natV (n : Nat) : V O := .int (Int.ofNat n)
def padV (pad : UInt8) : V O := .int (Int.ofNat pad.toNat)

/-- the loop fuel every theorem asks for (the driver runs with this value) and the call depth -/
def loopFuel : Nat := 2 ^ 64
def callDepth : Nat := 4

/-! ### executable versions (same relations, as Booleans) -/

def beqV [BEq O] : V O → V O → Bool
  | .int a, .int b => a == b
  | .bool a, .bool b => a == b
  | .bytes a, .bytes b => a == b
  | .ints a, .ints b => a == b
  | .strs a, .strs b => a == b
  | .objs a, .objs b => a == b
  | .obj a, .obj b => a == b
  | .err a, .err b => a == b
  | .order a, .order b => a == b
  | .unit, .unit => true
  | _, _ => false

def wspecB [BEq O] (r : CallRes O) (buf : Bytes) : Outcome Bytes → Bool
  | .ok bs => (match r with | .ret [.err false] b => b == buf ++ bs | _ => false)
  | .err => (match r with | .ret [.err true] _ => true | _ => false)
  | .panic => (match r with | .panic => true | _ => false)

def rspecB [BEq O] (r : CallRes O) (inj : α → V O) : Outcome (α × Bytes) → Bool
  | .ok p => (match r with | .ret [v, .err false] b => beqV v (inj p.1) && b == p.2 | _ => false)
  | .err => (match r with | .ret [_, .err true] _ => true | _ => false)
  | .panic => (match r with | .panic => true | _ => false)

/-- no objects -/
def noExt : Ext Unit := { enc := fun _ b => .ok b, new := (), dec := fun _ b => .ok ((), b) }

/-! ### from the ops of the schema language to the codec functions they name (used by the driver's `irw` / `irr`
    commands and by the tie theorems of Props/GoIRTie.lean) -/

/-- the call an encoder statement of kind `op` makes: function, type arguments, value arguments
    (`dflt`: the variant without explicit padding arguments, which the generated code uses for pad ' ' on the right) -/
def opWriter (dflt : Bool) : Op → Val → Option (Nat × List Ty × List (V Val))
  | .scalar w e, .num n => some (ixWScalar e, [.u w], [natV n])
  | .fixed n pad left, .str s =>
    if dflt then some (ixWFixedDef, [], [.bytes s, natV n]) else some (ixWFixed, [], [.bytes s, natV n, natV pad, .bool left])
  | .vstr pw e, .str s => some (ixWVstr e, [.u pw], [.bytes s])
  | .nums cw w e, .nums l => some (ixWNums e, [.u cw, .u w], [natsV l])
  | .fixeds cw n pad left e, .strs l =>
    if dflt then some (ixWFixedsDef e, [.u cw], [.strs l, natV n])
    else some (ixWFixeds e, [.u cw], [.strs l, natV n, natV pad, .bool left])
  | .vstrs cw pw e, .strs l => some (ixWVstrs e, [.u cw, .u pw], [.strs l])
  | .objs cw _ e, .msgs l => some (ixWObjs e, [.u cw, .u 0], [.objs l])
  | _, _ => none

/-- the call a decoder statement of kind `op` makes, and how its result is read back as a wire value -/
def opReader (dflt : Bool) : Op → Option (Nat × List Ty × List (V Val))
  | .scalar w e => some (ixRScalar e, [.u w], [])
  | .fixed n pad left =>
    if dflt then some (ixRFixedDef, [], [natV n]) else some (ixRFixed, [], [natV n, natV pad, .bool left])
  | .vstr pw e => some (ixRVstr e, [.u pw], [])
  | .nums cw w e => some (ixRNums e, [.u cw, .u w], [])
  | .fixeds cw n pad left e =>
    if dflt then some (ixRFixedsDef e, [.u cw], [natV n]) else some (ixRFixeds e, [.u cw], [natV n, natV pad, .bool left])
  | .vstrs cw pw e => some (ixRVstrs e, [.u cw, .u pw], [])
  | .objs cw _ e => some (ixRObjs e, [.u cw, .u 0], [])
  | _ => none

def valOfV : V Val → Option Val
  | .int n => if 0 ≤ n then some (.num n.toNat) else none
  | .bytes b => some (.str b)
  | .ints l => if l.all (0 ≤ ·) then some (.nums (l.map Int.toNat)) else none
  | .strs l => some (.strs l)
  | .objs l => some (.msgs l)
  | .unit => some (.nums [])         -- a nil slice
  | _ => none

/-! ### which functions can be run: a body with a statement outside the language (or calling one) is not executed -/

def Stmt.hasOpaque : Stmt → Bool
  | .opaque => true
  | .seq a b => a.hasOpaque || b.hasOpaque
  | .ite _ t e => t.hasOpaque || e.hasOpaque
  | .while _ p b => p.hasOpaque || b.hasOpaque
  | .range _ _ b => b.hasOpaque
  | _ => false

def Stmt.calls : Stmt → List Nat
  | .call f _ _ _ => [f]
  | .seq a b => a.calls ++ b.calls
  | .ite _ t e => t.calls ++ e.calls
  | .while _ p b => p.calls ++ b.calls
  | .range _ _ b => b.calls
  | _ => []

/-- function `f` and everything it calls (to depth `d`) is inside the language -/
def runnable (p : List Func) : Nat → Nat → Bool
  | 0, _ => false
  | d+1, f =>
    match p[f]? with
    | none => false
    | some fn => !fn.body.hasOpaque && fn.body.calls.all (runnable p d)

/-! ### the two tables from ops to codec functions must agree: xlate reads a call `codec.F[…](buf, …)` in a generated
    body as an op; `opWriter` / `opReader` say which function an op names -/

def dfltVal : Op → Val
  | .scalar _ _ => .num 0
  | .fixed _ _ _ => .str []
  | .vstr _ _ => .str []
  | .nums _ _ _ => .nums []
  | .fixeds _ _ _ _ _ => .strs []
  | .vstrs _ _ _ => .strs []
  | .objs _ _ _ => .msgs []
  | _ => .nil

def fnName (p : List Func) (i : Nat) : Option String := p[i]?.map (·.name)

def callOK (p : List Func) (c : Bool × String × Op) : Bool :=
  let viaW (d : Bool) := (opWriter d c.2.2 (dfltVal c.2.2)).bind (fun x => fnName p x.1)
  let viaR (d : Bool) := (opReader d c.2.2).bind (fun x => fnName p x.1)
  let isDef := match c.2.2 with
    | .fixed _ 32 false => true
    | .fixeds _ _ 32 false _ => true
    | _ => false
  if c.1 then viaW false == some c.2.1 || (isDef && viaW true == some c.2.1)
  else viaR false == some c.2.1 || (isDef && viaR true == some c.2.1)

/-- every call of a codec function in the generated code, as xlate read it, is the call the model's table makes for that op -/
def callsOK (p : List Func) (cs : List (Bool × String × Op)) : Bool := cs.all (callOK p)

/-- an op that names a codec primitive (not a nested message / union, which are method calls on the field) -/
def isPrimOp : Op → Bool
  | .scalar _ _ | .fixed _ _ _ | .vstr _ _ | .nums _ _ _ | .fixeds _ _ _ _ _ | .vstrs _ _ _ | .objs _ _ _ => true
  | _ => false

/-- … and conversely every primitive op of every message type (encoder, decoder, frame header) comes from a logged call in
    that direction: no op reaches the model without having passed the name check -/
def callsCover (types : List TyDef) (cs : List (Bool × String × Op)) : Bool :=
  types.all (fun td =>
    (td.enc.all (fun op => !isPrimOp op || cs.any (fun c => c.1 && c.2.2 == op))) &&
    (td.dec.all (fun op => !isPrimOp op || cs.any (fun c => !c.1 && c.2.2 == op))) &&
    (match td.frame with
     | some fd => fd.hdr.all (fun op => !isPrimOp op || cs.any (fun c => c.1 && c.2.2 == op))
     | none => true))

/-- how many bodies of the regenerated program are, statement for statement, the committed translation the theorems are about -/
def sameBodies (g p : List Func) : List Bool :=
  (List.range p.length).map (fun i => decide (g[i]? = p[i]?))

end FinProto.GoIR
