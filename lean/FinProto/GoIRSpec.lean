/-
  What it means for the GoIR translation of a codec function to compute a primitive of the model (`Prim.lean`,
  `Checksum.lean`): the shapes of the statements proved in `Props/GoIR*.lean`, and executable versions of the same
  relations (used by the non-vacuity examples and by the driver).
-/
import FinProto.GoIR
import FinProto.PinnedIR
import FinProto.Prim
import FinProto.Interp
namespace FinProto.GoIR
open FinProto

/-- positions of the functions in `codecProg` (the order of `CodecProg.primNames`, then the four `Calc` bodies) -/
def ixWScalar : Endian → Nat | .be => 0 | .le => 1
def ixRScalar : Endian → Nat | .be => 2 | .le => 3
def ixWriteLen : Nat := 4
def ixWNums : Endian → Nat | .be => 5 | .le => 6
def ixRNums : Endian → Nat | .be => 7 | .le => 8
def ixWVstr : Endian → Nat | .be => 9 | .le => 10
def ixRVstr : Endian → Nat | .be => 11 | .le => 12
def ixWFixedDef : Nat := 13
def ixWFixed : Nat := 14
def ixPadding : Nat := 15
def ixRFixedDef : Nat := 16
def ixRFixed : Nat := 17
def ixWFixedsDef : Endian → Nat | .be => 18 | .le => 20
def ixWFixeds : Endian → Nat | .be => 19 | .le => 21
def ixRFixedsDef : Endian → Nat | .be => 22 | .le => 24
def ixRFixeds : Endian → Nat | .be => 23 | .le => 25
def ixWVstrs : Endian → Nat | .be => 26 | .le => 27
def ixRVstrs : Endian → Nat | .be => 28 | .le => 29
def ixWObjs : Endian → Nat | .be => 30 | .le => 31
def ixRObjs : Endian → Nat | .be => 32 | .le => 33
def ixCrc16 : Nat := 34
def ixCrc32 : Nat := 35
def ixSse : Nat := 36
def ixSzse : Nat := 37

/-- the program the theorems are about: the committed translation of the codec package -/
abbrev prog : List Func := PinnedIR.codecProg

/-- a writer computes the model's outcome: on success exactly the model's bytes are appended and nil is returned;
    on failure a non-nil error is returned; a panic is a panic -/
def WSpec (r : CallRes O) (buf : Bytes) : Outcome Bytes → Prop
  | .ok bs => r = .ret [.err false] (buf ++ bs)
  | .err => ∃ b', r = .ret [.err true] b'
  | .panic => r = .panic

/-- a writer whose model threads the buffer -/
def WSpecE (r : CallRes O) : Outcome (α × Bytes) → Prop
  | .ok p => r = .ret [.err false] p.2
  | .err => ∃ b', r = .ret [.err true] b'
  | .panic => r = .panic

/-- a reader computes the model's outcome: on success the model's value and nil are returned and exactly the model's
    bytes are consumed; on failure a non-nil error is returned -/
def RSpec (r : CallRes O) (inj : α → V O) : Outcome (α × Bytes) → Prop
  | .ok p => r = .ret [inj p.1, .err false] p.2
  | .err => ∃ v b', r = .ret [v, .err true] b'
  | .panic => r = .panic

def natsV (l : List Nat) : V O := .ints (l.map Int.ofNat)
def natV (n : Nat) : V O := .int (Int.ofNat n)
def padV (pad : UInt8) : V O := .int (Int.ofNat pad.toNat)

/-- the loop fuel every theorem asks for (the driver runs with this value) and the call depth -/
def loopFuel : Nat := 2 ^ 64
def callDepth : Nat := 4

/-! ### executable versions (same relations, as Booleans) -/

def beqV [BEq O] : V O → V O → Bool
  | .int a, .int b => a == b
  | .bool a, .bool b => a == b
  | .bytes a, .bytes b => a == b
  | .ints a, .ints b => a == b
  | .strs a, .strs b => a == b
  | .objs a, .objs b => a == b
  | .obj a, .obj b => a == b
  | .err a, .err b => a == b
  | .order a, .order b => a == b
  | .unit, .unit => true
  | _, _ => false

def wspecB [BEq O] (r : CallRes O) (buf : Bytes) : Outcome Bytes → Bool
  | .ok bs => (match r with | .ret [.err false] b => b == buf ++ bs | _ => false)
  | .err => (match r with | .ret [.err true] _ => true | _ => false)
  | .panic => (match r with | .panic => true | _ => false)

def rspecB [BEq O] (r : CallRes O) (inj : α → V O) : Outcome (α × Bytes) → Bool
  | .ok p => (match r with | .ret [v, .err false] b => beqV v (inj p.1) && b == p.2 | _ => false)
  | .err => (match r with | .ret [_, .err true] _ => true | _ => false)
  | .panic => (match r with | .panic => true | _ => false)

/-- no objects -/
def noExt : Ext Unit := { enc := fun _ b => .ok b, new := (), dec := fun _ b => .ok ((), b) }

end FinProto.GoIR
