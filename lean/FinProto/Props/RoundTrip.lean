/-
  C01 / C07 / C11: Encode then Decode returns the message the encoder reports, consumes exactly the
  bytes of that message, and rejects every proper prefix.  Proofs only; generic over `env : Env`.
  `FinProto.Pinned` is used ONLY in the non-vacuity examples at the end.
-/
import FinProto.Props.PrimLemmas
import FinProto.Props.DecLemmas
import FinProto.Props.EncLemmas
namespace FinProto

/-! ## 0. small helpers -/

namespace RT

/-- decoding ignores the nil-handling annotation -/
theorem decOp_eraseG (env : Env) (d : Nat → R Val) (acc : List Val) (op : Op) :
    decOp env d acc op.eraseG = decOp env d acc op := by
  cases op <;> rfl

theorem decSeq_congr_erase (env : Env) (d : Nat → R Val) :
    ∀ (ops ops' : List Op) (acc : List Val), ops.map Op.eraseG = ops'.map Op.eraseG →
      decSeq (decOp env d) ops acc = decSeq (decOp env d) ops' acc
  | [], [], _, _ => rfl
  | [], _ :: _, _, h => by simp at h
  | _ :: _, [], _, h => by simp at h
  | op :: ops, op' :: ops', acc, h => by
    simp only [List.map_cons, List.cons.injEq] at h
    have h1 : decOp env d acc op = decOp env d acc op' := by
      rw [← decOp_eraseG env d acc op, h.1, decOp_eraseG]
    simp only [decSeq, h1]
    congr 1
    funext v
    exact decSeq_congr_erase env d ops ops' _ h.2

theorem decSeq_append (step : List Val → Op → R Val) :
    ∀ (ops1 ops2 : List Op) (acc : List Val),
      decSeq step (ops1 ++ ops2) acc = bindR (decSeq step ops1 acc) (fun acc' => decSeq step ops2 acc')
  | [], ops2, acc => by
    funext b
    simp [decSeq, bindR]
  | op :: ops1, ops2, acc => by
    funext b
    simp only [List.cons_append, decSeq, bindR]
    cases step acc op b with
    | ok p => simp only [Outcome.bind_ok]; rw [decSeq_append step ops1 ops2]; rfl
    | err => rfl
    | panic => rfl

/-- every union statement refers to a key field at an earlier position (`i` = position of the head) -/
def unionKeysLt : Nat → List Op → Bool
  | _, [] => true
  | i, op :: rest =>
    (match op with
     | .union key _ _ => decide (key < i)
     | _ => true) && unionKeysLt (i + 1) rest

theorem unionKeysLt_of_keysEarlierAux (all : List Op) :
    ∀ (ops : List Op) (i : Nat), keysEarlierAux all i ops = true → unionKeysLt i ops = true
  | [], _, _ => rfl
  | op :: ops, i, h => by
    simp only [keysEarlierAux, Bool.and_eq_true] at h
    simp only [unionKeysLt, Bool.and_eq_true]
    refine ⟨?_, unionKeysLt_of_keysEarlierAux all ops (i + 1) h.2⟩
    cases op <;> try rfl
    simp only [Bool.and_eq_true] at h
    exact h.1.1

theorem unionKeysLt_erase :
    ∀ (ops ops' : List Op) (i : Nat), ops.map Op.eraseG = ops'.map Op.eraseG →
      unionKeysLt i ops = unionKeysLt i ops'
  | [], [], _, _ => rfl
  | [], _ :: _, _, h => by simp at h
  | _ :: _, [], _, h => by simp at h
  | op :: ops, op' :: ops', i, h => by
    simp only [List.map_cons, List.cons.injEq] at h
    simp only [unionKeysLt]
    rw [unionKeysLt_erase ops ops' (i + 1) h.2]
    congr 1
    cases op <;> cases op' <;> simp only [Op.eraseG, reduceCtorEq, Op.union.injEq, Op.nested.injEq] at h <;>
      first | rfl | (exfalso; exact h.1) | skip
    obtain ⟨⟨rfl, _, _⟩, _⟩ := h
    rfl

theorem unionKeysLt_of_isScalar : ∀ (ops : List Op) (i : Nat), ops.all Op.isScalar = true → unionKeysLt i ops = true
  | [], _, _ => rfl
  | op :: ops, i, h => by
    simp only [List.all_cons, Bool.and_eq_true] at h
    simp only [unionKeysLt, Bool.and_eq_true]
    refine ⟨?_, unionKeysLt_of_isScalar ops (i + 1) h.2⟩
    cases op <;> first | rfl | (simp [Op.isScalar] at h)

theorem unionKeysLt_append : ∀ (ops1 ops2 : List Op) (i : Nat),
    unionKeysLt i (ops1 ++ ops2) = (unionKeysLt i ops1 && unionKeysLt (i + ops1.length) ops2)
  | [], ops2, i => by simp [unionKeysLt]
  | op :: ops1, ops2, i => by
    simp only [List.cons_append, unionKeysLt, unionKeysLt_append ops1 ops2 (i + 1), List.length_cons,
      Bool.and_assoc]
    congr 3
    omega

/-- the decoded prefix carries the same discriminator keys as the encoder's input fields -/
def KeyAgree (acc all : List Val) : Prop :=
  ∀ k, k < acc.length → acc[k]?.bind keyOf = all[k]?.bind keyOf

theorem KeyAgree.nil (all : List Val) : KeyAgree [] all := fun _ h => by simp at h

theorem KeyAgree.unionTy {acc all : List Val} (h : KeyAgree acc all) (env : Env) {key : Nat} (tbl : Nat)
    (hk : key < acc.length) : unionTy env key tbl acc = unionTy env key tbl all := by
  simp only [FinProto.unionTy, h key hk]

theorem KeyAgree.snoc {acc all : List Val} (h : KeyAgree acc all) {v v' : Val}
    (hv : all[acc.length]? = some v) (hkey : keyOf v' = keyOf v) : KeyAgree (acc ++ [v']) all := by
  intro k hk
  simp only [List.length_append, List.length_cons, List.length_nil] at hk
  by_cases hlt : k < acc.length
  · rw [List.getElem?_append_left hlt]; exact h k hlt
  · have : k = acc.length := by omega
    subst this
    simp [hv, hkey]

theorem KeyAgree.append_right {acc all : List Val} (h : KeyAgree acc all) (extra : List Val) {k : Nat}
    (hk : k < acc.length) : (acc ++ extra)[k]?.bind keyOf = all[k]?.bind keyOf := by
  rw [List.getElem?_append_left hk]; exact h k hk

theorem fixedCanon_iff {n : Nat} {pad : UInt8} {left : Bool} {s : Bytes} :
    fixedCanon n pad left s = true ↔ fixedCanon' n pad left s := by
  cases left <;> simp [fixedCanon, fixedCanon']

theorem w124 {w : Nat} (h : (w == 1 || w == 2 || w == 4) = true) : w ≤ 7 := by
  simp only [Bool.or_eq_true, beq_iff_eq] at h
  omega

theorem cksNat_lt (a : Alg) (bs : Bytes) : cksNat a bs < 256 ^ 4 := by
  cases a <;> simp only [cksNat]
  · have := (crc16Go bs).toNat_lt; omega
  · have := (crc32Go bs).toNat_lt; omega
  · have := (sseGo bs).toNat_lt; omega
  · have := (szseGo bs).toNat_lt; omega
  · omega

/-! ## 1. one statement, one list of objects, one sequence of statements -/

/-- the round-trip statement at one fuel level (induction hypothesis of `roundtrip`) -/
def TyRT (env : Env) (f : Nat) : Prop :=
  ∀ ty v pre v' out, canonTy env f ty v = true → encTy env f ty v pre = .ok (v', out) →
    ∃ bs, out = pre ++ bs ∧ ∀ rest, decTy env f ty (bs ++ rest) = .ok (v', rest)

theorem rtAll {env : Env} {f : Nat} (ih : TyRT env f) (ty : Nat) :
    ∀ (l l' : List Val) (pre out : Bytes), (∀ v ∈ l, canonTy env f ty v = true) →
      encAll (encTy env f ty) l pre = .ok (l', out) →
      ∃ bs, out = pre ++ bs ∧ ∀ rest, decRep (decTy env f ty) l.length (bs ++ rest) = .ok (l', rest)
  | [], l', pre, out, _, h => by
    simp only [encAll, Outcome.ok.injEq, Prod.mk.injEq] at h
    obtain ⟨rfl, rfl⟩ := h
    exact ⟨[], (List.append_nil _).symm, fun rest => rfl⟩
  | v :: vs, l', pre, out, hc, h => by
    simp only [encAll, bindE_eq_ok, mapE_eq_ok] at h
    obtain ⟨v1, mid, h1, vs1, h2, rfl⟩ := h
    obtain ⟨b1, rfl, hd1⟩ := ih ty v pre v1 mid (hc v (List.mem_cons_self ..)) h1
    obtain ⟨b2, rfl, hd2⟩ := rtAll ih ty vs vs1 _ out (fun x hx => hc x (List.mem_cons_of_mem _ hx)) h2
    refine ⟨b1 ++ b2, List.append_assoc _ _ _, fun rest => ?_⟩
    simp only [List.length_cons, decRep]
    refine bindR_eq_ok.mpr ⟨v1, b2 ++ rest, ?_, mapR_eq_ok.mpr ⟨vs1, hd2 rest, rfl⟩⟩
    rw [List.append_assoc]; exact hd1 _

theorem rtOp {env : Env} {f : Nat} (ih : TyRT env f) {zero : Nat → Val} {all acc : List Val} {op : Op}
    {v v' : Val} {pre out : Bytes}
    (hw : op.widthsOK = true)
    (hU : ∀ key tbl g, op = .union key tbl g → unionTy env key tbl acc = unionTy env key tbl all)
    (hc : canonOp env (canonTy env f) all op v = true)
    (he : encOp env (encTy env f) zero all op v pre = .ok (v', out)) :
    ∃ bs, out = pre ++ bs ∧ keyOf v' = keyOf v ∧
      ∀ rest, decOp env (decTy env f) acc op (bs ++ rest) = .ok (v', rest) := by
  cases op with
  | scalar w e =>
    cases v <;> simp only [canonOp, Bool.false_eq_true, decide_eq_true_eq] at hc
    rename_i n
    simp only [encOp] at he
    obtain ⟨bs, hbs, rfl, rfl⟩ := emit_eq_ok.mp he
    cases hbs
    exact ⟨_, rfl, rfl, fun rest => mapR_eq_ok.mpr ⟨n, readScalar_writeScalar hc, rfl⟩⟩
  | fixed n pad left =>
    cases v <;> simp only [canonOp, Bool.false_eq_true] at hc
    rename_i s
    simp only [encOp] at he
    obtain ⟨bs, hbs, rfl, rfl⟩ := emit_eq_ok.mp he
    cases hbs
    exact ⟨_, rfl, rfl, fun rest =>
      mapR_eq_ok.mpr ⟨s, readFixed_writeFixed rest (fixedCanon_iff.mp hc), rfl⟩⟩
  | vstr pw e =>
    cases v <;> simp only [canonOp, Bool.false_eq_true] at hc
    rename_i s
    simp only [encOp] at he
    obtain ⟨bs, hbs, rfl, rfl⟩ := emit_eq_ok.mp he
    simp only [Op.widthsOK] at hw
    exact ⟨_, rfl, rfl, fun rest => mapR_eq_ok.mpr ⟨s, readVstr_writeVstr (w124 hw) hbs, rfl⟩⟩
  | nums cw w e =>
    cases v <;> simp only [canonOp, Bool.false_eq_true, Bool.and_eq_true, decide_eq_true_eq,
      List.all_eq_true] at hc
    rename_i l
    simp only [encOp] at he
    obtain ⟨bs, hbs, rfl, rfl⟩ := emit_eq_ok.mp he
    simp only [Op.widthsOK, Bool.and_eq_true] at hw
    exact ⟨_, rfl, rfl, fun rest =>
      mapR_eq_ok.mpr ⟨l, readNums_writeNums (w124 hw.1) hc.2 hbs, rfl⟩⟩
  | fixeds cw n pad left e =>
    cases v <;> simp only [canonOp, Bool.false_eq_true, Bool.and_eq_true, decide_eq_true_eq,
      List.all_eq_true] at hc
    rename_i l
    simp only [encOp] at he
    obtain ⟨bs, hbs, rfl, rfl⟩ := emit_eq_ok.mp he
    simp only [Op.widthsOK, Bool.and_eq_true] at hw
    exact ⟨_, rfl, rfl, fun rest =>
      mapR_eq_ok.mpr ⟨l, readFixeds_writeFixeds (w124 hw.1.1)
        (fun s hs => fixedCanon_iff.mp (hc.2 s hs)) hbs, rfl⟩⟩
  | vstrs cw pw e =>
    cases v <;> simp only [canonOp, Bool.false_eq_true] at hc
    rename_i l
    simp only [encOp] at he
    obtain ⟨bs, hbs, rfl, rfl⟩ := emit_eq_ok.mp he
    simp only [Op.widthsOK, Bool.and_eq_true] at hw
    exact ⟨_, rfl, rfl, fun rest =>
      mapR_eq_ok.mpr ⟨l, readVstrs_writeVstrs (w124 hw.1) (w124 hw.2) hbs, rfl⟩⟩
  | nested ty g =>
    cases v <;> simp only [canonOp, isMsgOf, Bool.false_and, Bool.false_eq_true, Bool.and_eq_true,
      beq_iff_eq] at hc
    rename_i ty' fs
    obtain ⟨rfl, hcan⟩ := hc
    simp only [encOp, ↓reduceIte] at he
    obtain ⟨bs, rfl, hd⟩ := ih _ _ _ _ _ hcan he
    obtain ⟨fs', rfl⟩ := encTy_ok_msg he
    exact ⟨bs, rfl, rfl, hd⟩
  | objs cw ty e =>
    cases v <;> simp only [canonOp, Bool.false_eq_true, Bool.and_eq_true, decide_eq_true_eq,
      List.all_eq_true] at hc
    rename_i l
    simp only [encOp, bindE_eq_ok, mapE_eq_ok] at he
    obtain ⟨_, mid, h1, l', h2, rfl⟩ := he
    obtain ⟨c, hc1, _, rfl⟩ := emit_eq_ok.mp h1
    obtain ⟨hlen, rfl⟩ := writeLen_eq_ok.mp hc1
    obtain ⟨bs, rfl, hd⟩ := rtAll ih ty l l' _ out (fun x hx => (hc.2 x hx).2) h2
    simp only [Op.widthsOK] at hw
    refine ⟨toE e cw l.length ++ bs, List.append_assoc _ _ _, rfl, fun rest => ?_⟩
    refine mapR_eq_ok.mpr ⟨l', ?_, rfl⟩
    unfold readList bindR
    rw [List.append_assoc, readScalar_append e (bs ++ rest) (toE_length e cw l.length),
      ofE_toE_of_lt e cw l.length hlen, Outcome.bind_ok]
    show lenGuard l.length (decRep (decTy env f ty) l.length) (bs ++ rest) = _
    rw [lenGuard_pass _ (lt_two_pow_63 (w124 hw) hlen)]
    exact hd rest
  | union key tbl g =>
    simp only [canonOp] at hc
    cases hu : unionTy env key tbl all with
    | none => simp only [hu, Bool.false_eq_true] at hc
    | some bty =>
      simp only [hu] at hc
      cases v <;> simp only [isMsgOf, Bool.false_and, Bool.false_eq_true, Bool.and_eq_true,
        beq_iff_eq] at hc
      rename_i ty' fs
      obtain ⟨rfl, hcan⟩ := hc
      simp only [encOp, encPtr] at he
      obtain ⟨bs, rfl, hd⟩ := ih _ _ _ _ _ hcan he
      obtain ⟨fs', rfl⟩ := encTy_ok_msg he
      refine ⟨bs, rfl, rfl, fun rest => ?_⟩
      simp only [decOp, hU key tbl g rfl, hu, optR_some]
      exact hd rest
  | «opaque» =>
    cases v <;> simp only [canonOp, Bool.false_eq_true] at hc

theorem rtSeq {env : Env} {f : Nat} (ih : TyRT env f) {zero : Nat → Val} {all : List Val} :
    ∀ (ops : List Op) (vs acc : List Val) (pre : Bytes) (vs' : List Val) (out : Bytes),
      ops.all Op.widthsOK = true →
      unionKeysLt acc.length ops = true →
      KeyAgree acc all →
      (∀ j, j < vs.length → all[acc.length + j]? = vs[j]?) →
      canonSeq (canonOp env (canonTy env f) all) ops vs = true →
      encSeq (encOp env (encTy env f) zero all) ops vs pre = .ok (vs', out) →
      ∃ bs, out = pre ++ bs ∧ KeyAgree (acc ++ vs') all ∧
        ∀ rest, decSeq (decOp env (decTy env f)) ops acc (bs ++ rest) = .ok (acc ++ vs', rest)
  | [], [], acc, pre, vs', out, _, _, hka, _, _, he => by
    simp only [encSeq, Outcome.ok.injEq, Prod.mk.injEq] at he
    obtain ⟨rfl, rfl⟩ := he
    refine ⟨[], (List.append_nil _).symm, by rwa [List.append_nil], fun rest => ?_⟩
    simp only [decSeq, List.nil_append, List.append_nil, pureR_apply]
  | [], _ :: _, _, _, _, _, _, _, _, _, hc, _ => by simp only [canonSeq, Bool.false_eq_true] at hc
  | _ :: _, [], _, _, _, _, _, _, _, _, hc, _ => by simp only [canonSeq, Bool.false_eq_true] at hc
  | op :: ops, v :: vs, acc, pre, vs', out, hw, hk, hka, hpos, hc, he => by
    simp only [canonSeq, Bool.and_eq_true] at hc
    simp only [List.all_cons, Bool.and_eq_true] at hw
    simp only [unionKeysLt, Bool.and_eq_true] at hk
    simp only [encSeq, bindE_eq_ok, mapE_eq_ok] at he
    obtain ⟨v1, mid, h1, vs1, h2, rfl⟩ := he
    have hU : ∀ key tbl g, op = .union key tbl g →
        unionTy env key tbl acc = unionTy env key tbl all := by
      intro key tbl g hop
      subst hop
      exact hka.unionTy env tbl (by simpa using hk.1)
    obtain ⟨b1, rfl, hkey, hd1⟩ := rtOp ih hw.1 hU hc.1 h1
    have hv0 : all[acc.length]? = some v := by
      have := hpos 0 (by simp)
      simpa using this
    have hka' := hka.snoc hv0 hkey
    have hlen : (acc ++ [v1]).length = acc.length + 1 := by simp
    obtain ⟨b2, rfl, hka2, hd2⟩ := rtSeq ih ops vs (acc ++ [v1]) _ vs1 out hw.2
      (by rw [hlen]; exact hk.2) hka'
      (by
        intro j hj
        have := hpos (j + 1) (by simp; omega)
        rw [hlen]
        simpa [Nat.add_assoc, Nat.add_comm 1 j] using this)
      hc.2 h2
    have happ : acc ++ v1 :: vs1 = acc ++ [v1] ++ vs1 := by simp
    refine ⟨b1 ++ b2, List.append_assoc _ _ _, by rwa [happ], fun rest => ?_⟩
    simp only [decSeq]
    refine bindR_eq_ok.mpr ⟨v1, b2 ++ rest, ?_, ?_⟩
    · rw [List.append_assoc]; exact hd1 _
    · rw [happ]; exact hd2 rest

/-! ## 2. what the side conditions give for one type -/

theorem mirror_plain {env : Env} (hm : env.mirrorOK = true) {ty : Nat} {td : TyDef}
    (htd : env.types[ty]? = some td) (hfr : td.frame = none) :
    td.enc.map Op.eraseG = td.dec.map Op.eraseG := by
  have := List.all_eq_true.mp hm td (List.mem_of_getElem? htd)
  simp only [TyDef.mirrorOK, hfr, Bool.and_eq_true, beq_iff_eq] at this
  exact this.1

theorem mirror_frame {env : Env} (hm : env.mirrorOK = true) {ty : Nat} {td : TyDef} {fd : FrameDesc}
    (htd : env.types[ty]? = some td) (hfr : td.frame = some fd) :
    td.dec.map Op.eraseG = fd.decOps.map Op.eraseG ∧ fd.hdr.all Op.isScalar = true ∧
      fd.key < fd.hdr.length ∧ fd.lenW = 4 ∧ (∀ a w, fd.cks = some (a, w) → w = 4) := by
  have := List.all_eq_true.mp hm td (List.mem_of_getElem? htd)
  simp only [TyDef.mirrorOK, hfr, Bool.and_eq_true, beq_iff_eq, decide_eq_true_eq] at this
  refine ⟨this.1.1.1.1.1, this.1.1.1.2, this.1.1.2, this.1.2, fun a w hc => ?_⟩
  have h2 := this.2
  simp only [hc, Bool.and_eq_true, beq_iff_eq] at h2
  exact h2.1

theorem widths_of {env : Env} (hw : env.widthsOK = true) {ty : Nat} {td : TyDef}
    (htd : env.types[ty]? = some td) :
    td.enc.all Op.widthsOK = true ∧ (∀ fd, td.frame = some fd → fd.hdr.all Op.widthsOK = true) := by
  have := List.all_eq_true.mp hw td (List.mem_of_getElem? htd)
  simp only [Bool.and_eq_true] at this
  refine ⟨this.1.2, fun fd hfr => ?_⟩
  have h2 := this.2
  simpa only [hfr] using h2

theorem keys_of {env : Env} (hk : env.keysOK = true) {ty : Nat} {td : TyDef}
    (htd : env.types[ty]? = some td) : unionKeysLt 0 td.dec = true :=
  unionKeysLt_of_keysEarlierAux td.dec td.dec 0 (List.all_eq_true.mp hk td (List.mem_of_getElem? htd))

theorem frameLen_lt (bb : Bytes) : frameLen bb < 256 ^ 4 := by
  unfold frameLen
  have : (256 : Nat) ^ 4 = 2 ^ 32 := by decide
  rw [this]
  exact Nat.mod_lt _ (by decide)

/-! ## 3. the frame: header, length, body, trailer -/

theorem rtFrame {env : Env} {f : Nat} (ih : TyRT env f) {fd : FrameDesc} {fields hv : List Val}
    {hb bb : Bytes} {body body' : Val}
    (hsc : fd.hdr.all Op.isScalar = true) (hwid : fd.hdr.all Op.widthsOK = true)
    (hkey : fd.key < fd.hdr.length) (hlenW : fd.lenW = 4)
    (hcH : canonSeq (canonOp env (canonTy env f) fields) fd.hdr (fields.take fd.hdr.length) = true)
    (hcB : canonOp env (canonTy env f) fields (.union fd.key fd.tbl fd.g) body = true)
    (h1 : encSeq (encOp env (encTy env f) (zeroTy env f) fields) fd.hdr (fields.take fd.hdr.length) []
        = .ok (hv, hb))
    (h3 : encPtr (encTy env f) fd.g ((unionTy env fd.key fd.tbl fields).map (zeroTy env f))
        (unionTy env fd.key fd.tbl fields) body [] = .ok (body', bb)) :
    ∀ rest, decSeq (decOp env (decTy env f))
        (fd.hdr ++ [.scalar fd.lenW fd.e, .union fd.key fd.tbl .mat]) [] (frameBytes fd hb bb ++ rest)
      = .ok (hv ++ [.num (frameLen bb), body'], rest) := by
  obtain ⟨hb', hhb, hkaH, hdH⟩ := rtSeq ih fd.hdr (fields.take fd.hdr.length) [] [] hv hb hwid
    (unionKeysLt_of_isScalar _ _ hsc) (KeyAgree.nil _)
    (by
      intro j hj
      rw [List.length_take] at hj
      simp only [List.length_nil, Nat.zero_add]
      rw [List.getElem?_take, if_pos (by omega)])
    hcH h1
  rw [List.nil_append] at hhb hkaH hdH
  subst hhb
  have hlv : hv.length = fd.hdr.length := (encSeq_length h1).2
  rw [← encOp_union] at h3
  obtain ⟨bb', hbb, _, hdB⟩ := rtOp (acc := hv ++ [.num (frameLen bb)]) ih (by rfl)
    (by
      intro key tbl g hop
      cases hop
      simp only [unionTy]
      rw [hkaH.append_right _ (by omega)])
    hcB h3
  rw [List.nil_append] at hbb
  subst hbb
  intro rest
  rw [decSeq_append]
  refine bindR_eq_ok.mpr ⟨hv, toE fd.e fd.lenW (frameLen bb) ++ bb ++ rest, ?_, ?_⟩
  · simp only [frameBytes, List.append_assoc]
    exact hdH _
  · simp only [decSeq]
    refine bindR_eq_ok.mpr ⟨.num (frameLen bb), bb ++ rest, ?_, ?_⟩
    · refine mapR_eq_ok.mpr ⟨frameLen bb, ?_, rfl⟩
      rw [List.append_assoc]
      have := @readScalar_writeScalar fd.lenW fd.e (frameLen bb) (bb ++ rest) (by rw [hlenW]; exact frameLen_lt bb)
      exact this
    · refine bindR_eq_ok.mpr ⟨body', rest, hdB rest, ?_⟩
      simp only [pureR_apply, List.append_assoc, List.cons_append, List.nil_append]

/-! ## 4. C01 -/

theorem roundtrip_aux (env : Env) (hm : env.mirrorOK = true) (hk : env.keysOK = true)
    (hw : env.widthsOK = true) : ∀ f, TyRT env f := by
  intro f
  induction f with
  | zero =>
    intro ty v pre v' out hc
    simp only [canonTy, Bool.false_eq_true] at hc
  | succ f ih =>
    intro ty v pre v' out hc he
    cases v <;> simp only [canonTy, Bool.false_eq_true] at hc
    rename_i ty' fields
    simp only [Bool.and_eq_true, beq_iff_eq] at hc
    obtain ⟨rfl, hc⟩ := hc
    cases htd : env.types[ty']? with
    | none => simp only [htd, Bool.false_eq_true] at hc
    | some td =>
      simp only [htd] at hc
      obtain ⟨hwE, hwH⟩ := widths_of hw htd
      cases hfr : td.frame with
      | none =>
        simp only [hfr] at hc
        simp only [encTy, ↓reduceIte, htd, hfr, mapE_eq_ok] at he
        obtain ⟨fs', he, rfl⟩ := he
        have hmir := mirror_plain hm htd hfr
        have hkeys : unionKeysLt 0 td.enc = true := by
          rw [unionKeysLt_erase td.enc td.dec 0 hmir]; exact keys_of hk htd
        obtain ⟨bs, rfl, _, hd⟩ := rtSeq ih td.enc fields [] pre fs' out hwE hkeys (KeyAgree.nil _)
          (by intro j _; simp) hc he
        refine ⟨bs, rfl, fun rest => ?_⟩
        rw [decTy]
        simp only [htd, optR_some]
        refine mapR_eq_ok.mpr ⟨fs', ?_, rfl⟩
        rw [← decSeq_congr_erase env _ td.enc td.dec [] hmir]
        have := hd rest
        rwa [List.nil_append] at this
      | some fd =>
        simp only [hfr, Bool.and_eq_true, decide_eq_true_eq] at hc
        obtain ⟨⟨_, hcH⟩, hcB⟩ := hc
        obtain ⟨hmir, hsc, hkey, hlenW, hcw⟩ := mirror_frame hm htd hfr
        obtain ⟨hv, hb, body, body', bb, h1, h2, h3, hn, hs⟩ := frame_shape htd hfr he
        simp only [h2] at hcB
        have hF := rtFrame ih hsc (hwH fd hfr) hkey hlenW hcH hcB h1 h3
        have hdec : ∀ (fs' : List Val) (bs : Bytes),
            (∀ rest, decSeq (decOp env (decTy env f)) fd.decOps [] (bs ++ rest) = .ok (fs', rest)) →
            ∀ rest, decTy env (f + 1) ty' (bs ++ rest) = .ok (.msg ty' fs', rest) := by
          intro fs' bs h rest
          rw [decTy]
          simp only [htd, optR_some]
          refine mapR_eq_ok.mpr ⟨fs', ?_, rfl⟩
          rw [decSeq_congr_erase env _ td.dec fd.decOps [] hmir]
          exact h rest
        cases hck : fd.cks with
        | none =>
          obtain ⟨_, rfl, rfl⟩ := hn hck
          refine ⟨frameBytes fd hb bb, rfl, hdec _ _ (fun rest => ?_)⟩
          simp only [FrameDesc.decOps, hck, List.append_nil]
          exact hF rest
        | some p =>
          obtain ⟨alg, w⟩ := p
          obtain ⟨_, rfl, rfl⟩ := hs alg w hck
          have hw4 := hcw alg w hck
          subst hw4
          refine ⟨frameBytes fd hb bb ++ toE fd.e 4 (cksNat alg (frameBytes fd hb bb)),
            List.append_assoc _ _ _, hdec _ _ (fun rest => ?_)⟩
          simp only [FrameDesc.decOps, hck]
          rw [decSeq_append, List.append_assoc]
          refine bindR_eq_ok.mpr ⟨_, _, hF _, ?_⟩
          simp only [decSeq]
          refine bindR_eq_ok.mpr ⟨.num (cksNat alg (frameBytes fd hb bb)), rest, ?_, ?_⟩
          · exact mapR_eq_ok.mpr ⟨_, readScalar_writeScalar (cksNat_lt _ _), rfl⟩
          · simp only [pureR_apply, List.append_assoc, List.cons_append, List.nil_append]

/-! ## 5. what the returned message is (`enc_canon_val`) -/

/-- at one fuel level: a canonical message of a non-frame type is returned unchanged -/
def TySame (env : Env) (f : Nat) : Prop :=
  ∀ ty v pre v' out, env.isFrame ty = false → canonTy env f ty v = true →
    encTy env f ty v pre = .ok (v', out) → v' = v

theorem framesTop_tbl {env : Env} (ht : env.framesTop = true) {key tbl : Nat} {all : List Val} {t : Nat}
    (h : unionTy env key tbl all = some t) : env.isFrame t = false := by
  simp only [unionTy, Option.bind_eq_some_iff] at h
  obtain ⟨k, _, hk⟩ := h
  simp only [Env.lookup] at hk
  split at hk
  · rename_i tb htb
    obtain ⟨k', hmem⟩ := lookupKey_mem hk
    rw [List.mem_reverse] at hmem
    simp only [Env.framesTop, Bool.and_eq_true, List.all_eq_true] at ht
    have := ht.1 tb (List.mem_of_getElem? htb) (k', t) hmem
    simpa using this
  · cases hk

/-- the statement refers to no self-measuring frame type -/
def opNoFrame (env : Env) : Op → Bool
  | .nested ty _ => !env.isFrame ty
  | .objs _ ty _ => !env.isFrame ty
  | _ => true

theorem framesTop_enc {env : Env} (ht : env.framesTop = true) {ty : Nat} {td : TyDef}
    (htd : env.types[ty]? = some td) : td.enc.all (opNoFrame env) = true := by
  simp only [Env.framesTop, Bool.and_eq_true, List.all_eq_true] at ht
  have h := ht.2 td (List.mem_of_getElem? htd)
  simp only [List.all_eq_true]
  intro op hop
  have := h op (List.mem_append_right _ hop)
  cases op <;> first | rfl | exact this

theorem opNoFrame_of_isScalar {env : Env} {ops : List Op} (h : ops.all Op.isScalar = true) :
    ops.all (opNoFrame env) = true := by
  simp only [List.all_eq_true] at h ⊢
  intro op hop
  have := h op hop
  cases op <;> first | rfl | (simp [Op.isScalar] at this)

theorem sameAll {env : Env} {f : Nat} (ih : TySame env f) {ty : Nat} (hty : env.isFrame ty = false) :
    ∀ (l l' : List Val) (pre out : Bytes), (∀ v ∈ l, canonTy env f ty v = true) →
      encAll (encTy env f ty) l pre = .ok (l', out) → l' = l
  | [], l', pre, out, _, h => by
    simp only [encAll, Outcome.ok.injEq, Prod.mk.injEq] at h
    exact h.1.symm
  | v :: vs, l', pre, out, hc, h => by
    simp only [encAll, bindE_eq_ok, mapE_eq_ok] at h
    obtain ⟨v1, mid, h1, vs1, h2, rfl⟩ := h
    rw [ih ty v pre v1 mid hty (hc v (List.mem_cons_self ..)) h1,
      sameAll ih hty vs vs1 _ out (fun x hx => hc x (List.mem_cons_of_mem _ hx)) h2]

theorem sameOp {env : Env} {f : Nat} (ih : TySame env f) (ht : env.framesTop = true) {zero : Nat → Val}
    {all : List Val} {op : Op} {v v' : Val} {pre out : Bytes}
    (hnf : opNoFrame env op = true)
    (hc : canonOp env (canonTy env f) all op v = true)
    (he : encOp env (encTy env f) zero all op v pre = .ok (v', out)) : v' = v := by
  cases op with
  | scalar w e =>
    cases v <;> simp only [canonOp, Bool.false_eq_true] at hc
    simp only [encOp] at he
    obtain ⟨_, _, rfl, _⟩ := emit_eq_ok.mp he; rfl
  | fixed n pad left =>
    cases v <;> simp only [canonOp, Bool.false_eq_true] at hc
    simp only [encOp] at he
    obtain ⟨_, _, rfl, _⟩ := emit_eq_ok.mp he; rfl
  | vstr pw e =>
    cases v <;> simp only [canonOp, Bool.false_eq_true] at hc
    simp only [encOp] at he
    obtain ⟨_, _, rfl, _⟩ := emit_eq_ok.mp he; rfl
  | nums cw w e =>
    cases v <;> simp only [canonOp, Bool.false_eq_true] at hc
    simp only [encOp] at he
    obtain ⟨_, _, rfl, _⟩ := emit_eq_ok.mp he; rfl
  | fixeds cw n pad left e =>
    cases v <;> simp only [canonOp, Bool.false_eq_true] at hc
    simp only [encOp] at he
    obtain ⟨_, _, rfl, _⟩ := emit_eq_ok.mp he; rfl
  | vstrs cw pw e =>
    cases v <;> simp only [canonOp, Bool.false_eq_true] at hc
    simp only [encOp] at he
    obtain ⟨_, _, rfl, _⟩ := emit_eq_ok.mp he; rfl
  | nested ty g =>
    cases v <;> simp only [canonOp, isMsgOf, Bool.false_and, Bool.false_eq_true, Bool.and_eq_true,
      beq_iff_eq] at hc
    obtain ⟨rfl, hcan⟩ := hc
    simp only [encOp, ↓reduceIte] at he
    simp only [opNoFrame, Bool.not_eq_true'] at hnf
    exact ih _ _ _ _ _ hnf hcan he
  | objs cw ty e =>
    cases v <;> simp only [canonOp, Bool.false_eq_true, Bool.and_eq_true, decide_eq_true_eq,
      List.all_eq_true] at hc
    rename_i l
    simp only [encOp, bindE_eq_ok, mapE_eq_ok] at he
    obtain ⟨_, mid, _, l', h2, rfl⟩ := he
    simp only [opNoFrame, Bool.not_eq_true'] at hnf
    rw [sameAll ih hnf l l' _ out (fun x hx => (hc.2 x hx).2) h2]
  | union key tbl g =>
    simp only [canonOp] at hc
    cases hu : unionTy env key tbl all with
    | none => simp only [hu, Bool.false_eq_true] at hc
    | some bty =>
      simp only [hu] at hc
      cases v <;> simp only [isMsgOf, Bool.false_and, Bool.false_eq_true, Bool.and_eq_true,
        beq_iff_eq] at hc
      obtain ⟨rfl, hcan⟩ := hc
      simp only [encOp, encPtr] at he
      exact ih _ _ _ _ _ (framesTop_tbl ht hu) hcan he
  | «opaque» =>
    cases v <;> simp only [canonOp, Bool.false_eq_true] at hc

theorem sameSeq {env : Env} {f : Nat} (ih : TySame env f) (ht : env.framesTop = true) {zero : Nat → Val}
    {all : List Val} :
    ∀ (ops : List Op) (vs vs' : List Val) (pre out : Bytes), ops.all (opNoFrame env) = true →
      canonSeq (canonOp env (canonTy env f) all) ops vs = true →
      encSeq (encOp env (encTy env f) zero all) ops vs pre = .ok (vs', out) → vs' = vs
  | [], [], vs', pre, out, _, _, he => by
    simp only [encSeq, Outcome.ok.injEq, Prod.mk.injEq] at he
    exact he.1.symm
  | [], _ :: _, _, _, _, _, hc, _ => by simp only [canonSeq, Bool.false_eq_true] at hc
  | _ :: _, [], _, _, _, _, hc, _ => by simp only [canonSeq, Bool.false_eq_true] at hc
  | op :: ops, v :: vs, vs', pre, out, hnf, hc, he => by
    simp only [canonSeq, Bool.and_eq_true] at hc
    simp only [List.all_cons, Bool.and_eq_true] at hnf
    simp only [encSeq, bindE_eq_ok, mapE_eq_ok] at he
    obtain ⟨v1, mid, h1, vs1, h2, rfl⟩ := he
    rw [sameOp ih ht hnf.1 hc.1 h1, sameSeq ih ht ops vs vs1 _ out hnf.2 hc.2 h2]

theorem same_aux (env : Env) (ht : env.framesTop = true) : ∀ f, TySame env f := by
  intro f
  induction f with
  | zero =>
    intro ty v pre v' out _ hc
    simp only [canonTy, Bool.false_eq_true] at hc
  | succ f ih =>
    intro ty v pre v' out hnf hc he
    cases v <;> simp only [canonTy, Bool.false_eq_true] at hc
    rename_i ty' fields
    simp only [Bool.and_eq_true, beq_iff_eq] at hc
    obtain ⟨rfl, hc⟩ := hc
    cases htd : env.types[ty']? with
    | none => simp only [htd, Bool.false_eq_true] at hc
    | some td =>
      simp only [htd] at hc
      cases hfr : td.frame with
      | some fd => simp [Env.isFrame, htd, hfr] at hnf
      | none =>
        simp only [hfr] at hc
        simp only [encTy, ↓reduceIte, htd, hfr, mapE_eq_ok] at he
        obtain ⟨fs', he, rfl⟩ := he
        rw [sameSeq ih ht td.enc fields fs' pre out (framesTop_enc ht htd) hc he]

/-- pure list fact: replacing positions `n` and (if present) `n+2` leaves every other position alone -/
theorem frame_fields_agree {fields vt : List Val} {n : Nat} {x body : Val}
    (hb : fields[n + 1]? = some body) (hl : fields.length = n + 2 + vt.length) (hvt : vt.length ≤ 1) :
    ∀ i, i ≠ n → i ≠ n + 2 → (fields.take n ++ x :: body :: vt)[i]? = fields[i]? := by
  intro i h1 h2
  have hlt : (fields.take n).length = n := by rw [List.length_take]; omega
  by_cases hi : i < n
  · rw [List.getElem?_append_left (by omega), List.getElem?_take, if_pos hi]
  · rw [List.getElem?_append_right (by omega), hlt]
    obtain ⟨k, rfl⟩ : ∃ k, i = n + k := ⟨i - n, by omega⟩
    have hk : n + k - n = k := by omega
    rw [hk]
    match k, h1, h2 with
    | 0, h1, _ => exact absurd rfl h1
    | 1, _, _ => simp [hb]
    | 2, _, h2 => exact absurd rfl h2
    | k + 3, _, _ =>
      have hnone : fields[n + (k + 3)]? = none := List.getElem?_eq_none (by omega)
      rw [hnone]
      simp only [List.getElem?_cons_succ]
      exact List.getElem?_eq_none (by omega)

end RT

/-! ## 6. the theorems -/

/-- **C01** (and the "exactly one message" half of C07).  For every value of the canonical domain,
    decoding the bytes the encoder appended, followed by ARBITRARY further bytes `rest`, yields exactly
    the message the encoder reports (`v'` = `v` with a frame's self-computed length and checksum set to
    their correct values, whatever the caller had put there) and leaves `rest` untouched. -/
theorem roundtrip (env : Env) (hm : env.mirrorOK = true) (hk : env.keysOK = true)
    (hw : env.widthsOK = true) :
    ∀ f ty v pre v' out, canonTy env f ty v = true → encTy env f ty v pre = .ok (v', out) →
      ∃ bs, out = pre ++ bs ∧ ∀ rest, decTy env f ty (bs ++ rest) = .ok (v', rest) :=
  fun f => RT.roundtrip_aux env hm hk hw f

/-- `roundtrip` with nothing after the message -/
theorem roundtrip_exact (env : Env) (hm : env.mirrorOK = true) (hk : env.keysOK = true)
    (hw : env.widthsOK = true) :
    ∀ f ty v pre v' out, canonTy env f ty v = true → encTy env f ty v pre = .ok (v', out) →
      ∃ bs, out = pre ++ bs ∧ decTy env f ty bs = .ok (v', []) := by
  intro f ty v pre v' out hc he
  obtain ⟨bs, rfl, hd⟩ := roundtrip env hm hk hw f ty v pre v' out hc he
  have := hd []
  rw [List.append_nil] at this
  exact ⟨bs, rfl, this⟩

/-- encoding into the empty buffer: the whole output decodes to the reported message, nothing left -/
theorem roundtrip_exact_nil (env : Env) (hm : env.mirrorOK = true) (hk : env.keysOK = true)
    (hw : env.widthsOK = true) {f ty : Nat} {v v' : Val} {w : Bytes}
    (hc : canonTy env f ty v = true) (he : encTy env f ty v [] = .ok (v', w)) :
    decTy env f ty w = .ok (v', []) := by
  obtain ⟨bs, rfl, hd⟩ := roundtrip_exact env hm hk hw f ty v [] v' w hc he
  exact hd

/-- what `v'` is, non-frame types: the encoder reports the canonical message it was given, unchanged.
    (`framesTop`: frames occur only at the top level — without it a nested frame's length/checksum
    fields would change deep inside `v`.) -/
theorem enc_canon_val (env : Env) (ht : env.framesTop = true) :
    ∀ f ty v pre v' out, env.isFrame ty = false → canonTy env f ty v = true →
      encTy env f ty v pre = .ok (v', out) → v' = v :=
  fun f => RT.same_aux env ht f

/-- what `v'` is, frame types: header fields and body are the caller's; only the length field
    (position `fd.hdr.length`) and the checksum field (position `fd.hdr.length + 2`, if any) are
    replaced, by the values `frame_shape` / `frame_len_exact` / `frame_cks_exact` describe -/
theorem enc_canon_val_frame (env : Env) (hm : env.mirrorOK = true) (ht : env.framesTop = true)
    {f ty : Nat} {td : TyDef} {fd : FrameDesc} {v v' : Val} {pre out : Bytes}
    (htd : env.types[ty]? = some td) (hfr : td.frame = some fd)
    (hc : canonTy env f ty v = true) (he : encTy env f ty v pre = .ok (v', out)) :
    ∃ fields body len vt,
      v = .msg ty fields ∧ fields[fd.hdr.length + 1]? = some body ∧
      v' = .msg ty (fields.take fd.hdr.length ++ .num len :: body :: vt) ∧
      fields.length = fd.hdr.length + 2 + vt.length ∧
      ((fd.cks = none ∧ vt = []) ∨ (∃ a w c, fd.cks = some (a, w) ∧ vt = [.num c])) ∧
      ∃ fs', v' = .msg ty fs' ∧ fs'.length = fields.length ∧
        ∀ i, i ≠ fd.hdr.length → i ≠ fd.hdr.length + 2 → fs'[i]? = fields[i]? := by
  cases f with
  | zero => simp only [canonTy, Bool.false_eq_true] at hc
  | succ f =>
    cases v <;> simp only [canonTy, Bool.false_eq_true] at hc
    rename_i ty' fields
    simp only [Bool.and_eq_true, beq_iff_eq] at hc
    obtain ⟨rfl, hc⟩ := hc
    simp only [htd, hfr, Bool.and_eq_true, decide_eq_true_eq] at hc
    obtain ⟨⟨_, hcH⟩, hcB⟩ := hc
    obtain ⟨_, hsc, _, _, _⟩ := RT.mirror_frame hm htd hfr
    obtain ⟨hv, hb, body, body', bb, h1, h2, h3, hn, hs⟩ := frame_shape htd hfr he
    simp only [h2] at hcB
    have ih := RT.same_aux env ht f
    have hhv : hv = fields.take fd.hdr.length :=
      RT.sameSeq ih ht fd.hdr _ hv [] hb (RT.opNoFrame_of_isScalar hsc) hcH h1
    have hbody : body' = body := by
      rw [← encOp_union] at h3
      exact RT.sameOp ih ht (by rfl) hcB h3
    subst hhv hbody
    have hlt : (fields.take fd.hdr.length).length = fd.hdr.length := (encSeq_length h1).2
    cases hck : fd.cks with
    | none =>
      obtain ⟨hl, _, rfl⟩ := hn hck
      refine ⟨fields, body', _, [], rfl, h2, rfl, by simpa using hl, .inl ⟨rfl, rfl⟩, _, rfl, ?_,
        RT.frame_fields_agree h2 (by simpa using hl) (by simp)⟩
      simp only [List.length_append, hlt, List.length_cons, List.length_nil]; omega
    | some p =>
      obtain ⟨a, w⟩ := p
      obtain ⟨hl, _, rfl⟩ := hs a w hck
      refine ⟨fields, body', _, [_], rfl, h2, rfl, by simpa using hl, .inr ⟨a, w, _, rfl, rfl⟩, _, rfl, ?_,
        RT.frame_fields_agree h2 (by simpa using hl) (by simp)⟩
      simp only [List.length_append, hlt, List.length_cons, List.length_nil]; omega

/-- **C07**: canonical messages of mixed types encoded one after another into one buffer are read back
    by as many successive decodes, in order, as the messages the encoder reported; whatever followed
    them (`rest`) is left untouched -/
theorem stream_rest (env : Env) (hm : env.mirrorOK = true) (hk : env.keysOK = true)
    (hw : env.widthsOK = true) (f : Nat) :
    ∀ (ms : List (Nat × Val)) (pre : Bytes) (vs' : List Val) (out : Bytes),
      (∀ m ∈ ms, canonTy env f m.1 m.2 = true) → encMany env f ms pre = .ok (vs', out) →
      ∃ bs, out = pre ++ bs ∧ vs'.length = ms.length ∧
        ∀ rest, decMany env f (ms.map (·.1)) (bs ++ rest) = .ok (vs', rest)
  | [], pre, vs', out, _, he => by
    simp only [encMany, Outcome.ok.injEq, Prod.mk.injEq] at he
    obtain ⟨rfl, rfl⟩ := he
    exact ⟨[], (List.append_nil _).symm, rfl, fun rest => rfl⟩
  | m :: ms, pre, vs', out, hc, he => by
    simp only [encMany, bindE_eq_ok, mapE_eq_ok] at he
    obtain ⟨v1, mid, h1, vs1, h2, rfl⟩ := he
    obtain ⟨b1, rfl, hd1⟩ := roundtrip env hm hk hw f m.1 m.2 pre v1 mid (hc m (List.mem_cons_self ..)) h1
    obtain ⟨b2, rfl, hlen, hd2⟩ := stream_rest env hm hk hw f ms _ vs1 out
      (fun x hx => hc x (List.mem_cons_of_mem _ hx)) h2
    refine ⟨b1 ++ b2, List.append_assoc _ _ _, by simp [hlen], fun rest => ?_⟩
    simp only [List.map_cons, decMany]
    refine bindR_eq_ok.mpr ⟨v1, b2 ++ rest, ?_, mapR_eq_ok.mpr ⟨vs1, hd2 rest, rfl⟩⟩
    rw [List.append_assoc]; exact hd1 _

/-- **C07**, the stream holding exactly the `n` messages: `n` decodes return them and leave `[]` -/
theorem stream (env : Env) (hm : env.mirrorOK = true) (hk : env.keysOK = true)
    (hw : env.widthsOK = true) (f : Nat) (ms : List (Nat × Val)) (vs' : List Val) (w : Bytes)
    (hc : ∀ m ∈ ms, canonTy env f m.1 m.2 = true) (he : encMany env f ms [] = .ok (vs', w)) :
    decMany env f (ms.map (·.1)) w = .ok (vs', []) ∧ vs'.length = ms.length := by
  obtain ⟨bs, rfl, hlen, hd⟩ := stream_rest env hm hk hw f ms [] vs' w hc he
  have := hd []
  rw [List.append_nil] at this
  exact ⟨this, hlen⟩

/-- **C11**: every proper prefix of the encoding of a canonical message is rejected with an error
    (not accepted, and no panic) -/
theorem truncated_rejected (env : Env) (hm : env.mirrorOK = true) (hk : env.keysOK = true)
    (hw : env.widthsOK = true) {f ty : Nat} {v v' : Val} {w : Bytes} {k : Nat}
    (hc : canonTy env f ty v = true) (he : encTy env f ty v [] = .ok (v', w)) (hlt : k < w.length) :
    decTy env f ty (w.take k) = .err := by
  have hd := roundtrip_exact_nil env hm hk hw hc he
  cases h : decTy env f ty (w.take k) with
  | ok p => exact absurd h (dec_truncated_not_ok hd hlt p.1 p.2)
  | err => rfl
  | panic => exact absurd h (dec_no_panic hw f ty _)

/-! ## 7. non-vacuity on the pinned schema of the real code -/

namespace RoundTripEx
open Pinned

theorem pinned_mirrorOK : Pinned.env.mirrorOK = true := by decide +kernel
theorem pinned_keysOK : Pinned.env.keysOK = true := by decide +kernel
theorem pinned_widthsOK : Pinned.env.widthsOK = true := by decide +kernel
theorem pinned_framesTop : Pinned.env.framesTop = true := by decide +kernel

/-- an SSE frame (type 96) holding a Logon (type 89; MsgType 40), with a STALE length (999) and a stale
    checksum (12345) supplied by the caller -/
def exLogon : Val :=
  .msg 96 [.num 40, .num 7, .num 999,
    .msg 89 [.str [65, 66, 67], .str [88, 89], .num 30, .str [49, 46, 48, 48], .num 20260929, .num 100],
    .num 12345]

/-- an SSE frame holding a Heartbeat (type 88, no fields; MsgType 33) -/
def exHeartbeat : Val := .msg 96 [.num 33, .num 8, .num 0, .msg 88 [], .num 0]

theorem exLogon_canon : canonTy Pinned.env 3 96 exLogon = true := by decide +kernel
theorem exHeartbeat_canon : canonTy Pinned.env 3 96 exHeartbeat = true := by decide +kernel

/-- what the encoder reports for `exLogon`: length 82 = 32+32+2+8+4+4 instead of 999, checksum 184
    instead of 12345 -/
def exLogon' : Val :=
  .msg 96 [.num 40, .num 7, .num 82,
    .msg 89 [.str [65, 66, 67], .str [88, 89], .num 30, .str [49, 46, 48, 48], .num 20260929, .num 100],
    .num 184]

def exLogonBytes : Bytes :=
  [0, 0, 0, 40, 0, 0, 0, 0, 0, 0, 0, 7, 0, 0, 0, 82, 65, 66, 67, 32, 32, 32, 32, 32, 32, 32, 32, 32, 32, 32,
    32, 32, 32, 32, 32, 32, 32, 32, 32, 32, 32, 32, 32, 32, 32, 32, 32, 32, 88, 89, 32, 32, 32, 32, 32, 32, 32, 32, 32,
    32, 32, 32, 32, 32, 32, 32, 32, 32, 32, 32, 32, 32, 32, 32, 32, 32, 32, 32, 32, 32, 0, 30, 49, 46, 48, 48, 32, 32,
    32, 32, 1, 53, 40, 65, 0, 0, 0, 100, 0, 0, 0, 184]

def exHeartbeat' : Val := .msg 96 [.num 33, .num 8, .num 0, .msg 88 [], .num 41]
def exHeartbeatBytes : Bytes := [0, 0, 0, 33, 0, 0, 0, 0, 0, 0, 0, 8, 0, 0, 0, 0, 0, 0, 0, 41]

set_option maxRecDepth 4096 in
/-- the encoder accepts the Logon frame, appending to a non-empty buffer -/
theorem exLogon_enc :
    encTy Pinned.env 3 96 exLogon [0xAA, 0xBB] = .ok (exLogon', [0xAA, 0xBB] ++ exLogonBytes) := rfl

theorem exHeartbeat_enc : encTy Pinned.env 3 96 exHeartbeat [] = .ok (exHeartbeat', exHeartbeatBytes) := rfl

/-- `roundtrip` instantiated: its hypotheses hold on a concrete, non-trivial instance -/
example : ∀ rest, decTy Pinned.env 3 96 (exLogonBytes ++ rest) = .ok (exLogon', rest) := by
  obtain ⟨bs, hout, hd⟩ := roundtrip Pinned.env pinned_mirrorOK pinned_keysOK pinned_widthsOK
    3 96 exLogon _ _ _ exLogon_canon exLogon_enc
  cases List.append_cancel_left hout
  exact hd

/-- `enc_canon_val_frame` instantiated -/
example : ∀ i, i ≠ 2 → i ≠ 4 → ∃ fs fs', exLogon = .msg 96 fs ∧ exLogon' = .msg 96 fs' ∧ fs'[i]? = fs[i]? := by
  obtain ⟨fields, _, _, _, h1, _, _, _, _, fs', h2, _, h3⟩ :=
    enc_canon_val_frame Pinned.env pinned_mirrorOK pinned_framesTop (fd := _)
      (show Pinned.env.types[96]? = some Pinned.t96 from rfl) rfl exLogon_canon exLogon_enc
  exact fun i hi hj => ⟨fields, fs', h1, h2, h3 i hi hj⟩

/-- `stream` instantiated -/
theorem exStream_enc :
    encMany Pinned.env 3 [(96, exLogon), (96, exHeartbeat), (96, exLogon)] [] =
      .ok ([exLogon', exHeartbeat', exLogon'], exLogonBytes ++ exHeartbeatBytes ++ exLogonBytes) := by
  have h1 := enc_context_free exLogon_enc
  have h2 : encTy Pinned.env 3 96 exHeartbeat [] = .ok (exHeartbeat', [] ++ exHeartbeatBytes) := exHeartbeat_enc
  have h2 := enc_context_free h2
  simp only [encMany, bindE, mapE, h1, h2, Outcome.bind_ok, Outcome.map_ok, List.nil_append]

example : decMany Pinned.env 3 [96, 96, 96] (exLogonBytes ++ exHeartbeatBytes ++ exLogonBytes) =
    .ok ([exLogon', exHeartbeat', exLogon'], []) :=
  (stream Pinned.env pinned_mirrorOK pinned_keysOK pinned_widthsOK 3 _ _ _
    (by
      intro m hm
      simp only [List.mem_cons, List.not_mem_nil, or_false] at hm
      rcases hm with rfl | rfl | rfl
      · exact exLogon_canon
      · exact exHeartbeat_canon
      · exact exLogon_canon) exStream_enc).1

/-- `truncated_rejected` instantiated: none of the 20 proper prefixes of the Heartbeat frame decodes -/
example : ∀ k, k < 20 → decTy Pinned.env 3 96 (exHeartbeatBytes.take k) = .err := fun _ hk =>
  truncated_rejected Pinned.env pinned_mirrorOK pinned_keysOK pinned_widthsOK exHeartbeat_canon
    exHeartbeat_enc hk

/-- `enc_canon_val` instantiated: a Logon on its own (non-frame type 89) is reported unchanged -/
example : ∃ out, encTy Pinned.env 2 89
    (.msg 89 [.str [65, 66, 67], .str [88, 89], .num 30, .str [49, 46, 48, 48], .num 20260929, .num 100]) [] =
    .ok (.msg 89 [.str [65, 66, 67], .str [88, 89], .num 30, .str [49, 46, 48, 48], .num 20260929, .num 100], out) :=
  ⟨_, rfl⟩

example : Pinned.env.isFrame 89 = false ∧ Pinned.env.isFrame 96 = true := by decide +kernel

/-- outside the canonical domain the conclusion fails: a fixed text ending in the pad byte (space = 32)
    is encoded fine but comes back trimmed, so `canonTy` is not a superfluous hypothesis -/
example : ∃ v' w v'', encTy Pinned.env 2 89
    (.msg 89 [.str [65, 32], .str [], .num 0, .str [], .num 0, .num 0]) [] = .ok (v', w) ∧
    decTy Pinned.env 2 89 w = .ok (v'', []) ∧
    v' = .msg 89 [.str [65, 32], .str [], .num 0, .str [], .num 0, .num 0] ∧
    v'' = .msg 89 [.str [65], .str [], .num 0, .str [], .num 0, .num 0] :=
  ⟨_, _, _, rfl, rfl, rfl, rfl⟩

end RoundTripEx

end FinProto
