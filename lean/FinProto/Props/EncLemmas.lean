import FinProto.Checks
namespace FinProto

/-! ## generic inversion lemmas for the encoder combinators -/

theorem bindE_eq_ok {x : E α} {f : α → E β} {pre out : Bytes} {b : β} :
    bindE x f pre = .ok (b, out) ↔ ∃ a mid, x pre = .ok (a, mid) ∧ f a mid = .ok (b, out) := by
  simp only [bindE, Outcome.bind_eq_ok]
  constructor
  · rintro ⟨⟨a, mid⟩, h1, h2⟩; exact ⟨a, mid, h1, h2⟩
  · rintro ⟨a, mid, h1, h2⟩; exact ⟨(a, mid), h1, h2⟩

theorem mapE_eq_ok {x : E α} {f : α → β} {pre out : Bytes} {b : β} :
    mapE f x pre = .ok (b, out) ↔ ∃ a, x pre = .ok (a, out) ∧ f a = b := by
  simp only [mapE, Outcome.map_eq_ok]
  constructor
  · rintro ⟨⟨a, o⟩, h1, h2⟩
    simp only [Prod.mk.injEq] at h2
    obtain ⟨h2, rfl⟩ := h2
    exact ⟨a, h1, h2⟩
  · rintro ⟨a, h1, h2⟩; exact ⟨(a, out), h1, by simp [h2]⟩

theorem emit_eq_ok {v v' : α} {o : Outcome Bytes} {pre out : Bytes} :
    emit v o pre = .ok (v', out) ↔ ∃ bs, o = .ok bs ∧ v' = v ∧ out = pre ++ bs := by
  simp only [emit, Outcome.map_eq_ok, Prod.mk.injEq]
  constructor
  · rintro ⟨bs, h1, h2, h3⟩; exact ⟨bs, h1, h2.symm, h3.symm⟩
  · rintro ⟨bs, h1, h2, h3⟩; exact ⟨bs, h1, h2.symm, h3.symm⟩

/-! ## A. Encoding is append-only and context-free (C06) -/

/-- an encoder step either always succeeds, appending the same bytes and returning the same updated value whatever the buffer held, or always fails / always panics -/
def CtxFree (x : E α) : Prop :=
  (∃ a bs, ∀ pre, x pre = .ok (a, pre ++ bs)) ∨ (∀ pre, x pre = .err) ∨ (∀ pre, x pre = .panic)

theorem ctxFree_pure (a : α) : CtxFree (fun buf => .ok (a, buf) : E α) :=
  .inl ⟨a, [], fun pre => by simp⟩
theorem ctxFree_errE : CtxFree (errE : E α) := .inr (.inl fun _ => rfl)
theorem ctxFree_panicE : CtxFree (panicE : E α) := .inr (.inr fun _ => rfl)

/-- what a context-free step did on one buffer, it does on every buffer -/
theorem CtxFree.of_ok {x : E α} (hx : CtxFree x) {pre out : Bytes} {a : α} (h : x pre = .ok (a, out)) :
    ∃ bs, out = pre ++ bs ∧ ∀ pre', x pre' = .ok (a, pre' ++ bs) := by
  rcases hx with ⟨a', bs, g⟩ | g | g
  · rw [g pre] at h
    simp only [Outcome.ok.injEq, Prod.mk.injEq] at h
    obtain ⟨rfl, rfl⟩ := h
    exact ⟨bs, rfl, g⟩
  · rw [g pre] at h; cases h
  · rw [g pre] at h; cases h

theorem CtxFree.of_err {x : E α} (hx : CtxFree x) {pre : Bytes} (h : x pre = .err) : ∀ pre', x pre' = .err := by
  rcases hx with ⟨a', bs, g⟩ | g | g
  · rw [g pre] at h; cases h
  · exact g
  · rw [g pre] at h; cases h

theorem CtxFree.of_panic {x : E α} (hx : CtxFree x) {pre : Bytes} (h : x pre = .panic) : ∀ pre', x pre' = .panic := by
  rcases hx with ⟨a', bs, g⟩ | g | g
  · rw [g pre] at h; cases h
  · rw [g pre] at h; cases h
  · exact g

theorem ctxFree_emit (v : α) (o : Outcome Bytes) : CtxFree (emit v o) := by
  cases o with
  | ok bs => exact .inl ⟨v, bs, fun pre => rfl⟩
  | err => exact .inr (.inl fun _ => rfl)
  | panic => exact .inr (.inr fun _ => rfl)

theorem ctxFree_bindE {x : E α} {f : α → E β} (hx : CtxFree x) (hf : ∀ a, CtxFree (f a)) :
    CtxFree (bindE x f) := by
  rcases hx with ⟨a, bs, h⟩ | h | h
  · rcases hf a with ⟨b, cs, g⟩ | g | g
    · exact .inl ⟨b, bs ++ cs, fun pre => by simp only [bindE, h, Outcome.bind_ok, g, List.append_assoc]⟩
    · exact .inr (.inl fun pre => by simp only [bindE, h, Outcome.bind_ok, g])
    · exact .inr (.inr fun pre => by simp only [bindE, h, Outcome.bind_ok, g])
  · exact .inr (.inl fun pre => by simp only [bindE, h, Outcome.bind_err])
  · exact .inr (.inr fun pre => by simp only [bindE, h, Outcome.bind_panic])

theorem ctxFree_mapE {x : E α} (f : α → β) (hx : CtxFree x) : CtxFree (mapE f x) := by
  rcases hx with ⟨a, bs, h⟩ | h | h
  · exact .inl ⟨f a, bs, fun pre => by simp only [mapE, h, Outcome.map_ok]⟩
  · exact .inr (.inl fun pre => by simp only [mapE, h, Outcome.map_err])
  · exact .inr (.inr fun pre => by simp only [mapE, h, Outcome.map_panic])

theorem ctxFree_encSeq {step : Op → Val → E Val} (hs : ∀ op v, CtxFree (step op v)) :
    ∀ ops vs, CtxFree (encSeq step ops vs) := by
  intro ops
  induction ops with
  | nil =>
    intro vs
    cases vs with
    | nil => exact ctxFree_pure _
    | cons v vs => exact ctxFree_errE
  | cons op ops ih =>
    intro vs
    cases vs with
    | nil => exact ctxFree_errE
    | cons v vs => exact ctxFree_bindE (hs op v) (fun v' => ctxFree_mapE _ (ih vs))

theorem ctxFree_encAll {f : Val → E Val} (hf : ∀ v, CtxFree (f v)) : ∀ vs, CtxFree (encAll f vs) := by
  intro vs
  induction vs with
  | nil => exact ctxFree_pure _
  | cons v vs ih => exact ctxFree_bindE (hf v) (fun v' => ctxFree_mapE _ ih)

theorem ctxFree_encPtr {enc : Nat → Val → E Val} (henc : ∀ ty v, CtxFree (enc ty v))
    (g : Guard) (mk : Option Val) (ty? : Option Nat) (v : Val) : CtxFree (encPtr enc g mk ty? v) := by
  cases v with
  | nil =>
    cases g with
    | none => exact ctxFree_panicE
    | val => exact ctxFree_errE
    | skip => exact ctxFree_pure _
    | mat =>
      cases mk with
      | none => exact ctxFree_errE
      | some z =>
        cases ty? with
        | none => exact ctxFree_errE
        | some ty => exact henc ty z
  | msg ty' fs => exact henc ty' _
  | num _ => exact ctxFree_errE
  | str _ => exact ctxFree_errE
  | nums _ => exact ctxFree_errE
  | strs _ => exact ctxFree_errE
  | msgs _ => exact ctxFree_errE

theorem ctxFree_encOp (env : Env) {enc : Nat → Val → E Val} (henc : ∀ ty v, CtxFree (enc ty v))
    (zero : Nat → Val) (all : List Val) (op : Op) (v : Val) : CtxFree (encOp env enc zero all op v) := by
  cases op <;> cases v <;> simp only [encOp] <;>
    first
    | exact ctxFree_errE
    | exact ctxFree_emit _ _
    | exact ctxFree_encPtr henc _ _ _ _
    | (split <;> first | exact henc _ _ | exact ctxFree_errE)
    | exact ctxFree_bindE (ctxFree_emit _ _) (fun _ => ctxFree_mapE _ (ctxFree_encAll (henc _) _))

/-! ### the frame's only in-place write: the length patch -/

theorem patch_mid {a z c bs : Bytes} (h : z.length = bs.length) :
    patch (a ++ z ++ c) a.length bs = a ++ bs ++ c := by
  have h1 : (a ++ z ++ c).take a.length = a := by
    rw [List.append_assoc]; exact List.take_left
  have h2 : (a ++ z ++ c).drop (a.length + bs.length) = c := by
    have : a.length + bs.length = (a ++ z).length := by simp [h]
    rw [this]; exact List.drop_left
  simp only [patch, h1, h2]

theorem drop_pre (pre x : Bytes) : (pre ++ x).drop pre.length = x := List.drop_left

theorem body_len (pre h z body : Bytes) :
    (pre ++ h ++ z ++ body).length - (pre ++ h ++ z).length = body.length := by
  simp only [List.length_append]; omega

/-- the wire length field value the frame encoder computes from the body bytes -/
def frameLen (bodyBytes : Bytes) : Nat := bodyBytes.length % 2 ^ 32

/-- the frame's own bytes, first header byte through last body byte, with the corrected length -/
def frameBytes (fd : FrameDesc) (hdrBytes bodyBytes : Bytes) : Bytes :=
  hdrBytes ++ toE fd.e fd.lenW (frameLen bodyBytes) ++ bodyBytes

/-- evaluation of `encFrame` on an arbitrary buffer from the (context-free) runs of its header and body -/
theorem encFrame_eval {env : Env} {enc : Nat → Val → E Val} {zero : Nat → Val} {fd : FrameDesc} {ty : Nat}
    {fields hv : List Val} {body body' : Val} {hb bb : Bytes}
    (h1 : ∀ pre, encSeq (encOp env enc zero fields) fd.hdr (fields.take fd.hdr.length) pre = .ok (hv, pre ++ hb))
    (h2 : fields[fd.hdr.length + 1]? = some body)
    (h3 : ∀ pre, encPtr enc fd.g ((unionTy env fd.key fd.tbl fields).map zero) (unionTy env fd.key fd.tbl fields) body pre
            = .ok (body', pre ++ bb)) (pre : Bytes) :
    encFrame env enc zero fd ty fields pre =
      match fd.cks with
      | none =>
        if fields.length = fd.hdr.length + 2 then
          .ok (.msg ty (hv ++ [.num (frameLen bb), body']), pre ++ frameBytes fd hb bb)
        else .err
      | some (alg, w) =>
        if fields.length = fd.hdr.length + 3 then
          .ok (.msg ty (hv ++ [.num (frameLen bb), body', .num (cksNat alg (frameBytes fd hb bb))]),
               pre ++ frameBytes fd hb bb ++ toE fd.e w (cksNat alg (frameBytes fd hb bb)))
        else .err := by
  have hlen : (pre ++ hb ++ toE fd.e fd.lenW 0 ++ bb).length - (pre ++ hb ++ toE fd.e fd.lenW 0).length = bb.length :=
    body_len _ _ _ _
  have hpatch : patch (pre ++ hb ++ toE fd.e fd.lenW 0 ++ bb) (pre ++ hb).length (toE fd.e fd.lenW (bb.length % 2 ^ 32))
      = pre ++ hb ++ toE fd.e fd.lenW (bb.length % 2 ^ 32) ++ bb := patch_mid (by simp)
  have hdrop : (pre ++ hb ++ toE fd.e fd.lenW (bb.length % 2 ^ 32) ++ bb).drop pre.length
      = hb ++ toE fd.e fd.lenW (bb.length % 2 ^ 32) ++ bb := by
    have := drop_pre pre (hb ++ toE fd.e fd.lenW (bb.length % 2 ^ 32) ++ bb)
    simpa only [List.append_assoc] using this
  have hassoc : pre ++ hb ++ toE fd.e fd.lenW (bb.length % 2 ^ 32) ++ bb
      = pre ++ (hb ++ toE fd.e fd.lenW (bb.length % 2 ^ 32) ++ bb) := by simp only [List.append_assoc]
  simp only [encFrame, h1 pre, Outcome.bind_ok, h2, h3 (pre ++ hb ++ toE fd.e fd.lenW 0), hlen, hpatch, hdrop,
    frameLen, frameBytes]
  cases fd.cks with
  | none => simp only [hassoc]
  | some p => obtain ⟨alg, w⟩ := p; simp only [hassoc]

theorem ctxFree_encFrame (env : Env) {enc : Nat → Val → E Val} (henc : ∀ ty v, CtxFree (enc ty v))
    (zero : Nat → Val) (fd : FrameDesc) (ty : Nat) (fields : List Val) :
    CtxFree (encFrame env enc zero fd ty fields) := by
  rcases ctxFree_encSeq (ctxFree_encOp env henc zero fields) fd.hdr (fields.take fd.hdr.length) with
    ⟨hv, hb, h1⟩ | h1 | h1
  · cases h2 : fields[fd.hdr.length + 1]? with
    | none => exact .inr (.inl fun pre => by simp only [encFrame, h1 pre, Outcome.bind_ok, h2])
    | some body =>
      rcases ctxFree_encPtr henc fd.g ((unionTy env fd.key fd.tbl fields).map zero)
          (unionTy env fd.key fd.tbl fields) body with ⟨body', bb, h3⟩ | h3 | h3
      · have hev := encFrame_eval (ty := ty) h1 h2 h3
        cases hc : fd.cks with
        | none =>
          simp only [hc] at hev
          by_cases hl : fields.length = fd.hdr.length + 2
          · exact .inl ⟨_, _, fun pre => by rw [hev pre, if_pos hl]⟩
          · exact .inr (.inl fun pre => by rw [hev pre, if_neg hl])
        | some p =>
          obtain ⟨alg, w⟩ := p
          simp only [hc] at hev
          by_cases hl : fields.length = fd.hdr.length + 3
          · exact .inl ⟨_, _, fun pre => by rw [hev pre, if_pos hl, List.append_assoc]⟩
          · exact .inr (.inl fun pre => by rw [hev pre, if_neg hl])
      · exact .inr (.inl fun pre => by simp only [encFrame, h1 pre, Outcome.bind_ok, h2, h3, Outcome.bind_err])
      · exact .inr (.inr fun pre => by simp only [encFrame, h1 pre, Outcome.bind_ok, h2, h3, Outcome.bind_panic])
  · exact .inr (.inl fun pre => by simp only [encFrame, h1 pre, Outcome.bind_err])
  · exact .inr (.inr fun pre => by simp only [encFrame, h1 pre, Outcome.bind_panic])

theorem ctxFree_encTy (env : Env) : ∀ f ty v, CtxFree (encTy env f ty v) := by
  intro f
  induction f with
  | zero => intro ty v; simp only [encTy]; exact ctxFree_errE
  | succ f ih =>
    intro ty v
    cases v with
    | msg ty' fields =>
      simp only [encTy]
      split
      · split
        · exact ctxFree_errE
        · split
          · exact ctxFree_mapE _ (ctxFree_encSeq (ctxFree_encOp env ih _ _) _ _)
          · exact ctxFree_encFrame env ih _ _ _ _
      · exact ctxFree_errE
    | nil => simp only [encTy]; exact ctxFree_panicE
    | num _ => simp only [encTy]; exact ctxFree_errE
    | str _ => simp only [encTy]; exact ctxFree_errE
    | nums _ => simp only [encTy]; exact ctxFree_errE
    | strs _ => simp only [encTy]; exact ctxFree_errE
    | msgs _ => simp only [encTy]; exact ctxFree_errE

/-- C06: a successful encode leaves every byte already in the buffer untouched -/
theorem enc_append_only {env : Env} {f ty : Nat} {v v' : Val} {pre out : Bytes}
    (h : encTy env f ty v pre = .ok (v', out)) : ∃ bs, out = pre ++ bs := by
  obtain ⟨bs, rfl, _⟩ := (ctxFree_encTy env f ty v).of_ok h
  exact ⟨bs, rfl⟩

/-- C06: the bytes appended and the updated message do not depend on what the buffer held -/
theorem enc_context_free {env : Env} {f ty : Nat} {v v' : Val} {pre bs : Bytes}
    (h : encTy env f ty v pre = .ok (v', pre ++ bs)) : ∀ pre', encTy env f ty v pre' = .ok (v', pre' ++ bs) := by
  obtain ⟨bs', hbs, g⟩ := (ctxFree_encTy env f ty v).of_ok h
  have : bs = bs' := List.append_cancel_left hbs
  subst this
  exact g

/-- failure and panic are context-free as well -/
theorem enc_err_context_free {env : Env} {f ty : Nat} {v : Val} {pre : Bytes}
    (h : encTy env f ty v pre = .err) : ∀ pre', encTy env f ty v pre' = .err :=
  (ctxFree_encTy env f ty v).of_err h

theorem enc_panic_context_free {env : Env} {f ty : Nat} {v : Val} {pre : Bytes}
    (h : encTy env f ty v pre = .panic) : ∀ pre', encTy env f ty v pre' = .panic :=
  (ctxFree_encTy env f ty v).of_panic h

/-- encode a list of messages one after another into the same buffer -/
def encMany (env : Env) (f : Nat) : List (Nat × Val) → E (List Val)
  | [] => fun buf => .ok ([], buf)
  | m :: ms => bindE (encTy env f m.1 m.2) (fun v' => mapE (fun vs' => v' :: vs') (encMany env f ms))

theorem ctxFree_encMany (env : Env) (f : Nat) : ∀ ms, CtxFree (encMany env f ms) := by
  intro ms
  induction ms with
  | nil => exact ctxFree_pure _
  | cons m ms ih => exact ctxFree_bindE (ctxFree_encTy env f _ _) (fun _ => ctxFree_mapE _ ih)

/-- each message encoded alone into the empty buffer: updated message and bytes -/
def encEach (env : Env) (f : Nat) : List (Nat × Val) → Outcome (List (Val × Bytes))
  | [] => .ok []
  | m :: ms => (encTy env f m.1 m.2 []).bind (fun r => (encEach env f ms).map (fun rs => r :: rs))

/-- C06: encoding messages back to back into a buffer behaves (success, failure and panic alike) as
    encoding each alone into the empty buffer; on success the buffer is `pre ++` the concatenation of the
    individual encodings and the updated messages are the individually updated messages -/
theorem enc_concat (env : Env) (f : Nat) (ms : List (Nat × Val)) (pre : Bytes) :
    encMany env f ms pre =
      (encEach env f ms).map (fun rs => (rs.map (·.1), pre ++ (rs.map (·.2)).flatten)) := by
  induction ms generalizing pre with
  | nil => simp [encMany, encEach]
  | cons m ms ih =>
    rcases ctxFree_encTy env f m.1 m.2 with ⟨a, bs, g⟩ | g | g
    · have g0 := g []
      simp only [List.nil_append] at g0
      simp only [encMany, encEach, bindE, mapE, g pre, g0, Outcome.bind_ok, ih]
      cases encEach env f ms <;> simp [List.append_assoc]
    · simp only [encMany, encEach, bindE, g pre, g [], Outcome.bind_err, Outcome.map_err]
    · simp only [encMany, encEach, bindE, g pre, g [], Outcome.bind_panic, Outcome.map_panic]

/-- `enc_concat` read on a successful run -/
theorem enc_concat_ok {env : Env} {f : Nat} {ms : List (Nat × Val)} {pre out : Bytes} {vs' : List Val}
    (h : encMany env f ms pre = .ok (vs', out)) :
    ∃ rs, encEach env f ms = .ok rs ∧ vs' = rs.map (·.1) ∧ out = pre ++ (rs.map (·.2)).flatten := by
  rw [enc_concat, Outcome.map_eq_ok] at h
  obtain ⟨rs, h1, h2⟩ := h
  simp only [Prod.mk.injEq] at h2
  exact ⟨rs, h1, h2.1.symm, h2.2.symm⟩

/-! ## B. Frame shape: length and checksum (C04, C05) -/

theorem encSeq_length {step : Op → Val → E Val} {ops : List Op} {vs vs' : List Val} {pre out : Bytes}
    (h : encSeq step ops vs pre = .ok (vs', out)) : vs.length = ops.length ∧ vs'.length = ops.length := by
  induction ops generalizing vs vs' pre out with
  | nil =>
    cases vs with
    | nil => simp only [encSeq, Outcome.ok.injEq, Prod.mk.injEq] at h; obtain ⟨rfl, _⟩ := h; exact ⟨rfl, rfl⟩
    | cons v vs => simp only [encSeq, errE] at h; cases h
  | cons op ops ih =>
    cases vs with
    | nil => simp only [encSeq, errE] at h; cases h
    | cons v vs =>
      simp only [encSeq, bindE_eq_ok, mapE_eq_ok] at h
      obtain ⟨v1, mid, _, vs1, h2, rfl⟩ := h
      have := ih h2
      simp only [List.length_cons]; omega

theorem encAll_length {f : Val → E Val} {vs vs' : List Val} {pre out : Bytes}
    (h : encAll f vs pre = .ok (vs', out)) : vs'.length = vs.length := by
  induction vs generalizing vs' pre out with
  | nil => simp only [encAll, Outcome.ok.injEq, Prod.mk.injEq] at h; obtain ⟨rfl, _⟩ := h; rfl
  | cons v vs ih =>
    simp only [encAll, bindE_eq_ok, mapE_eq_ok] at h
    obtain ⟨v1, mid, _, vs1, h2, rfl⟩ := h
    simp only [List.length_cons, ih h2]

theorem encTy_frame {env : Env} {f ty : Nat} {td : TyDef} {fd : FrameDesc} (fields : List Val)
    (htd : env.types[ty]? = some td) (hfr : td.frame = some fd) :
    encTy env (f + 1) ty (.msg ty fields) = encFrame env (encTy env f) (zeroTy env f) fd ty fields := by
  simp only [encTy, htd, hfr, if_true]

/-- C04/C05: the bytes and the updated message a self-measuring frame's encoder produces, in terms of the
    header's and the body's own encodings (into the empty buffer) -/
theorem frame_shape {env : Env} {f ty : Nat} {td : TyDef} {fd : FrameDesc} {fields : List Val}
    {pre out : Bytes} {v' : Val}
    (htd : env.types[ty]? = some td) (hfr : td.frame = some fd)
    (h : encTy env (f + 1) ty (.msg ty fields) pre = .ok (v', out)) :
    ∃ hv hdrBytes body body' bodyBytes,
      encSeq (encOp env (encTy env f) (zeroTy env f) fields) fd.hdr (fields.take fd.hdr.length) []
        = .ok (hv, hdrBytes) ∧
      fields[fd.hdr.length + 1]? = some body ∧
      encPtr (encTy env f) fd.g ((unionTy env fd.key fd.tbl fields).map (zeroTy env f))
        (unionTy env fd.key fd.tbl fields) body [] = .ok (body', bodyBytes) ∧
      (fd.cks = none →
        fields.length = fd.hdr.length + 2 ∧
        out = pre ++ frameBytes fd hdrBytes bodyBytes ∧
        v' = .msg ty (hv ++ [.num (frameLen bodyBytes), body'])) ∧
      (∀ alg w, fd.cks = some (alg, w) →
        fields.length = fd.hdr.length + 3 ∧
        out = pre ++ frameBytes fd hdrBytes bodyBytes ++ toE fd.e w (cksNat alg (frameBytes fd hdrBytes bodyBytes)) ∧
        v' = .msg ty (hv ++ [.num (frameLen bodyBytes), body', .num (cksNat alg (frameBytes fd hdrBytes bodyBytes))])) := by
  rw [encTy_frame fields htd hfr] at h
  have henc := ctxFree_encTy env f
  rcases ctxFree_encSeq (ctxFree_encOp env henc (zeroTy env f) fields) fd.hdr (fields.take fd.hdr.length) with
    ⟨hv, hb, h1⟩ | h1 | h1
  · cases h2 : fields[fd.hdr.length + 1]? with
    | none =>
      have : encFrame env (encTy env f) (zeroTy env f) fd ty fields pre = .err := by
        simp only [encFrame, h1 pre, Outcome.bind_ok, h2]
      rw [this] at h; cases h
    | some body =>
      rcases ctxFree_encPtr henc fd.g ((unionTy env fd.key fd.tbl fields).map (zeroTy env f))
          (unionTy env fd.key fd.tbl fields) body with ⟨body', bb, h3⟩ | h3 | h3
      · rw [encFrame_eval h1 h2 h3 pre] at h
        have h10 := h1 []
        have h30 := h3 []
        simp only [List.nil_append] at h10 h30
        refine ⟨hv, hb, body, body', bb, h10, rfl, h30, ?_, ?_⟩
        · intro hc
          simp only [hc] at h
          split at h
          · simp only [Outcome.ok.injEq, Prod.mk.injEq] at h
            exact ⟨by assumption, h.2.symm, h.1.symm⟩
          · cases h
        · intro alg w hc
          simp only [hc] at h
          split at h
          · simp only [Outcome.ok.injEq, Prod.mk.injEq] at h
            exact ⟨by assumption, h.2.symm, h.1.symm⟩
          · cases h
      · have : encFrame env (encTy env f) (zeroTy env f) fd ty fields pre = .err := by
          simp only [encFrame, h1 pre, Outcome.bind_ok, h2, h3, Outcome.bind_err]
        rw [this] at h; cases h
      · have : encFrame env (encTy env f) (zeroTy env f) fd ty fields pre = .panic := by
          simp only [encFrame, h1 pre, Outcome.bind_ok, h2, h3, Outcome.bind_panic]
        rw [this] at h; cases h
  · have : encFrame env (encTy env f) (zeroTy env f) fd ty fields pre = .err := by
      simp only [encFrame, h1 pre, Outcome.bind_err]
    rw [this] at h; cases h
  · have : encFrame env (encTy env f) (zeroTy env f) fd ty fields pre = .panic := by
      simp only [encFrame, h1 pre, Outcome.bind_panic]
    rw [this] at h; cases h

theorem frameBytes_assoc (fd : FrameDesc) (pre hb bb t : Bytes) :
    pre ++ frameBytes fd hb bb ++ t = pre ++ hb ++ toE fd.e fd.lenW (frameLen bb) ++ bb ++ t := by
  simp only [frameBytes, List.append_assoc]

/-- `frame_shape` with the two trailer cases merged: `trailer`/`vt` are empty without a checksum -/
theorem frame_shape_uniform {env : Env} {f ty : Nat} {td : TyDef} {fd : FrameDesc} {fields : List Val}
    {pre out : Bytes} {v' : Val}
    (htd : env.types[ty]? = some td) (hfr : td.frame = some fd)
    (h : encTy env (f + 1) ty (.msg ty fields) pre = .ok (v', out)) :
    ∃ hv hdrBytes body body' bodyBytes trailer vt,
      encSeq (encOp env (encTy env f) (zeroTy env f) fields) fd.hdr (fields.take fd.hdr.length) []
        = .ok (hv, hdrBytes) ∧
      fields[fd.hdr.length + 1]? = some body ∧
      encPtr (encTy env f) fd.g ((unionTy env fd.key fd.tbl fields).map (zeroTy env f))
        (unionTy env fd.key fd.tbl fields) body [] = .ok (body', bodyBytes) ∧
      hv.length = fd.hdr.length ∧
      out = pre ++ hdrBytes ++ toE fd.e fd.lenW (frameLen bodyBytes) ++ bodyBytes ++ trailer ∧
      v' = .msg ty (hv ++ .num (frameLen bodyBytes) :: body' :: vt) := by
  obtain ⟨hv, hb, body, body', bb, h1, h2, h3, hn, hs⟩ := frame_shape htd hfr h
  have hl := (encSeq_length h1).2
  cases hc : fd.cks with
  | none =>
    obtain ⟨_, rfl, rfl⟩ := hn hc
    exact ⟨hv, hb, body, body', bb, [], [], h1, h2, h3, hl,
      by rw [← frameBytes_assoc, List.append_nil], rfl⟩
  | some p =>
    obtain ⟨alg, w⟩ := p
    obtain ⟨_, rfl, rfl⟩ := hs alg w hc
    exact ⟨hv, hb, body, body', bb, _, [_], h1, h2, h3, hl, frameBytes_assoc fd pre hb bb _, rfl⟩

/-- C04: with a 4-byte length field and a body shorter than 2^32 bytes, the length on the wire decodes to
    exactly the number of body bytes, the body bytes follow it, and the returned message reports the same
    number — whatever stale length `fields[fd.hdr.length]` the caller supplied and whatever `pre` held -/
theorem frame_len_exact {env : Env} {f ty : Nat} {td : TyDef} {fd : FrameDesc} {fields : List Val}
    {pre out : Bytes} {v' : Val}
    (htd : env.types[ty]? = some td) (hfr : td.frame = some fd) (hw : fd.lenW = 4)
    (h : encTy env (f + 1) ty (.msg ty fields) pre = .ok (v', out)) :
    ∃ hv hdrBytes body body' bodyBytes,
      encSeq (encOp env (encTy env f) (zeroTy env f) fields) fd.hdr (fields.take fd.hdr.length) []
        = .ok (hv, hdrBytes) ∧
      fields[fd.hdr.length + 1]? = some body ∧
      encPtr (encTy env f) fd.g ((unionTy env fd.key fd.tbl fields).map (zeroTy env f))
        (unionTy env fd.key fd.tbl fields) body [] = .ok (body', bodyBytes) ∧
      (bodyBytes.length < 2 ^ 32 →
        ofE fd.e (toE fd.e 4 (frameLen bodyBytes)) = bodyBytes.length ∧
        ofE fd.e ((out.drop (pre.length + hdrBytes.length)).take 4) = bodyBytes.length ∧
        (out.drop (pre.length + hdrBytes.length + 4)).take bodyBytes.length = bodyBytes ∧
        ∃ fs, v' = .msg ty fs ∧ fs[fd.hdr.length]? = some (.num bodyBytes.length)) := by
  obtain ⟨hv, hb, body, body', bb, trailer, vt, h1, h2, h3, hl, rfl, rfl⟩ := frame_shape_uniform htd hfr h
  refine ⟨hv, hb, body, body', bb, h1, h2, h3, ?_⟩
  intro hlt
  have hfl : frameLen bb = bb.length := Nat.mod_eq_of_lt hlt
  have hdec : ofE fd.e (toE fd.e 4 bb.length) = bb.length := ofE_toE_of_lt _ _ _ (by omega)
  rw [hw, hfl]
  refine ⟨hdec, ?_, ?_, _, rfl, ?_⟩
  · have e1 : pre ++ hb ++ toE fd.e 4 bb.length ++ bb ++ trailer
        = (pre ++ hb) ++ (toE fd.e 4 bb.length ++ (bb ++ trailer)) := by simp only [List.append_assoc]
    have e2 : pre.length + hb.length = (pre ++ hb).length := by simp
    rw [e1, e2, List.drop_left]
    rw [List.take_left' (by simp)]
    exact hdec
  · have e1 : pre ++ hb ++ toE fd.e 4 bb.length ++ bb ++ trailer
        = (pre ++ hb ++ toE fd.e 4 bb.length) ++ (bb ++ trailer) := by simp only [List.append_assoc]
    have e2 : pre.length + hb.length + 4 = (pre ++ hb ++ toE fd.e 4 bb.length).length := by
      simp only [List.length_append, toE_length]
    rw [e1, e2, List.drop_left, List.take_left]
  · rw [← hl]; simp

/-- C05: the checksum trailer is `cksNat alg` of exactly the frame's own bytes — first header byte through
    last body byte, with the corrected length, without `pre` — and the returned message reports the same
    value, whatever stale checksum (and length) the caller supplied -/
theorem frame_cks_exact {env : Env} {f ty : Nat} {td : TyDef} {fd : FrameDesc} {fields : List Val}
    {pre out : Bytes} {v' : Val} {alg : Alg} {w : Nat}
    (htd : env.types[ty]? = some td) (hfr : td.frame = some fd) (hc : fd.cks = some (alg, w))
    (h : encTy env (f + 1) ty (.msg ty fields) pre = .ok (v', out)) :
    ∃ hv hdrBytes body body' bodyBytes,
      encSeq (encOp env (encTy env f) (zeroTy env f) fields) fd.hdr (fields.take fd.hdr.length) []
        = .ok (hv, hdrBytes) ∧
      fields[fd.hdr.length + 1]? = some body ∧
      encPtr (encTy env f) fd.g ((unionTy env fd.key fd.tbl fields).map (zeroTy env f))
        (unionTy env fd.key fd.tbl fields) body [] = .ok (body', bodyBytes) ∧
      out = pre ++ frameBytes fd hdrBytes bodyBytes ++ toE fd.e w (cksNat alg (frameBytes fd hdrBytes bodyBytes)) ∧
      (out.drop pre.length).take (hdrBytes.length + fd.lenW + bodyBytes.length) = frameBytes fd hdrBytes bodyBytes ∧
      out.drop (pre.length + (hdrBytes.length + fd.lenW + bodyBytes.length))
        = toE fd.e w (cksNat alg (frameBytes fd hdrBytes bodyBytes)) ∧
      ofE fd.e (out.drop (pre.length + (hdrBytes.length + fd.lenW + bodyBytes.length)))
        = cksNat alg (frameBytes fd hdrBytes bodyBytes) % 256 ^ w ∧
      ∃ fs, v' = .msg ty fs ∧ fs[fd.hdr.length]? = some (.num (frameLen bodyBytes)) ∧
        fs[fd.hdr.length + 2]? = some (.num (cksNat alg (frameBytes fd hdrBytes bodyBytes))) := by
  obtain ⟨hv, hb, body, body', bb, h1, h2, h3, _, hs⟩ := frame_shape htd hfr h
  obtain ⟨_, rfl, rfl⟩ := hs alg w hc
  have hl := (encSeq_length h1).2
  have hfl : (frameBytes fd hb bb).length = hb.length + fd.lenW + bb.length := by
    simp only [frameBytes, List.length_append, toE_length]
  have hdrop : (pre ++ frameBytes fd hb bb ++ toE fd.e w (cksNat alg (frameBytes fd hb bb))).drop
      (pre.length + (hb.length + fd.lenW + bb.length)) = toE fd.e w (cksNat alg (frameBytes fd hb bb)) := by
    have e2 : pre.length + (hb.length + fd.lenW + bb.length) = (pre ++ frameBytes fd hb bb).length := by
      simp only [List.length_append, hfl]
    rw [e2, List.drop_left]
  refine ⟨hv, hb, body, body', bb, h1, h2, h3, rfl, ?_, hdrop, ?_, _, rfl, ?_, ?_⟩
  · rw [List.append_assoc, List.drop_left, ← hfl, List.take_left]
  · rw [hdrop, ofE_toE]
  · rw [← hl]; simp
  · rw [← hl]; simp

/-! ## D. Encoding never panics (C17) -/

/-- an encoder step that panics on no buffer -/
def NoPanicE (x : E α) : Prop := ∀ pre, x pre ≠ .panic

theorem noPanic_errE : NoPanicE (errE : E α) := fun _ h => by cases h
theorem noPanic_pure (a : α) : NoPanicE (fun buf => .ok (a, buf) : E α) := fun _ h => by cases h

theorem noPanic_emit (v : α) {o : Outcome Bytes} (ho : o ≠ .panic) : NoPanicE (emit v o) := by
  intro pre h
  cases o with
  | ok bs => cases h
  | err => cases h
  | panic => exact ho rfl

theorem noPanic_bindE {x : E α} {f : α → E β} (hx : NoPanicE x) (hf : ∀ a, NoPanicE (f a)) :
    NoPanicE (bindE x f) := by
  intro pre h
  simp only [bindE] at h
  cases h1 : x pre with
  | ok p => rw [h1] at h; exact hf p.1 p.2 h
  | err => rw [h1] at h; cases h
  | panic => exact hx pre h1

theorem noPanic_mapE {x : E α} (f : α → β) (hx : NoPanicE x) : NoPanicE (mapE f x) := by
  intro pre h
  simp only [mapE] at h
  cases h1 : x pre with
  | ok p => rw [h1] at h; cases h
  | err => rw [h1] at h; cases h
  | panic => exact hx pre h1

theorem map_ne_panic {o : Outcome α} (f : α → β) (h : o ≠ .panic) : o.map f ≠ .panic := by
  cases o with
  | ok a => intro h'; cases h'
  | err => intro h'; cases h'
  | panic => exact absurd rfl h

theorem bind_ne_panic {o : Outcome α} {f : α → Outcome β} (h : o ≠ .panic) (hf : ∀ a, f a ≠ .panic) :
    o.bind f ≠ .panic := by
  cases o with
  | ok a => exact hf a
  | err => intro h'; cases h'
  | panic => exact absurd rfl h

theorem writeLen_ne_panic_E (w : Nat) (e : Endian) (n : Nat) : writeLen w e n ≠ .panic := by
  unfold writeLen; split <;> (intro h; cases h)

theorem writeVstr_ne_panic_E (pw : Nat) (e : Endian) (s : Bytes) : writeVstr pw e s ≠ .panic :=
  map_ne_panic _ (writeLen_ne_panic_E _ _ _)

theorem writeAll_ne_panic {f : α → Outcome Bytes} (hf : ∀ a, f a ≠ .panic) (l : List α) :
    writeAll f l ≠ .panic := by
  induction l with
  | nil => intro h; cases h
  | cons a as ih => exact bind_ne_panic (hf a) (fun _ => map_ne_panic _ ih)

theorem writeList_ne_panic (cw : Nat) (e : Endian) {f : α → Outcome Bytes} (hf : ∀ a, f a ≠ .panic)
    (l : List α) : writeList cw e f l ≠ .panic :=
  bind_ne_panic (writeLen_ne_panic_E _ _ _) (fun _ => map_ne_panic _ (writeAll_ne_panic hf l))

theorem noPanic_encSeq {step : Op → Val → E Val} :
    ∀ ops vs, (∀ op ∈ ops, ∀ v ∈ vs, NoPanicE (step op v)) → NoPanicE (encSeq step ops vs) := by
  intro ops
  induction ops with
  | nil =>
    intro vs _
    cases vs with
    | nil => exact noPanic_pure _
    | cons v vs => exact noPanic_errE
  | cons op ops ih =>
    intro vs hs
    cases vs with
    | nil => exact noPanic_errE
    | cons v vs =>
      exact noPanic_bindE (hs op (List.mem_cons_self ..) v (List.mem_cons_self ..))
        (fun _ => noPanic_mapE _ (ih vs (fun op' ho v' hv' =>
          hs op' (List.mem_cons_of_mem _ ho) v' (List.mem_cons_of_mem _ hv'))))

theorem noPanic_encAll {f : Val → E Val} : ∀ vs, (∀ v ∈ vs, NoPanicE (f v)) → NoPanicE (encAll f vs) := by
  intro vs
  induction vs with
  | nil => intro _; exact noPanic_pure _
  | cons v vs ih =>
    intro hs
    exact noPanic_bindE (hs v (List.mem_cons_self ..))
      (fun _ => noPanic_mapE _ (ih (fun v' hv' => hs v' (List.mem_cons_of_mem _ hv'))))

/-! ### `noNilElems` -/

theorem noNilElemsL_mem {l : List Val} {s : Bool} (h : noNilElemsL l s = true) :
    ∀ v ∈ l, noNilElems v = true ∧ (s = true → v ≠ .nil) := by
  induction l with
  | nil => intro v hv; cases hv
  | cons a as ih =>
    simp only [noNilElemsL, Bool.and_eq_true] at h
    obtain ⟨⟨h1, h2⟩, h3⟩ := h
    intro v hv
    rcases List.mem_cons.mp hv with rfl | hv
    · refine ⟨h2, ?_⟩
      rintro rfl rfl
      simp at h1
    · exact ih h3 v hv

theorem noNilElemsL_false_of {l : List Val} (h : ∀ v ∈ l, noNilElems v = true) : noNilElemsL l false = true := by
  induction l with
  | nil => simp only [noNilElemsL]
  | cons a as ih =>
    simp only [noNilElemsL, Bool.and_eq_true]
    exact ⟨⟨trivial, h a (List.mem_cons_self ..)⟩, ih (fun v hv => h v (List.mem_cons_of_mem _ hv))⟩

/-- zero values (`&T{}`) contain no nil element: their repeating groups are empty -/
theorem noNilElems_zeroTy (env : Env) : ∀ f ty, noNilElems (zeroTy env f ty) = true := by
  intro f
  induction f with
  | zero => intro ty; simp only [zeroTy, noNilElems]
  | succ f ih =>
    intro ty
    simp only [zeroTy]
    split
    · simp only [noNilElems]
      apply noNilElemsL_false_of
      intro v hv
      obtain ⟨op, _, rfl⟩ := List.mem_map.mp hv
      cases op <;> simp only [zeroOp, noNilElems, noNilElemsL]
      split
      · exact ih _
      · simp only [noNilElems]
    · simp only [noNilElems]

/-! ### side conditions -/

/-- the header statements of every self-measuring frame are guarded and refer to existing types
    (`guardsOK`/`refsOK` look at `enc`/`dec` only; a frame type's encoder runs `fd.hdr` instead).
    Implied by `mirrorOK`, which forces header statements to be scalars. -/
def Env.hdrsOK (env : Env) : Bool :=
  env.types.all (fun td =>
    match td.frame with
    | some fd => fd.hdr.all (fun op => op.guardOK && op.refsOK env)
    | none => true)

theorem hdrsOK_of_mirrorOK {env : Env} (hm : env.mirrorOK = true) : env.hdrsOK = true := by
  simp only [Env.hdrsOK, List.all_eq_true]
  intro td htd
  have := List.all_eq_true.mp hm td htd
  cases hfr : td.frame with
  | none => rfl
  | some fd =>
    simp only [TyDef.mirrorOK, hfr, Bool.and_eq_true, List.all_eq_true] at this
    simp only [List.all_eq_true, Bool.and_eq_true]
    intro op hop
    have hs := this.1.1.1.2 op hop
    cases op <;> simp_all [Op.isScalar, Op.guardOK, Op.refsOK]

theorem lookupKey_mem {k : Key} {l : List (Key × Nat)} {t : Nat} (h : lookupKey k l = some t) :
    ∃ k', (k', t) ∈ l := by
  induction l with
  | nil => cases h
  | cons p ps ih =>
    obtain ⟨k', t'⟩ := p
    simp only [lookupKey] at h
    split at h
    · cases h; exact ⟨k', List.mem_cons_self ..⟩
    · obtain ⟨k'', hk⟩ := ih h; exact ⟨k'', List.mem_cons_of_mem _ hk⟩

/-- a registered body type exists (from the table half of `refsOK`) -/
theorem unionTy_lt {env : Env} (hr : env.refsOK = true) {key tbl : Nat} {all : List Val} {t : Nat}
    (h : unionTy env key tbl all = some t) : t < env.types.length := by
  simp only [unionTy, Option.bind_eq_some_iff] at h
  obtain ⟨k, _, hk⟩ := h
  simp only [Env.lookup] at hk
  split at hk
  · rename_i tb htb
    obtain ⟨k', hmem⟩ := lookupKey_mem hk
    rw [List.mem_reverse] at hmem
    simp only [Env.refsOK, Bool.and_eq_true, List.all_eq_true] at hr
    have := hr.2 tb (List.mem_of_getElem? htb) (k', t) hmem
    simpa using this
  · cases hk

/-! ### the compositional no-panic lemmas -/

theorem noPanic_encPtr {enc : Nat → Val → E Val}
    (henc : ∀ ty v, v ≠ .nil → noNilElems v = true → NoPanicE (enc ty v))
    {g : Guard} (hg : g ≠ .none) {mk : Option Val} {ty? : Option Nat}
    (hmk : ∀ z t, mk = some z → ty? = some t → NoPanicE (enc t z))
    {v : Val} (hv : noNilElems v = true) : NoPanicE (encPtr enc g mk ty? v) := by
  cases v with
  | nil =>
    cases g with
    | none => exact absurd rfl hg
    | val => exact noPanic_errE
    | skip => exact noPanic_pure _
    | mat =>
      cases mk with
      | none => exact noPanic_errE
      | some z =>
        cases ty? with
        | none => exact noPanic_errE
        | some ty => exact hmk z ty rfl rfl
  | msg ty' fs => exact henc ty' _ (fun h => by cases h) hv
  | num _ => exact noPanic_errE
  | str _ => exact noPanic_errE
  | nums _ => exact noPanic_errE
  | strs _ => exact noPanic_errE
  | msgs _ => exact noPanic_errE

theorem noPanic_encOp {env : Env} (hr : env.refsOK = true) {enc : Nat → Val → E Val} {zero : Nat → Val}
    (henc : ∀ ty v, v ≠ .nil → noNilElems v = true → NoPanicE (enc ty v))
    (hz : ∀ t, t < env.types.length → NoPanicE (enc t (zero t)))
    (all : List Val) {op : Op} (hg : op.guardOK = true) (hor : op.refsOK env = true)
    {v : Val} (hv : noNilElems v = true) : NoPanicE (encOp env enc zero all op v) := by
  cases op with
  | scalar w e => cases v <;> simp only [encOp] <;> first | exact noPanic_errE | exact noPanic_emit _ (fun h => by cases h)
  | fixed n pad left => cases v <;> simp only [encOp] <;> first | exact noPanic_errE | exact noPanic_emit _ (fun h => by cases h)
  | vstr pw e => cases v <;> simp only [encOp] <;> first | exact noPanic_errE | exact noPanic_emit _ (writeVstr_ne_panic_E _ _ _)
  | nums cw w e =>
    cases v <;> simp only [encOp] <;>
      first | exact noPanic_errE | exact noPanic_emit _ (writeList_ne_panic _ _ (fun _ h => by cases h) _)
  | fixeds cw n pad left e =>
    cases v <;> simp only [encOp] <;>
      first | exact noPanic_errE | exact noPanic_emit _ (writeList_ne_panic _ _ (fun _ h => by cases h) _)
  | vstrs cw pw e =>
    cases v <;> simp only [encOp] <;>
      first | exact noPanic_errE | exact noPanic_emit _ (writeList_ne_panic _ _ (writeVstr_ne_panic_E _ _) _)
  | «opaque» => cases v <;> simp only [encOp] <;> exact noPanic_errE
  | nested ty g =>
    have hty : ty < env.types.length := by simpa [Op.refsOK] using hor
    have hgn : g ≠ .none := by
      rintro rfl; simp [Op.guardOK] at hg
    cases v with
    | msg ty' fs =>
      simp only [encOp]
      split
      · exact henc _ _ (fun h => by cases h) hv
      · exact noPanic_errE
    | nil =>
      simp only [encOp]
      exact noPanic_encPtr henc hgn (fun z t h1 h2 => by cases h1; cases h2; exact hz _ hty) hv
    | num _ => simp only [encOp]; exact noPanic_errE
    | str _ => simp only [encOp]; exact noPanic_errE
    | nums _ => simp only [encOp]; exact noPanic_errE
    | strs _ => simp only [encOp]; exact noPanic_errE
    | msgs _ => simp only [encOp]; exact noPanic_errE
  | objs cw ty e =>
    cases v with
    | msgs l =>
      simp only [encOp]
      refine noPanic_bindE (noPanic_emit _ (writeLen_ne_panic_E _ _ _)) (fun _ => noPanic_mapE _ ?_)
      apply noPanic_encAll
      intro v hvl
      simp only [noNilElems] at hv
      obtain ⟨h1, h2⟩ := noNilElemsL_mem hv v hvl
      exact henc ty v (h2 rfl) h1
    | nil => simp only [encOp]; exact noPanic_errE
    | msg _ _ => simp only [encOp]; exact noPanic_errE
    | num _ => simp only [encOp]; exact noPanic_errE
    | str _ => simp only [encOp]; exact noPanic_errE
    | nums _ => simp only [encOp]; exact noPanic_errE
    | strs _ => simp only [encOp]; exact noPanic_errE
  | union key tbl g =>
    have hgn : g ≠ .none := by
      rintro rfl; simp [Op.guardOK] at hg
    have : encOp env enc zero all (.union key tbl g) v =
        encPtr enc g ((unionTy env key tbl all).map zero) (unionTy env key tbl all) v := by
      cases v <;> simp only [encOp]
    rw [this]
    refine noPanic_encPtr henc hgn (fun z t h1 h2 => ?_) hv
    rw [h2] at h1
    simp only [Option.map_some, Option.some.injEq] at h1
    subst h1
    exact hz t (unionTy_lt hr h2)

theorem noPanic_encFrame {env : Env} {enc : Nat → Val → E Val} {zero : Nat → Val} {fd : FrameDesc} {ty : Nat}
    {fields : List Val}
    (hhdr : NoPanicE (encSeq (encOp env enc zero fields) fd.hdr (fields.take fd.hdr.length)))
    (hbody : ∀ body, fields[fd.hdr.length + 1]? = some body →
      NoPanicE (encPtr enc fd.g ((unionTy env fd.key fd.tbl fields).map zero) (unionTy env fd.key fd.tbl fields) body)) :
    NoPanicE (encFrame env enc zero fd ty fields) := by
  intro pre
  rcases h1 : encSeq (encOp env enc zero fields) fd.hdr (fields.take fd.hdr.length) pre with ⟨hv, b1⟩ | _ | _
  · cases h2 : fields[fd.hdr.length + 1]? with
    | none => simp only [encFrame, h1, Outcome.bind_ok, h2]; intro h; cases h
    | some body =>
      rcases h3 : encPtr enc fd.g ((unionTy env fd.key fd.tbl fields).map zero) (unionTy env fd.key fd.tbl fields)
        body (b1 ++ toE fd.e fd.lenW 0) with ⟨body', b3⟩ | _ | _
      · simp only [encFrame, h1, Outcome.bind_ok, h2, h3]
        cases fd.cks with
        | none => simp only; split <;> (intro h; cases h)
        | some p => simp only; split <;> (intro h; cases h)
      · simp only [encFrame, h1, Outcome.bind_ok, h2, h3, Outcome.bind_err]; intro h; cases h
      · exact absurd h3 (hbody body h2 _)
  · simp only [encFrame, h1, Outcome.bind_err]; intro h; cases h
  · exact absurd h1 (hhdr pre)

/-- C17, general form: with every nil-able field guarded (`guardsOK`, `hdrsOK`) and every type reference
    in range (`refsOK`, `hdrsOK`), encoding any non-nil value without nil ELEMENTS never panics -/
theorem noPanic_encTy {env : Env} (hg : env.guardsOK = true) (hr : env.refsOK = true)
    (hh : env.hdrsOK = true) :
    ∀ f ty v, v ≠ .nil → noNilElems v = true → NoPanicE (encTy env f ty v) := by
  intro f
  induction f with
  | zero => intro ty v _ _; simp only [encTy]; exact noPanic_errE
  | succ f ih =>
    have hz : ∀ t, t < env.types.length → NoPanicE (encTy env f t (zeroTy env f t)) := by
      intro t ht
      cases f with
      | zero => simp only [encTy]; exact noPanic_errE
      | succ f' =>
        apply ih
        · simp only [zeroTy, List.getElem?_eq_getElem ht]
          intro h; cases h
        · exact noNilElems_zeroTy env _ _
    intro ty v hnn hv
    cases v with
    | msg ty' fields =>
      simp only [encTy]
      split
      · split
        · exact noPanic_errE
        · rename_i td htd
          have hmem : td ∈ env.types := List.mem_of_getElem? htd
          have hg' := List.all_eq_true.mp hg td hmem
          have hr2 := hr
          simp only [Env.refsOK, Bool.and_eq_true] at hr2
          have hr' := List.all_eq_true.mp hr2.1 td hmem
          have hh' := List.all_eq_true.mp hh td hmem
          simp only [noNilElems] at hv
          have hfs := noNilElemsL_mem hv
          split
          · apply noPanic_mapE
            apply noPanic_encSeq
            intro op hop v hvm
            simp only [Bool.and_eq_true, List.all_eq_true] at hg' hr'
            exact noPanic_encOp hr ih hz _ (hg'.1 op hop) (hr'.2 op hop) (hfs v hvm).1
          · rename_i fd hfr
            simp only [hfr, Bool.and_eq_true, List.all_eq_true, Bool.or_eq_true, beq_iff_eq] at hg' hh'
            apply noPanic_encFrame
            · apply noPanic_encSeq
              intro op hop v hvm
              exact noPanic_encOp hr ih hz _ (hh' op hop).1 (hh' op hop).2
                (hfs v (List.mem_of_mem_take hvm)).1
            · intro body hb
              have hgn : fd.g ≠ .none := by
                intro h; rw [h] at hg'; simp at hg'
              refine noPanic_encPtr ih hgn (fun z t h1 h2 => ?_) (hfs body (List.mem_of_getElem? hb)).1
              rw [h2] at h1
              simp only [Option.map_some, Option.some.injEq] at h1
              subst h1
              exact hz t (unionTy_lt hr h2)
      · exact noPanic_errE
    | nil => exact absurd rfl hnn
    | num _ => simp only [encTy]; exact noPanic_errE
    | str _ => simp only [encTy]; exact noPanic_errE
    | nums _ => simp only [encTy]; exact noPanic_errE
    | strs _ => simp only [encTy]; exact noPanic_errE
    | msgs _ => simp only [encTy]; exact noPanic_errE

/-- C17.  NOTE: the statement with `guardsOK` alone is false for the generic model (see the
    counterexamples below): `refsOK` and `hdrsOK` (or `mirrorOK`) are needed. -/
theorem enc_no_panic {env : Env} (hg : env.guardsOK = true) (hr : env.refsOK = true) (hh : env.hdrsOK = true) :
    ∀ f ty fs pre, noNilElems (.msg ty fs) = true → encTy env f ty (.msg ty fs) pre ≠ .panic :=
  fun f ty fs pre hv => noPanic_encTy hg hr hh f ty _ (fun h => by cases h) hv pre

theorem enc_no_panic_of_mirrorOK {env : Env} (hg : env.guardsOK = true) (hr : env.refsOK = true)
    (hm : env.mirrorOK = true) :
    ∀ f ty fs pre, noNilElems (.msg ty fs) = true → encTy env f ty (.msg ty fs) pre ≠ .panic :=
  enc_no_panic hg hr (hdrsOK_of_mirrorOK hm)

/-! ## C. Re-encoding gives the same bytes (C06 idempotence) -/

/-- a successful encode returns a message of the requested type -/
theorem encTy_ok_msg {env : Env} {f ty : Nat} {v v' : Val} {pre out : Bytes}
    (h : encTy env f ty v pre = .ok (v', out)) : ∃ fs, v' = .msg ty fs := by
  cases f with
  | zero => simp only [encTy] at h; cases h
  | succ f =>
    cases v with
    | msg ty' fields =>
      by_cases hty : ty' = ty
      · subst hty
        cases htd : env.types[ty']? with
        | none => simp only [encTy, if_true, htd] at h; cases h
        | some td =>
          cases hfr : td.frame with
          | none =>
            simp only [encTy, if_true, htd, hfr, mapE_eq_ok] at h
            obtain ⟨fs, _, rfl⟩ := h
            exact ⟨fs, rfl⟩
          | some fd =>
            obtain ⟨hv, hb, body, body', bb, trailer, vt, _, _, _, _, _, rfl⟩ := frame_shape_uniform htd hfr h
            exact ⟨_, rfl⟩
      · simp only [encTy, if_neg hty] at h; cases h
    | nil => simp only [encTy] at h; cases h
    | num _ => simp only [encTy] at h; cases h
    | str _ => simp only [encTy] at h; cases h
    | nums _ => simp only [encTy] at h; cases h
    | strs _ => simp only [encTy] at h; cases h
    | msgs _ => simp only [encTy] at h; cases h

theorem idem_encSeq {step step' : Op → Val → E Val}
    (hs : ∀ op v pre v' out, step op v pre = .ok (v', out) → step' op v' pre = .ok (v', out))
    {ops : List Op} {vs vs' : List Val} {pre out : Bytes}
    (h : encSeq step ops vs pre = .ok (vs', out)) : encSeq step' ops vs' pre = .ok (vs', out) := by
  induction ops generalizing vs vs' pre out with
  | nil =>
    cases vs with
    | nil =>
      simp only [encSeq, Outcome.ok.injEq, Prod.mk.injEq] at h
      obtain ⟨rfl, rfl⟩ := h
      rfl
    | cons v vs => simp only [encSeq] at h; cases h
  | cons op ops ih =>
    cases vs with
    | nil => simp only [encSeq] at h; cases h
    | cons v vs =>
      simp only [encSeq, bindE_eq_ok, mapE_eq_ok] at h
      obtain ⟨v1, mid, h1, vs1, h2, rfl⟩ := h
      simp only [encSeq, bindE_eq_ok, mapE_eq_ok]
      exact ⟨v1, mid, hs _ _ _ _ _ h1, vs1, ih h2, rfl⟩

theorem idem_encAll {f : Val → E Val}
    (hf : ∀ v pre v' out, f v pre = .ok (v', out) → f v' pre = .ok (v', out))
    {vs vs' : List Val} {pre out : Bytes}
    (h : encAll f vs pre = .ok (vs', out)) : encAll f vs' pre = .ok (vs', out) := by
  induction vs generalizing vs' pre out with
  | nil =>
    simp only [encAll, Outcome.ok.injEq, Prod.mk.injEq] at h
    obtain ⟨rfl, rfl⟩ := h
    rfl
  | cons v vs ih =>
    simp only [encAll, bindE_eq_ok, mapE_eq_ok] at h
    obtain ⟨v1, mid, h1, vs1, h2, rfl⟩ := h
    simp only [encAll, bindE_eq_ok, mapE_eq_ok]
    exact ⟨v1, mid, hf _ _ _ _ h1, vs1, ih h2, rfl⟩

/-- the value a pointer/interface statement returns re-encodes identically, whatever the (possibly changed)
    discriminator now selects: the returned value is either a skipped nil or a materialised message -/
theorem idem_encPtr {enc : Nat → Val → E Val}
    (hm : ∀ ty v pre v' out, enc ty v pre = .ok (v', out) → ∃ fs, v' = .msg ty fs)
    (hi : ∀ ty v pre v' out, enc ty v pre = .ok (v', out) → enc ty v' pre = .ok (v', out))
    {g : Guard} {mk : Option Val} {ty? : Option Nat} {v v' : Val} {pre out : Bytes}
    (h : encPtr enc g mk ty? v pre = .ok (v', out)) (mk' : Option Val) (ty?' : Option Nat) :
    encPtr enc g mk' ty?' v' pre = .ok (v', out) := by
  cases v with
  | nil =>
    cases g with
    | none => simp only [encPtr] at h; cases h
    | val => simp only [encPtr] at h; cases h
    | skip =>
      simp only [encPtr, Outcome.ok.injEq, Prod.mk.injEq] at h
      obtain ⟨rfl, rfl⟩ := h
      simp only [encPtr]
    | mat =>
      cases mk with
      | none => simp only [encPtr] at h; cases h
      | some z =>
        cases ty? with
        | none => simp only [encPtr] at h; cases h
        | some ty =>
          simp only [encPtr] at h
          obtain ⟨fs, rfl⟩ := hm _ _ _ _ _ h
          simp only [encPtr]
          exact hi _ _ _ _ _ h
  | msg ty' fs =>
    simp only [encPtr] at h
    obtain ⟨fs', rfl⟩ := hm _ _ _ _ _ h
    simp only [encPtr]
    exact hi _ _ _ _ _ h
  | num _ => simp only [encPtr] at h; cases h
  | str _ => simp only [encPtr] at h; cases h
  | nums _ => simp only [encPtr] at h; cases h
  | strs _ => simp only [encPtr] at h; cases h
  | msgs _ => simp only [encPtr] at h; cases h

theorem encOp_union (env : Env) (enc : Nat → Val → E Val) (zero : Nat → Val) (all : List Val)
    (key tbl : Nat) (g : Guard) (v : Val) :
    encOp env enc zero all (.union key tbl g) v =
      encPtr enc g ((unionTy env key tbl all).map zero) (unionTy env key tbl all) v := by
  cases v <;> simp only [encOp]

/-- every statement returns a value that re-encodes to the same bytes and the same value, even when the
    surrounding message (`all`, read by union statements) has changed: leaf statements return their
    input, pointer statements return a message or a skipped nil -/
theorem idem_encOp {env : Env} {enc : Nat → Val → E Val} {zero : Nat → Val}
    (hm : ∀ ty v pre v' out, enc ty v pre = .ok (v', out) → ∃ fs, v' = .msg ty fs)
    (hi : ∀ ty v pre v' out, enc ty v pre = .ok (v', out) → enc ty v' pre = .ok (v', out))
    {all : List Val} (all' : List Val) {op : Op} {v v' : Val} {pre out : Bytes}
    (h : encOp env enc zero all op v pre = .ok (v', out)) :
    encOp env enc zero all' op v' pre = .ok (v', out) := by
  cases op with
  | scalar w e =>
    cases v <;> simp only [encOp] at h <;> first | (cases h; done) | skip
    obtain ⟨_, _, rfl, _⟩ := emit_eq_ok.mp h
    simp only [encOp]; exact h
  | fixed n pad left =>
    cases v <;> simp only [encOp] at h <;> first | (cases h; done) | skip
    obtain ⟨_, _, rfl, _⟩ := emit_eq_ok.mp h
    simp only [encOp]; exact h
  | vstr pw e =>
    cases v <;> simp only [encOp] at h <;> first | (cases h; done) | skip
    obtain ⟨_, _, rfl, _⟩ := emit_eq_ok.mp h
    simp only [encOp]; exact h
  | nums cw w e =>
    cases v <;> simp only [encOp] at h <;> first | (cases h; done) | skip
    obtain ⟨_, _, rfl, _⟩ := emit_eq_ok.mp h
    simp only [encOp]; exact h
  | fixeds cw n pad left e =>
    cases v <;> simp only [encOp] at h <;> first | (cases h; done) | skip
    obtain ⟨_, _, rfl, _⟩ := emit_eq_ok.mp h
    simp only [encOp]; exact h
  | vstrs cw pw e =>
    cases v <;> simp only [encOp] at h <;> first | (cases h; done) | skip
    obtain ⟨_, _, rfl, _⟩ := emit_eq_ok.mp h
    simp only [encOp]; exact h
  | «opaque» => cases v <;> simp only [encOp] at h <;> cases h
  | nested ty g =>
    cases v with
    | msg ty' fs =>
      simp only [encOp] at h
      split at h
      · rename_i hty
        subst hty
        obtain ⟨fs', rfl⟩ := hm _ _ _ _ _ h
        simp only [encOp, if_true]
        exact hi _ _ _ _ _ h
      · cases h
    | nil =>
      simp only [encOp] at h
      cases g with
      | none => simp only [encPtr] at h; cases h
      | val => simp only [encPtr] at h; cases h
      | skip =>
        simp only [encPtr, Outcome.ok.injEq, Prod.mk.injEq] at h
        obtain ⟨rfl, rfl⟩ := h
        simp only [encOp, encPtr]
      | mat =>
        simp only [encPtr] at h
        obtain ⟨fs', rfl⟩ := hm _ _ _ _ _ h
        simp only [encOp, if_true]
        exact hi _ _ _ _ _ h
    | num _ => simp only [encOp] at h; cases h
    | str _ => simp only [encOp] at h; cases h
    | nums _ => simp only [encOp] at h; cases h
    | strs _ => simp only [encOp] at h; cases h
    | msgs _ => simp only [encOp] at h; cases h
  | objs cw ty e =>
    cases v with
    | msgs l =>
      simp only [encOp, bindE_eq_ok, mapE_eq_ok, emit_eq_ok] at h
      obtain ⟨_, mid, ⟨c, hc, _, rfl⟩, l', hl', rfl⟩ := h
      simp only [encOp]
      refine bindE_eq_ok.mpr ⟨(), pre ++ c, emit_eq_ok.mpr ⟨c, ?_, rfl, rfl⟩,
        mapE_eq_ok.mpr ⟨l', idem_encAll (hi ty) hl', rfl⟩⟩
      rw [encAll_length hl']; exact hc
    | nil => simp only [encOp] at h; cases h
    | msg _ _ => simp only [encOp] at h; cases h
    | num _ => simp only [encOp] at h; cases h
    | str _ => simp only [encOp] at h; cases h
    | nums _ => simp only [encOp] at h; cases h
    | strs _ => simp only [encOp] at h; cases h
  | union key tbl g =>
    rw [encOp_union] at h ⊢
    exact idem_encPtr hm hi h _ _

/-- C06 idempotence: encoding again the message a previous encode returned (computed length and checksum
    filled in, absent bodies materialised) yields the same bytes and the same message.  No side condition
    on `env` is needed. -/
theorem enc_idempotent {env : Env} : ∀ {f ty : Nat} {v v' : Val} {pre out : Bytes},
    encTy env f ty v pre = .ok (v', out) → encTy env f ty v' pre = .ok (v', out) := by
  intro f
  induction f with
  | zero => intro ty v v' pre out h; simp only [encTy] at h; cases h
  | succ f ih =>
    have hm : ∀ ty v pre v' out, encTy env f ty v pre = .ok (v', out) → ∃ fs, v' = .msg ty fs :=
      fun _ _ _ _ _ h => encTy_ok_msg h
    have hi : ∀ ty v pre v' out, encTy env f ty v pre = .ok (v', out) → encTy env f ty v' pre = .ok (v', out) :=
      fun _ _ _ _ _ h => ih h
    intro ty v v' pre out h
    cases v with
    | msg ty' fields =>
      by_cases hty : ty' = ty
      · subst hty
        cases htd : env.types[ty']? with
        | none => simp only [encTy, if_true, htd] at h; cases h
        | some td =>
          cases hfr : td.frame with
          | none =>
            simp only [encTy, if_true, htd, hfr, mapE_eq_ok] at h
            obtain ⟨fs, h1, rfl⟩ := h
            simp only [encTy, if_true, htd, hfr, mapE_eq_ok]
            exact ⟨fs, idem_encSeq (step' := encOp env (encTy env f) (zeroTy env f) fs)
              (fun _ _ _ _ _ h => idem_encOp hm hi _ h) h1, rfl⟩
          | some fd =>
            obtain ⟨hv, hb, body, body', bb, h1, h2, h3, hn, hs⟩ := frame_shape htd hfr h
            have hl := (encSeq_length h1).2
            have henc := ctxFree_encTy env f
            -- the header and the body re-encode identically (first on `[]`, then on every buffer)
            have key : ∀ vt : List Val,
                (∀ pre, encSeq (encOp env (encTy env f) (zeroTy env f) (hv ++ .num (frameLen bb) :: body' :: vt))
                  fd.hdr ((hv ++ .num (frameLen bb) :: body' :: vt).take fd.hdr.length) pre = .ok (hv, pre ++ hb)) ∧
                (hv ++ .num (frameLen bb) :: body' :: vt)[fd.hdr.length + 1]? = some body' ∧
                (∀ pre, encPtr (encTy env f) fd.g
                  ((unionTy env fd.key fd.tbl (hv ++ .num (frameLen bb) :: body' :: vt)).map (zeroTy env f))
                  (unionTy env fd.key fd.tbl (hv ++ .num (frameLen bb) :: body' :: vt)) body' pre
                    = .ok (body', pre ++ bb)) := by
              intro vt
              refine ⟨?_, ?_, ?_⟩
              · have ht : (hv ++ .num (frameLen bb) :: body' :: vt).take fd.hdr.length = hv :=
                  List.take_left' hl
                rw [ht]
                have h1' := idem_encSeq
                  (step' := encOp env (encTy env f) (zeroTy env f) (hv ++ .num (frameLen bb) :: body' :: vt))
                  (fun _ _ _ _ _ h => idem_encOp hm hi _ h) h1
                obtain ⟨bs, hbs, g⟩ := (ctxFree_encSeq (ctxFree_encOp env henc _ _) _ _).of_ok h1'
                simp only [List.nil_append] at hbs
                subst hbs
                exact g
              · rw [← hl]; simp
              · have h3' := idem_encPtr hm hi h3
                  ((unionTy env fd.key fd.tbl (hv ++ .num (frameLen bb) :: body' :: vt)).map (zeroTy env f))
                  (unionTy env fd.key fd.tbl (hv ++ .num (frameLen bb) :: body' :: vt))
                obtain ⟨bs, hbs, g⟩ := (ctxFree_encPtr henc _ _ _ _).of_ok h3'
                simp only [List.nil_append] at hbs
                subst hbs
                exact g
            cases hc : fd.cks with
            | none =>
              obtain ⟨_, rfl, rfl⟩ := hn hc
              obtain ⟨k1, k2, k3⟩ := key []
              rw [encTy_frame _ htd hfr, encFrame_eval k1 k2 k3 pre]
              simp only [hc]
              rw [if_pos (by simp [hl])]
            | some p =>
              obtain ⟨alg, w⟩ := p
              obtain ⟨_, rfl, rfl⟩ := hs alg w hc
              obtain ⟨k1, k2, k3⟩ := key [.num (cksNat alg (frameBytes fd hb bb))]
              rw [encTy_frame _ htd hfr, encFrame_eval k1 k2 k3 pre]
              simp only [hc]
              rw [if_pos (by simp [hl])]
      · simp only [encTy, if_neg hty] at h; cases h
    | nil => simp only [encTy] at h; cases h
    | num _ => simp only [encTy] at h; cases h
    | str _ => simp only [encTy] at h; cases h
    | nums _ => simp only [encTy] at h; cases h
    | strs _ => simp only [encTy] at h; cases h
    | msgs _ => simp only [encTy] at h; cases h

/-! ## Non-vacuity (small environment; the same on `Gen.env` is in `EncLemmasGen.lean`) and the
    counterexamples showing which side conditions `enc_no_panic` really needs -/

section Examples

/-- type 0: a self-measuring frame (1-byte tag, 4-byte length, body selected by the tag through table 0,
    materialised when absent, `sse` checksum trailer); type 1: one 2-byte scalar; type 2: a repeating group of
    type 1 followed by a materialised pointer to type 1 -/
def exEnv : Env :=
  { types := [
      { nfields := 4, enc := [], dec := [.scalar 1 .be, .scalar 4 .be, .union 0 0 .mat, .scalar 4 .be],
        frame := some { hdr := [.scalar 1 .be], lenW := 4, e := .be, key := 0, tbl := 0, g := .mat,
                        cks := some (.sse, 4) } },
      { nfields := 1, enc := [.scalar 2 .be], dec := [.scalar 2 .be], frame := none },
      { nfields := 2, enc := [.objs 1 1 .be, .nested 1 .mat], dec := [.objs 1 1 .be, .nested 1 .mat],
        frame := none }],
    tables := [[(.n 7, 1), (.n 8, 2)]] }

/-- stale length 99, stale checksum 5, absent body: all three are recomputed / materialised -/
theorem exRun1 :
    encTy exEnv 3 0 (.msg 0 [.num 7, .num 99, .nil, .num 5]) [0xAA] =
      .ok (.msg 0 [.num 7, .num 2, .msg 1 [.num 0], .num 9], [0xAA] ++ [7, 0,0,0,2, 0,0, 0,0,0,9]) := by rfl

/-- a stale "length" of the wrong kind, a body with a repeating group and a nil pointer inside -/
theorem exRun2 :
    encTy exEnv 3 0 (.msg 0 [.num 8, .str [1], .msg 2 [.msgs [.msg 1 [.num 258], .msg 1 [.num 3]], .nil], .nil])
        [0xAA] =
      .ok (.msg 0 [.num 8, .num 7, .msg 2 [.msgs [.msg 1 [.num 258], .msg 1 [.num 3]], .msg 1 [.num 0]], .num 23],
           [0xAA] ++ [8, 0,0,0,7, 2, 1,2, 0,3, 0,0, 0,0,0,23]) := by rfl

-- A: enc_append_only, enc_context_free, enc_concat
example : ∃ bs, ([0xAA] ++ [7, 0,0,0,2, 0,0, 0,0,0,9] : Bytes) = [0xAA] ++ bs := enc_append_only exRun1
example : ∀ pre', encTy exEnv 3 0 (.msg 0 [.num 7, .num 99, .nil, .num 5]) pre' =
    .ok (.msg 0 [.num 7, .num 2, .msg 1 [.num 0], .num 9], pre' ++ [7, 0,0,0,2, 0,0, 0,0,0,9]) :=
  enc_context_free exRun1
example : CtxFree (encTy exEnv 3 0 (.msg 0 [.num 7, .num 99, .nil, .num 5])) := ctxFree_encTy _ _ _ _
example : encEach exEnv 3 [(0, .msg 0 [.num 7, .num 99, .nil, .num 5]), (1, .msg 1 [.num 513])] =
    .ok [(.msg 0 [.num 7, .num 2, .msg 1 [.num 0], .num 9], [7, 0,0,0,2, 0,0, 0,0,0,9]), (.msg 1 [.num 513], [2, 1])] := by
  rfl
example : encMany exEnv 3 [(0, .msg 0 [.num 7, .num 99, .nil, .num 5]), (1, .msg 1 [.num 513])] [1, 2, 3] =
    .ok ([.msg 0 [.num 7, .num 2, .msg 1 [.num 0], .num 9], .msg 1 [.num 513]],
         [1, 2, 3] ++ ([7, 0,0,0,2, 0,0, 0,0,0,9] ++ [2, 1])) := by
  rw [enc_concat]; rfl

-- B: frame_shape, frame_len_exact, frame_cks_exact (hypotheses hold for `exRun1`, `exRun2`)
example := frame_shape (env := exEnv) (f := 2) (ty := 0) (pre := [0xAA]) rfl rfl exRun1
example := frame_len_exact (env := exEnv) (f := 2) (ty := 0) (pre := [0xAA]) rfl rfl rfl exRun2
example := frame_cks_exact (env := exEnv) (f := 2) (ty := 0) (pre := [0xAA]) rfl rfl rfl exRun2

-- C: the returned message differs from the input and re-encodes to the same bytes and itself
example : encTy exEnv 3 0 (.msg 0 [.num 7, .num 2, .msg 1 [.num 0], .num 9]) [0xAA] =
    .ok (.msg 0 [.num 7, .num 2, .msg 1 [.num 0], .num 9], [0xAA] ++ [7, 0,0,0,2, 0,0, 0,0,0,9]) :=
  enc_idempotent exRun1
example : ∃ fs, Val.msg 0 [.num 7, .num 2, .msg 1 [.num 0], .num 9] = .msg 0 fs := encTy_ok_msg exRun1

-- D: hypotheses of `enc_no_panic` hold for `exEnv` and for a value with nil pointer fields
example : exEnv.guardsOK = true ∧ exEnv.refsOK = true ∧ exEnv.hdrsOK = true ∧ exEnv.mirrorOK = true := by decide
example : ∀ pre, encTy exEnv 3 0
    (.msg 0 [.num 8, .str [1], .msg 2 [.msgs [.msg 1 [.num 258], .msg 1 [.num 3]], .nil], .nil]) pre ≠ .panic :=
  fun pre => enc_no_panic (by decide) (by decide) (by decide) 3 0 _ pre (by decide)
/-- the exclusion is needed: a nil ELEMENT of a repeating group does panic -/
example : encTy exEnv 3 2 (.msg 2 [.msgs [.nil], .nil]) [] = .panic := by rfl

/-- `guardsOK` (and `refsOK`) do not look at a frame's header statements: an unguarded pointer there panics -/
def cexHdr : Env :=
  { types := [{ nfields := 3, enc := [], dec := [],
                frame := some { hdr := [.nested 0 .none], lenW := 4, e := .be, key := 0, tbl := 0, g := .skip,
                                cks := none } }],
    tables := [] }

theorem cexHdr_panics :
    cexHdr.guardsOK = true ∧ cexHdr.refsOK = true ∧ noNilElems (.msg 0 [.nil, .num 0, .nil]) = true ∧
      encTy cexHdr 1 0 (.msg 0 [.nil, .num 0, .nil]) [] = .panic :=
  ⟨by decide, by decide, by decide, by rfl⟩

/-- a materialising guard on a dangling type reference builds a nil "zero value" and dereferences it -/
def cexRef : Env :=
  { types := [{ nfields := 1, enc := [.nested 5 .mat], dec := [.nested 5 .mat], frame := none }], tables := [] }

theorem cexRef_panics :
    cexRef.guardsOK = true ∧ cexRef.hdrsOK = true ∧ cexRef.mirrorOK = true ∧
      noNilElems (.msg 0 [.nil]) = true ∧ encTy cexRef 2 0 (.msg 0 [.nil]) [] = .panic :=
  ⟨by decide, by decide, by decide, by decide, by rfl⟩

/-- the statement of `enc_no_panic` with `guardsOK` as the only side condition is false in the generic model -/
theorem enc_no_panic_guardsOK_alone_false :
    ¬ (∀ env : Env, env.guardsOK = true → ∀ f ty fs pre, noNilElems (.msg ty fs) = true →
        encTy env f ty (.msg ty fs) pre ≠ .panic) := fun h =>
  h cexHdr cexHdr_panics.1 1 0 _ [] cexHdr_panics.2.2.1 cexHdr_panics.2.2.2

end Examples

end FinProto
