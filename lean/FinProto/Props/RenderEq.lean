/-
  C02: the library's encoder (`encTy`, buffer-threading, message-updating, `Outcome`) produces exactly
  the bytes of the independent renderer of the schema (`Spec.renderTy`), and succeeds exactly when the
  renderer does.  Proofs only; generic over `env`.
-/
import FinProto.Spec
import FinProto.Pinned
import FinProto.Props.PrimLemmas
import FinProto.Props.EncLemmas
namespace FinProto

/-! ## 1. the two fixed-width text writers coincide -/

theorem padOrCut_eq_writeFixed (n : Nat) (pad : UInt8) (left : Bool) (s : Bytes) :
    Spec.padOrCut n pad left s = writeFixed n pad left s := by
  unfold Spec.padOrCut writeFixed
  by_cases h : n < s.length
  · rw [if_pos h]
  · rw [if_neg h]

theorem padOrCut_eq_writeFixed_fun (n : Nat) (pad : UInt8) (left : Bool) :
    Spec.padOrCut n pad left = writeFixed n pad left :=
  funext (padOrCut_eq_writeFixed n pad left)

/-! ## 2. primitives: `Outcome Bytes` writers against `Option Bytes` renderers -/

/-- forget why a writer failed -/
def toOpt : Outcome Bytes → Option Bytes
  | .ok b => some b
  | _ => none

@[simp] theorem toOpt_ok (b : Bytes) : toOpt (.ok b) = some b := rfl
@[simp] theorem toOpt_err : toOpt .err = none := rfl
@[simp] theorem toOpt_panic : toOpt .panic = none := rfl

theorem toOpt_eq_some {o : Outcome Bytes} {b : Bytes} : toOpt o = some b ↔ o = .ok b := by
  cases o <;> simp [toOpt]

theorem toOpt_eq_none {o : Outcome Bytes} : toOpt o = none ↔ ∀ b, o ≠ .ok b := by
  cases o <;> simp [toOpt]

theorem toOpt_map (o : Outcome Bytes) (f : Bytes → Bytes) : toOpt (o.map f) = (toOpt o).map f := by
  cases o <;> rfl

theorem toOpt_bind (o : Outcome Bytes) (f : Bytes → Outcome Bytes) :
    toOpt (o.bind f) = (toOpt o).bind (fun b => toOpt (f b)) := by
  cases o <;> rfl

theorem toOpt_writeLen (w : Nat) (e : Endian) (n : Nat) :
    toOpt (writeLen w e n) = if n < 256 ^ w then some (toE e w n) else none := by
  unfold writeLen; split <;> rfl

/-- a prefix followed by a payload -/
theorem toOpt_writeLen_map (w : Nat) (e : Endian) (n : Nat) (p : Bytes) :
    toOpt ((writeLen w e n).map (· ++ p)) = Spec.prefixed w e n p := by
  unfold writeLen Spec.prefixed; split <;> rfl

theorem toOpt_writeVstr (pw : Nat) (e : Endian) (s : Bytes) :
    toOpt (writeVstr pw e s) = Spec.prefixed pw e s.length s := toOpt_writeLen_map pw e s.length s

theorem toOpt_writeAll {α : Type} (f : α → Outcome Bytes) (l : List α) :
    toOpt (writeAll f l) = Spec.concatAll (l.map (fun a => toOpt (f a))) := by
  induction l with
  | nil => rfl
  | cons a as ih =>
    simp only [writeAll, List.map_cons]
    cases h : f a with
    | ok b => simp only [Outcome.bind_ok, toOpt_map, ih, toOpt_ok, Spec.concatAll]
    | err => rfl
    | panic => rfl

/-- `prefix.bind (fun c => payload.map (c ++ ·))` is `payload.bind (prefixed …)` -/
theorem prefix_bind_eq (w : Nat) (e : Endian) (n : Nat) (o : Option Bytes) :
    (toOpt (writeLen w e n)).bind (fun c => o.map (c ++ ·)) = o.bind (Spec.prefixed w e n) := by
  rw [toOpt_writeLen]
  unfold Spec.prefixed
  cases o with
  | none => split <;> rfl
  | some p => split <;> rfl

theorem toOpt_writeList {α : Type} (cw : Nat) (e : Endian) (f : α → Outcome Bytes) (l : List α) :
    toOpt (writeList cw e f l) =
      (Spec.concatAll (l.map (fun a => toOpt (f a)))).bind (Spec.prefixed cw e l.length) := by
  unfold writeList
  rw [toOpt_bind, ← prefix_bind_eq, ← toOpt_writeAll]
  congr 1
  funext c
  exact toOpt_map _ _

theorem concatAll_some {α : Type} (g : α → Bytes) (l : List α) :
    Spec.concatAll (l.map (fun a => some (g a))) = some (l.flatMap g) := by
  induction l with
  | nil => rfl
  | cons a as ih => simp only [List.map_cons, Spec.concatAll, ih, Option.map_some, List.flatMap_cons]

theorem toOpt_writeNums (cw w : Nat) (e : Endian) (l : List Nat) :
    toOpt (writeNums cw w e l) = Spec.prefixed cw e l.length (l.flatMap (toE e w)) := by
  unfold writeNums
  rw [toOpt_writeList]
  simp only [toOpt_ok, writeScalar]
  rw [concatAll_some]; rfl

theorem toOpt_writeFixeds (cw n : Nat) (pad : UInt8) (left : Bool) (e : Endian) (l : List Bytes) :
    toOpt (writeFixeds cw n pad left e l) =
      Spec.prefixed cw e l.length (l.flatMap (Spec.padOrCut n pad left)) := by
  unfold writeFixeds
  rw [toOpt_writeList, padOrCut_eq_writeFixed_fun]
  simp only [toOpt_ok]
  rw [concatAll_some]; rfl

theorem toOpt_writeVstrs (cw pw : Nat) (e : Endian) (l : List Bytes) :
    toOpt (writeVstrs cw pw e l) =
      (Spec.concatAll (l.map (fun s => Spec.prefixed pw e s.length s))).bind (Spec.prefixed cw e l.length) := by
  unfold writeVstrs
  rw [toOpt_writeList]
  simp only [toOpt_writeVstr]

/-! ## 3. the agreement relation between an encoder step and a rendered result -/

/-- the encoder step `x` succeeds exactly when the renderer produced `some bs`, and then appends exactly `bs`
    (with an updated value that does not depend on the buffer) -/
def Agree {α : Type} (x : E α) (o : Option Bytes) : Prop :=
  (∀ bs, o = some bs → ∃ a, ∀ pre, x pre = .ok (a, pre ++ bs)) ∧ (o = none → ∀ pre p, x pre ≠ .ok p)

theorem agree_some {α : Type} {x : E α} {bs : Bytes} :
    Agree x (some bs) ↔ ∃ a, ∀ pre, x pre = .ok (a, pre ++ bs) := by
  constructor
  · intro h; exact h.1 bs rfl
  · intro h
    refine ⟨fun bs' hb => ?_, fun hn => (by cases hn)⟩
    cases hb; exact h

theorem agree_none {α : Type} {x : E α} : Agree x none ↔ ∀ pre p, x pre ≠ .ok p := by
  constructor
  · intro h; exact h.2 rfl
  · intro h; exact ⟨fun bs hb => (by cases hb), fun _ => h⟩

theorem agree_pure {α : Type} (a : α) : Agree (fun buf => .ok (a, buf) : E α) (some []) :=
  agree_some.mpr ⟨a, fun pre => by simp⟩

theorem agree_errE {α : Type} : Agree (errE : E α) none :=
  agree_none.mpr fun _ _ h => by cases h

theorem agree_panicE {α : Type} : Agree (panicE : E α) none :=
  agree_none.mpr fun _ _ h => by cases h

theorem agree_emit {α : Type} (v : α) (o : Outcome Bytes) : Agree (emit v o) (toOpt o) := by
  cases o with
  | ok bs => exact agree_some.mpr ⟨v, fun pre => rfl⟩
  | err => exact agree_none.mpr fun _ _ h => by cases h
  | panic => exact agree_none.mpr fun _ _ h => by cases h

theorem agree_mapE {α β : Type} {x : E α} {o : Option Bytes} (f : α → β) (h : Agree x o) :
    Agree (mapE f x) o := by
  cases o with
  | some bs =>
    obtain ⟨a, ha⟩ := agree_some.mp h
    exact agree_some.mpr ⟨f a, fun pre => by simp only [mapE, ha pre, Outcome.map_ok]⟩
  | none =>
    refine agree_none.mpr fun pre p hp => ?_
    obtain ⟨b, out⟩ := p
    obtain ⟨a, ha, _⟩ := mapE_eq_ok.mp hp
    exact agree_none.mp h pre _ ha

/-- sequencing: the second step's rendering must not depend on the first step's updated value -/
theorem agree_bindE {α β : Type} {x : E α} {f : α → E β} {o o' : Option Bytes}
    (hx : Agree x o) (hf : ∀ a, Agree (f a) o') :
    Agree (bindE x f) (o.bind fun b => o'.map (b ++ ·)) := by
  cases o with
  | none =>
    refine agree_none.mpr fun pre p hp => ?_
    obtain ⟨b, out⟩ := p
    obtain ⟨a, mid, ha, _⟩ := bindE_eq_ok.mp hp
    exact agree_none.mp hx pre _ ha
  | some bs =>
    obtain ⟨a, ha⟩ := agree_some.mp hx
    cases o' with
    | none =>
      refine agree_none.mpr fun pre p hp => ?_
      obtain ⟨b, out⟩ := p
      obtain ⟨a', mid, _, hb⟩ := bindE_eq_ok.mp hp
      exact agree_none.mp (hf a') mid _ hb
    | some cs =>
      obtain ⟨b, hb⟩ := agree_some.mp (hf a)
      refine agree_some.mpr ⟨b, fun pre => ?_⟩
      simp only [bindE, ha pre, Outcome.bind_ok, hb, List.append_assoc]

theorem agree_encSeq {step : Op → Val → E Val} {rstep : Op → Val → Option Bytes}
    (hs : ∀ op v, Agree (step op v) (rstep op v)) :
    ∀ ops vs, Agree (encSeq step ops vs) (Spec.renderFields rstep ops vs) := by
  intro ops
  induction ops with
  | nil =>
    intro vs
    cases vs with
    | nil => exact agree_pure _
    | cons v vs => exact agree_errE
  | cons op ops ih =>
    intro vs
    cases vs with
    | nil => exact agree_errE
    | cons v vs => exact agree_bindE (hs op v) (fun v' => agree_mapE _ (ih vs))

theorem agree_encAll {f : Val → E Val} {r : Val → Option Bytes} (hf : ∀ v, Agree (f v) (r v)) :
    ∀ vs, Agree (encAll f vs) (Spec.concatAll (vs.map r)) := by
  intro vs
  induction vs with
  | nil => exact agree_pure _
  | cons v vs ih =>
    have h := agree_bindE (hf v) (fun v' => agree_mapE (fun vs' => v' :: vs') ih)
    simp only [encAll, List.map_cons]
    cases hv : r v with
    | none => rw [hv] at h; exact h
    | some b => rw [hv] at h; exact h

theorem agree_encPtr {enc : Nat → Val → E Val} {r : Nat → Val → Option Bytes}
    (henc : ∀ ty v, Agree (enc ty v) (r ty v))
    (g : Guard) (mk : Option Val) (ty? : Option Nat) (v : Val) :
    Agree (encPtr enc g mk ty? v) (Spec.renderPtr r g mk ty? v) := by
  cases v with
  | nil =>
    cases g with
    | none => exact agree_panicE
    | val => exact agree_errE
    | skip => exact agree_pure _
    | mat =>
      cases mk with
      | none => exact agree_errE
      | some z =>
        cases ty? with
        | none => exact agree_errE
        | some ty => exact henc ty z
  | msg ty' fs => exact henc ty' _
  | num _ => exact agree_errE
  | str _ => exact agree_errE
  | nums _ => exact agree_errE
  | strs _ => exact agree_errE
  | msgs _ => exact agree_errE

theorem agree_encOp (env : Env) {enc : Nat → Val → E Val} {r : Nat → Val → Option Bytes}
    (henc : ∀ ty v, Agree (enc ty v) (r ty v)) (zero : Nat → Val) (all : List Val) (op : Op) (v : Val) :
    Agree (encOp env enc zero all op v) (Spec.renderField env r zero all op v) := by
  cases op with
  | scalar w e =>
    cases v <;> simp only [encOp, Spec.renderField] <;> first | exact agree_errE | exact agree_emit _ _
  | fixed n pad left =>
    cases v <;> simp only [encOp, Spec.renderField] <;> first
      | exact agree_errE
      | (rw [padOrCut_eq_writeFixed]; exact agree_emit _ (.ok _))
  | vstr pw e =>
    cases v <;> simp only [encOp, Spec.renderField] <;> first
      | exact agree_errE
      | (rw [← toOpt_writeVstr]; exact agree_emit _ _)
  | nums cw w e =>
    cases v <;> simp only [encOp, Spec.renderField] <;> first
      | exact agree_errE
      | (rw [← toOpt_writeNums]; exact agree_emit _ _)
  | fixeds cw n pad left e =>
    cases v <;> simp only [encOp, Spec.renderField] <;> first
      | exact agree_errE
      | (rw [← toOpt_writeFixeds]; exact agree_emit _ _)
  | vstrs cw pw e =>
    cases v <;> simp only [encOp, Spec.renderField] <;> first
      | exact agree_errE
      | (rw [← toOpt_writeVstrs]; exact agree_emit _ _)
  | nested ty g =>
    cases v <;> simp only [encOp, Spec.renderField] <;> first
      | exact agree_errE
      | exact agree_encPtr henc _ _ _ _
      | (split <;> first | exact henc _ _ | exact agree_errE)
  | objs cw ty e =>
    cases v <;> simp only [encOp, Spec.renderField] <;> first
      | exact agree_errE
      | (rw [← prefix_bind_eq]
         exact agree_bindE (agree_emit _ _) (fun _ => agree_mapE _ (agree_encAll (henc _) _)))
  | union key tbl g =>
    cases v <;> simp only [encOp, Spec.renderField] <;> exact agree_encPtr henc _ _ _ _
  | «opaque» =>
    cases v <;> simp only [encOp, Spec.renderField] <;> exact agree_errE

/-! ## 4. frames -/

/-- the renderer's frame branch, as a function of the rendered header / body -/
def renderFrame (env : Env) (r : Nat → Val → Option Bytes) (zero : Nat → Val) (fd : FrameDesc)
    (fields : List Val) : Option Bytes :=
  let nh := fd.hdr.length
  let okLen := match fd.cks with
    | none => fields.length == nh + 2
    | some _ => fields.length == nh + 3
  if !okLen then none else
  (Spec.renderFields (Spec.renderField env r zero fields) fd.hdr (fields.take nh)).bind fun hdr =>
  (fields[nh + 1]?).bind fun body =>
  (Spec.renderPtr r fd.g ((unionTy env fd.key fd.tbl fields).map zero)
      (unionTy env fd.key fd.tbl fields) body).map fun bodyBytes =>
  let frame := hdr ++ toE fd.e fd.lenW (bodyBytes.length % 2 ^ 32) ++ bodyBytes
  match fd.cks with
  | none => frame
  | some (alg, w) => frame ++ toE fd.e w (cksNat alg frame)

theorem encFrame_ne_ok_of_hdr {env : Env} {enc : Nat → Val → E Val} {zero : Nat → Val} {fd : FrameDesc}
    {ty : Nat} {fields : List Val} {pre : Bytes}
    (h : ∀ p, encSeq (encOp env enc zero fields) fd.hdr (fields.take fd.hdr.length) pre ≠ .ok p) :
    ∀ p, encFrame env enc zero fd ty fields pre ≠ .ok p := by
  intro p hp
  simp only [encFrame] at hp
  obtain ⟨a, ha, _⟩ := Outcome.bind_eq_ok.mp hp
  exact h a ha

theorem agree_encFrame (env : Env) {enc : Nat → Val → E Val} {r : Nat → Val → Option Bytes}
    (henc : ∀ ty v, Agree (enc ty v) (r ty v)) (zero : Nat → Val) (fd : FrameDesc) (ty : Nat)
    (fields : List Val) :
    Agree (encFrame env enc zero fd ty fields) (renderFrame env r zero fd fields) := by
  have hH := agree_encSeq (agree_encOp env henc zero fields) fd.hdr (fields.take fd.hdr.length)
  cases hh : Spec.renderFields (Spec.renderField env r zero fields) fd.hdr (fields.take fd.hdr.length) with
  | none =>
    rw [hh] at hH
    have hr : renderFrame env r zero fd fields = none := by
      simp only [renderFrame, hh, Option.bind_none, ite_self]
    rw [hr]
    exact agree_none.mpr fun pre => encFrame_ne_ok_of_hdr (agree_none.mp hH pre)
  | some hb =>
    rw [hh] at hH
    obtain ⟨hv, h1⟩ := agree_some.mp hH
    cases h2 : fields[fd.hdr.length + 1]? with
    | none =>
      have hr : renderFrame env r zero fd fields = none := by
        simp only [renderFrame, hh, h2, Option.bind_some, Option.bind_none, ite_self]
      rw [hr]
      refine agree_none.mpr fun pre p hp => ?_
      simp only [encFrame, h1 pre, Outcome.bind_ok, h2] at hp
      cases hp
    | some body =>
      have hP := agree_encPtr henc fd.g ((unionTy env fd.key fd.tbl fields).map zero)
        (unionTy env fd.key fd.tbl fields) body
      cases h3 : Spec.renderPtr r fd.g ((unionTy env fd.key fd.tbl fields).map zero)
          (unionTy env fd.key fd.tbl fields) body with
      | none =>
        rw [h3] at hP
        have hr : renderFrame env r zero fd fields = none := by
          simp only [renderFrame, hh, h2, h3, Option.bind_some, Option.map_none, ite_self]
        rw [hr]
        refine agree_none.mpr fun pre p hp => ?_
        simp only [encFrame, h1 pre, Outcome.bind_ok, h2] at hp
        obtain ⟨a, ha, _⟩ := Outcome.bind_eq_ok.mp hp
        exact agree_none.mp hP _ a ha
      | some bb =>
        rw [h3] at hP
        obtain ⟨body', h3'⟩ := agree_some.mp hP
        have hev := encFrame_eval (ty := ty) h1 h2 h3'
        cases hc : fd.cks with
        | none =>
          simp only [hc] at hev
          by_cases hl : fields.length = fd.hdr.length + 2
          · have hr : renderFrame env r zero fd fields = some (frameBytes fd hb bb) := by
              simp only [renderFrame, hc, hh, h2, h3, hl, Option.bind_some, Option.map_some, frameBytes,
                frameLen, beq_self_eq_true, Bool.not_true, Bool.false_eq_true, if_false]
            rw [hr]
            exact agree_some.mpr ⟨_, fun pre => by rw [hev pre, if_pos hl]⟩
          · have hl' : (fields.length == fd.hdr.length + 2) = false := beq_eq_false_iff_ne.mpr hl
            have hr : renderFrame env r zero fd fields = none := by
              simp only [renderFrame, hc, hl', Bool.not_false, if_true]
            rw [hr]
            exact agree_none.mpr fun pre p hp => by rw [hev pre, if_neg hl] at hp; cases hp
        | some q =>
          obtain ⟨alg, w⟩ := q
          simp only [hc] at hev
          by_cases hl : fields.length = fd.hdr.length + 3
          · have hr : renderFrame env r zero fd fields =
                some (frameBytes fd hb bb ++ toE fd.e w (cksNat alg (frameBytes fd hb bb))) := by
              simp only [renderFrame, hc, hh, h2, h3, hl, Option.bind_some, Option.map_some, frameBytes,
                frameLen, beq_self_eq_true, Bool.not_true, Bool.false_eq_true, if_false]
            rw [hr]
            exact agree_some.mpr ⟨_, fun pre => by rw [hev pre, if_pos hl, List.append_assoc]⟩
          · have hl' : (fields.length == fd.hdr.length + 3) = false := beq_eq_false_iff_ne.mpr hl
            have hr : renderFrame env r zero fd fields = none := by
              simp only [renderFrame, hc, hl', Bool.not_false, if_true]
            rw [hr]
            exact agree_none.mpr fun pre p hp => by rw [hev pre, if_neg hl] at hp; cases hp

theorem renderTy_frame {env : Env} {f ty : Nat} {td : TyDef} {fd : FrameDesc} (fields : List Val)
    (htd : env.types[ty]? = some td) (hfr : td.frame = some fd) :
    Spec.renderTy env (f + 1) ty (.msg ty fields) =
      renderFrame env (Spec.renderTy env f) (zeroTy env f) fd fields := by
  simp only [Spec.renderTy, if_true, htd, hfr]
  rfl

/-! ## 5. the main theorem -/

theorem agree_encTy (env : Env) : ∀ f ty v, Agree (encTy env f ty v) (Spec.renderTy env f ty v) := by
  intro f
  induction f with
  | zero => intro ty v; simp only [encTy, Spec.renderTy]; exact agree_errE
  | succ f ih =>
    intro ty v
    cases v with
    | msg ty' fields =>
      by_cases hty : ty' = ty
      · subst hty
        cases htd : env.types[ty']? with
        | none => simp only [encTy, Spec.renderTy, if_true, htd]; exact agree_errE
        | some td =>
          cases hfr : td.frame with
          | none =>
            simp only [encTy, Spec.renderTy, if_true, htd, hfr]
            exact agree_mapE _ (agree_encSeq (agree_encOp env ih _ _) _ _)
          | some fd =>
            rw [renderTy_frame fields htd hfr, encTy_frame fields htd hfr]
            exact agree_encFrame env ih _ _ _ _
      · simp only [encTy, Spec.renderTy, if_neg hty]; exact agree_errE
    | nil => simp only [encTy, Spec.renderTy]; exact agree_panicE
    | num _ => simp only [encTy, Spec.renderTy]; exact agree_errE
    | str _ => simp only [encTy, Spec.renderTy]; exact agree_errE
    | nums _ => simp only [encTy, Spec.renderTy]; exact agree_errE
    | strs _ => simp only [encTy, Spec.renderTy]; exact agree_errE
    | msgs _ => simp only [encTy, Spec.renderTy]; exact agree_errE

/-- C02: the encoder succeeds exactly when the independent renderer does, and appends exactly the rendered
    bytes — for EVERY value (canonical or not) and every buffer -/
theorem enc_eq_render (env : Env) : ∀ f ty v pre,
    (∀ v' out, encTy env f ty v pre = .ok (v', out) →
        ∃ bs, Spec.renderTy env f ty v = some bs ∧ out = pre ++ bs) ∧
    (∀ bs, Spec.renderTy env f ty v = some bs → ∃ v', encTy env f ty v pre = .ok (v', pre ++ bs)) := by
  intro f ty v pre
  have h := agree_encTy env f ty v
  constructor
  · intro v' out hok
    cases hr : Spec.renderTy env f ty v with
    | none => rw [hr] at h; exact absurd hok (agree_none.mp h pre _)
    | some bs =>
      rw [hr] at h
      obtain ⟨a, ha⟩ := agree_some.mp h
      rw [ha pre] at hok
      simp only [Outcome.ok.injEq, Prod.mk.injEq] at hok
      exact ⟨bs, rfl, hok.2.symm⟩
  · intro bs hr
    rw [hr] at h
    obtain ⟨a, ha⟩ := agree_some.mp h
    exact ⟨a, ha pre⟩

/-- the same statement at the top level (`encode` / `Spec.render`) -/
theorem encode_eq_render (env : Env) (v : Val) (pre : Bytes) :
    (∀ v' out, encode env v pre = .ok (v', out) → ∃ bs, Spec.render env v = some bs ∧ out = pre ++ bs) ∧
    (∀ bs, Spec.render env v = some bs → ∃ v', encode env v pre = .ok (v', pre ++ bs)) := by
  cases v with
  | msg ty fs => exact enc_eq_render env env.fuel ty (.msg ty fs) pre
  | _ =>
    simp only [encode, Spec.render]
    exact ⟨fun _ _ h => (by cases h), fun _ h => (by cases h)⟩

/-! ## 6. registration lists denoting the same finite map are interchangeable -/

theorem lookupKey_eq_none {k : Key} {l : List (Key × Nat)} (h : ∀ kv ∈ l, kv.1 ≠ k) :
    lookupKey k l = none := by
  induction l with
  | nil => rfl
  | cons kv l ih =>
    obtain ⟨k', t⟩ := kv
    have h1 : k' ≠ k := h (k', t) (List.mem_cons_self ..)
    simp only [lookupKey, if_neg h1]
    exact ih fun kv hkv => h kv (List.mem_cons_of_mem _ hkv)

theorem tableEquiv_lookup {a b : List (Key × Nat)} (h : Spec.tableEquiv a b = true) (k : Key) :
    lookupKey k a.reverse = lookupKey k b.reverse := by
  simp only [Spec.tableEquiv, Bool.and_eq_true, List.all_eq_true, beq_iff_eq] at h
  obtain ⟨ha, hb⟩ := h
  by_cases h1 : ∃ kv ∈ a, kv.1 = k
  · obtain ⟨kv, hkv, rfl⟩ := h1; exact ha kv hkv
  · by_cases h2 : ∃ kv ∈ b, kv.1 = k
    · obtain ⟨kv, hkv, rfl⟩ := h2; exact hb kv hkv
    · rw [lookupKey_eq_none (l := a.reverse), lookupKey_eq_none (l := b.reverse)]
      · intro kv hkv hk; exact h2 ⟨kv, List.mem_reverse.mp hkv, hk⟩
      · intro kv hkv hk; exact h1 ⟨kv, List.mem_reverse.mp hkv, hk⟩

theorem Env.lookup_eq (env : Env) (tbl : Nat) (k : Key) :
    env.lookup tbl k = (env.tables[tbl]?).bind (fun t => lookupKey k t.reverse) := by
  unfold Env.lookup
  cases env.tables[tbl]? <;> rfl

theorem tablesEquiv_lookup {as bs : List (List (Key × Nat))} (h : Spec.tablesEquiv as bs = true)
    (t : Nat) (k : Key) :
    (as[t]?).bind (fun x => lookupKey k x.reverse) = (bs[t]?).bind (fun x => lookupKey k x.reverse) := by
  induction as generalizing bs t with
  | nil =>
    cases bs with
    | nil => rfl
    | cons b bs => simp only [Spec.tablesEquiv] at h; cases h
  | cons a as ih =>
    cases bs with
    | nil => simp only [Spec.tablesEquiv] at h; cases h
    | cons b bs =>
      simp only [Spec.tablesEquiv, Bool.and_eq_true] at h
      cases t with
      | zero => simp only [List.getElem?_cons_zero, Option.bind_some]; exact tableEquiv_lookup h.1 k
      | succ t => simp only [List.getElem?_cons_succ]; exact ih h.2 t

theorem tablesEquiv_length {as bs : List (List (Key × Nat))} (h : Spec.tablesEquiv as bs = true) :
    as.length = bs.length := by
  induction as generalizing bs with
  | nil =>
    cases bs with
    | nil => rfl
    | cons b bs => simp only [Spec.tablesEquiv] at h; cases h
  | cons a as ih =>
    cases bs with
    | nil => simp only [Spec.tablesEquiv] at h; cases h
    | cons b bs =>
      simp only [Spec.tablesEquiv, Bool.and_eq_true] at h
      simp only [List.length_cons, ih h.2]

/-- equivalent registration lists answer every lookup identically -/
theorem lookup_table_equiv {env env' : Env} (h : Spec.tablesEquiv env.tables env'.tables = true)
    (t : Nat) (k : Key) : env.lookup t k = env'.lookup t k := by
  rw [Env.lookup_eq, Env.lookup_eq]; exact tablesEquiv_lookup h t k

section Congr
variable {env env' : Env} (ht : env.types = env'.types) (hl : ∀ t k, env.lookup t k = env'.lookup t k)
include hl

theorem unionTy_congr : unionTy env = unionTy env' := by
  funext key tbl fields
  have : env.lookup tbl = env'.lookup tbl := funext (hl tbl)
  simp only [unionTy, this]

include ht

omit hl in
theorem zeroTy_congr : ∀ f, zeroTy env f = zeroTy env' f := by
  intro f
  induction f with
  | zero => funext ty; simp only [zeroTy]
  | succ f ih => funext ty; simp only [zeroTy, ht, ih]

omit ht in
theorem renderField_congr : Spec.renderField env = Spec.renderField env' := by
  funext r z all op v
  cases op <;> cases v <;> simp only [Spec.renderField, unionTy_congr hl]

omit ht in
theorem decOp_congr : decOp env = decOp env' := by
  funext d acc op
  cases op <;> simp only [decOp, unionTy_congr hl]

omit ht in
theorem encOp_congr : encOp env = encOp env' := by
  funext enc z all op v
  cases op <;> cases v <;> simp only [encOp, unionTy_congr hl]

theorem renderTy_congr : Spec.renderTy env = Spec.renderTy env' := by
  funext f
  induction f with
  | zero => funext ty v; simp only [Spec.renderTy]
  | succ f ih =>
    funext ty v
    cases v <;>
      simp only [Spec.renderTy, ih, ht, unionTy_congr hl, zeroTy_congr ht f, renderField_congr hl]

theorem decTy_congr : decTy env = decTy env' := by
  funext f
  induction f with
  | zero => funext ty; simp only [decTy]
  | succ f ih => funext ty; simp only [decTy, ih, ht, decOp_congr hl]

omit ht in
theorem encFrame_congr : encFrame env = encFrame env' := by
  funext enc z fd ty fields buf
  simp only [encFrame, encOp_congr hl, unionTy_congr hl]

theorem encTy_congr : encTy env = encTy env' := by
  funext f
  induction f with
  | zero => funext ty v; simp only [encTy]
  | succ f ih =>
    funext ty v
    cases v <;>
      simp only [encTy, ih, ht, zeroTy_congr ht f, encOp_congr hl, encFrame_congr hl]

theorem render_congr : Spec.render env = Spec.render env' := by
  funext v
  cases v <;> simp only [Spec.render, Env.fuel, ht, renderTy_congr ht hl]

theorem decode_congr : decode env = decode env' := by
  funext ty
  simp only [decode, Env.fuel, ht, decTy_congr ht hl]

theorem encode_congr : encode env = encode env' := by
  funext v
  cases v <;> simp only [encode, Env.fuel, ht, encTy_congr ht hl]

end Congr

/-- C02 corollary: an environment whose discriminator tables were registered in a different order (or with
    overridden duplicates) but denote the same finite maps renders, decodes and encodes identically -/
theorem render_table_equiv {env env' : Env} (h : Spec.tablesEquiv env.tables env'.tables = true)
    (ht : env.types = env'.types) :
    (∀ t k, env.lookup t k = env'.lookup t k) ∧
    Spec.renderTy env = Spec.renderTy env' ∧ decTy env = decTy env' ∧ encTy env = encTy env' ∧
    Spec.render env = Spec.render env' ∧ decode env = decode env' ∧ encode env = encode env' :=
  have hl := lookup_table_equiv h
  ⟨hl, renderTy_congr ht hl, decTy_congr ht hl, encTy_congr ht hl, render_congr ht hl,
    decode_congr ht hl, encode_congr ht hl⟩

/-! ## 7. non-vacuity: the pinned schema -/

section Examples

-- 1. pad on the right / on the left / cut
example : Spec.padOrCut 4 32 false [65, 66] = [65, 66, 32, 32] ∧ writeFixed 4 32 false [65, 66] = [65, 66, 32, 32] := by
  decide
example : Spec.padOrCut 4 48 true [65, 66] = [48, 48, 65, 66] := by decide
example : Spec.padOrCut 1 32 false [65, 66] = [65] := by decide

/-- the SSE frame (type 96) carrying a Heartbeat (type 88, no fields): header, corrected length 0, no body
    bytes, SSE checksum 33 + 7 = 40 -/
theorem exRenderHeartbeat :
    Spec.render Pinned.env (.msg 96 [.num 33, .num 7, .num 99, .msg 88 [], .num 5])
      = some [0,0,0,33, 0,0,0,0,0,0,0,7, 0,0,0,0, 0,0,0,40] := by decide +kernel

/-- hence (by `encode_eq_render`, not by evaluation) the library's encoder appends exactly these bytes to any buffer -/
example (pre : Bytes) : ∃ v', encode Pinned.env (.msg 96 [.num 33, .num 7, .num 99, .msg 88 [], .num 5]) pre
    = .ok (v', pre ++ [0,0,0,33, 0,0,0,0,0,0,0,7, 0,0,0,0, 0,0,0,40]) :=
  (encode_eq_render Pinned.env _ pre).2 _ exRenderHeartbeat

/-- a frame with a non-empty body (type 94 = sse.PlatformState: two 2-byte scalars, key 209) -/
theorem exRenderBody :
    Spec.render Pinned.env (.msg 96 [.num 209, .num 7, .num 0, .msg 94 [.num 1, .num 2], .num 0])
      = some [0,0,0,209, 0,0,0,0,0,0,0,7, 0,0,0,4, 0,1, 0,2, 0,0,0,223] := by decide +kernel

/-- an absent body under the frame's `skip` guard renders as no bytes -/
example : Spec.render Pinned.env (.msg 96 [.num 33, .num 7, .num 99, .nil, .num 5])
      = some [0,0,0,33, 0,0,0,0,0,0,0,7, 0,0,0,0, 0,0,0,40] := by decide +kernel

/-- non-canonical text: over-long text is cut (type 107 = szse.Extend100601: one 1-byte text field) -/
example : Spec.render Pinned.env (.msg 107 [.str [65, 66]]) = some [65] := by decide +kernel

/-- the failure side: a frame value with a missing trailer field renders to nothing, so the encoder never succeeds -/
theorem exRenderNone :
    Spec.render Pinned.env (.msg 96 [.num 33, .num 7, .num 99, .msg 88 []]) = none := by decide +kernel

example (pre : Bytes) (v' : Val) (out : Bytes) :
    encode Pinned.env (.msg 96 [.num 33, .num 7, .num 99, .msg 88 []]) pre ≠ .ok (v', out) := by
  intro h
  obtain ⟨bs, hbs, _⟩ := (encode_eq_render Pinned.env _ pre).1 v' out h
  rw [exRenderNone] at hbs; cases hbs

/-- the pinned tables registered in the opposite order: a different `Env`, the same finite maps -/
def exEnvRev : Env := { types := Pinned.env.types, tables := Pinned.env.tables.map List.reverse }

theorem exEnvRev_equiv : Spec.tablesEquiv Pinned.env.tables exEnvRev.tables = true := by decide +kernel

example : Pinned.env.tables ≠ exEnvRev.tables := by decide +kernel

example : Spec.render exEnvRev (.msg 96 [.num 33, .num 7, .num 99, .msg 88 [], .num 5])
      = some [0,0,0,33, 0,0,0,0,0,0,0,7, 0,0,0,0, 0,0,0,40] := by
  rw [← (render_table_equiv exEnvRev_equiv rfl).2.2.2.2.1]; exact exRenderHeartbeat

end Examples

end FinProto
