import FinProto.Registry
/-
  Proofs about the checksum-service registry model (property C19).  `Registry.lean` is used verbatim.
  (When moving this file into the FinProto library change the import to `import FinProto.Registry`.)

  Main results, each for EVERY reachable state of EVERY interleaving of ANY number of goroutines:
    T1  mutual_exclusion, write_needs_lock           (lock discipline / data-race freedom)
    T2  linearizable                                 (results = sequential spec in lock-release order)
    T3  ret_before_inv_lin, real_time_order, ret_count_le_lin, ret_mem_lin, inv_count_eq,
        thread_projection                            (real-time order; per-thread agreement of lin and hist)
    C-a get_after_reg, reg_fails_when_present, present_stable, reg_winner_unique(_run)
    C-b get_insert, get_erase, get_nil, get_right_name
  Core Lean only; no Mathlib.
-/

namespace FinProto.Reg

/-! ## C-b  map lemmas -/

theorem get_nil (n : Name) : get [] n = none := rfl

theorem get_erase (m : Map) (n n' : Name) :
    get (erase m n) n' = if n' = n then none else get m n' := by
  induction m with
  | nil => simp [erase, get]
  | cons p rest ih =>
    obtain ⟨k, v⟩ := p
    unfold erase at ih ⊢
    by_cases hk : k = n
    · subst hk
      simp only [List.filter_cons, bne_self_eq_false, Bool.false_eq_true, ↓reduceIte, ih, get]
      by_cases h : n' = k
      · simp [h]
      · have : ¬ k = n' := fun e => h e.symm
        simp [h, this]
    · have hb : ((k, v).1 != n) = true := by simp [hk]
      simp only [List.filter_cons, hb, ↓reduceIte, get, ih]
      by_cases h : n' = n
      · subst h; simp [hk]
      · simp [h]

theorem get_insert (m : Map) (n n' : Name) (v : Svc) :
    get (insert m n v) n' = if n' = n then some v else get m n' := by
  unfold insert
  simp only [get, get_erase]
  by_cases h : n' = n
  · subst h; simp
  · have : ¬ n = n' := fun e => h e.symm
    simp [h, this]

/-- a look-up never returns a service stored under another name -/
theorem get_right_name (m : Map) (n n' : Name) (v : Svc) :
    get (insert m n v) n' = (if n' = n then some v else get m n') ∧
    get (erase m n) n' = (if n' = n then none else get m n') ∧
    get ([] : Map) n = none :=
  ⟨get_insert m n n' v, get_erase m n n', rfl⟩

example : get (insert [(1, 10), (2, 20)] 3 30) 2 = some 20 := by decide
example : get (erase [(1, 10), (2, 20)] 1) 1 = none := by decide

/-! ## lemmas about `runSpec` -/

theorem runSpec_append (m : Map) (a b : List Call) :
    runSpec m (a ++ b) =
      ((runSpec (runSpec m a).1 b).1, (runSpec m a).2 ++ (runSpec (runSpec m a).1 b).2) := by
  induction a generalizing m with
  | nil => simp [runSpec]
  | cons c cs ih => simp [runSpec, ih]

theorem runSpec_snoc (m : Map) (a : List Call) (c : Call) :
    runSpec m (a ++ [c]) =
      ((spec (runSpec m a).1 c).1, (runSpec m a).2 ++ [(spec (runSpec m a).1 c).2]) := by
  rw [runSpec_append]; simp [runSpec]


/-! ## T1  lock discipline -/

/-- the pc is inside a write-locked region -/
def wHold : PC → Bool
  | .regCheck _ _ | .regStore _ _ | .wrBody _ | .unlockX _ _ => true
  | _ => false

/-- the pc is inside a read-locked region -/
def rHold : PC → Bool
  | .rdBody _ | .unlockS _ _ => true
  | _ => false

/-- the lock invariant -/
def LockInv (s : State) : Prop :=
  (s.lock = .free → ∀ u, wHold (s.pc u) = false ∧ rHold (s.pc u) = false) ∧
  (∀ t, s.lock = .excl t →
      wHold (s.pc t) = true ∧ ∀ u, u ≠ t → wHold (s.pc u) = false ∧ rHold (s.pc u) = false) ∧
  (∀ ts, s.lock = .shared ts →
      ts.Nodup ∧ ts ≠ [] ∧ (∀ u, rHold (s.pc u) = true ↔ u ∈ ts) ∧ ∀ u, wHold (s.pc u) = false)

theorem lockInv_init (m0 : Map) : LockInv (init m0) := by
  simp [LockInv, init, wHold, rHold]

theorem wHold_not_rHold (p : PC) : wHold p = true → rHold p = false := by
  cases p <;> simp [wHold, rHold]

theorem lock_of_wHold {s : State} (hi : LockInv s) {t : Tid} (h : wHold (s.pc t) = true) :
    s.lock = .excl t := by
  obtain ⟨hf, hx, hsh⟩ := hi
  cases hl : s.lock with
  | free => have := (hf hl t).1; simp_all
  | excl t' =>
    by_cases e : t = t'
    · rw [e]
    · have := ((hx t' hl).2 t e).1; simp_all
  | shared ts => have := (hsh ts hl).2.2.2 t; simp_all

theorem lock_of_rHold {s : State} (hi : LockInv s) {t : Tid} (h : rHold (s.pc t) = true) :
    ∃ ts, s.lock = .shared ts ∧ t ∈ ts := by
  obtain ⟨hf, hx, hsh⟩ := hi
  cases hl : s.lock with
  | free => have := (hf hl t).2; simp_all
  | excl t' =>
    by_cases e : t = t'
    · subst e
      have := wHold_not_rHold _ (hx t hl).1; simp_all
    · have := ((hx t' hl).2 t e).2; simp_all
  | shared ts => exact ⟨ts, rfl, ((hsh ts hl).2.2.1 t).1 h⟩

theorem lockInv_step {s s' : State} (hi : LockInv s) (hs : Step s s') : LockInv s' := by
  have hi' := hi
  obtain ⟨hf, hx, hsh⟩ := hi
  cases hs with
  | runlock t c r ts h hl =>
    obtain ⟨hnd, hne, hiff, hw⟩ := hsh ts hl
    have hmem : ∀ u, u ∈ ts.erase t ↔ u ≠ t ∧ u ∈ ts := fun u => hnd.mem_erase_iff
    have hnd' : (ts.erase t).Nodup := hnd.erase t
    by_cases he : ts.erase t = []
    · simp only [he, ↓reduceIte]
      refine ⟨?_, ?_, ?_⟩ <;> grind [setPc, wHold, rHold]
    · simp only [he, ↓reduceIte]
      refine ⟨?_, ?_, ?_⟩ <;> grind [setPc, wHold, rHold]
  | unlock t c r h =>
    have hl := lock_of_wHold hi' (t := t) (by simp [h, wHold])
    refine ⟨?_, ?_, ?_⟩ <;> grind [setPc, wHold, rHold]
  | _ => 
    refine ⟨?_, ?_, ?_⟩ <;> grind [setPc, wHold, rHold]


theorem lockInv_reachable {m0 : Map} {s : State} (h : Reachable m0 s) : LockInv s := by
  induction h with
  | init => exact lockInv_init m0
  | step _ hs ih => exact lockInv_step ih hs

/-- **T1** lock discipline / mutual exclusion, for every reachable state of every interleaving. -/
theorem mutual_exclusion {m0 : Map} {s : State} (h : Reachable m0 s) :
    -- a thread inside a write-locked region owns the lock exclusively; nobody else is inside
    (∀ t, wHold (s.pc t) = true →
        s.lock = .excl t ∧ ∀ u, u ≠ t → wHold (s.pc u) = false ∧ rHold (s.pc u) = false) ∧
    -- a thread inside a read-locked region is a registered reader; the readers inside are
    -- exactly the registered ones, and no writer is inside
    (∀ t, rHold (s.pc t) = true →
        ∃ ts, s.lock = .shared ts ∧ t ∈ ts ∧ ts.Nodup ∧
          (∀ u, rHold (s.pc u) = true ↔ u ∈ ts) ∧ ∀ u, wHold (s.pc u) = false) ∧
    -- a free lock means nobody is inside; a held lock is held by somebody who is inside
    (s.lock = .free → ∀ u, wHold (s.pc u) = false ∧ rHold (s.pc u) = false) ∧
    (∀ t, s.lock = .excl t → wHold (s.pc t) = true) ∧
    (∀ ts, s.lock = .shared ts → ts ≠ [] ∧ ts.Nodup ∧ ∀ u, u ∈ ts → rHold (s.pc u) = true) := by
  have hi := lockInv_reachable h
  refine ⟨?_, ?_, hi.1, fun t hl => (hi.2.1 t hl).1, ?_⟩
  · intro t ht
    have hl := lock_of_wHold hi ht
    exact ⟨hl, (hi.2.1 t hl).2⟩
  · intro t ht
    obtain ⟨ts, hl, hm⟩ := lock_of_rHold hi ht
    obtain ⟨a, _, c, d⟩ := hi.2.2 ts hl
    exact ⟨ts, hl, hm, a, c, d⟩
  · intro ts hl
    obtain ⟨a, b, c, _⟩ := hi.2.2 ts hl
    exact ⟨b, a, fun u hu => (c u).2 hu⟩

/-- data-race freedom, write side: the map changes only in a step of the thread that owns the
    write lock. -/
theorem write_needs_lock {m0 : Map} {s s' : State} (h : Reachable m0 s) (hs : Step s s')
    (hm : s'.mem ≠ s.mem) : ∃ t, s.lock = .excl t ∧ wHold (s.pc t) = true ∧ s'.pc t ≠ s.pc t ∧
      ∀ u, u ≠ t → s'.pc u = s.pc u := by
  have hi := lockInv_reachable h
  cases hs with
  | regStore t n v hp =>
    have hw : wHold (s.pc t) = true := by simp [hp, wHold]
    exact ⟨t, lock_of_wHold hi hw, hw, by simp [setPc, hp], fun u hu => by simp [setPc, hu]⟩
  | doRemove t n hp =>
    have hw : wHold (s.pc t) = true := by simp [hp, wHold]
    exact ⟨t, lock_of_wHold hi hw, hw, by simp [setPc, hp], fun u hu => by simp [setPc, hu]⟩
  | doClear t hp =>
    have hw : wHold (s.pc t) = true := by simp [hp, wHold]
    exact ⟨t, lock_of_wHold hi hw, hw, by simp [setPc, hp], fun u hu => by simp [setPc, hu]⟩
  | _ => exact absurd rfl hm

/-! ## T2  linearizability -/

def calls (s : State) : List Call := s.lin.map (fun x => x.2.1)
def results (s : State) : List Res := s.lin.map (fun x => x.2.2)
/-- the state of the atomic map after the calls linearised so far -/
def specState (m0 : Map) (s : State) : Map := (runSpec m0 (calls s)).1

def DataInv (m0 : Map) (s : State) : Prop :=
  (runSpec m0 (calls s)).2 = results s ∧
  ((∀ t c r, s.pc t ≠ .unlockX c r) → s.mem = specState m0 s) ∧
  (∀ t c r, s.pc t = .unlockX c r → (s.mem, r) = spec (specState m0 s) c) ∧
  (∀ t n v, s.pc t = .regStore n v → get s.mem n = none) ∧
  (∀ t c r, s.pc t = .unlockS c r → ∃ n, c = .get n ∧ r = .svc (get (specState m0 s) n))

theorem dataInv_init (m0 : Map) : DataInv m0 (init m0) := by
  simp [DataInv, init, calls, results, specState, runSpec]

/-- if somebody other than the (unique) write-lock holder `t`... nobody is at `unlockX` -/
theorem no_unlockX_of_wHold {s : State} (hi : LockInv s) {t : Tid} (h : wHold (s.pc t) = true)
    (hn : ∀ c r, s.pc t ≠ .unlockX c r) : ∀ u c r, s.pc u ≠ .unlockX c r := by
  intro u c r hu
  have hl := lock_of_wHold hi h
  by_cases e : u = t
  · subst e; exact hn c r hu
  · have := ((hi.2.1 t hl).2 u e).1
    simp [hu, wHold] at this

theorem no_unlockX_of_rHold {s : State} (hi : LockInv s) {t : Tid} (h : rHold (s.pc t) = true) :
    ∀ u c r, s.pc u ≠ .unlockX c r := by
  intro u c r hu
  obtain ⟨ts, hl, _⟩ := lock_of_rHold hi h
  have := (hi.2.2 ts hl).2.2.2 u
  simp [hu, wHold] at this

theorem noX_transfer {pc : Tid → PC} {t : Tid} {p : PC}
    (h : ∀ u c r, setPc pc t p u ≠ .unlockX c r) (hp : ∀ c r, pc t ≠ .unlockX c r) :
    ∀ u c r, pc u ≠ .unlockX c r := by
  intro u c r hu
  by_cases e : u = t
  · subst e; exact hp c r hu
  · have := h u c r
    simp [setPc, e] at this
    exact this hu

/-- steps that touch neither the map nor `lin`, and move a thread between pcs that carry no
    data obligation -/
theorem dataInv_frame {m0 : Map} {s : State} (hd : DataInv m0 s) (t : Tid) (p : PC) (l : Lock)
    (hh : List Event)
    (hold : ∀ c r, s.pc t ≠ .unlockX c r)
    (hp1 : ∀ c r, p ≠ .unlockX c r) (hp2 : ∀ n v, p ≠ .regStore n v) (hp3 : ∀ c r, p ≠ .unlockS c r) :
    DataInv m0 { lock := l, mem := s.mem, pc := setPc s.pc t p, hist := hh, lin := s.lin } := by
  obtain ⟨hres, hmem, hux, hst, hus⟩ := hd
  refine ⟨hres, ?_, ?_, ?_, ?_⟩
  · intro h
    exact hmem (noX_transfer h hold)
  · intro u c r hu
    by_cases e : u = t
    · subst e; simp [setPc] at hu; exact absurd hu (hp1 c r)
    · simp [setPc, e] at hu; exact hux u c r hu
  · intro u n v hu
    by_cases e : u = t
    · subst e; simp [setPc] at hu; exact absurd hu (hp2 n v)
    · simp [setPc, e] at hu; exact hst u n v hu
  · intro u c r hu
    by_cases e : u = t
    · subst e; simp [setPc] at hu; exact absurd hu (hp3 c r)
    · simp [setPc, e] at hu; exact hus u c r hu

/-- the write-lock holder mutates the map and moves to `unlockX` -/
theorem dataInv_write {m0 : Map} {s : State} (hl : LockInv s) (hd : DataInv m0 s) (t : Tid)
    (hw : wHold (s.pc t) = true) (hnx : ∀ c r, s.pc t ≠ .unlockX c r)
    (mem' : Map) (c : Call) (r : Res) (l : Lock) (hh : List Event)
    (hspec : s.mem = specState m0 s → (mem', r) = spec (specState m0 s) c) :
    DataInv m0 { lock := l, mem := mem', pc := setPc s.pc t (.unlockX c r), hist := hh,
                 lin := s.lin } := by
  have hnoX := no_unlockX_of_wHold hl hw hnx
  have hlk := lock_of_wHold hl hw
  have hexcl := (hl.2.1 t hlk).2
  obtain ⟨hres, hmem, hux, hst, hus⟩ := hd
  have hm := hmem hnoX
  refine ⟨hres, ?_, ?_, ?_, ?_⟩
  · intro hx; exact absurd (by simp [setPc]) (hx t c r)
  · intro u c' r' hu
    by_cases e : u = t
    · subst e; simp [setPc] at hu; obtain ⟨rfl, rfl⟩ := hu
      exact hspec hm
    · simp [setPc, e] at hu; exact absurd hu (hnoX u c' r')
  · intro u n' v' hu
    by_cases e : u = t
    · subst e; simp [setPc] at hu
    · simp [setPc, e] at hu
      have := (hexcl u e).1; simp [hu, wHold] at this
  · intro u c' r' hu
    by_cases e : u = t
    · subst e; simp [setPc] at hu
    · simp [setPc, e] at hu
      have := (hexcl u e).2; simp [hu, rHold] at this

theorem dataInv_step {m0 : Map} {s s' : State} (hl : LockInv s) (hd : DataInv m0 s)
    (hs : Step s s') : DataInv m0 s' := by
  cases hs with
  | invoke t c h => exact dataInv_frame hd t _ _ _ (by simp [h]) (by simp) (by simp) (by simp)
  | lockReg t n v h _ => exact dataInv_frame hd t _ _ _ (by simp [h]) (by simp) (by simp) (by simp)
  | lockWr t c h _ _ => exact dataInv_frame hd t _ _ _ (by simp [h]) (by simp) (by simp) (by simp)
  | rlockFree t n h _ => exact dataInv_frame hd t _ _ _ (by simp [h]) (by simp) (by simp) (by simp)
  | rlockShared t n ts h _ => exact dataInv_frame hd t _ _ _ (by simp [h]) (by simp) (by simp) (by simp)
  | «return» t c r h => exact dataInv_frame hd t _ _ _ (by simp [h]) (by simp) (by simp) (by simp)
  | regAbsent t n v h hg =>
    obtain ⟨hres, hmem, hux, hst, hus⟩ := hd
    refine ⟨hres, ?_, ?_, ?_, ?_⟩
    · intro hx; exact hmem (noX_transfer hx (by simp [h]))
    · intro u c r hu
      by_cases e : u = t
      · subst e; simp [setPc] at hu
      · simp [setPc, e] at hu; exact hux u c r hu
    · intro u n' v' hu
      by_cases e : u = t
      · subst e; simp [setPc] at hu; obtain ⟨rfl, rfl⟩ := hu; exact hg
      · simp [setPc, e] at hu; exact hst u n' v' hu
    · intro u c r hu
      by_cases e : u = t
      · subst e; simp [setPc] at hu
      · simp [setPc, e] at hu; exact hus u c r hu
  | regExists t n v w h hg =>
    have hw : wHold (s.pc t) = true := by simp [h, wHold]
    have hnoX := no_unlockX_of_wHold hl hw (by simp [h])
    obtain ⟨hres, hmem, hux, hst, hus⟩ := hd
    have hm := hmem hnoX
    refine ⟨hres, ?_, ?_, ?_, ?_⟩
    · intro hx; exact absurd (by simp [setPc]) (hx t (.reg n v) (.bool false))
    · intro u c r hu
      by_cases e : u = t
      · subst e; simp [setPc] at hu; obtain ⟨rfl, rfl⟩ := hu
        show (s.mem, _) = spec (specState m0 s) _
        rw [← hm]; simp [spec, hg]
      · simp [setPc, e] at hu; exact hux u c r hu
    · intro u n' v' hu
      by_cases e : u = t
      · subst e; simp [setPc] at hu
      · simp [setPc, e] at hu; exact hst u n' v' hu
    · intro u c r hu
      by_cases e : u = t
      · subst e; simp [setPc] at hu
      · simp [setPc, e] at hu; exact hus u c r hu
  | doGet t n h =>
    have hr : rHold (s.pc t) = true := by simp [h, rHold]
    have hnoX := no_unlockX_of_rHold hl hr
    obtain ⟨hres, hmem, hux, hst, hus⟩ := hd
    have hm := hmem hnoX
    refine ⟨hres, ?_, ?_, ?_, ?_⟩
    · intro _; exact hm
    · intro u c r hu
      by_cases e : u = t
      · subst e; simp [setPc] at hu
      · simp [setPc, e] at hu; exact hux u c r hu
    · intro u n' v' hu
      by_cases e : u = t
      · subst e; simp [setPc] at hu
      · simp [setPc, e] at hu; exact hst u n' v' hu
    · intro u c r hu
      by_cases e : u = t
      · subst e; simp [setPc] at hu; obtain ⟨rfl, rfl⟩ := hu
        exact ⟨n, rfl, by show _ = Res.svc (get (specState m0 s) n); rw [← hm]⟩
      · simp [setPc, e] at hu; exact hus u c r hu
  | regStore t n v h =>
    refine dataInv_write hl hd t (by simp [h, wHold]) (by simp [h]) _ _ _ _ _ ?_
    intro hm
    have hg := hd.2.2.2.1 t n v h
    rw [← hm]; simp [spec, hg]
  | doRemove t n h =>
    refine dataInv_write hl hd t (by simp [h, wHold]) (by simp [h]) _ _ _ _ _ ?_
    intro hm; rw [← hm]; simp [spec]
  | doClear t h =>
    refine dataInv_write hl hd t (by simp [h, wHold]) (by simp [h]) _ _ _ _ _ ?_
    intro hm; simp [spec]
  | unlock t c r h =>
    have hw : wHold (s.pc t) = true := by simp [h, wHold]
    have hlk := lock_of_wHold hl hw
    have hexcl := (hl.2.1 t hlk).2
    obtain ⟨hres, hmem, hux, hst, hus⟩ := hd
    have hsp := hux t c r h
    have hcalls : ∀ (l : Lock) (pc : Tid → PC), calls ⟨l, s.mem, pc, s.hist, s.lin ++ [(t, c, r)]⟩
        = calls s ++ [c] := by intros; simp [calls]
    have hsp' : ∀ (l : Lock) (pc : Tid → PC),
        specState m0 ⟨l, s.mem, pc, s.hist, s.lin ++ [(t, c, r)]⟩ = s.mem := by
      intro l pc
      simp only [specState, hcalls, runSpec_snoc]
      show (spec (specState m0 s) c).1 = s.mem
      rw [← hsp]
    refine ⟨?_, ?_, ?_, ?_, ?_⟩
    · rw [hcalls, runSpec_snoc]
      show (runSpec m0 (calls s)).2 ++ [(spec (specState m0 s) c).2] = _
      rw [← hsp, hres]; simp [results]
    · intro _; exact (hsp' _ _).symm
    · intro u c' r' hu
      by_cases e : u = t
      · subst e; simp [setPc] at hu
      · simp [setPc, e] at hu
        have := (hexcl u e).1; simp [hu, wHold] at this
    · intro u n' v' hu
      by_cases e : u = t
      · subst e; simp [setPc] at hu
      · simp [setPc, e] at hu
        have := (hexcl u e).1; simp [hu, wHold] at this
    · intro u c' r' hu
      by_cases e : u = t
      · subst e; simp [setPc] at hu
      · simp [setPc, e] at hu
        have := (hexcl u e).2; simp [hu, rHold] at this
  | runlock t c r ts h hlk =>
    obtain ⟨hres, hmem, hux, hst, hus⟩ := hd
    obtain ⟨n, rfl, hr⟩ := hus t c r h
    generalize (if ts.erase t = [] then Lock.free else Lock.shared (ts.erase t)) = l'
    have hcalls : ∀ (l : Lock) (pc : Tid → PC),
        calls ⟨l, s.mem, pc, s.hist, s.lin ++ [(t, .get n, r)]⟩
        = calls s ++ [.get n] := by intros; simp [calls]
    have hsp' : ∀ (l : Lock) (pc : Tid → PC),
        specState m0 ⟨l, s.mem, pc, s.hist, s.lin ++ [(t, .get n, r)]⟩
        = specState m0 s := by
      intro l pc
      unfold specState
      rw [hcalls, runSpec_snoc]
      simp [spec]
    refine ⟨?_, ?_, ?_, ?_, ?_⟩
    · rw [hcalls, runSpec_snoc, hres, hr]
      simp [results, spec, specState]
    · intro hx; rw [hsp']; exact hmem (noX_transfer hx (by simp [h]))
    · intro u c' r' hu
      by_cases e : u = t
      · subst e; simp [setPc] at hu
      · simp [setPc, e] at hu; rw [hsp']; exact hux u c' r' hu
    · intro u n' v' hu
      by_cases e : u = t
      · subst e; simp [setPc] at hu
      · simp [setPc, e] at hu; exact hst u n' v' hu
    · intro u c' r' hu
      by_cases e : u = t
      · subst e; simp [setPc] at hu
      · simp [setPc, e] at hu; rw [hsp']; exact hus u c' r' hu


theorem dataInv_reachable {m0 : Map} {s : State} (h : Reachable m0 s) : DataInv m0 s := by
  induction h with
  | init => exact dataInv_init m0
  | step hr hs ih => exact dataInv_step (lockInv_reachable hr) ih hs

/-- **T2** linearizability: in every reachable state of every interleaving, the results of the
    completed calls are exactly those of the sequential map specification run atomically in
    lock-release order, and the Go map equals the specification's map whenever no writer is inside
    (lock free, or readers only); an in-progress writer is described exactly. -/
theorem linearizable {m0 : Map} {s : State} (h : Reachable m0 s) :
    let calls := s.lin.map (fun x => x.2.1)
    let results := s.lin.map (fun x => x.2.2)
    let specState := (runSpec m0 calls).1
    (runSpec m0 calls).2 = results ∧
    (s.lock = .free → s.mem = specState) ∧
    (∀ ts, s.lock = .shared ts → s.mem = specState) ∧
    (∀ t n v, s.pc t = .regCheck n v → s.mem = specState) ∧
    (∀ t n v, s.pc t = .regStore n v → s.mem = specState ∧ get s.mem n = none) ∧
    (∀ t c, s.pc t = .wrBody c → s.mem = specState) ∧
    (∀ t c r, s.pc t = .unlockX c r → (s.mem, r) = spec specState c) ∧
    (∀ t n, s.pc t = .rdBody n → s.mem = specState) ∧
    (∀ t c r, s.pc t = .unlockS c r → s.mem = specState ∧ ∃ n, c = .get n ∧ r = .svc (get specState n)) := by
  have hl := lockInv_reachable h
  obtain ⟨hres, hmem, hux, hst, hus⟩ := dataInv_reachable h
  refine ⟨hres, ?_, ?_, ?_, ?_, ?_, hux, ?_, ?_⟩
  · intro hf
    apply hmem
    intro u c r hu
    have := (hl.1 hf u).1; simp [hu, wHold] at this
  · intro ts hs
    apply hmem
    intro u c r hu
    have := (hl.2.2 ts hs).2.2.2 u; simp [hu, wHold] at this
  · intro t n v ht
    exact hmem (no_unlockX_of_wHold hl (t := t) (by simp [ht, wHold]) (by simp [ht]))
  · intro t n v ht
    exact ⟨hmem (no_unlockX_of_wHold hl (t := t) (by simp [ht, wHold]) (by simp [ht])), hst t n v ht⟩
  · intro t c ht
    exact hmem (no_unlockX_of_wHold hl (t := t) (by simp [ht, wHold]) (by simp [ht]))
  · intro t n ht
    exact hmem (no_unlockX_of_rHold hl (t := t) (by simp [ht, rHold]))
  · intro t c r ht
    exact ⟨hmem (no_unlockX_of_rHold hl (t := t) (by simp [ht, rHold])), hus t c r ht⟩


/-! ### non-vacuity: explicit reachable states -/

/-- two threads: thread 0 holds the read lock (inside `Get(5)`), thread 1 has invoked
    `Registry(5 ↦ 7)` and is waiting for the lock. -/
def demo1 : State :=
  { lock := .shared [0], mem := [],
    pc := setPc (setPc (setPc (fun _ => .idle) 0 (.want (.get 5))) 0 (.rdBody 5)) 1 (.want (.reg 5 7)),
    hist := [.inv 0 (.get 5), .inv 1 (.reg 5 7)], lin := [] }

theorem demo1_reachable : Reachable [] demo1 :=
  .step (.step (.step .init (Step.invoke _ 0 (.get 5) rfl))
    (Step.rlockFree _ 0 5 rfl rfl))
    (Step.invoke _ 1 (.reg 5 7) rfl)

example : ∃ s, Reachable [] s ∧ s.lock = .shared [0] ∧ rHold (s.pc 0) = true ∧
    s.pc 1 = .want (.reg 5 7) ∧ wHold (s.pc 1) = false :=
  ⟨demo1, demo1_reachable, rfl, by simp [demo1, setPc, rHold], by simp [demo1, setPc],
    by simp [demo1, setPc, wHold]⟩

/-- pc map of a two-thread system -/
def pc2 (p1 p0 : PC) : Tid → PC := fun u => if u = 1 then p1 else if u = 0 then p0 else .idle

theorem setPc_pc2_1 (p1 p0 p : PC) : setPc (pc2 p1 p0) 1 p = pc2 p p0 := by
  funext u; by_cases h : u = 1 <;> simp [setPc, pc2, h]

theorem setPc_pc2_0 (p1 p0 p : PC) : setPc (pc2 p1 p0) 0 p = pc2 p1 p := by
  funext u
  by_cases h : u = 1
  · simp [setPc, pc2, h]
  · by_cases h0 : u = 0 <;> simp [setPc, pc2, h, h0]

theorem init_pc2 (m0 : Map) : init m0 = ⟨.free, m0, pc2 .idle .idle, [], []⟩ := by
  simp only [init, State.mk.injEq, true_and, and_true]
  funext u; simp [pc2]

/-- a longer run: thread 1 completes `Registry(5 ↦ 7)` (returns true), then thread 0 is inside
    `Get(5)` having read `some 7` and still holds the read lock, while thread 1 has invoked
    `Remove(5)` and waits. -/
def demo2 : State :=
  { lock := .shared [0], mem := [(5, 7)],
    pc := pc2 (.want (.remove 5)) (.unlockS (.get 5) (.svc (some 7))),
    hist := [.inv 1 (.reg 5 7), .ret 1 (.reg 5 7) (.bool true), .inv 0 (.get 5), .inv 1 (.remove 5)],
    lin := [(1, .reg 5 7, .bool true)] }

theorem demo2_reachable : Reachable [] demo2 := by
  have h0 : Reachable [] ⟨.free, [], pc2 .idle .idle, [], []⟩ := by
    rw [← init_pc2]; exact .init
  have h1 : Reachable [] ⟨.free, [], pc2 (.want (.reg 5 7)) .idle, [.inv 1 (.reg 5 7)], []⟩ := by
    simpa [setPc_pc2_1] using Reachable.step h0 (Step.invoke _ 1 (.reg 5 7) rfl)
  have h2 : Reachable [] ⟨.excl 1, [], pc2 (.regCheck 5 7) .idle, [.inv 1 (.reg 5 7)], []⟩ := by
    simpa [setPc_pc2_1] using Reachable.step h1 (Step.lockReg _ 1 5 7 rfl rfl)
  have h3 : Reachable [] ⟨.excl 1, [], pc2 (.regStore 5 7) .idle, [.inv 1 (.reg 5 7)], []⟩ := by
    simpa [setPc_pc2_1] using Reachable.step h2 (Step.regAbsent _ 1 5 7 rfl rfl)
  have h4 : Reachable [] ⟨.excl 1, [(5, 7)], pc2 (.unlockX (.reg 5 7) (.bool true)) .idle,
      [.inv 1 (.reg 5 7)], []⟩ := by
    simpa [setPc_pc2_1, insert, erase] using Reachable.step h3 (Step.regStore _ 1 5 7 rfl)
  have h5 : Reachable [] ⟨.free, [(5, 7)], pc2 (.ret (.reg 5 7) (.bool true)) .idle,
      [.inv 1 (.reg 5 7)], [(1, .reg 5 7, .bool true)]⟩ := by
    simpa [setPc_pc2_1] using Reachable.step h4 (Step.unlock _ 1 (.reg 5 7) (.bool true) rfl)
  have h6 : Reachable [] ⟨.free, [(5, 7)], pc2 .idle .idle,
      [.inv 1 (.reg 5 7), .ret 1 (.reg 5 7) (.bool true)], [(1, .reg 5 7, .bool true)]⟩ := by
    simpa [setPc_pc2_1] using Reachable.step h5 (Step.return _ 1 (.reg 5 7) (.bool true) rfl)
  have h7 : Reachable [] ⟨.free, [(5, 7)], pc2 .idle (.want (.get 5)),
      [.inv 1 (.reg 5 7), .ret 1 (.reg 5 7) (.bool true), .inv 0 (.get 5)],
      [(1, .reg 5 7, .bool true)]⟩ := by
    simpa [setPc_pc2_0] using Reachable.step h6 (Step.invoke _ 0 (.get 5) rfl)
  have h8 : Reachable [] ⟨.shared [0], [(5, 7)], pc2 .idle (.rdBody 5),
      [.inv 1 (.reg 5 7), .ret 1 (.reg 5 7) (.bool true), .inv 0 (.get 5)],
      [(1, .reg 5 7, .bool true)]⟩ := by
    simpa [setPc_pc2_0] using Reachable.step h7 (Step.rlockFree _ 0 5 rfl rfl)
  have h9 : Reachable [] ⟨.shared [0], [(5, 7)], pc2 .idle (.unlockS (.get 5) (.svc (some 7))),
      [.inv 1 (.reg 5 7), .ret 1 (.reg 5 7) (.bool true), .inv 0 (.get 5)],
      [(1, .reg 5 7, .bool true)]⟩ := by
    simpa [setPc_pc2_0, get] using Reachable.step h8 (Step.doGet _ 0 5 rfl)
  simpa [setPc_pc2_1, demo2] using Reachable.step h9 (Step.invoke _ 1 (.remove 5) rfl)

/-- `demo2` instantiates T1 and T2 non-trivially: a reader is inside, a writer waits, one call has
    been linearised, and the reader's pending result is the specification's answer. -/
example : rHold (demo2.pc 0) = true ∧ demo2.pc 1 = .want (.remove 5) ∧
    demo2.lin.map (fun x => x.2.1) = [.reg 5 7] ∧
    runSpec [] [.reg 5 7] = ([(5, 7)], [.bool true]) := by
  refine ⟨by simp [demo2, pc2, rHold], by simp [demo2, pc2], rfl, by decide⟩


/-! ## C-a  corollaries about the sequential specification -/

theorem runSpec_length (m : Map) (cs : List Call) : (runSpec m cs).2.length = cs.length := by
  induction cs generalizing m with
  | nil => rfl
  | cons c cs ih => simp [runSpec, ih]

theorem reg_fails_when_present {m : Map} {n : Name} {w : Svc} (v : Svc) (h : get m n = some w) :
    spec m (.reg n v) = (m, .bool false) := by
  simp [spec, h]

theorem reg_succeeds_when_absent {m : Map} {n : Name} (v : Svc) (h : get m n = none) :
    spec m (.reg n v) = (insert m n v, .bool true) := by
  simp [spec, h]

/-- a single call other than `remove n` / `clear` keeps the binding of `n` -/
theorem spec_keeps {m : Map} {n : Name} {w : Svc} (hg : get m n = some w) (c : Call)
    (hc : c ≠ .remove n ∧ c ≠ .clear) : get (spec m c).1 n = some w := by
  cases c with
  | reg n' s =>
    cases hn : get m n' with
    | some x => simp [spec, hn, hg]
    | none =>
      have : n ≠ n' := by intro e; subst e; simp [hg] at hn
      simp [spec, hn, get_insert, this, hg]
  | get n' => simpa [spec] using hg
  | remove n' =>
    have : n ≠ n' := by intro e; subst e; exact hc.1 rfl
    simp [spec, get_erase, this, hg]
  | clear => exact absurd rfl hc.2

/-- once `n` is bound to `w`, until the next `remove n` / `clear`: the binding stays, every
    `reg n _` returns false and every `get n` returns `some w`. -/
theorem present_stable {m : Map} {n : Name} {w : Svc} (cs : List Call) (hg : get m n = some w)
    (hcs : ∀ c ∈ cs, c ≠ .remove n ∧ c ≠ .clear) :
    get (runSpec m cs).1 n = some w ∧
    ∀ c r, (c, r) ∈ cs.zip (runSpec m cs).2 →
      (∀ v', c = .reg n v' → r = .bool false) ∧ (c = .get n → r = .svc (some w)) := by
  induction cs generalizing m with
  | nil => simp [runSpec, hg]
  | cons c cs ih =>
    have hc := hcs c (by simp)
    have hk := spec_keeps hg c hc
    obtain ⟨ih1, ih2⟩ := ih hk (fun c' hc' => hcs c' (by simp [hc']))
    refine ⟨by simpa [runSpec] using ih1, ?_⟩
    intro c' r' hmem
    simp only [runSpec, List.zip_cons_cons, List.mem_cons, Prod.mk.injEq] at hmem
    rcases hmem with ⟨rfl, rfl⟩ | hmem
    · constructor
      · intro v' e; subst e; simp [spec, hg]
      · intro e; subst e; simp [spec, hg]
    · exact ih2 c' r' hmem

theorem get_after_reg (m : Map) {n : Name} (v : Svc) (cs : List Call) (_hg : get m n = none)
    (hcs : ∀ c ∈ cs, c ≠ .remove n ∧ c ≠ .clear) :
    get (runSpec (insert m n v) cs).1 n = some v :=
  (present_stable cs (by simp [get_insert]) hcs).1

/-- **C-a** the winner of a registration race is unique: if `reg n v` finds `n` absent it returns
    true, and until the next `remove n` / `clear` every other `reg n _` returns false and every
    `get n` returns `some v`. -/
theorem reg_winner_unique (m : Map) {n : Name} (v : Svc) (post : List Call) (hg : get m n = none)
    (hpost : ∀ c ∈ post, c ≠ .remove n ∧ c ≠ .clear) :
    (runSpec m (.reg n v :: post)).2.head? = some (.bool true) ∧
    (runSpec m (.reg n v :: post)).2.length = post.length + 1 ∧
    ∀ c r, (c, r) ∈ post.zip (runSpec m (.reg n v :: post)).2.tail →
      (∀ v', c = .reg n v' → r = .bool false) ∧ (c = .get n → r = .svc (some v)) := by
  have h := present_stable (m := insert m n v) (w := v) post (by simp [get_insert]) hpost
  refine ⟨by simp [runSpec, spec, hg], by simp [runSpec_length], ?_⟩
  simpa [runSpec, spec, hg] using h.2

/-- the same, placed anywhere inside a run: `pre ++ reg n v :: post`. -/
theorem reg_winner_unique_run (m : Map) {n : Name} (v : Svc) (pre post : List Call)
    (hg : get (runSpec m pre).1 n = none)
    (hpost : ∀ c ∈ post, c ≠ .remove n ∧ c ≠ .clear) :
    (runSpec m (pre ++ .reg n v :: post)).2 =
      (runSpec m pre).2 ++ .bool true :: (runSpec (insert (runSpec m pre).1 n v) post).2 ∧
    ∀ c r, (c, r) ∈ post.zip (runSpec (insert (runSpec m pre).1 n v) post).2 →
      (∀ v', c = .reg n v' → r = .bool false) ∧ (c = .get n → r = .svc (some v)) := by
  refine ⟨by simp [runSpec_append, runSpec, spec, hg], ?_⟩
  exact (present_stable post (by simp [get_insert]) hpost).2

example : get ([] : Map) 5 = none ∧ (∀ c ∈ [Call.reg 5 9, .get 5, .remove 3], c ≠ .remove 5 ∧ c ≠ .clear) ∧
    runSpec [] [.reg 5 7, .reg 5 9, .get 5, .remove 3] =
      ([(5, 7)], [.bool true, .bool false, .svc (some 7), .unit]) := by decide


/-! ## T3  real-time order -/

/-- `e` is an invocation event of thread `t` -/
def isInvOf (t : Tid) : Event → Bool
  | .inv t' _ => t' == t
  | _ => false

/-- the thread has invoked a call that has not yet released the lock -/
def pending : PC → Bool
  | .idle | .ret _ _ => false
  | _ => true

def HistInv (s : State) : Prop :=
  (∀ t, s.hist.countP (isInvOf t) =
      s.lin.countP (fun x => x.1 == t) + (if pending (s.pc t) = true then 1 else 0)) ∧
  (∀ t c r, s.hist.count (.ret t c r) + (if s.pc t = .ret c r then 1 else 0) = s.lin.count (t, c, r))

theorem histInv_init (m0 : Map) : HistInv (init m0) := by
  simp [HistInv, init, pending]

theorem pending_not_ret {p : PC} (h : pending p = true) (c : Call) (r : Res) : p ≠ .ret c r := by
  intro e; subst e; simp [pending] at h

theorem histInv_internal {s : State} (hi : HistInv s) (t : Tid) (p : PC) (l : Lock) (m : Map)
    (hold : pending (s.pc t) = true) (hnew : pending p = true) :
    HistInv ⟨l, m, setPc s.pc t p, s.hist, s.lin⟩ := by
  obtain ⟨ha, hb⟩ := hi
  constructor
  · intro u
    have := ha u
    by_cases e : u = t
    · subst e; simpa [setPc, hold, hnew] using this
    · simpa [setPc, e] using this
  · intro u c r
    have := hb u c r
    by_cases e : u = t
    · subst e
      simpa [setPc, pending_not_ret hold c r, pending_not_ret hnew c r] using this
    · simpa [setPc, e] using this

theorem count_single (u u' : Tid) (c c' : Call) (r r' : Res) :
    List.count (u', c', r') [(u, c, r)] = if u = u' ∧ c = c' ∧ r = r' then 1 else 0 := by
  simp [List.count_singleton]

/-- the lock-release step (`unlock` / `runlock`): `lin` grows by `(t, c, r)`, thread moves to `ret` -/
theorem histInv_release {s : State} (hi : HistInv s) (t : Tid) (c : Call) (r : Res) (l : Lock)
    (hold : pending (s.pc t) = true) :
    HistInv ⟨l, s.mem, setPc s.pc t (.ret c r), s.hist, s.lin ++ [(t, c, r)]⟩ := by
  obtain ⟨ha, hb⟩ := hi
  constructor
  · intro u
    have := ha u
    by_cases e : u = t
    · subst e; simp [hold] at this; simp [setPc, pending, List.countP_append, this]
    · have e' : ¬ t = u := fun x => e x.symm
      simpa [setPc, e, e', List.countP_append] using this
  · intro u c' r'
    have := hb u c' r'
    by_cases e : u = t
    · subst e
      simp [pending_not_ret hold] at this
      simp [setPc, List.count_append, this, count_single]
    · have e' : ¬ t = u := fun x => e x.symm
      simpa [setPc, e, e', List.count_append, count_single] using this

theorem histInv_step {s s' : State} (hi : HistInv s) (hs : Step s s') : HistInv s' := by
  cases hs with
  | lockReg t n v h _ => exact histInv_internal hi t _ _ _ (by simp [h, pending]) (by simp [pending])
  | lockWr t c h _ _ => exact histInv_internal hi t _ _ _ (by simp [h, pending]) (by simp [pending])
  | rlockFree t n h _ => exact histInv_internal hi t _ _ _ (by simp [h, pending]) (by simp [pending])
  | rlockShared t n ts h _ => exact histInv_internal hi t _ _ _ (by simp [h, pending]) (by simp [pending])
  | regExists t n v w h _ => exact histInv_internal hi t _ _ _ (by simp [h, pending]) (by simp [pending])
  | regAbsent t n v h _ => exact histInv_internal hi t _ _ _ (by simp [h, pending]) (by simp [pending])
  | regStore t n v h => exact histInv_internal hi t _ _ _ (by simp [h, pending]) (by simp [pending])
  | doRemove t n h => exact histInv_internal hi t _ _ _ (by simp [h, pending]) (by simp [pending])
  | doClear t h => exact histInv_internal hi t _ _ _ (by simp [h, pending]) (by simp [pending])
  | doGet t n h => exact histInv_internal hi t _ _ _ (by simp [h, pending]) (by simp [pending])
  | invoke t c h =>
    obtain ⟨ha, hb⟩ := hi
    constructor
    · intro u
      have := ha u
      by_cases e : u = t
      · subst e; simp [h, pending] at this; simp [setPc, pending, isInvOf, List.countP_append, this]
      · have e' : ¬ t = u := fun x => e x.symm
        simpa [setPc, e, e', isInvOf, List.countP_append] using this
    · intro u c' r'
      have := hb u c' r'
      by_cases e : u = t
      · subst e; simp [h] at this; simp [setPc, List.count_append, this]
      · simpa [setPc, e, List.count_append] using this
  | unlock t c r h => exact histInv_release hi t c r _ (by simp [h, pending])
  | runlock t c r ts h _ => exact histInv_release hi t c r _ (by simp [h, pending])
  | «return» t c r h =>
    obtain ⟨ha, hb⟩ := hi
    constructor
    · intro u
      have := ha u
      by_cases e : u = t
      · subst e; simp [h, pending] at this; simp [setPc, pending, isInvOf, List.countP_append, this]
      · simpa [setPc, e, isInvOf, List.countP_append] using this
    · intro u c' r'
      have := hb u c' r'
      by_cases e : u = t
      · subst e
        simp [h] at this
        simp [setPc, List.count_append, List.count_singleton, ← this]
      · have e' : ¬ t = u := fun x => e x.symm
        simpa [setPc, e, e', List.count_append, List.count_singleton] using this


theorem histInv_reachable {m0 : Map} {s : State} (h : Reachable m0 s) : HistInv s := by
  induction h with
  | init => exact histInv_init m0
  | step _ hs ih => exact histInv_step ih hs

/-- every return event in the history is matched, with multiplicity, by an entry of `lin`:
    a call has released the lock (= taken effect) before it returns. -/
theorem ret_count_le_lin {m0 : Map} {s : State} (h : Reachable m0 s) (t : Tid) (c : Call) (r : Res) :
    s.hist.count (.ret t c r) ≤ s.lin.count (t, c, r) := by
  have := (histInv_reachable h).2 t c r
  omega

theorem ret_mem_lin {m0 : Map} {s : State} (h : Reachable m0 s) {t : Tid} {c : Call} {r : Res}
    (hm : Event.ret t c r ∈ s.hist) : (t, c, r) ∈ s.lin := by
  have h1 := ret_count_le_lin h t c r
  have h2 : 0 < s.hist.count (.ret t c r) := List.count_pos_iff.mpr hm
  exact List.count_pos_iff.mp (by omega)

/-- per thread: #invocations = #linearised calls (+1 if a call is in progress and has not yet
    released the lock).  Threads are sequential and each call is linearised exactly once. -/
theorem inv_count_eq {m0 : Map} {s : State} (h : Reachable m0 s) (t : Tid) :
    s.hist.countP (isInvOf t) =
      s.lin.countP (fun x => x.1 == t) + (if pending (s.pc t) = true then 1 else 0) :=
  (histInv_reachable h).1 t

/-- **T3 (step form)**: at the moment a call `c'` is invoked by `t'`, every call that has already
    returned (its `.ret` event is in `s.hist`) already has its entry in `s.lin` (with multiplicity),
    `lin` is unchanged by the invocation, and none of the entries of `t'` in `lin` belongs to the new
    call (there are exactly as many as earlier invocations of `t'`).  Since `lin` only grows by
    appending at lock release, the entry of the new call comes after all of them. -/
theorem ret_before_inv_lin {m0 : Map} {s s' : State} (h : Reachable m0 s) (hs : Step s s')
    {t' : Tid} {c' : Call} (hinv : s'.hist = s.hist ++ [.inv t' c']) :
    (∀ t c r, s.hist.count (.ret t c r) ≤ s.lin.count (t, c, r)) ∧
    (∀ t c r, Event.ret t c r ∈ s.hist → (t, c, r) ∈ s.lin) ∧
    s'.lin = s.lin ∧
    s.lin.countP (fun x => x.1 == t') = s.hist.countP (isInvOf t') ∧
    s.pc t' = .idle ∧ s'.pc t' = .want c' := by
  refine ⟨ret_count_le_lin h, fun t c r => ret_mem_lin h, ?_⟩
  have ha := inv_count_eq h
  cases hs with
  | invoke t c hp =>
    simp at hinv
    obtain ⟨rfl, rfl⟩ := hinv
    have := ha t
    simp [hp, pending] at this
    exact ⟨rfl, this.symm, hp, by simp [setPc]⟩
  | «return» t c r hp => simp at hinv
  | _ => simp at hinv


/-- real-time order, state form: for every invocation event in the history there is a cut of `lin`
    such that everything that returned before the invocation is (with multiplicity) before the
    cut, and the invoking thread has exactly as many entries before the cut as it had earlier
    invocations -- so the entry of *this* invocation (the next entry of that thread) is after the
    cut. -/
def RTO (s : State) : Prop :=
  ∀ h1 t' c' h3, s.hist = h1 ++ Event.inv t' c' :: h3 →
    ∃ l1 l2, s.lin = l1 ++ l2 ∧
      (∀ t c r, h1.count (.ret t c r) ≤ l1.count (t, c, r)) ∧
      l1.countP (fun x => x.1 == t') = h1.countP (isInvOf t')

theorem snoc_eq_split {α : Type} {h h1 h3 : List α} {e a : α} (hh : h ++ [e] = h1 ++ a :: h3) :
    (h3 = [] ∧ h = h1 ∧ e = a) ∨ ∃ h3', h3 = h3' ++ [e] ∧ h = h1 ++ a :: h3' := by
  rcases List.eq_nil_or_concat h3 with rfl | ⟨L, b, rfl⟩
  · left
    have := List.append_inj' hh rfl
    simp at this
    exact ⟨rfl, this.1, this.2⟩
  · right
    have hh' : h ++ [e] = (h1 ++ a :: L) ++ [b] := by simpa using hh
    have := List.append_inj' hh' rfl
    simp at this
    exact ⟨L, by simp [this.2], by simp [this.1]⟩

theorem rto_init (m0 : Map) : RTO (init m0) := by
  intro h1 t' c' h3 hh
  simp [init] at hh

theorem rto_lin_snoc {s : State} (hr : RTO s) (l : Lock) (m : Map) (pc : Tid → PC)
    (x : Tid × Call × Res) : RTO ⟨l, m, pc, s.hist, s.lin ++ [x]⟩ := by
  intro h1 t' c' h3 hh
  obtain ⟨l1, l2, e, a, b⟩ := hr h1 t' c' h3 hh
  exact ⟨l1, l2 ++ [x], by simp [e], a, b⟩

theorem rto_step {s s' : State} (hi : HistInv s) (hr : RTO s) (hs : Step s s') : RTO s' := by
  cases hs with
  | unlock t c r h => exact rto_lin_snoc hr _ _ _ _
  | runlock t c r ts h _ => exact rto_lin_snoc hr _ _ _ _
  | invoke t c hp =>
    intro h1 t' c' h3 hh
    rcases snoc_eq_split hh with ⟨-, rfl, e⟩ | ⟨h3', -, e⟩
    · injection e with e1 e2
      subst e1 e2
      refine ⟨s.lin, [], by simp, ?_, ?_⟩
      · intro u c r
        have := hi.2 u c r
        omega
      · have := hi.1 t
        simp [hp, pending] at this
        exact this.symm
    · exact hr h1 t' c' h3' e
  | «return» t c r hp =>
    intro h1 t' c' h3 hh
    rcases snoc_eq_split hh with ⟨-, -, e⟩ | ⟨h3', -, e⟩
    · cases e
    · exact hr h1 t' c' h3' e
  | _ => exact hr

theorem rto_reachable {m0 : Map} {s : State} (h : Reachable m0 s) : RTO s := by
  induction h with
  | init => exact rto_init m0
  | step hr hs ih => exact rto_step (histInv_reachable hr) ih hs

/-- **T3 (state form)** `real_time_order`: in every reachable state, for every invocation event
    `.inv t' c'` in the history (`hist = h1 ++ .inv t' c' :: h3`) the list `lin` splits as
    `l1 ++ l2` such that
    * every call that returned before that invocation (`.ret t c r ∈ h1`) has its entry in `l1`
      (with multiplicity: the k-th return of `(t,c,r)` is covered by a k-th entry);
    * `l1` contains exactly as many entries of `t'` as `t'` had invocations before this one, and
      (by `inv_count_eq`) the entries of `t'` in `lin` correspond one-to-one, in order, to its
      invocations; hence the entry of this invocation -- if it exists yet -- lies in `l2`,
      i.e. strictly after the entries of all calls that returned before it was invoked. -/
theorem real_time_order {m0 : Map} {s : State} (h : Reachable m0 s)
    {h1 h3 : List Event} {t' : Tid} {c' : Call} (hh : s.hist = h1 ++ Event.inv t' c' :: h3) :
    ∃ l1 l2, s.lin = l1 ++ l2 ∧
      (∀ t c r, h1.count (.ret t c r) ≤ l1.count (t, c, r)) ∧
      (∀ t c r, Event.ret t c r ∈ h1 → (t, c, r) ∈ l1) ∧
      l1.countP (fun x => x.1 == t') = h1.countP (isInvOf t') ∧
      l2.countP (fun x => x.1 == t') + (if pending (s.pc t') = true then 1 else 0)
        = (Event.inv t' c' :: h3).countP (isInvOf t') := by
  obtain ⟨l1, l2, e, a, b⟩ := rto_reachable h h1 t' c' h3 hh
  refine ⟨l1, l2, e, a, ?_, b, ?_⟩
  · intro t c r hm
    have h2 : 0 < h1.count (.ret t c r) := List.count_pos_iff.mpr hm
    have := a t c r
    exact List.count_pos_iff.mp (by omega)
  · have := inv_count_eq h t'
    rw [hh, e, List.countP_append, List.countP_append] at this
    omega


/-! ### per-thread projections: `lin` and `hist` agree thread by thread -/

def invCall (t : Tid) : Event → Option Call
  | .inv t' c => if t' = t then some c else none
  | _ => none

def retOf (t : Tid) : Event → Option (Call × Res)
  | .ret t' c r => if t' = t then some (c, r) else none
  | _ => none

/-- the call a thread is executing and has not yet linearised -/
def pcCall : PC → Option Call
  | .idle => none
  | .want c => some c
  | .regCheck n v => some (.reg n v)
  | .regStore n v => some (.reg n v)
  | .wrBody c => some c
  | .rdBody n => some (.get n)
  | .unlockX c _ => some c
  | .unlockS c _ => some c
  | .ret _ _ => none

/-- the call a thread has linearised but not yet returned from -/
def pcRet : PC → Option (Call × Res)
  | .ret c r => some (c, r)
  | _ => none

def SeqInv (s : State) : Prop :=
  ∀ t,
    s.hist.filterMap (invCall t) =
      (s.lin.filter (fun x => x.1 == t)).map (fun x => x.2.1) ++ (pcCall (s.pc t)).toList ∧
    s.hist.filterMap (retOf t) ++ (pcRet (s.pc t)).toList =
      (s.lin.filter (fun x => x.1 == t)).map (fun x => x.2)

theorem filterMap_single {α β : Type} (f : α → Option β) (a : α) :
    List.filterMap f [a] = (f a).toList := by
  cases h : f a <;> simp [h]

theorem seqInv_init (m0 : Map) : SeqInv (init m0) := by
  intro t; simp [init, pcCall, pcRet]

theorem seqInv_internal {s : State} (hi : SeqInv s) (t : Tid) (p : PC) (l : Lock) (m : Map)
    (hc : pcCall p = pcCall (s.pc t)) (hr1 : pcRet (s.pc t) = none) (hr2 : pcRet p = none) :
    SeqInv ⟨l, m, setPc s.pc t p, s.hist, s.lin⟩ := by
  intro u
  have := hi u
  by_cases e : u = t
  · subst e; simpa [setPc, hc, hr1, hr2] using this
  · simpa [setPc, e] using this

theorem seqInv_release {s : State} (hi : SeqInv s) (t : Tid) (c : Call) (r : Res) (l : Lock)
    (hc : pcCall (s.pc t) = some c) (hr1 : pcRet (s.pc t) = none) :
    SeqInv ⟨l, s.mem, setPc s.pc t (.ret c r), s.hist, s.lin ++ [(t, c, r)]⟩ := by
  intro u
  have := hi u
  by_cases e : u = t
  · subst e
    simp [hc, hr1] at this
    simp [setPc, pcCall, pcRet, List.filter_append, this]
  · have e' : ¬ t = u := fun x => e x.symm
    simpa [setPc, e, e', List.filter_append] using this

theorem seqInv_step {s s' : State} (hi : SeqInv s) (hs : Step s s') : SeqInv s' := by
  cases hs with
  | lockReg t n v h _ => exact seqInv_internal hi t _ _ _ (by simp [h, pcCall]) (by simp [h, pcRet]) rfl
  | lockWr t c h _ _ => exact seqInv_internal hi t _ _ _ (by simp [h, pcCall]) (by simp [h, pcRet]) rfl
  | rlockFree t n h _ => exact seqInv_internal hi t _ _ _ (by simp [h, pcCall]) (by simp [h, pcRet]) rfl
  | rlockShared t n ts h _ => exact seqInv_internal hi t _ _ _ (by simp [h, pcCall]) (by simp [h, pcRet]) rfl
  | regExists t n v w h _ => exact seqInv_internal hi t _ _ _ (by simp [h, pcCall]) (by simp [h, pcRet]) rfl
  | regAbsent t n v h _ => exact seqInv_internal hi t _ _ _ (by simp [h, pcCall]) (by simp [h, pcRet]) rfl
  | regStore t n v h => exact seqInv_internal hi t _ _ _ (by simp [h, pcCall]) (by simp [h, pcRet]) rfl
  | doRemove t n h => exact seqInv_internal hi t _ _ _ (by simp [h, pcCall]) (by simp [h, pcRet]) rfl
  | doClear t h => exact seqInv_internal hi t _ _ _ (by simp [h, pcCall]) (by simp [h, pcRet]) rfl
  | doGet t n h => exact seqInv_internal hi t _ _ _ (by simp [h, pcCall]) (by simp [h, pcRet]) rfl
  | unlock t c r h => exact seqInv_release hi t c r _ (by simp [h, pcCall]) (by simp [h, pcRet])
  | runlock t c r ts h _ => exact seqInv_release hi t c r _ (by simp [h, pcCall]) (by simp [h, pcRet])
  | invoke t c h =>
    intro u
    have := hi u
    by_cases e : u = t
    · subst e
      simp [h, pcCall, pcRet] at this
      simp [setPc, pcCall, pcRet, invCall, retOf, List.filterMap_append, filterMap_single, this]
    · have e' : ¬ t = u := fun x => e x.symm
      simpa [setPc, e, e', invCall, retOf, List.filterMap_append, filterMap_single] using this
  | «return» t c r h =>
    intro u
    have := hi u
    by_cases e : u = t
    · subst e
      simp [h, pcCall, pcRet] at this
      simp [setPc, pcCall, pcRet, invCall, retOf, List.filterMap_append, filterMap_single, this]
    · have e' : ¬ t = u := fun x => e x.symm
      simpa [setPc, e, e', invCall, retOf, List.filterMap_append, filterMap_single] using this

/-- `lin` is a sequential history that agrees with `hist` thread by thread: for each thread, the
    calls it invoked are, in order, its entries in `lin` followed by the call still in progress
    (if any), and the (call, result) pairs it returned are, in order, its entries in `lin` except
    possibly the last one (released but not yet returned). -/
theorem thread_projection {m0 : Map} {s : State} (h : Reachable m0 s) (t : Tid) :
    s.hist.filterMap (invCall t) =
      (s.lin.filter (fun x => x.1 == t)).map (fun x => x.2.1) ++ (pcCall (s.pc t)).toList ∧
    s.hist.filterMap (retOf t) ++ (pcRet (s.pc t)).toList =
      (s.lin.filter (fun x => x.1 == t)).map (fun x => x.2) := by
  have : SeqInv s := by
    induction h with
    | init => exact seqInv_init m0
    | step _ hs ih => exact seqInv_step ih hs
  exact this t


/-! ### non-vacuity for T3 on `demo2` -/

/-- in `demo2` thread 1's `Registry` returned before thread 0 invoked `Get(5)`; the hypotheses of
    `real_time_order` hold with `h1 = [inv 1 reg, ret 1 reg true]`, and the entry of the returned
    call is indeed in `lin` (the cut is `l1 = lin`, `l2 = []`). -/
example : demo2.hist = [.inv 1 (.reg 5 7), .ret 1 (.reg 5 7) (.bool true)] ++
      Event.inv 0 (.get 5) :: [.inv 1 (.remove 5)] ∧
    Event.ret 1 (.reg 5 7) (.bool true) ∈ [Event.inv 1 (.reg 5 7), .ret 1 (.reg 5 7) (.bool true)] ∧
    (1, Call.reg 5 7, Res.bool true) ∈ demo2.lin := by
  refine ⟨rfl, by simp, by simp [demo2]⟩

example : ∃ l1 l2, demo2.lin = l1 ++ l2 ∧ (1, Call.reg 5 7, Res.bool true) ∈ l1 := by
  obtain ⟨l1, l2, e, _, hm, _⟩ := real_time_order demo2_reachable
    (h1 := [.inv 1 (.reg 5 7), .ret 1 (.reg 5 7) (.bool true)]) (t' := 0) (c' := .get 5)
    (h3 := [.inv 1 (.remove 5)]) rfl
  exact ⟨l1, l2, e, hm 1 _ _ (by simp)⟩

/-- a concrete invoke step satisfying the hypotheses of `ret_before_inv_lin` -/
example : ∃ s', Step demo2 s' ∧ s'.hist = demo2.hist ++ [.inv 2 .clear] :=
  ⟨_, Step.invoke demo2 2 .clear (by simp [demo2, pc2]), rfl⟩

end FinProto.Reg
