/-
  Property C08: whatever bytes a decoder accepts, re-encoding the decoded message reproduces exactly
  those bytes (and leaves the message unchanged).  Proofs only; generic over `env : Env`.
  `FinProto.Pinned` (imported through `DecLemmas`) is used ONLY in the non-vacuity `example`s.
-/
import FinProto.Props.PrimLemmas
import FinProto.Props.DecLemmas
import FinProto.Props.EncLemmas
namespace FinProto

/-! ## 0. a slightly stronger inversion of a successful union decode than `dec_union_ok` -/

theorem dec_union_ok' {env : Env} {f key tbl : Nat} {g : Guard} {acc : List Val} {b r : Bytes} {v : Val}
    (h : decOp env (decTy env f) acc (.union key tbl g) b = .ok (v, r)) :
    ∃ ty fs, unionTy env key tbl acc = some ty ∧ v = .msg ty fs ∧ decTy env f ty b = .ok (v, r) := by
  obtain ⟨ty, fs, hu, rfl⟩ := dec_union_ok h
  simp only [decOp, hu, optR_some] at h
  exact ⟨ty, fs, hu, rfl, h⟩

/-! ## 1. `eraseG`: what `mirrorOK` relates -/

/-- two statements with the same guard-erased form are equal up to the guard of a `nested` / `union` -/
theorem eraseG_eq {op op' : Op} (h : op'.eraseG = op.eraseG) :
    op' = op ∨ (∃ ty g g', op = .nested ty g ∧ op' = .nested ty g') ∨
      (∃ k t g g', op = .union k t g ∧ op' = .union k t g') := by
  cases op <;> cases op' <;> simp only [Op.eraseG, reduceCtorEq, Op.nested.injEq, Op.union.injEq,
    Op.scalar.injEq, Op.fixed.injEq, Op.vstr.injEq, Op.nums.injEq, Op.fixeds.injEq, Op.vstrs.injEq,
    Op.objs.injEq] at h <;> simp_all

/-- the decoder ignores the nil-handling annotation -/
theorem decOp_eraseG (env : Env) (dT : Nat → R Val) (acc : List Val) {op op' : Op}
    (h : op'.eraseG = op.eraseG) : decOp env dT acc op' = decOp env dT acc op := by
  rcases eraseG_eq h with rfl | ⟨ty, g, g', rfl, rfl⟩ | ⟨k, t, g, g', rfl, rfl⟩ <;> rfl

theorem decSeq_eraseG (env : Env) (dT : Nat → R Val) :
    ∀ (ops ops' : List Op) (acc : List Val), ops'.map Op.eraseG = ops.map Op.eraseG →
      decSeq (decOp env dT) ops' acc = decSeq (decOp env dT) ops acc
  | [], [], _, _ => rfl
  | [], _ :: _, _, h => by simp at h
  | _ :: _, [], _, h => by simp at h
  | op :: ops, op' :: ops', acc, h => by
    simp only [List.map_cons, List.cons.injEq] at h
    simp only [decSeq, decOp_eraseG env dT acc h.1]
    congr 1
    funext v
    exact decSeq_eraseG env dT ops ops' (acc ++ [v]) h.2

/-- splitting a successful run of a statement list -/
theorem decSeq_append_ok {step : List Val → Op → R Val} :
    ∀ (o1 o2 : List Op) (acc : List Val) (b : Bytes) (fs : List Val) (r : Bytes),
      decSeq step (o1 ++ o2) acc b = .ok (fs, r) →
      ∃ a b', decSeq step o1 acc b = .ok (a, b') ∧ decSeq step o2 a b' = .ok (fs, r)
  | [], o2, acc, b, fs, r, h => ⟨acc, b, rfl, h⟩
  | op :: o1, o2, acc, b, fs, r, h => by
    simp only [List.cons_append, decSeq] at h
    obtain ⟨v, b1, h1, h2⟩ := bindR_eq_ok.mp h
    obtain ⟨a, b', h3, h4⟩ := decSeq_append_ok o1 o2 (acc ++ [v]) b1 fs r h2
    exact ⟨a, b', by simp only [decSeq]; exact bindR_eq_ok.mpr ⟨v, b1, h1, h3⟩, h4⟩

/-! ## 2. side conditions unpacked -/

theorem mirrorOK_td {env : Env} (hm : env.mirrorOK = true) {ty : Nat} {td : TyDef}
    (htd : env.types[ty]? = some td) : td.mirrorOK = true :=
  List.all_eq_true.mp hm td (List.mem_of_getElem? htd)

theorem mirrorOK_plain {env : Env} (hm : env.mirrorOK = true) {ty : Nat} {td : TyDef}
    (htd : env.types[ty]? = some td) (hfr : td.frame = none) :
    td.enc.map Op.eraseG = td.dec.map Op.eraseG := by
  have := mirrorOK_td hm htd
  simp only [TyDef.mirrorOK, hfr, Bool.and_eq_true, beq_iff_eq] at this
  exact this.1

/-- a body type selected through a discriminator table is never a self-measuring frame -/
theorem unionTy_not_frame {env : Env} (hft : env.framesTop = true) {key tbl : Nat} {all : List Val} {t : Nat}
    (h : unionTy env key tbl all = some t) : env.isFrame t = false := by
  simp only [unionTy, Option.bind_eq_some_iff] at h
  obtain ⟨k, _, hk⟩ := h
  simp only [Env.lookup] at hk
  split at hk
  · rename_i tb htb
    obtain ⟨k', hmem⟩ := lookupKey_mem hk
    rw [List.mem_reverse] at hmem
    simp only [Env.framesTop, Bool.and_eq_true, List.all_eq_true] at hft
    have := hft.1 tb (List.mem_of_getElem? htb) (k', t) hmem
    simpa using this
  · cases hk

/-- what `framesTop` says about one statement -/
def Op.plainRefs (env : Env) : Op → Prop
  | .nested ty _ => env.isFrame ty = false
  | .objs _ ty _ => env.isFrame ty = false
  | _ => True

theorem framesTop_dec {env : Env} (hft : env.framesTop = true) {ty : Nat} {td : TyDef}
    (htd : env.types[ty]? = some td) : ∀ op ∈ td.dec, Op.plainRefs env op := by
  intro op hop
  simp only [Env.framesTop, Bool.and_eq_true, List.all_eq_true] at hft
  have := hft.2 td (List.mem_of_getElem? htd) op (List.mem_append_left _ hop)
  cases op <;> simp_all [Op.plainRefs]

/-! ## 3. the compositional round-trip predicate -/

/-- every input `rd` accepts is `consumed ++ rest`, and `wr` applied to the decoded value appends exactly
    `consumed` to any buffer and returns the value unchanged -/
def RT {α : Type} (rd : R α) (wr : α → E α) : Prop :=
  ∀ b v r, rd b = .ok (v, r) → ∃ c, b = c ++ r ∧ ∀ pre, wr v pre = .ok (v, pre ++ c)

/-- leaf form: a primitive reader against a primitive writer lifted with `emit` -/
theorem RT_emit {α : Type} {rd : R α} {w : α → Outcome Bytes} {k : α → Val}
    (hleaf : ∀ b a r, rd b = .ok (a, r) → ∃ c, b = c ++ r ∧ w a = .ok c) :
    ∀ b v r, mapR k rd b = .ok (v, r) →
      ∃ a c, v = k a ∧ b = c ++ r ∧ ∀ pre, emit (k a) (w a) pre = .ok (k a, pre ++ c) := by
  intro b v r h
  obtain ⟨a, ha, rfl⟩ := mapR_eq_ok.mp h
  obtain ⟨c, hb, hw⟩ := hleaf b a r ha
  exact ⟨a, c, rfl, hb, fun pre => by simp only [emit, hw, Outcome.map_ok]⟩

/-- repeating groups: `decRep` against `encAll` (order preserved, nothing dropped) -/
theorem encAll_decRep {elem : R Val} {enc : Val → E Val} (helem : RT elem enc) :
    ∀ (k : Nat) (b : Bytes) (l : List Val) (rest : Bytes), decRep elem k b = .ok (l, rest) →
      l.length = k ∧ ∃ c, b = c ++ rest ∧ ∀ pre, encAll enc l pre = .ok (l, pre ++ c)
  | 0, b, l, rest, h => by
    simp only [decRep, pureR_apply, Outcome.ok.injEq, Prod.mk.injEq] at h
    obtain ⟨rfl, rfl⟩ := h
    exact ⟨rfl, [], rfl, fun pre => by simp only [encAll, List.append_nil]⟩
  | k+1, b, l, rest, h => by
    simp only [decRep] at h
    obtain ⟨a, b', h1, h2⟩ := bindR_eq_ok.mp h
    obtain ⟨l', h3, rfl⟩ := mapR_eq_ok.mp h2
    obtain ⟨c1, hb, hc1⟩ := helem b a b' h1
    obtain ⟨hl', c2, hb', hc2⟩ := encAll_decRep helem k b' l' rest h3
    refine ⟨by rw [List.length_cons, hl'], c1 ++ c2, by rw [hb, hb', List.append_assoc], fun pre => ?_⟩
    simp only [encAll, bindE, hc1 pre, Outcome.bind_ok, mapE, hc2 (pre ++ c1), Outcome.map_ok,
      List.append_assoc]

/-- `readList` against the encoder of a repeating group -/
theorem encObjs_readList {elem : R Val} {enc : Val → E Val} (helem : RT elem enc) {cw : Nat} {e : Endian}
    {b : Bytes} {l : List Val} {rest : Bytes} (h : readList cw e elem b = .ok (l, rest)) :
    ∃ c, b = c ++ rest ∧ ∀ pre,
      bindE (emit () (writeLen cw e l.length)) (fun _ => mapE Val.msgs (encAll enc l)) pre
        = .ok (.msgs l, pre ++ c) := by
  unfold readList at h
  obtain ⟨count, b', h1, h2⟩ := bindR_eq_ok.mp h
  obtain ⟨hb, hcount⟩ := readScalar_eq_ok h1
  obtain ⟨_, h2⟩ := lenGuard_eq_ok h2
  obtain ⟨hl, c, hb', hc⟩ := encAll_decRep helem _ _ _ _ h2
  refine ⟨toE e cw count ++ c, by rw [hb, hb', List.append_assoc]; rfl, fun pre => ?_⟩
  have hw : writeLen cw e l.length = .ok (toE e cw count) := by rw [hl]; exact writeLen_ok hcount
  simp only [bindE, emit, hw, Outcome.map_ok, Outcome.bind_ok, mapE, hc (pre ++ toE e cw count),
    List.append_assoc]

/-! ## 4. one statement -/

/-- one decoder statement against the mirrored encoder statement.  `all` (the field list the encoder's
    union would consult for an ABSENT body) is arbitrary: a decoded body is never absent. -/
theorem dec_enc_op {env : Env} (hft : env.framesTop = true) {f : Nat}
    (ih : ∀ ty, env.isFrame ty = false → RT (decTy env f ty) (encTy env f ty))
    {op op' : Op} (he : op'.eraseG = op.eraseG) (hop : Op.plainRefs env op)
    (zero : Nat → Val) (acc all : List Val) :
    RT (decOp env (decTy env f) acc op) (encOp env (encTy env f) zero all op') := by
  intro b v r h
  cases op with
  | scalar w e =>
    obtain rfl : op' = .scalar w e := by
      rcases eraseG_eq he with h | ⟨_, _, _, h, _⟩ | ⟨_, _, _, _, h, _⟩ <;> first | exact h | cases h
    simp only [decOp] at h
    obtain ⟨n, c, rfl, hb, hw⟩ := RT_emit (w := fun n => .ok (writeScalar w e n))
      (fun b n r hb => ⟨_, (readScalar_eq_ok hb).1, rfl⟩) b v r h
    exact ⟨c, hb, fun pre => by simp only [encOp]; exact hw pre⟩
  | fixed n pad left =>
    obtain rfl : op' = .fixed n pad left := by
      rcases eraseG_eq he with h | ⟨_, _, _, h, _⟩ | ⟨_, _, _, _, h, _⟩ <;> first | exact h | cases h
    simp only [decOp] at h
    obtain ⟨s, c, rfl, hb, hw⟩ := RT_emit (w := fun s => .ok (writeFixed n (UInt8.ofNat pad) left s))
      (fun b s r hb => ⟨_, (writeFixed_readFixed hb).1, rfl⟩) b v r h
    exact ⟨c, hb, fun pre => by simp only [encOp]; exact hw pre⟩
  | vstr pw e =>
    obtain rfl : op' = .vstr pw e := by
      rcases eraseG_eq he with h | ⟨_, _, _, h, _⟩ | ⟨_, _, _, _, h, _⟩ <;> first | exact h | cases h
    simp only [decOp] at h
    obtain ⟨s, c, rfl, hb, hw⟩ := RT_emit (w := writeVstr pw e)
      (fun b s r hb => writeVstr_readVstr hb) b v r h
    exact ⟨c, hb, fun pre => by simp only [encOp]; exact hw pre⟩
  | nums cw w e =>
    obtain rfl : op' = .nums cw w e := by
      rcases eraseG_eq he with h | ⟨_, _, _, h, _⟩ | ⟨_, _, _, _, h, _⟩ <;> first | exact h | cases h
    simp only [decOp] at h
    obtain ⟨s, c, rfl, hb, hw⟩ := RT_emit (w := writeNums cw w e)
      (fun b s r hb => writeNums_readNums hb) b v r h
    exact ⟨c, hb, fun pre => by simp only [encOp]; exact hw pre⟩
  | fixeds cw n pad left e =>
    obtain rfl : op' = .fixeds cw n pad left e := by
      rcases eraseG_eq he with h | ⟨_, _, _, h, _⟩ | ⟨_, _, _, _, h, _⟩ <;> first | exact h | cases h
    simp only [decOp] at h
    obtain ⟨s, c, rfl, hb, hw⟩ := RT_emit (w := writeFixeds cw n (UInt8.ofNat pad) left e)
      (fun b s r hb => writeFixeds_readFixeds hb) b v r h
    exact ⟨c, hb, fun pre => by simp only [encOp]; exact hw pre⟩
  | vstrs cw pw e =>
    obtain rfl : op' = .vstrs cw pw e := by
      rcases eraseG_eq he with h | ⟨_, _, _, h, _⟩ | ⟨_, _, _, _, h, _⟩ <;> first | exact h | cases h
    simp only [decOp] at h
    obtain ⟨s, c, rfl, hb, hw⟩ := RT_emit (w := writeVstrs cw pw e)
      (fun b s r hb => writeVstrs_readVstrs hb) b v r h
    exact ⟨c, hb, fun pre => by simp only [encOp]; exact hw pre⟩
  | nested ty g =>
    obtain ⟨g', rfl⟩ : ∃ g', op' = .nested ty g' := by
      rcases eraseG_eq he with h | ⟨_, _, g', h, h'⟩ | ⟨_, _, _, _, h, _⟩
      · exact ⟨g, h⟩
      · cases h; exact ⟨g', h'⟩
      · cases h
    simp only [decOp] at h
    obtain ⟨fs, rfl, _⟩ := decTy_ok_msg h
    obtain ⟨c, hb, hc⟩ := ih ty hop b _ r h
    exact ⟨c, hb, fun pre => by simp only [encOp, if_true]; exact hc pre⟩
  | objs cw ty e =>
    obtain rfl : op' = .objs cw ty e := by
      rcases eraseG_eq he with h | ⟨_, _, _, h, _⟩ | ⟨_, _, _, _, h, _⟩ <;> first | exact h | cases h
    simp only [decOp] at h
    obtain ⟨l, hl, rfl⟩ := mapR_eq_ok.mp h
    obtain ⟨c, hb, hc⟩ := encObjs_readList (ih ty hop) hl
    exact ⟨c, hb, fun pre => by simp only [encOp]; exact hc pre⟩
  | union key tbl g =>
    obtain ⟨g', rfl⟩ : ∃ g', op' = .union key tbl g' := by
      rcases eraseG_eq he with h | ⟨_, _, _, h, _⟩ | ⟨_, _, _, g', h, h'⟩
      · exact ⟨g, h⟩
      · cases h
      · cases h; exact ⟨g', h'⟩
    obtain ⟨ty', fs, hu, rfl, hd⟩ := dec_union_ok' h
    obtain ⟨c, hb, hc⟩ := ih ty' (unionTy_not_frame hft hu) b _ r hd
    exact ⟨c, hb, fun pre => by simp only [encOp, encPtr]; exact hc pre⟩
  | «opaque» =>
    simp only [decOp, failR_apply] at h
    cases h

/-! ## 5. statement sequences -/

/-- sequence lemma, by induction on the op list threading `acc`: the decoder's statements `ops` against
    the encoder's statements `ops'` (pairwise related by `hstep`) -/
theorem dec_enc_seq {step : List Val → Op → R Val} {estep : Op → Val → E Val} :
    ∀ (ops ops' : List Op) (acc : List Val) (b : Bytes) (fs : List Val) (r : Bytes),
      ops'.map Op.eraseG = ops.map Op.eraseG →
      (∀ acc op op', op ∈ ops → op'.eraseG = op.eraseG → RT (step acc op) (estep op')) →
      decSeq step ops acc b = .ok (fs, r) →
      ∃ vs c, fs = acc ++ vs ∧ vs.length = ops.length ∧ b = c ++ r ∧
        ∀ pre, encSeq estep ops' vs pre = .ok (vs, pre ++ c)
  | [], [], acc, b, fs, r, _, _, h => by
    simp only [decSeq, pureR_apply, Outcome.ok.injEq, Prod.mk.injEq] at h
    obtain ⟨rfl, rfl⟩ := h
    exact ⟨[], [], (List.append_nil _).symm, rfl, rfl, fun pre => by simp only [encSeq, List.append_nil]⟩
  | [], _ :: _, _, _, _, _, he, _, _ => by simp at he
  | _ :: _, [], _, _, _, _, he, _, _ => by simp at he
  | op :: ops, op' :: ops', acc, b, fs, r, he, hstep, h => by
    simp only [List.map_cons, List.cons.injEq] at he
    simp only [decSeq] at h
    obtain ⟨v, b1, h1, h2⟩ := bindR_eq_ok.mp h
    obtain ⟨c1, hb, hc1⟩ := hstep acc op op' (List.mem_cons_self ..) he.1 b v b1 h1
    obtain ⟨vs, c2, hfs, hlen, hb1, hc2⟩ := dec_enc_seq ops ops' (acc ++ [v]) b1 fs r he.2
      (fun acc o o' ho => hstep acc o o' (List.mem_cons_of_mem _ ho)) h2
    refine ⟨v :: vs, c1 ++ c2, by rw [hfs, List.append_assoc]; rfl, by rw [List.length_cons, hlen]; rfl,
      by rw [hb, hb1, List.append_assoc], fun pre => ?_⟩
    simp only [encSeq, bindE, hc1 pre, Outcome.bind_ok, mapE, hc2 (pre ++ c1), Outcome.map_ok,
      List.append_assoc]

/-! ## 6. main theorem for plain (non-self-measuring) types -/

/-- C08 for plain types.  `hk` (`keysOK`) is not needed by the proof: a decoded union body is always
    present (`.msg ty' fs`), and the encoder re-encodes a present body with the type it carries, without
    consulting the key. -/
theorem dec_enc (env : Env) (hm : env.mirrorOK = true) (hk : env.keysOK = true) (hft : env.framesTop = true) :
    ∀ f ty b v r, env.isFrame ty = false → decTy env f ty b = .ok (v, r) →
      ∃ c, b = c ++ r ∧ ∀ pre, encTy env f ty v pre = .ok (v, pre ++ c) := by
  have _ := hk
  intro f
  induction f with
  | zero =>
    intro ty b v r _ h
    simp only [decTy, failR_apply] at h
    cases h
  | succ f ih =>
    intro ty b v r hnf h
    rw [decTy] at h
    cases htd : env.types[ty]? with
    | none => rw [htd] at h; simp only [optR_none, failR_apply] at h; cases h
    | some td =>
      rw [htd] at h
      simp only [optR_some] at h
      obtain ⟨fs, hfs, rfl⟩ := mapR_eq_ok.mp h
      have hfr : td.frame = none := by
        simp only [Env.isFrame, htd] at hnf
        cases hf : td.frame with
        | none => rfl
        | some fd => rw [hf] at hnf; cases hnf
      have hmir := mirrorOK_plain hm htd hfr
      have hrefs := framesTop_dec hft htd
      have ih' : ∀ ty, env.isFrame ty = false → RT (decTy env f ty) (encTy env f ty) :=
        fun ty hty b v r hd => ih ty b v r hty hd
      obtain ⟨vs, c, hvs, _, hb, hc⟩ := dec_enc_seq (estep := encOp env (encTy env f) (zeroTy env f) fs)
        td.dec td.enc [] b fs r hmir
        (fun acc op op' hop he => dec_enc_op hft ih' he (hrefs op hop) (zeroTy env f) acc fs) hfs
      rw [List.nil_append] at hvs
      subst hvs
      refine ⟨c, hb, fun pre => ?_⟩
      simp only [encTy, if_true, htd, hfr, mapE, hc pre, Outcome.map_ok]

/-! ## 7. self-measuring frames -/

/-- the frame's own bytes with the TRUE body length in the 4-byte length field -/
def fixedFrame (fd : FrameDesc) (hdrBytes bodyBytes : Bytes) : Bytes :=
  hdrBytes ++ toE fd.e 4 (bodyBytes.length % 2 ^ 32) ++ bodyBytes

/-- the checksum trailer the encoder appends: `cksNat alg` of the corrected frame (nothing if the frame
    has no checksum) -/
def frameTrailer (fd : FrameDesc) (hdrBytes bodyBytes : Bytes) : Bytes :=
  match fd.cks with
  | none => []
  | some (alg, _) => toE fd.e 4 (cksNat alg (fixedFrame fd hdrBytes bodyBytes))

/-- the checksum field of the message the encoder returns -/
def frameTrailerVals (fd : FrameDesc) (hdrBytes bodyBytes : Bytes) : List Val :=
  match fd.cks with
  | none => []
  | some (alg, _) => [.num (cksNat alg (fixedFrame fd hdrBytes bodyBytes))]

/-- the checksum field of the message the decoder returns, given the trailer bytes it read -/
def cksVals (fd : FrameDesc) (cksBytes : Bytes) : List Val :=
  match fd.cks with
  | none => []
  | some _ => [.num (ofE fd.e cksBytes)]

theorem fixedFrame_eq {fd : FrameDesc} (hw : fd.lenW = 4) (hb bb : Bytes) :
    frameBytes fd hb bb = fixedFrame fd hb bb := by
  simp only [frameBytes, fixedFrame, frameLen, hw]

/-- every checksum service returns a value that fits the 4-byte trailer -/
theorem cksNat_lt (alg : Alg) (bs : Bytes) : cksNat alg bs < 256 ^ 4 := by
  cases alg with
  | crc16 => have := (crc16Go bs).toNat_lt; simp only [cksNat]; omega
  | crc32 => have := (crc32Go bs).toNat_lt; simp only [cksNat]; omega
  | sse => have := (sseGo bs).toNat_lt; simp only [cksNat]; omega
  | szse => have := (szseGo bs).toNat_lt; simp only [cksNat]; omega
  | unknown => simp only [cksNat]; omega

/-- what `mirrorOK` says about a frame type -/
theorem mirrorOK_frame {env : Env} (hm : env.mirrorOK = true) {ty : Nat} {td : TyDef} {fd : FrameDesc}
    (htd : env.types[ty]? = some td) (hfr : td.frame = some fd) :
    td.dec.map Op.eraseG = fd.decOps.map Op.eraseG ∧ (∀ op ∈ fd.hdr, op.isScalar = true) ∧ fd.lenW = 4 ∧
      (∀ alg w, fd.cks = some (alg, w) → w = 4) := by
  have := mirrorOK_td hm htd
  simp only [TyDef.mirrorOK, hfr, Bool.and_eq_true, beq_iff_eq, List.all_eq_true] at this
  refine ⟨this.1.1.1.1.1, this.1.1.1.2, this.1.2, ?_⟩
  intro alg w hc
  have h2 := this.2
  simp only [hc, Bool.and_eq_true, beq_iff_eq] at h2
  exact h2.1

/-- C08 for a self-measuring frame.  Every accepted input splits as header ++ 4-byte length ++ body ++
    trailer (++ rest); the header and the body are reproduced exactly (plain theorem); re-encoding yields
    the same frame with the length field replaced by the true body length and the trailer replaced by the
    checksum of the corrected frame; and it yields the SAME bytes and the SAME message when those two
    fields were already correct. -/
theorem dec_enc_frame (env : Env) (hm : env.mirrorOK = true) (hk : env.keysOK = true)
    (hft : env.framesTop = true) {f ty : Nat} {td : TyDef} {fd : FrameDesc}
    (htd : env.types[ty]? = some td) (hfr : td.frame = some fd) {b r : Bytes} {v : Val}
    (h : decTy env (f + 1) ty b = .ok (v, r)) :
    ∃ (hv : List Val) (body : Val) (hdrBytes lenBytes bodyBytes cksBytes : Bytes),
      -- the consumed bytes `c`
      b = (hdrBytes ++ lenBytes ++ bodyBytes ++ cksBytes) ++ r ∧
      lenBytes.length = 4 ∧ cksBytes.length = (if fd.cks.isSome then 4 else 0) ∧
      -- the decoded message
      v = .msg ty (hv ++ [.num (ofE fd.e lenBytes), body] ++ cksVals fd cksBytes) ∧
      hv.length = fd.hdr.length ∧
      -- header and body: decoded / re-encoded exactly as in the plain theorem
      (∀ all pre, encSeq (encOp env (encTy env f) (zeroTy env f) all) fd.hdr hv pre = .ok (hv, pre ++ hdrBytes)) ∧
      (∃ ty', unionTy env fd.key fd.tbl (hv ++ [.num (ofE fd.e lenBytes)]) = some ty' ∧
        env.isFrame ty' = false ∧ (∀ r', decTy env f ty' (bodyBytes ++ r') = .ok (body, r')) ∧
        ∀ pre, encTy env f ty' body pre = .ok (body, pre ++ bodyBytes)) ∧
      -- the re-encoded frame `c'` and the updated message `v'`
      (∀ pre, encTy env (f + 1) ty v pre =
        .ok (.msg ty (hv ++ [.num (bodyBytes.length % 2 ^ 32), body] ++ frameTrailerVals fd hdrBytes bodyBytes),
             pre ++ (hdrBytes ++ toE fd.e 4 (bodyBytes.length % 2 ^ 32) ++ bodyBytes ++
                      frameTrailer fd hdrBytes bodyBytes))) ∧
      -- … which are `c` and `v` when the two computed fields were already correct
      (lenBytes = toE fd.e 4 (bodyBytes.length % 2 ^ 32) → cksBytes = frameTrailer fd hdrBytes bodyBytes →
        ∀ pre, encTy env (f + 1) ty v pre = .ok (v, pre ++ (hdrBytes ++ lenBytes ++ bodyBytes ++ cksBytes))) := by
  obtain ⟨hmir, hscal, hw, hcw⟩ := mirrorOK_frame hm htd hfr
  have ih : ∀ ty, env.isFrame ty = false → RT (decTy env f ty) (encTy env f ty) :=
    fun ty hty b v r hd => dec_enc env hm hk hft f ty b v r hty hd
  -- the decoder run, statement group by statement group
  rw [decTy, htd] at h
  simp only [optR_some] at h
  obtain ⟨fs, hfs, rfl⟩ := mapR_eq_ok.mp h
  rw [decSeq_eraseG env _ fd.decOps td.dec [] hmir] at hfs
  simp only [FrameDesc.decOps, List.append_assoc] at hfs
  obtain ⟨a1, b1, hh, hrest⟩ := decSeq_append_ok _ _ _ _ _ _ hfs
  -- header
  have hstep : ∀ all acc op op', op ∈ fd.hdr → op'.eraseG = op.eraseG →
      RT (decOp env (decTy env f) acc op) (encOp env (encTy env f) (zeroTy env f) all op') := by
    intro all acc op op' hop he
    refine dec_enc_op hft ih he ?_ (zeroTy env f) acc all
    have := hscal op hop
    cases op <;> simp_all [Op.plainRefs, Op.isScalar]
  obtain ⟨hv, hb, ha1, hvlen, hbeq, _⟩ := dec_enc_seq fd.hdr fd.hdr [] b a1 b1 rfl (hstep []) hh
  have hhdr : ∀ all pre, encSeq (encOp env (encTy env f) (zeroTy env f) all) fd.hdr hv pre = .ok (hv, pre ++ hb) := by
    intro all
    obtain ⟨hv', hb', ha1', _, hbeq', h'⟩ := dec_enc_seq fd.hdr fd.hdr [] b a1 b1 rfl (hstep all) hh
    obtain rfl : hv' = hv := List.append_cancel_left (ha1'.symm.trans ha1)
    obtain rfl : hb' = hb := List.append_cancel_right (hbeq'.symm.trans hbeq)
    exact h'
  rw [List.nil_append] at ha1
  subst ha1
  -- length field
  simp only [List.cons_append, List.nil_append, decSeq] at hrest
  obtain ⟨vL, b2, hL, hrest2⟩ := bindR_eq_ok.mp hrest
  simp only [decOp] at hL
  obtain ⟨L, hL', rfl⟩ := mapR_eq_ok.mp hL
  obtain ⟨hb1, hLlt⟩ := readScalar_eq_ok hL'
  rw [hw] at hb1 hLlt
  have hofL : ofE fd.e (toE fd.e 4 L) = L := ofE_toE_of_lt _ _ _ hLlt
  -- body
  obtain ⟨body, b3, hB, hrest3⟩ := bindR_eq_ok.mp hrest2
  obtain ⟨ty', bfs, hu, rfl, hd⟩ := dec_union_ok' hB
  have hnf := unionTy_not_frame hft hu
  obtain ⟨bb, hb2, hbody⟩ := ih ty' hnf b2 _ b3 hd
  have hdext : ∀ r', decTy env f ty' (bb ++ r') = .ok (.msg ty' bfs, r') := by
    rw [hb2] at hd
    exact dec_extend hd
  -- the encoder's view of header and body
  have henc1 : ∀ (tl : List Val) pre, encSeq (encOp env (encTy env f) (zeroTy env f)
      (a1 ++ [.num L, .msg ty' bfs] ++ tl)) fd.hdr
      ((a1 ++ [Val.num L, Val.msg ty' bfs] ++ tl).take fd.hdr.length) pre = .ok (a1, pre ++ hb) := by
    intro tl pre
    have : (a1 ++ [Val.num L, Val.msg ty' bfs] ++ tl).take fd.hdr.length = a1 := by
      rw [List.append_assoc, ← hvlen]; exact List.take_left
    rw [this]
    exact hhdr _ pre
  have henc2 : ∀ tl : List Val, (a1 ++ [.num L, .msg ty' bfs] ++ tl)[fd.hdr.length + 1]? = some (.msg ty' bfs) := by
    intro tl
    rw [← hvlen]
    simp
  have henc3 : ∀ (g : Guard) (mk : Option Val) (t? : Option Nat) pre,
      encPtr (encTy env f) g mk t? (.msg ty' bfs) pre = .ok (.msg ty' bfs, pre ++ bb) := by
    intro g mk t? pre
    simp only [encPtr]
    exact hbody pre
  -- trailer
  cases hc : fd.cks with
  | none =>
    simp only [hc, decSeq, pureR_apply, Outcome.ok.injEq, Prod.mk.injEq] at hrest3
    obtain ⟨rfl, rfl⟩ := hrest3
    have henc : ∀ pre, encTy env (f + 1) ty (.msg ty (a1 ++ [.num L, .msg ty' bfs] ++ [])) pre =
        .ok (.msg ty (a1 ++ [.num (bb.length % 2 ^ 32), .msg ty' bfs]),
          pre ++ (hb ++ toE fd.e 4 (bb.length % 2 ^ 32) ++ bb)) := by
      intro pre
      rw [encTy_frame _ htd hfr, encFrame_eval (henc1 []) (henc2 []) (fun pre => henc3 _ _ _ pre) pre]
      simp only [hc, fixedFrame_eq hw, fixedFrame, frameLen]
      rw [if_pos (by simp only [List.length_append, List.length_cons, List.length_nil]; omega)]
    refine ⟨a1, .msg ty' bfs, hb, toE fd.e 4 L, bb, [], ?_, toE_length .., by simp, ?_, hvlen, hhdr,
      ⟨ty', by rw [hofL]; simpa using hu, hnf, hdext, hbody⟩, ?_, ?_⟩
    · rw [hbeq, hb1, hb2]; simp only [writeScalar, List.append_assoc, List.append_nil]
    · simp only [cksVals, hc, hofL, List.append_nil, List.append_assoc, List.cons_append, List.nil_append]
    · intro pre
      simp only [frameTrailer, frameTrailerVals, hc, List.append_nil]
      have := henc pre
      simp only [List.append_nil, List.append_assoc] at this ⊢
      exact this
    · intro hLe _ pre
      have hLv : L = bb.length % 2 ^ 32 := by
        have := congrArg (ofE fd.e) hLe
        rw [hofL, ofE_toE_of_lt _ _ _ (by omega)] at this
        exact this
      subst hLv
      have := henc pre
      simp only [List.append_nil, List.append_assoc, List.cons_append, List.nil_append] at this ⊢
      exact this
  | some p =>
    obtain ⟨alg, w⟩ := p
    obtain rfl := hcw alg w hc
    simp only [hc, decSeq] at hrest3
    obtain ⟨vC, b4, hC, hrest4⟩ := bindR_eq_ok.mp hrest3
    simp only [pureR_apply, Outcome.ok.injEq, Prod.mk.injEq] at hrest4
    obtain ⟨rfl, rfl⟩ := hrest4
    simp only [decOp] at hC
    obtain ⟨C, hC', rfl⟩ := mapR_eq_ok.mp hC
    obtain ⟨hb3, hClt⟩ := readScalar_eq_ok hC'
    have hofC : ofE fd.e (toE fd.e 4 C) = C := ofE_toE_of_lt _ _ _ hClt
    have henc : ∀ pre, encTy env (f + 1) ty (.msg ty (a1 ++ [.num L, .msg ty' bfs] ++ [.num C])) pre =
        .ok (.msg ty (a1 ++ [.num (bb.length % 2 ^ 32), .msg ty' bfs, .num (cksNat alg (fixedFrame fd hb bb))]),
          pre ++ fixedFrame fd hb bb ++ toE fd.e 4 (cksNat alg (fixedFrame fd hb bb))) := by
      intro pre
      rw [encTy_frame _ htd hfr, encFrame_eval (henc1 [.num C]) (henc2 [.num C]) (fun pre => henc3 _ _ _ pre) pre]
      simp only [hc, fixedFrame_eq hw, frameLen]
      rw [if_pos (by simp only [List.length_append, List.length_cons, List.length_nil]; omega)]
    refine ⟨a1, .msg ty' bfs, hb, toE fd.e 4 L, bb, toE fd.e 4 C, ?_, toE_length .., by simp, ?_, hvlen, hhdr,
      ⟨ty', by rw [hofL]; simpa using hu, hnf, hdext, hbody⟩, ?_, ?_⟩
    · rw [hbeq, hb1, hb2, hb3]; simp only [writeScalar, List.append_assoc]
    · simp only [cksVals, hc, hofL, hofC, List.append_assoc, List.cons_append, List.nil_append]
    · intro pre
      simp only [frameTrailer, frameTrailerVals, hc]
      have := henc pre
      simp only [List.append_assoc, List.cons_append, List.nil_append, fixedFrame] at this ⊢
      exact this
    · intro hLe hCe pre
      have hLv : L = bb.length % 2 ^ 32 := by
        have := congrArg (ofE fd.e) hLe
        rw [hofL, ofE_toE_of_lt _ _ _ (by omega)] at this
        exact this
      have hCv : C = cksNat alg (fixedFrame fd hb bb) := by
        have := congrArg (ofE fd.e) hCe
        simp only [frameTrailer, hc] at this
        rw [hofC, ofE_toE_of_lt _ _ _ (cksNat_lt _ _)] at this
        exact this
      subst hLv
      subst hCv
      have := henc pre
      simp only [List.append_assoc, List.cons_append, List.nil_append, fixedFrame] at this ⊢
      exact this

/-- witness-free corollary: a decoded frame always re-encodes, to a frame of the SAME length; the bytes
    are reproduced exactly if and only if the message comes back unchanged (i.e. iff the length and
    checksum fields on the wire were the correct ones) -/
theorem dec_enc_frame_iff (env : Env) (hm : env.mirrorOK = true) (hk : env.keysOK = true)
    (hft : env.framesTop = true) {f ty : Nat} {td : TyDef} {fd : FrameDesc}
    (htd : env.types[ty]? = some td) (hfr : td.frame = some fd) {b r : Bytes} {v : Val}
    (h : decTy env (f + 1) ty b = .ok (v, r)) :
    ∃ c v' c', b = c ++ r ∧ (∀ pre, encTy env (f + 1) ty v pre = .ok (v', pre ++ c')) ∧
      c'.length = c.length ∧ (c' = c ↔ v' = v) := by
  obtain ⟨hv, body, hb, lb, bb, cb, hbeq, hll, hcl, hveq, _, _, _, henc, hfix⟩ :=
    dec_enc_frame env hm hk hft htd hfr h
  refine ⟨_, _, _, hbeq, henc, ?_, ?_, ?_⟩
  · simp only [List.length_append, toE_length, hll, hcl, frameTrailer]
    cases fd.cks with
    | none => simp
    | some p => simp
  · intro hc
    simp only [List.append_assoc] at hc
    have h1 := List.append_cancel_left hc
    have h2 := List.append_inj h1 (by rw [toE_length, hll])
    have h3 := hfix h2.1.symm (List.append_cancel_left h2.2).symm []
    rw [henc []] at h3
    simp only [Outcome.ok.injEq, Prod.mk.injEq] at h3
    exact h3.1
  · intro hvv
    rw [hveq] at hvv
    simp only [Val.msg.injEq, true_and, List.append_assoc, List.cons_append, List.nil_append] at hvv
    have h1 := List.append_cancel_left hvv
    simp only [List.cons.injEq, Val.num.injEq, true_and] at h1
    obtain ⟨hN, htl⟩ := h1
    have hlb : lb = toE fd.e 4 (bb.length % 2 ^ 32) := by
      rw [hN, ← hll]; exact (toE_ofE fd.e lb).symm
    have hcb : cb = frameTrailer fd hb bb := by
      simp only [frameTrailerVals, cksVals, frameTrailer] at htl hcl ⊢
      cases hc : fd.cks with
      | none =>
        simp only [hc, Option.isSome_none, Bool.false_eq_true, if_false] at hcl
        exact List.eq_nil_of_length_eq_zero hcl
      | some p =>
        obtain ⟨alg, w⟩ := p
        simp only [hc, Option.isSome_some, if_true, List.cons.injEq, Val.num.injEq, and_true] at hcl htl
        show cb = toE fd.e 4 (cksNat alg (fixedFrame fd hb bb))
        rw [htl, ← hcl]; exact (toE_ofE fd.e cb).symm
    rw [← hlb, ← hcb]

/-! ## 8. non-vacuity (the pinned environment) -/

section Examples

private theorem pinned_mirror : Pinned.env.mirrorOK = true := by decide +kernel
private theorem pinned_keys : Pinned.env.keysOK = true := by decide +kernel
private theorem pinned_framesTop : Pinned.env.framesTop = true := by decide +kernel

/-- sample.StringPacket (type 79): two length-prefixed texts, four fixed-width texts (left-padded with
    '0', left-padded with ' ', right-padded with NUL), two lists of length-prefixed texts, four lists of
    fixed-width texts.  The input has a field made of pad bytes only, interior and trailing '0's in a
    left-'0'-padded field, interior and trailing blanks in a left-blank-padded field, an all-NUL field. -/
private def exS : Bytes :=
  [2,0,72,105, 0,0, 48, 48,48,49,50,48,48,51,52,48,48, 32,32,32,65,32,66,32,32,32,32,
   0,0,0,0,0,0,0,0,0,0, 1,0,1,0,88, 0,0, 2,0,48,49, 0,0, 1,0,48,49,48,48,48,48,48,48,48,48, 0,0]
private def exSV : Val :=
  .msg 79 [.str [72, 105], .str [], .str [], .str [49, 50, 48, 48, 51, 52, 48, 48],
    .str [65, 32, 66, 32, 32, 32, 32], .str [], .strs [[88]], .strs [], .strs [[], [49]], .strs [],
    .strs [[48, 49]], .strs []]
private theorem exS_dec : decTy Pinned.env 2 79 (exS ++ [0xEE]) = .ok (exSV, [0xEE]) := rfl

-- the hypotheses of `dec_enc` hold on this input …
example : ∃ c, exS ++ [0xEE] = c ++ [0xEE] ∧ ∀ pre, encTy Pinned.env 2 79 exSV pre = .ok (exSV, pre ++ c) :=
  dec_enc Pinned.env pinned_mirror pinned_keys pinned_framesTop 2 79 _ _ _ (by decide +kernel) exS_dec
-- … so the encoder reproduces exactly the 66 consumed bytes, after any buffer content
example (pre : Bytes) : encTy Pinned.env 2 79 exSV pre = .ok (exSV, pre ++ exS) := by
  obtain ⟨c, hc, h⟩ := dec_enc Pinned.env pinned_mirror pinned_keys pinned_framesTop 2 79 _ _ _
    (by decide +kernel) exS_dec
  obtain rfl : exS = c := List.append_cancel_right hc
  exact h pre

/-- bse.AllegeQuoteExtend070 (type 1): a 1-byte and a 6-byte text, right-padded with blanks; a leading
    blank and an interior blank survive -/
example (pre : Bytes) :
    decTy Pinned.env 1 1 [32, 32,65,32,66,32,32, 0xEE] = .ok (.msg 1 [.str [], .str [32, 65, 32, 66]], [0xEE]) ∧
    encTy Pinned.env 1 1 (.msg 1 [.str [], .str [32, 65, 32, 66]]) pre = .ok (.msg 1 [.str [], .str [32, 65, 32, 66]],
      pre ++ [32, 32,65,32,66,32,32]) := by
  have hd : decTy Pinned.env 1 1 ([32, 32,65,32,66,32,32] ++ [0xEE]) =
      .ok (.msg 1 [.str [], .str [32, 65, 32, 66]], [0xEE]) := rfl
  obtain ⟨c, hc, h⟩ := dec_enc Pinned.env pinned_mirror pinned_keys pinned_framesTop 1 1 _ _ _
    (by decide +kernel) hd
  obtain rfl := List.append_cancel_right hc
  exact ⟨hd, h pre⟩

/-- bse.BjseBinary (type 3, a plain type in the pinned schema): a union selected by an earlier field, an
    all-ones scalar -/
example (pre : Bytes) :
    encTy Pinned.env 2 3 (.msg 3 [.num 3, .num 0xFFFFFFFF, .msg 24 [], .num 67305985]) pre =
      .ok (.msg 3 [.num 3, .num 0xFFFFFFFF, .msg 24 [], .num 67305985],
        pre ++ [3,0,0,0, 255,255,255,255, 1,2,3,4]) := by
  have hd : decTy Pinned.env 2 3 ([3,0,0,0, 255,255,255,255, 1,2,3,4] ++ []) =
      .ok (.msg 3 [.num 3, .num 0xFFFFFFFF, .msg 24 [], .num 67305985], []) := rfl
  obtain ⟨c, hc, h⟩ := dec_enc Pinned.env pinned_mirror pinned_keys pinned_framesTop 2 3 _ _ _
    (by decide +kernel) hd
  obtain rfl := List.append_cancel_right hc
  exact h pre

/-- bse.PlatformInfo (type 30): a repeating group of two bse.NoPartitions (type 28) entries -/
private def exP : Bytes :=
  [9,0, 2,0, 7,0,0,0, 65,32,32,32,32,32,32,32,32,32,32,32,32,32,32,32,32,32,32,32,
             8,0,0,0, 66,67,32,32,32,32,32,32,32,32,32,32,32,32,32,32,32,32,32,32]
private def exPV : Val :=
  .msg 30 [.num 9, .msgs [.msg 28 [.num 7, .str [65]], .msg 28 [.num 8, .str [66, 67]]]]
example (pre : Bytes) : encTy Pinned.env 3 30 exPV pre = .ok (exPV, pre ++ exP) := by
  have hd : decTy Pinned.env 3 30 (exP ++ []) = .ok (exPV, []) := rfl
  obtain ⟨c, hc, h⟩ := dec_enc Pinned.env pinned_mirror pinned_keys pinned_framesTop 3 30 _ _ _
    (by decide +kernel) hd
  obtain rfl := List.append_cancel_right hc
  exact h pre

/-! frames: sse.SseBinary (type 96) holding an sse body of type 94 (two 2-byte scalars) -/

private theorem ex96 : Pinned.env.types[96]? = some Pinned.t96 := by decide +kernel

/-- a frame whose length field (9) and checksum (0x09090909) are WRONG is accepted by the decoder … -/
private def exF : Bytes := [0,0,0,209, 0,0,0,0,0,0,0,7, 0,0,0,9, 0,1,0,2, 9,9,9,9]
private def exFV : Val := .msg 96 [.num 209, .num 7, .num 9, .msg 94 [.num 1, .num 2], .num 0x09090909]
private theorem exF_dec : decTy Pinned.env 3 96 (exF ++ [0xEE]) = .ok (exFV, [0xEE]) := rfl

-- … the hypotheses of `dec_enc_frame` / `dec_enc_frame_iff` hold on it …
example : ∃ c v' c', exF ++ [0xEE] = c ++ [0xEE] ∧
    (∀ pre, encTy Pinned.env 3 96 exFV pre = .ok (v', pre ++ c')) ∧ c'.length = c.length ∧ (c' = c ↔ v' = exFV) :=
  dec_enc_frame_iff Pinned.env pinned_mirror pinned_keys pinned_framesTop ex96 rfl exF_dec
-- … and re-encoding corrects exactly those two fields (length 4, SSE checksum 0xDF+… = 223)
example : encTy Pinned.env 3 96 exFV [] =
    .ok (.msg 96 [.num 209, .num 7, .num 4, .msg 94 [.num 1, .num 2], .num 223],
      [0,0,0,209, 0,0,0,0,0,0,0,7, 0,0,0,4, 0,1,0,2, 0,0,0,223]) := rfl

/-- the same frame with correct length and checksum is reproduced byte for byte, message unchanged -/
private def exG : Bytes := [0,0,0,209, 0,0,0,0,0,0,0,7, 0,0,0,4, 0,1,0,2, 0,0,0,223]
private def exGV : Val := .msg 96 [.num 209, .num 7, .num 4, .msg 94 [.num 1, .num 2], .num 223]
private theorem exG_dec : decTy Pinned.env 3 96 (exG ++ [0xEE]) = .ok (exGV, [0xEE]) := rfl
example : encTy Pinned.env 3 96 exGV [] = .ok (exGV, exG) := rfl
example : ∃ hv body hdrBytes lenBytes bodyBytes cksBytes,
    exG ++ [0xEE] = (hdrBytes ++ lenBytes ++ bodyBytes ++ cksBytes) ++ [0xEE] ∧
    lenBytes.length = 4 ∧ exGV = .msg 96 (hv ++ [.num (ofE .be lenBytes), body] ++ [.num (ofE .be cksBytes)]) := by
  obtain ⟨hv, body, hb, lb, bb, cb, h1, h2, _, h4, _⟩ :=
    dec_enc_frame Pinned.env pinned_mirror pinned_keys pinned_framesTop ex96 rfl exG_dec
  exact ⟨hv, body, hb, lb, bb, cb, h1, h2, h4⟩

end Examples

end FinProto
