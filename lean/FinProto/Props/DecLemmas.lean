/-
  Decoder-side theorems of the schema interpreter (properties C07, C09, C11 core, C12).
  Proofs only; generic over `env : Env`, every fuel, every type, every byte string.
  `FinProto.Pinned` is imported ONLY for the non-vacuity `example`s.
-/
import FinProto.Checks
import FinProto.Pinned
namespace FinProto

/-! ## A. a successful decode reads a prefix and is oblivious to what follows (C07 / C11 core) -/

/-- `rd` succeeds only by consuming a prefix `c` of its input, and its result does not depend on what
    follows `c` -/
def Obl (rd : R α) : Prop :=
  ∀ b v r, rd b = .ok (v, r) → ∃ c, b = c ++ r ∧ ∀ r', rd (c ++ r') = .ok (v, r')

theorem obl_pureR (a : α) : Obl (pureR a) := by
  intro b v r h
  simp only [pureR_apply, Outcome.ok.injEq, Prod.mk.injEq] at h
  obtain ⟨rfl, rfl⟩ := h
  exact ⟨[], rfl, fun _ => rfl⟩

theorem obl_failR : Obl (failR : R α) := by
  intro b v r h
  simp only [failR_apply] at h
  cases h

theorem obl_panicR : Obl (panicR : R α) := by
  intro b v r h
  simp only [panicR_apply] at h
  cases h

theorem obl_bindR {rd : R α} {f : α → R β} (h1 : Obl rd) (h2 : ∀ a, Obl (f a)) :
    Obl (bindR rd f) := by
  intro b v r h
  obtain ⟨a, b', ha, hf⟩ := bindR_eq_ok.mp h
  obtain ⟨c1, rfl, hc1⟩ := h1 _ _ _ ha
  obtain ⟨c2, rfl, hc2⟩ := h2 a _ _ _ hf
  refine ⟨c1 ++ c2, (List.append_assoc _ _ _).symm, fun r' => ?_⟩
  rw [List.append_assoc]
  exact bindR_eq_ok.mpr ⟨a, c2 ++ r', hc1 _, hc2 _⟩

theorem obl_mapR {rd : R α} (f : α → β) (h : Obl rd) : Obl (mapR f rd) :=
  obl_bindR h (fun a => obl_pureR (f a))

theorem obl_takeN (n : Nat) : Obl (takeN n) := by
  intro b v r h
  obtain ⟨hn, rfl, rfl⟩ := takeN_eq_ok.mp h
  refine ⟨b.take n, (List.take_append_drop n b).symm, fun r' => ?_⟩
  have hl : (b.take n).length = n := by rw [List.length_take]; omega
  have := takeN_append (b.take n) r'
  rwa [hl] at this

theorem obl_decRep {elem : R α} (h : Obl elem) : ∀ n, Obl (decRep elem n)
  | 0 => obl_pureR _
  | n+1 => obl_bindR h (fun _ => obl_mapR _ (obl_decRep h n))

theorem obl_optR {o : Option α} {k : α → R β} (h : ∀ a, Obl (k a)) : Obl (optR o k) := by
  cases o with
  | none => exact obl_failR
  | some a => exact h a

theorem obl_lenGuard {k : R α} (n : Nat) (h : Obl k) : Obl (lenGuard n k) := by
  unfold lenGuard
  split
  · exact h
  · exact obl_panicR

/-! ### primitives -/

theorem obl_readScalar (w : Nat) (e : Endian) : Obl (readScalar w e) :=
  obl_mapR _ (obl_takeN w)

theorem obl_readFixed (n : Nat) (pad : UInt8) (left : Bool) : Obl (readFixed n pad left) :=
  obl_mapR _ (obl_takeN n)

theorem obl_readVstr (pw : Nat) (e : Endian) : Obl (readVstr pw e) :=
  obl_bindR (obl_readScalar pw e) (fun len => obl_lenGuard len (obl_takeN len))

theorem obl_readList {elem : R α} (cw : Nat) (e : Endian) (h : Obl elem) :
    Obl (readList cw e elem) :=
  obl_bindR (obl_readScalar cw e) (fun count => obl_lenGuard count (obl_decRep h count))

theorem obl_readNums (cw w : Nat) (e : Endian) : Obl (readNums cw w e) :=
  obl_readList cw e (obl_readScalar w e)

theorem obl_readFixeds (cw n : Nat) (pad : UInt8) (left : Bool) (e : Endian) :
    Obl (readFixeds cw n pad left e) :=
  obl_readList cw e (obl_readFixed n pad left)

theorem obl_readVstrs (cw pw : Nat) (e : Endian) : Obl (readVstrs cw pw e) :=
  obl_readList cw e (obl_readVstr pw e)

/-! ### the interpreter -/

theorem obl_decOp (env : Env) {dT : Nat → R Val} (h : ∀ ty, Obl (dT ty)) (acc : List Val) (op : Op) :
    Obl (decOp env dT acc op) := by
  cases op with
  | scalar w e => exact obl_mapR _ (obl_readScalar w e)
  | fixed n pad left => exact obl_mapR _ (obl_readFixed n _ left)
  | vstr pw e => exact obl_mapR _ (obl_readVstr pw e)
  | nums cw w e => exact obl_mapR _ (obl_readNums cw w e)
  | fixeds cw n pad left e => exact obl_mapR _ (obl_readFixeds cw n _ left e)
  | vstrs cw pw e => exact obl_mapR _ (obl_readVstrs cw pw e)
  | nested ty g => exact h ty
  | objs cw ty e => exact obl_mapR _ (obl_readList cw e (h ty))
  | union key tbl g => exact obl_optR h
  | «opaque» => exact obl_failR

theorem obl_decSeq {step : List Val → Op → R Val} (h : ∀ acc op, Obl (step acc op)) :
    ∀ ops acc, Obl (decSeq step ops acc)
  | [], acc => obl_pureR acc
  | op :: ops, acc => obl_bindR (h acc op) (fun v => obl_decSeq h ops (acc ++ [v]))

theorem obl_decTy (env : Env) : ∀ f ty, Obl (decTy env f ty)
  | 0, _ => obl_failR
  | f+1, ty => by
    rw [decTy]
    exact obl_optR (fun td => obl_mapR _ (obl_decSeq (fun acc op => obl_decOp env (obl_decTy env f) acc op) _ _))

theorem obl_decode (env : Env) (ty : Nat) : Obl (decode env ty) := obl_decTy env env.fuel ty

/-- the rest is left untouched and unread -/
theorem dec_consumes_prefix {env : Env} {f ty : Nat} {b r : Bytes} {v : Val}
    (h : decTy env f ty b = .ok (v, r)) : ∃ c, b = c ++ r := by
  obtain ⟨c, hc, _⟩ := obl_decTy env f ty b v r h
  exact ⟨c, hc⟩

/-- what follows the bytes of a message does not influence its decoding -/
theorem dec_extend {env : Env} {f ty : Nat} {c r : Bytes} {v : Val}
    (h : decTy env f ty (c ++ r) = .ok (v, r)) : ∀ r', decTy env f ty (c ++ r') = .ok (v, r') := by
  obtain ⟨c', hc, hext⟩ := obl_decTy env f ty _ v r h
  have : c = c' := List.append_cancel_right hc
  subst this
  exact hext

/-- generic form of `dec_truncated_not_ok` for any oblivious reader -/
theorem Obl.truncated_not_ok {rd : R α} (hO : Obl rd) {w : Bytes} {v : α} (h : rd w = .ok (v, []))
    {k : Nat} (hk : k < w.length) : ∀ v' r', rd (w.take k) ≠ .ok (v', r') := by
  intro v' r' h'
  obtain ⟨c, hc, hext⟩ := hO _ _ _ h'
  have h2 := hext (r' ++ w.drop k)
  have hw : c ++ (r' ++ w.drop k) = w := by
    rw [← List.append_assoc, ← hc, List.take_append_drop]
  rw [hw, h] at h2
  simp only [Outcome.ok.injEq, Prod.mk.injEq] at h2
  have h3 : (r' ++ w.drop k).length = 0 := by rw [← h2.2]; rfl
  simp only [List.length_append, List.length_drop] at h3
  omega

/-- core of C11: no proper prefix of a wire message decodes successfully (whatever the value, whatever
    would be left over) -/
theorem dec_truncated_not_ok {env : Env} {f ty : Nat} {w : Bytes} {v : Val}
    (h : decTy env f ty w = .ok (v, [])) {k : Nat} (hk : k < w.length) :
    ∀ v' r', decTy env f ty (w.take k) ≠ .ok (v', r') :=
  (obl_decTy env f ty).truncated_not_ok h hk

/-! ## B. decoding never panics (C09) -/

def NoPanic (rd : R α) : Prop := ∀ b, rd b ≠ .panic

theorem np_pureR (a : α) : NoPanic (pureR a) := by
  intro b h; simp only [pureR_apply] at h; cases h

theorem np_failR : NoPanic (failR : R α) := by
  intro b h; simp only [failR_apply] at h; cases h

/-- the continuation needs to be panic-free only on values the first reader can actually produce -/
theorem np_bindR' {rd : R α} {f : α → R β} (h1 : NoPanic rd)
    (h2 : ∀ b a b', rd b = .ok (a, b') → NoPanic (f a)) : NoPanic (bindR rd f) := by
  intro b h
  simp only [bindR] at h
  cases hr : rd b with
  | ok p =>
    obtain ⟨a, b'⟩ := p
    rw [hr] at h
    exact h2 b a b' hr b' h
  | err => rw [hr] at h; cases h
  | panic => exact h1 b hr

theorem np_bindR {rd : R α} {f : α → R β} (h1 : NoPanic rd) (h2 : ∀ a, NoPanic (f a)) :
    NoPanic (bindR rd f) :=
  np_bindR' h1 (fun _ a _ _ => h2 a)

theorem np_mapR {rd : R α} (f : α → β) (h : NoPanic rd) : NoPanic (mapR f rd) :=
  np_bindR h (fun a => np_pureR (f a))

theorem np_takeN (n : Nat) : NoPanic (takeN n) := by
  intro b h
  rw [takeN_def] at h
  split at h <;> cases h

theorem np_decRep {elem : R α} (h : NoPanic elem) : ∀ n, NoPanic (decRep elem n)
  | 0 => np_pureR _
  | n+1 => np_bindR h (fun _ => np_mapR _ (np_decRep h n))

theorem np_optR {o : Option α} {k : α → R β} (h : ∀ a, NoPanic (k a)) : NoPanic (optR o k) := by
  cases o with
  | none => exact np_failR
  | some a => exact h a

theorem np_lenGuard {k : R α} {n : Nat} (hn : n < 2 ^ 63) (h : NoPanic k) :
    NoPanic (lenGuard n k) := by
  unfold lenGuard
  rw [if_pos hn]
  exact h

theorem np_readScalar (w : Nat) (e : Endian) : NoPanic (readScalar w e) :=
  np_mapR _ (np_takeN w)

theorem np_readFixed (n : Nat) (pad : UInt8) (left : Bool) : NoPanic (readFixed n pad left) :=
  np_mapR _ (np_takeN n)

/-- a `w`-byte scalar is below `256^w` -/
theorem readScalar_lt {w : Nat} {e : Endian} {b r : Bytes} {n : Nat}
    (h : readScalar w e b = .ok (n, r)) : n < 256 ^ w := by
  obtain ⟨bs, hbs, rfl⟩ := mapR_eq_ok.mp h
  obtain ⟨hw, rfl, _⟩ := takeN_eq_ok.mp hbs
  have := ofE_lt e (b.take w)
  rwa [List.length_take, Nat.min_eq_left hw] at this

/-- a prefix of at most 7 bytes converts to a non-negative `int` -/
theorem readScalar_lt_2_63 {w : Nat} (hw : w ≤ 7) {e : Endian} {b r : Bytes} {n : Nat}
    (h : readScalar w e b = .ok (n, r)) : n < 2 ^ 63 := by
  have h1 := readScalar_lt h
  have h2 : 256 ^ w ≤ 256 ^ 7 := Nat.pow_le_pow_right (by decide) hw
  have h3 : (256 : Nat) ^ 7 < 2 ^ 63 := by decide
  omega

theorem np_readVstr {pw : Nat} (hpw : pw ≤ 7) (e : Endian) : NoPanic (readVstr pw e) :=
  np_bindR' (np_readScalar pw e)
    (fun _ _ _ hr => np_lenGuard (readScalar_lt_2_63 hpw hr) (np_takeN _))

theorem np_readList {elem : R α} {cw : Nat} (hcw : cw ≤ 7) (e : Endian) (h : NoPanic elem) :
    NoPanic (readList cw e elem) :=
  np_bindR' (np_readScalar cw e)
    (fun _ _ _ hr => np_lenGuard (readScalar_lt_2_63 hcw hr) (np_decRep h _))

theorem np_readNums {cw : Nat} (hcw : cw ≤ 7) (w : Nat) (e : Endian) : NoPanic (readNums cw w e) :=
  np_readList hcw e (np_readScalar w e)

theorem np_readFixeds {cw : Nat} (hcw : cw ≤ 7) (n : Nat) (pad : UInt8) (left : Bool) (e : Endian) :
    NoPanic (readFixeds cw n pad left e) :=
  np_readList hcw e (np_readFixed n pad left)

theorem np_readVstrs {cw pw : Nat} (hcw : cw ≤ 7) (hpw : pw ≤ 7) (e : Endian) :
    NoPanic (readVstrs cw pw e) :=
  np_readList hcw e (np_readVstr hpw e)

private theorem w124 {w : Nat} (h : (w == 1 || w == 2 || w == 4) = true) : w ≤ 7 := by
  simp only [Bool.or_eq_true, beq_iff_eq] at h
  omega

theorem np_decOp (env : Env) {dT : Nat → R Val} (h : ∀ ty, NoPanic (dT ty)) (acc : List Val)
    {op : Op} (hop : op.widthsOK = true) : NoPanic (decOp env dT acc op) := by
  cases op with
  | scalar w e => exact np_mapR _ (np_readScalar w e)
  | fixed n pad left => exact np_mapR _ (np_readFixed n _ left)
  | vstr pw e => exact np_mapR _ (np_readVstr (w124 hop) e)
  | nums cw w e =>
    simp only [Op.widthsOK, Bool.and_eq_true] at hop
    exact np_mapR _ (np_readNums (w124 hop.1) w e)
  | fixeds cw n pad left e =>
    simp only [Op.widthsOK, Bool.and_eq_true] at hop
    exact np_mapR _ (np_readFixeds (w124 hop.1.1) n _ left e)
  | vstrs cw pw e =>
    simp only [Op.widthsOK, Bool.and_eq_true] at hop
    exact np_mapR _ (np_readVstrs (w124 hop.1) (w124 hop.2) e)
  | nested ty g => exact h ty
  | objs cw ty e => exact np_mapR _ (np_readList (w124 hop) e (h ty))
  | union key tbl g => exact np_optR h
  | «opaque» => exact np_failR

theorem np_decSeq {step : List Val → Op → R Val} :
    ∀ (ops : List Op) (acc : List Val), (∀ acc, ∀ op ∈ ops, NoPanic (step acc op)) →
      NoPanic (decSeq step ops acc)
  | [], acc, _ => np_pureR acc
  | op :: ops, acc, h =>
    np_bindR (h acc op (List.mem_cons_self ..))
      (fun v => np_decSeq ops (acc ++ [v]) (fun acc' op' hm => h acc' op' (List.mem_cons_of_mem _ hm)))

/-- `widthsOK` gives `Op.widthsOK` for every decode op of every stored type -/
theorem Env.widthsOK_dec {env : Env} (hw : env.widthsOK = true) {ty : Nat} {td : TyDef}
    (htd : env.types[ty]? = some td) : ∀ op ∈ td.dec, op.widthsOK = true := by
  have hm : td ∈ env.types := List.mem_of_getElem? htd
  have h1 := (List.all_eq_true.mp hw) td hm
  simp only [Bool.and_eq_true] at h1
  exact fun op hop => (List.all_eq_true.mp h1.1.1) op hop

theorem dec_no_panic {env : Env} (hw : env.widthsOK = true) : ∀ f ty, NoPanic (decTy env f ty)
  | 0, _ => np_failR
  | f+1, ty => by
    rw [decTy]
    cases htd : env.types[ty]? with
    | none => exact np_failR
    | some td =>
      exact np_mapR _ (np_decSeq _ _ (fun acc op hop =>
        np_decOp env (dec_no_panic hw f) acc (Env.widthsOK_dec hw htd op hop)))

theorem decode_no_panic {env : Env} (hw : env.widthsOK = true) (ty : Nat) : NoPanic (decode env ty) :=
  dec_no_panic hw env.fuel ty

/-- every decode returns a value or an error -/
theorem dec_ok_or_err {env : Env} (hw : env.widthsOK = true) (f ty : Nat) (b : Bytes) :
    (∃ v r, decTy env f ty b = .ok (v, r)) ∨ decTy env f ty b = .err := by
  cases h : decTy env f ty b with
  | ok p => exact .inl ⟨p.1, p.2, rfl⟩
  | err => exact .inr rfl
  | panic => exact absurd h (dec_no_panic hw f ty b)

/-! ## C. discriminators (C12) -/

theorem decSeq_length {step : List Val → Op → R Val} :
    ∀ (ops : List Op) (acc : List Val) (b : Bytes) (l : List Val) (r : Bytes),
      decSeq step ops acc b = .ok (l, r) → l.length = acc.length + ops.length
  | [], acc, b, l, r, h => by
    simp only [decSeq, pureR_apply, Outcome.ok.injEq, Prod.mk.injEq] at h
    rw [← h.1]; rfl
  | op :: ops, acc, b, l, r, h => by
    simp only [decSeq] at h
    obtain ⟨v, b', _, h2⟩ := bindR_eq_ok.mp h
    have := decSeq_length ops (acc ++ [v]) b' l r h2
    simp only [List.length_append, List.length_cons, List.length_nil] at this ⊢
    omega

/-- a decoder builds exactly the type it was asked for, with one field per decode statement -/
theorem decTy_ok_msg {env : Env} {f ty : Nat} {b r : Bytes} {v : Val}
    (h : decTy env f ty b = .ok (v, r)) :
    ∃ fs, v = .msg ty fs ∧ ∀ td, env.types[ty]? = some td → fs.length = td.dec.length := by
  cases f with
  | zero => simp only [decTy, failR_apply] at h; cases h
  | succ f =>
    rw [decTy] at h
    cases htd : env.types[ty]? with
    | none => rw [htd] at h; simp only [optR_none, failR_apply] at h; cases h
    | some td =>
      rw [htd] at h
      simp only [optR_some] at h
      obtain ⟨fs, hfs, rfl⟩ := mapR_eq_ok.mp h
      refine ⟨fs, rfl, fun td' htd' => ?_⟩
      cases htd'
      have := decSeq_length _ _ _ _ _ hfs
      simpa using this

/-- the union decoder builds exactly the body type the table assigns to the key read earlier -/
theorem dec_union_ok {env : Env} {f key tbl : Nat} {g : Guard} {acc : List Val} {b r : Bytes} {v : Val}
    (h : decOp env (decTy env f) acc (.union key tbl g) b = .ok (v, r)) :
    ∃ ty fs, unionTy env key tbl acc = some ty ∧ v = .msg ty fs := by
  simp only [decOp] at h
  cases hu : unionTy env key tbl acc with
  | none => rw [hu] at h; simp only [optR_none, failR_apply] at h; cases h
  | some ty =>
    rw [hu] at h
    simp only [optR_some] at h
    obtain ⟨fs, rfl, _⟩ := decTy_ok_msg h
    exact ⟨ty, fs, rfl, rfl⟩

/-- an unregistered key value is an error: never a guess, never a panic -/
theorem dec_union_unknown {env : Env} {f key tbl : Nat} {g : Guard} {acc : List Val}
    (h : unionTy env key tbl acc = none) :
    ∀ b, decOp env (decTy env f) acc (.union key tbl g) b = .err := by
  intro b
  simp only [decOp, h, optR_none, failR_apply]

/-- spelled out over key VALUES: whatever number / text the key field holds, if the table has no
    registration for it the union fails -/
theorem dec_union_unknown_key {env : Env} {f key tbl : Nat} {g : Guard} {acc : List Val} {kv : Val}
    {k : Key} (hkv : acc[key]? = some kv) (hk : keyOf kv = some k) (hl : env.lookup tbl k = none) :
    ∀ b, decOp env (decTy env f) acc (.union key tbl g) b = .err :=
  dec_union_unknown (by simp only [unionTy, hkv, Option.bind_some, hk, hl])

/-- a key field that is absent or not a scalar / text is an error too -/
theorem dec_union_nokey {env : Env} {f key tbl : Nat} {g : Guard} {acc : List Val}
    (hkv : acc[key]?.bind keyOf = none) :
    ∀ b, decOp env (decTy env f) acc (.union key tbl g) b = .err :=
  dec_union_unknown (by simp only [unionTy, hkv, Option.bind_none])

/-- encoder side: an absent body is materialised from the SAME table with the SAME key -/
theorem enc_union_nil_mat {env : Env} {f key tbl : Nat} {all : List Val} (pre : Bytes) :
    encOp env (encTy env f) (zeroTy env f) all (.union key tbl .mat) .nil pre =
      match unionTy env key tbl all with
      | none => .err
      | some ty => encTy env f ty (zeroTy env f ty) pre := by
  simp only [encOp]
  cases unionTy env key tbl all <;> rfl

theorem enc_union_nil_none {env : Env} {f key tbl : Nat} {all : List Val}
    (h : unionTy env key tbl all = none) (pre : Bytes) :
    encOp env (encTy env f) (zeroTy env f) all (.union key tbl .mat) .nil pre = .err := by
  rw [enc_union_nil_mat, h]

theorem enc_union_nil_some {env : Env} {f key tbl ty : Nat} {all : List Val}
    (h : unionTy env key tbl all = some ty) (pre : Bytes) :
    encOp env (encTy env f) (zeroTy env f) all (.union key tbl .mat) .nil pre =
      encTy env f ty (zeroTy env f ty) pre := by
  rw [enc_union_nil_mat, h]

theorem enc_union_nil_skip {env : Env} {f key tbl : Nat} {all : List Val} (pre : Bytes) :
    encOp env (encTy env f) (zeroTy env f) all (.union key tbl .skip) .nil pre = .ok (.nil, pre) := by
  simp only [encOp]
  cases unionTy env key tbl all <;> rfl

/-- the three cases together -/
theorem enc_union_nil {env : Env} {f key tbl : Nat} {all : List Val} (pre : Bytes) :
    (unionTy env key tbl all = none →
      encOp env (encTy env f) (zeroTy env f) all (.union key tbl .mat) .nil pre = .err) ∧
    (∀ ty, unionTy env key tbl all = some ty →
      encOp env (encTy env f) (zeroTy env f) all (.union key tbl .mat) .nil pre =
        encTy env f ty (zeroTy env f ty) pre) ∧
    encOp env (encTy env f) (zeroTy env f) all (.union key tbl .skip) .nil pre = .ok (.nil, pre) :=
  ⟨fun h => enc_union_nil_none h pre, fun _ h => enc_union_nil_some h pre, enc_union_nil_skip pre⟩

/-- a Go map filled by successive registrations: the LAST registration of a key wins … -/
theorem lookup_last_wins (k : Key) (ty : Nat) (t : List (Key × Nat)) :
    lookupKey k ((t ++ [(k, ty)]).reverse) = some ty := by
  simp only [List.reverse_append, List.reverse_cons, List.reverse_nil, List.nil_append,
    List.cons_append, lookupKey, if_true]

/-- … and leaves every other key as it was -/
theorem lookup_last_other {k k' : Key} (hk : k' ≠ k) (ty : Nat) (t : List (Key × Nat)) :
    lookupKey k' ((t ++ [(k, ty)]).reverse) = lookupKey k' t.reverse := by
  simp only [List.reverse_append, List.reverse_cons, List.reverse_nil, List.nil_append,
    List.cons_append, lookupKey]
  rw [if_neg (fun h => hk h.symm)]

/-- the same two facts at the level of `Env.lookup` -/
theorem Env.lookup_last_wins {env : Env} {tbl : Nat} {t : List (Key × Nat)} {k : Key} {ty : Nat}
    (h : env.tables[tbl]? = some (t ++ [(k, ty)])) : env.lookup tbl k = some ty := by
  simp only [Env.lookup, h]
  exact FinProto.lookup_last_wins k ty t

theorem Env.lookup_last_other {env : Env} {tbl : Nat} {t : List (Key × Nat)} {k k' : Key} {ty : Nat}
    (h : env.tables[tbl]? = some (t ++ [(k, ty)])) (hk : k' ≠ k) :
    env.lookup tbl k' = lookupKey k' t.reverse := by
  simp only [Env.lookup, h]
  exact FinProto.lookup_last_other hk ty t

/-! ## D. streams (C07) -/

/-- decode the listed message types one after the other from the same byte stream -/
def decMany (env : Env) (f : Nat) : List Nat → R (List Val)
  | [] => pureR []
  | ty :: tys => bindR (decTy env f ty) (fun v => mapR (fun l => v :: l) (decMany env f tys))

theorem obl_decMany (env : Env) (f : Nat) : ∀ tys, Obl (decMany env f tys)
  | [] => obl_pureR _
  | ty :: tys => obl_bindR (obl_decTy env f ty) (fun _ => obl_mapR _ (obl_decMany env f tys))

theorem np_decMany {env : Env} (hw : env.widthsOK = true) (f : Nat) : ∀ tys, NoPanic (decMany env f tys)
  | [] => np_pureR _
  | ty :: tys => np_bindR (dec_no_panic hw f ty) (fun _ => np_mapR _ (np_decMany hw f tys))

/-- general form with an arbitrary tail `rest` -/
theorem dec_stream_rest {env : Env} {f : Nat} :
    ∀ (ms : List (Nat × Val × Bytes)),
      (∀ m ∈ ms, ∀ rest, decTy env f m.1 (m.2.2 ++ rest) = .ok (m.2.1, rest)) →
      ∀ rest, decMany env f (ms.map (·.1)) ((ms.map (·.2.2)).flatten ++ rest) =
        .ok (ms.map (·.2.1), rest)
  | [], _, rest => rfl
  | m :: ms, h, rest => by
    simp only [List.map_cons, List.flatten_cons, decMany, List.append_assoc]
    refine bindR_eq_ok.mpr ⟨m.2.1, _, h m (List.mem_cons_self ..) _, ?_⟩
    exact mapR_eq_ok.mpr ⟨_, dec_stream_rest ms (fun m' hm' => h m' (List.mem_cons_of_mem _ hm')) rest, rfl⟩

/-- messages written back to back on one stream are read back in order, and nothing is left -/
theorem dec_stream {env : Env} {f : Nat} (ms : List (Nat × Val × Bytes))
    (h : ∀ m ∈ ms, ∀ rest, decTy env f m.1 (m.2.2 ++ rest) = .ok (m.2.1, rest)) :
    decMany env f (ms.map (·.1)) (ms.map (·.2.2)).flatten = .ok (ms.map (·.2.1), []) := by
  have := dec_stream_rest ms h []
  rwa [List.append_nil] at this

/-- thanks to obliviousness it is enough that every message decodes exactly on its own -/
theorem dec_stream_of_exact {env : Env} {f : Nat} (ms : List (Nat × Val × Bytes))
    (h : ∀ m ∈ ms, decTy env f m.1 m.2.2 = .ok (m.2.1, [])) :
    decMany env f (ms.map (·.1)) (ms.map (·.2.2)).flatten = .ok (ms.map (·.2.1), []) :=
  dec_stream ms (fun m hm rest => by
    have h0 := h m hm
    rw [← List.append_nil m.2.2] at h0
    exact dec_extend h0 rest)

/-! ## non-vacuity (the environment extracted from the real code) -/

section Examples
open Pinned

/-- an sse.SseBinary frame (type 96) holding a Heartbeat (type 88), followed by one foreign byte -/
private def exW : Bytes := [0,0,0,33, 0,0,0,0,0,0,0,7, 0,0,0,0, 0,0,0,40]
private def exV : Val := .msg 96 [.num 33, .num 7, .num 0, .msg 88 [], .num 40]

private theorem exDec1 : decTy Pinned.env 3 96 (exW ++ [0xEE]) = .ok (exV, [0xEE]) := rfl
private theorem exDec0 : decTy Pinned.env 3 96 exW = .ok (exV, []) := rfl

-- A: hypotheses of `dec_consumes_prefix`, `dec_extend`, `dec_truncated_not_ok` hold on a real frame
example : ∃ c, exW ++ [0xEE] = c ++ [0xEE] :=
  dec_consumes_prefix (env := Pinned.env) (f := 3) (ty := 96) (v := exV) exDec1
example : ∀ r', decTy Pinned.env 3 96 (exW ++ r') = .ok (exV, r') :=
  dec_extend (r := [0xEE]) exDec1
example : ∀ v' r', decTy Pinned.env 3 96 (exW.take 19) ≠ .ok (v', r') :=
  dec_truncated_not_ok exDec0 (by decide)

-- a type with a repeating group (bse.PlatformInfo = 30, elements bse.NoPartitions = 28): prefix,
-- extension and truncation on a message holding two group entries
private def exP : Bytes :=
  [9,0, 2,0, 7,0,0,0, 65,32,32,32,32,32,32,32,32,32,32,32,32,32,32,32,32,32,32,32,
             8,0,0,0, 66,67,32,32,32,32,32,32,32,32,32,32,32,32,32,32,32,32,32,32]
private def exPV : Val :=
  .msg 30 [.num 9, .msgs [.msg 28 [.num 7, .str [65]], .msg 28 [.num 8, .str [66, 67]]]]
private theorem exDecP : decTy Pinned.env 3 30 exP = .ok (exPV, []) := rfl
example : ∀ r', decTy Pinned.env 3 30 (exP ++ r') = .ok (exPV, r') :=
  dec_extend (r := []) (by rw [List.append_nil]; exact exDecP)
example : ∀ v' r', decTy Pinned.env 3 30 (exP.take 51) ≠ .ok (v', r') :=
  dec_truncated_not_ok exDecP (by decide)

-- B: the real environment passes `widthsOK`, so its decoders never panic
example : Pinned.env.widthsOK = true := by decide +kernel
example : ∀ f ty, NoPanic (decTy Pinned.env f ty) := dec_no_panic (by decide +kernel)
-- … and the panic in the model is real: an 8-byte count prefix ≥ 2^63 panics
example : readList 8 .be (readScalar 1 .be) [0x80,0,0,0,0,0,0,0] = .panic := by decide +kernel

-- C: the frame's union op reads key field 0 (= 33) in table 13 and builds a Heartbeat
example : unionTy Pinned.env 0 13 [.num 33, .num 7, .num 0] = some 88 := by decide +kernel
example : decOp Pinned.env (decTy Pinned.env 2) [.num 33, .num 7, .num 0] (.union 0 13 .mat) [0xEE] =
    .ok (.msg 88 [], [0xEE]) := rfl
-- key 34 is not registered: error for every input
example : unionTy Pinned.env 0 13 [.num 34, .num 7, .num 0] = none := by decide +kernel
example : ∀ b, decOp Pinned.env (decTy Pinned.env 2) [.num 34, .num 7, .num 0] (.union 0 13 .mat) b = .err :=
  dec_union_unknown (by decide +kernel)
example : decTy Pinned.env 3 96 [0,0,0,34, 0,0,0,0,0,0,0,7, 0,0,0,0, 0,0,0,40] = .err := rfl
-- last registration wins
example : lookupKey (Key.n 33) (([(Key.n 33, 1), (Key.n 40, 2)] ++ [(Key.n 33, 88)]).reverse) = some 88 :=
  lookup_last_wins _ _ _

-- C (continued): `decTy_ok_msg`, `dec_union_ok` and `enc_union_nil` instantiated on the real frame
example : ∃ fs, exV = .msg 96 fs ∧ ∀ td, Pinned.env.types[96]? = some td → fs.length = td.dec.length :=
  decTy_ok_msg exDec0
example : ∃ ty fs, unionTy Pinned.env 0 13 [.num 33, .num 7, .num 0] = some ty ∧ Val.msg 88 [] = .msg ty fs :=
  dec_union_ok (f := 2) (g := .mat) (b := [0xEE]) (r := [0xEE]) rfl
example (pre : Bytes) :
    encOp Pinned.env (encTy Pinned.env 2) (zeroTy Pinned.env 2) [.num 33, .num 7, .num 0] (.union 0 13 .mat) .nil pre =
      encTy Pinned.env 2 88 (zeroTy Pinned.env 2 88) pre :=
  enc_union_nil_some (by decide +kernel) pre
example (pre : Bytes) :
    encOp Pinned.env (encTy Pinned.env 2) (zeroTy Pinned.env 2) [.num 34, .num 7, .num 0] (.union 0 13 .mat) .nil pre = .err :=
  enc_union_nil_none (by decide +kernel) pre

-- B (continued): ok-or-error on the real environment, for arbitrary input
example (b : Bytes) : (∃ v r, decTy Pinned.env 3 96 b = .ok (v, r)) ∨ decTy Pinned.env 3 96 b = .err :=
  dec_ok_or_err (by decide +kernel) 3 96 b

-- D: three messages of two different types back to back
example : decMany Pinned.env 3 [96, 30, 96] (exW ++ (exP ++ exW)) = .ok ([exV, exPV, exV], []) := by
  have := dec_stream_of_exact (env := Pinned.env) (f := 3) [(96, exV, exW), (30, exPV, exP), (96, exV, exW)] (by
    intro m hm
    simp only [List.mem_cons, List.not_mem_nil, or_false] at hm
    rcases hm with rfl | rfl | rfl
    · exact exDec0
    · exact exDecP
    · exact exDec0)
  simpa using this

end Examples

end FinProto
