/-
  GoIR proofs, group B: fixed-width text (`Padding`, `WriteFixedString[WithPadding]`, `ReadFixedString[TrimPadding]`).
-/
import FinProto.GoIRSpec
import FinProto.Props.PrimLemmas
namespace FinProto.GoIR
set_option linter.unusedSimpArgs false
open FinProto

theorem prog_15 : prog[15]? = some PinnedIR.fn15 := rfl

theorem wrap_u1 (p : Nat) : (Ty.u 1).wrap (Int.ofNat p) = ((p % 256 : Nat) : Int) := by
  simp only [Ty.wrap, Int.ofNat_eq_natCast]
  omega

theorem ofNat_mod256 (p : Nat) : UInt8.ofNat (p % 256) = UInt8.ofNat p := by
  apply UInt8.toNat_inj.mp
  simp

theorem flatten_replicate_singleton {α} (n : Nat) (b : α) : (List.replicate n [b]).flatten = List.replicate n b := by
  induction n with
  | zero => rfl
  | succ n ih => simp [List.replicate_succ, ih]

theorem ir_padding (ext : Ext O) (n p : Nat) (buf : Bytes) (lf k : Nat) (hk : 1 ≤ k) :
    runFn ext prog lf k ixPadding [] [natV n, natV p] buf
      = .ret [.err false] (buf ++ List.replicate n (UInt8.ofNat p)) := by
  obtain ⟨k, rfl⟩ : ∃ k', k = k' + 1 := ⟨k - 1, by omega⟩
  have h1 : (0:Int) ≤ ((p % 256 : Nat) : Int) ∧ ((p % 256 : Nat) : Int) < 256 := by omega
  have h2 : (0:Int) ≤ Int.ofNat n := by simp
  simp only [runFn, ixPadding, prog_15, PinnedIR.fn15, exec, evalE, resolve, initLoc, natV, List.getD_cons_succ, List.getD_cons_zero,
    wrap_u1, if_pos h1, if_pos h2, Int.toNat_natCast, ofNat_mod256, flatten_replicate_singleton, St.set_loc, St.set_buf,
    St.setOpt_none, St.setOpt_some, if_true, evalArgs, Option.bind, Option.map]
  rfl

theorem prog_14 : prog[14]? = some PinnedIR.fn14 := rfl

theorem ir_writeFixed (ext : Ext O) (s : Bytes) (n p : Nat) (left : Bool) (buf : Bytes) (lf k : Nat) (hk : 2 ≤ k) :
    runFn ext prog lf k ixWFixed [] [.bytes s, natV n, natV p, .bool left] buf
      = .ret [.err false] (buf ++ writeFixed n (UInt8.ofNat p) left s) := by
  obtain ⟨k, rfl⟩ : ∃ k', k = k' + 1 := ⟨k - 1, by omega⟩
  have hk' : 1 ≤ k := by omega
  by_cases h : s.length > n
  · have hc : cop .gt (↑s.length) (Int.ofNat n) = true := by
      simp only [cop, Int.ofNat_eq_natCast, decide_eq_true_eq]; omega
    have hle : (0:Int) ≤ Int.ofNat n ∧ Int.ofNat n ≤ ↑(List.length s) := by
      simp only [Int.ofNat_eq_natCast]; omega
    simp only [runFn, ixWFixed, prog_14, PinnedIR.fn14, exec, evalE, resolve, initLoc, natV, List.getD_cons_succ, List.getD_cons_zero,
      St.set_loc, St.set_buf, St.setOpt_none, St.setOpt_some, if_true, evalArgs, Option.bind, Option.map, lenV,
      Nat.reduceEqDiff, ↓reduceIte, hc, if_pos hle]
    rw [writeFixed_long h]; rfl
  · have hc : cop .gt (↑s.length) (Int.ofNat n) = false := by
      simp only [cop, Int.ofNat_eq_natCast, decide_eq_false_iff_not]; omega
    have hsub : Int.ofNat n - (↑(List.length s) : Int) = Int.ofNat (n - s.length) := by
      simp only [Int.ofNat_eq_natCast]; omega
    have hpad : ∀ b, runFn ext prog lf k 15 [] [V.int (Int.ofNat (n - s.length)), V.int (Int.ofNat p)] b
        = .ret [.err false] (b ++ List.replicate (n - s.length) (UInt8.ofNat p)) :=
      fun b => ir_padding ext (n - s.length) p b lf k hk'
    cases left
    · simp only [runFn, ixWFixed, prog_14, PinnedIR.fn14, exec, evalE, resolve, initLoc, natV, List.getD_cons_succ, List.getD_cons_zero,
        St.set_loc, St.set_buf, St.setOpt_none, St.setOpt_some, if_true, evalArgs, Option.bind, Option.map, lenV,
        Nat.reduceEqDiff, ↓reduceIte, hc, aop, Ty.wrap, hsub, resolveAll, hpad, assignAll, Bool.not_false, Bool.not_true]
      rw [writeFixed_short_right (by omega), List.append_assoc]
    · simp only [runFn, ixWFixed, prog_14, PinnedIR.fn14, exec, evalE, resolve, initLoc, natV, List.getD_cons_succ, List.getD_cons_zero,
        St.set_loc, St.set_buf, St.setOpt_none, St.setOpt_some, if_true, evalArgs, Option.bind, Option.map, lenV,
        Nat.reduceEqDiff, ↓reduceIte, hc, aop, Ty.wrap, hsub, resolveAll, hpad, assignAll, Bool.not_false, Bool.not_true]
      rw [writeFixed_short_left (by omega), List.append_assoc]

theorem prog_13 : prog[13]? = some PinnedIR.fn13 := rfl

theorem ofNat_32 : UInt8.ofNat 32 = 0x20 := rfl

theorem ir_writeFixedDef (ext : Ext O) (s : Bytes) (n : Nat) (buf : Bytes) (lf k : Nat) (hk : 3 ≤ k) :
    runFn ext prog lf k ixWFixedDef [] [.bytes s, natV n] buf
      = .ret [.err false] (buf ++ writeFixed n 0x20 false s) := by
  obtain ⟨k, rfl⟩ : ∃ k', k = k' + 1 := ⟨k - 1, by omega⟩
  have hk' : 2 ≤ k := by omega
  have hw : ∀ b, runFn ext prog lf k 14 [] [V.bytes s, V.int (Int.ofNat n), V.int 32, V.bool false] b
        = .ret [.err false] (b ++ writeFixed n 0x20 false s) :=
    fun b => ir_writeFixed ext s n 32 false b lf k hk'
  simp only [runFn, ixWFixedDef, prog_13, PinnedIR.fn13, exec, evalE, resolve, initLoc, natV, List.getD_cons_succ, List.getD_cons_zero,
        St.set_loc, St.set_buf, St.setOpt_none, St.setOpt_some, if_true, evalArgs, Option.bind, Option.map, lenV,
        Nat.reduceEqDiff, ↓reduceIte, resolveAll, hw, assignAll]

theorem St.set_set (s : St O) (x : Nat) (v w : V O) : (s.set x v).set x w = s.set x w := by
  simp only [St.set, St.mk.injEq, true_and]
  funext j
  split <;> rfl

theorem St.set_self (s : St O) (x : Nat) (v : V O) (h : s.loc x = v) : s.set x v = s := by
  cases s with
  | mk b l =>
    simp only [St.set, St.mk.injEq, true_and]
    funext j
    split
    · next hj => subst hj; exact h.symm
    · rfl

theorem toNat_eq_iff (b : UInt8) (p : Nat) : ((b.toNat : Int) = ((p % 256 : Nat) : Int)) ↔ b = UInt8.ofNat p := by
  rw [← UInt8.toNat_inj]
  simp only [UInt8.toNat_ofNat']
  omega

def condL : Expr := (.and (.cmp .gt (.len (.var 3)) (.int 0)) (.cmp .eq (.index (.var 3) (.int 0)) (.var 5)))
def bodyL : Stmt := (.set 3 (.sliceFrom (.var 3) (.int 1)))
def condR : Expr := (.and (.cmp .gt (.len (.var 3)) (.int 0)) (.cmp .eq (.index (.var 3) (.arith .sub (.ty .big) (.len (.var 3)) (.int 1))) (.var 5)))
def bodyR : Stmt := (.set 3 (.sliceTo (.var 3) (.arith .sub (.ty .big) (.len (.var 3)) (.int 1))))
def whileL : Stmt := .while condL .skip bodyL
def whileR : Stmt := .while condR .skip bodyR

theorem whileLoop_false {cond : St O → Option (V O)} {body post : St O → Res O} {k : Nat} {s : St O}
    (h : cond s = some (.bool false)) : whileLoop cond body post (k+1) s = .norm s := by
  simp only [whileLoop, h]

theorem whileLoop_true {cond : St O → Option (V O)} {body post : St O → Res O} {k : Nat} {s s1 s2 : St O}
    (h : cond s = some (.bool true)) (hb : body s = .norm s1) (hp : post s1 = .norm s2) :
    whileLoop cond body post (k+1) s = whileLoop cond body post k s2 := by
  simp only [whileLoop, h, hb, hp]

theorem loopL_aux (ext : Ext O) (callee : Nat → List Ty → List (V O) → Bytes → CallRes O) (lf p : Nat) :
    ∀ (bs : Bytes) (fuel : Nat) (s : St O), bs.length < fuel → s.loc 3 = .bytes bs → s.loc 5 = .int ((p % 256 : Nat) : Int) →
      whileLoop (fun s => evalE [] s condL) (exec ext callee lf [] bodyL) (exec ext callee lf [] .skip) fuel s
        = .norm (s.set 3 (.bytes (trimL (UInt8.ofNat p) bs))) := by
  intro bs
  induction bs with
  | nil =>
    intro fuel s hf h3 h5
    obtain ⟨fuel, rfl⟩ : ∃ f, fuel = f + 1 := ⟨fuel - 1, by simp at hf; omega⟩
    rw [whileLoop_false, trimL, St.set_self _ _ _ h3]
    simp [condL, evalE, h3, h5, lenV, cop]
  | cons b bs ih =>
    intro fuel s hf h3 h5
    obtain ⟨fuel, rfl⟩ : ∃ f, fuel = f + 1 := ⟨fuel - 1, by simp at hf; omega⟩
    have hgt : ((bs.length + 1 : Nat) : Int) > 0 := by omega
    by_cases hb : b = UInt8.ofNat p
    · have hb' := (toNat_eq_iff b p).mpr hb
      rw [whileLoop_true (s1 := s.set 3 (.bytes bs)) (s2 := s.set 3 (.bytes bs)), ih, St.set_set, trimL, if_pos hb]
      · simp at hf; omega
      · simp
      · simpa using h5
      · simp [condL, evalE, h3, h5, lenV, cop, hb']
      · have : (1:Int) ≤ ↑bs.length + 1 := by omega
        simp [bodyL, exec, evalE, h3, this]
      · rfl
    · have hb' : ¬ _ := fun h => hb ((toNat_eq_iff b p).mp h)
      rw [whileLoop_false, trimL, if_neg hb, St.set_self _ _ _ h3]
      simp [condL, evalE, h3, h5, lenV, cop]
      omega

theorem loopR_aux (ext : Ext O) (callee : Nat → List Ty → List (V O) → Bytes → CallRes O) (lf p : Nat) :
    ∀ (rs : Bytes) (fuel : Nat) (s : St O), rs.length < fuel → s.loc 3 = .bytes rs.reverse → s.loc 5 = .int ((p % 256 : Nat) : Int) →
      whileLoop (fun s => evalE [] s condR) (exec ext callee lf [] bodyR) (exec ext callee lf [] .skip) fuel s
        = .norm (s.set 3 (.bytes (trimL (UInt8.ofNat p) rs).reverse)) := by
  intro rs
  induction rs with
  | nil =>
    intro fuel s hf h3 h5
    obtain ⟨fuel, rfl⟩ : ∃ f, fuel = f + 1 := ⟨fuel - 1, by simp at hf; omega⟩
    rw [whileLoop_false, trimL, St.set_self _ _ _ h3]
    simp [condR, evalE, h3, h5, lenV, cop]
  | cons b bs ih =>
    intro fuel s hf h3 h5
    obtain ⟨fuel, rfl⟩ : ∃ f, fuel = f + 1 := ⟨fuel - 1, by simp at hf; omega⟩
    have hgt : ((bs.length + 1 : Nat) : Int) > 0 := by omega
    have hidx : (bs.reverse ++ [b])[bs.length]? = some b := by
      rw [List.getElem?_append_right (by simp)]; simp
    have hsub : ((bs.length : Int) + 1 - 1).toNat = bs.length := by omega
    rw [List.reverse_cons] at h3
    by_cases hb : b = UInt8.ofNat p
    · have hb' := (toNat_eq_iff b p).mpr hb
      rw [whileLoop_true (s1 := s.set 3 (.bytes bs.reverse)) (s2 := s.set 3 (.bytes bs.reverse)), ih, St.set_set, trimL, if_pos hb]
      · simp at hf; omega
      · simp
      · simpa using h5
      · simp [condR, evalE, h3, h5, lenV, cop, hb', aop, Ty.wrap, resolve, hsub, hidx]
      · have : (bs.length:Int) ≤ ↑bs.length + 1 := by omega
        simp [bodyR, exec, evalE, h3, this, aop, Ty.wrap, resolve, lenV, hsub]
      · rfl
    · have hb' : ¬ _ := fun h => hb ((toNat_eq_iff b p).mp h)
      rw [whileLoop_false, trimL, if_neg hb, List.reverse_cons, St.set_self _ _ _ h3]
      simp [condR, evalE, h3, h5, lenV, cop, aop, Ty.wrap, resolve, hsub, hidx]
      omega

theorem exec_whileL (ext : Ext O) (callee : Nat → List Ty → List (V O) → Bytes → CallRes O) (lf p : Nat)
    (bs : Bytes) (s : St O) (hf : bs.length < lf) (h3 : s.loc 3 = .bytes bs) (h5 : s.loc 5 = .int ((p % 256 : Nat) : Int)) :
    exec ext callee lf [] whileL s = .norm (s.set 3 (.bytes (trimL (UInt8.ofNat p) bs))) := by
  simp only [whileL, exec]
  exact loopL_aux ext callee lf p bs lf s hf h3 h5

theorem exec_whileR (ext : Ext O) (callee : Nat → List Ty → List (V O) → Bytes → CallRes O) (lf p : Nat)
    (bs : Bytes) (s : St O) (hf : bs.length < lf) (h3 : s.loc 3 = .bytes bs) (h5 : s.loc 5 = .int ((p % 256 : Nat) : Int)) :
    exec ext callee lf [] whileR s = .norm (s.set 3 (.bytes (trimR (UInt8.ofNat p) bs))) := by
  simp only [whileR, exec]
  have := loopR_aux ext callee lf p bs.reverse lf s (by simpa using hf) (by simpa using h3) h5
  exact this

theorem prog_17 : prog[17]? = some PinnedIR.fn17 := rfl

theorem fn17_body : PinnedIR.fn17.body =
 (.seq (.makeBytes 3 (.var 0))
 (.seq (.readFull 3 none (some 4))
 (.seq (.set 5 (.conv (.ty (.u 1)) (.var 1)))
 (.seq (.ite (.var 2)
 (.seq whileL
 (.ret [(.toStr (.var 3)), (.var 4)]))
 .skip)
 (.seq whileR
 (.ret [(.toStr (.var 3)), (.var 4)])))))) := rfl

theorem ir_readFixed (ext : Ext O) (n p : Nat) (left : Bool) (buf : Bytes) (lf k : Nat) (hlf : n < lf) (hk : 1 ≤ k) :
    RSpec (runFn ext prog lf k ixRFixed [] [natV n, natV p, .bool left] buf) V.bytes
      (readFixed n (UInt8.ofNat p) left buf) := by
  obtain ⟨k, rfl⟩ : ∃ k', k = k' + 1 := ⟨k - 1, by omega⟩
  have h0 : (0:Int) ≤ Int.ofNat n := by simp
  have hto : (Int.ofNat n).toNat = n := rfl
  rw [readFixed_eq]
  by_cases hn : n ≤ buf.length
  · rw [if_pos hn]
    cases left
    · simp only [RSpec, runFn, ixRFixed, prog_17, fn17_body, exec, evalE, resolve, initLoc, natV, List.getD_cons_succ, List.getD_cons_zero,
        St.set_loc, St.set_buf, St.setOpt_none, St.setOpt_some, evalArgs, Option.bind, Option.map, lenV,
        Nat.reduceEqDiff, ↓reduceIte, if_pos h0, wrap_u1, List.length_replicate, Int.toNat_natCast, hto, if_pos hn]
      rw [exec_whileR ext _ lf p (buf.take n) _ (by rw [List.length_take]; omega) (by simp) (by simp)]
      simp [trim]
    · simp only [RSpec, runFn, ixRFixed, prog_17, fn17_body, exec, evalE, resolve, initLoc, natV, List.getD_cons_succ, List.getD_cons_zero,
        St.set_loc, St.set_buf, St.setOpt_none, St.setOpt_some, evalArgs, Option.bind, Option.map, lenV,
        Nat.reduceEqDiff, ↓reduceIte, if_pos h0, wrap_u1, List.length_replicate, Int.toNat_natCast, hto, if_pos hn]
      rw [exec_whileL ext _ lf p (buf.take n) _ (by rw [List.length_take]; omega) (by simp) (by simp)]
      simp [trim]
  · rw [if_neg hn]
    have hlen : (fillFrom buf (List.replicate n 0)).length < lf := by
      simp only [fillFrom, List.length_append, List.length_drop, List.length_replicate]; omega
    cases left
    · simp only [RSpec, runFn, ixRFixed, prog_17, fn17_body, exec, evalE, resolve, initLoc, natV, List.getD_cons_succ, List.getD_cons_zero,
        St.set_loc, St.set_buf, St.setOpt_none, St.setOpt_some, evalArgs, Option.bind, Option.map, lenV,
        Nat.reduceEqDiff, ↓reduceIte, if_pos h0, wrap_u1, List.length_replicate, Int.toNat_natCast, hto, if_neg hn]
      rw [exec_whileR ext _ lf p (fillFrom buf (List.replicate n 0)) _ hlen (by simp) (by simp)]
      simp
    · simp only [RSpec, runFn, ixRFixed, prog_17, fn17_body, exec, evalE, resolve, initLoc, natV, List.getD_cons_succ, List.getD_cons_zero,
        St.set_loc, St.set_buf, St.setOpt_none, St.setOpt_some, evalArgs, Option.bind, Option.map, lenV,
        Nat.reduceEqDiff, ↓reduceIte, if_pos h0, wrap_u1, List.length_replicate, Int.toNat_natCast, hto, if_neg hn]
      rw [exec_whileL ext _ lf p (fillFrom buf (List.replicate n 0)) _ hlen (by simp) (by simp)]
      simp

theorem prog_16 : prog[16]? = some PinnedIR.fn16 := rfl

theorem ir_readFixedDef (ext : Ext O) (n : Nat) (buf : Bytes) (lf k : Nat) (hlf : n < lf) (hk : 2 ≤ k) :
    RSpec (runFn ext prog lf k ixRFixedDef [] [natV n] buf) V.bytes (readFixed n 0x20 false buf) := by
  obtain ⟨k, rfl⟩ : ∃ k', k = k' + 1 := ⟨k - 1, by omega⟩
  have hk' : 1 ≤ k := by omega
  have hr : RSpec (runFn ext prog lf k 17 [] [V.int (Int.ofNat n), V.int 32, V.bool false] buf) V.bytes
      (readFixed n 0x20 false buf) := ir_readFixed ext n 32 false buf lf k hlf hk'
  generalize readFixed n 0x20 false buf = out at hr ⊢
  cases out with
  | ok pr =>
    simp only [RSpec] at hr
    simp only [RSpec, runFn, ixRFixedDef, prog_16, PinnedIR.fn16, exec, evalE, resolve, initLoc, natV, List.getD_cons_succ, List.getD_cons_zero,
        St.set_loc, St.set_buf, St.setOpt_none, St.setOpt_some, evalArgs, Option.bind, Option.map, lenV,
        Nat.reduceEqDiff, ↓reduceIte, resolveAll, hr, assignAll]
  | err =>
    simp only [RSpec] at hr
    obtain ⟨v, b', hr⟩ := hr
    simp only [RSpec, runFn, ixRFixedDef, prog_16, PinnedIR.fn16, exec, evalE, resolve, initLoc, natV, List.getD_cons_succ, List.getD_cons_zero,
        St.set_loc, St.set_buf, St.setOpt_none, St.setOpt_some, evalArgs, Option.bind, Option.map, lenV,
        Nat.reduceEqDiff, ↓reduceIte, resolveAll, hr, assignAll]
    exact ⟨_, _, rfl⟩
  | panic =>
    simp only [RSpec] at hr
    simp only [RSpec, runFn, ixRFixedDef, prog_16, PinnedIR.fn16, exec, evalE, resolve, initLoc, natV, List.getD_cons_succ, List.getD_cons_zero,
        St.set_loc, St.set_buf, St.setOpt_none, St.setOpt_some, evalArgs, Option.bind, Option.map, lenV,
        Nat.reduceEqDiff, ↓reduceIte, resolveAll, hr, assignAll]
end FinProto.GoIR