import FinProto.Props.EncLemmas
import FinProto.Pinned
/-! Non-vacuity of the encoder-side theorems (`EncLemmas.lean`) on the environment extracted from the
    real code: type 96 = sse.SseBinary (fields MsgType, MsgSeqNum, MsgBodyLen, Body, Checksum),
    88 = sse.Heartbeat (no fields), 89 = sse.Logon. -/
namespace FinProto

/-- SseBinary holding a Heartbeat: the stale length 99 and the stale checksum 5 are replaced -/
theorem sse_heartbeat_run :
    encTy Pinned.env 3 96 (.msg 96 [.num 33, .num 7, .num 99, .msg 88 [], .num 5]) [0xAA] =
      .ok (.msg 96 [.num 33, .num 7, .num 0, .msg 88 [], .num 40],
           [0xAA, 0,0,0,33, 0,0,0,0,0,0,0,7, 0,0,0,0, 0,0,0,40]) := by rfl

set_option maxRecDepth 8000 in
/-- SseBinary holding a Logon whose pointer is present -/
theorem sse_logon_run :
    encTy Pinned.env 3 96 (.msg 96 [.num 40, .num 1, .num 0,
        .msg 89 [.str [65], .str [66], .num 30, .str [49], .num 5, .num 6], .num 0]) [] =
      .ok (.msg 96 [.num 40, .num 1, .num 82,
        .msg 89 [.str [65], .str [66], .num 30, .str [49], .num 5, .num 6], .num 248],
        [0,0,0,40, 0,0,0,0,0,0,0,1, 0,0,0,82] ++
        (65 :: List.replicate 31 32) ++ (66 :: List.replicate 31 32) ++ [0, 30] ++ (49 :: List.replicate 7 32) ++
        [0,0,0,5, 0,0,0,6] ++ [0,0,0,248]) := by rfl

-- B: the hypotheses of `frame_shape` / `frame_len_exact` / `frame_cks_exact` on the real SseBinary frame
example :
    ∃ hv hdrBytes body body' bodyBytes,
      encSeq (encOp Pinned.env (encTy Pinned.env 2) (zeroTy Pinned.env 2) [.num 33, .num 7, .num 99, .msg 88 [], .num 5])
        [.scalar 4 .be, .scalar 8 .be] [.num 33, .num 7] [] = .ok (hv, hdrBytes) ∧
      ([.num 33, .num 7, .num 99, .msg 88 [], .num 5] : List Val)[3]? = some body ∧
      encPtr (encTy Pinned.env 2) .skip
        ((unionTy Pinned.env 0 13 [.num 33, .num 7, .num 99, .msg 88 [], .num 5]).map (zeroTy Pinned.env 2))
        (unionTy Pinned.env 0 13 [.num 33, .num 7, .num 99, .msg 88 [], .num 5]) body [] = .ok (body', bodyBytes) ∧
      ([0xAA, 0,0,0,33, 0,0,0,0,0,0,0,7, 0,0,0,0, 0,0,0,40] : Bytes) =
        [0xAA] ++ (hdrBytes ++ toE .be 4 (bodyBytes.length % 2 ^ 32) ++ bodyBytes) ++
          toE .be 4 (cksNat .sse (hdrBytes ++ toE .be 4 (bodyBytes.length % 2 ^ 32) ++ bodyBytes)) := by
  obtain ⟨hv, hb, body, body', bb, h1, h2, h3, _, hs⟩ :=
    frame_shape (env := Pinned.env) (f := 2) (ty := 96) (td := Pinned.t96) rfl rfl sse_heartbeat_run
  exact ⟨hv, hb, body, body', bb, h1, h2, h3, (hs .sse 4 rfl).2.1⟩

example := frame_len_exact (env := Pinned.env) (f := 2) (ty := 96) (td := Pinned.t96) rfl rfl rfl sse_heartbeat_run
example := frame_cks_exact (env := Pinned.env) (f := 2) (ty := 96) (td := Pinned.t96) rfl rfl rfl sse_logon_run

-- A: context-freeness on the real frame
example : ∀ pre', encTy Pinned.env 3 96 (.msg 96 [.num 33, .num 7, .num 99, .msg 88 [], .num 5]) pre' =
    .ok (.msg 96 [.num 33, .num 7, .num 0, .msg 88 [], .num 40],
         pre' ++ [0,0,0,33, 0,0,0,0,0,0,0,7, 0,0,0,0, 0,0,0,40]) :=
  enc_context_free (pre := [0xAA]) sse_heartbeat_run

-- C: re-encoding the returned message
example : encTy Pinned.env 3 96 (.msg 96 [.num 33, .num 7, .num 0, .msg 88 [], .num 40]) [0xAA] =
    .ok (.msg 96 [.num 33, .num 7, .num 0, .msg 88 [], .num 40],
         [0xAA, 0,0,0,33, 0,0,0,0,0,0,0,7, 0,0,0,0, 0,0,0,40]) :=
  enc_idempotent sse_heartbeat_run

-- D: the side conditions of `enc_no_panic` hold for the extracted environment
theorem gen_guardsOK : Pinned.env.guardsOK = true := by decide +kernel
theorem gen_refsOK : Pinned.env.refsOK = true := by decide +kernel
theorem gen_hdrsOK : Pinned.env.hdrsOK = true := by decide +kernel

/-- C17 on the real schema: no message without nil group elements makes any Encode panic -/
theorem pinned_enc_no_panic : ∀ f ty fs pre, noNilElems (.msg ty fs) = true →
    encTy Pinned.env f ty (.msg ty fs) pre ≠ .panic :=
  enc_no_panic gen_guardsOK gen_refsOK gen_hdrsOK

/-- e.g. an SseBinary whose body pointer is nil (skipped by the frame encoder) -/
example : ∀ pre, encTy Pinned.env 3 96 (.msg 96 [.num 33, .num 7, .num 99, .nil, .num 5]) pre ≠ .panic :=
  fun pre => pinned_enc_no_panic 3 96 _ pre (by decide)

end FinProto
