/-
  C14: the four checksum algorithms of codec/checksum.go (modelled in `Work.Checksum`) equal
  their published definitions.  Core Lean only; proofs only (plus the independent reference
  definition of a parametrised CRC in the Rocksoft / "CRC catalogue" style).
-/
import FinProto.Basic
import FinProto.Checksum
namespace FinProto

/-! ## 1. SSE: running sum masked to 8 bits at every step -/

theorem sse_fold (bs : Bytes) (acc : UInt32) (h : acc.toNat < 256) :
    (bs.foldl (fun acc b => (acc + b.toUInt32) &&& 0xFF) acc).toNat
      = (acc.toNat + (bs.map (·.toNat)).sum) % 256 := by
  induction bs generalizing acc with
  | nil => simp only [List.foldl_nil, List.map_nil, List.sum_nil, Nat.add_zero]; omega
  | cons b bs ih =>
    have hb : b.toNat < 256 := b.toNat_lt
    have hstep : ((acc + b.toUInt32) &&& 0xFF).toNat = (acc.toNat + b.toNat) % 256 := by
      rw [UInt32.toNat_and, UInt32.toNat_add, UInt8.toNat_toUInt32]
      have : (0xFF : UInt32).toNat = 2 ^ 8 - 1 := by decide
      rw [this, Nat.and_two_pow_sub_one_eq_mod]
      omega
    simp only [List.foldl_cons, List.map_cons, List.sum_cons]
    rw [ih _ (by rw [hstep]; omega), hstep]
    omega

theorem sseGo_eq (bs : Bytes) : (sseGo bs).toNat = (bs.map (·.toNat)).sum % 256 := by
  have := sse_fold bs 0 (by decide)
  simpa [sseGo] using this

theorem sseGo_lt (bs : Bytes) : (sseGo bs).toNat < 256 := by
  rw [sseGo_eq]; omega

example : (sseGo [0xFF, 0xFF, 0x03]).toNat = (([0xFF, 0xFF, 0x03] : Bytes).map (·.toNat)).sum % 256 ∧
    (sseGo [0xFF, 0xFF, 0x03]).toNat = 1 := by decide

/-! ## 2. SZSE: wrapping 32-bit sum, reduced mod 256 at the end -/

theorem szse_fold (bs : Bytes) (acc : UInt32) :
    (bs.foldl (fun acc b => acc + b.toUInt32) acc).toNat
      = (acc.toNat + (bs.map (·.toNat)).sum) % 2 ^ 32 := by
  induction bs generalizing acc with
  | nil =>
    have := acc.toNat_lt
    simp only [List.foldl_nil, List.map_nil, List.sum_nil, Nat.add_zero]; omega
  | cons b bs ih =>
    simp only [List.foldl_cons, List.map_cons, List.sum_cons]
    rw [ih, UInt32.toNat_add, UInt8.toNat_toUInt32]
    omega

theorem szseAcc_eq (bs : Bytes) : (szseAcc bs).toNat = (bs.map (·.toNat)).sum % 2 ^ 32 := by
  have := szse_fold bs 0
  simpa [szseAcc] using this

theorem szseGo_eq (bs : Bytes) : (szseGo bs).toNat = (bs.map (·.toNat)).sum % 256 := by
  unfold szseGo
  rw [UInt32.toNat_mod, szseAcc_eq]
  have : (256 : UInt32).toNat = 256 := by decide
  rw [this]
  omega

theorem szseGo_lt (bs : Bytes) : (szseGo bs).toNat < 256 := by
  rw [szseGo_eq]; omega

example : (szseGo [0xFF, 0xFF, 0x03]).toNat = (([0xFF, 0xFF, 0x03] : Bytes).map (·.toNat)).sum % 256 ∧
    (szseGo [0xFF, 0xFF, 0x03]).toNat = 1 := by decide

/-! ## 3. Reference definition: parametrised CRC, Rocksoft model

  MSB-first (non-reflected) shift register of width `w`.  `refin` bit-reverses every input byte
  before it is fed in, `refout` bit-reverses the final register, `xorout` is xored in last.
  This is the textbook "simple" bitwise algorithm of Williams' "A painless guide to CRC error
  detection algorithms" and of the CRC catalogue; nothing here mentions the reversed
  polynomials 0xA001 / 0xEDB88320 or right shifts.
-/

structure CrcParams (w : Nat) where
  poly : BitVec w
  init : BitVec w
  xorout : BitVec w
  refin : Bool
  refout : Bool

/-- one shift of the MSB-first register: shift left, and subtract the polynomial if a 1 fell out -/
def crcShift {w : Nat} (poly r : BitVec w) : BitVec w :=
  if r.msb then (r <<< 1) ^^^ poly else r <<< 1

/-- feed one byte: xor it into the top 8 bits of the register, then shift 8 times -/
def crcFeed {w : Nat} (p : CrcParams w) (r : BitVec w) (b : UInt8) : BitVec w :=
  let byte : BitVec 8 := if p.refin then b.toBitVec.reverse else b.toBitVec
  let r := r ^^^ (byte.zeroExtend w <<< (w - 8))
  let s := crcShift p.poly
  s (s (s (s (s (s (s (s r)))))))

def crcRef {w : Nat} (p : CrcParams w) (bs : Bytes) : BitVec w :=
  let r := bs.foldl (crcFeed p) p.init
  (if p.refout then r.reverse else r) ^^^ p.xorout

def crc16Modbus : CrcParams 16 := ⟨0x8005#16, 0xFFFF#16, 0x0000#16, true, true⟩
def crc32Ieee : CrcParams 32 := ⟨0x04C11DB7#32, 0xFFFFFFFF#32, 0xFFFFFFFF#32, true, true⟩

/-! ## 3'. Simulation: the reflected register is the bit-reversal of the MSB-first register -/

/-- the LSB-first (reflected) shift with an arbitrary constant `q` -/
def reflShift {w : Nat} (q r : BitVec w) : BitVec w :=
  if r.getLsbD 0 then (r >>> 1) ^^^ q else r >>> 1

theorem reverse_xor {w : Nat} (x y : BitVec w) : (x ^^^ y).reverse = x.reverse ^^^ y.reverse := by
  apply BitVec.eq_of_getLsbD_eq
  intro i hi
  simp only [BitVec.getLsbD_reverse, BitVec.getLsbD_xor, BitVec.getMsbD_xor]

theorem reverse_shiftLeft_one {w : Nat} (x : BitVec w) :
    (x.reverse <<< 1).reverse = x >>> 1 := by
  apply BitVec.eq_of_getLsbD_eq
  intro i hi
  simp only [BitVec.getLsbD_reverse, BitVec.getMsbD_eq_getLsbD, BitVec.getLsbD_shiftLeft,
    BitVec.getLsbD_ushiftRight]
  by_cases h : i + 1 < w
  · have e : w - 1 - (w - 1 - i - 1) = 1 + i := by omega
    simp [hi, e, show w - 1 - i < w by omega, show ¬ (w - 1 - i < 1) by omega,
      show w - 1 - i - 1 < w by omega]
  · have e : w - 1 - i = 0 := by omega
    have : w ≤ 1 + i := by omega
    simp [e, BitVec.getLsbD_of_ge _ _ this]

theorem msb_reverse {w : Nat} (x : BitVec w) : x.reverse.msb = x.getLsbD 0 := by
  rw [BitVec.msb, BitVec.getMsbD_reverse]

/-- per-bit simulation lemma, for every width and every polynomial -/
theorem reflShift_reverse {w : Nat} (poly x : BitVec w) :
    reflShift poly.reverse x = (crcShift poly x.reverse).reverse := by
  unfold reflShift crcShift
  rw [msb_reverse]
  split
  · rw [reverse_xor, reverse_shiftLeft_one]
  · rw [reverse_shiftLeft_one]

/-- xoring a byte into the low 8 bits of the reflected register = xoring the reversed byte into
the top 8 bits of the MSB-first register -/
theorem reverse_byte_top {w : Nat} (hw : 8 ≤ w) (b : BitVec 8) :
    ((b.reverse.zeroExtend w) <<< (w - 8)).reverse = b.zeroExtend w := by
  apply BitVec.eq_of_getLsbD_eq
  intro i hi
  simp only [BitVec.getLsbD_reverse, BitVec.getMsbD_eq_getLsbD, BitVec.getLsbD_shiftLeft,
    BitVec.truncate_eq_setWidth, BitVec.getLsbD_setWidth]
  by_cases h : i < 8
  · have e : 8 - 1 - (w - 1 - i - (w - 8)) = i := by omega
    simp [hi, h, e, show w - 1 - i < w by omega, show ¬ (w - 1 - i < w - 8) by omega,
      show w - 1 - i - (w - 8) < 8 by omega, show w - 1 - i - (w - 8) < w by omega]
  · have : w - 1 - i < w - 8 := by omega
    have h8 : 8 ≤ i := by omega
    simp [this, BitVec.getLsbD_of_ge _ _ h8]

/-- per-byte simulation, generic in width and polynomial -/
theorem reflFeed_reverse {w : Nat} (hw : 8 ≤ w) (p : CrcParams w) (hp : p.refin = true)
    (x : BitVec w) (b : UInt8) :
    (let s := reflShift p.poly.reverse
     let c := x ^^^ b.toBitVec.zeroExtend w
     s (s (s (s (s (s (s (s c))))))))
      = (crcFeed p x.reverse b).reverse := by
  simp only [crcFeed, hp, if_true]
  simp only [reflShift_reverse, BitVec.reverse_reverse_eq]
  congr 9
  rw [reverse_xor]
  congr 1
  have := congrArg BitVec.reverse (reverse_byte_top hw b.toBitVec)
  rw [BitVec.reverse_reverse_eq] at this
  exact this.symm

/-! ### CRC-16/MODBUS -/

theorem crc16Bit_toBitVec (c : UInt16) :
    (crc16Bit c).toBitVec = reflShift (0x8005#16).reverse c.toBitVec := by
  have hq : (0x8005#16).reverse = 0xA001#16 := by decide +kernel
  have hc : (c &&& 0x0001 != 0) = c.toBitVec.getLsbD 0 := by
    have h1 : (c &&& 1 = 0) ↔ (c.toBitVec &&& 1#16 = 0#16) := by
      rw [← UInt16.toBitVec_inj]; rfl
    have h2 : (c &&& 0x0001 != 0) = !decide (c.toBitVec &&& 1#16 = 0#16) := by
      rw [bne, Bool.beq_eq_decide_eq, decide_eq_decide.mpr h1]
    rw [h2, BitVec.and_one_eq_setWidth_ofBool_getLsbD]
    cases c.toBitVec.getLsbD 0 <;> decide
  unfold crc16Bit reflShift
  rw [hc, hq]
  split <;> rfl

theorem crc16Byte_reverse (x : UInt16) (b : UInt8) :
    (crc16Byte x b).toBitVec = (crcFeed crc16Modbus x.toBitVec.reverse b).reverse := by
  rw [← reflFeed_reverse (by decide) crc16Modbus rfl]
  simp only [crc16Byte, crc16Bit_toBitVec]
  rfl

theorem crc16_fold (bs : Bytes) (x : UInt16) :
    (bs.foldl crc16Byte x).toBitVec
      = (bs.foldl (crcFeed crc16Modbus) x.toBitVec.reverse).reverse := by
  induction bs generalizing x with
  | nil => simp
  | cons b bs ih =>
    simp only [List.foldl_cons]
    rw [ih, crc16Byte_reverse, BitVec.reverse_reverse_eq]

theorem crc16Go_eq_modbus (bs : Bytes) :
    (crc16Go bs).toBitVec = crcRef ⟨0x8005#16, 0xFFFF#16, 0x0000#16, true, true⟩ bs := by
  show _ = crcRef crc16Modbus bs
  unfold crc16Go crcRef
  rw [crc16_fold]
  have : (0xFFFF : UInt16).toBitVec.reverse = crc16Modbus.init := by decide +kernel
  rw [this]
  simp [crc16Modbus]

/-! ### CRC-32/ISO-HDLC (IEEE 802.3) -/

theorem crc32Bit_toBitVec (c : UInt32) :
    (crc32Bit c).toBitVec = reflShift (0x04C11DB7#32).reverse c.toBitVec := by
  have hq : (0x04C11DB7#32).reverse = 0xEDB88320#32 := by decide +kernel
  have hc : (c &&& 1 != 0) = c.toBitVec.getLsbD 0 := by
    have h1 : (c &&& 1 = 0) ↔ (c.toBitVec &&& 1#32 = 0#32) := by
      rw [← UInt32.toBitVec_inj]; rfl
    have h2 : (c &&& 1 != 0) = !decide (c.toBitVec &&& 1#32 = 0#32) := by
      rw [bne, Bool.beq_eq_decide_eq, decide_eq_decide.mpr h1]
    rw [h2, BitVec.and_one_eq_setWidth_ofBool_getLsbD]
    cases c.toBitVec.getLsbD 0 <;> decide
  unfold crc32Bit reflShift
  rw [hc, hq]
  split <;> rfl

theorem crc32Byte_reverse (x : UInt32) (b : UInt8) :
    (crc32Byte x b).toBitVec = (crcFeed crc32Ieee x.toBitVec.reverse b).reverse := by
  rw [← reflFeed_reverse (by decide) crc32Ieee rfl]
  simp only [crc32Byte, crc32Bit_toBitVec]
  rfl

theorem crc32_fold (bs : Bytes) (x : UInt32) :
    (bs.foldl crc32Byte x).toBitVec
      = (bs.foldl (crcFeed crc32Ieee) x.toBitVec.reverse).reverse := by
  induction bs generalizing x with
  | nil => simp
  | cons b bs ih =>
    simp only [List.foldl_cons]
    rw [ih, crc32Byte_reverse, BitVec.reverse_reverse_eq]

theorem crc32Go_eq_ieee (bs : Bytes) :
    (crc32Go bs).toBitVec
      = crcRef ⟨0x04C11DB7#32, 0xFFFFFFFF#32, 0xFFFFFFFF#32, true, true⟩ bs := by
  show _ = crcRef crc32Ieee bs
  unfold crc32Go crcRef
  rw [UInt32.toBitVec_xor, crc32_fold]
  have : (0xFFFFFFFF : UInt32).toBitVec.reverse = crc32Ieee.init := by decide +kernel
  rw [this]
  simp [crc32Ieee]

/-! ## 4. Test vectors: the catalogue "check" value of the ASCII string "123456789" -/

def check9 : Bytes := [0x31, 0x32, 0x33, 0x34, 0x35, 0x36, 0x37, 0x38, 0x39]

/-- CRC-16/MODBUS check = 0x4B37, Go-shaped function -/
example : crc16Go check9 = 0x4B37 := by decide +kernel
/-- CRC-16/MODBUS check = 0x4B37, reference -/
example : crcRef crc16Modbus check9 = 0x4B37#16 := by decide +kernel
/-- CRC-32/ISO-HDLC check = 0xCBF43926, Go-shaped function -/
example : crc32Go check9 = 0xCBF43926 := by decide +kernel
/-- CRC-32/ISO-HDLC check = 0xCBF43926, reference -/
example : crcRef crc32Ieee check9 = 0xCBF43926#32 := by decide +kernel
/-- SSE / SZSE on the same string: 0x31+…+0x39 = 477 = 0x1DD, low byte 0xDD -/
example : sseGo check9 = 0xDD ∧ szseGo check9 = 0xDD := by decide +kernel

/-- the reference itself against further catalogue entries, exercising `refin = refout = false`
and other polynomials (CRC-16/XMODEM, CRC-16/IBM-3740 "CCITT-FALSE", CRC-16/ARC, CRC-32/BZIP2) -/
example : crcRef ⟨0x1021#16, 0x0000#16, 0x0000#16, false, false⟩ check9 = 0x31C3#16 := by
  decide +kernel
example : crcRef ⟨0x1021#16, 0xFFFF#16, 0x0000#16, false, false⟩ check9 = 0x29B1#16 := by
  decide +kernel
example : crcRef ⟨0x8005#16, 0x0000#16, 0x0000#16, true, true⟩ check9 = 0xBB3D#16 := by
  decide +kernel
example : crcRef ⟨0x04C11DB7#32, 0xFFFFFFFF#32, 0xFFFFFFFF#32, false, false⟩ check9
    = 0xFC891918#32 := by decide +kernel

/-- non-vacuity of the two CRC theorems on a concrete input (both sides are the check value) -/
example : (crc16Go check9).toBitVec = 0x4B37#16 ∧
    crcRef ⟨0x8005#16, 0xFFFF#16, 0x0000#16, true, true⟩ check9 = 0x4B37#16 := by decide +kernel
example : (crc32Go check9).toBitVec = 0xCBF43926#32 ∧
    crcRef ⟨0x04C11DB7#32, 0xFFFFFFFF#32, 0xFFFFFFFF#32, true, true⟩ check9 = 0xCBF43926#32 := by
  decide +kernel

end FinProto
