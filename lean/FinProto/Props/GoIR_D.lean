/-
  GoIR proofs, group D: the list readers.
-/
import FinProto.GoIRSpec
import FinProto.Props.GoIR_A
import FinProto.Props.GoIR_B
namespace FinProto.GoIR
open FinProto

/-- a statement's result follows a reader outcome -/
private def NSpec {α : Type} (r : Res O) (Q : α → Bytes → St O → Prop) : Outcome (α × Bytes) → Prop
  | .ok p => ∃ s', r = .norm s' ∧ Q p.1 p.2 s'
  | .err => ∃ v s', r = .ret [v, .err true] s'
  | .panic => r = .panic

private theorem pow256_le {cw : Nat} (h : cw ≤ 8) : 256 ^ cw ≤ 2 ^ 64 := by
  have : (256 : Nat) ^ cw ≤ 256 ^ 8 := Nat.pow_le_pow_right (by decide) h
  have h2 : (256 : Nat) ^ 8 = 2 ^ 64 := by decide
  omega

private theorem wrap_u_of_lt (w n : Nat) (h : n < 256 ^ w) : (Ty.u w).wrap (n : Int) = (n : Int) := by
  simp only [Ty.wrap]
  apply Int.emod_eq_of_lt <;> omega

private theorem wrap_s8_of_lt (n : Nat) (h : n < 2 ^ 63) : (Ty.s 8).wrap (n : Int) = (n : Int) := by
  simp only [Ty.wrap]
  have h2 : ((256 ^ 8 : Nat) : Int) = 18446744073709551616 := by decide
  rw [h2]
  have : (n : Int) % 18446744073709551616 = n := by apply Int.emod_eq_of_lt <;> omega
  rw [this]
  split <;> omega

private theorem wrap_s8_neg (n : Nat) (h : 2 ^ 63 ≤ n) (h' : n < 2 ^ 64) : (Ty.s 8).wrap (n : Int) < 0 := by
  simp only [Ty.wrap]
  have h2 : ((256 ^ 8 : Nat) : Int) = 18446744073709551616 := by decide
  rw [h2]
  have : (n : Int) % 18446744073709551616 = n := by apply Int.emod_eq_of_lt <;> omega
  rw [this]
  split <;> omega

private theorem readList_eq {α : Type} (cw : Nat) (e : Endian) (elem : R α) (buf : Bytes) :
    readList cw e elem buf =
      if cw ≤ buf.length then
        (if ofE e (buf.take cw) < 2 ^ 63 then decRep elem (ofE e (buf.take cw)) (buf.drop cw) else .panic)
      else .err := by
  simp only [readList, bindR, readScalar, mapR, takeN_def, lenGuard]
  by_cases h : cw ≤ buf.length
  · simp only [h, if_true, Outcome.bind_ok, pureR_apply]
    split <;> rfl
  · simp only [h, if_false, Outcome.bind_err]

private theorem loop_lemma {α : Type} (ext : Ext O) (callee : Nat → List Ty → List (V O) → Bytes → CallRes O)
    (lf : Nat) (targs : List Ty) (xi xc xr : Nat) (body : Stmt) (elem : R α) (wrap : List α → V O)
    (P : St O → Prop) (hic : xc ≠ xi) (hir : xr ≠ xi)
    (hP : ∀ s v, P s → P (s.set xi v))
    (hbody : ∀ (s : St O) (acc : List α), P s → s.loc xr = wrap acc →
      NSpec (exec ext callee lf targs body s)
        (fun a rest s' => s'.buf = rest ∧ s'.loc xr = wrap (acc ++ [a]) ∧ s'.loc xi = s.loc xi ∧
          s'.loc xc = s.loc xc ∧ P s') (elem s.buf))
    (c : Nat) :
    ∀ (m i lf' : Nat) (s : St O) (acc : List α), i + m = c → m < lf' →
      s.loc xi = .int (i : Int) → s.loc xc = .int (c : Int) → s.loc xr = wrap acc → P s →
      NSpec (whileLoop (fun s => evalE targs s (.cmp .lt (.var xi) (.var xc))) (exec ext callee lf targs body)
          (exec ext callee lf targs (.set xi (.arith .add (.ty .big) (.var xi) (.int 1)))) lf' s)
        (fun vs rest s' => s'.buf = rest ∧ s'.loc xr = wrap (acc ++ vs) ∧ P s') (decRep elem m s.buf) := by
  intro m
  induction m with
  | zero =>
    intro i lf' s acc him hlf hi hc hr hp
    obtain ⟨l, rfl⟩ : ∃ l, lf' = l + 1 := ⟨lf' - 1, by omega⟩
    have hic' : i = c := by omega
    subst hic'
    simp only [whileLoop, evalE, hi, hc, cop, Int.lt_irrefl, decide_false, decRep, pureR_apply, NSpec]
    exact ⟨s, rfl, rfl, by simp [hr], hp⟩
  | succ m ih =>
    intro i lf' s acc him hlf hi hc hr hp
    obtain ⟨l, rfl⟩ : ∃ l, lf' = l + 1 := ⟨lf' - 1, by omega⟩
    have hlt : (i : Int) < (c : Int) := by omega
    have hb := hbody s acc hp hr
    simp only [whileLoop, evalE, hi, hc, cop, hlt, decide_true, decRep, bindR]
    cases he : elem s.buf with
    | ok p =>
      obtain ⟨a, rest⟩ := p
      rw [he] at hb
      obtain ⟨s1, hs1, hbuf, hr1, hi1, hc1, hp1⟩ := hb
      rw [hs1]
      simp only [exec, evalE, resolve, hi1, hi, aop, Option.map, Ty.wrap, Outcome.bind_ok]
      have := ih (i + 1) l (s1.set xi (.int ((i : Int) + 1))) (acc ++ [a]) (by omega) (by omega)
        (by simp) (by simp [hic, hc1, hc]) (by simp [hir, hr1]) (hP _ _ hp1)
      simp only [St.set_buf, hbuf] at this
      simp only [mapR, bindR]
      cases hd : decRep elem m rest with
      | ok q =>
        obtain ⟨vs, rest'⟩ := q
        rw [hd] at this
        obtain ⟨s2, hs2, hb2, hr2, hp2⟩ := this
        exact ⟨s2, hs2, hb2, by simpa using hr2, hp2⟩
      | err => rw [hd] at this; exact this
      | panic => rw [hd] at this; exact this
    | err =>
      rw [he] at hb
      obtain ⟨v, s1, hs1⟩ := hb
      rw [hs1]
      exact ⟨v, s1, rfl⟩
    | panic =>
      rw [he] at hb
      simp only [NSpec] at hb
      rw [hb]
      rfl

private theorem body_call {α : Type} (ext : Ext O) (callee : Nat → List Ty → List (V O) → Bytes → CallRes O)
    (lf : Nat) (targs : List Ty) (f xa xe xr xi xc : Nat) (tas : List TyRef) (args : List Expr)
    (tas' : List Ty) (inj : α → V O) (wrap : List α → V O) (elem : R α) (P : St O → Prop)
    (hae : xa ≠ xe) (hra : xr ≠ xa) (hre : xr ≠ xe) (hia : xi ≠ xa) (hie : xi ≠ xe) (hir : xi ≠ xr)
    (hca : xc ≠ xa) (hce : xc ≠ xe) (hcr : xc ≠ xr)
    (htas : resolveAll targs tas = some tas')
    (happ : ∀ acc a, appendV (wrap acc) (inj a) = some (wrap (acc ++ [a])))
    (hP : ∀ (s : St O) b va ve vr, P s → P (((({ s with buf := b } : St O).set xa va).set xe ve).set xr vr))
    (s : St O) (acc : List α) (vs : List (V O)) (hargs : evalArgs targs s args = some vs)
    (hcal : RSpec (callee f tas' vs s.buf) inj (elem s.buf))
    (hp : P s) (hr : s.loc xr = wrap acc) :
    NSpec (exec ext callee lf targs
        (.seq (.call f tas args [some xa, some xe])
          (.seq (.ite (.cmp .ne (.var xe) .nilErr) (.ret [.nil, .var xe]) .skip) (.append xr (.var xa)))) s)
      (fun a rest s' => s'.buf = rest ∧ s'.loc xr = wrap (acc ++ [a]) ∧ s'.loc xi = s.loc xi ∧
          s'.loc xc = s.loc xc ∧ P s') (elem s.buf) := by
  cases he : elem s.buf with
  | ok p =>
    obtain ⟨a, rest⟩ := p
    rw [he] at hcal
    simp only [RSpec] at hcal
    simp only [exec, htas, hargs, hcal, assignAll, St.setOpt_some, evalE, St.set_loc, if_true, hae, if_false, hra,
      hre, hr, happ, NSpec]
    refine ⟨_, rfl, ?_⟩
    simp [hia, hie, hir, hca, hce, hcr]
    exact hP _ _ _ _ _ hp
  | err =>
    rw [he] at hcal
    obtain ⟨v, b', hcal⟩ := hcal
    simp only [exec, htas, hargs, hcal, assignAll, St.setOpt_some, evalE, St.set_loc, if_true, evalArgs,
      Option.bind, Option.map, NSpec]
    exact ⟨_, _, rfl⟩
  | panic =>
    rw [he] at hcal
    simp only [RSpec] at hcal
    simp only [exec, htas, hargs, hcal, NSpec]

/-- the outcome of a whole reader body follows a reader outcome -/
private def TSpec {α : Type} (r : Res O) (inj : α → V O) : Outcome (α × Bytes) → Prop
  | .ok p => ∃ s', r = .ret [inj p.1, .err false] s' ∧ s'.buf = p.2
  | .err => ∃ v s', r = .ret [v, .err true] s'
  | .panic => r = .panic

private theorem rspec_of_tspec {α : Type} (r : Res O) (inj : α → V O) (o : Outcome (α × Bytes)) (h : TSpec r inj o) :
    RSpec (match r with
      | .ret vs s => CallRes.ret vs s.buf
      | .norm _ => .panic
      | .panic => .panic
      | .timeout => .timeout) inj o := by
  cases o with
  | ok p => obtain ⟨s', h1, h2⟩ := h; subst h1; simp only [RSpec, h2]
  | err => obtain ⟨v, s', h1⟩ := h; subst h1; exact ⟨_, _, rfl⟩
  | panic => simp only [TSpec] at h; subst h; rfl

section
variable (ext : Ext O) (callee : Nat → List Ty → List (V O) → Bytes → CallRes O) (lf : Nat) (targs : List Ty)

private theorem exec_seq (a b : Stmt) (s : St O) :
    exec ext callee lf targs (.seq a b) s =
      match exec ext callee lf targs a s with
      | .norm s1 => exec ext callee lf targs b s1
      | r => r := rfl

private theorem exec_set_int (x : Nat) (n : Int) (s : St O) :
    exec ext callee lf targs (.set x (.int n)) s = .norm (s.set x (.int n)) := rfl

private theorem exec_set_nilErr (x : Nat) (s : St O) :
    exec ext callee lf targs (.set x .nilErr) s = .norm (s.set x (.err false)) := rfl

private theorem exec_while (c : Expr) (post body : Stmt) (s : St O) :
    exec ext callee lf targs (.while c post body) s =
      whileLoop (fun s => evalE targs s c) (exec ext callee lf targs body) (exec ext callee lf targs post) lf s := rfl

private theorem exec_ret (es : List Expr) (s : St O) :
    exec ext callee lf targs (.ret es) s =
      match evalArgs targs s es with
      | some vs => .ret vs s
      | none => .panic := rfl
end

private def emptyV (O : Type) : ListKind → V O
  | .ints => .ints []
  | .strs => .strs []
  | .objs => .objs []

/-- count prefix, `int(t)`, `make` -/
private def hdr (e : Endian) (x0 x1 x2 x3 : Nat) (kind : ListKind) (rest : Stmt) : Stmt :=
  .seq (.set x0 (.int 0))
  (.seq (.seq (.binRead (.order e) (.param 0) x0 (some x1))
    (.ite (.cmp .ne (.var x1) .nilErr) (.ret [.nil, (.var x1)]) .skip))
  (.seq (.set x2 (.conv (.ty (.s 8)) (.var x0)))
  (.seq (.makeList x3 kind (.min (.var x2) .bufLen)) rest)))

/-- the counting loop and the final return -/
private def tlS (xi xc xr : Nat) (body : Stmt) (E : Expr) : Stmt :=
  .seq (.seq (.set xi (.int 0))
    (.while (.cmp .lt (.var xi) (.var xc)) (.set xi (.arith .add (.ty .big) (.var xi) (.int 1))) body))
  (.ret [(.var xr), E])

private theorem hdr_lemma (ext : Ext O) (callee : Nat → List Ty → List (V O) → Bytes → CallRes O) (lf : Nat)
    (cw : Nat) (tl : List Ty) (hcw : cw ≤ 8) (e : Endian) (x0 x1 x2 x3 : Nat) (kind : ListKind) (rest : Stmt)
    (h01 : x0 ≠ x1) (s : St O) :
    exec ext callee lf (.u cw :: tl) (hdr e x0 x1 x2 x3 kind rest) s =
      if cw ≤ s.buf.length then
        if ofE e (s.buf.take cw) < 2 ^ 63 then
          exec ext callee lf (.u cw :: tl) rest
            ((((({ buf := s.buf.drop cw, loc := (s.set x0 (.int 0)).loc } : St O).set x0
              (.int (ofE e (s.buf.take cw)))).set x1 (.err false)).set x2 (.int (ofE e (s.buf.take cw)))).set x3
              (emptyV O kind))
        else .panic
      else .ret [.unit, .err true] (({ buf := [], loc := (s.set x0 (.int 0)).loc } : St O).set x1 (.err true)) := by
  simp only [hdr, exec_seq, exec_set_int]
  by_cases h1 : cw ≤ s.buf.length
  · have hlt' : ofE e (s.buf.take cw) < 256 ^ cw := by
      have := ofE_lt e (s.buf.take cw)
      rwa [List.length_take, Nat.min_eq_left h1] at this
    have hlt : ofE e (s.buf.take cw) < 2 ^ 64 := by
      have := pow256_le hcw
      omega
    have hu := wrap_u_of_lt cw _ hlt'
    by_cases h2 : ofE e (s.buf.take cw) < 2 ^ 63
    · have hs := wrap_s8_of_lt _ h2
      have hmin : (0 : Int) ≤ if ((ofE e (s.buf.take cw) : Nat) : Int) ≤ (((s.buf.drop cw).length : Nat) : Int) then
          ((ofE e (s.buf.take cw) : Nat) : Int) else (((s.buf.drop cw).length : Nat) : Int) := by
        split <;> omega
      simp only [exec, evalE, resolve, List.getElem?_cons_zero, Ty.width, h1, if_true, St.setOpt_some, St.set_loc,
        St.set_buf, hu, hs, h01, if_false, h2, hmin]
      cases kind <;> rfl
    · obtain ⟨z, hz, hneg⟩ : ∃ z, (Ty.s 8).wrap ((ofE e (s.buf.take cw) : Nat) : Int) = z ∧ z < 0 :=
        ⟨_, rfl, wrap_s8_neg _ (by omega) hlt⟩
      have hmin : ¬ ((0 : Int) ≤ if z ≤ (((s.buf.drop cw).length : Nat) : Int) then z
          else (((s.buf.drop cw).length : Nat) : Int)) := by
        split <;> omega
      simp only [exec, evalE, resolve, List.getElem?_cons_zero, Ty.width, h1, if_true, St.setOpt_some, St.set_loc,
        St.set_buf, hu, hz, h01, if_false, h2, hmin]
  · simp only [exec, evalE, resolve, List.getElem?_cons_zero, Ty.width, St.set_buf, h1, if_false, St.setOpt_some,
      St.set_loc, if_true, evalArgs, Option.bind, Option.map]

private theorem tail_lemma {α : Type} (ext : Ext O) (callee : Nat → List Ty → List (V O) → Bytes → CallRes O)
    (lf : Nat) (targs : List Ty) (xi xc xr : Nat) (body : Stmt) (E : Expr) (elem : R α) (wrap : List α → V O)
    (P : St O → Prop) (hic : xc ≠ xi) (hir : xr ≠ xi)
    (hP : ∀ s v, P s → P (s.set xi v))
    (hbody : ∀ (s : St O) (acc : List α), P s → s.loc xr = wrap acc →
      NSpec (exec ext callee lf targs body s)
        (fun a rest s' => s'.buf = rest ∧ s'.loc xr = wrap (acc ++ [a]) ∧ s'.loc xi = s.loc xi ∧
          s'.loc xc = s.loc xc ∧ P s') (elem s.buf))
    (hE : ∀ s, P s → evalE targs s E = some (.err false))
    (count : Nat) (hlf : count < lf) (s : St O) (hc : s.loc xc = .int (count : Int)) (hr : s.loc xr = wrap [])
    (hp : P s) :
    TSpec (exec ext callee lf targs (tlS xi xc xr body E) s) wrap (decRep elem count s.buf) := by
  have hl := loop_lemma ext callee lf targs xi xc xr body elem wrap P hic hir hP hbody count count 0 lf
    (s.set xi (.int 0)) [] (by omega) hlf (by simp) (by simp [hic, hc]) (by simp [hir, hr]) (hP _ _ hp)
  simp only [tlS, exec_seq, exec_set_int, exec_while]
  simp only [St.set_buf] at hl
  cases hd : decRep elem count s.buf with
  | ok p =>
    rw [hd] at hl
    obtain ⟨s', h1, h2, h3, h4⟩ := hl
    rw [h1]
    simp only [exec_ret, evalArgs, evalE, hE s' h4, h3, Option.bind, Option.map, List.nil_append]
    exact ⟨s', rfl, h2⟩
  | err =>
    rw [hd] at hl
    obtain ⟨v, s', h1⟩ := hl
    rw [h1]
    exact ⟨v, s', rfl⟩
  | panic =>
    rw [hd] at hl
    simp only [NSpec] at hl
    rw [hl]
    rfl

/-- element read by a call, error check, append -/
private def callBody (f : Nat) (tas : List TyRef) (args : List Expr) (xa xe xr : Nat) : Stmt :=
  .seq (.call f tas args [some xa, some xe])
    (.seq (.ite (.cmp .ne (.var xe) .nilErr) (.ret [.nil, .var xe]) .skip) (.append xr (.var xa)))

private theorem readNums_core (ext : Ext O) (e : Endian) (cw w : Nat) (hcw : cw ≤ 8) (buf : Bytes) (lf k : Nat)
    (hlf : 2 ^ 64 ≤ lf) (hk : 1 ≤ k) (f g : Nat) (fn : Func) (hf : prog[f]? = some fn)
    (hbody : fn.body = hdr e 0 1 2 3 .ints (.seq (.set 4 .nilErr)
      (tlS 5 2 3 (callBody g [.param 1] [] 6 7 3) (.var 4))))
    (hg : g = ixRScalar e) :
    RSpec (runFn ext prog lf (k + 1) f [.u cw, .u w] [] buf) natsV (readNums cw w e buf) := by
  rw [readNums, readList_eq]
  simp only [runFn, hf, hbody]
  rw [hdr_lemma ext _ lf cw _ hcw e 0 1 2 3 .ints _ (by decide)]
  simp only []
  by_cases h1 : cw ≤ buf.length
  · simp only [h1, if_true]
    by_cases h2 : ofE e (List.take cw buf) < 2 ^ 63
    · simp only [h2, if_true, exec_seq, exec_set_nilErr]
      apply rspec_of_tspec
      refine tail_lemma (α := Nat) ext _ lf _ 5 2 3 _ _ (readScalar w e) natsV (fun s => s.loc 4 = .err false)
        (by decide) (by decide) ?_ ?_ ?_ _ (by omega) _ ?_ ?_ ?_
      · intro s v h; simpa using h
      · intro s acc hp hr
        refine body_call ext _ lf _ g 6 7 3 5 2 _ _ [.u w] natV natsV (readScalar w e) _
          (by decide) (by decide) (by decide) (by decide) (by decide) (by decide) (by decide) (by decide) (by decide)
          rfl ?_ ?_ s acc [] rfl ?_ hp hr
        · intro acc a; simp [natsV, natV, appendV]
        · intro s b va ve vr h; simpa using h
        · subst hg; exact ir_readScalar ext e w s.buf lf k hk
      · intro s h; simp only [evalE, h]
      · simp
      · simp [natsV, emptyV]
      · simp
    · simp only [h2, if_false]; rfl
  · simp only [h1, if_false]
    exact ⟨_, _, rfl⟩

theorem ir_readNums (ext : Ext O) (e : Endian) (cw w : Nat) (hcw : cw ≤ 8) (buf : Bytes) (lf k : Nat)
    (hlf : 2 ^ 64 ≤ lf) (hk : 2 ≤ k) :
    RSpec (runFn ext prog lf k (ixRNums e) [.u cw, .u w] [] buf) natsV (readNums cw w e buf) := by
  obtain ⟨k, rfl⟩ : ∃ k', k = k' + 1 := ⟨k - 1, by omega⟩
  cases e
  · exact readNums_core ext .be cw w hcw buf lf k hlf (by omega) _ 2 PinnedIR.fn7 rfl rfl rfl
  · exact readNums_core ext .le cw w hcw buf lf k hlf (by omega) _ 3 PinnedIR.fn8 rfl rfl rfl


private theorem readFixeds_core (ext : Ext O) (e : Endian) (cw n p : Nat) (left : Bool) (hcw : cw ≤ 8) (hn : n < 2 ^ 63)
    (buf : Bytes) (lf k : Nat)
    (hlf : 2 ^ 64 ≤ lf) (hk : 1 ≤ k) (f : Nat) (fn : Func) (hf : prog[f]? = some fn)
    (hbody : fn.body = hdr e 3 4 5 6 .strs (.seq (.set 7 .nilErr)
      (tlS 8 5 6 (callBody 17 [] [.var 0, .var 1, .var 2] 9 10 6) (.var 7)))) :
    RSpec (runFn ext prog lf (k + 1) f [.u cw] [natV n, natV p, .bool left] buf) V.strs
      (readFixeds cw n (UInt8.ofNat p) left e buf) := by
  rw [readFixeds, readList_eq]
  simp only [runFn, hf, hbody]
  rw [hdr_lemma ext _ lf cw _ hcw e 3 4 5 6 .strs _ (by decide)]
  simp only []
  by_cases h1 : cw ≤ buf.length
  · simp only [h1, if_true]
    by_cases h2 : ofE e (List.take cw buf) < 2 ^ 63
    · simp only [h2, if_true, exec_seq, exec_set_nilErr]
      apply rspec_of_tspec
      refine tail_lemma (α := Bytes) ext _ lf _ 8 5 6 _ _ (readFixed n (UInt8.ofNat p) left) V.strs
        (fun s => s.loc 7 = .err false ∧ s.loc 0 = natV n ∧ s.loc 1 = natV p ∧ s.loc 2 = .bool left)
        (by decide) (by decide) ?_ ?_ ?_ _ (by omega) _ ?_ ?_ ?_
      · intro s v h; simpa using h
      · intro s acc hp hr
        refine body_call ext _ lf _ 17 9 10 6 8 5 _ _ [] V.bytes V.strs (readFixed n (UInt8.ofNat p) left) _
          (by decide) (by decide) (by decide) (by decide) (by decide) (by decide) (by decide) (by decide) (by decide)
          rfl ?_ ?_ s acc [natV n, natV p, .bool left] ?_ ?_ hp hr
        · intro acc a; simp [appendV]
        · intro s b va ve vr h; simpa using h
        · simp only [evalArgs, evalE, hp.2.1, hp.2.2.1, hp.2.2.2, Option.bind, Option.map]
        · exact ir_readFixed ext n p left s.buf lf k (by omega) hk
      · intro s h; simp only [evalE, h.1]
      · simp
      · simp [emptyV]
      · simp [initLoc]
    · simp only [h2, if_false]; rfl
  · simp only [h1, if_false]
    exact ⟨_, _, rfl⟩

theorem ir_readFixeds (ext : Ext O) (e : Endian) (cw n p : Nat) (left : Bool) (hcw : cw ≤ 8) (hn : n < 2 ^ 63)
    (buf : Bytes) (lf k : Nat) (hlf : 2 ^ 64 ≤ lf) (hk : 2 ≤ k) :
    RSpec (runFn ext prog lf k (ixRFixeds e) [.u cw] [natV n, natV p, .bool left] buf) V.strs
      (readFixeds cw n (UInt8.ofNat p) left e buf) := by
  obtain ⟨k, rfl⟩ : ∃ k', k = k' + 1 := ⟨k - 1, by omega⟩
  cases e
  · exact readFixeds_core ext .be cw n p left hcw hn buf lf k hlf (by omega) _ PinnedIR.fn23 rfl rfl
  · exact readFixeds_core ext .le cw n p left hcw hn buf lf k hlf (by omega) _ PinnedIR.fn25 rfl rfl

private theorem readFixedsDef_core (ext : Ext O) (e : Endian) (cw n : Nat) (hcw : cw ≤ 8) (hn : n < 2 ^ 63)
    (buf : Bytes) (lf k : Nat) (hlf : 2 ^ 64 ≤ lf) (hk : 2 ≤ k) (f : Nat) (fn : Func) (hf : prog[f]? = some fn)
    (hbody : fn.body = .seq (.call (ixRFixeds e) [(.param 0)] [(.var 0), (.int 32), (.bool false)] [(some 1), (some 2)])
      (.ret [(.var 1), (.var 2)])) :
    RSpec (runFn ext prog lf (k + 1) f [.u cw] [natV n] buf) V.strs (readFixeds cw n 0x20 false e buf) := by
  have h := ir_readFixeds ext e cw n 32 false hcw hn buf lf k hlf hk
  have h32 : UInt8.ofNat 32 = 0x20 := rfl
  rw [h32] at h
  have hargs : evalArgs (O := O) [Ty.u cw] { buf := buf, loc := initLoc [natV n] }
      [(.var 0), (.int 32), (.bool false)] = some [natV n, natV 32, .bool false] := rfl
  simp only [runFn, hf, hbody, exec_seq]
  cases hr : readFixeds cw n 0x20 false e buf with
  | ok p =>
    rw [hr] at h
    simp only [RSpec] at h
    simp only [exec, resolveAll, resolve, List.getElem?_cons_zero, Option.bind, Option.map, hargs, h, assignAll,
      St.setOpt_some]
    simp [evalArgs, evalE, RSpec]
  | err =>
    rw [hr] at h
    obtain ⟨v, b', h⟩ := h
    simp only [exec, resolveAll, resolve, List.getElem?_cons_zero, Option.bind, Option.map, hargs, h, assignAll,
      St.setOpt_some]
    exact ⟨_, _, rfl⟩
  | panic =>
    rw [hr] at h
    simp only [RSpec] at h
    simp only [exec, resolveAll, resolve, List.getElem?_cons_zero, Option.bind, Option.map, hargs, h, RSpec]

theorem ir_readFixedsDef (ext : Ext O) (e : Endian) (cw n : Nat) (hcw : cw ≤ 8) (hn : n < 2 ^ 63)
    (buf : Bytes) (lf k : Nat) (hlf : 2 ^ 64 ≤ lf) (hk : 3 ≤ k) :
    RSpec (runFn ext prog lf k (ixRFixedsDef e) [.u cw] [natV n] buf) V.strs (readFixeds cw n 0x20 false e buf) := by
  obtain ⟨k, rfl⟩ : ∃ k', k = k' + 1 := ⟨k - 1, by omega⟩
  cases e
  · exact readFixedsDef_core ext .be cw n hcw hn buf lf k hlf (by omega) _ PinnedIR.fn22 rfl rfl
  · exact readFixedsDef_core ext .le cw n hcw hn buf lf k hlf (by omega) _ PinnedIR.fn24 rfl rfl

private theorem readVstr_eq (pw : Nat) (e : Endian) (b : Bytes) :
    readVstr pw e b =
      if pw ≤ b.length then
        (if ofE e (b.take pw) < 2 ^ 63 then
          (if ofE e (b.take pw) ≤ (b.drop pw).length then
            .ok ((b.drop pw).take (ofE e (b.take pw)), (b.drop pw).drop (ofE e (b.take pw)))
          else .err)
        else .panic)
      else .err := by
  simp only [readVstr, bindR, readScalar, mapR, takeN_def, lenGuard]
  by_cases h : pw ≤ b.length
  · simp only [h, if_true, Outcome.bind_ok, pureR_apply]
    split
    · rw [takeN_def]
    · rfl
  · simp only [h, if_false, Outcome.bind_err]

/-- the part of the element reader of `ReadStringList` after `length := int(k)` -/
private def strRest : Stmt :=
 (.seq (.ite (.cmp .gt (.var 7) .bufLen)
 (.ret [.nil, .newErr])
 .skip)
 (.seq (.makeBytes 8 (.var 7))
 (.seq (.bufRead 8 (some 9) (some 10))
 (.seq (.ite (.or (.cmp .ne (.var 10) .nilErr) (.cmp .ne (.var 9) (.var 7)))
 (.ret [.nil, .newErr])
 .skip)
 (.append 3 (.toStr (.var 8)))))))

private def strPre (e : Endian) (rest : Stmt) : Stmt :=
 (.seq (.set 5 (.int 0))
 (.seq (.seq (.binRead (.order e) (.param 1) 5 (some 6))
 (.ite (.cmp .ne (.var 6) .nilErr)
 (.ret [.nil, (.var 6)])
 .skip))
 (.seq (.set 7 (.conv (.ty (.s 8)) (.var 5))) rest)))

private theorem strPre_lemma (ext : Ext O) (callee : Nat → List Ty → List (V O) → Bytes → CallRes O) (lf : Nat)
    (t0 : Ty) (pw : Nat) (e : Endian) (rest : Stmt) (s : St O) :
    exec ext callee lf [t0, .u pw] (strPre e rest) s =
      if pw ≤ s.buf.length then
        exec ext callee lf [t0, .u pw] rest
          (((({ buf := s.buf.drop pw, loc := (s.set 5 (.int 0)).loc } : St O).set 5
              (.int (ofE e (s.buf.take pw)))).set 6 (.err false)).set 7
              (.int ((Ty.s 8).wrap (ofE e (s.buf.take pw)))))
      else .ret [.unit, .err true] (({ buf := [], loc := (s.set 5 (.int 0)).loc } : St O).set 6 (.err true)) := by
  simp only [strPre, exec_seq, exec_set_int]
  by_cases h1 : pw ≤ s.buf.length
  · have hlt' : ofE e (s.buf.take pw) < 256 ^ pw := by
      have := ofE_lt e (s.buf.take pw)
      rwa [List.length_take, Nat.min_eq_left h1] at this
    have hu := wrap_u_of_lt pw _ hlt'
    simp only [exec, evalE, resolve, List.getElem?_cons_succ, List.getElem?_cons_zero, Ty.width, h1, if_true,
      St.setOpt_some, St.set_loc, St.set_buf, hu, Nat.reduceEqDiff, if_false]
  · simp only [exec, evalE, resolve, List.getElem?_cons_succ, List.getElem?_cons_zero, Ty.width, St.set_buf, h1,
      if_false, St.setOpt_some, St.set_loc, if_true, evalArgs, Option.bind, Option.map]

private theorem strRest_neg (ext : Ext O) (callee : Nat → List Ty → List (V O) → Bytes → CallRes O) (lf : Nat)
    (targs : List Ty) (T : St O) (z : Int) (h7 : T.loc 7 = .int z) (hz : z < 0) :
    exec ext callee lf targs strRest T = .panic := by
  have hgt : decide (z > ((T.buf.length : Nat) : Int)) = false := by
    apply decide_eq_false; omega
  have h0 : ¬ ((0 : Int) ≤ z) := by omega
  simp only [strRest, exec, evalE, h7, cop, hgt, h0, if_false]

private theorem strRest_long (ext : Ext O) (callee : Nat → List Ty → List (V O) → Bytes → CallRes O) (lf : Nat)
    (targs : List Ty) (T : St O) (n : Nat) (h7 : T.loc 7 = .int (n : Int)) (hn : ¬ n ≤ T.buf.length) :
    exec ext callee lf targs strRest T = .ret [.unit, .err true] T := by
  have hgt : decide ((n : Int) > ((T.buf.length : Nat) : Int)) = true := by
    apply decide_eq_true; omega
  simp only [strRest, exec, evalE, h7, cop, hgt, evalArgs, Option.bind, Option.map]

private theorem bufRead_lemma (ext : Ext O) (callee : Nat → List Ty → List (V O) → Bytes → CallRes O) (lf : Nat)
    (targs : List Ty) (s : St O) (n : Nat) (h8 : s.loc 8 = .bytes (List.replicate n 0)) (hn : n ≤ s.buf.length) :
    ∃ s', exec ext callee lf targs (.bufRead 8 (some 9) (some 10)) s = .norm s' ∧ s'.buf = s.buf.drop n ∧
      s'.loc 8 = .bytes (s.buf.take n) ∧ s'.loc 9 = .int (n : Int) ∧ s'.loc 10 = .err false ∧
      ∀ j, j ≠ 8 → j ≠ 9 → j ≠ 10 → s'.loc j = s.loc j := by
  by_cases hb : s.buf = []
  · have hn0 : n = 0 := by rw [hb] at hn; simpa using hn
    subst hn0
    simp only [exec, h8, hb, List.isEmpty_nil, if_true, St.setOpt_some, List.replicate, Bool.not_true]
    refine ⟨_, rfl, by simp [hb], by simp [h8], by simp, by simp, ?_⟩
    intro j h1 h2 h3
    simp [h2, h3]
  · have hne : s.buf.isEmpty = false := by
      cases hs : s.buf with
      | nil => exact absurd hs hb
      | cons x xs => rfl
    have hmin : Nat.min n s.buf.length = n := Nat.min_eq_left hn
    simp only [exec, h8, hne, Bool.false_eq_true, if_false, St.setOpt_some, List.length_replicate, hmin]
    refine ⟨_, rfl, by simp, ?_, by simp, by simp, ?_⟩
    · simp [fillFrom, hmin]
    · intro j h1 h2 h3
      simp [h1, h2, h3]

private theorem strRest_ok (ext : Ext O) (callee : Nat → List Ty → List (V O) → Bytes → CallRes O) (lf : Nat)
    (targs : List Ty) (T : St O) (n : Nat) (acc : List Bytes) (h7 : T.loc 7 = .int (n : Int))
    (hr : T.loc 3 = V.strs acc) (hn : n ≤ T.buf.length) :
    ∃ s', exec ext callee lf targs strRest T = .norm s' ∧ s'.buf = T.buf.drop n ∧
      s'.loc 3 = V.strs (acc ++ [T.buf.take n]) ∧ s'.loc 4 = T.loc 4 ∧ s'.loc 2 = T.loc 2 := by
  have hgt : decide ((n : Int) > ((T.buf.length : Nat) : Int)) = false := by
    apply decide_eq_false; omega
  have h0 : (0 : Int) ≤ (n : Int) := by omega
  have hA : exec ext callee lf targs (.ite (.cmp .gt (.var 7) .bufLen) (.ret [.nil, .newErr]) .skip) T = .norm T := by
    simp only [exec, evalE, h7, cop, hgt]
  have hB : exec ext callee lf targs (.makeBytes 8 (.var 7)) T = .norm (T.set 8 (.bytes (List.replicate n 0))) := by
    simp only [exec, evalE, h7, h0, if_true, Int.toNat_natCast]
  obtain ⟨s', hC, hbuf, h8', h9', h10', hfr⟩ := bufRead_lemma ext callee lf targs
    (T.set 8 (.bytes (List.replicate n 0))) n (by simp) (by simpa using hn)
  have h7' : s'.loc 7 = .int (n : Int) := by rw [hfr 7 (by decide) (by decide) (by decide)]; simpa using h7
  have h3' : s'.loc 3 = V.strs acc := by rw [hfr 3 (by decide) (by decide) (by decide)]; simpa using hr
  have hD : exec ext callee lf targs (.seq (.ite (.or (.cmp .ne (.var 10) .nilErr) (.cmp .ne (.var 9) (.var 7)))
      (.ret [.nil, .newErr]) .skip) (.append 3 (.toStr (.var 8)))) s'
      = .norm (s'.set 3 (V.strs (acc ++ [T.buf.take n]))) := by
    simp only [exec, evalE, h10', h9', h7', cop, ne_eq, not_true_eq_false, decide_false, h8', h3', appendV,
      St.set_buf]
  simp only [strRest, exec_seq, hA, hB, hC, hD]
  refine ⟨_, rfl, by simpa using hbuf, by simp, ?_, ?_⟩
  · rw [St.set_loc, if_neg (by decide), hfr 4 (by decide) (by decide) (by decide)]; simp
  · rw [St.set_loc, if_neg (by decide), hfr 2 (by decide) (by decide) (by decide)]; simp

private theorem strBody_lemma (ext : Ext O) (callee : Nat → List Ty → List (V O) → Bytes → CallRes O) (lf : Nat)
    (t0 : Ty) (pw : Nat) (hpw : pw ≤ 8) (e : Endian) (s : St O) (acc : List Bytes)
    (hr : s.loc 3 = V.strs acc) :
    NSpec (exec ext callee lf [t0, .u pw] (strPre e strRest) s)
      (fun a rest s' => s'.buf = rest ∧ s'.loc 3 = V.strs (acc ++ [a]) ∧ s'.loc 4 = s.loc 4 ∧
          s'.loc 2 = s.loc 2 ∧ True) (readVstr pw e s.buf) := by
  rw [readVstr_eq, strPre_lemma]
  by_cases h1 : pw ≤ s.buf.length
  · have hlt' : ofE e (s.buf.take pw) < 256 ^ pw := by
      have := ofE_lt e (s.buf.take pw)
      rwa [List.length_take, Nat.min_eq_left h1] at this
    have hlt : ofE e (s.buf.take pw) < 2 ^ 64 := by
      have := pow256_le hpw
      omega
    simp only [h1, if_true]
    by_cases h2 : ofE e (s.buf.take pw) < 2 ^ 63
    · rw [wrap_s8_of_lt _ h2]
      simp only [h2, if_true]
      by_cases h3 : ofE e (s.buf.take pw) ≤ (s.buf.drop pw).length
      · simp only [h3, if_true]
        obtain ⟨s', h, hb, hr', h4, h2'⟩ := strRest_ok ext callee lf [t0, .u pw]
          (((({ buf := s.buf.drop pw, loc := (s.set 5 (.int 0)).loc } : St O).set 5
              (.int (ofE e (s.buf.take pw)))).set 6 (.err false)).set 7
              (.int ((ofE e (s.buf.take pw) : Nat) : Int))) (ofE e (s.buf.take pw)) acc (by simp)
              (by simpa using hr) (by simpa using h3)
        refine ⟨s', h, by simpa using hb, by simpa using hr', by simpa using h4, by simpa using h2', trivial⟩
      · simp only [h3, if_false]
        rw [strRest_long ext callee lf _ _ (ofE e (s.buf.take pw)) (by simp) (by simpa using h3)]
        exact ⟨_, _, rfl⟩
    · simp only [h2, if_false]
      rw [strRest_neg ext callee lf _ _ _ (by simp) (wrap_s8_neg _ (by omega) hlt)]
      rfl
  · simp only [h1, if_false]
    exact ⟨_, _, rfl⟩

private theorem readVstrs_core (ext : Ext O) (e : Endian) (cw pw : Nat) (hcw : cw ≤ 8) (hpw : pw ≤ 8) (buf : Bytes)
    (lf k : Nat) (hlf : 2 ^ 64 ≤ lf)
    (f : Nat) (fn : Func) (hf : prog[f]? = some fn)
    (hbody : fn.body = hdr e 0 1 2 3 .strs (tlS 4 2 3 (strPre e strRest) .nilErr)) :
    RSpec (runFn ext prog lf (k + 1) f [.u cw, .u pw] [] buf) V.strs (readVstrs cw pw e buf) := by
  rw [readVstrs, readList_eq]
  simp only [runFn, hf, hbody]
  rw [hdr_lemma ext _ lf cw _ hcw e 0 1 2 3 .strs _ (by decide)]
  simp only []
  by_cases h1 : cw ≤ buf.length
  · simp only [h1, if_true]
    by_cases h2 : ofE e (List.take cw buf) < 2 ^ 63
    · simp only [h2, if_true]
      apply rspec_of_tspec
      refine tail_lemma (α := Bytes) ext _ lf _ 4 2 3 _ _ (readVstr pw e) V.strs (fun _ => True)
        (by decide) (by decide) ?_ ?_ ?_ _ (by omega) _ ?_ ?_ trivial
      · intro s v h; trivial
      · intro s acc _ hr
        exact strBody_lemma ext _ lf _ pw hpw e s acc hr
      · intro s h; rfl
      · simp
      · simp [emptyV]
    · simp only [h2, if_false]; rfl
  · simp only [h1, if_false]
    exact ⟨_, _, rfl⟩

theorem ir_readVstrs (ext : Ext O) (e : Endian) (cw pw : Nat) (hcw : cw ≤ 8) (hpw : pw ≤ 8) (buf : Bytes) (lf k : Nat)
    (hlf : 2 ^ 64 ≤ lf) (hk : 1 ≤ k) :
    RSpec (runFn ext prog lf k (ixRVstrs e) [.u cw, .u pw] [] buf) V.strs (readVstrs cw pw e buf) := by
  obtain ⟨k, rfl⟩ : ∃ k', k = k' + 1 := ⟨k - 1, by omega⟩
  cases e
  · exact readVstrs_core ext .be cw pw hcw hpw buf lf k hlf _ PinnedIR.fn28 rfl rfl
  · exact readVstrs_core ext .le cw pw hcw hpw buf lf k hlf _ PinnedIR.fn29 rfl rfl

private def objBody : Stmt :=
  .seq (.objNew 6)
    (.seq (.seq (.objDecode 6 (some 7)) (.ite (.cmp .ne (.var 7) .nilErr) (.ret [(.var 4), (.var 7)]) .skip))
      (.append 4 (.var 6)))

private theorem objBody_lemma (ext : Ext O) (callee : Nat → List Ty → List (V O) → Bytes → CallRes O) (lf : Nat)
    (targs : List Ty) (elem : R O) (hdec : ∀ b, ext.dec ext.new b = elem b) (s : St O) (acc : List O)
    (hr : s.loc 4 = V.objs acc) :
    NSpec (exec ext callee lf targs objBody s)
      (fun a rest s' => s'.buf = rest ∧ s'.loc 4 = V.objs (acc ++ [a]) ∧ s'.loc 5 = s.loc 5 ∧
          s'.loc 3 = s.loc 3 ∧ True) (elem s.buf) := by
  have hd := hdec s.buf
  cases he : elem s.buf with
  | ok p =>
    obtain ⟨a, rest⟩ := p
    rw [he] at hd
    simp only [objBody, exec, St.set_loc, if_true, St.set_buf, hd, St.setOpt_some, evalE, hr, appendV, NSpec]
    refine ⟨_, rfl, ?_⟩
    simp
  | err =>
    rw [he] at hd
    simp only [objBody, exec, St.set_loc, if_true, St.set_buf, hd, St.setOpt_some, evalE, evalArgs, Option.bind,
      Option.map, NSpec]
    exact ⟨_, _, rfl⟩
  | panic =>
    rw [he] at hd
    simp only [objBody, exec, St.set_loc, if_true, St.set_buf, hd, NSpec]

private theorem readObjs_core (ext : Ext O) (elem : R O) (hdec : ∀ b, ext.dec ext.new b = elem b)
    (e : Endian) (cw : Nat) (t : Ty) (hcw : cw ≤ 8) (buf : Bytes) (lf k : Nat) (hlf : 2 ^ 64 ≤ lf)
    (f : Nat) (fn : Func) (hf : prog[f]? = some fn)
    (hbody : fn.body = hdr e 1 2 3 4 .objs (tlS 5 3 4 objBody .nilErr)) :
    RSpec (runFn ext prog lf (k + 1) f [.u cw, t] [] buf) V.objs (readList cw e elem buf) := by
  rw [readList_eq]
  simp only [runFn, hf, hbody]
  rw [hdr_lemma ext _ lf cw _ hcw e 1 2 3 4 .objs _ (by decide)]
  simp only []
  by_cases h1 : cw ≤ buf.length
  · simp only [h1, if_true]
    by_cases h2 : ofE e (List.take cw buf) < 2 ^ 63
    · simp only [h2, if_true]
      apply rspec_of_tspec
      refine tail_lemma (α := O) ext _ lf _ 5 3 4 _ _ elem V.objs (fun _ => True)
        (by decide) (by decide) ?_ ?_ ?_ _ (by omega) _ ?_ ?_ trivial
      · intro s v h; trivial
      · intro s acc _ hr
        exact objBody_lemma ext _ lf _ elem hdec s acc hr
      · intro s h; rfl
      · simp
      · simp [emptyV]
    · simp only [h2, if_false]; rfl
  · simp only [h1, if_false]
    exact ⟨_, _, rfl⟩

theorem ir_readObjs (ext : Ext O) (elem : R O) (hdec : ∀ b, ext.dec ext.new b = elem b)
    (e : Endian) (cw : Nat) (t : Ty) (hcw : cw ≤ 8) (buf : Bytes) (lf k : Nat) (hlf : 2 ^ 64 ≤ lf) (hk : 1 ≤ k) :
    RSpec (runFn ext prog lf k (ixRObjs e) [.u cw, t] [] buf) V.objs (readList cw e elem buf) := by
  obtain ⟨k, rfl⟩ : ∃ k', k = k' + 1 := ⟨k - 1, by omega⟩
  cases e
  · exact readObjs_core ext elem hdec .be cw t hcw buf lf k hlf _ PinnedIR.fn32 rfl rfl
  · exact readObjs_core ext elem hdec .le cw t hcw buf lf k hlf _ PinnedIR.fn33 rfl rfl

end FinProto.GoIR
