/-
  GoIR proofs, group C: the list writers.
-/
import FinProto.GoIRSpec
import FinProto.Props.GoIR_A
import FinProto.Props.GoIR_B
namespace FinProto.GoIR
open FinProto

/-! ### generic pieces -/

/-- what a statement that writes the model's bytes does to the state -/
def XSpec (r : Res O) (buf : Bytes) : Outcome Bytes → Prop
  | .ok bs => ∃ s', r = .norm s' ∧ s'.buf = buf ++ bs
  | .err => ∃ s', r = .ret [.err true] s'
  | .panic => r = .panic

/-- the count / length prefix: `if err := writeLen[T](buf, order, len(v)); err != nil { return err }` -/
theorem exec_lenPrefix (ext : Ext O) (callee : Nat → List Ty → List (V O) → Bytes → CallRes O) (lf : Nat)
    (targs : List Ty) (e : Endian) (w : Nat) (tp : TyRef) (v d : Nat) (n : Nat) (s : St O)
    (htp : resolve targs tp = some (.u w))
    (hlen : lenV (s.loc v) = some (n : Int))
    (hcallee : WSpec (callee 4 [.u w] [.order e, natV n] s.buf) s.buf (writeLen w e n)) :
    match writeLen w e n with
    | .ok c => exec ext callee lf targs
        (.seq (.call 4 [tp] [.order e, .len (.var v)] [some d])
          (.ite (.cmp .ne (.var d) .nilErr) (.ret [.var d]) .skip)) s
        = .norm (({ s with buf := s.buf ++ c } : St O).set d (.err false))
    | .err => ∃ s', exec ext callee lf targs
        (.seq (.call 4 [tp] [.order e, .len (.var v)] [some d])
          (.ite (.cmp .ne (.var d) .nilErr) (.ret [.var d]) .skip)) s
        = .ret [.err true] s'
    | .panic => exec ext callee lf targs
        (.seq (.call 4 [tp] [.order e, .len (.var v)] [some d])
          (.ite (.cmp .ne (.var d) .nilErr) (.ret [.var d]) .skip)) s
        = .panic := by
  cases h : writeLen w e n with
  | ok c =>
    rw [h] at hcallee
    simp only [WSpec, natV, Int.ofNat_eq_natCast] at hcallee
    simp only [exec, evalE, evalArgs, resolveAll, htp, hlen, Option.bind, Option.map, hcallee, assignAll,
      St.setOpt_some, St.set_loc, if_true]
  | err =>
    rw [h] at hcallee
    simp only [WSpec, natV, Int.ofNat_eq_natCast] at hcallee
    obtain ⟨b', hcallee⟩ := hcallee
    simp only [exec, evalE, evalArgs, resolveAll, htp, hlen, Option.bind, Option.map, hcallee, assignAll,
      St.setOpt_some, St.set_loc, if_true]
    exact ⟨_, rfl⟩
  | panic =>
    rw [h] at hcallee
    simp only [WSpec, natV, Int.ofNat_eq_natCast] at hcallee
    simp only [exec, evalE, evalArgs, resolveAll, htp, hlen, Option.bind, Option.map, hcallee]

/-- a list writer: the count prefix, then the loop, then `return nil` -/
def listBody (e : Endian) (d x : Nat) (body : Stmt) : Stmt :=
  .seq (.seq (.call 4 [.param 0] [.order e, .len (.var 0)] [some d])
      (.ite (.cmp .ne (.var d) .nilErr) (.ret [.var d]) .skip))
    (.seq (.range x (.var 0) body) (.ret [.nilErr]))

theorem exec_listBody (ext : Ext O) (callee : Nat → List Ty → List (V O) → Bytes → CallRes O) (lf : Nat)
    (targs : List Ty) (e : Endian) (cw : Nat) (d x : Nat) (body : Stmt) (n : Nat) (vs : List (V O)) (s : St O)
    (htp : resolve targs (.param 0) = some (.u cw))
    (hlen : lenV (s.loc 0) = some (n : Int))
    (helems : elems (s.loc 0) = some vs)
    (hd : d ≠ 0)
    (hcallee : WSpec (callee 4 [.u cw] [.order e, natV n] s.buf) s.buf (writeLen cw e n)) :
    match writeLen cw e n with
    | .ok c => exec ext callee lf targs (listBody e d x body) s
        = match rangeLoop x (exec ext callee lf targs body) vs
              (({ s with buf := s.buf ++ c } : St O).set d (.err false)) with
          | .norm s1 => .ret [.err false] s1
          | r => r
    | .err => ∃ s', exec ext callee lf targs (listBody e d x body) s = .ret [.err true] s'
    | .panic => exec ext callee lf targs (listBody e d x body) s = .panic := by
  have h := exec_lenPrefix ext callee lf targs e cw (.param 0) 0 d n s htp hlen hcallee
  have h0 : (0 : Nat) ≠ d := fun h => hd h.symm
  unfold listBody
  rw [exec]
  cases hw : writeLen cw e n with
  | ok c =>
    rw [hw] at h
    simp only at h ⊢
    rw [h]
    simp only [exec, evalE, evalArgs, St.set_loc, h0, if_false, Option.bind, helems]
    cases rangeLoop x (exec ext callee lf targs body) vs (({ s with buf := s.buf ++ c } : St O).set d (.err false)) <;> rfl
  | err =>
    rw [hw] at h
    obtain ⟨s', h⟩ := h
    exact ⟨s', by rw [h]⟩
  | panic =>
    rw [hw] at h
    simp only at h ⊢
    rw [h]

/-- the loop of a list writer whose element writer computes `f` -/
theorem rangeLoop_writeAll (x : Nat) (body : St O → Res O) (Inv : St O → Prop) (Q : α → Prop) (inj : α → V O)
    (f : α → Outcome Bytes)
    (hbody : ∀ s a, Inv s → Q a →
      match f a with
      | .ok bs => ∃ s', body (s.set x (inj a)) = .norm s' ∧ s'.buf = s.buf ++ bs ∧ Inv s'
      | .err => ∃ s', body (s.set x (inj a)) = .ret [.err true] s'
      | .panic => body (s.set x (inj a)) = .panic)
    (l : List α) (hl : ∀ a ∈ l, Q a) (s : St O) (hs : Inv s) :
    XSpec (rangeLoop x body (l.map inj) s) s.buf (writeAll f l) := by
  induction l generalizing s with
  | nil => exact ⟨s, rfl, by simp⟩
  | cons a as ih =>
    have hb := hbody s a hs (hl a (List.mem_cons_self ..))
    have ih' := fun s1 h1 => ih (fun a h => hl a (List.mem_cons_of_mem _ h)) s1 h1
    simp only [List.map_cons, rangeLoop, writeAll]
    cases hf : f a with
    | ok bs =>
      rw [hf] at hb
      obtain ⟨s1, h1, h2, h3⟩ := hb
      rw [h1]
      have := ih' s1 h3
      simp only [Outcome.bind_ok]
      cases hw : writeAll f as with
      | ok bs' =>
        rw [hw] at this
        obtain ⟨s2, h4, h5⟩ := this
        exact ⟨s2, h4, by rw [h5, h2, List.append_assoc]⟩
      | err => rw [hw] at this; exact this
      | panic => rw [hw] at this; exact this
    | err =>
      rw [hf] at hb
      obtain ⟨s1, h1⟩ := hb
      exact ⟨s1, by rw [h1]⟩
    | panic =>
      rw [hf] at hb
      simp only at hb
      simp only [Outcome.bind_panic, XSpec]
      rw [hb]

theorem runFn_succ (ext : Ext O) (lf k f : Nat) (targs : List Ty) (args : List (V O)) (buf : Bytes) (fn : Func)
    (h : prog[f]? = some fn) :
    runFn ext prog lf (k + 1) f targs args buf =
      match exec ext (runFn ext prog lf k) lf targs fn.body { buf := buf, loc := initLoc args } with
      | .ret vs s => .ret vs s.buf
      | .norm _ => .panic
      | .panic => .panic
      | .timeout => .timeout := by
  simp only [runFn, h]
  cases exec ext (runFn ext prog lf k) lf targs fn.body { buf := buf, loc := initLoc args } <;> rfl

/-- from the loop to the whole list writer -/
theorem runFn_listBody (ext : Ext O) (lf k f : Nat) (targs : List Ty) (args : List (V O)) (buf : Bytes) (fn : Func)
    (e : Endian) (cw : Nat) (d x : Nat) (body : Stmt) (n : Nat) (vs : List (V O)) (out : Outcome Bytes)
    (hf : prog[f]? = some fn) (hfn : fn.body = listBody e d x body)
    (htp : resolve targs (.param 0) = some (.u cw))
    (hlen : lenV (initLoc args 0) = some (n : Int))
    (helems : elems (initLoc args 0) = some vs)
    (hd : d ≠ 0) (hcw : cw ≤ 8) (hn : n < 2 ^ 63) (hk : 1 ≤ k)
    (hloop : ∀ c, XSpec (rangeLoop x (exec ext (runFn ext prog lf k) lf targs body) vs
      (({ buf := buf ++ c, loc := initLoc args } : St O).set d (.err false))) (buf ++ c) out) :
    WSpec (runFn ext prog lf (k + 1) f targs args buf) buf
      ((writeLen cw e n).bind (fun c => out.map (c ++ ·))) := by
  rw [runFn_succ ext lf k f targs args buf fn hf, hfn]
  have h := exec_listBody ext (runFn ext prog lf k) lf targs e cw d x body n vs
    { buf := buf, loc := initLoc args } htp hlen helems hd (ir_writeLen ext e cw n hcw hn buf lf k hk)
  cases hw : writeLen cw e n with
  | ok c =>
    rw [hw] at h
    simp only at h
    rw [h]
    have hl := hloop c
    simp only [Outcome.bind_ok]
    cases ho : out with
    | ok bs =>
      rw [ho] at hl
      obtain ⟨s', h1, h2⟩ := hl
      rw [h1]
      simp only [Outcome.map_ok, WSpec, h2, List.append_assoc]
    | err =>
      rw [ho] at hl
      obtain ⟨s', h1⟩ := hl
      rw [h1]
      exact ⟨_, rfl⟩
    | panic =>
      rw [ho] at hl
      simp only [XSpec] at hl
      rw [hl]
      rfl
  | err =>
    rw [hw] at h
    obtain ⟨s', h⟩ := h
    rw [h]
    exact ⟨_, rfl⟩
  | panic =>
    rw [hw] at h
    simp only at h
    rw [h]
    rfl

/-! ### WriteBasicTypeList[LE] -/

def numsElem (e : Endian) : Stmt :=
  .seq (.call (ixWScalar e) [.param 1] [.var 2] [some 3])
    (.ite (.cmp .ne (.var 3) .nilErr) (.ret [.var 3]) .skip)

theorem ir_writeNums (ext : Ext O) (e : Endian) (cw w : Nat) (l : List Nat) (hcw : cw ≤ 8) (hl : l.length < 2 ^ 63)
    (buf : Bytes) (lf k : Nat) (hk : 2 ≤ k) :
    WSpec (runFn ext prog lf k (ixWNums e) [.u cw, .u w] [natsV l] buf) buf (writeNums cw w e l) := by
  obtain ⟨k, rfl⟩ : ∃ k', k = k' + 1 := ⟨k - 1, by omega⟩
  obtain ⟨fn, hf, hfn⟩ : ∃ fn, prog[ixWNums e]? = some fn ∧ fn.body = listBody e 1 2 (numsElem e) := by
    cases e <;> exact ⟨_, rfl, rfl⟩
  unfold writeNums writeList
  refine runFn_listBody ext lf k (ixWNums e) [.u cw, .u w] [natsV l] buf fn e cw 1 2 (numsElem e) l.length
    (l.map natV) _ hf hfn rfl ?_ ?_ (by decide) hcw hl (by omega) ?_
  · simp only [initLoc, natsV, List.getD_cons_zero, lenV, List.length_map]
  · simp only [initLoc, natsV, List.getD_cons_zero, elems, List.map_map]
    rfl
  · intro c
    refine rangeLoop_writeAll 2 _ (fun _ => True) (fun _ => True) natV _ ?_ l (fun _ _ => trivial) _ trivial
    intro s a _ _
    simp only [numsElem, exec, evalE, evalArgs, resolveAll, resolve, List.getElem?_cons_succ, List.getElem?_cons_zero,
      Option.bind, Option.map, St.set_loc, if_true, St.set_buf,
      ir_writeScalar ext e w a s.buf lf k (by omega), assignAll, St.setOpt_some]
    exact ⟨_, rfl, rfl, trivial⟩

/-! ### WriteFixedStringListWithPadding[LE] -/

/-- the branch `return nil` is dead: `WriteFixedStringWithPadding` never fails -/
def fixedsElem : Stmt :=
  .seq (.call ixWFixed [] [.var 5, .var 1, .var 2, .var 3] [some 6])
    (.ite (.cmp .ne (.var 6) .nilErr) (.ret [.nilErr]) .skip)

theorem ir_writeFixeds (ext : Ext O) (e : Endian) (cw n p : Nat) (left : Bool) (l : List Bytes) (hcw : cw ≤ 8)
    (hl : l.length < 2 ^ 63) (buf : Bytes) (lf k : Nat) (hk : 3 ≤ k) :
    WSpec (runFn ext prog lf k (ixWFixeds e) [.u cw] [.strs l, natV n, natV p, .bool left] buf) buf
      (writeFixeds cw n (UInt8.ofNat p) left e l) := by
  obtain ⟨k, rfl⟩ : ∃ k', k = k' + 1 := ⟨k - 1, by omega⟩
  obtain ⟨fn, hf, hfn⟩ : ∃ fn, prog[ixWFixeds e]? = some fn ∧ fn.body = listBody e 4 5 fixedsElem := by
    cases e <;> exact ⟨_, rfl, rfl⟩
  unfold writeFixeds writeList
  refine runFn_listBody ext lf k (ixWFixeds e) [.u cw] [.strs l, natV n, natV p, .bool left] buf fn e cw 4 5
    fixedsElem l.length (l.map V.bytes) _ hf hfn rfl ?_ ?_ (by decide) hcw hl (by omega) ?_
  · simp only [initLoc, List.getD_cons_zero, lenV]
  · simp only [initLoc, List.getD_cons_zero, elems]
  · intro c
    refine rangeLoop_writeAll 5 _
      (fun s => s.loc 1 = natV n ∧ s.loc 2 = natV p ∧ s.loc 3 = .bool left) (fun _ => True) V.bytes _ ?_ l
      (fun _ _ => trivial) _ ⟨rfl, rfl, rfl⟩
    intro s a ⟨h1, h2, h3⟩ _
    simp only [fixedsElem, exec, evalE, evalArgs, resolveAll,
      Option.bind, Option.map, St.set_loc, if_true, if_false, St.set_buf, h1, h2, h3, Nat.reduceEqDiff,
      ir_writeFixed ext a n p left s.buf lf k (by omega), assignAll, St.setOpt_some]
    refine ⟨_, rfl, rfl, ?_, ?_, ?_⟩ <;> simp only [St.set_loc, Nat.reduceEqDiff, if_false, h1, h2, h3]

/-! ### WriteFixedStringList[LE] -/

def fixedsDefBody (e : Endian) : Stmt :=
  .seq (.call (ixWFixeds e) [.param 0] [.var 0, .var 1, .int 32, .bool false] [some 2]) (.ret [.var 2])

theorem ir_writeFixedsDef (ext : Ext O) (e : Endian) (cw n : Nat) (l : List Bytes) (hcw : cw ≤ 8)
    (hl : l.length < 2 ^ 63) (buf : Bytes) (lf k : Nat) (hk : 4 ≤ k) :
    WSpec (runFn ext prog lf k (ixWFixedsDef e) [.u cw] [.strs l, natV n] buf) buf
      (writeFixeds cw n 0x20 false e l) := by
  obtain ⟨k, rfl⟩ : ∃ k', k = k' + 1 := ⟨k - 1, by omega⟩
  obtain ⟨fn, hf, hfn⟩ : ∃ fn, prog[ixWFixedsDef e]? = some fn ∧ fn.body = fixedsDefBody e := by
    cases e <;> exact ⟨_, rfl, rfl⟩
  rw [runFn_succ ext lf k _ _ _ buf fn hf, hfn]
  have h := ir_writeFixeds ext e cw n 32 false l hcw hl buf lf k (by omega)
  have h32 : UInt8.ofNat 32 = 0x20 := rfl
  rw [h32] at h
  have hv : (natV 32 : V O) = .int 32 := rfl
  simp only [fixedsDefBody, exec, evalE, evalArgs, resolveAll, resolve, List.getElem?_cons_zero,
    Option.bind, Option.map, initLoc, List.getD_cons_zero, List.getD_cons_succ]
  rw [← hv]
  cases ho : writeFixeds cw n 0x20 false e l with
  | ok bs =>
    rw [ho] at h
    simp only [WSpec] at h ⊢
    simp only [h, assignAll, St.setOpt_some, St.set_loc, if_true, St.set_buf]
  | err =>
    rw [ho] at h
    obtain ⟨b', h⟩ := h
    simp only [h, assignAll, St.setOpt_some, St.set_loc, if_true]
    exact ⟨_, rfl⟩
  | panic =>
    rw [ho] at h
    simp only [WSpec] at h ⊢
    simp only [h]

/-! ### WriteStringList[LE] -/

def vstrsElem (e : Endian) : Stmt :=
  .seq (.seq (.call 4 [.param 1] [.order e, .len (.var 2)] [some 3])
      (.ite (.cmp .ne (.var 3) .nilErr) (.ret [.var 3]) .skip))
    (.bufWrite (.var 2) none none)

theorem ir_writeVstrs (ext : Ext O) (e : Endian) (cw pw : Nat) (l : List Bytes) (hcw : cw ≤ 8) (hpw : pw ≤ 8)
    (hl : l.length < 2 ^ 63) (hs : ∀ s ∈ l, s.length < 2 ^ 63) (buf : Bytes) (lf k : Nat) (hk : 2 ≤ k) :
    WSpec (runFn ext prog lf k (ixWVstrs e) [.u cw, .u pw] [.strs l] buf) buf (writeVstrs cw pw e l) := by
  obtain ⟨k, rfl⟩ : ∃ k', k = k' + 1 := ⟨k - 1, by omega⟩
  obtain ⟨fn, hf, hfn⟩ : ∃ fn, prog[ixWVstrs e]? = some fn ∧ fn.body = listBody e 1 2 (vstrsElem e) := by
    cases e <;> exact ⟨_, rfl, rfl⟩
  unfold writeVstrs writeList
  refine runFn_listBody ext lf k (ixWVstrs e) [.u cw, .u pw] [.strs l] buf fn e cw 1 2 (vstrsElem e) l.length
    (l.map V.bytes) _ hf hfn rfl ?_ ?_ (by decide) hcw hl (by omega) ?_
  · simp only [initLoc, List.getD_cons_zero, lenV]
  · simp only [initLoc, List.getD_cons_zero, elems]
  · intro c
    refine rangeLoop_writeAll 2 _ (fun _ => True) (fun a => a.length < 2 ^ 63) V.bytes _ ?_ l hs _ trivial
    intro s a _ ha
    have h := exec_lenPrefix ext (runFn ext prog lf k) lf [.u cw, .u pw] e pw (.param 1) 2 3 a.length
      (s.set 2 (.bytes a)) rfl (by simp only [St.set_loc, if_true, lenV])
      (ir_writeLen ext e pw a.length hpw ha _ lf k (by omega))
    unfold vstrsElem writeVstr
    rw [exec]
    cases hw : writeLen pw e a.length with
    | ok c =>
      rw [hw] at h
      simp only at h
      rw [h]
      simp only [exec, evalE, St.set_loc, Nat.reduceEqDiff, if_false, if_true, St.setOpt_none, St.set_buf,
        Outcome.map_ok]
      exact ⟨_, rfl, by simp only [List.append_assoc], trivial⟩
    | err =>
      rw [hw] at h
      obtain ⟨s', h⟩ := h
      exact ⟨s', by rw [h]⟩
    | panic =>
      rw [hw] at h
      simp only at h
      simp only [Outcome.map_panic]
      rw [h]

/-! ### WriteObjectList[LE] -/

def objsElem : Stmt :=
  .seq (.objEncode (.var 2) (some 3)) (.ite (.cmp .ne (.var 3) .nilErr) (.ret [.var 3]) .skip)

/-- what a statement whose model threads the buffer does to the state -/
def XSpecE (r : Res O) : Outcome (α × Bytes) → Prop
  | .ok p => ∃ s', r = .norm s' ∧ s'.buf = p.2
  | .err => ∃ s', r = .ret [.err true] s'
  | .panic => r = .panic

theorem exec_objsElem (ext : Ext Val) (callee : Nat → List Ty → List (V Val) → Bytes → CallRes Val) (lf : Nat)
    (targs : List Ty) (f : Val → E Val) (hext : ∀ o b, ext.enc o b = (f o b).map (·.2)) (a : Val) (s : St Val) :
    XSpecE (exec ext callee lf targs objsElem (s.set 2 (.obj a))) (f a s.buf) := by
  simp only [objsElem, exec, evalE, St.set_loc, if_true, hext, St.set_buf]
  cases hf : f a s.buf with
  | ok p =>
    simp only [Outcome.map_ok, St.setOpt_some, St.set_loc, if_true]
    exact ⟨_, rfl, rfl⟩
  | err =>
    simp only [Outcome.map_err, St.setOpt_some, St.set_loc, if_true, evalArgs, evalE, Option.bind, Option.map]
    exact ⟨_, rfl⟩
  | panic => rfl

theorem rangeLoop_encAll (ext : Ext Val) (callee : Nat → List Ty → List (V Val) → Bytes → CallRes Val) (lf : Nat)
    (targs : List Ty) (f : Val → E Val) (hext : ∀ o b, ext.enc o b = (f o b).map (·.2)) (l : List Val)
    (s : St Val) :
    XSpecE (rangeLoop 2 (exec ext callee lf targs objsElem) (l.map V.obj) s) (encAll f l s.buf) := by
  induction l generalizing s with
  | nil => exact ⟨s, rfl, rfl⟩
  | cons a as ih =>
    have hb := exec_objsElem ext callee lf targs f hext a s
    rw [List.map_cons, rangeLoop]
    simp only [encAll, bindE, mapE]
    cases hf : f a s.buf with
    | ok p =>
      rw [hf] at hb
      obtain ⟨s1, h1, h2⟩ := hb
      rw [h1]
      simp only [Outcome.bind_ok]
      have := ih s1
      rw [h2] at this
      cases hw : encAll f as p.2 with
      | ok q => rw [hw] at this; exact this
      | err => rw [hw] at this; exact this
      | panic => rw [hw] at this; exact this
    | err =>
      rw [hf] at hb
      obtain ⟨s1, h1⟩ := hb
      exact ⟨s1, by rw [h1]⟩
    | panic =>
      rw [hf] at hb
      simp only [XSpecE] at hb
      simp only [Outcome.bind_panic, XSpecE]
      rw [hb]

/-- object lists: `f` is the element encoder of the interpreter (it threads the buffer and returns the updated element) -/
theorem ir_writeObjs (ext : Ext Val) (f : Val → E Val) (hext : ∀ o b, ext.enc o b = (f o b).map (·.2))
    (e : Endian) (cw : Nat) (t : Ty) (l : List Val) (hcw : cw ≤ 8) (hl : l.length < 2 ^ 63)
    (buf : Bytes) (lf k : Nat) (hk : 2 ≤ k) :
    WSpecE (runFn ext prog lf k (ixWObjs e) [.u cw, t] [.objs l] buf)
      ((bindE (emit () (writeLen cw e l.length)) (fun _ => encAll f l)) buf) := by
  obtain ⟨k, rfl⟩ : ∃ k', k = k' + 1 := ⟨k - 1, by omega⟩
  obtain ⟨fn, hf, hfn⟩ : ∃ fn, prog[ixWObjs e]? = some fn ∧ fn.body = listBody e 1 2 objsElem := by
    cases e <;> exact ⟨_, rfl, rfl⟩
  rw [runFn_succ ext lf k _ _ _ buf fn hf, hfn]
  have h := exec_listBody ext (runFn ext prog lf k) lf [.u cw, t] e cw 1 2 objsElem l.length (l.map V.obj)
    { buf := buf, loc := initLoc [.objs l] } rfl
    (by simp only [initLoc, List.getD_cons_zero, lenV])
    (by simp only [initLoc, List.getD_cons_zero, elems]) (by decide)
    (ir_writeLen ext e cw l.length hcw hl buf lf k (by omega))
  simp only [bindE, emit]
  cases hw : writeLen cw e l.length with
  | ok c =>
    rw [hw] at h
    simp only at h
    rw [h]
    have hl := rangeLoop_encAll ext (runFn ext prog lf k) lf [.u cw, t] f hext l
      (({ buf := buf ++ c, loc := initLoc [.objs l] } : St Val).set 1 (.err false))
    simp only [St.set_buf] at hl
    simp only [Outcome.map_ok, Outcome.bind_ok]
    cases ho : encAll f l (buf ++ c) with
    | ok q =>
      rw [ho] at hl
      obtain ⟨s', h1, h2⟩ := hl
      rw [h1]
      simp only [WSpecE, h2]
    | err =>
      rw [ho] at hl
      obtain ⟨s', h1⟩ := hl
      rw [h1]
      exact ⟨_, rfl⟩
    | panic =>
      rw [ho] at hl
      simp only [XSpecE] at hl
      rw [hl]
      rfl
  | err =>
    rw [hw] at h
    obtain ⟨s', h⟩ := h
    rw [h]
    exact ⟨_, rfl⟩
  | panic =>
    rw [hw] at h
    simp only at h
    rw [h]
    rfl

end FinProto.GoIR
