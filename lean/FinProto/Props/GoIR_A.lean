/-
  GoIR proofs, group A: scalars, `writeLen`, length-prefixed text.  The committed translation of each function
  (`PinnedIR`), run by GoIR's semantics, computes the primitive model of `Prim.lean` on every input.
-/
import FinProto.GoIRSpec
namespace FinProto.GoIR
open FinProto

/-! ### helpers -/

private theorem prog_0 : prog[0]? = some PinnedIR.fn0 := rfl
private theorem prog_1 : prog[1]? = some PinnedIR.fn1 := rfl
private theorem prog_2 : prog[2]? = some PinnedIR.fn2 := rfl
private theorem prog_3 : prog[3]? = some PinnedIR.fn3 := rfl
private theorem prog_4 : prog[4]? = some PinnedIR.fn4 := rfl
private theorem prog_9 : prog[9]? = some PinnedIR.fn9 := rfl
private theorem prog_10 : prog[10]? = some PinnedIR.fn10 := rfl
private theorem prog_11 : prog[11]? = some PinnedIR.fn11 := rfl
private theorem prog_12 : prog[12]? = some PinnedIR.fn12 := rfl

private theorem runFn_succ (ext : Ext O) (p : List Func) (lf k f : Nat) (targs : List Ty) (args : List (V O)) (buf : Bytes) :
    runFn ext p lf (k + 1) f targs args buf =
      match p[f]? with
      | none => .panic
      | some fn =>
        match exec ext (runFn ext p lf k) lf targs fn.body { buf := buf, loc := initLoc args } with
        | .ret vs s => .ret vs s.buf
        | .norm _ => .panic
        | .panic => .panic
        | .timeout => .timeout := rfl

private theorem wrap_u_nat (w n : Nat) : (Ty.u w).wrap (n : Int) = ((n % 256 ^ w : Nat) : Int) := by
  simp only [Ty.wrap]
  generalize 256 ^ w = m
  omega

private theorem wrap_u_toNat (w n : Nat) : ((Ty.u w).wrap (n : Int)).toNat = n % 256 ^ w := by
  rw [wrap_u_nat, Int.toNat_natCast]

private theorem pow256_le (w : Nat) (hw : w ≤ 8) : 256 ^ w ≤ 2 ^ 64 := by
  have : (256 : Nat) ^ 8 = 2 ^ 64 := by decide
  rw [← this]
  exact Nat.pow_le_pow_right (by decide) hw

private theorem wrap_u8_max (w : Nat) (hw : w ≤ 8) :
    (Ty.u 8).wrap (((256 ^ w : Nat) : Int) - 1) = ((256 ^ w - 1 : Nat) : Int) := by
  have h1 := pow256_le w hw
  have h2 : 0 < 256 ^ w := Nat.pow_pos (by decide)
  have h3 : (256 : Nat) ^ 8 = 2 ^ 64 := by decide
  simp only [Ty.wrap, h3]
  generalize 256 ^ w = m at *
  omega

private theorem wrap_u8_small (n : Nat) (hn : n < 2 ^ 63) : (Ty.u 8).wrap (n : Int) = (n : Int) := by
  have h3 : (256 : Nat) ^ 8 = 2 ^ 64 := by decide
  rw [wrap_u_nat, h3, Nat.mod_eq_of_lt (by omega)]

/-- the guard of `writeLen`: `uint64(n) > uint64(^T(0))` -/
private theorem writeLen_guard (w n : Nat) (hw : w ≤ 8) (hn : n < 2 ^ 63) :
    cop .gt ((Ty.u 8).wrap (n : Int)) ((Ty.u 8).wrap (((256 ^ w : Nat) : Int) - 1)) = !decide (n < 256 ^ w) := by
  have h2 : 0 < 256 ^ w := Nat.pow_pos (by decide)
  rw [wrap_u8_max w hw, wrap_u8_small n hn]
  by_cases h : n < 256 ^ w
  · have hc : ¬ ((256 ^ w - 1 : Nat) : Int) < (n : Int) := by omega
    simp [cop, h, hc]
  · have hc : ((256 ^ w - 1 : Nat) : Int) < (n : Int) := by omega
    simp [cop, h, hc]

private theorem ofE_take_lt (e : Endian) (w : Nat) (buf : Bytes) (h : w ≤ buf.length) : ofE e (buf.take w) < 256 ^ w := by
  have := ofE_lt e (buf.take w)
  rwa [List.length_take, Nat.min_eq_left h] at this

private theorem wrap_u_ofE (e : Endian) (w : Nat) (buf : Bytes) (h : w ≤ buf.length) :
    (Ty.u w).wrap ((ofE e (buf.take w) : Nat) : Int) = ((ofE e (buf.take w) : Nat) : Int) := by
  rw [wrap_u_nat, Nat.mod_eq_of_lt (ofE_take_lt e w buf h)]

private theorem readScalar_def (w : Nat) (e : Endian) (buf : Bytes) :
    readScalar w e buf = if w ≤ buf.length then .ok (ofE e (buf.take w), buf.drop w) else .err := by
  simp only [readScalar, mapR, bindR, takeN_def]
  split <;> simp

private theorem wrap_s8_small (t : Nat) (h : t < 2 ^ 63) : (Ty.s 8).wrap (t : Int) = (t : Int) := by
  have h3 : (256 : Nat) ^ 8 = 2 ^ 64 := by decide
  simp only [Ty.wrap, h3]
  split <;> omega

private theorem wrap_s8_big (t : Nat) (h : ¬ t < 2 ^ 63) (h2 : t < 2 ^ 64) : (Ty.s 8).wrap (t : Int) < 0 := by
  have h3 : (256 : Nat) ^ 8 = 2 ^ 64 := by decide
  simp only [Ty.wrap, h3]
  split <;> omega

private theorem readVstr_def (pw : Nat) (e : Endian) (buf : Bytes) :
    readVstr pw e buf =
      if pw ≤ buf.length then
        if ofE e (buf.take pw) < 2 ^ 63 then
          if ofE e (buf.take pw) ≤ (buf.drop pw).length then
            .ok ((buf.drop pw).take (ofE e (buf.take pw)), (buf.drop pw).drop (ofE e (buf.take pw)))
          else .err
        else .panic
      else .err := by
  simp only [readVstr, bindR, readScalar_def, lenGuard]
  by_cases h : pw ≤ buf.length
  · by_cases h2 : ofE e (buf.take pw) < 2 ^ 63 <;> simp [h, h2, takeN_def]
  · simp [h]

/-! ### scalars -/

theorem ir_writeScalar (ext : Ext O) (e : Endian) (w n : Nat) (buf : Bytes) (lf k : Nat) (hk : 1 ≤ k) :
    runFn ext prog lf k (ixWScalar e) [.u w] [natV n] buf = .ret [.err false] (buf ++ writeScalar w e n) := by
  obtain ⟨k, rfl⟩ : ∃ k', k = k' + 1 := ⟨k - 1, by omega⟩
  cases e <;>
  simp [runFn, ixWScalar, prog_0, prog_1, PinnedIR.fn0, PinnedIR.fn1, exec, evalE, resolve, evalArgs, initLoc, natV,
    Ty.width, wrap_u_toNat, toE_mod, writeScalar]

theorem ir_readScalar (ext : Ext O) (e : Endian) (w : Nat) (buf : Bytes) (lf k : Nat) (hk : 1 ≤ k) :
    RSpec (runFn ext prog lf k (ixRScalar e) [.u w] [] buf) natV (readScalar w e buf) := by
  obtain ⟨k, rfl⟩ : ∃ k', k = k' + 1 := ⟨k - 1, by omega⟩
  rw [readScalar_def]
  by_cases h : w ≤ buf.length
  · cases e <;>
    simp [h, RSpec, runFn, ixRScalar, prog_2, prog_3, PinnedIR.fn2, PinnedIR.fn3, exec, evalE, resolve, evalArgs, natV,
      Ty.width, wrap_u_ofE]
  · cases e <;>
    simp [h, RSpec, runFn, ixRScalar, prog_2, prog_3, PinnedIR.fn2, PinnedIR.fn3, exec, evalE, resolve, evalArgs,
      Ty.width]

/-! ### `writeLen` -/

theorem ir_writeLen (ext : Ext O) (e : Endian) (w n : Nat) (hw : w ≤ 8) (hn : n < 2 ^ 63) (buf : Bytes) (lf k : Nat)
    (hk : 1 ≤ k) :
    WSpec (runFn ext prog lf k ixWriteLen [.u w] [.order e, natV n] buf) buf (writeLen w e n) := by
  obtain ⟨k, rfl⟩ : ∃ k', k = k' + 1 := ⟨k - 1, by omega⟩
  have hg := writeLen_guard w n hw hn
  simp only [runFn, ixWriteLen, prog_4, PinnedIR.fn4, exec, evalE, resolve, evalArgs, initLoc, natV,
    Int.ofNat_eq_natCast, List.getD_cons_zero, List.getD_cons_succ, List.getElem?_cons_zero, hg]
  unfold writeLen
  by_cases h : n < 256 ^ w
  · have hwr : (Ty.u w).wrap (n : Int) = (n : Int) := by rw [wrap_u_nat, Nat.mod_eq_of_lt h]
    simp [h, WSpec, initLoc, Ty.width, hwr]
  · simp [h, WSpec]

/-! ### length-prefixed text -/

theorem ir_writeVstr (ext : Ext O) (e : Endian) (pw : Nat) (s : Bytes) (hw : pw ≤ 8) (hs : s.length < 2 ^ 63)
    (buf : Bytes) (lf k : Nat) (hk : 2 ≤ k) :
    WSpec (runFn ext prog lf k (ixWVstr e) [.u pw] [.bytes s] buf) buf (writeVstr pw e s) := by
  obtain ⟨k, rfl⟩ : ∃ k', k = k' + 2 := ⟨k - 2, by omega⟩
  have hL := ir_writeLen ext e pw s.length hw hs buf lf (k + 1) (by omega)
  simp only [ixWriteLen, natV, Int.ofNat_eq_natCast] at hL
  rw [runFn_succ]
  cases e <;>
  · simp only [ixWVstr, prog_9, prog_10, PinnedIR.fn9, PinnedIR.fn10, exec, evalE, resolveAll, resolve, evalArgs, lenV, initLoc,
      List.getD_cons_zero, List.getElem?_cons_zero, Option.bind, Option.map]
    generalize runFn ext prog lf (k + 1) 4 [Ty.u pw] [V.order _, V.int ↑s.length] buf = r at hL
    unfold writeVstr
    cases hwl : writeLen pw _ s.length with
    | ok bs =>
      rw [hwl] at hL
      simp only [WSpec] at hL
      subst hL
      simp [WSpec, assignAll, initLoc]
    | err =>
      rw [hwl] at hL
      obtain ⟨b', rfl⟩ := hL
      simp [WSpec, assignAll]
    | panic =>
      rw [hwl] at hL
      simp only [WSpec] at hL
      subst hL
      simp [WSpec]

/-- the common head of the prefixed readers: `var t T; err := binary.Read(buf, o, &t); if err != nil { return zero, err }`,
    then `tl`, from the initial frame (continuation-passing form: `tl` stays abstract) -/
private theorem readPrefix_ok (ext : Ext O) (callee) (lf pw : Nat) (o : Endian) (buf : Bytes) (zero : Expr) (tl : Stmt)
    (h : pw ≤ buf.length) (P : Res O → Prop)
    (hP : ∀ s1 : St O, s1.buf = buf.drop pw → s1.loc 0 = .int ((ofE o (buf.take pw) : Nat) : Int) →
      P (exec ext callee lf [.u pw] tl s1)) :
    P (exec ext callee lf [.u pw]
      (.seq (.set 0 (.int 0))
        (.seq (.seq (.binRead (.order o) (.param 0) 0 (some 1))
          (.ite (.cmp .ne (.var 1) .nilErr) (.ret [zero, (.var 1)]) .skip)) tl))
      { buf := buf, loc := initLoc [] }) := by
  have hwr := wrap_u_ofE o pw buf h
  simp [exec, evalE, resolve, Ty.width, h, hwr]
  apply hP <;> simp

/-- the same, as an equation -/
private theorem readPrefix_ok' (ext : Ext O) (callee) (lf pw : Nat) (o : Endian) (buf : Bytes) (zero : Expr) (tl : Stmt)
    (h : pw ≤ buf.length) :
    ∃ s1 : St O, s1.buf = buf.drop pw ∧ s1.loc 0 = .int ((ofE o (buf.take pw) : Nat) : Int) ∧
      exec ext callee lf [.u pw]
        (.seq (.set 0 (.int 0))
          (.seq (.seq (.binRead (.order o) (.param 0) 0 (some 1))
            (.ite (.cmp .ne (.var 1) .nilErr) (.ret [zero, (.var 1)]) .skip)) tl))
        { buf := buf, loc := initLoc [] } = exec ext callee lf [.u pw] tl s1 :=
  readPrefix_ok ext callee lf pw o buf zero tl h
    (fun r => ∃ s1 : St O, s1.buf = buf.drop pw ∧ s1.loc 0 = .int ((ofE o (buf.take pw) : Nat) : Int) ∧
      r = exec ext callee lf [.u pw] tl s1)
    (fun s1 a b => ⟨s1, a, b, rfl⟩)

/-- `ReadString` after the prefix: `length := int(t); if length > buf.Len() {…}; b := make([]byte, length);
    _, err := io.ReadFull(buf, b); return string(b), err` -/
local notation "readStrTail" =>
  (Stmt.seq (Stmt.set 2 (Expr.conv (TyRef.ty (Ty.s 8)) (Expr.var 0)))
  (Stmt.seq (Stmt.ite (Expr.cmp COp.gt (Expr.var 2) Expr.bufLen) (Stmt.ret [Expr.emptyStr, Expr.newErr]) Stmt.skip)
  (Stmt.seq (Stmt.makeBytes 3 (Expr.var 2))
  (Stmt.seq (Stmt.readFull 3 none (some 4))
  (Stmt.ret [Expr.toStr (Expr.var 3), Expr.var 4])))))

private theorem readStr_tail (ext : Ext O) (callee) (lf : Nat) (targs : List Ty) (s : St O) (ti z : Int)
    (h0 : s.loc 0 = .int ti) (hz : (Ty.s 8).wrap ti = z) :
    (z < 0 → exec ext callee lf targs readStrTail s = .panic) ∧
    (∀ n : Nat, z = n → s.buf.length < n →
      ∃ s', exec ext callee lf targs readStrTail s = .ret [.bytes [], .err true] s') ∧
    (∀ n : Nat, z = n → n ≤ s.buf.length →
      ∃ s', s'.buf = s.buf.drop n ∧
        exec ext callee lf targs readStrTail s = .ret [.bytes (s.buf.take n), .err false] s') := by
  refine ⟨?_, ?_, ?_⟩
  · intro hneg
    have h4 : ¬ (0 ≤ z) := by omega
    have h5 : ¬ ((s.buf.length : Int) < z) := by omega
    simp [exec, evalE, resolve, cop, h0, hz, h4, h5]
  · rintro n rfl hlt
    simp [exec, evalE, resolve, evalArgs, cop, h0, hz, hlt]
  · rintro n rfl hle
    have hlt : ¬ s.buf.length < n := by omega
    simp [exec, evalE, resolve, evalArgs, cop, h0, hz, hlt, hle]

private theorem fn11_body : PinnedIR.fn11.body =
    .seq (.set 0 (.int 0))
      (.seq (.seq (.binRead (.order .be) (.param 0) 0 (some 1))
        (.ite (.cmp .ne (.var 1) .nilErr) (.ret [.emptyStr, (.var 1)]) .skip)) readStrTail) := rfl

private theorem fn12_body : PinnedIR.fn12.body =
    .seq (.set 0 (.int 0))
      (.seq (.seq (.binRead (.order .le) (.param 0) 0 (some 1))
        (.ite (.cmp .ne (.var 1) .nilErr) (.ret [.emptyStr, (.var 1)]) .skip)) readStrTail) := rfl

theorem ir_readVstr (ext : Ext O) (e : Endian) (pw : Nat) (hw : pw ≤ 8) (buf : Bytes) (lf k : Nat) (hk : 1 ≤ k) :
    RSpec (runFn ext prog lf k (ixRVstr e) [.u pw] [] buf) V.bytes (readVstr pw e buf) := by
  obtain ⟨k, rfl⟩ : ∃ k', k = k' + 1 := ⟨k - 1, by omega⟩
  rw [readVstr_def]
  by_cases h : pw ≤ buf.length
  · have hlt : ofE e (buf.take pw) < 2 ^ 64 := Nat.lt_of_lt_of_le (ofE_take_lt e pw buf h) (pow256_le pw hw)
    obtain ⟨s1, hb, h0, hex⟩ :=
      readPrefix_ok' ext (runFn ext prog lf k) lf pw e buf .emptyStr readStrTail h
    have hrun : runFn ext prog lf (k + 1) (ixRVstr e) [.u pw] [] buf =
        match exec ext (runFn ext prog lf k) lf [.u pw] readStrTail s1 with
        | .ret vs s => .ret vs s.buf
        | .norm _ => .panic
        | .panic => .panic
        | .timeout => .timeout := by
      rw [runFn_succ, ← hex]
      cases e
      · simp only [ixRVstr, prog_11, fn11_body]
      · simp only [ixRVstr, prog_12, fn12_body]
    rw [hrun, if_pos h]
    generalize ofE e (buf.take pw) = t at hlt h0 ⊢
    by_cases h2 : t < 2 ^ 63
    · obtain ⟨-, hB, hC⟩ := readStr_tail ext (runFn ext prog lf k) lf [.u pw] s1 t t h0 (wrap_s8_small t h2)
      rw [if_pos h2, ← hb]
      by_cases h3 : t ≤ s1.buf.length
      · obtain ⟨s', hb', hex'⟩ := hC t rfl h3
        rw [if_pos h3, hex']
        simp only [RSpec, hb']
      · obtain ⟨s', hex'⟩ := hB t rfl (by omega)
        rw [if_neg h3, hex']
        exact ⟨_, _, rfl⟩
    · have hneg := wrap_s8_big t h2 hlt
      obtain ⟨hA, -, -⟩ := readStr_tail ext (runFn ext prog lf k) lf [.u pw] s1 t _ h0 rfl
      rw [if_neg h2, hA hneg]
      rfl
  · cases e <;>
    simp [h, RSpec, runFn, ixRVstr, prog_11, prog_12, PinnedIR.fn11, PinnedIR.fn12, exec, evalE, resolve, evalArgs,
      Ty.width]

end FinProto.GoIR
