/-
  Properties C09 ("never loops": decoding takes time linear in the input) and C10 (allocation is
  proportional to the input, no request is driven by a length/count read from the wire alone) for the
  instrumented decoder of FinProto/Cost.lean.  Proofs only; generic over `env`, `objSize`, every fuel,
  every type and every byte string.  `FinProto.Pinned` is used ONLY in the non-vacuity `example`s.
-/
import FinProto.Cost
import FinProto.Props.DecLemmas
namespace FinProto

/-! ## 0. cost algebra and unfolding lemmas -/

namespace Cost
@[simp] theorem add_steps (a b : Cost) : (a + b).steps = a.steps + b.steps := rfl
@[simp] theorem add_alloc (a b : Cost) : (a + b).alloc = a.alloc + b.alloc := rfl
@[simp] theorem add_maxReq (a b : Cost) : (a + b).maxReq = max a.maxReq b.maxReq := rfl
@[simp] theorem zero_steps : zero.steps = 0 := rfl
@[simp] theorem zero_alloc : zero.alloc = 0 := rfl
@[simp] theorem zero_maxReq : zero.maxReq = 0 := rfl

/-- weighted cost `p * steps + q * alloc`: `(p, q) = (1, 0)` is time, `(0, 1)` is memory -/
def wt (p q : Nat) (c : Cost) : Nat := p * c.steps + q * c.alloc

theorem wt_add (p q : Nat) (a b : Cost) : (a + b).wt p q = a.wt p q + b.wt p q := by
  simp only [wt, add_steps, add_alloc, Nat.mul_add]; omega
@[simp] theorem wt_zero (p q : Nat) : zero.wt p q = 0 := by simp [wt]
@[simp] theorem wt_step (p q : Nat) : step.wt p q = p := by simp [wt, step]
@[simp] theorem wt_req (p q n : Nat) : (req n).wt p q = q * n := by simp [wt, req]
@[simp] theorem wt_read (p q n : Nat) : (read n).wt p q = p + q * n := by simp [wt, read]
theorem wt_one_zero (c : Cost) : c.wt 1 0 = c.steps := by simp [wt]
theorem wt_zero_one (c : Cost) : c.wt 0 1 = c.alloc := by simp [wt]
end Cost

@[simp] theorem pureRC_apply (a : α) (b : Bytes) : pureRC a b = (.ok (a, b), Cost.zero) := rfl
@[simp] theorem failRC_apply (b : Bytes) : (failRC : RC α) b = (.err, Cost.zero) := rfl
@[simp] theorem panicRC_apply (b : Bytes) : (panicRC : RC α) b = (.panic, Cost.zero) := rfl

theorem chargeRC_apply (c : Cost) (r : RC α) (b : Bytes) : chargeRC c r b = ((r b).1, c + (r b).2) := rfl

theorem bindRC_eq_ok {r : RC α} {f : α → RC β} {b : Bytes} {a : α} {b' : Bytes}
    (h : (r b).1 = .ok (a, b')) : bindRC r f b = ((f a b').1, (r b).2 + (f a b').2) := by
  simp only [bindRC]
  rcases hr : r b with ⟨o, c⟩
  rw [hr] at h
  dsimp only at h
  subst h
  rfl

theorem bindRC_eq_err {r : RC α} {f : α → RC β} {b : Bytes}
    (h : (r b).1 = .err) : bindRC r f b = (.err, (r b).2) := by
  simp only [bindRC]
  rcases hr : r b with ⟨o, c⟩
  rw [hr] at h
  dsimp only at h
  subst h
  rfl

theorem bindRC_eq_panic {r : RC α} {f : α → RC β} {b : Bytes}
    (h : (r b).1 = .panic) : bindRC r f b = (.panic, (r b).2) := by
  simp only [bindRC]
  rcases hr : r b with ⟨o, c⟩
  rw [hr] at h
  dsimp only at h
  subst h
  rfl

/-- the result component of a bind is the plain bind of the result components -/
theorem bindRC_fst (r : RC α) (f : α → RC β) (b : Bytes) :
    (bindRC r f b).1 = ((r b).1).bind (fun p => (f p.1 p.2).1) := by
  cases h : (r b).1 with
  | ok p => obtain ⟨a, b'⟩ := p; rw [bindRC_eq_ok h]; rfl
  | err => rw [bindRC_eq_err h]; rfl
  | panic => rw [bindRC_eq_panic h]; rfl

/-- a bind succeeds exactly when both parts do -/
theorem bindRC_fst_eq_ok {r : RC α} {f : α → RC β} {b : Bytes} {v : β} {rest : Bytes}
    (h : (bindRC r f b).1 = .ok (v, rest)) :
    ∃ a b', (r b).1 = .ok (a, b') ∧ (f a b').1 = .ok (v, rest) := by
  rw [bindRC_fst] at h
  obtain ⟨⟨a, b'⟩, h1, h2⟩ := Outcome.bind_eq_ok.mp h
  exact ⟨a, b', h1, h2⟩

theorem mapRC_fst_eq_ok {r : RC α} {g : α → β} {b : Bytes} {v : β} {rest : Bytes}
    (h : (mapRC g r b).1 = .ok (v, rest)) : ∃ a, (r b).1 = .ok (a, rest) ∧ g a = v := by
  obtain ⟨a, b', h1, h2⟩ := bindRC_fst_eq_ok h
  simp only [pureRC_apply, Outcome.ok.injEq, Prod.mk.injEq] at h2
  obtain ⟨rfl, rfl⟩ := h2
  exact ⟨a, h1, rfl⟩

theorem Cost.add_zero (c : Cost) : c + Cost.zero = c := by
  cases c
  show Cost.mk _ _ _ = Cost.mk _ _ _
  simp

/-- mapping does not change the cost -/
theorem mapRC_snd (g : α → β) (r : RC α) (b : Bytes) : (mapRC g r b).2 = (r b).2 := by
  unfold mapRC
  cases h : (r b).1 with
  | ok p => obtain ⟨a, b'⟩ := p; rw [bindRC_eq_ok h]; simp only [pureRC_apply, Cost.add_zero]
  | err => rw [bindRC_eq_err h]
  | panic => rw [bindRC_eq_panic h]

theorem takeNC_apply (n : Nat) (b : Bytes) : takeNC n b = (takeN n b, Cost.read n) := rfl

theorem takeAvailC_apply (n : Nat) (b : Bytes) :
    takeAvailC n b = if n ≤ b.length then (.ok (b.take n, b.drop n), Cost.read n) else (.err, Cost.step) := by
  simp only [takeAvailC, splitN_eq]
  by_cases h : n ≤ b.length <;> simp only [h, if_true, if_false]

theorem reqRC_apply (g : Nat → Nat) (b : Bytes) : reqRC g b = (.ok ((), b), Cost.req (g b.length)) := rfl

/-! ## 1. projection: the instrumentation does not change results -/

/-- the result component of `rc` is the plain reader `rd` -/
def Proj (rc : RC α) (rd : R α) : Prop := ∀ b, (rc b).1 = rd b

theorem proj_pureRC (a : α) : Proj (pureRC a) (pureR a) := fun _ => rfl
theorem proj_failRC : Proj (failRC : RC α) failR := fun _ => rfl
theorem proj_panicRC : Proj (panicRC : RC α) panicR := fun _ => rfl

theorem proj_chargeRC (c : Cost) {rc : RC α} {rd : R α} (h : Proj rc rd) : Proj (chargeRC c rc) rd :=
  fun b => h b

theorem proj_bindRC {rc : RC α} {rd : R α} {fc : α → RC β} {fd : α → R β}
    (h1 : Proj rc rd) (h2 : ∀ a, Proj (fc a) (fd a)) : Proj (bindRC rc fc) (bindR rd fd) := by
  intro b
  rw [bindRC_fst, h1 b]
  simp only [bindR]
  congr 1
  funext p
  exact h2 p.1 p.2

theorem proj_mapRC (g : α → β) {rc : RC α} {rd : R α} (h : Proj rc rd) : Proj (mapRC g rc) (mapR g rd) :=
  proj_bindRC h (fun a => proj_pureRC (g a))

theorem proj_takeNC (n : Nat) : Proj (takeNC n) (takeN n) := fun _ => rfl

theorem proj_takeAvailC (n : Nat) : Proj (takeAvailC n) (takeN n) := by
  intro b
  simp only [takeAvailC, takeN]
  cases splitN n b <;> rfl

theorem proj_decRepC {rc : RC α} {rd : R α} (h : Proj rc rd) : ∀ n, Proj (decRepC rc n) (decRep rd n)
  | 0 => proj_pureRC _
  | n+1 => proj_chargeRC _ (proj_bindRC h (fun _ => proj_mapRC _ (proj_decRepC h n)))

theorem proj_optRC {o : Option α} {kc : α → RC β} {kd : α → R β} (h : ∀ a, Proj (kc a) (kd a)) :
    Proj (optRC o kc) (optR o kd) := by
  cases o with
  | none => exact proj_chargeRC _ proj_failRC
  | some a => exact proj_chargeRC _ (h a)

theorem proj_lenGuardC (n : Nat) {kc : RC α} {kd : R α} (h : Proj kc kd) :
    Proj (lenGuardC n kc) (lenGuard n kd) := by
  unfold lenGuardC lenGuard
  split
  · exact h
  · exact proj_panicRC

theorem proj_readScalarC (w : Nat) (e : Endian) : Proj (readScalarC w e) (readScalar w e) :=
  proj_mapRC _ (proj_takeNC w)

theorem proj_readFixedC (n : Nat) (pad : UInt8) (left : Bool) :
    Proj (readFixedC n pad left) (readFixed n pad left) :=
  proj_mapRC _ (proj_takeNC n)

theorem proj_readVstrC (pw : Nat) (e : Endian) : Proj (readVstrC pw e) (readVstr pw e) :=
  proj_bindRC (proj_readScalarC pw e) (fun len => proj_lenGuardC len (proj_takeAvailC len))

theorem proj_reqRC_bind (g : Nat → Nat) {kc : RC β} {kd : R β} (h : Proj kc kd) :
    Proj (bindRC (reqRC g) (fun _ => kc)) kd := by
  intro b
  rw [bindRC_eq_ok (a := ()) (b' := b) rfl]
  exact h b

theorem proj_readListC {rc : RC α} {rd : R α} (cw : Nat) (e : Endian) (esz : Nat) (h : Proj rc rd) :
    Proj (readListC cw e esz rc) (readList cw e rd) :=
  proj_bindRC (proj_readScalarC cw e)
    (fun count => proj_lenGuardC count (proj_reqRC_bind _ (proj_decRepC h count)))

theorem proj_newObjC (objSize : Nat → Nat) {dC : Nat → RC Val} {dT : Nat → R Val}
    (h : ∀ ty, Proj (dC ty) (dT ty)) (ty : Nat) : Proj (newObjC objSize dC ty) (dT ty) :=
  proj_chargeRC _ (h ty)

theorem proj_decOpC (env : Env) (objSize : Nat → Nat) {dC : Nat → RC Val} {dT : Nat → R Val}
    (h : ∀ ty, Proj (dC ty) (dT ty)) (acc : List Val) (op : Op) :
    Proj (decOpC env objSize dC acc op) (decOp env dT acc op) := by
  cases op with
  | scalar w e => exact proj_mapRC _ (proj_readScalarC w e)
  | fixed n pad left => exact proj_mapRC _ (proj_readFixedC n _ left)
  | vstr pw e => exact proj_mapRC _ (proj_readVstrC pw e)
  | nums cw w e => exact proj_mapRC _ (proj_readListC cw e w (proj_readScalarC w e))
  | fixeds cw n pad left e => exact proj_mapRC _ (proj_readListC cw e 16 (proj_readFixedC n _ left))
  | vstrs cw pw e => exact proj_mapRC _ (proj_readListC cw e 16 (proj_readVstrC pw e))
  | nested ty g => exact proj_newObjC objSize h ty
  | objs cw ty e => exact proj_mapRC _ (proj_readListC cw e 8 (proj_newObjC objSize h ty))
  | union key tbl g => exact proj_optRC (proj_newObjC objSize h)
  | «opaque» => exact proj_failRC

theorem proj_decSeqC {sc : List Val → Op → RC Val} {sd : List Val → Op → R Val}
    (h : ∀ acc op, Proj (sc acc op) (sd acc op)) :
    ∀ ops acc, Proj (decSeqC sc ops acc) (decSeq sd ops acc)
  | [], acc => proj_pureRC acc
  | op :: ops, acc => proj_bindRC (h acc op) (fun v => proj_decSeqC h ops (acc ++ [v]))

theorem proj_decTyC (env : Env) (objSize : Nat → Nat) :
    ∀ f ty, Proj (decTyC env objSize f ty) (decTy env f ty)
  | 0, _ => proj_failRC
  | f+1, ty => by
    rw [decTyC, decTy]
    exact proj_optRC (fun td => proj_mapRC _
      (proj_decSeqC (fun acc op => proj_decOpC env objSize (proj_decTyC env objSize f) acc op) _ _))

/-- **1. Projection.**  Forgetting the cost record gives back the plain decoder. -/
theorem decTyC_fst (env : Env) (objSize : Nat → Nat) :
    ∀ f ty b, (decTyC env objSize f ty b).1 = decTy env f ty b :=
  fun f ty b => proj_decTyC env objSize f ty b

theorem decodeC_fst (env : Env) (objSize : Nat → Nat) (ty : Nat) (b : Bytes) :
    (decodeC env objSize ty b).1 = decode env ty b :=
  decTyC_fst env objSize env.fuel ty b

/-! ## 2a. consumption: a successful reader leaves (at least `m` bytes) less than it was given -/

def Cons (m : Nat) (rc : RC α) : Prop := ∀ b v r, (rc b).1 = .ok (v, r) → r.length + m ≤ b.length

theorem Cons.mono {m m' : Nat} {rc : RC α} (h : Cons m rc) (hm : m' ≤ m) : Cons m' rc := by
  intro b v r hr
  have := h b v r hr
  omega

theorem cons_pureRC (a : α) : Cons 0 (pureRC a) := by
  intro b v r h
  simp only [pureRC_apply, Outcome.ok.injEq, Prod.mk.injEq] at h
  rw [← h.2]
  omega

theorem cons_failRC (m : Nat) : Cons m (failRC : RC α) := by
  intro b v r h
  simp only [failRC_apply] at h
  cases h

theorem cons_panicRC (m : Nat) : Cons m (panicRC : RC α) := by
  intro b v r h
  simp only [panicRC_apply] at h
  cases h

theorem cons_chargeRC (c : Cost) {m : Nat} {rc : RC α} (h : Cons m rc) : Cons m (chargeRC c rc) :=
  fun b => h b

theorem cons_bindRC {m1 m2 : Nat} {rc : RC α} {f : α → RC β} (h1 : Cons m1 rc) (h2 : ∀ a, Cons m2 (f a)) :
    Cons (m1 + m2) (bindRC rc f) := by
  intro b v r h
  obtain ⟨a, b', ha, hf⟩ := bindRC_fst_eq_ok h
  have := h1 _ _ _ ha
  have := h2 a _ _ _ hf
  omega

theorem cons_mapRC (g : α → β) {m : Nat} {rc : RC α} (h : Cons m rc) : Cons m (mapRC g rc) :=
  cons_bindRC h (fun a => cons_pureRC (g a))

theorem cons_takeNC (n : Nat) : Cons n (takeNC n) := by
  intro b v r h
  obtain ⟨hn, _, rfl⟩ := takeN_eq_ok.mp h
  rw [List.length_drop]
  omega

theorem cons_takeAvailC (n : Nat) : Cons n (takeAvailC n) := by
  intro b v r h
  rw [proj_takeAvailC n b] at h
  exact cons_takeNC n b v r h

theorem cons_reqRC (g : Nat → Nat) : Cons 0 (reqRC g) := by
  intro b v r h
  simp only [reqRC_apply, Outcome.ok.injEq, Prod.mk.injEq] at h
  rw [← h.2]
  omega

theorem cons_decRepC {m : Nat} {elem : RC α} (h : Cons m elem) : ∀ n, Cons (n * m) (decRepC elem n)
  | 0 => by rw [Nat.zero_mul]; exact cons_pureRC _
  | n+1 => by
    rw [Nat.succ_mul, Nat.add_comm]
    exact cons_chargeRC _ (cons_bindRC h (fun _ => cons_mapRC _ (cons_decRepC h n)))

theorem cons_optRC {m : Nat} {o : Option α} {k : α → RC β} (h : ∀ a, Cons m (k a)) : Cons m (optRC o k) := by
  cases o with
  | none => exact cons_chargeRC _ (cons_failRC m)
  | some a => exact cons_chargeRC _ (h a)

theorem cons_lenGuardC {m : Nat} (n : Nat) {k : RC α} (h : Cons m k) : Cons m (lenGuardC n k) := by
  unfold lenGuardC
  split
  · exact h
  · exact cons_panicRC m

theorem cons_readScalarC (w : Nat) (e : Endian) : Cons w (readScalarC w e) := cons_mapRC _ (cons_takeNC w)

theorem cons_readFixedC (n : Nat) (pad : UInt8) (left : Bool) : Cons n (readFixedC n pad left) :=
  cons_mapRC _ (cons_takeNC n)

theorem cons_readVstrC (pw : Nat) (e : Endian) : Cons pw (readVstrC pw e) :=
  cons_bindRC (m2 := 0) (cons_readScalarC pw e)
    (fun len => cons_lenGuardC len ((cons_takeAvailC len).mono (Nat.zero_le _)))

theorem cons_readListC (cw : Nat) (e : Endian) (esz : Nat) {elem : RC α} (h : Cons 0 elem) :
    Cons cw (readListC cw e esz elem) :=
  cons_bindRC (m2 := 0) (cons_readScalarC cw e) (fun count => cons_lenGuardC count
    (cons_bindRC (m1 := 0) (m2 := 0) (cons_reqRC _)
      (fun _ => (cons_decRepC h count).mono (Nat.zero_le _))))

theorem cons_newObjC (objSize : Nat → Nat) {dC : Nat → RC Val} {mT : Nat → Nat}
    (h : ∀ ty, Cons (mT ty) (dC ty)) (ty : Nat) : Cons (mT ty) (newObjC objSize dC ty) :=
  cons_chargeRC _ (h ty)

theorem cons_decOpC (env : Env) (objSize : Nat → Nat) {dC : Nat → RC Val} {mT : Nat → Nat}
    (h : ∀ ty, Cons (mT ty) (dC ty)) (acc : List Val) (op : Op) :
    Cons (minSizeOp mT op) (decOpC env objSize dC acc op) := by
  cases op with
  | scalar w e => exact cons_mapRC _ (cons_readScalarC w e)
  | fixed n pad left => exact cons_mapRC _ (cons_readFixedC n _ left)
  | vstr pw e => exact cons_mapRC _ (cons_readVstrC pw e)
  | nums cw w e =>
    exact cons_mapRC _ (cons_readListC cw e w ((cons_readScalarC w e).mono (Nat.zero_le _)))
  | fixeds cw n pad left e =>
    exact cons_mapRC _ (cons_readListC cw e 16 ((cons_readFixedC n _ left).mono (Nat.zero_le _)))
  | vstrs cw pw e =>
    exact cons_mapRC _ (cons_readListC cw e 16 ((cons_readVstrC pw e).mono (Nat.zero_le _)))
  | nested ty g => exact cons_newObjC objSize h ty
  | objs cw ty e =>
    exact cons_mapRC _ (cons_readListC cw e 8 ((cons_newObjC objSize h ty).mono (Nat.zero_le _)))
  | union key tbl g => exact cons_optRC (fun ty => (cons_newObjC objSize h ty).mono (Nat.zero_le _))
  | «opaque» => exact cons_failRC _

theorem cons_decSeqC {step : List Val → Op → RC Val} {ms : Op → Nat}
    (h : ∀ acc op, Cons (ms op) (step acc op)) :
    ∀ ops acc, Cons ((ops.map ms).sum) (decSeqC step ops acc)
  | [], acc => cons_pureRC acc
  | op :: ops, acc => by
    rw [List.map_cons, List.sum_cons]
    exact cons_bindRC (h acc op) (fun v => cons_decSeqC h ops (acc ++ [v]))

/-- a successful decode (with ANY fuel `f`) consumes at least `minSizeTy env f' ty` bytes, for EVERY
    fuel `f'` of the size computation: this is what connects `Env.elemsOK` (stated with `env.fuel`) to
    decoders run with an arbitrary fuel -/
theorem cons_decTyC (env : Env) (objSize : Nat → Nat) :
    ∀ f ty f', Cons (minSizeTy env f' ty) (decTyC env objSize f ty)
  | 0, _, _ => cons_failRC _
  | f+1, ty, f' => by
    rw [decTyC]
    cases htd : env.types[ty]? with
    | none => exact cons_chargeRC _ (cons_failRC _)
    | some td =>
      cases f' with
      | zero =>
        exact (cons_chargeRC _ (cons_mapRC _ (cons_decSeqC (ms := minSizeOp (fun _ => 0))
          (fun acc op => cons_decOpC env objSize (mT := fun _ => 0)
            (fun ty' => cons_decTyC env objSize f ty' 0) acc op) _ _))).mono (Nat.zero_le _)
      | succ k =>
        simp only [minSizeTy, htd]
        exact cons_chargeRC _ (cons_mapRC _ (cons_decSeqC
          (fun acc op => cons_decOpC env objSize (mT := minSizeTy env k)
            (fun ty' => cons_decTyC env objSize f ty' k) acc op) _ _))

/-- nothing is ever "un-read" -/
theorem cons0_decTyC (env : Env) (objSize : Nat → Nat) (f ty : Nat) : Cons 0 (decTyC env objSize f ty) :=
  cons_decTyC env objSize f ty 0

/-! ## 2b. request locality (C10): every single request is bounded by what is present or by a schema constant -/

def listMax (l : List Nat) : Nat := l.foldr max 0

@[simp] theorem listMax_nil : listMax [] = 0 := rfl
@[simp] theorem listMax_cons (x : Nat) (l : List Nat) : listMax (x :: l) = max x (listMax l) := rfl

theorem le_listMax_of_mem {x : Nat} {l : List Nat} (h : x ∈ l) : x ≤ listMax l := by
  induction l with
  | nil => cases h
  | cons y ys ih =>
    rw [listMax_cons]
    rcases List.mem_cons.mp h with rfl | h'
    · exact Nat.le_max_left _ _
    · exact Nat.le_trans (ih h') (Nat.le_max_right _ _)

theorem le_listMax_map {γ : Type} (g : γ → Nat) {a : γ} {l : List γ} (h : a ∈ l) : g a ≤ listMax (l.map g) :=
  le_listMax_of_mem (List.mem_map.mpr ⟨a, h, rfl⟩)

/-- the entries of discriminator table `tbl` -/
def Env.tableEntries (env : Env) (tbl : Nat) : List (Key × Nat) := (env.tables[tbl]?).getD []

theorem lookupKey_mem_C {k : Key} {t : Nat} : ∀ {l : List (Key × Nat)}, lookupKey k l = some t → ∃ k', (k', t) ∈ l
  | [], h => by simp only [lookupKey] at h; cases h
  | (k', t') :: rest, h => by
    simp only [lookupKey] at h
    split at h
    · cases h; exact ⟨k', List.mem_cons_self ..⟩
    · obtain ⟨k'', hm⟩ := lookupKey_mem_C h
      exact ⟨k'', List.mem_cons_of_mem _ hm⟩

/-- a union op can only select a type registered in its table -/
theorem unionTy_mem {env : Env} {key tbl : Nat} {acc : List Val} {ty : Nat}
    (h : unionTy env key tbl acc = some ty) : ∃ k, (k, ty) ∈ env.tableEntries tbl := by
  simp only [unionTy] at h
  obtain ⟨k, _, hk⟩ := Option.bind_eq_some_iff.mp h
  simp only [Env.lookup] at hk
  simp only [Env.tableEntries]
  cases ht : env.tables[tbl]? with
  | none => rw [ht] at hk; cases hk
  | some t =>
    rw [ht] at hk
    obtain ⟨k', hm⟩ := lookupKey_mem_C hk
    exact ⟨k', by simpa using hm⟩

/-- the constant part of the largest request an op can make: its fixed width / prefix width / the
    struct sizes of the objects it constructs -/
def Op.reqConst (env : Env) (objSize : Nat → Nat) : Op → Nat
  | .scalar w _ => w
  | .fixed n _ _ => n
  | .vstr pw _ => pw
  | .nums cw w _ => max cw w
  | .fixeds cw n _ _ _ => max cw n
  | .vstrs cw pw _ => max cw pw
  | .nested ty _ => objSize ty
  | .objs cw ty _ => max cw (objSize ty)
  | .union _ tbl _ => listMax ((env.tableEntries tbl).map (fun kv => objSize kv.2))
  | .opaque => 0

/-- `K`: largest fixed width, largest scalar / prefix width, largest struct size of a constructible type -/
def maxConst (env : Env) (objSize : Nat → Nat) : Nat :=
  listMax (env.types.map (fun td => listMax (td.dec.map (Op.reqConst env objSize))))

/-- bytes per slot of a numeric list (the only slot size that is not an absolute constant) -/
def Op.numW : Op → Nat
  | .nums _ w _ => w
  | _ => 0

/-- largest slot size of any list in the schema (16 = string header) -/
def maxSlot (env : Env) : Nat :=
  max 16 (listMax (env.types.map (fun td => listMax (td.dec.map Op.numW))))

/-- `MR M K rc`: no single request of `rc` exceeds `M ×` the bytes present `+ K` -/
def MR (M K : Nat) (rc : RC α) : Prop :=
  Cons 0 rc ∧ ∀ b, (rc b).2.maxReq ≤ M * b.length + K

theorem MR.mono {M K K' : Nat} {rc : RC α} (h : MR M K rc) (hK : K ≤ K') : MR M K' rc :=
  ⟨h.1, fun b => by have := h.2 b; omega⟩

theorem mr_pureRC (M K : Nat) (a : α) : MR M K (pureRC a) :=
  ⟨cons_pureRC a, fun b => by simp only [pureRC_apply, Cost.zero_maxReq]; omega⟩

theorem mr_failRC (M K : Nat) : MR M K (failRC : RC α) :=
  ⟨cons_failRC 0, fun b => by simp only [failRC_apply, Cost.zero_maxReq]; omega⟩

theorem mr_panicRC (M K : Nat) : MR M K (panicRC : RC α) :=
  ⟨cons_panicRC 0, fun b => by simp only [panicRC_apply, Cost.zero_maxReq]; omega⟩

theorem mr_chargeRC {M K : Nat} {c : Cost} {rc : RC α} (hc : c.maxReq ≤ K) (h : MR M K rc) :
    MR M K (chargeRC c rc) :=
  ⟨cons_chargeRC c h.1, fun b => by
    have := h.2 b
    simp only [chargeRC_apply, Cost.add_maxReq]
    exact Nat.max_le.mpr ⟨by omega, this⟩⟩

theorem mr_bindRC {M K : Nat} {rc : RC α} {f : α → RC β} (h1 : MR M K rc) (h2 : ∀ a, MR M K (f a)) :
    MR M K (bindRC rc f) := by
  refine ⟨cons_bindRC (m1 := 0) (m2 := 0) h1.1 (fun a => (h2 a).1), fun b => ?_⟩
  have g1 := h1.2 b
  cases hr : (rc b).1 with
  | ok p =>
    obtain ⟨a, b'⟩ := p
    rw [bindRC_eq_ok hr]
    have hl := h1.1 b a b' hr
    have g2 := (h2 a).2 b'
    have : M * b'.length ≤ M * b.length := Nat.mul_le_mul_left _ (by omega)
    simp only [Cost.add_maxReq]
    exact Nat.max_le.mpr ⟨g1, by omega⟩
  | err => rw [bindRC_eq_err hr]; exact g1
  | panic => rw [bindRC_eq_panic hr]; exact g1

theorem mr_mapRC {M K : Nat} (g : α → β) {rc : RC α} (h : MR M K rc) : MR M K (mapRC g rc) :=
  mr_bindRC h (fun a => mr_pureRC M K (g a))

theorem mr_takeNC {M K n : Nat} (h : n ≤ K) : MR M K (takeNC n) :=
  ⟨(cons_takeNC n).mono (Nat.zero_le _), fun b => by
    simp only [takeNC_apply, Cost.read]; omega⟩

/-- the repaired `readVstr`: the request is bounded by the bytes PRESENT, whatever the prefix says -/
theorem mr_takeAvailC {M : Nat} (K : Nat) (hM : 1 ≤ M) (n : Nat) : MR M K (takeAvailC n) :=
  ⟨(cons_takeAvailC n).mono (Nat.zero_le _), fun b => by
    rw [takeAvailC_apply]
    have : b.length ≤ M * b.length := Nat.le_mul_of_pos_left _ hM
    split
    · simp only [Cost.read]; omega
    · simp only [Cost.step]; omega⟩

theorem mr_decRepC {M K : Nat} {elem : RC α} (h : MR M K elem) : ∀ n, MR M K (decRepC elem n)
  | 0 => mr_pureRC M K _
  | n+1 => mr_chargeRC (Nat.zero_le _) (mr_bindRC h (fun _ => mr_mapRC _ (mr_decRepC h n)))

theorem mr_optRC {M K : Nat} {o : Option α} {k : α → RC β} (h : ∀ a, MR M K (k a)) : MR M K (optRC o k) := by
  cases o with
  | none => exact mr_chargeRC (Nat.zero_le _) (mr_failRC M K)
  | some a => exact mr_chargeRC (Nat.zero_le _) (h a)

theorem mr_lenGuardC {M K : Nat} (n : Nat) {k : RC α} (h : MR M K k) : MR M K (lenGuardC n k) := by
  unfold lenGuardC
  split
  · exact h
  · exact mr_panicRC M K

theorem mr_readScalarC {M K w : Nat} (h : w ≤ K) (e : Endian) : MR M K (readScalarC w e) :=
  mr_mapRC _ (mr_takeNC h)

theorem mr_readFixedC {M K n : Nat} (h : n ≤ K) (pad : UInt8) (left : Bool) : MR M K (readFixedC n pad left) :=
  mr_mapRC _ (mr_takeNC h)

theorem mr_readVstrC {M K pw : Nat} (hM : 1 ≤ M) (h : pw ≤ K) (e : Endian) : MR M K (readVstrC pw e) :=
  mr_bindRC (mr_readScalarC h e) (fun len => mr_lenGuardC len (mr_takeAvailC K hM len))

/-- the repaired list readers: the capacity request is bounded by the bytes PRESENT times the slot
    size, whatever the count prefix says -/
theorem mr_reqRC_min {M : Nat} (K : Nat) {esz : Nat} (hM : esz ≤ M) (count : Nat) :
    MR M K (reqRC (fun rem => min count rem * esz)) :=
  ⟨cons_reqRC _, fun b => by
    simp only [reqRC_apply, Cost.req]
    have h1 : min count b.length * esz ≤ b.length * esz := Nat.mul_le_mul_right _ (Nat.min_le_right _ _)
    have h2 : b.length * esz ≤ b.length * M := Nat.mul_le_mul_left _ hM
    rw [Nat.mul_comm b.length M] at h2
    omega⟩

theorem mr_readListC {M K cw esz : Nat} (hM : esz ≤ M) (h : cw ≤ K) (e : Endian) {elem : RC α}
    (he : MR M K elem) : MR M K (readListC cw e esz elem) :=
  mr_bindRC (mr_readScalarC h e) (fun count => mr_lenGuardC count
    (mr_bindRC (mr_reqRC_min K hM count) (fun _ => mr_decRepC he count)))

theorem mr_newObjC {M K : Nat} {objSize : Nat → Nat} {dC : Nat → RC Val} (h : ∀ ty, MR M K (dC ty))
    {ty : Nat} (hK : objSize ty ≤ K) : MR M K (newObjC objSize dC ty) :=
  mr_chargeRC hK (h ty)

theorem mr_decOpC {M K : Nat} (env : Env) (objSize : Nat → Nat) {dC : Nat → RC Val}
    (hM : 16 ≤ M) (h : ∀ ty, MR M K (dC ty)) (acc : List Val) {op : Op}
    (hw : op.numW ≤ M) (hK : op.reqConst env objSize ≤ K) :
    MR M K (decOpC env objSize dC acc op) := by
  cases op with
  | scalar w e => exact mr_mapRC _ (mr_readScalarC hK e)
  | fixed n pad left => exact mr_mapRC _ (mr_readFixedC hK _ left)
  | vstr pw e => exact mr_mapRC _ (mr_readVstrC (by omega) hK e)
  | nums cw w e =>
    simp only [Op.reqConst] at hK
    simp only [Op.numW] at hw
    exact mr_mapRC _ (mr_readListC hw (by omega) e (mr_readScalarC (by omega) e))
  | fixeds cw n pad left e =>
    simp only [Op.reqConst] at hK
    exact mr_mapRC _ (mr_readListC hM (by omega) e (mr_readFixedC (by omega) _ left))
  | vstrs cw pw e =>
    simp only [Op.reqConst] at hK
    exact mr_mapRC _ (mr_readListC hM (by omega) e (mr_readVstrC (by omega) (by omega) e))
  | nested ty g => exact mr_newObjC h hK
  | objs cw ty e =>
    simp only [Op.reqConst] at hK
    exact mr_mapRC _ (mr_readListC (by omega) (by omega) e (mr_newObjC h (by omega)))
  | union key tbl g =>
    simp only [Op.reqConst] at hK
    simp only [decOpC]
    cases hu : unionTy env key tbl acc with
    | none => exact mr_chargeRC (Nat.zero_le _) (mr_failRC M K)
    | some ty =>
      obtain ⟨k, hm⟩ := unionTy_mem hu
      have : objSize ty ≤ _ := le_listMax_map (fun kv : Key × Nat => objSize kv.2) hm
      exact mr_chargeRC (Nat.zero_le _) (mr_newObjC h (by omega))
  | «opaque» => exact mr_failRC M K

theorem mr_decSeqC {M K : Nat} {step : List Val → Op → RC Val} :
    ∀ (ops : List Op) (acc : List Val), (∀ acc, ∀ op ∈ ops, MR M K (step acc op)) →
      MR M K (decSeqC step ops acc)
  | [], acc, _ => mr_pureRC M K acc
  | op :: ops, acc, h =>
    mr_bindRC (h acc op (List.mem_cons_self ..))
      (fun v => mr_decSeqC ops (acc ++ [v]) (fun acc' op' hm => h acc' op' (List.mem_cons_of_mem _ hm)))

theorem reqConst_le_maxConst {env : Env} (objSize : Nat → Nat) {td : TyDef} (hm : td ∈ env.types)
    {op : Op} (hop : op ∈ td.dec) : op.reqConst env objSize ≤ maxConst env objSize :=
  Nat.le_trans (le_listMax_map (Op.reqConst env objSize) hop)
    (le_listMax_map (fun td : TyDef => listMax (td.dec.map (Op.reqConst env objSize))) hm)

theorem mr_decTyC {M : Nat} (env : Env) (objSize : Nat → Nat) (hM : 16 ≤ M)
    (hw : ∀ td ∈ env.types, ∀ op ∈ td.dec, Op.numW op ≤ M) :
    ∀ f ty, MR M (maxConst env objSize) (decTyC env objSize f ty)
  | 0, _ => mr_failRC _ _
  | f+1, ty => by
    rw [decTyC]
    cases htd : env.types[ty]? with
    | none => exact mr_chargeRC (Nat.zero_le _) (mr_failRC _ _)
    | some td =>
      have hm : td ∈ env.types := List.mem_of_getElem? htd
      exact mr_chargeRC (Nat.zero_le _) (mr_mapRC _ (mr_decSeqC _ _ (fun acc op hop =>
        mr_decOpC env objSize hM (mr_decTyC env objSize hM hw f) acc (hw td hm op hop)
          (reqConst_le_maxConst objSize hm hop))))

/-- general form: `M` = any bound ≥ 16 on the slot sizes of the numeric lists of the schema -/
theorem decTyC_maxReq_of {M : Nat} (env : Env) (objSize : Nat → Nat) (hM : 16 ≤ M)
    (hw : ∀ td ∈ env.types, ∀ op ∈ td.dec, Op.numW op ≤ M) (f ty : Nat) (b : Bytes) :
    (decTyC env objSize f ty b).2.maxReq ≤ M * b.length + maxConst env objSize :=
  (mr_decTyC env objSize hM hw f ty).2 b

/-- unconditional form, for every environment: the factor is the largest slot size of the schema -/
theorem decTyC_maxReq_slot (env : Env) (objSize : Nat → Nat) (f ty : Nat) (b : Bytes) :
    (decTyC env objSize f ty b).2.maxReq ≤ maxSlot env * b.length + maxConst env objSize :=
  decTyC_maxReq_of env objSize (Nat.le_max_left _ _)
    (fun _ hm _ hop => Nat.le_trans
      (Nat.le_trans (le_listMax_map Op.numW hop)
        (le_listMax_map (fun td : TyDef => listMax (td.dec.map Op.numW)) hm))
      (Nat.le_max_right _ _)) f ty b

theorem widthsOK_numW {env : Env} (hw : env.widthsOK = true) :
    ∀ td ∈ env.types, ∀ op ∈ td.dec, Op.numW op ≤ 16 := by
  intro td hm op hop
  have h1 := (List.all_eq_true.mp hw) td hm
  simp only [Bool.and_eq_true] at h1
  have h2 := (List.all_eq_true.mp h1.1.1) op hop
  cases op with
  | nums cw w e =>
    simp only [Op.widthsOK, Bool.and_eq_true, Bool.or_eq_true, beq_iff_eq] at h2
    simp only [Op.numW]
    omega
  | _ => simp only [Op.numW]; omega

/-- **2. Request locality (C10).**  With the Go widths (numeric elements of at most 8 bytes) every
    single request is at most `16 ×` the bytes actually present plus the schema constant `K`: a length
    or a count read from the wire never drives a request by itself. -/
theorem decTyC_maxReq {env : Env} (objSize : Nat → Nat) (hw : env.widthsOK = true) (f ty : Nat) (b : Bytes) :
    (decTyC env objSize f ty b).2.maxReq ≤ 16 * b.length + maxConst env objSize :=
  decTyC_maxReq_of env objSize (Nat.le_refl _) (widthsOK_numW hw) f ty b

/-! ## 3 / 4. linear time (C09) and linear total allocation (C10)

Both are instances of ONE compositional predicate on the weighted cost `p * steps + q * alloc`
(`(p, q) = (1, 0)`: time, `(0, 1)`: memory).  `Lin p q A D rc` says: the cost of `rc` is at most
`A ×` the bytes it CONSUMED `+ D` when it succeeds, and at most `A ×` the bytes PRESENT `+ D` when it
fails.  Charging the slope `A` against consumed bytes is what makes loops add up linearly. -/

def Lin (p q A D : Nat) (rc : RC α) : Prop :=
  Cons 0 rc ∧ ∀ b, (rc b).2.wt p q ≤ A * b.length + D ∧
    ∀ v r, (rc b).1 = .ok (v, r) → (rc b).2.wt p q + A * r.length ≤ A * b.length + D

theorem Lin.mono {p q A D A' D' : Nat} {rc : RC α} (h : Lin p q A D rc) (hA : A ≤ A') (hD : D ≤ D') :
    Lin p q A' D' rc := by
  obtain ⟨k, rfl⟩ := Nat.exists_eq_add_of_le hA
  refine ⟨h.1, fun b => ?_⟩
  obtain ⟨g1, g2⟩ := h.2 b
  rw [Nat.add_mul]
  refine ⟨by omega, fun v r hr => ?_⟩
  have hl := h.1 b v r hr
  have := g2 v r hr
  have : k * r.length ≤ k * b.length := Nat.mul_le_mul_left _ (by omega)
  rw [Nat.add_mul]
  omega

/-- a reader whose cost is bounded by a constant is `Lin` with any slope -/
theorem lin_of_bound {p q D : Nat} (A : Nat) {rc : RC α} (hc : Cons 0 rc) (h : ∀ b, (rc b).2.wt p q ≤ D) :
    Lin p q A D rc := by
  refine ⟨hc, fun b => ⟨by have := h b; omega, fun v r hr => ?_⟩⟩
  have hl := hc b v r hr
  have := h b
  have : A * r.length ≤ A * b.length := Nat.mul_le_mul_left _ (by omega)
  omega

theorem lin_pureRC (p q A D : Nat) (a : α) : Lin p q A D (pureRC a) :=
  lin_of_bound A (cons_pureRC a) (fun b => by simp only [pureRC_apply, Cost.wt_zero]; omega)

theorem lin_failRC (p q A D : Nat) : Lin p q A D (failRC : RC α) :=
  lin_of_bound A (cons_failRC 0) (fun b => by simp only [failRC_apply, Cost.wt_zero]; omega)

theorem lin_panicRC (p q A D : Nat) : Lin p q A D (panicRC : RC α) :=
  lin_of_bound A (cons_panicRC 0) (fun b => by simp only [panicRC_apply, Cost.wt_zero]; omega)

theorem lin_chargeRC {p q A D w : Nat} {c : Cost} {rc : RC α} (hc : c.wt p q ≤ w) (h : Lin p q A D rc) :
    Lin p q A (w + D) (chargeRC c rc) := by
  refine ⟨cons_chargeRC c h.1, fun b => ?_⟩
  obtain ⟨g1, g2⟩ := h.2 b
  simp only [chargeRC_apply, Cost.wt_add]
  exact ⟨by omega, fun v r hr => by have := g2 v r hr; omega⟩

theorem lin_bindRC {p q A D1 D2 : Nat} {rc : RC α} {f : α → RC β}
    (h1 : Lin p q A D1 rc) (h2 : ∀ a, Lin p q A D2 (f a)) : Lin p q A (D1 + D2) (bindRC rc f) := by
  refine ⟨cons_bindRC (m1 := 0) (m2 := 0) h1.1 (fun a => (h2 a).1), fun b => ?_⟩
  obtain ⟨g1, g2⟩ := h1.2 b
  cases hr : (rc b).1 with
  | ok pr =>
    obtain ⟨a, b'⟩ := pr
    rw [bindRC_eq_ok hr]
    have k2 := g2 a b' hr
    obtain ⟨j1, j2⟩ := (h2 a).2 b'
    simp only [Cost.wt_add]
    exact ⟨by omega, fun v r hv => by have := j2 v r hv; omega⟩
  | err =>
    rw [bindRC_eq_err hr]
    dsimp only
    exact ⟨by omega, fun v r hv => by cases hv⟩
  | panic =>
    rw [bindRC_eq_panic hr]
    dsimp only
    exact ⟨by omega, fun v r hv => by cases hv⟩

theorem lin_mapRC {p q A D : Nat} (g : α → β) {rc : RC α} (h : Lin p q A D rc) : Lin p q A D (mapRC g rc) :=
  lin_bindRC (D2 := 0) h (fun a => lin_pureRC p q A 0 (g a))

theorem lin_takeNC (p q A n : Nat) : Lin p q A (p + q * n) (takeNC n) :=
  lin_of_bound A ((cons_takeNC n).mono (Nat.zero_le _)) (fun b => by
    simp only [takeNC_apply, Cost.wt_read]; omega)

/-- the guarded read pays `q` per byte CONSUMED and a constant otherwise -/
theorem lin_takeAvailC (p q n : Nat) : Lin p q q p (takeAvailC n) := by
  refine ⟨(cons_takeAvailC n).mono (Nat.zero_le _), fun b => ?_⟩
  rw [takeAvailC_apply]
  split
  · rename_i hn
    have h1 : q * n ≤ q * b.length := Nat.mul_le_mul_left _ hn
    simp only [Cost.wt_read]
    refine ⟨by omega, fun v r hr => ?_⟩
    simp only [Outcome.ok.injEq, Prod.mk.injEq] at hr
    rw [← hr.2, List.length_drop]
    have h2 : q * n + q * (b.length - n) = q * b.length := by
      rw [← Nat.mul_add]; congr 1; omega
    omega
  · simp only [Cost.wt_step]
    exact ⟨by omega, fun v r hr => by cases hr⟩

theorem lin_optRC {p q A D : Nat} {o : Option α} {k : α → RC β} (h : ∀ a, Lin p q A D (k a)) :
    Lin p q A (p + D) (optRC o k) := by
  cases o with
  | none => exact lin_chargeRC (by simp) (lin_failRC p q A D)
  | some a => exact lin_chargeRC (by simp) (h a)

theorem lin_lenGuardC {p q A D : Nat} (n : Nat) {k : RC α} (h : Lin p q A D k) : Lin p q A D (lenGuardC n k) := by
  unfold lenGuardC
  split
  · exact h
  · exact lin_panicRC p q A D

/-- **the loop lemma** in its compositional form: if every element costs at most `A ×` what it
    consumes `+ D` and consumes at least one byte when it succeeds, the whole loop (one extra step per
    iteration) costs at most `(A + D + p) ×` what it consumes `+ D + p` — independently of the count `n` -/
theorem lin_decRepC {p q A D : Nat} {elem : RC α} (he : Lin p q A D elem) (hs : Cons 1 elem) :
    ∀ n, Lin p q (A + (D + p)) (D + p) (decRepC elem n)
  | 0 => lin_of_bound _ (cons_pureRC _) (fun b => by simp only [decRepC, pureRC_apply, Cost.wt_zero]; omega)
  | n+1 => by
    have ih : ∀ a, Lin p q (A + (D + p)) (D + p) (mapRC (fun l => a :: l) (decRepC elem n)) :=
      fun a => lin_mapRC _ (lin_decRepC he hs n)
    refine ⟨(cons_decRepC hs (n+1)).mono (Nat.zero_le _), fun b => ?_⟩
    simp only [decRepC, chargeRC_apply]
    obtain ⟨g1, g2⟩ := he.2 b
    have hAb : (A + (D + p)) * b.length = A * b.length + (D + p) * b.length := Nat.add_mul ..
    cases hr : (elem b).1 with
    | ok pr =>
      obtain ⟨a, b1⟩ := pr
      rw [bindRC_eq_ok hr]
      have hl := hs b a b1 hr
      have k2 := g2 a b1 hr
      obtain ⟨j1, j2⟩ := (ih a).2 b1
      have hAb1 : (A + (D + p)) * b1.length = A * b1.length + (D + p) * b1.length := Nat.add_mul ..
      have hstep : (D + p) * b1.length + (D + p) ≤ (D + p) * b.length := by
        have := Nat.mul_le_mul_left (D + p) hl
        rwa [Nat.mul_add, Nat.mul_one] at this
      simp only [Cost.wt_add, Cost.wt_step]
      exact ⟨by omega, fun v r hv => by have := j2 v r hv; omega⟩
    | err =>
      rw [bindRC_eq_err hr]
      simp only [Cost.wt_add, Cost.wt_step]
      exact ⟨by omega, fun v r hv => by cases hv⟩
    | panic =>
      rw [bindRC_eq_panic hr]
      simp only [Cost.wt_add, Cost.wt_step]
      exact ⟨by omega, fun v r hv => by cases hv⟩

/-- capacity request + loop: `min count rem` slots are paid for by the `count` bytes the loop consumes
    when it succeeds, and by the bytes present when it fails -/
theorem lin_listBody {p q A D : Nat} {elem : RC α} (he : Lin p q A D elem) (hs : Cons 1 elem)
    (count esz : Nat) :
    Lin p q (A + (D + p) + q * esz) (D + p)
      (bindRC (reqRC (fun rem => min count rem * esz)) (fun _ => decRepC elem count)) := by
  have hL := lin_decRepC he hs count
  have hC := cons_decRepC hs count
  refine ⟨cons_bindRC (m1 := 0) (m2 := 0) (cons_reqRC _) (fun _ => hL.1), fun b => ?_⟩
  rw [bindRC_eq_ok (a := ()) (b' := b) rfl]
  obtain ⟨g1, g2⟩ := hL.2 b
  simp only [reqRC_apply, Cost.wt_add, Cost.wt_req]
  have e1 : q * (min count b.length * esz) = q * esz * min count b.length := by
    rw [Nat.mul_comm (min count b.length) esz, Nat.mul_assoc]
  have e2 : (A + (D + p) + q * esz) * b.length = (A + (D + p)) * b.length + q * esz * b.length :=
    Nat.add_mul ..
  have h1 : q * esz * min count b.length ≤ q * esz * b.length :=
    Nat.mul_le_mul_left _ (Nat.min_le_right _ _)
  rw [e1, e2]
  refine ⟨by omega, fun v r hv => ?_⟩
  have k2 := g2 v r hv
  have hl := hC b v r hv
  rw [Nat.mul_one] at hl
  have e3 : (A + (D + p) + q * esz) * r.length = (A + (D + p)) * r.length + q * esz * r.length :=
    Nat.add_mul ..
  have h2 : q * esz * (min count b.length + r.length) ≤ q * esz * b.length :=
    Nat.mul_le_mul_left _ (by have := Nat.min_le_left count b.length; omega)
  rw [Nat.mul_add] at h2
  rw [e3]
  omega

theorem lin_readScalarC (p q A w : Nat) (e : Endian) : Lin p q A (p + q * w) (readScalarC w e) :=
  lin_mapRC _ (lin_takeNC p q A w)

theorem lin_readFixedC (p q A n : Nat) (pad : UInt8) (left : Bool) :
    Lin p q A (p + q * n) (readFixedC n pad left) :=
  lin_mapRC _ (lin_takeNC p q A n)

theorem lin_readVstrC (p q pw : Nat) (e : Endian) : Lin p q q ((p + q * pw) + p) (readVstrC pw e) :=
  lin_bindRC (lin_readScalarC p q q pw e) (fun len => lin_lenGuardC len (lin_takeAvailC p q len))

/-- constants of a list reader from the constants `(A, D)` of its element -/
def listC (p q cw esz : Nat) (e : Nat × Nat) : Nat × Nat :=
  (e.1 + (e.2 + p) + q * esz, (p + q * cw) + (e.2 + p))

theorem lin_readListC {p q A D : Nat} {elem : RC α} (he : Lin p q A D elem) (hs : Cons 1 elem)
    (cw : Nat) (e : Endian) (esz : Nat) :
    Lin p q (listC p q cw esz (A, D)).1 (listC p q cw esz (A, D)).2 (readListC cw e esz elem) :=
  lin_bindRC (lin_readScalarC p q _ cw e)
    (fun count => lin_lenGuardC count (lin_listBody he hs count esz))

/-! ### schema constants -/

/-- `(A, D)` of one decode statement; `ow ty` = weighted struct size of type `ty`, `cT` = constants of
    the types it refers to -/
def linOp (p q : Nat) (env : Env) (ow : Nat → Nat) (cT : Nat → Nat × Nat) : Op → Nat × Nat
  | .scalar w _ => (0, p + q * w)
  | .fixed n _ _ => (0, p + q * n)
  | .vstr pw _ => (q, (p + q * pw) + p)
  | .nums cw w _ => listC p q cw w (0, p + q * w)
  | .fixeds cw n _ _ _ => listC p q cw 16 (0, p + q * n)
  | .vstrs cw pw _ => listC p q cw 16 (q, (p + q * pw) + p)
  | .nested ty _ => ((cT ty).1, ow ty + (cT ty).2)
  | .objs cw ty _ => listC p q cw 8 ((cT ty).1, ow ty + (cT ty).2)
  | .union _ tbl _ =>
    (listMax ((env.tableEntries tbl).map (fun kv => (cT kv.2).1)),
     p + listMax ((env.tableEntries tbl).map (fun kv => ow kv.2 + (cT kv.2).2)))
  | .opaque => (0, 0)

/-- `(A, D)` of a type: the largest slope and the sum of the constants of its statements (same
    recursion on fuel as `decTy`) -/
def linTy (p q : Nat) (env : Env) (ow : Nat → Nat) : Nat → Nat → Nat × Nat
  | 0, _ => (0, 0)
  | f+1, ty =>
    match env.types[ty]? with
    | none => (0, p)
    | some td =>
      (listMax (td.dec.map (fun op => (linOp p q env ow (linTy p q env ow f) op).1)),
       p + (td.dec.map (fun op => (linOp p q env ow (linTy p q env ow f) op).2)).sum)

/-- the per-statement content of `Env.elemsOK` -/
def Op.elemOK (env : Env) : Op → Bool
  | .objs _ ty _ => decide (0 < minSizeTy env env.fuel ty)
  | .nums _ w _ => decide (0 < w)
  | .fixeds _ n _ _ _ => decide (0 < n)
  | .vstrs _ pw _ => decide (0 < pw)
  | _ => true

theorem Env.elemsOK_dec {env : Env} (hE : env.elemsOK = true) {td : TyDef} (hm : td ∈ env.types)
    {op : Op} (hop : op ∈ td.dec) : op.elemOK env = true := by
  have h := (List.all_eq_true.mp ((List.all_eq_true.mp hE) td hm)) op hop
  cases op <;> first | exact h | rfl

theorem lin_newObjC {p q : Nat} {objSize ow : Nat → Nat} (how : ∀ ty, q * objSize ty ≤ ow ty)
    {dC : Nat → RC Val} {cT : Nat → Nat × Nat} (h : ∀ ty, Lin p q (cT ty).1 (cT ty).2 (dC ty)) (ty : Nat) :
    Lin p q (cT ty).1 (ow ty + (cT ty).2) (newObjC objSize dC ty) :=
  lin_chargeRC (by simp only [Cost.wt_req]; exact how ty) (h ty)

theorem lin_decOpC {p q : Nat} (env : Env) {objSize ow : Nat → Nat} (how : ∀ ty, q * objSize ty ≤ ow ty)
    {dC : Nat → RC Val} {cT : Nat → Nat × Nat} (h : ∀ ty, Lin p q (cT ty).1 (cT ty).2 (dC ty))
    (hc : ∀ ty f', Cons (minSizeTy env f' ty) (dC ty)) (acc : List Val) {op : Op}
    (hop : op.elemOK env = true) :
    Lin p q (linOp p q env ow cT op).1 (linOp p q env ow cT op).2 (decOpC env objSize dC acc op) := by
  cases op with
  | scalar w e => exact lin_mapRC _ (lin_readScalarC p q 0 w e)
  | fixed n pad left => exact lin_mapRC _ (lin_readFixedC p q 0 n _ left)
  | vstr pw e => exact lin_mapRC _ (lin_readVstrC p q pw e)
  | nums cw w e =>
    simp only [Op.elemOK, decide_eq_true_eq] at hop
    exact lin_mapRC _ (lin_readListC (lin_readScalarC p q 0 w e)
      ((cons_readScalarC w e).mono hop) cw e w)
  | fixeds cw n pad left e =>
    simp only [Op.elemOK, decide_eq_true_eq] at hop
    exact lin_mapRC _ (lin_readListC (lin_readFixedC p q 0 n _ left)
      ((cons_readFixedC n _ left).mono hop) cw e 16)
  | vstrs cw pw e =>
    simp only [Op.elemOK, decide_eq_true_eq] at hop
    exact lin_mapRC _ (lin_readListC (lin_readVstrC p q pw e)
      ((cons_readVstrC pw e).mono hop) cw e 16)
  | nested ty g => exact lin_newObjC how h ty
  | objs cw ty e =>
    simp only [Op.elemOK, decide_eq_true_eq] at hop
    exact lin_mapRC _ (lin_readListC (lin_newObjC how h ty)
      ((cons_chargeRC _ (hc ty env.fuel)).mono hop) cw e 8)
  | union key tbl g =>
    simp only [decOpC, linOp]
    cases hu : unionTy env key tbl acc with
    | none => exact lin_chargeRC (w := p) (by simp) (lin_failRC p q _ _)
    | some ty =>
      obtain ⟨k, hm⟩ := unionTy_mem hu
      have hA := le_listMax_map (fun kv : Key × Nat => (cT kv.2).1) hm
      have hD := le_listMax_map (fun kv : Key × Nat => ow kv.2 + (cT kv.2).2) hm
      exact lin_chargeRC (w := p) (by simp) ((lin_newObjC how h ty).mono hA hD)
  | «opaque» => exact lin_failRC p q 0 0

theorem lin_decSeqC {p q : Nat} {step : List Val → Op → RC Val} {cs : Op → Nat × Nat} :
    ∀ (ops : List Op) (acc : List Val),
      (∀ acc, ∀ op ∈ ops, Lin p q (cs op).1 (cs op).2 (step acc op)) →
      Lin p q (listMax (ops.map (fun op => (cs op).1))) ((ops.map (fun op => (cs op).2)).sum)
        (decSeqC step ops acc)
  | [], acc, _ => lin_pureRC p q _ _ acc
  | op :: ops, acc, h => by
    simp only [List.map_cons, listMax_cons, List.sum_cons]
    exact lin_bindRC
      ((h acc op (List.mem_cons_self ..)).mono (Nat.le_max_left _ _) (Nat.le_refl _))
      (fun v => (lin_decSeqC ops (acc ++ [v])
        (fun acc' op' hm => h acc' op' (List.mem_cons_of_mem _ hm))).mono (Nat.le_max_right _ _) (Nat.le_refl _))

theorem lin_decTyC {p q : Nat} {env : Env} {objSize ow : Nat → Nat} (how : ∀ ty, q * objSize ty ≤ ow ty)
    (hE : env.elemsOK = true) :
    ∀ f ty, Lin p q (linTy p q env ow f ty).1 (linTy p q env ow f ty).2 (decTyC env objSize f ty)
  | 0, _ => lin_failRC p q _ _
  | f+1, ty => by
    rw [decTyC]
    cases htd : env.types[ty]? with
    | none =>
      simp only [linTy, htd]
      exact lin_chargeRC (w := p) (D := 0) (by simp) (lin_failRC p q _ _)
    | some td =>
      have hm : td ∈ env.types := List.mem_of_getElem? htd
      simp only [linTy, htd]
      exact lin_chargeRC (w := p) (by simp) (lin_mapRC _ (lin_decSeqC
        (cs := linOp p q env ow (linTy p q env ow f)) _ _ (fun acc op hop =>
          lin_decOpC env how (lin_decTyC how hE f) (cons_decTyC env objSize f) acc
            (Env.elemsOK_dec hE hm hop))))

/-- the generic linear bound: weighted cost `≤ C * (|b| + 1)` with `C = A + D` -/
def costConst (p q : Nat) (env : Env) (ow : Nat → Nat) (f ty : Nat) : Nat :=
  (linTy p q env ow f ty).1 + (linTy p q env ow f ty).2

theorem decTyC_wt_linear {p q : Nat} {env : Env} {objSize ow : Nat → Nat}
    (how : ∀ ty, q * objSize ty ≤ ow ty) (hE : env.elemsOK = true) (f ty : Nat) (b : Bytes) :
    (decTyC env objSize f ty b).2.wt p q ≤ costConst p q env ow f ty * (b.length + 1) := by
  have h := ((lin_decTyC (p := p) (q := q) how hE f ty).2 b).1
  simp only [costConst, Nat.add_mul, Nat.mul_add, Nat.mul_one]
  omega

/-- `C` of C09: computed from the op counts of the type tree only (no struct sizes, no widths) -/
def stepConst (env : Env) (f ty : Nat) : Nat := costConst 1 0 env (fun _ => 0) f ty

/-- `A` of C10: additionally the widths, slot sizes and struct sizes -/
def allocConst (env : Env) (objSize : Nat → Nat) (f ty : Nat) : Nat := costConst 0 1 env objSize f ty

/-- **3. Linear time (C09).**  For EVERY byte string the decoder executes at most
    `stepConst env f ty * (|b| + 1)` primitive reads and loop iterations: every loop iteration either
    consumes at least one byte or ends the loop.  The hypothesis is `Env.elemsOK` as defined in Checks.lean. -/
theorem decTyC_steps_linear {env : Env} (objSize : Nat → Nat) (hE : env.elemsOK = true) (f ty : Nat) (b : Bytes) :
    (decTyC env objSize f ty b).2.steps ≤ stepConst env f ty * (b.length + 1) := by
  have h := decTyC_wt_linear (p := 1) (q := 0) (objSize := objSize) (ow := fun _ => 0)
    (fun ty => by simp) hE f ty b
  rwa [Cost.wt_one_zero] at h

/-- **4. Total allocation (C10).**  For EVERY byte string the bytes requested from the allocator add up
    to at most `allocConst env objSize f ty * (|b| + 1)`. -/
theorem decTyC_alloc_linear {env : Env} (objSize : Nat → Nat) (hE : env.elemsOK = true) (f ty : Nat) (b : Bytes) :
    (decTyC env objSize f ty b).2.alloc ≤ allocConst env objSize f ty * (b.length + 1) := by
  have h := decTyC_wt_linear (p := 0) (q := 1) (objSize := objSize) (ow := objSize)
    (fun ty => by simp) hE f ty b
  rwa [Cost.wt_zero_one] at h

/-! ## 3'. the loop lemma, spelled out with an explicit iteration counter -/

/-- number of loop bodies `decRepC elem n` executes on `b` (the failing one included) -/
def repIters (elem : RC α) : Nat → Bytes → Nat
  | 0, _ => 0
  | n+1, b =>
    match (elem b).1 with
    | .ok pr => 1 + repIters elem n pr.2
    | _ => 1

/-- **loop lemma**: when each successful element consumes at least one byte, `decRepC elem n` performs
    at most `min n (rem + 1)` iterations — whatever count `n` was read from the wire -/
theorem repIters_le {elem : RC α} (hs : Cons 1 elem) : ∀ n b, repIters elem n b ≤ min n (b.length + 1)
  | 0, b => by simp only [repIters]; omega
  | n+1, b => by
    simp only [repIters]
    cases hr : (elem b).1 with
    | ok pr =>
      obtain ⟨a, b1⟩ := pr
      have hl := hs b a b1 hr
      have ih := repIters_le hs n b1
      simp only
      omega
    | err => simp only; omega
    | panic => simp only; omega

/-- every iteration costs one step plus the element's own steps -/
theorem decRepC_steps_le_iters {elem : RC α} {S : Nat} (hS : ∀ b, (elem b).2.steps ≤ S) :
    ∀ n b, (decRepC elem n b).2.steps ≤ repIters elem n b * (S + 1)
  | 0, b => by simp only [decRepC, pureRC_apply, Cost.zero_steps]; omega
  | n+1, b => by
    simp only [decRepC, chargeRC_apply, repIters]
    have h1 := hS b
    cases hr : (elem b).1 with
    | ok pr =>
      obtain ⟨a, b1⟩ := pr
      rw [bindRC_eq_ok hr]
      have ih := decRepC_steps_le_iters hS n b1
      simp only [Cost.add_steps, mapRC_snd, Cost.step, Nat.add_mul, Nat.one_mul]
      omega
    | err =>
      rw [bindRC_eq_err hr]
      simp only [Cost.add_steps, Cost.step, Nat.one_mul]
      omega
    | panic =>
      rw [bindRC_eq_panic hr]
      simp only [Cost.add_steps, Cost.step, Nat.one_mul]
      omega

/-- the loop lemma in terms of steps: an element reader of bounded cost `S` that consumes ≥ 1 byte per
    success makes the loop cost at most `min n (rem + 1) * (S + 1)` steps -/
theorem decRepC_steps_le {elem : RC α} {S : Nat} (hS : ∀ b, (elem b).2.steps ≤ S) (hs : Cons 1 elem)
    (n : Nat) (b : Bytes) : (decRepC elem n b).2.steps ≤ min n (b.length + 1) * (S + 1) :=
  Nat.le_trans (decRepC_steps_le_iters hS n b) (Nat.mul_le_mul_right _ (repIters_le hs n b))

/-! ## non-vacuity (the pinned environment of the real code) and 5. hostile inputs -/

section Examples
open Pinned

-- the side conditions used above hold on the real schema (kernel-evaluated)
example : Pinned.env.elemsOK = true := by decide +kernel
example : Pinned.env.widthsOK = true := by decide +kernel

-- risk.NewOrder is type 68: four length-prefixed texts with 4-byte big-endian prefixes
example : Pinned.typeNames[68]? = some "risk.NewOrder" := by decide +kernel
example : (Pinned.env.types[68]?).map (·.dec) = some [.vstr 4 .be, .vstr 4 .be, .vstr 4 .be,
    .fixed 1 32 false, .scalar 8 .be, .scalar 8 .be, .fixed 1 32 false, .vstr 4 .be] := by decide +kernel

/-- the hostile input of C10: a 4-byte prefix announcing 0x00fffff0 = 16 777 200 bytes, 3 bytes present -/
private def hostile : Bytes := [0x00, 0xff, 0xff, 0xf0, 0x01, 0x02, 0x03]

-- **5.** it fails after 3 steps having requested 4 bytes in total (binary.Read's scratch for the prefix):
-- no 16 MiB request
example : decTyC Pinned.env (fun _ => 64) 4 68 hostile = (.err, ⟨3, 4, 4⟩) := rfl
example : (decTyC Pinned.env (fun _ => 64) 4 68 hostile).2 = { steps := 3, alloc := 4, maxReq := 4 } := by
  decide +kernel
-- same for a counted list: bse.ReportSynchronization (type 46) = one repeating group with a 2-byte count;
-- count 0xffff with 3 bytes present: capacity for min 65535 3 = 3 pointers is requested, not 65535
example : (decTyC Pinned.env (fun _ => 64) 4 46 [0xff, 0xff, 1, 2, 3]).2 = { steps := 5, alloc := 94, maxReq := 64 } := by
  decide +kernel
example : decTyC Pinned.env (fun _ => 64) 4 46 [0xff, 0xff, 1, 2, 3] = (.err, ⟨5, 94, 64⟩) := rfl

/-- a well-formed bse.PlatformInfo (type 30) with two group entries (from DecLemmas) -/
private def exP : Bytes :=
  [9,0, 2,0, 7,0,0,0, 65,32,32,32,32,32,32,32,32,32,32,32,32,32,32,32,32,32,32,32,
             8,0,0,0, 66,67,32,32,32,32,32,32,32,32,32,32,32,32,32,32,32,32,32,32]
private def exPV : Val :=
  .msg 30 [.num 9, .msgs [.msg 28 [.num 7, .str [65]], .msg 28 [.num 8, .str [66, 67]]]]

-- 1. projection, on a successful decode: same value, and a cost record next to it
example : decTyC Pinned.env (fun _ => 64) 3 30 exP = (.ok (exPV, []), ⟨11, 196, 64⟩) := rfl
example : (decTyC Pinned.env (fun _ => 64) 3 30 exP).1 = decTy Pinned.env 3 30 exP :=
  decTyC_fst Pinned.env (fun _ => 64) 3 30 exP

-- 2. request locality on the real schema, every input; the constant is 200 (largest fixed-width text)
private theorem maxConst_pinned : maxConst Pinned.env (fun _ => 64) = 200 := by decide +kernel
example (b : Bytes) : (decTyC Pinned.env (fun _ => 64) 4 68 b).2.maxReq ≤ 16 * b.length + 200 := by
  have h := decTyC_maxReq (env := Pinned.env) (fun _ => 64) (by decide +kernel) 4 68 b
  rwa [maxConst_pinned] at h
example : maxSlot Pinned.env = 16 := by decide +kernel
/-- the width hypothesis of `decTyC_maxReq` is NECESSARY for the factor 16 (not for locality: see
    `decTyC_maxReq_slot`): with 100-byte numeric slots, 6 bytes of input make a 500-byte request -/
private def wideEnv : Env :=
  { types := [{ nfields := 1, enc := [], dec := [.nums 1 100 .be], frame := none }], tables := [] }
example : wideEnv.widthsOK = false := by decide +kernel
example : maxConst wideEnv (fun _ => 0) = 100 ∧ maxSlot wideEnv = 100 := by decide +kernel
example : (decTyC wideEnv (fun _ => 0) 2 0 [5, 0, 0, 0, 0, 0]).2.maxReq = 500 := by decide +kernel

-- 3. / 4. linear time and allocation on the real schema, every input; the constants are small
private theorem stepConst_68 : stepConst Pinned.env 4 68 = 13 := by decide +kernel
private theorem allocConst_68 : allocConst Pinned.env (fun _ => 64) 4 68 = 35 := by decide +kernel
example (b : Bytes) : (decTyC Pinned.env (fun _ => 64) 4 68 b).2.steps ≤ 13 * (b.length + 1) := by
  have h := decTyC_steps_linear (env := Pinned.env) (fun _ => 64) (by decide +kernel) 4 68 b
  rwa [stepConst_68] at h
example (b : Bytes) : (decTyC Pinned.env (fun _ => 64) 4 68 b).2.alloc ≤ 35 * (b.length + 1) := by
  have h := decTyC_alloc_linear (env := Pinned.env) (fun _ => 64) (by decide +kernel) 4 68 b
  rwa [allocConst_68] at h
-- a type with a repeating group (30): slope 4 steps per byte, 96 allocated bytes per byte at worst
example : linTy 1 0 Pinned.env (fun _ => 0) 4 30 = (4, 7) := by decide +kernel
example : linTy 0 1 Pinned.env (fun _ => 64) 4 30 = (96, 92) := by decide +kernel
private theorem stepConst_30 : stepConst Pinned.env 4 30 = 11 := by decide +kernel
example (b : Bytes) : (decTyC Pinned.env (fun _ => 64) 4 30 b).2.steps ≤ 11 * (b.length + 1) := by
  have h := decTyC_steps_linear (env := Pinned.env) (fun _ => 64) (by decide +kernel) 4 30 b
  rwa [stepConst_30] at h
-- the frame type sse.SseBinary (96) with all its union bodies
example : stepConst Pinned.env 4 96 = 43 := by decide +kernel

-- the loop lemma on a real element reader: an 8-byte scalar costs 1 step and consumes 8 ≥ 1 bytes
example (n : Nat) (b : Bytes) :
    (decRepC (readScalarC 8 .le) n b).2.steps ≤ min n (b.length + 1) * (1 + 1) :=
  decRepC_steps_le (S := 1)
    (fun b => by simp only [readScalarC, mapRC_snd, takeNC_apply, Cost.read]; omega)
    ((cons_readScalarC 8 .le).mono (by omega)) n b

/-- `elemsOK` is NECESSARY: a schema whose repeated element is empty spins `count` times on an empty
    buffer (the 1-byte input `ff` costs 512 steps, `count`-driven, not input-driven) -/
private def badEnv : Env :=
  { types := [{ nfields := 1, enc := [], dec := [.objs 1 1 .be], frame := none },
              { nfields := 0, enc := [], dec := [], frame := none }], tables := [] }
example : badEnv.elemsOK = false := by decide +kernel
example : (decTyC badEnv (fun _ => 0) 3 0 [0xff]).2.steps = 512 := by decide +kernel
example : (decTyC badEnv (fun _ => 0) 3 0 [0x01]).2.steps = 4 := by decide +kernel

end Examples

end FinProto
