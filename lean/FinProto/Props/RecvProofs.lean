/-
  C15: the decode result depends only on the bytes, not on what the receiver held before.
-/
import FinProto.Recv
namespace FinProto

theorem decSeqR_eq (stepR : List Val → Val → Op → R Val) (step : List Val → Op → R Val)
    (h : ∀ acc old op, stepR acc old op = step acc op) (old : Val) :
    ∀ ops acc, decSeqR stepR old ops acc = decSeq step ops acc := by
  intro ops
  induction ops with
  | nil => intro acc; rfl
  | cons op ops ih =>
    intro acc
    simp only [decSeqR, decSeq, h, ih]

/-- the receiver-aware decoder is the plain decoder: the old content is never consulted -/
theorem decTyR_eq (env : Env) : ∀ f ty old, decTyR env f ty old = decTy env f ty := by
  intro f
  induction f with
  | zero => intro ty old; rfl
  | succ f ih =>
    intro ty old
    simp only [decTyR, decTy]
    congr 1
    funext td
    congr 1
    apply decSeqR_eq
    intro acc o op
    cases op <;> simp only [decOpR, decOp, ih]
    · cases o <;> rfl

/-- C15: decoding the same bytes into a fresh receiver and into one holding arbitrary earlier content
    (a previously decoded message, non-empty lists, another body or extension) gives equal results -/
theorem dec_receiver_irrelevant (env : Env) (f ty : Nat) (old old' : Val) (b : Bytes) :
    decTyR env f ty old b = decTyR env f ty old' b := by
  rw [decTyR_eq, decTyR_eq]

example : decTyR ⟨[⟨1, [.scalar 1 .be], [.scalar 1 .be], none⟩], []⟩ 2 0 (.msg 0 [.num 99]) [7] = .ok (.msg 0 [.num 7], []) := by
  rfl

end FinProto
