/-
  Property C16, static-analysis form: a reader body whose returned local is statically clean
  (taint analysis `Prog.retClean`) returns a reference outside the buffer's backing array, hence its
  result is immune to any later mutation of the buffer.  Core Lean only.
-/
import FinProto.Alias
import FinProto.Props.AliasProofs

namespace FinProto.Alias

/-- Invariant of the taint analysis: the buffer exists, and every local that the analysis considers
    clean (`t k = false`) refers to a region other than the buffer's. -/
def TInv (s : State) (t : Nat → Bool) : Prop :=
  s.bufRegion < s.mem.regions.length ∧
    ∀ k r, s.env k = some r → t k = false → r.region ≠ s.bufRegion

theorem TInv.of_initial {s : State} (h : s.Initial) (t : Nat → Bool) : TInv s t :=
  ⟨h.1, fun k r hk => by simp [h.2 k] at hk⟩

/-- Binding `dst` to `r` with new taint `b`: fine as soon as `b = false` implies `r` is not in the
    buffer. -/
theorem TInv.setVar {s : State} {t : Nat → Bool} (h : TInv s t) (dst : Nat) (r : Ref) (b : Bool)
    (hb : b = false → r.region ≠ s.bufRegion) :
    TInv (s.setVar dst r) (fun k => if k = dst then b else t k) := by
  refine ⟨h.1, ?_⟩
  intro k r' hk ht
  simp only [State.setVar] at hk ⊢
  by_cases hkd : k = dst
  · simp only [hkd, if_true] at hk ht
    cases hk
    exact hb ht
  · simp only [hkd, if_false] at hk ht
    exact h.2 k r' hk ht

/-- Allocation keeps the invariant. -/
theorem TInv.alloc {s : State} {t : Nat → Bool} (h : TInv s t) (bs : List UInt8) :
    TInv { s with mem := ⟨s.mem.regions ++ [bs]⟩ } t := by
  refine ⟨?_, h.2⟩
  have := h.1
  simp only [List.length_append, List.length_cons, List.length_nil]
  omega

/-- Overwriting one region keeps the invariant. -/
theorem TInv.set {s : State} {t : Nat → Bool} (h : TInv s t) (i : Nat) (new : List UInt8)
    (off valid : Nat) :
    TInv { s with mem := ⟨s.mem.regions.set i new⟩, off := off, valid := valid } t := by
  refine ⟨?_, h.2⟩
  have := h.1
  simpa using this

/-- Every instruction preserves the invariant, with the taint updated by `taintStep`. -/
theorem step_tinv {i : Instr} {s s' : State} {t : Nat → Bool} (hs : step i s = some s')
    (h : TInv s t) : TInv s' (taintStep i t) := by
  cases i with
  | make dst n =>
      simp only [step, Mem.alloc, Option.some.injEq] at hs
      subst hs
      exact (h.alloc (List.replicate n 0)).setVar dst _ false (fun _ => Nat.ne_of_gt h.1)
  | readFull dst =>
      simp only [step] at hs
      split at hs
      · split at hs
        · split at hs
          · cases hs
            exact h.set _ _ _ _
          · cases hs
        · cases hs
      · cases hs
  | toString dst src =>
      simp only [step, Mem.alloc] at hs
      split at hs
      · split at hs
        · rename_i bs hbs
          cases hs
          exact (h.alloc bs).setVar dst _ false (fun _ => Nat.ne_of_gt h.1)
        · cases hs
      · cases hs
  | sub dst src a b =>
      simp only [step] at hs
      split at hs
      · rename_i r hr
        split at hs
        · cases hs
          exact h.setVar dst _ (t src) (fun ht => h.2 src r hr ht)
        · cases hs
      · cases hs
  | view dst n =>
      simp only [step] at hs
      split at hs
      · split at hs
        · cases hs
          have h' : TInv { s with off := s.off + n } t := ⟨h.1, h.2⟩
          exact h'.setVar dst _ true (fun ht => by cases ht)
        · cases hs
      · cases hs
  | unsafeString dst src =>
      simp only [step] at hs
      split at hs
      · rename_i r hr
        cases hs
        exact h.setVar dst r (t src) (fun ht => h.2 src r hr ht)
      · cases hs
  | write src =>
      simp only [step] at hs
      split at hs
      · split at hs
        · split at hs
          · cases hs
            exact h.set _ _ _ _
          · cases hs
        · cases hs
      · cases hs
  | ret src => simp [step] at hs

/-- Result of a run whose returned local is statically clean w.r.t. the entry taint `t`. -/
theorem run_tinv : ∀ {prog : Prog} {s s' : State} {r : Ref} {t : Nat → Bool},
    run prog s = some (r, s') → retCleanFrom prog t = true → TInv s t →
    s'.bufRegion = s.bufRegion ∧ r.region ≠ s.bufRegion := by
  intro prog
  induction prog with
  | nil => intro s s' r t h; simp [run] at h
  | cons i rest ih =>
      intro s s' r t h hc hinv
      by_cases hret : ∃ src, i = .ret src
      · obtain ⟨src, rfl⟩ := hret
        simp only [run, Option.map_eq_some_iff, Prod.mk.injEq] at h
        obtain ⟨r0, hr0, rfl, rfl⟩ := h
        simp only [retCleanFrom, Bool.not_eq_true'] at hc
        exact ⟨rfl, hinv.2 src _ hr0 hc⟩
      · have hrun : run (i :: rest) s = (step i s).bind (run rest) := by
          cases i <;> first | rfl | exact absurd ⟨_, rfl⟩ hret
        have hcl : retCleanFrom (i :: rest) t = retCleanFrom rest (taintStep i t) := by
          cases i <;> first | rfl | exact absurd ⟨_, rfl⟩ hret
        rw [hrun] at h
        rw [hcl] at hc
        cases hst : step i s with
        | none => simp [hst] at h
        | some s1 =>
            simp only [hst, Option.bind_some] at h
            obtain ⟨hb, hne⟩ := ih h hc (step_tinv hst hinv)
            have hb1 := step_bufRegion hst
            exact ⟨by rw [hb, hb1], by rw [← hb1]; exact hne⟩

/-- the returned reference is not in the buffer's region -/
theorem ret_region_ne_buf {p : Prog} (hp : p.retClean = true) {s s' : State} {r : Ref}
    (hs : s.Initial) (hrun : run p s = some (r, s')) : r.region ≠ s.bufRegion :=
  (run_tinv hrun hp (TInv.of_initial hs _)).2

/-- the buffer's region id is unchanged by a clean run -/
theorem ret_bufRegion_eq {p : Prog} (hp : p.retClean = true) {s s' : State} {r : Ref}
    (hs : s.Initial) (hrun : run p s = some (r, s')) : s'.bufRegion = s.bufRegion :=
  (run_tinv hrun hp (TInv.of_initial hs _)).1

/-- MAIN THEOREM.  If the returned local is statically clean, then whatever the program returns lives outside the buffer's
    backing array: no later mutation `f` of that array changes what the returned reference denotes. -/
theorem decode_immune_clean {p : Prog} (hp : p.retClean = true) {s s' : State} {r : Ref}
    (hs : s.Initial) (hrun : run p s = some (r, s')) (f : List UInt8 → List UInt8) :
    observe (scribble s'.mem s.bufRegion f) r = observe s'.mem r :=
  observe_scribble_ne _ _ _ _ (ret_region_ne_buf hp hs hrun)

/-- Same, phrased with the final state's buffer id. -/
theorem decode_immune_clean' {p : Prog} (hp : p.retClean = true) {s s' : State} {r : Ref}
    (hs : s.Initial) (hrun : run p s = some (r, s')) (f : List UInt8 → List UInt8) :
    observe (scribble s'.mem s'.bufRegion f) r = observe s'.mem r := by
  rw [ret_bufRegion_eq hp hs hrun]; exact decode_immune_clean hp hs hrun f

/-! ### closed facts about the extracted programs -/

theorem progReadString_retClean (len : Nat) : (progReadString len).retClean = true := by
  simp [progReadString, Prog.retClean, retCleanFrom, taintStep]

theorem progReadFixedStringTrimPadding_retClean (n a b : Nat) :
    (progReadFixedStringTrimPadding n a b).retClean = true := by
  simp [progReadFixedStringTrimPadding, Prog.retClean, retCleanFrom, taintStep]

theorem progReadBasicType_retClean (w : Nat) : (progReadBasicType w).retClean = true := by
  simp [progReadBasicType, Prog.retClean, retCleanFrom, taintStep]

theorem progViewString_not_retClean (n : Nat) : (progViewString n).retClean = false := by
  simp [progViewString, Prog.retClean, retCleanFrom, taintStep]

/-- a copy of a view is clean, a sub-slice or unsafe string of a view is not -/
theorem copyOfView_retClean (n : Nat) : Prog.retClean [.view 0 n, .toString 1 0, .ret 1] = true := by
  simp [Prog.retClean, retCleanFrom, taintStep]

theorem subOfView_not_retClean (n a b : Nat) :
    Prog.retClean [.view 0 n, .sub 1 0 a b, .ret 1] = false := by
  simp [Prog.retClean, retCleanFrom, taintStep]

theorem unsafeOfView_not_retClean (n : Nat) :
    Prog.retClean [.view 0 n, .unsafeString 1 0, .ret 1] = false := by
  simp [Prog.retClean, retCleanFrom, taintStep]

/-! ### non-vacuity -/

/-- `string(buf.Next(2))` on the buffer [1,2,3]: the run succeeds and the returned reference is
    outside region 0 (the buffer). -/
example : (run [.view 0 2, .toString 1 0, .ret 1] (State.ofBuffer [1, 2, 3])).isSome = true ∧
    ((run [.view 0 2, .toString 1 0, .ret 1] (State.ofBuffer [1, 2, 3])).map
        (fun p => decide (p.1.region ≠ 0))) = some true := by
  decide

/-- ... it is region 1, showing the copied bytes [1,2], also after the buffer is wiped. -/
example : (run [.view 0 2, .toString 1 0, .ret 1] (State.ofBuffer [1, 2, 3])).map
      (fun p => (p.1, observe p.2.mem p.1, observe (scribble p.2.mem 0 (fun _ => [])) p.1))
    = some (⟨1, 0, 2⟩, some [1, 2], some [1, 2]) := by
  decide

/-- Instantiation of the main theorem on that program (hypotheses satisfiable: examples above). -/
example {r : Ref} {s' : State}
    (h : run [.view 0 2, .toString 1 0, .ret 1] (State.ofBuffer [1, 2, 3]) = some (r, s'))
    (f : List UInt8 → List UInt8) :
    observe (scribble s'.mem 0 f) r = observe s'.mem r :=
  decode_immune_clean (copyOfView_retClean 2) (ofBuffer_initial _ _) h f

end FinProto.Alias
