/-
  Primitive-level lemmas for the codec primitives of `FinProto.Prim`
  (properties C13, C18, C03 and the leaf lemmas of C01 / C07 / C08).
  Proofs only; core Lean only.
-/
import FinProto.Prim
namespace FinProto

/-! ## 1–2. Fixed-width text: `writeFixed` (C13) -/

theorem writeFixed_length (n : Nat) (pad : UInt8) (left : Bool) (s : Bytes) :
    (writeFixed n pad left s).length = n := by
  unfold writeFixed
  split
  · rw [List.length_take]; omega
  · split
    · rw [List.length_append, List.length_replicate]; omega
    · rw [List.length_append, List.length_replicate]; omega

theorem writeFixed_long {n : Nat} {pad : UInt8} {left : Bool} {s : Bytes}
    (h : n < s.length) : writeFixed n pad left s = s.take n := by
  unfold writeFixed
  rw [if_pos h]

theorem writeFixed_short_left {n : Nat} {pad : UInt8} {s : Bytes}
    (h : s.length ≤ n) : writeFixed n pad true s = List.replicate (n - s.length) pad ++ s := by
  unfold writeFixed
  rw [if_neg (by omega)]
  rfl

theorem writeFixed_short_right {n : Nat} {pad : UInt8} {s : Bytes}
    (h : s.length ≤ n) : writeFixed n pad false s = s ++ List.replicate (n - s.length) pad := by
  unfold writeFixed
  rw [if_neg (by omega)]
  rfl

theorem writeFixed_exact {n : Nat} {pad : UInt8} {left : Bool} {s : Bytes}
    (h : s.length = n) : writeFixed n pad left s = s := by
  cases left
  · rw [writeFixed_short_right (by omega), h, Nat.sub_self]; simp
  · rw [writeFixed_short_left (by omega), h, Nat.sub_self]; simp

/-! ## 3. `trimL` / `trimR` remove exactly the maximal run of pad bytes on their side -/

theorem trimL_nil (pad : UInt8) : trimL pad [] = [] := rfl

theorem trimL_cons_pad (pad : UInt8) (bs : Bytes) : trimL pad (pad :: bs) = trimL pad bs := by
  simp only [trimL, if_pos]

theorem trimL_cons_ne {pad b : UInt8} (bs : Bytes) (h : b ≠ pad) :
    trimL pad (b :: bs) = b :: bs := by
  simp only [trimL, if_neg h]

theorem trimL_spec (pad : UInt8) (bs : Bytes) :
    ∃ k, bs = List.replicate k pad ++ trimL pad bs ∧ (trimL pad bs).head? ≠ some pad := by
  induction bs with
  | nil => exact ⟨0, rfl, by simp [trimL]⟩
  | cons b bs ih =>
    obtain ⟨k, h1, h2⟩ := ih
    by_cases hb : b = pad
    · subst hb
      refine ⟨k + 1, ?_, ?_⟩
      · rw [trimL_cons_pad, List.replicate_succ, List.cons_append, ← h1]
      · rw [trimL_cons_pad]; exact h2
    · refine ⟨0, ?_, ?_⟩
      · rw [trimL_cons_ne bs hb]; rfl
      · rw [trimL_cons_ne bs hb]
        simp only [List.head?_cons, ne_eq, Option.some.injEq]
        exact hb

theorem trimR_spec (pad : UInt8) (bs : Bytes) :
    ∃ k, bs = trimR pad bs ++ List.replicate k pad ∧ (trimR pad bs).getLast? ≠ some pad := by
  obtain ⟨k, h1, h2⟩ := trimL_spec pad bs.reverse
  refine ⟨k, ?_, ?_⟩
  · have := congrArg List.reverse h1
    rw [List.reverse_reverse, List.reverse_append, List.reverse_replicate] at this
    exact this
  · unfold trimR
    rw [List.getLast?_reverse]
    exact h2

/-- stripping a run of pad bytes in front of `s` is the same as stripping `s` -/
theorem trimL_replicate_append (pad : UInt8) (k : Nat) (s : Bytes) :
    trimL pad (List.replicate k pad ++ s) = trimL pad s := by
  induction k with
  | zero => rfl
  | succ k ih => rw [List.replicate_succ, List.cons_append, trimL_cons_pad, ih]

/-- a string not starting with the pad byte is untouched -/
theorem trimL_eq_self {pad : UInt8} {s : Bytes} (h : s.head? ≠ some pad) : trimL pad s = s := by
  cases s with
  | nil => rfl
  | cons b bs =>
    apply trimL_cons_ne
    intro hb
    apply h
    rw [hb]; rfl

theorem trimR_append_replicate (pad : UInt8) (k : Nat) (s : Bytes) :
    trimR pad (s ++ List.replicate k pad) = trimR pad s := by
  unfold trimR
  rw [List.reverse_append, List.reverse_replicate, trimL_replicate_append]

theorem trimR_eq_self {pad : UInt8} {s : Bytes} (h : s.getLast? ≠ some pad) : trimR pad s = s := by
  unfold trimR
  rw [trimL_eq_self (by rw [List.head?_reverse]; exact h), List.reverse_reverse]

theorem trimL_length_le (pad : UInt8) (bs : Bytes) : (trimL pad bs).length ≤ bs.length := by
  obtain ⟨k, h1, _⟩ := trimL_spec pad bs
  have := congrArg List.length h1
  rw [List.length_append, List.length_replicate] at this
  omega

theorem trimR_length_le (pad : UInt8) (bs : Bytes) : (trimR pad bs).length ≤ bs.length := by
  obtain ⟨k, h1, _⟩ := trimR_spec pad bs
  have := congrArg List.length h1
  rw [List.length_append, List.length_replicate] at this
  omega

theorem trim_length_le (pad : UInt8) (left : Bool) (bs : Bytes) :
    (trim pad left bs).length ≤ bs.length := by
  unfold trim
  split
  · exact trimL_length_le pad bs
  · exact trimR_length_le pad bs

/-! ## 4. `readFixed` in closed form -/

theorem readFixed_eq (n : Nat) (pad : UInt8) (left : Bool) (b : Bytes) :
    readFixed n pad left b =
      if n ≤ b.length then .ok (trim pad left (b.take n), b.drop n) else .err := by
  simp only [readFixed, mapR, bindR, takeN_def]
  split <;> rfl

/-! ## 5. C01 leaf: a canonical fixed-width string survives write-then-trim -/

/-- Prop form of `fixedCanon` (Checks.lean): fits the field and does not carry the pad byte on the pad side -/
def fixedCanon' (n : Nat) (pad : UInt8) (left : Bool) (s : Bytes) : Prop :=
  s.length ≤ n ∧ (if left then s.head? ≠ some pad else s.getLast? ≠ some pad)

theorem trim_writeFixed {n : Nat} {pad : UInt8} {left : Bool} {s : Bytes}
    (h : fixedCanon' n pad left s) : trim pad left (writeFixed n pad left s) = s := by
  obtain ⟨hlen, hc⟩ := h
  cases left
  · rw [writeFixed_short_right hlen]
    simp only [trim, Bool.false_eq_true, if_false] at hc ⊢
    rw [trimR_append_replicate, trimR_eq_self hc]
  · rw [writeFixed_short_left hlen]
    simp only [trim, if_true] at hc ⊢
    rw [trimL_replicate_append, trimL_eq_self hc]

/-! ## 6. C08 leaf: padding restores exactly the stripped pad bytes -/

theorem writeFixed_trim {n : Nat} {pad : UInt8} {left : Bool} {bs : Bytes}
    (h : bs.length = n) : writeFixed n pad left (trim pad left bs) = bs := by
  cases left
  · simp only [trim, Bool.false_eq_true, if_false]
    obtain ⟨k, h1, _⟩ := trimR_spec pad bs
    have hl := congrArg List.length h1
    rw [List.length_append, List.length_replicate] at hl
    rw [writeFixed_short_right (by omega)]
    have hk : n - (trimR pad bs).length = k := by omega
    rw [hk]
    exact h1.symm
  · simp only [trim, if_true]
    obtain ⟨k, h1, _⟩ := trimL_spec pad bs
    have hl := congrArg List.length h1
    rw [List.length_append, List.length_replicate] at hl
    rw [writeFixed_short_left (by omega)]
    have hk : n - (trimL pad bs).length = k := by omega
    rw [hk]
    exact h1.symm

/-- the decoded text of a fixed field is always canonical for that field -/
theorem fixedCanon'_trim {n : Nat} {pad : UInt8} {left : Bool} {bs : Bytes}
    (h : bs.length = n) : fixedCanon' n pad left (trim pad left bs) := by
  refine ⟨by have := trim_length_le pad left bs; omega, ?_⟩
  cases left
  · simp only [trim, Bool.false_eq_true, if_false]
    exact (trimR_spec pad bs).choose_spec.2
  · simp only [trim, if_true]
    exact (trimL_spec pad bs).choose_spec.2

/-! ## 7. Integers / scalars -/

theorem readScalar_eq (w : Nat) (e : Endian) (b : Bytes) :
    readScalar w e b = if w ≤ b.length then .ok (ofE e (b.take w), b.drop w) else .err := by
  simp only [readScalar, mapR, bindR, takeN_def]
  split <;> rfl

/-- reading a `w`-byte scalar off `c ++ rest` where `c` has exactly `w` bytes -/
theorem readScalar_append {w : Nat} (e : Endian) {c : Bytes} (rest : Bytes) (h : c.length = w) :
    readScalar w e (c ++ rest) = .ok (ofE e c, rest) := by
  rw [readScalar_eq, if_pos (by rw [List.length_append]; omega),
    List.take_left' h, List.drop_left' h]

theorem readScalar_writeScalar {w : Nat} {e : Endian} {n : Nat} {rest : Bytes}
    (h : n < 256 ^ w) : readScalar w e (writeScalar w e n ++ rest) = .ok (n, rest) := by
  unfold writeScalar
  rw [readScalar_append e rest (toE_length e w n), ofE_toE_of_lt e w n h]

theorem readScalar_eq_ok {w : Nat} {e : Endian} {b : Bytes} {n : Nat} {rest : Bytes}
    (h : readScalar w e b = .ok (n, rest)) : b = writeScalar w e n ++ rest ∧ n < 256 ^ w := by
  rw [readScalar_eq] at h
  split at h
  · rename_i hw
    simp only [Outcome.ok.injEq, Prod.mk.injEq] at h
    obtain ⟨hn, hr⟩ := h
    have hlen : (b.take w).length = w := by rw [List.length_take]; omega
    have h1 := toE_ofE e (b.take w)
    have h2 := ofE_lt e (b.take w)
    rw [hlen] at h1 h2
    subst hn hr
    refine ⟨?_, h2⟩
    unfold writeScalar
    rw [h1, List.take_append_drop]
  · cases h

/-! ## 8. Length / count prefixes never wrap (C18) -/

theorem writeLen_ok {w : Nat} {e : Endian} {n : Nat} (h : n < 256 ^ w) :
    writeLen w e n = .ok (toE e w n) := by
  unfold writeLen; rw [if_pos h]

theorem writeLen_err {w : Nat} {e : Endian} {n : Nat} (h : 256 ^ w ≤ n) :
    writeLen w e n = .err := by
  unfold writeLen; rw [if_neg (by omega)]

theorem writeLen_eq_ok {w : Nat} {e : Endian} {n : Nat} {c : Bytes} :
    writeLen w e n = .ok c ↔ n < 256 ^ w ∧ c = toE e w n := by
  unfold writeLen
  split
  · rename_i h
    simp only [Outcome.ok.injEq, h, true_and]
    exact eq_comm
  · rename_i h
    constructor
    · intro h'; cases h'
    · rintro ⟨h', _⟩; exact absurd h' h

/-- the prefix writer never panics -/
theorem writeLen_ne_panic (w : Nat) (e : Endian) (n : Nat) : writeLen w e n ≠ .panic := by
  unfold writeLen; split <;> simp

/-! ## 9–10. `writeVstr`, `writeAll`, `writeList` and instances: failure and closed forms -/

theorem writeVstr_err {pw : Nat} {e : Endian} {s : Bytes} (h : 256 ^ pw ≤ s.length) :
    writeVstr pw e s = .err := by
  unfold writeVstr; rw [writeLen_err h]; rfl

theorem writeVstr_ok {pw : Nat} {e : Endian} {s : Bytes} (h : s.length < 256 ^ pw) :
    writeVstr pw e s = .ok (toE e pw s.length ++ s) := by
  unfold writeVstr; rw [writeLen_ok h]; rfl

theorem writeVstr_eq_ok {pw : Nat} {e : Endian} {s bs : Bytes} :
    writeVstr pw e s = .ok bs ↔ s.length < 256 ^ pw ∧ bs = toE e pw s.length ++ s := by
  by_cases h : s.length < 256 ^ pw
  · rw [writeVstr_ok h]
    simp only [Outcome.ok.injEq, h, true_and]
    exact eq_comm
  · rw [writeVstr_err (by omega)]
    constructor
    · intro h'; cases h'
    · rintro ⟨h', _⟩; exact absurd h' h

theorem writeVstr_ne_panic (pw : Nat) (e : Endian) (s : Bytes) : writeVstr pw e s ≠ .panic := by
  by_cases h : s.length < 256 ^ pw
  · rw [writeVstr_ok h]; simp
  · rw [writeVstr_err (by omega)]; simp

theorem flatMap_congr_mem {α β : Type} {f g : α → List β} {l : List α}
    (h : ∀ a ∈ l, f a = g a) : l.flatMap f = l.flatMap g := by
  induction l with
  | nil => rfl
  | cons a as ih =>
    rw [List.flatMap_cons, List.flatMap_cons, h a (List.mem_cons_self ..),
      ih (fun x hx => h x (List.mem_cons_of_mem _ hx))]

theorem writeAll_nil {α : Type} (f : α → Outcome Bytes) : writeAll f [] = .ok [] := rfl

theorem writeAll_cons {α : Type} (f : α → Outcome Bytes) (a : α) (as : List α) :
    writeAll f (a :: as) = (f a).bind (fun b => (writeAll f as).map (b ++ ·)) := rfl

/-- closed form of `writeAll` when every element of the list is written successfully -/
theorem writeAll_ok {α : Type} {f : α → Outcome Bytes} {g : α → Bytes} {l : List α}
    (h : ∀ a ∈ l, f a = .ok (g a)) : writeAll f l = .ok (l.flatMap g) := by
  induction l with
  | nil => rfl
  | cons a as ih =>
    rw [writeAll_cons, h a (List.mem_cons_self ..), Outcome.bind_ok,
      ih (fun x hx => h x (List.mem_cons_of_mem _ hx)), Outcome.map_ok, List.flatMap_cons]

/-- the first failing element fails the whole list (no element writer panics) -/
theorem writeAll_err {α : Type} {f : α → Outcome Bytes} {l : List α}
    (hnp : ∀ a ∈ l, f a ≠ .panic) (h : ∃ a ∈ l, f a = .err) : writeAll f l = .err := by
  induction l with
  | nil => obtain ⟨a, ha, _⟩ := h; cases ha
  | cons a as ih =>
    rw [writeAll_cons]
    cases hfa : f a with
    | err => rfl
    | panic => exact absurd hfa (hnp a (List.mem_cons_self ..))
    | ok b =>
      rw [Outcome.bind_ok]
      obtain ⟨x, hx, hxe⟩ := h
      rcases List.mem_cons.mp hx with rfl | hx'
      · rw [hfa] at hxe; cases hxe
      · rw [ih (fun y hy => hnp y (List.mem_cons_of_mem _ hy)) ⟨x, hx', hxe⟩]; rfl

/-- inversion of a successful `writeAll`: every element was written, and the output is the concatenation -/
theorem writeAll_eq_ok {α : Type} {f : α → Outcome Bytes} {l : List α} {body : Bytes}
    (h : writeAll f l = .ok body) :
    ∃ g : α → Bytes, (∀ a ∈ l, f a = .ok (g a)) ∧ body = l.flatMap g := by
  induction l generalizing body with
  | nil =>
    rw [writeAll_nil] at h
    simp only [Outcome.ok.injEq] at h
    exact ⟨fun _ => [], fun a ha => (by cases ha), (by rw [← h]; rfl)⟩
  | cons a as ih =>
    rw [writeAll_cons, Outcome.bind_eq_ok] at h
    obtain ⟨b, hb, h⟩ := h
    rw [Outcome.map_eq_ok] at h
    obtain ⟨body', hbody', h⟩ := h
    obtain ⟨g, hg, hg'⟩ := ih hbody'
    classical
    refine ⟨fun x => if f x = .ok b then b else g x, ?_, ?_⟩
    · intro x hx
      by_cases hxb : f x = .ok b
      · simp only [hxb, if_true]
      · simp only [hxb, if_false]
        rcases List.mem_cons.mp hx with rfl | hx'
        · exact absurd hb hxb
        · exact hg x hx'
    · rw [List.flatMap_cons, ← h, hg']
      simp only [hb, if_true]
      congr 1
      apply flatMap_congr_mem
      intro x hx
      by_cases hxb : f x = .ok b
      · simp only [hxb, if_true]
        have := hg x hx
        rw [hxb] at this
        simp only [Outcome.ok.injEq] at this
        exact this.symm
      · simp only [hxb, if_false]

theorem writeList_err {α : Type} {cw : Nat} {e : Endian} {f : α → Outcome Bytes} {l : List α}
    (h : 256 ^ cw ≤ l.length) : writeList cw e f l = .err := by
  unfold writeList; rw [writeLen_err h]; rfl

theorem writeList_eq_ok {α : Type} {cw : Nat} {e : Endian} {f : α → Outcome Bytes} {l : List α}
    {bs : Bytes} :
    writeList cw e f l = .ok bs ↔
      l.length < 256 ^ cw ∧ ∃ body, writeAll f l = .ok body ∧ bs = toE e cw l.length ++ body := by
  unfold writeList
  rw [Outcome.bind_eq_ok]
  constructor
  · rintro ⟨c, hc, h⟩
    rw [writeLen_eq_ok] at hc
    rw [Outcome.map_eq_ok] at h
    obtain ⟨body, hb, h⟩ := h
    exact ⟨hc.1, body, hb, by rw [← h, hc.2]⟩
  · rintro ⟨hl, body, hb, h⟩
    exact ⟨toE e cw l.length, writeLen_ok hl, by rw [hb, h]; rfl⟩

/-- generic closed form of `writeList` -/
theorem writeList_ok {α : Type} {cw : Nat} {e : Endian} {f : α → Outcome Bytes} {g : α → Bytes}
    {l : List α} (hl : l.length < 256 ^ cw) (h : ∀ a ∈ l, f a = .ok (g a)) :
    writeList cw e f l = .ok (toE e cw l.length ++ l.flatMap g) :=
  writeList_eq_ok.mpr ⟨hl, _, writeAll_ok h, rfl⟩

/-- an element that cannot be written fails the list (given no element writer panics) -/
theorem writeList_err_elem {α : Type} {cw : Nat} {e : Endian} {f : α → Outcome Bytes} {l : List α}
    (hnp : ∀ a ∈ l, f a ≠ .panic) (h : ∃ a ∈ l, f a = .err) : writeList cw e f l = .err := by
  unfold writeList
  rw [writeAll_err hnp h]
  cases hc : writeLen cw e l.length with
  | ok c => rfl
  | err => rfl
  | panic => exact absurd hc (writeLen_ne_panic cw e l.length)

theorem writeNums_err {cw w : Nat} {e : Endian} {l : List Nat} (h : 256 ^ cw ≤ l.length) :
    writeNums cw w e l = .err := writeList_err h

theorem writeFixeds_err {cw n : Nat} {pad : UInt8} {left : Bool} {e : Endian} {l : List Bytes}
    (h : 256 ^ cw ≤ l.length) : writeFixeds cw n pad left e l = .err := writeList_err h

theorem writeVstrs_err {cw pw : Nat} {e : Endian} {l : List Bytes} (h : 256 ^ cw ≤ l.length) :
    writeVstrs cw pw e l = .err := writeList_err h

theorem writeVstrs_err_elem {cw pw : Nat} {e : Endian} {l : List Bytes}
    (h : ∃ s ∈ l, 256 ^ pw ≤ s.length) : writeVstrs cw pw e l = .err := by
  obtain ⟨s, hs, hlen⟩ := h
  exact writeList_err_elem (fun a _ => writeVstr_ne_panic pw e a) ⟨s, hs, writeVstr_err hlen⟩

theorem writeNums_ok {cw w : Nat} {e : Endian} {l : List Nat} (h : l.length < 256 ^ cw) :
    writeNums cw w e l = .ok (toE e cw l.length ++ l.flatMap (toE e w)) :=
  writeList_ok (g := toE e w) h (fun _ _ => rfl)

theorem writeFixeds_ok {cw n : Nat} {pad : UInt8} {left : Bool} {e : Endian} {l : List Bytes}
    (h : l.length < 256 ^ cw) :
    writeFixeds cw n pad left e l
      = .ok (toE e cw l.length ++ l.flatMap (writeFixed n pad left)) :=
  writeList_ok (g := writeFixed n pad left) h (fun _ _ => rfl)

theorem writeVstrs_ok {cw pw : Nat} {e : Endian} {l : List Bytes} (h : l.length < 256 ^ cw)
    (hs : ∀ s ∈ l, s.length < 256 ^ pw) :
    writeVstrs cw pw e l
      = .ok (toE e cw l.length ++ l.flatMap (fun s => toE e pw s.length ++ s)) := by
  unfold writeVstrs
  exact writeList_ok (g := fun s => toE e pw s.length ++ s) h
    (fun s hs' => writeVstr_ok (hs s hs'))

/-- inversion: a successful `writeNums` had a representable count -/
theorem writeNums_eq_ok {cw w : Nat} {e : Endian} {l : List Nat} {bs : Bytes} :
    writeNums cw w e l = .ok bs ↔
      l.length < 256 ^ cw ∧ bs = toE e cw l.length ++ l.flatMap (toE e w) := by
  by_cases h : l.length < 256 ^ cw
  · rw [writeNums_ok h]
    simp only [Outcome.ok.injEq, h, true_and]
    exact eq_comm
  · rw [writeNums_err (by omega)]
    constructor
    · intro h'; cases h'
    · rintro ⟨h', _⟩; exact absurd h' h

theorem writeFixeds_eq_ok {cw n : Nat} {pad : UInt8} {left : Bool} {e : Endian} {l : List Bytes}
    {bs : Bytes} :
    writeFixeds cw n pad left e l = .ok bs ↔
      l.length < 256 ^ cw ∧ bs = toE e cw l.length ++ l.flatMap (writeFixed n pad left) := by
  by_cases h : l.length < 256 ^ cw
  · rw [writeFixeds_ok h]
    simp only [Outcome.ok.injEq, h, true_and]
    exact eq_comm
  · rw [writeFixeds_err (by omega)]
    constructor
    · intro h'; cases h'
    · rintro ⟨h', _⟩; exact absurd h' h

/-- inversion: a successful `writeVstrs` had a representable count AND every string representable -/
theorem writeVstrs_eq_ok {cw pw : Nat} {e : Endian} {l : List Bytes} {bs : Bytes} :
    writeVstrs cw pw e l = .ok bs ↔
      l.length < 256 ^ cw ∧ (∀ s ∈ l, s.length < 256 ^ pw) ∧
        bs = toE e cw l.length ++ l.flatMap (fun s => toE e pw s.length ++ s) := by
  by_cases h : l.length < 256 ^ cw
  · by_cases hs : ∀ s ∈ l, s.length < 256 ^ pw
    · rw [writeVstrs_ok h hs]
      simp only [Outcome.ok.injEq, h, true_and]
      constructor
      · intro h'; exact ⟨hs, h'.symm⟩
      · rintro ⟨_, h'⟩; exact h'.symm
    · have : ∃ s ∈ l, 256 ^ pw ≤ s.length := by
        apply Classical.byContradiction
        intro hne
        apply hs
        intro s hsl
        apply Classical.byContradiction
        intro hlt
        exact hne ⟨s, hsl, by omega⟩
      rw [writeVstrs_err_elem this]
      constructor
      · intro h'; cases h'
      · rintro ⟨_, h', _⟩; exact absurd h' hs
  · rw [writeVstrs_err (by omega)]
    constructor
    · intro h'; cases h'
    · rintro ⟨h', _⟩; exact absurd h' h

/-! ### C03: one `Endian` argument drives the count, every element and every length prefix.
    The little-endian output is the big-endian output with each integer's bytes reversed
    (and nothing else changed). -/

theorem flatMap_toE_le (w : Nat) (l : List Nat) :
    l.flatMap (toE .le w) = l.flatMap (fun n => (toE .be w n).reverse) := by
  apply flatMap_congr_mem
  intro n _
  exact toE_le_eq_reverse_be w n

theorem writeNums_le_be {cw w : Nat} {l : List Nat} {a b : Bytes}
    (ha : writeNums cw w .le l = .ok a) (_hb : writeNums cw w .be l = .ok b) :
    a = (toE .be cw l.length).reverse ++ l.flatMap (fun n => (toE .be w n).reverse) := by
  obtain ⟨_, ha⟩ := writeNums_eq_ok.mp ha
  rw [ha, toE_le_eq_reverse_be, flatMap_toE_le]

/-- the same statement phrased on the big-endian output itself: the count prefix of `b` reversed,
    then each element reversed; and `b` is the plain big-endian rendering -/
theorem writeNums_le_be' {cw w : Nat} {l : List Nat} {a b : Bytes}
    (ha : writeNums cw w .le l = .ok a) (hb : writeNums cw w .be l = .ok b) :
    a = (b.take cw).reverse ++ l.flatMap (fun n => (toE .be w n).reverse) ∧
    b.drop cw = l.flatMap (toE .be w) := by
  have h := writeNums_le_be ha hb
  obtain ⟨_, hb⟩ := writeNums_eq_ok.mp hb
  have hlen : (toE .be cw l.length).length = cw := toE_length ..
  rw [hb, List.take_left' hlen, List.drop_left' hlen]
  exact ⟨h, rfl⟩

theorem writeVstr_le_be {pw : Nat} {s a b : Bytes}
    (ha : writeVstr pw .le s = .ok a) (_hb : writeVstr pw .be s = .ok b) :
    a = (toE .be pw s.length).reverse ++ s := by
  obtain ⟨_, ha⟩ := writeVstr_eq_ok.mp ha
  rw [ha, toE_le_eq_reverse_be]

theorem writeVstr_le_be' {pw : Nat} {s a b : Bytes}
    (ha : writeVstr pw .le s = .ok a) (hb : writeVstr pw .be s = .ok b) :
    a = (b.take pw).reverse ++ b.drop pw := by
  have h := writeVstr_le_be ha hb
  obtain ⟨_, hb⟩ := writeVstr_eq_ok.mp hb
  have hlen : (toE .be pw s.length).length = pw := toE_length ..
  rw [hb, List.take_left' hlen, List.drop_left' hlen]
  exact h

theorem writeFixeds_le_be {cw n : Nat} {pad : UInt8} {left : Bool} {l : List Bytes} {a b : Bytes}
    (ha : writeFixeds cw n pad left .le l = .ok a) (_hb : writeFixeds cw n pad left .be l = .ok b) :
    a = (toE .be cw l.length).reverse ++ l.flatMap (writeFixed n pad left) := by
  obtain ⟨_, ha⟩ := writeFixeds_eq_ok.mp ha
  rw [ha, toE_le_eq_reverse_be]

theorem writeFixeds_le_be' {cw n : Nat} {pad : UInt8} {left : Bool} {l : List Bytes} {a b : Bytes}
    (ha : writeFixeds cw n pad left .le l = .ok a) (hb : writeFixeds cw n pad left .be l = .ok b) :
    a = (b.take cw).reverse ++ b.drop cw := by
  have h := writeFixeds_le_be ha hb
  obtain ⟨_, hb⟩ := writeFixeds_eq_ok.mp hb
  have hlen : (toE .be cw l.length).length = cw := toE_length ..
  rw [hb, List.take_left' hlen, List.drop_left' hlen]
  exact h

theorem writeVstrs_le_be {cw pw : Nat} {l : List Bytes} {a b : Bytes}
    (ha : writeVstrs cw pw .le l = .ok a) (_hb : writeVstrs cw pw .be l = .ok b) :
    a = (toE .be cw l.length).reverse
          ++ l.flatMap (fun s => (toE .be pw s.length).reverse ++ s) := by
  obtain ⟨_, _, ha⟩ := writeVstrs_eq_ok.mp ha
  rw [ha, toE_le_eq_reverse_be]
  congr 1
  apply flatMap_congr_mem
  intro s _
  rw [toE_le_eq_reverse_be]

/-- the two byte orders succeed on exactly the same inputs -/
theorem writeNums_le_ok_iff_be_ok {cw w : Nat} {l : List Nat} :
    (∃ a, writeNums cw w .le l = .ok a) ↔ (∃ b, writeNums cw w .be l = .ok b) := by
  constructor
  · rintro ⟨a, ha⟩; exact ⟨_, writeNums_ok (writeNums_eq_ok.mp ha).1⟩
  · rintro ⟨a, ha⟩; exact ⟨_, writeNums_ok (writeNums_eq_ok.mp ha).1⟩

/-! ## 11–12. Read after write (C01 leaves; `rest` arbitrary = C07 at the leaf level) -/

/-- a prefix of at most 7 bytes always passes the `int(t)` sign guard: `256^7 < 2^63` -/
theorem lt_two_pow_63 {w n : Nat} (hw : w ≤ 7) (h : n < 256 ^ w) : n < 2 ^ 63 := by
  have h1 : 256 ^ w ≤ 256 ^ 7 := Nat.pow_le_pow_right (by decide) hw
  have h2 : 256 ^ 7 < 2 ^ 63 := by decide
  omega

theorem lenGuard_pass {α : Type} {n : Nat} (k : R α) (h : n < 2 ^ 63) : lenGuard n k = k := by
  unfold lenGuard; rw [if_pos h]

theorem readVstr_writeVstr {pw : Nat} {e : Endian} {s bs rest : Bytes} (hpw : pw ≤ 7)
    (h : writeVstr pw e s = .ok bs) : readVstr pw e (bs ++ rest) = .ok (s, rest) := by
  obtain ⟨hlen, rfl⟩ := writeVstr_eq_ok.mp h
  unfold readVstr bindR
  rw [List.append_assoc, readScalar_append e (s ++ rest) (toE_length e pw s.length),
    ofE_toE_of_lt e pw s.length hlen, Outcome.bind_ok]
  show lenGuard s.length (takeN s.length) (s ++ rest) = _
  rw [lenGuard_pass _ (lt_two_pow_63 hpw hlen), takeN_append]

/-- running the element reader `l.length` times over the concatenated element encodings -/
theorem decRep_writeAll {α : Type} {f : α → Outcome Bytes} {elem : R α} {l : List α}
    {body rest : Bytes}
    (helem : ∀ a ∈ l, ∀ bs rest, f a = .ok bs → elem (bs ++ rest) = .ok (a, rest))
    (h : writeAll f l = .ok body) : decRep elem l.length (body ++ rest) = .ok (l, rest) := by
  induction l generalizing body with
  | nil =>
    rw [writeAll_nil] at h
    simp only [Outcome.ok.injEq] at h
    subst h
    rfl
  | cons a as ih =>
    rw [writeAll_cons, Outcome.bind_eq_ok] at h
    obtain ⟨b, hb, h⟩ := h
    rw [Outcome.map_eq_ok] at h
    obtain ⟨body', hbody', rfl⟩ := h
    have h1 := helem a (List.mem_cons_self ..) b (body' ++ rest) hb
    have h2 := ih (fun x hx => helem x (List.mem_cons_of_mem _ hx)) hbody'
    show decRep elem (as.length + 1) (b ++ body' ++ rest) = _
    rw [List.append_assoc]
    simp only [decRep, bindR, mapR, h1, Outcome.bind_ok, h2, pureR_apply]

theorem readList_writeList {α : Type} {cw : Nat} {e : Endian} {f : α → Outcome Bytes}
    {elem : R α} {l : List α} {bs rest : Bytes} (hcw : cw ≤ 7)
    (helem : ∀ a ∈ l, ∀ bs rest, f a = .ok bs → elem (bs ++ rest) = .ok (a, rest))
    (h : writeList cw e f l = .ok bs) : readList cw e elem (bs ++ rest) = .ok (l, rest) := by
  obtain ⟨hlen, body, hbody, rfl⟩ := writeList_eq_ok.mp h
  unfold readList bindR
  rw [List.append_assoc, readScalar_append e (body ++ rest) (toE_length e cw l.length),
    ofE_toE_of_lt e cw l.length hlen, Outcome.bind_ok]
  show lenGuard l.length (decRep elem l.length) (body ++ rest) = _
  rw [lenGuard_pass _ (lt_two_pow_63 hcw hlen)]
  exact decRep_writeAll helem hbody

theorem readNums_writeNums {cw w : Nat} {e : Endian} {l : List Nat} {bs rest : Bytes}
    (hcw : cw ≤ 7) (hl : ∀ n ∈ l, n < 256 ^ w) (h : writeNums cw w e l = .ok bs) :
    readNums cw w e (bs ++ rest) = .ok (l, rest) := by
  unfold readNums
  unfold writeNums at h
  refine readList_writeList hcw ?_ h
  intro n hn bs rest hbs
  simp only [Outcome.ok.injEq] at hbs
  subst hbs
  exact readScalar_writeScalar (hl n hn)

/-- leaf form: a canonical fixed string is read back, whatever follows it -/
theorem readFixed_writeFixed {n : Nat} {pad : UInt8} {left : Bool} {s : Bytes} (rest : Bytes)
    (h : fixedCanon' n pad left s) :
    readFixed n pad left (writeFixed n pad left s ++ rest) = .ok (s, rest) := by
  have hlen := writeFixed_length n pad left s
  rw [readFixed_eq, if_pos (by rw [List.length_append]; omega), List.take_left' hlen,
    List.drop_left' hlen, trim_writeFixed h]

theorem readFixeds_writeFixeds {cw n : Nat} {pad : UInt8} {left : Bool} {e : Endian}
    {l : List Bytes} {bs rest : Bytes}
    (hcw : cw ≤ 7) (hl : ∀ s ∈ l, fixedCanon' n pad left s)
    (h : writeFixeds cw n pad left e l = .ok bs) :
    readFixeds cw n pad left e (bs ++ rest) = .ok (l, rest) := by
  unfold readFixeds
  unfold writeFixeds at h
  refine readList_writeList hcw ?_ h
  intro s hs bs rest hbs
  simp only [Outcome.ok.injEq] at hbs
  subst hbs
  exact readFixed_writeFixed rest (hl s hs)

theorem readVstrs_writeVstrs {cw pw : Nat} {e : Endian} {l : List Bytes} {bs rest : Bytes}
    (hcw : cw ≤ 7) (hpw : pw ≤ 7) (h : writeVstrs cw pw e l = .ok bs) :
    readVstrs cw pw e (bs ++ rest) = .ok (l, rest) := by
  unfold readVstrs
  unfold writeVstrs at h
  refine readList_writeList hcw ?_ h
  intro s _ bs rest hbs
  exact readVstr_writeVstr hpw hbs

/-! ## 13–14. Write after read (C08 leaves): the consumed bytes are reproduced exactly -/

theorem lenGuard_eq_ok {α : Type} {n : Nat} {k : R α} {b : Bytes} {v : α} {rest : Bytes}
    (h : lenGuard n k b = .ok (v, rest)) : n < 2 ^ 63 ∧ k b = .ok (v, rest) := by
  unfold lenGuard at h
  split at h
  · exact ⟨by assumption, h⟩
  · cases h

theorem writeVstr_readVstr {pw : Nat} {e : Endian} {b s rest : Bytes}
    (h : readVstr pw e b = .ok (s, rest)) : ∃ c, b = c ++ rest ∧ writeVstr pw e s = .ok c := by
  unfold readVstr at h
  rw [bindR_eq_ok] at h
  obtain ⟨len, b', h1, h2⟩ := h
  obtain ⟨hb, hlen⟩ := readScalar_eq_ok h1
  obtain ⟨_, h2⟩ := lenGuard_eq_ok h2
  obtain ⟨hle, hs, hr⟩ := takeN_eq_ok.mp h2
  have hsl : s.length = len := by rw [hs, List.length_take]; omega
  refine ⟨toE e pw len ++ s, ?_, ?_⟩
  · rw [hb, List.append_assoc, hs, hr, List.take_append_drop]; rfl
  · rw [writeVstr_ok (by omega), hsl]

/-- `decRep` returns exactly `k` elements, and re-writing them reproduces the consumed bytes -/
theorem writeAll_decRep {α : Type} {f : α → Outcome Bytes} {elem : R α}
    (helem : ∀ b a rest, elem b = .ok (a, rest) → ∃ c, b = c ++ rest ∧ f a = .ok c)
    {k : Nat} {b : Bytes} {l : List α} {rest : Bytes}
    (h : decRep elem k b = .ok (l, rest)) :
    l.length = k ∧ ∃ c, b = c ++ rest ∧ writeAll f l = .ok c := by
  induction k generalizing b l with
  | zero =>
    simp only [decRep, pureR_apply, Outcome.ok.injEq, Prod.mk.injEq] at h
    obtain ⟨rfl, rfl⟩ := h
    exact ⟨rfl, [], rfl, rfl⟩
  | succ k ih =>
    simp only [decRep] at h
    rw [bindR_eq_ok] at h
    obtain ⟨a, b', h1, h2⟩ := h
    rw [mapR_eq_ok] at h2
    obtain ⟨l', h2, rfl⟩ := h2
    obtain ⟨c1, hb, hc1⟩ := helem b a b' h1
    obtain ⟨hl', c2, hb', hc2⟩ := ih h2
    refine ⟨by rw [List.length_cons, hl'], c1 ++ c2, ?_, ?_⟩
    · rw [hb, hb', List.append_assoc]
    · rw [writeAll_cons, hc1, Outcome.bind_ok, hc2]; rfl

theorem writeList_readList {α : Type} {cw : Nat} {e : Endian} {f : α → Outcome Bytes}
    {elem : R α} {b : Bytes} {l : List α} {rest : Bytes}
    (helem : ∀ b a rest, elem b = .ok (a, rest) → ∃ c, b = c ++ rest ∧ f a = .ok c)
    (h : readList cw e elem b = .ok (l, rest)) :
    ∃ c, b = c ++ rest ∧ writeList cw e f l = .ok c := by
  unfold readList at h
  rw [bindR_eq_ok] at h
  obtain ⟨count, b', h1, h2⟩ := h
  obtain ⟨hb, hcount⟩ := readScalar_eq_ok h1
  obtain ⟨_, h2⟩ := lenGuard_eq_ok h2
  obtain ⟨hl, c, hb', hc⟩ := writeAll_decRep helem h2
  refine ⟨toE e cw count ++ c, ?_, ?_⟩
  · rw [hb, hb', List.append_assoc]; rfl
  · exact writeList_eq_ok.mpr ⟨by omega, c, hc, by rw [hl]⟩

theorem writeNums_readNums {cw w : Nat} {e : Endian} {b : Bytes} {l : List Nat} {rest : Bytes}
    (h : readNums cw w e b = .ok (l, rest)) :
    ∃ c, b = c ++ rest ∧ writeNums cw w e l = .ok c := by
  unfold readNums at h
  unfold writeNums
  refine writeList_readList ?_ h
  intro b n rest hb
  exact ⟨writeScalar w e n, (readScalar_eq_ok hb).1, rfl⟩

/-- leaf form for fixed text: re-padding the trimmed text reproduces the `n` consumed bytes -/
theorem writeFixed_readFixed {n : Nat} {pad : UInt8} {left : Bool} {b s rest : Bytes}
    (h : readFixed n pad left b = .ok (s, rest)) :
    b = writeFixed n pad left s ++ rest ∧ fixedCanon' n pad left s := by
  rw [readFixed_eq] at h
  split at h
  · rename_i hn
    simp only [Outcome.ok.injEq, Prod.mk.injEq] at h
    obtain ⟨rfl, rfl⟩ := h
    have hlen : (b.take n).length = n := by rw [List.length_take]; omega
    exact ⟨by rw [writeFixed_trim hlen, List.take_append_drop], fixedCanon'_trim hlen⟩
  · cases h

theorem writeFixeds_readFixeds {cw n : Nat} {pad : UInt8} {left : Bool} {e : Endian}
    {b : Bytes} {l : List Bytes} {rest : Bytes}
    (h : readFixeds cw n pad left e b = .ok (l, rest)) :
    ∃ c, b = c ++ rest ∧ writeFixeds cw n pad left e l = .ok c := by
  unfold readFixeds at h
  unfold writeFixeds
  refine writeList_readList ?_ h
  intro b s rest hb
  exact ⟨writeFixed n pad left s, (writeFixed_readFixed hb).1, rfl⟩

theorem writeVstrs_readVstrs {cw pw : Nat} {e : Endian} {b : Bytes} {l : List Bytes}
    {rest : Bytes} (h : readVstrs cw pw e b = .ok (l, rest)) :
    ∃ c, b = c ++ rest ∧ writeVstrs cw pw e l = .ok c := by
  unfold readVstrs at h
  unfold writeVstrs
  refine writeList_readList ?_ h
  intro b s rest hb
  exact writeVstr_readVstr hb

/-! ## Non-vacuity: concrete evaluations and instantiations of the hypotheses -/

example : writeFixed 4 32 true [65] = [32, 32, 32, 65] := by decide
example : writeFixed 4 32 false [65] = [65, 32, 32, 32] := by decide
example : writeFixed 2 32 false [65, 66, 67] = [65, 66] := by decide
example : trimL 32 [32, 32, 65, 32] = [65, 32] := by decide
example : trimR 32 [32, 65, 32, 32] = [32, 65] := by decide
example : fixedCanon' 4 32 true [65, 32] := ⟨by decide, by decide⟩
example : trim 32 true (writeFixed 4 32 true [65, 32]) = [65, 32] :=
  trim_writeFixed ⟨by decide, by decide⟩
example : writeFixed 4 32 true (trim 32 true [32, 32, 65, 32]) = [32, 32, 65, 32] :=
  writeFixed_trim rfl
example : readFixed 4 32 true [32, 32, 32, 65, 9] = .ok ([65], [9]) := by
  rw [readFixed_eq]; decide
example : readScalar 2 .be (writeScalar 2 .be 0x0102 ++ [7]) = .ok (0x0102, [7]) :=
  readScalar_writeScalar (by decide)
example : readScalar 2 .le [2, 1, 7] = .ok (0x0102, [7]) := by rw [readScalar_eq]; decide
example : writeLen 1 .be 255 = .ok [255] := by decide
example : writeLen 1 .be 256 = .err := writeLen_err (by decide)
example : writeVstr 1 .le (List.replicate 256 0) = .err :=
  writeVstr_err (by rw [List.length_replicate]; decide)
example : writeVstr 2 .be [104, 105] = .ok [0, 2, 104, 105] := by decide
example : writeNums 2 2 .le [0x0102] = .ok [1, 0, 2, 1] := by decide
example : writeNums 2 2 .be [0x0102] = .ok [0, 1, 1, 2] := by decide
example : writeNums 0 2 .le [5] = .err := writeNums_err (by decide)
example : writeFixeds 1 3 32 false .be [[65], [66, 67]] = .ok [2, 65, 32, 32, 66, 67, 32] := by
  decide
example : writeVstrs 1 1 .be [[65], []] = .ok [2, 1, 65, 0] := by decide
example : writeVstrs 2 0 .be [[], [65]] = .err := writeVstrs_err_elem ⟨[65], by decide, by decide⟩
example : readVstr 2 .be ([0, 2, 104, 105] ++ [9, 9]) = .ok ([104, 105], [9, 9]) :=
  readVstr_writeVstr (by decide) (by decide)
example : readNums 2 2 .le ([1, 0, 2, 1] ++ [9]) = .ok ([0x0102], [9]) :=
  readNums_writeNums (l := [0x0102]) (by decide) (by decide) (by decide)
example : readFixeds 1 3 32 false .be ([2, 65, 32, 32, 66, 67, 32] ++ [9])
    = .ok ([[65], [66, 67]], [9]) :=
  readFixeds_writeFixeds (l := [[65], [66, 67]]) (by decide)
    (by intro s hs; simp only [List.mem_cons, List.not_mem_nil, or_false] at hs
        rcases hs with rfl | rfl <;> exact ⟨by decide, by decide⟩)
    (by decide)
example : readVstrs 1 1 .be ([2, 1, 65, 0] ++ [9]) = .ok ([[65], []], [9]) :=
  readVstrs_writeVstrs (by decide) (by decide) (by decide)
example : ∃ c, [0, 2, 104, 105, 9] = c ++ [9] ∧ writeVstr 2 .be [104, 105] = .ok c :=
  writeVstr_readVstr (b := [0, 2, 104, 105, 9]) (by
    simp only [readVstr, bindR, readScalar_eq]; decide)
example : ∃ c, [1, 0, 2, 1, 9] = c ++ [9] ∧ writeNums 2 2 .le [0x0102] = .ok c :=
  writeNums_readNums (b := [1, 0, 2, 1, 9]) (by
    simp only [readNums, readList, bindR, readScalar_eq]; decide)
example : ([1, 0, 2, 1] : Bytes)
    = (toE .be 2 [0x0102].length).reverse ++ [0x0102].flatMap (fun n => (toE .be 2 n).reverse) :=
  writeNums_le_be (cw := 2) (w := 2) (l := [0x0102]) (b := [0, 1, 1, 2]) (by decide) (by decide)

end FinProto
