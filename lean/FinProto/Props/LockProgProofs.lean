import FinProto.LockProg
import FinProto.Props.RegistryProofs
/-
  Proofs about the lock-PROGRAM interpreter `PStep` of LockProg.lean (property C19, regenerated
  model).  Everything is for EVERY `ps : Progs` with `wellBracketed ps = true` (items 1, 2) or for
  every `ps` at all (item 3), every reachable state, every interleaving, any number of goroutines.

    5  wellBracketed_pinned; wellBracketed_badRegShared / _badRegSplit / _badRegTwoBrackets (+ examples)
    4  pinned_atomic_reg/_get/_remove/_clear, pinned_atomic, runAtomic_pinned, pinned_linearizable
    1  pmutual_exclusion, pwrite_needs_lock, in_eq_holds
    2  plinearizable
    3  pret_before_inv_lin, preal_time, pret_count_le_lin, pret_mem_lin, pinv_count_eq,
       pthread_projection
       badRegShared_not_linearizable   (the hypothesis `wellBracketed` cannot be dropped)
  Imports RegistryProofs only to reuse `isInvOf`, `invCall`, `retOf`, `snoc_eq_split`,
  `count_single`, `filterMap_single`.  Core Lean only; no Mathlib.
-/

namespace FinProto.Reg

/-! ## 5  the check accepts the pinned programs and rejects broken ones -/

theorem wellBracketed_pinned : wellBracketed pinnedProgs = true := by decide

/-- NEGATIVE: `Registry` doing its check-then-insert under the READ lock -/
def badRegShared : Progs :=
  { pinnedProgs with reg := [.rlock, .deferRUnlock, .ifExistsRetFalse, .store, .retTrue] }

theorem wellBracketed_badRegShared : wellBracketed badRegShared = false := by decide

/-- NEGATIVE: check under the read lock, explicit `mu.RUnlock()` (not expressible as a statement:
    the extractor emits `opaque`), then `Lock` and insert: a split check-then-insert -/
def badRegSplit : Progs :=
  { pinnedProgs with reg := [.rlock, .ifExistsRetFalse, .opaque, .lock, .deferUnlock, .store, .retTrue] }

theorem wellBracketed_badRegSplit : wellBracketed badRegSplit = false := by decide

/-- NEGATIVE: two brackets in one function -/
def badRegTwoBrackets : Progs :=
  { pinnedProgs with
    reg := [.rlock, .deferRUnlock, .ifExistsRetFalse, .lock, .deferUnlock, .store, .retTrue] }

theorem wellBracketed_badRegTwoBrackets : wellBracketed badRegTwoBrackets = false := by decide

/-- NEGATIVE: no lock at all / lock without deferred unlock / unrecognised statement in the body /
    a writing `Get` -/
example : wellBracketed { pinnedProgs with get := [.ifExistsRetLoaded, .retNone] } = false := by decide
example : wellBracketed { pinnedProgs with remove := [.lock, .delete] } = false := by decide
example : wellBracketed { pinnedProgs with clear := [.lock, .deferUnlock, .opaque, .replace] } = false := by
  decide
example : wellBracketed { pinnedProgs with get := [.rlock, .deferRUnlock, .delete, .retNone] } = false := by
  decide
example : wellBracketed { pinnedProgs with remove := [.lock, .deferRUnlock, .delete] } = false := by decide

/-! ## 4  the pinned programs, run atomically, are the map specification -/

theorem pinned_atomic_reg (n : Name) (s : Svc) (m : Map) :
    atomicSem pinnedProgs.reg (.reg n s) m = spec m (.reg n s) := by
  cases h : get m n <;> simp [pinnedProgs, atomicSem, execStmt, spec, keyOf, valOf, h]

theorem pinned_atomic_get (n : Name) (m : Map) :
    atomicSem pinnedProgs.get (.get n) m = spec m (.get n) := by
  cases h : get m n <;> simp [pinnedProgs, atomicSem, execStmt, spec, keyOf, h]

theorem pinned_atomic_remove (n : Name) (m : Map) :
    atomicSem pinnedProgs.remove (.remove n) m = spec m (.remove n) := by
  simp [pinnedProgs, atomicSem, execStmt, spec, keyOf]

theorem pinned_atomic_clear (m : Map) :
    atomicSem pinnedProgs.clear .clear m = spec m .clear := by
  simp [pinnedProgs, atomicSem, execStmt, spec]

theorem pinned_atomic (c : Call) (m : Map) : atomicSem (progOf pinnedProgs c) c m = spec m c := by
  cases c with
  | reg n s => exact pinned_atomic_reg n s m
  | get n => exact pinned_atomic_get n m
  | remove n => exact pinned_atomic_remove n m
  | clear => exact pinned_atomic_clear m

theorem runAtomic_pinned (m : Map) (cs : List Call) : runAtomic pinnedProgs m cs = runSpec m cs := by
  induction cs generalizing m with
  | nil => rfl
  | cons c cs ih => simp [runAtomic, runSpec, pinned_atomic, ih]


/-! ## lemmas about `atomicSem` / `runAtomic` -/

theorem runAtomic_append (ps : Progs) (m : Map) (a b : List Call) :
    runAtomic ps m (a ++ b) =
      ((runAtomic ps (runAtomic ps m a).1 b).1,
        (runAtomic ps m a).2 ++ (runAtomic ps (runAtomic ps m a).1 b).2) := by
  induction a generalizing m with
  | nil => simp [runAtomic]
  | cons c cs ih => simp [runAtomic, ih]

theorem runAtomic_snoc (ps : Progs) (m : Map) (a : List Call) (c : Call) :
    runAtomic ps m (a ++ [c]) =
      ((atomicSem (progOf ps c) c (runAtomic ps m a).1).1,
        (runAtomic ps m a).2 ++ [(atomicSem (progOf ps c) c (runAtomic ps m a).1).2]) := by
  rw [runAtomic_append]; simp [runAtomic]

/-- what a running call will produce if its remaining statements are run atomically from map `m` -/
def fut (c : Call) (rest : Prog) (res : Option Res) (m : Map) : Map × Res :=
  match res with
  | some r => (m, r)
  | none => atomicSem rest c m

/-- a body-statement step does not change what the call will produce -/
theorem fut_stmt (c : Call) (st : Stmt) (rest : Prog) (m : Map) :
    fut c (contRest (execStmt st c m).2 rest) (execStmt st c m).2 (execStmt st c m).1 =
      fut c (st :: rest) none m := by
  cases h : (execStmt st c m).2 <;> simp [fut, atomicSem, contRest, h]

/-- lock statements are skipped by `atomicSem` -/
theorem atomicSem_skip (c : Call) (st : Stmt) (rest : Prog) (m : Map) (h : isLockStmt st = true) :
    atomicSem (st :: rest) c m = atomicSem rest c m := by
  cases st <;> simp [isLockStmt] at h <;> simp [atomicSem, execStmt]

theorem fut_finished {c : Call} {rest : Prog} {res : Option Res} {r : Res} (m : Map)
    (h : finished rest res = some r) : fut c rest res m = (m, r) := by
  cases res with
  | some r' => simp [finished] at h; simp [fut, h]
  | none =>
    cases rest with
    | nil => simp [finished] at h; simp [fut, atomicSem, h]
    | cons _ _ => simp [finished] at h

theorem execStmt_ro (st : Stmt) (c : Call) (m : Map) (h : isRO st = true) : (execStmt st c m).1 = m := by
  cases st <;> simp [isRO, isBody, isWrite, isLockStmt] at h <;> simp [execStmt] <;> split <;> rfl

/-! ## 1  lock discipline -/

/-- the thread is executing a call whose program begins with `lock`, has executed at least that
    first statement, and has not yet performed its deferred unlock: it is "past its `lock`" -/
def wIn (ps : Progs) : TSt → Bool
  | .run c rest _ _ => decide (rest.length < (progOf ps c).length) && ((progOf ps c).head? == some .lock)
  | _ => false

/-- the same for `rlock` -/
def rIn (ps : Progs) : TSt → Bool
  | .run c rest _ _ => decide (rest.length < (progOf ps c).length) && ((progOf ps c).head? == some .rlock)
  | _ => false

theorem wbProg_cases {p : Prog} (h : wbProg p = true) :
    (∃ body, p = .lock :: .deferUnlock :: body ∧ ∀ st ∈ body, isBody st = true) ∨
    (∃ body, p = .rlock :: .deferRUnlock :: body ∧ ∀ st ∈ body, isRO st = true) := by
  unfold wbProg at h
  split at h
  · exact .inl ⟨_, rfl, by simpa [List.all_eq_true] using h⟩
  · exact .inr ⟨_, rfl, by simpa [List.all_eq_true] using h⟩
  · simp at h

theorem wb_progOf {ps : Progs} (h : wellBracketed ps = true) (c : Call) : wbProg (progOf ps c) = true := by
  simp [wellBracketed] at h
  cases c <;> simp [progOf, h]

/-- where a thread is inside its program (the per-thread structural invariant) -/
def TOk (ps : Progs) : TSt → Prop
  | .run c rest pend res =>
    (rest = progOf ps c ∧ pend = .nothing ∧ res = none) ∨
    (∃ body, progOf ps c = .lock :: .deferUnlock :: body ∧
       ((rest = .deferUnlock :: body ∧ pend = .nothing ∧ res = none) ∨ (rest <:+ body ∧ pend = .X))) ∨
    (∃ body, progOf ps c = .rlock :: .deferRUnlock :: body ∧
       ((rest = .deferRUnlock :: body ∧ pend = .nothing ∧ res = none) ∨ (rest <:+ body ∧ pend = .S)))
  | _ => True

/-- the five phases of a running call of a well-bracketed program -/
theorem tok_phase {ps : Progs} {c : Call} {rest : Prog} {pend : Pend} {res : Option Res}
    (hwb : wbProg (progOf ps c) = true) (h : TOk ps (.run c rest pend res)) :
    -- A: about to lock
    (rest = progOf ps c ∧ pend = .nothing ∧ res = none ∧
      wIn ps (.run c rest pend res) = false ∧ rIn ps (.run c rest pend res) = false ∧
      ∃ r', rest = .lock :: .deferUnlock :: r' ∨ rest = .rlock :: .deferRUnlock :: r') ∨
    -- BW: holds the write lock, about to defer
    (∃ body, progOf ps c = .lock :: .deferUnlock :: body ∧ rest = .deferUnlock :: body ∧
      pend = .nothing ∧ res = none ∧
      wIn ps (.run c rest pend res) = true ∧ rIn ps (.run c rest pend res) = false) ∨
    -- CW: holds the write lock, in the body
    (∃ body, progOf ps c = .lock :: .deferUnlock :: body ∧ rest <:+ body ∧ pend = .X ∧
      (∀ st ∈ rest, isBody st = true) ∧
      wIn ps (.run c rest pend res) = true ∧ rIn ps (.run c rest pend res) = false) ∨
    -- BR
    (∃ body, progOf ps c = .rlock :: .deferRUnlock :: body ∧ rest = .deferRUnlock :: body ∧
      pend = .nothing ∧ res = none ∧
      wIn ps (.run c rest pend res) = false ∧ rIn ps (.run c rest pend res) = true) ∨
    -- CR
    (∃ body, progOf ps c = .rlock :: .deferRUnlock :: body ∧ rest <:+ body ∧ pend = .S ∧
      (∀ st ∈ rest, isRO st = true) ∧
      wIn ps (.run c rest pend res) = false ∧ rIn ps (.run c rest pend res) = true) := by
  rcases h with ⟨h1, h2, h3⟩ | ⟨body, hp, h⟩ | ⟨body, hp, h⟩
  · left
    refine ⟨h1, h2, h3, by simp [wIn, h1], by simp [rIn, h1], ?_⟩
    rcases wbProg_cases hwb with ⟨b, hb, _⟩ | ⟨b, hb, _⟩
    · exact ⟨b, .inl (h1.trans hb)⟩
    · exact ⟨b, .inr (h1.trans hb)⟩
  · have hall : ∀ st ∈ body, isBody st = true := by
      rcases wbProg_cases hwb with ⟨b, hb, ha⟩ | ⟨b, hb, _⟩
      · rw [hp] at hb; simp at hb; exact hb ▸ ha
      · rw [hp] at hb; simp at hb
    rcases h with ⟨h1, h2, h3⟩ | ⟨h1, h2⟩
    · right; left
      exact ⟨body, hp, h1, h2, h3, by simp [wIn, h1, hp], by simp [rIn, h1, hp]⟩
    · right; right; left
      have hl := h1.length_le
      refine ⟨body, hp, h1, h2, fun st hst => hall st (h1.subset hst), ?_, ?_⟩
      · simp [wIn, hp]; omega
      · simp [rIn, hp]
  · have hall : ∀ st ∈ body, isRO st = true := by
      rcases wbProg_cases hwb with ⟨b, hb, _⟩ | ⟨b, hb, ha⟩
      · rw [hp] at hb; simp at hb
      · rw [hp] at hb; simp at hb; exact hb ▸ ha
    rcases h with ⟨h1, h2, h3⟩ | ⟨h1, h2⟩
    · right; right; right; left
      exact ⟨body, hp, h1, h2, h3, by simp [wIn, h1, hp], by simp [rIn, h1, hp]⟩
    · right; right; right; right
      have hl := h1.length_le
      refine ⟨body, hp, h1, h2, fun st hst => hall st (h1.subset hst), ?_, ?_⟩
      · simp [wIn, hp]
      · simp [rIn, hp]; omega


theorem tok_lock {ps : Progs} {c : Call} {rest : Prog} {pend : Pend}
    (hwb : wbProg (progOf ps c) = true) (h : TOk ps (.run c (.lock :: rest) pend none)) :
    progOf ps c = .lock :: rest ∧
    wIn ps (.run c (.lock :: rest) pend none) = false ∧ rIn ps (.run c (.lock :: rest) pend none) = false ∧
    TOk ps (.run c rest pend none) ∧
    wIn ps (.run c rest pend none) = true ∧ rIn ps (.run c rest pend none) = false := by
  rcases tok_phase hwb h with ⟨h1, h2, h3, h4, h5, r', h6⟩ | ⟨body, hp, h1, _⟩ | ⟨body, hp, h1, h2, h3, _⟩ |
      ⟨body, hp, h1, _⟩ | ⟨body, hp, h1, h2, h3, _⟩
  · rcases h6 with h6 | h6
    · simp at h6
      refine ⟨h1.symm, h4, h5, ?_, by simp [wIn, ← h1], by simp [rIn, ← h1]⟩
      exact .inr (.inl ⟨r', by rw [← h1, h6], .inl ⟨h6, h2, rfl⟩⟩)
    · simp at h6
  · simp at h1
  · have := h3 .lock (by simp); simp [isBody, isLockStmt] at this
  · simp at h1
  · have := h3 .lock (by simp); simp [isRO, isBody, isLockStmt] at this

theorem tok_rlock {ps : Progs} {c : Call} {rest : Prog} {pend : Pend}
    (hwb : wbProg (progOf ps c) = true) (h : TOk ps (.run c (.rlock :: rest) pend none)) :
    progOf ps c = .rlock :: rest ∧
    wIn ps (.run c (.rlock :: rest) pend none) = false ∧ rIn ps (.run c (.rlock :: rest) pend none) = false ∧
    TOk ps (.run c rest pend none) ∧
    wIn ps (.run c rest pend none) = false ∧ rIn ps (.run c rest pend none) = true := by
  rcases tok_phase hwb h with ⟨h1, h2, h3, h4, h5, r', h6⟩ | ⟨body, hp, h1, _⟩ | ⟨body, hp, h1, h2, h3, _⟩ |
      ⟨body, hp, h1, _⟩ | ⟨body, hp, h1, h2, h3, _⟩
  · rcases h6 with h6 | h6
    · simp at h6
    · simp at h6
      refine ⟨h1.symm, h4, h5, ?_, by simp [wIn, ← h1], by simp [rIn, ← h1]⟩
      exact .inr (.inr ⟨r', by rw [← h1, h6], .inl ⟨h6, h2, rfl⟩⟩)
  · simp at h1
  · have := h3 .rlock (by simp); simp [isBody, isLockStmt] at this
  · simp at h1
  · have := h3 .rlock (by simp); simp [isRO, isBody, isLockStmt] at this

theorem tok_deferUnlock {ps : Progs} {c : Call} {rest : Prog} {pend : Pend}
    (hwb : wbProg (progOf ps c) = true) (h : TOk ps (.run c (.deferUnlock :: rest) pend none)) :
    wIn ps (.run c (.deferUnlock :: rest) pend none) = true ∧
    rIn ps (.run c (.deferUnlock :: rest) pend none) = false ∧
    TOk ps (.run c rest .X none) ∧
    wIn ps (.run c rest .X none) = true ∧ rIn ps (.run c rest .X none) = false := by
  rcases tok_phase hwb h with ⟨h1, h2, h3, h4, h5, r', h6⟩ | ⟨body, hp, h1, _, _, h4, h5⟩ |
      ⟨body, hp, h1, h2, h3, _⟩ | ⟨body, hp, h1, _⟩ | ⟨body, hp, h1, h2, h3, _⟩
  · rcases h6 with h6 | h6 <;> simp at h6
  · simp at h1; subst h1
    exact ⟨h4, h5, .inr (.inl ⟨rest, hp, .inr ⟨List.suffix_refl _, rfl⟩⟩), by simp [wIn, hp]; omega, by simp [rIn, hp]⟩
  · have := h3 .deferUnlock (by simp); simp [isBody, isLockStmt] at this
  · simp at h1
  · have := h3 .deferUnlock (by simp); simp [isRO, isBody, isLockStmt] at this

theorem tok_deferRUnlock {ps : Progs} {c : Call} {rest : Prog} {pend : Pend}
    (hwb : wbProg (progOf ps c) = true) (h : TOk ps (.run c (.deferRUnlock :: rest) pend none)) :
    wIn ps (.run c (.deferRUnlock :: rest) pend none) = false ∧
    rIn ps (.run c (.deferRUnlock :: rest) pend none) = true ∧
    TOk ps (.run c rest .S none) ∧
    wIn ps (.run c rest .S none) = false ∧ rIn ps (.run c rest .S none) = true := by
  rcases tok_phase hwb h with ⟨h1, h2, h3, h4, h5, r', h6⟩ | ⟨body, hp, h1, _⟩ |
      ⟨body, hp, h1, h2, h3, _⟩ | ⟨body, hp, h1, _, _, h4, h5⟩ | ⟨body, hp, h1, h2, h3, _⟩
  · rcases h6 with h6 | h6 <;> simp at h6
  · simp at h1
  · have := h3 .deferRUnlock (by simp); simp [isBody, isLockStmt] at this
  · simp at h1; subst h1
    exact ⟨h4, h5, .inr (.inr ⟨rest, hp, .inr ⟨List.suffix_refl _, rfl⟩⟩), by simp [wIn, hp], by simp [rIn, hp]; omega⟩
  · have := h3 .deferRUnlock (by simp); simp [isRO, isBody, isLockStmt] at this

theorem contRest_suffix (o : Option Res) (rest : Prog) : contRest o rest <:+ rest := by
  cases o <;> simp [contRest]

/-- a body statement is executed only inside the bracket; by a reader only if it is read-only -/
theorem tok_stmt {ps : Progs} {c : Call} {st : Stmt} {rest : Prog} {pend : Pend}
    (hwb : wbProg (progOf ps c) = true) (h : TOk ps (.run c (st :: rest) pend none))
    (hb : isBody st = true) (rest' : Prog) (res' : Option Res) (hs : rest' <:+ rest) :
    TOk ps (.run c rest' pend res') ∧
    wIn ps (.run c rest' pend res') = wIn ps (.run c (st :: rest) pend none) ∧
    rIn ps (.run c rest' pend res') = rIn ps (.run c (st :: rest) pend none) ∧
    ((wIn ps (.run c (st :: rest) pend none) = true ∧ rIn ps (.run c (st :: rest) pend none) = false) ∨
     (wIn ps (.run c (st :: rest) pend none) = false ∧ rIn ps (.run c (st :: rest) pend none) = true ∧
        isRO st = true)) := by
  have hs' : rest' <:+ st :: rest := hs.trans (List.suffix_cons st rest)
  have hlen := hs'.length_le
  rcases tok_phase hwb h with ⟨h1, h2, h3, h4, h5, r', h6⟩ | ⟨body, hp, h1, _⟩ |
      ⟨body, hp, h1, h2, h3, h4, h5⟩ | ⟨body, hp, h1, _⟩ | ⟨body, hp, h1, h2, h3, h4, h5⟩
  · rcases h6 with h6 | h6 <;> simp at h6 <;> simp [h6.1, isBody, isLockStmt] at hb
  · simp at h1; simp [h1.1, isBody, isLockStmt] at hb
  · have hl := h1.length_le
    have hw : wIn ps (.run c rest' pend res') = true := by
      simp [wIn, hp]; simp at hlen hl; omega
    have hr : rIn ps (.run c rest' pend res') = false := by simp [rIn, hp]
    exact ⟨.inr (.inl ⟨body, hp, .inr ⟨hs'.trans h1, h2⟩⟩), by rw [hw, h4], by rw [hr, h5], .inl ⟨h4, h5⟩⟩
  · simp at h1; simp [h1.1, isBody, isLockStmt] at hb
  · have hl := h1.length_le
    have hw : wIn ps (.run c rest' pend res') = false := by simp [wIn, hp]
    have hr : rIn ps (.run c rest' pend res') = true := by
      simp [rIn, hp]; simp at hlen hl; omega
    exact ⟨.inr (.inr ⟨body, hp, .inr ⟨hs'.trans h1, h2⟩⟩), by rw [hw, h4], by rw [hr, h5],
      .inr ⟨h4, h5, h3 st (by simp)⟩⟩

theorem tok_opaque {ps : Progs} {c : Call} {rest : Prog} {pend : Pend} {res : Option Res}
    (hwb : wbProg (progOf ps c) = true) (h : TOk ps (.run c (.opaque :: rest) pend res)) : False := by
  rcases tok_phase hwb h with ⟨h1, h2, h3, h4, h5, r', h6⟩ | ⟨body, hp, h1, _⟩ |
      ⟨body, hp, h1, h2, h3, h4, h5⟩ | ⟨body, hp, h1, _⟩ | ⟨body, hp, h1, h2, h3, h4, h5⟩
  · rcases h6 with h6 | h6 <;> simp at h6
  · simp at h1
  · have := h3 .opaque (by simp); simp [isBody] at this
  · simp at h1
  · have := h3 .opaque (by simp); simp [isRO, isBody] at this

theorem tok_X {ps : Progs} {c : Call} {rest : Prog} {res : Option Res}
    (hwb : wbProg (progOf ps c) = true) (h : TOk ps (.run c rest .X res)) :
    wIn ps (.run c rest .X res) = true ∧ rIn ps (.run c rest .X res) = false := by
  rcases tok_phase hwb h with ⟨_, h2, _⟩ | ⟨_, _, _, h2, _⟩ | ⟨_, _, _, _, _, h4, h5⟩ |
      ⟨_, _, _, h2, _⟩ | ⟨_, _, _, h2, _⟩
  all_goals first | exact ⟨h4, h5⟩ | cases h2

theorem tok_S {ps : Progs} {c : Call} {rest : Prog} {res : Option Res}
    (hwb : wbProg (progOf ps c) = true) (h : TOk ps (.run c rest .S res)) :
    wIn ps (.run c rest .S res) = false ∧ rIn ps (.run c rest .S res) = true := by
  rcases tok_phase hwb h with ⟨_, h2, _⟩ | ⟨_, _, _, h2, _⟩ | ⟨_, _, _, h2, _⟩ |
      ⟨_, _, _, h2, _⟩ | ⟨_, _, _, _, _, h4, h5⟩
  all_goals first | exact ⟨h4, h5⟩ | cases h2

/-- a well-bracketed program never reaches its return sequence without a deferred unlock -/
theorem tok_nothing_finished {ps : Progs} {c : Call} {rest : Prog} {res : Option Res} {r : Res}
    (hwb : wbProg (progOf ps c) = true) (h : TOk ps (.run c rest .nothing res))
    (hf : finished rest res = some r) : False := by
  rcases tok_phase hwb h with ⟨h1, _, h3, _, _, r', h6⟩ | ⟨_, _, h1, _, h3, _⟩ | ⟨_, _, _, h2, _⟩ |
      ⟨_, _, h1, _, h3, _⟩ | ⟨_, _, _, h2, _⟩
  · subst h3; rcases h6 with h6 | h6 <;> simp [h6, finished] at hf
  · subst h3; simp [h1, finished] at hf
  · cases h2
  · subst h3; simp [h1, finished] at hf
  · cases h2


/-- the lock invariant -/
def PLockInv (ps : Progs) (s : PState) : Prop :=
  (s.lock = .free → ∀ u, wIn ps (s.th u) = false ∧ rIn ps (s.th u) = false) ∧
  (∀ t, s.lock = .excl t →
      wIn ps (s.th t) = true ∧ ∀ u, u ≠ t → wIn ps (s.th u) = false ∧ rIn ps (s.th u) = false) ∧
  (∀ ts, s.lock = .shared ts →
      ts.Nodup ∧ ts ≠ [] ∧ (∀ u, rIn ps (s.th u) = true ↔ u ∈ ts) ∧ ∀ u, wIn ps (s.th u) = false)

theorem lock_of_wIn {ps : Progs} {s : PState} (hi : PLockInv ps s) {t : Tid}
    (h : wIn ps (s.th t) = true) : s.lock = .excl t := by
  obtain ⟨hf, hx, hsh⟩ := hi
  cases hl : s.lock with
  | free => have := (hf hl t).1; simp_all
  | excl t' =>
    by_cases e : t = t'
    · rw [e]
    · have := ((hx t' hl).2 t e).1; simp_all
  | shared ts => have := (hsh ts hl).2.2.2 t; simp_all

theorem lock_of_rIn {ps : Progs} {s : PState} (hi : PLockInv ps s) {t : Tid}
    (h : rIn ps (s.th t) = true) : ∃ ts, s.lock = .shared ts ∧ t ∈ ts := by
  obtain ⟨hf, hx, hsh⟩ := hi
  cases hl : s.lock with
  | free => have := (hf hl t).2; simp_all
  | excl t' =>
    by_cases e : t = t'
    · subst e
      have h1 := (hx t hl).1
      cases hth : s.th t <;> simp [hth, wIn, rIn] at h h1
      rw [h1.2] at h; simp at h
    · have := ((hx t' hl).2 t e).2; simp_all
  | shared ts => exact ⟨ts, rfl, ((hsh ts hl).2.2.1 t).1 h⟩

/-! generic updates of one thread -/

theorem plockInv_same {ps : Progs} {s : PState} (hi : PLockInv ps s) (t : Tid) (x : TSt)
    (m : Map) (hh : List Event) (ll : List (Tid × Call × Res))
    (hw : wIn ps x = wIn ps (s.th t)) (hr : rIn ps x = rIn ps (s.th t)) :
    PLockInv ps ⟨s.lock, m, setTh s.th t x, hh, ll⟩ := by
  obtain ⟨hf, hx, hsh⟩ := hi
  refine ⟨?_, ?_, ?_⟩ <;> grind [setTh]

theorem plockInv_acqX {ps : Progs} {s : PState} (hi : PLockInv ps s) (t : Tid) (x : TSt)
    (m : Map) (hh : List Event) (ll : List (Tid × Call × Res))
    (hl : s.lock = .free) (hw : wIn ps x = true) :
    PLockInv ps ⟨.excl t, m, setTh s.th t x, hh, ll⟩ := by
  obtain ⟨hf, hx, hsh⟩ := hi
  refine ⟨?_, ?_, ?_⟩ <;> grind [setTh]

theorem plockInv_acqS_free {ps : Progs} {s : PState} (hi : PLockInv ps s) (t : Tid) (x : TSt)
    (m : Map) (hh : List Event) (ll : List (Tid × Call × Res))
    (hl : s.lock = .free) (hw : wIn ps x = false) (hr : rIn ps x = true) :
    PLockInv ps ⟨.shared [t], m, setTh s.th t x, hh, ll⟩ := by
  obtain ⟨hf, hx, hsh⟩ := hi
  refine ⟨?_, ?_, ?_⟩ <;> grind [setTh]

theorem plockInv_acqS_shared {ps : Progs} {s : PState} (hi : PLockInv ps s) (t : Tid) (x : TSt)
    (m : Map) (hh : List Event) (ll : List (Tid × Call × Res)) (ts : List Tid)
    (hl : s.lock = .shared ts) (hr0 : rIn ps (s.th t) = false)
    (hw : wIn ps x = false) (hr : rIn ps x = true) :
    PLockInv ps ⟨.shared (t :: ts), m, setTh s.th t x, hh, ll⟩ := by
  obtain ⟨hf, hx, hsh⟩ := hi
  refine ⟨?_, ?_, ?_⟩ <;> grind [setTh]

theorem plockInv_relX {ps : Progs} {s : PState} (hi : PLockInv ps s) (t : Tid) (x : TSt)
    (m : Map) (hh : List Event) (ll : List (Tid × Call × Res))
    (hw0 : wIn ps (s.th t) = true) (hw : wIn ps x = false) (hr : rIn ps x = false) :
    PLockInv ps ⟨.free, m, setTh s.th t x, hh, ll⟩ := by
  have hl := lock_of_wIn hi hw0
  obtain ⟨hf, hx, hsh⟩ := hi
  refine ⟨?_, ?_, ?_⟩ <;> grind [setTh]

theorem plockInv_relS {ps : Progs} {s : PState} (hi : PLockInv ps s) (t : Tid) (x : TSt)
    (m : Map) (hh : List Event) (ll : List (Tid × Call × Res)) (ts : List Tid)
    (hl : s.lock = .shared ts) (hw : wIn ps x = false) (hr : rIn ps x = false) :
    PLockInv ps ⟨(if ts.erase t = [] then .free else .shared (ts.erase t)), m, setTh s.th t x, hh, ll⟩ := by
  obtain ⟨hf, hx, hsh⟩ := hi
  obtain ⟨hnd, hne, hiff, hw'⟩ := hsh ts hl
  have hmem : ∀ u, u ∈ ts.erase t ↔ u ≠ t ∧ u ∈ ts := fun u => hnd.mem_erase_iff
  have hnd' : (ts.erase t).Nodup := hnd.erase t
  by_cases he : ts.erase t = []
  · simp only [he, ↓reduceIte]
    refine ⟨?_, ?_, ?_⟩ <;> grind [setTh]
  · simp only [he, ↓reduceIte]
    refine ⟨?_, ?_, ?_⟩ <;> grind [setTh]


/-- the structural invariant: every thread is at a sensible place of its program, and the lock
    word agrees with who is inside -/
def SInv (ps : Progs) (s : PState) : Prop := (∀ t, TOk ps (s.th t)) ∧ PLockInv ps s

theorem sInv_init (ps : Progs) (m0 : Map) : SInv ps (pinit m0) := by
  refine ⟨fun t => by simp [pinit, TOk], ?_⟩
  simp [PLockInv, pinit, wIn, rIn]

theorem tok_setTh {ps : Progs} {th : Tid → TSt} (h : ∀ u, TOk ps (th u)) (t : Tid) (x : TSt)
    (hx : TOk ps x) : ∀ u, TOk ps (setTh th t x u) := by
  intro u
  by_cases e : u = t
  · simp [setTh, e, hx]
  · simp [setTh, e, h u]

theorem sInv_step {ps : Progs} (hwb : wellBracketed ps = true) {s s' : PState}
    (hi : SInv ps s) (hs : PStep ps s s') : SInv ps s' := by
  obtain ⟨htok, hli⟩ := hi
  cases hs with
  | invoke t c h =>
    refine ⟨tok_setTh htok t _ (.inl ⟨rfl, rfl, rfl⟩), plockInv_same hli t _ _ _ _ ?_ ?_⟩ <;>
      simp [h, wIn, rIn]
  | lock t c rest pend h hl =>
    have ht := htok t; rw [h] at ht
    obtain ⟨_, _, _, h4, h5, _⟩ := tok_lock (wb_progOf hwb c) ht
    exact ⟨tok_setTh htok t _ h4, plockInv_acqX hli t _ _ _ _ hl h5⟩
  | rlockFree t c rest pend h hl =>
    have ht := htok t; rw [h] at ht
    obtain ⟨_, _, _, h4, h5, h6⟩ := tok_rlock (wb_progOf hwb c) ht
    exact ⟨tok_setTh htok t _ h4, plockInv_acqS_free hli t _ _ _ _ hl h5 h6⟩
  | rlockShared t c rest pend ts h hl =>
    have ht := htok t; rw [h] at ht
    obtain ⟨_, _, h3, h4, h5, h6⟩ := tok_rlock (wb_progOf hwb c) ht
    exact ⟨tok_setTh htok t _ h4, plockInv_acqS_shared hli t _ _ _ _ ts hl (by rw [h]; exact h3) h5 h6⟩
  | deferUnlock t c rest pend h =>
    have ht := htok t; rw [h] at ht
    obtain ⟨h1, h2, h3, h4, h5⟩ := tok_deferUnlock (wb_progOf hwb c) ht
    exact ⟨tok_setTh htok t _ h3, plockInv_same hli t _ _ _ _ (by rw [h, h1, h4]) (by rw [h, h2, h5])⟩
  | deferRUnlock t c rest pend h =>
    have ht := htok t; rw [h] at ht
    obtain ⟨h1, h2, h3, h4, h5⟩ := tok_deferRUnlock (wb_progOf hwb c) ht
    exact ⟨tok_setTh htok t _ h3, plockInv_same hli t _ _ _ _ (by rw [h, h1, h4]) (by rw [h, h2, h5])⟩
  | stmt t c st rest pend h hb =>
    have ht := htok t; rw [h] at ht
    obtain ⟨h1, h2, h3, _⟩ := tok_stmt (wb_progOf hwb c) ht hb _ (execStmt st c s.mem).2
      (contRest_suffix (execStmt st c s.mem).2 rest)
    exact ⟨tok_setTh htok t _ h1, plockInv_same hli t _ _ _ _ (by rw [h, h2]) (by rw [h, h3])⟩
  | «opaque» t c rest pend m' h =>
    have ht := htok t; rw [h] at ht
    exact (tok_opaque (wb_progOf hwb c) ht).elim
  | unlock t c rest res r h hf =>
    have ht := htok t; rw [h] at ht
    obtain ⟨h1, _⟩ := tok_X (wb_progOf hwb c) ht
    exact ⟨tok_setTh htok t _ trivial, plockInv_relX hli t _ _ _ _ (by rw [h]; exact h1) rfl rfl⟩
  | runlock t c rest res r ts h hf hl =>
    exact ⟨tok_setTh htok t _ trivial, plockInv_relS hli t _ _ _ _ ts hl rfl rfl⟩
  | finishNoDefer t c rest res r h hf =>
    have ht := htok t; rw [h] at ht
    exact (tok_nothing_finished (wb_progOf hwb c) ht hf).elim
  | «return» t c r h =>
    refine ⟨tok_setTh htok t _ trivial, plockInv_same hli t _ _ _ _ ?_ ?_⟩ <;> simp [h, wIn, rIn]

theorem sInv_reachable {ps : Progs} (hwb : wellBracketed ps = true) {m0 : Map} {s : PState}
    (h : PReachable ps m0 s) : SInv ps s := by
  induction h with
  | init => exact sInv_init ps m0
  | step _ hs ih => exact sInv_step hwb ih hs


/-- **1** lock discipline / mutual exclusion, for every reachable state of every interleaving of
    every well-bracketed set of programs. -/
theorem pmutual_exclusion {ps : Progs} (hwb : wellBracketed ps = true) {m0 : Map} {s : PState}
    (h : PReachable ps m0 s) :
    -- a thread past its `lock` owns the lock exclusively; nobody else is inside
    (∀ t, wIn ps (s.th t) = true →
        s.lock = .excl t ∧ ∀ u, u ≠ t → wIn ps (s.th u) = false ∧ rIn ps (s.th u) = false) ∧
    -- a thread past its `rlock` is a registered reader; the threads past `rlock` are exactly the
    -- registered readers (no duplicates), and no writer is inside
    (∀ t, rIn ps (s.th t) = true →
        ∃ ts, s.lock = .shared ts ∧ t ∈ ts ∧ ts.Nodup ∧
          (∀ u, rIn ps (s.th u) = true ↔ u ∈ ts) ∧ ∀ u, wIn ps (s.th u) = false) ∧
    -- a free lock means nobody is inside; a held lock is held by somebody who is inside
    (s.lock = .free → ∀ u, wIn ps (s.th u) = false ∧ rIn ps (s.th u) = false) ∧
    (∀ t, s.lock = .excl t → wIn ps (s.th t) = true) ∧
    (∀ ts, s.lock = .shared ts → ts ≠ [] ∧ ts.Nodup ∧ ∀ u, u ∈ ts → rIn ps (s.th u) = true) := by
  have hi := (sInv_reachable hwb h).2
  refine ⟨?_, ?_, hi.1, fun t hl => (hi.2.1 t hl).1, ?_⟩
  · intro t ht
    have hl := lock_of_wIn hi ht
    exact ⟨hl, (hi.2.1 t hl).2⟩
  · intro t ht
    obtain ⟨ts, hl, hm⟩ := lock_of_rIn hi ht
    obtain ⟨a, _, c, d⟩ := hi.2.2 ts hl
    exact ⟨ts, hl, hm, a, c, d⟩
  · intro ts hl
    obtain ⟨a, b, c, _⟩ := hi.2.2 ts hl
    exact ⟨b, a, fun u hu => (c u).2 hu⟩

/-- data-race freedom, write side: the map changes only in a step of the thread that holds the
    exclusive lock (and is past its `lock`). -/
theorem pwrite_needs_lock {ps : Progs} (hwb : wellBracketed ps = true) {m0 : Map} {s s' : PState}
    (h : PReachable ps m0 s) (hs : PStep ps s s') (hm : s'.mem ≠ s.mem) :
    ∃ t, s.lock = .excl t ∧ wIn ps (s.th t) = true ∧ s'.th t ≠ s.th t ∧
      ∀ u, u ≠ t → s'.th u = s.th u := by
  obtain ⟨htok, hli⟩ := sInv_reachable hwb h
  cases hs with
  | stmt t c st rest pend hp hb =>
    have ht := htok t; rw [hp] at ht
    obtain ⟨_, _, _, h4⟩ := tok_stmt (wb_progOf hwb c) ht hb rest none (List.suffix_refl _)
    rcases h4 with ⟨hw, _⟩ | ⟨_, _, hro⟩
    · rw [← hp] at hw
      refine ⟨t, lock_of_wIn hli hw, hw, ?_, fun u hu => by simp [setTh, hu]⟩
      simp only [setTh, ↓reduceIte, hp]
      intro e
      injection e with _ e _ _
      have := (contRest_suffix (execStmt st c s.mem).2 rest).length_le
      rw [e] at this; simp at this; omega
    · exact absurd (execStmt_ro st c s.mem hro) hm
  | «opaque» t c rest pend m' hp =>
    have ht := htok t; rw [hp] at ht
    exact (tok_opaque (wb_progOf hwb c) ht).elim
  | _ => exact absurd rfl hm

/-! ## 2  linearizability -/

def pcalls (s : PState) : List Call := s.lin.map (fun x => x.2.1)
def presults (s : PState) : List Res := s.lin.map (fun x => x.2.2)
/-- the state of the atomic map after the calls linearised so far -/
def pspecState (ps : Progs) (m0 : Map) (s : PState) : Map := (runAtomic ps m0 (pcalls s)).1

def PDataInv (ps : Progs) (m0 : Map) (s : PState) : Prop :=
  (runAtomic ps m0 (pcalls s)).2 = presults s ∧
  ((∀ u, wIn ps (s.th u) = false) → s.mem = pspecState ps m0 s) ∧
  (∀ t c rest pend res, s.th t = .run c rest pend res →
     (wIn ps (s.th t) = true ∨ rIn ps (s.th t) = true) →
     fut c rest res s.mem = atomicSem (progOf ps c) c (pspecState ps m0 s))

theorem pdataInv_init (ps : Progs) (m0 : Map) : PDataInv ps m0 (pinit m0) := by
  simp [PDataInv, pinit, pcalls, presults, pspecState, runAtomic]

/-- a step of thread `t` that does not touch `lin` -/
theorem pdataInv_upd {ps : Progs} {m0 : Map} {s : PState} (hd : PDataInv ps m0 s) (t : Tid) (x : TSt)
    (l : Lock) (mem' : Map) (hh : List Event)
    (h2 : wIn ps x = false → (∀ u, u ≠ t → wIn ps (s.th u) = false) → mem' = pspecState ps m0 s)
    (h3t : ∀ c rest pend res, x = .run c rest pend res → (wIn ps x = true ∨ rIn ps x = true) →
      fut c rest res mem' = atomicSem (progOf ps c) c (pspecState ps m0 s))
    (h3u : mem' = s.mem ∨ ∀ u, u ≠ t → wIn ps (s.th u) = false ∧ rIn ps (s.th u) = false) :
    PDataInv ps m0 ⟨l, mem', setTh s.th t x, hh, s.lin⟩ := by
  obtain ⟨hres, hmem, hfut⟩ := hd
  refine ⟨hres, ?_, ?_⟩
  · intro hall
    refine h2 ?_ ?_
    · have := hall t; simpa [setTh] using this
    · intro u hu; have := hall u; simpa [setTh, hu] using this
  · intro u c rest pend res hu hin
    by_cases e : u = t
    · subst e
      simp only [setTh, ↓reduceIte] at hu hin
      exact h3t c rest pend res hu hin
    · simp only [setTh, e, ↓reduceIte] at hu hin
      rcases h3u with rfl | h3u
      · exact hfut u c rest pend res hu hin
      · have := h3u u e; simp [this] at hin

/-- the lock-release step of thread `t` -/
theorem pdataInv_release {ps : Progs} {m0 : Map} {s : PState} (hd : PDataInv ps m0 s) (t : Tid)
    (c : Call) (rest : Prog) (pend : Pend) (res : Option Res) (r : Res) (l : Lock) (hh : List Event)
    (h : s.th t = .run c rest pend res) (hf : finished rest res = some r)
    (hin : wIn ps (s.th t) = true ∨ rIn ps (s.th t) = true)
    (hoth : (∀ u, u ≠ t → wIn ps (s.th u) = false ∧ rIn ps (s.th u) = false) ∨
            (∀ u, wIn ps (s.th u) = false)) :
    PDataInv ps m0 ⟨l, s.mem, setTh s.th t (.ret c r), hh, s.lin ++ [(t, c, r)]⟩ := by
  obtain ⟨hres, hmem, hfut⟩ := hd
  have hsp := hfut t c rest pend res h hin
  rw [fut_finished s.mem hf] at hsp
  have hcalls : ∀ (l : Lock) (th : Tid → TSt), pcalls ⟨l, s.mem, th, hh, s.lin ++ [(t, c, r)]⟩
      = pcalls s ++ [c] := by intros; simp [pcalls]
  have hsp' : ∀ (l : Lock) (th : Tid → TSt),
      pspecState ps m0 ⟨l, s.mem, th, hh, s.lin ++ [(t, c, r)]⟩ = s.mem := by
    intro l th
    simp only [pspecState, hcalls, runAtomic_snoc]
    show (atomicSem (progOf ps c) c (pspecState ps m0 s)).1 = s.mem
    rw [← hsp]
  refine ⟨?_, ?_, ?_⟩
  · rw [hcalls, runAtomic_snoc]
    show (runAtomic ps m0 (pcalls s)).2 ++ [(atomicSem (progOf ps c) c (pspecState ps m0 s)).2] = _
    rw [← hsp, hres]; simp [presults]
  · intro _; exact (hsp' _ _).symm
  · intro u c' rest' pend' res' hu hin'
    by_cases e : u = t
    · subst e; simp [setTh] at hu
    · simp only [setTh, e, ↓reduceIte] at hu hin'
      rcases hoth with hoth | hoth
      · have := hoth u e; simp [this] at hin'
      · rw [hsp', hmem hoth]
        exact hmem hoth ▸ hfut u c' rest' pend' res' hu hin'


/-- a step of thread `t` that touches neither `lin` nor the map nor whether `t` is inside -/
theorem pdataInv_same {ps : Progs} {m0 : Map} {s : PState} (hd : PDataInv ps m0 s) (t : Tid) (x : TSt)
    (l : Lock) (hh : List Event)
    (hw : wIn ps x = wIn ps (s.th t)) (hr : rIn ps x = rIn ps (s.th t))
    (h3t : ∀ c rest pend res, x = .run c rest pend res →
      (wIn ps (s.th t) = true ∨ rIn ps (s.th t) = true) →
      fut c rest res s.mem = atomicSem (progOf ps c) c (pspecState ps m0 s)) :
    PDataInv ps m0 ⟨l, s.mem, setTh s.th t x, hh, s.lin⟩ := by
  refine pdataInv_upd hd t x l s.mem hh ?_ ?_ (.inl rfl)
  · intro hx hall
    apply hd.2.1
    intro u
    by_cases e : u = t
    · rw [e, ← hw, hx]
    · exact hall u e
  · intro c rest pend res hx hin
    rw [hw, hr] at hin
    exact h3t c rest pend res hx hin

theorem pdataInv_step {ps : Progs} (hwb : wellBracketed ps = true) {m0 : Map} {s s' : PState}
    (hi : SInv ps s) (hd : PDataInv ps m0 s) (hs : PStep ps s s') : PDataInv ps m0 s' := by
  obtain ⟨htok, hli⟩ := hi
  cases hs with
  | invoke t c h =>
    refine pdataInv_same hd t _ _ _ (by simp [h, wIn]) (by simp [h, rIn]) ?_
    intro _ _ _ _ _ hin; simp [h, wIn, rIn] at hin
  | «return» t c r h =>
    refine pdataInv_same hd t _ _ _ (by simp [h, wIn]) (by simp [h, rIn]) ?_
    intro _ _ _ _ _ hin; simp [h, wIn, rIn] at hin
  | lock t c rest pend h hl =>
    have ht := htok t; rw [h] at ht
    obtain ⟨hp, _, _, _, h5, _⟩ := tok_lock (wb_progOf hwb c) ht
    have hm : s.mem = pspecState ps m0 s := hd.2.1 (fun u => (hli.1 hl u).1)
    refine pdataInv_upd hd t _ _ s.mem _ ?_ ?_ (.inl rfl)
    · intro hx; rw [h5] at hx; cases hx
    · intro c' rest' pend' res' hx _
      injection hx with e1 e2 e3 e4
      subst e1 e2 e3 e4
      rw [hp, atomicSem_skip _ _ _ _ rfl, ← hm]; rfl
  | rlockFree t c rest pend h hl =>
    have ht := htok t; rw [h] at ht
    obtain ⟨hp, _, _, _, _, _⟩ := tok_rlock (wb_progOf hwb c) ht
    have hm : s.mem = pspecState ps m0 s := hd.2.1 (fun u => (hli.1 hl u).1)
    refine pdataInv_upd hd t _ _ s.mem _ (fun _ _ => hm) ?_ (.inl rfl)
    intro c' rest' pend' res' hx _
    injection hx with e1 e2 e3 e4
    subst e1 e2 e3 e4
    rw [hp, atomicSem_skip _ _ _ _ rfl, ← hm]; rfl
  | rlockShared t c rest pend ts h hl =>
    have ht := htok t; rw [h] at ht
    obtain ⟨hp, _, _, _, _, _⟩ := tok_rlock (wb_progOf hwb c) ht
    have hm : s.mem = pspecState ps m0 s := hd.2.1 (hli.2.2 ts hl).2.2.2
    refine pdataInv_upd hd t _ _ s.mem _ (fun _ _ => hm) ?_ (.inl rfl)
    intro c' rest' pend' res' hx _
    injection hx with e1 e2 e3 e4
    subst e1 e2 e3 e4
    rw [hp, atomicSem_skip _ _ _ _ rfl, ← hm]; rfl
  | deferUnlock t c rest pend h =>
    have ht := htok t; rw [h] at ht
    obtain ⟨h1, h2, _, h4, h5⟩ := tok_deferUnlock (wb_progOf hwb c) ht
    refine pdataInv_same hd t _ _ _ (by rw [h, h1, h4]) (by rw [h, h2, h5]) ?_
    intro c' rest' pend' res' hx hin
    injection hx with e1 e2 e3 e4
    subst e1 e2 e3 e4
    have := hd.2.2 t c (.deferUnlock :: rest) pend none h hin
    rw [← this]; simp [fut, atomicSem_skip _ _ _ _ (rfl : isLockStmt .deferUnlock = true)]
  | deferRUnlock t c rest pend h =>
    have ht := htok t; rw [h] at ht
    obtain ⟨h1, h2, _, h4, h5⟩ := tok_deferRUnlock (wb_progOf hwb c) ht
    refine pdataInv_same hd t _ _ _ (by rw [h, h1, h4]) (by rw [h, h2, h5]) ?_
    intro c' rest' pend' res' hx hin
    injection hx with e1 e2 e3 e4
    subst e1 e2 e3 e4
    have := hd.2.2 t c (.deferRUnlock :: rest) pend none h hin
    rw [← this]; simp [fut, atomicSem_skip _ _ _ _ (rfl : isLockStmt .deferRUnlock = true)]
  | stmt t c st rest pend h hb =>
    have ht := htok t; rw [h] at ht
    obtain ⟨_, h2, h3, h4⟩ := tok_stmt (wb_progOf hwb c) ht hb _ (execStmt st c s.mem).2
      (contRest_suffix (execStmt st c s.mem).2 rest)
    rw [← h] at h2 h3 h4
    refine pdataInv_upd hd t _ _ _ _ ?_ ?_ ?_
    · intro hx hall
      rw [h2] at hx
      rcases h4 with ⟨hw, _⟩ | ⟨_, _, hro⟩
      · rw [hw] at hx; cases hx
      · rw [execStmt_ro st c s.mem hro]
        apply hd.2.1
        intro u
        by_cases e : u = t
        · rw [e, hx]
        · exact hall u e
    · intro c' rest' pend' res' hx hin
      injection hx with e1 e2 e3 e4
      subst e1 e2 e3 e4
      rw [h2, h3] at hin
      rw [fut_stmt]
      exact hd.2.2 t c (st :: rest) pend none h hin
    · rcases h4 with ⟨hw, _⟩ | ⟨_, _, hro⟩
      · exact .inr (hli.2.1 t (lock_of_wIn hli hw)).2
      · exact .inl (execStmt_ro st c s.mem hro)
  | «opaque» t c rest pend m' h =>
    have ht := htok t; rw [h] at ht
    exact (tok_opaque (wb_progOf hwb c) ht).elim
  | finishNoDefer t c rest res r h hf =>
    have ht := htok t; rw [h] at ht
    exact (tok_nothing_finished (wb_progOf hwb c) ht hf).elim
  | unlock t c rest res r h hf =>
    have ht := htok t; rw [h] at ht
    obtain ⟨h1, _⟩ := tok_X (wb_progOf hwb c) ht
    rw [← h] at h1
    exact pdataInv_release hd t c rest .X res r _ _ h hf (.inl h1)
      (.inl (hli.2.1 t (lock_of_wIn hli h1)).2)
  | runlock t c rest res r ts h hf hl =>
    have ht := htok t; rw [h] at ht
    obtain ⟨_, h1⟩ := tok_S (wb_progOf hwb c) ht
    rw [← h] at h1
    exact pdataInv_release hd t c rest .S res r _ _ h hf (.inr h1) (.inr (hli.2.2 ts hl).2.2.2)

theorem pdataInv_reachable {ps : Progs} (hwb : wellBracketed ps = true) {m0 : Map} {s : PState}
    (h : PReachable ps m0 s) : PDataInv ps m0 s := by
  induction h with
  | init => exact pdataInv_init ps m0
  | step hr hs ih => exact pdataInv_step hwb (sInv_reachable hwb hr) ih hs


/-- **2** linearizability, for every reachable state of every interleaving of every
    well-bracketed set of programs: the results recorded in `lin` are exactly those of running the
    calls atomically, in lock-release order, each with `atomicSem` of its own program; the Go map
    equals the atomic map whenever no writer is inside (lock free, or readers only); and a call
    that is inside the lock will produce -- running its remaining statements from the current map
    -- exactly what its whole program produces atomically from the atomic map (in particular at
    its release point the map and its result ARE the atomic outcome). -/
theorem plinearizable {ps : Progs} (hwb : wellBracketed ps = true) {m0 : Map} {s : PState}
    (h : PReachable ps m0 s) :
    let calls := s.lin.map (fun x => x.2.1)
    let results := s.lin.map (fun x => x.2.2)
    let specState := (runAtomic ps m0 calls).1
    (runAtomic ps m0 calls).2 = results ∧
    (s.lock = .free → s.mem = specState) ∧
    (∀ ts, s.lock = .shared ts → s.mem = specState) ∧
    ((∀ u, wIn ps (s.th u) = false) → s.mem = specState) ∧
    (∀ t, rIn ps (s.th t) = true → s.mem = specState) ∧
    (∀ t c rest pend res, s.th t = .run c rest pend res →
        (wIn ps (s.th t) = true ∨ rIn ps (s.th t) = true) →
        fut c rest res s.mem = atomicSem (progOf ps c) c specState) ∧
    (∀ t c rest pend res r, s.th t = .run c rest pend res → finished rest res = some r →
        (s.mem, r) = atomicSem (progOf ps c) c specState) := by
  obtain ⟨htok, hl⟩ := sInv_reachable hwb h
  obtain ⟨hres, hmem, hfut⟩ := pdataInv_reachable hwb h
  refine ⟨hres, ?_, ?_, hmem, ?_, hfut, ?_⟩
  · intro hf; exact hmem (fun u => (hl.1 hf u).1)
  · intro ts hs; exact hmem (hl.2.2 ts hs).2.2.2
  · intro t ht
    obtain ⟨ts, hs, _⟩ := lock_of_rIn hl ht
    exact hmem (hl.2.2 ts hs).2.2.2
  · intro t c rest pend res r ht hf
    have hok := htok t; rw [ht] at hok
    have hin : wIn ps (s.th t) = true ∨ rIn ps (s.th t) = true := by
      rw [ht]
      cases pend with
      | nothing => exact (tok_nothing_finished (wb_progOf hwb c) hok hf).elim
      | X => exact .inl (tok_X (wb_progOf hwb c) hok).1
      | S => exact .inr (tok_S (wb_progOf hwb c) hok).2
    have := hfut t c rest pend res ht hin
    rw [fut_finished s.mem hf] at this
    exact this

/-- **4, combined** for the pinned programs the atomic semantics is the map specification `spec`,
    so every interleaving of `Registry / Get / Remove / Clear` is linearizable with respect to
    `spec` (in lock-release order). -/
theorem pinned_linearizable {m0 : Map} {s : PState} (h : PReachable pinnedProgs m0 s) :
    let calls := s.lin.map (fun x => x.2.1)
    let results := s.lin.map (fun x => x.2.2)
    let specState := (runSpec m0 calls).1
    (runSpec m0 calls).2 = results ∧
    (s.lock = .free → s.mem = specState) ∧
    (∀ ts, s.lock = .shared ts → s.mem = specState) ∧
    ((∀ u, wIn pinnedProgs (s.th u) = false) → s.mem = specState) ∧
    (∀ t, rIn pinnedProgs (s.th t) = true → s.mem = specState) ∧
    (∀ t c rest pend res, s.th t = .run c rest pend res →
        (wIn pinnedProgs (s.th t) = true ∨ rIn pinnedProgs (s.th t) = true) →
        fut c rest res s.mem = spec specState c) ∧
    (∀ t c rest pend res r, s.th t = .run c rest pend res → finished rest res = some r →
        (s.mem, r) = spec specState c) := by
  have := plinearizable wellBracketed_pinned h
  simp only [runAtomic_pinned, pinned_atomic] at this
  exact this


/-! ## 3  real-time order (holds for EVERY `ps`, well-bracketed or not) -/

/-- the thread has invoked a call that has not yet released the lock -/
def ppending : TSt → Bool
  | .run _ _ _ _ => true
  | _ => false

def PHistInv (s : PState) : Prop :=
  (∀ t, s.hist.countP (isInvOf t) =
      s.lin.countP (fun x => x.1 == t) + (if ppending (s.th t) = true then 1 else 0)) ∧
  (∀ t c r, s.hist.count (.ret t c r) + (if s.th t = .ret c r then 1 else 0) = s.lin.count (t, c, r))

theorem phistInv_init (m0 : Map) : PHistInv (pinit m0) := by
  simp [PHistInv, pinit, ppending]

theorem ppending_not_ret {p : TSt} (h : ppending p = true) (c : Call) (r : Res) : p ≠ .ret c r := by
  intro e; subst e; simp [ppending] at h

theorem phistInv_internal {s : PState} (hi : PHistInv s) (t : Tid) (p : TSt) (l : Lock) (m : Map)
    (hold : ppending (s.th t) = true) (hnew : ppending p = true) :
    PHistInv ⟨l, m, setTh s.th t p, s.hist, s.lin⟩ := by
  obtain ⟨ha, hb⟩ := hi
  constructor
  · intro u
    have := ha u
    by_cases e : u = t
    · subst e; simpa [setTh, hold, hnew] using this
    · simpa [setTh, e] using this
  · intro u c r
    have := hb u c r
    by_cases e : u = t
    · subst e
      simpa [setTh, ppending_not_ret hold c r, ppending_not_ret hnew c r] using this
    · simpa [setTh, e] using this

/-- the lock-release step: `lin` grows by `(t, c, r)`, thread moves to `ret` -/
theorem phistInv_release {s : PState} (hi : PHistInv s) (t : Tid) (c : Call) (r : Res) (l : Lock)
    (hold : ppending (s.th t) = true) :
    PHistInv ⟨l, s.mem, setTh s.th t (.ret c r), s.hist, s.lin ++ [(t, c, r)]⟩ := by
  obtain ⟨ha, hb⟩ := hi
  constructor
  · intro u
    have := ha u
    by_cases e : u = t
    · subst e; simp [hold] at this; simp [setTh, ppending, List.countP_append, this]
    · have e' : ¬ t = u := fun x => e x.symm
      simpa [setTh, e, e', List.countP_append] using this
  · intro u c' r'
    have := hb u c' r'
    by_cases e : u = t
    · subst e
      simp [ppending_not_ret hold] at this
      simp [setTh, List.count_append, this, count_single]
    · have e' : ¬ t = u := fun x => e x.symm
      simpa [setTh, e, e', List.count_append, count_single] using this

theorem phistInv_step {ps : Progs} {s s' : PState} (hi : PHistInv s) (hs : PStep ps s s') :
    PHistInv s' := by
  cases hs with
  | lock t c rest pend h _ => exact phistInv_internal hi t _ _ _ (by simp [h, ppending]) (by simp [ppending])
  | rlockFree t c rest pend h _ => exact phistInv_internal hi t _ _ _ (by simp [h, ppending]) (by simp [ppending])
  | rlockShared t c rest pend ts h _ => exact phistInv_internal hi t _ _ _ (by simp [h, ppending]) (by simp [ppending])
  | deferUnlock t c rest pend h => exact phistInv_internal hi t _ _ _ (by simp [h, ppending]) (by simp [ppending])
  | deferRUnlock t c rest pend h => exact phistInv_internal hi t _ _ _ (by simp [h, ppending]) (by simp [ppending])
  | stmt t c st rest pend h _ => exact phistInv_internal hi t _ _ _ (by simp [h, ppending]) (by simp [ppending])
  | «opaque» t c rest pend m' h => exact phistInv_internal hi t _ _ _ (by simp [h, ppending]) (by simp [ppending])
  | unlock t c rest res r h _ => exact phistInv_release hi t c r _ (by simp [h, ppending])
  | runlock t c rest res r ts h _ _ => exact phistInv_release hi t c r _ (by simp [h, ppending])
  | finishNoDefer t c rest res r h _ => exact phistInv_release hi t c r _ (by simp [h, ppending])
  | invoke t c h =>
    obtain ⟨ha, hb⟩ := hi
    constructor
    · intro u
      have := ha u
      by_cases e : u = t
      · subst e; simp [h, ppending] at this; simp [setTh, ppending, isInvOf, List.countP_append, this]
      · have e' : ¬ t = u := fun x => e x.symm
        simpa [setTh, e, e', isInvOf, List.countP_append] using this
    · intro u c' r'
      have := hb u c' r'
      by_cases e : u = t
      · subst e; simp [h] at this; simp [setTh, List.count_append, this]
      · simpa [setTh, e, List.count_append] using this
  | «return» t c r h =>
    obtain ⟨ha, hb⟩ := hi
    constructor
    · intro u
      have := ha u
      by_cases e : u = t
      · subst e; simp [h, ppending] at this; simp [setTh, ppending, isInvOf, List.countP_append, this]
      · simpa [setTh, e, isInvOf, List.countP_append] using this
    · intro u c' r'
      have := hb u c' r'
      by_cases e : u = t
      · subst e
        simp [h] at this
        simp [setTh, List.count_append, List.count_singleton, ← this]
      · have e' : ¬ t = u := fun x => e x.symm
        simpa [setTh, e, e', List.count_append, List.count_singleton] using this

theorem phistInv_reachable {ps : Progs} {m0 : Map} {s : PState} (h : PReachable ps m0 s) :
    PHistInv s := by
  induction h with
  | init => exact phistInv_init m0
  | step _ hs ih => exact phistInv_step ih hs

/-- every return event in the history is matched, with multiplicity, by an entry of `lin`:
    a call has released the lock (= taken effect) before it returns. -/
theorem pret_count_le_lin {ps : Progs} {m0 : Map} {s : PState} (h : PReachable ps m0 s)
    (t : Tid) (c : Call) (r : Res) : s.hist.count (.ret t c r) ≤ s.lin.count (t, c, r) := by
  have := (phistInv_reachable h).2 t c r
  omega

theorem pret_mem_lin {ps : Progs} {m0 : Map} {s : PState} (h : PReachable ps m0 s)
    {t : Tid} {c : Call} {r : Res} (hm : Event.ret t c r ∈ s.hist) : (t, c, r) ∈ s.lin := by
  have h1 := pret_count_le_lin h t c r
  have h2 : 0 < s.hist.count (.ret t c r) := List.count_pos_iff.mpr hm
  exact List.count_pos_iff.mp (by omega)

/-- per thread: #invocations = #linearised calls (+1 if a call is in progress and has not yet
    released the lock). -/
theorem pinv_count_eq {ps : Progs} {m0 : Map} {s : PState} (h : PReachable ps m0 s) (t : Tid) :
    s.hist.countP (isInvOf t) =
      s.lin.countP (fun x => x.1 == t) + (if ppending (s.th t) = true then 1 else 0) :=
  (phistInv_reachable h).1 t

/-- **3 (step form)** `pret_before_inv_lin`: at the moment a call `c'` is invoked by `t'`, every
    call that has already returned already has its entry in `s.lin` (with multiplicity), `lin` is
    unchanged by the invocation, and none of the entries of `t'` in `lin` belongs to the new call.
    Since `lin` only grows by appending at lock release, the entry of the new call comes after all
    of them. -/
theorem pret_before_inv_lin {ps : Progs} {m0 : Map} {s s' : PState} (h : PReachable ps m0 s)
    (hs : PStep ps s s') {t' : Tid} {c' : Call} (hinv : s'.hist = s.hist ++ [.inv t' c']) :
    (∀ t c r, s.hist.count (.ret t c r) ≤ s.lin.count (t, c, r)) ∧
    (∀ t c r, Event.ret t c r ∈ s.hist → (t, c, r) ∈ s.lin) ∧
    s'.lin = s.lin ∧
    s.lin.countP (fun x => x.1 == t') = s.hist.countP (isInvOf t') ∧
    s.th t' = .idle ∧ s'.th t' = .run c' (progOf ps c') .nothing none := by
  refine ⟨pret_count_le_lin h, fun t c r => pret_mem_lin h, ?_⟩
  have ha := pinv_count_eq h
  cases hs with
  | invoke t c hp =>
    simp at hinv
    obtain ⟨rfl, rfl⟩ := hinv
    have := ha t
    simp [hp, ppending] at this
    exact ⟨rfl, this.symm, hp, by simp [setTh]⟩
  | «return» t c r hp => simp at hinv
  | _ => simp at hinv

/-- real-time order, state form (see `RTO` in RegistryProofs) -/
def PRTO (s : PState) : Prop :=
  ∀ h1 t' c' h3, s.hist = h1 ++ Event.inv t' c' :: h3 →
    ∃ l1 l2, s.lin = l1 ++ l2 ∧
      (∀ t c r, h1.count (.ret t c r) ≤ l1.count (t, c, r)) ∧
      l1.countP (fun x => x.1 == t') = h1.countP (isInvOf t')

theorem prto_init (m0 : Map) : PRTO (pinit m0) := by
  intro h1 t' c' h3 hh
  simp [pinit] at hh

theorem prto_lin_snoc {s : PState} (hr : PRTO s) (l : Lock) (m : Map) (th : Tid → TSt)
    (x : Tid × Call × Res) : PRTO ⟨l, m, th, s.hist, s.lin ++ [x]⟩ := by
  intro h1 t' c' h3 hh
  obtain ⟨l1, l2, e, a, b⟩ := hr h1 t' c' h3 hh
  exact ⟨l1, l2 ++ [x], by simp [e], a, b⟩

theorem prto_step {ps : Progs} {s s' : PState} (hi : PHistInv s) (hr : PRTO s) (hs : PStep ps s s') :
    PRTO s' := by
  cases hs with
  | unlock t c rest res r h _ => exact prto_lin_snoc hr _ _ _ _
  | runlock t c rest res r ts h _ _ => exact prto_lin_snoc hr _ _ _ _
  | finishNoDefer t c rest res r h _ => exact prto_lin_snoc hr _ _ _ _
  | invoke t c hp =>
    intro h1 t' c' h3 hh
    rcases snoc_eq_split hh with ⟨-, rfl, e⟩ | ⟨h3', -, e⟩
    · injection e with e1 e2
      subst e1 e2
      refine ⟨s.lin, [], by simp, ?_, ?_⟩
      · intro u c r
        have := hi.2 u c r
        omega
      · have := hi.1 t
        simp [hp, ppending] at this
        exact this.symm
    · exact hr h1 t' c' h3' e
  | «return» t c r hp =>
    intro h1 t' c' h3 hh
    rcases snoc_eq_split hh with ⟨-, -, e⟩ | ⟨h3', -, e⟩
    · cases e
    · exact hr h1 t' c' h3' e
  | _ => exact hr

theorem prto_reachable {ps : Progs} {m0 : Map} {s : PState} (h : PReachable ps m0 s) : PRTO s := by
  induction h with
  | init => exact prto_init m0
  | step hr hs ih => exact prto_step (phistInv_reachable hr) ih hs

/-- **3 (state form)** `preal_time`: in every reachable state, for every invocation event
    `.inv t' c'` in the history (`hist = h1 ++ .inv t' c' :: h3`) the list `lin` splits as
    `l1 ++ l2` such that every call that returned before that invocation has its entry in `l1`
    (with multiplicity), and `l1` contains exactly as many entries of `t'` as `t'` had invocations
    before this one -- hence the entry of this invocation, if it exists yet, lies in `l2`, strictly
    after the entries of all calls that returned before it was invoked. -/
theorem preal_time {ps : Progs} {m0 : Map} {s : PState} (h : PReachable ps m0 s)
    {h1 h3 : List Event} {t' : Tid} {c' : Call} (hh : s.hist = h1 ++ Event.inv t' c' :: h3) :
    ∃ l1 l2, s.lin = l1 ++ l2 ∧
      (∀ t c r, h1.count (.ret t c r) ≤ l1.count (t, c, r)) ∧
      (∀ t c r, Event.ret t c r ∈ h1 → (t, c, r) ∈ l1) ∧
      l1.countP (fun x => x.1 == t') = h1.countP (isInvOf t') ∧
      l2.countP (fun x => x.1 == t') + (if ppending (s.th t') = true then 1 else 0)
        = (Event.inv t' c' :: h3).countP (isInvOf t') := by
  obtain ⟨l1, l2, e, a, b⟩ := prto_reachable h h1 t' c' h3 hh
  refine ⟨l1, l2, e, a, ?_, b, ?_⟩
  · intro t c r hm
    have h2 : 0 < h1.count (.ret t c r) := List.count_pos_iff.mpr hm
    have := a t c r
    exact List.count_pos_iff.mp (by omega)
  · have := pinv_count_eq h t'
    rw [hh, e, List.countP_append, List.countP_append] at this
    omega

/-! ### per-thread projections: `lin` and `hist` agree thread by thread -/

/-- the call a thread is executing and has not yet linearised -/
def thCall : TSt → Option Call
  | .run c _ _ _ => some c
  | _ => none

/-- the call a thread has linearised but not yet returned from -/
def thRet : TSt → Option (Call × Res)
  | .ret c r => some (c, r)
  | _ => none

def PSeqInv (s : PState) : Prop :=
  ∀ t,
    s.hist.filterMap (invCall t) =
      (s.lin.filter (fun x => x.1 == t)).map (fun x => x.2.1) ++ (thCall (s.th t)).toList ∧
    s.hist.filterMap (retOf t) ++ (thRet (s.th t)).toList =
      (s.lin.filter (fun x => x.1 == t)).map (fun x => x.2)

theorem pseqInv_init (m0 : Map) : PSeqInv (pinit m0) := by
  intro t; simp [pinit, thCall, thRet]

theorem pseqInv_internal {s : PState} (hi : PSeqInv s) (t : Tid) (p : TSt) (l : Lock) (m : Map)
    (hc : thCall p = thCall (s.th t)) (hr1 : thRet (s.th t) = none) (hr2 : thRet p = none) :
    PSeqInv ⟨l, m, setTh s.th t p, s.hist, s.lin⟩ := by
  intro u
  have := hi u
  by_cases e : u = t
  · subst e; simpa [setTh, hc, hr1, hr2] using this
  · simpa [setTh, e] using this

theorem pseqInv_release {s : PState} (hi : PSeqInv s) (t : Tid) (c : Call) (r : Res) (l : Lock)
    (hc : thCall (s.th t) = some c) (hr1 : thRet (s.th t) = none) :
    PSeqInv ⟨l, s.mem, setTh s.th t (.ret c r), s.hist, s.lin ++ [(t, c, r)]⟩ := by
  intro u
  have := hi u
  by_cases e : u = t
  · subst e
    simp [hc, hr1] at this
    simp [setTh, thCall, thRet, List.filter_append, this]
  · have e' : ¬ t = u := fun x => e x.symm
    simpa [setTh, e, e', List.filter_append] using this

theorem pseqInv_step {ps : Progs} {s s' : PState} (hi : PSeqInv s) (hs : PStep ps s s') : PSeqInv s' := by
  cases hs with
  | lock t c rest pend h _ => exact pseqInv_internal hi t _ _ _ (by simp [h, thCall]) (by simp [h, thRet]) rfl
  | rlockFree t c rest pend h _ => exact pseqInv_internal hi t _ _ _ (by simp [h, thCall]) (by simp [h, thRet]) rfl
  | rlockShared t c rest pend ts h _ => exact pseqInv_internal hi t _ _ _ (by simp [h, thCall]) (by simp [h, thRet]) rfl
  | deferUnlock t c rest pend h => exact pseqInv_internal hi t _ _ _ (by simp [h, thCall]) (by simp [h, thRet]) rfl
  | deferRUnlock t c rest pend h => exact pseqInv_internal hi t _ _ _ (by simp [h, thCall]) (by simp [h, thRet]) rfl
  | stmt t c st rest pend h _ => exact pseqInv_internal hi t _ _ _ (by simp [h, thCall]) (by simp [h, thRet]) rfl
  | «opaque» t c rest pend m' h => exact pseqInv_internal hi t _ _ _ (by simp [h, thCall]) (by simp [h, thRet]) rfl
  | unlock t c rest res r h _ => exact pseqInv_release hi t c r _ (by simp [h, thCall]) (by simp [h, thRet])
  | runlock t c rest res r ts h _ _ => exact pseqInv_release hi t c r _ (by simp [h, thCall]) (by simp [h, thRet])
  | finishNoDefer t c rest res r h _ => exact pseqInv_release hi t c r _ (by simp [h, thCall]) (by simp [h, thRet])
  | invoke t c h =>
    intro u
    have := hi u
    by_cases e : u = t
    · subst e
      simp [h, thCall, thRet] at this
      simp [setTh, thCall, thRet, invCall, retOf, List.filterMap_append, filterMap_single, this]
    · have e' : ¬ t = u := fun x => e x.symm
      simpa [setTh, e, e', invCall, retOf, List.filterMap_append, filterMap_single] using this
  | «return» t c r h =>
    intro u
    have := hi u
    by_cases e : u = t
    · subst e
      simp [h, thCall, thRet] at this
      simp [setTh, thCall, thRet, invCall, retOf, List.filterMap_append, filterMap_single, this]
    · have e' : ¬ t = u := fun x => e x.symm
      simpa [setTh, e, e', invCall, retOf, List.filterMap_append, filterMap_single] using this

/-- `lin` is a sequential history that agrees with `hist` thread by thread. -/
theorem pthread_projection {ps : Progs} {m0 : Map} {s : PState} (h : PReachable ps m0 s) (t : Tid) :
    s.hist.filterMap (invCall t) =
      (s.lin.filter (fun x => x.1 == t)).map (fun x => x.2.1) ++ (thCall (s.th t)).toList ∧
    s.hist.filterMap (retOf t) ++ (thRet (s.th t)).toList =
      (s.lin.filter (fun x => x.1 == t)).map (fun x => x.2) := by
  have : PSeqInv s := by
    induction h with
    | init => exact pseqInv_init m0
    | step _ hs ih => exact pseqInv_step ih hs
  exact this t


/-! ## non-vacuity: an explicit reachable state of the pinned programs -/

/-- thread map of a two-thread system -/
def th2 (p1 p0 : TSt) : Tid → TSt := fun u => if u = 1 then p1 else if u = 0 then p0 else .idle

theorem setTh_th2_1 (p1 p0 p : TSt) : setTh (th2 p1 p0) 1 p = th2 p p0 := by
  funext u; by_cases h : u = 1 <;> simp [setTh, th2, h]

theorem setTh_th2_0 (p1 p0 p : TSt) : setTh (th2 p1 p0) 0 p = th2 p1 p := by
  funext u
  by_cases h : u = 1
  · simp [setTh, th2, h]
  · by_cases h0 : u = 0 <;> simp [setTh, th2, h, h0]

theorem pinit_th2 (m0 : Map) : pinit m0 = ⟨.free, m0, th2 .idle .idle, [], []⟩ := by
  simp only [pinit, PState.mk.injEq, true_and, and_true]
  funext u; simp [th2]

/-- thread 1 has completed `Registry(5 ↦ 7)` (returned true); thread 0 is inside `Get(5)`, has
    loaded `some 7`, and still holds the read lock (deferred `RUnlock` pending); thread 1 has
    invoked `Remove(5)` and waits for the lock. -/
def pdemo : PState :=
  { lock := .shared [0], mem := [(5, 7)],
    th := th2 (.run (.remove 5) [.lock, .deferUnlock, .delete] .nothing none)
              (.run (.get 5) [] .S (some (.svc (some 7)))),
    hist := [.inv 1 (.reg 5 7), .ret 1 (.reg 5 7) (.bool true), .inv 0 (.get 5), .inv 1 (.remove 5)],
    lin := [(1, .reg 5 7, .bool true)] }

/-- thread 1 is inside `Registry(5 ↦ 7)`: it holds the write lock, has passed the check and is
    about to store -/
def pdemoW : PState :=
  { lock := .excl 1, mem := [],
    th := th2 (.run (.reg 5 7) [.store, .retTrue] .X none) .idle,
    hist := [.inv 1 (.reg 5 7)], lin := [] }

theorem pdemoW_reachable : PReachable pinnedProgs [] pdemoW := by
  have h0 : PReachable pinnedProgs [] ⟨.free, [], th2 .idle .idle, [], []⟩ := by
    rw [← pinit_th2]; exact .init
  have h1 : PReachable pinnedProgs [] ⟨.free, [],
      th2 (.run (.reg 5 7) [.lock, .deferUnlock, .ifExistsRetFalse, .store, .retTrue] .nothing none) .idle,
      [.inv 1 (.reg 5 7)], []⟩ := by
    simpa [setTh_th2_1, progOf, pinnedProgs] using PReachable.step h0 (PStep.invoke _ 1 (.reg 5 7) rfl)
  have h2 : PReachable pinnedProgs [] ⟨.excl 1, [],
      th2 (.run (.reg 5 7) [.deferUnlock, .ifExistsRetFalse, .store, .retTrue] .nothing none) .idle,
      [.inv 1 (.reg 5 7)], []⟩ := by
    simpa [setTh_th2_1] using PReachable.step h1 (PStep.lock _ 1 _ _ _ rfl rfl)
  have h3 : PReachable pinnedProgs [] ⟨.excl 1, [],
      th2 (.run (.reg 5 7) [.ifExistsRetFalse, .store, .retTrue] .X none) .idle,
      [.inv 1 (.reg 5 7)], []⟩ := by
    simpa [setTh_th2_1] using PReachable.step h2 (PStep.deferUnlock _ 1 _ _ _ rfl)
  simpa [setTh_th2_1, execStmt, get, contRest, pdemoW] using
    PReachable.step h3 (PStep.stmt _ 1 _ .ifExistsRetFalse _ _ rfl rfl)

/-- non-vacuity for `pwrite_needs_lock` / `in_eq_holds`: a reachable state with a writer inside and
    a step that changes the map -/
example : wIn pinnedProgs (pdemoW.th 1) = true ∧ pdemoW.lock = .excl 1 ∧
    ∃ s', PStep pinnedProgs pdemoW s' ∧ s'.mem ≠ pdemoW.mem :=
  ⟨by decide, rfl, _, PStep.stmt pdemoW 1 (.reg 5 7) .store [.retTrue] .X rfl rfl, by decide⟩

theorem pdemo_reachable : PReachable pinnedProgs [] pdemo := by
  have h4 : PReachable pinnedProgs [] ⟨.excl 1, [],
      th2 (.run (.reg 5 7) [.store, .retTrue] .X none) .idle,
      [.inv 1 (.reg 5 7)], []⟩ := pdemoW_reachable
  have h5 : PReachable pinnedProgs [] ⟨.excl 1, [(5, 7)],
      th2 (.run (.reg 5 7) [.retTrue] .X none) .idle,
      [.inv 1 (.reg 5 7)], []⟩ := by
    simpa [setTh_th2_1, execStmt, contRest, keyOf, valOf, insert, erase] using
      PReachable.step h4 (PStep.stmt _ 1 _ .store _ _ rfl rfl)
  have h6 : PReachable pinnedProgs [] ⟨.excl 1, [(5, 7)],
      th2 (.run (.reg 5 7) [] .X (some (.bool true))) .idle,
      [.inv 1 (.reg 5 7)], []⟩ := by
    simpa [setTh_th2_1, execStmt, contRest] using
      PReachable.step h5 (PStep.stmt _ 1 _ .retTrue _ _ rfl rfl)
  have h7 : PReachable pinnedProgs [] ⟨.free, [(5, 7)],
      th2 (.ret (.reg 5 7) (.bool true)) .idle,
      [.inv 1 (.reg 5 7)], [(1, .reg 5 7, .bool true)]⟩ := by
    simpa [setTh_th2_1] using PReachable.step h6 (PStep.unlock _ 1 _ _ _ (.bool true) rfl rfl)
  have h8 : PReachable pinnedProgs [] ⟨.free, [(5, 7)], th2 .idle .idle,
      [.inv 1 (.reg 5 7), .ret 1 (.reg 5 7) (.bool true)], [(1, .reg 5 7, .bool true)]⟩ := by
    simpa [setTh_th2_1] using PReachable.step h7 (PStep.return _ 1 _ _ rfl)
  have h9 : PReachable pinnedProgs [] ⟨.free, [(5, 7)],
      th2 .idle (.run (.get 5) [.rlock, .deferRUnlock, .ifExistsRetLoaded, .retNone] .nothing none),
      [.inv 1 (.reg 5 7), .ret 1 (.reg 5 7) (.bool true), .inv 0 (.get 5)],
      [(1, .reg 5 7, .bool true)]⟩ := by
    simpa [setTh_th2_0, progOf, pinnedProgs] using PReachable.step h8 (PStep.invoke _ 0 (.get 5) rfl)
  have h10 : PReachable pinnedProgs [] ⟨.shared [0], [(5, 7)],
      th2 .idle (.run (.get 5) [.deferRUnlock, .ifExistsRetLoaded, .retNone] .nothing none),
      [.inv 1 (.reg 5 7), .ret 1 (.reg 5 7) (.bool true), .inv 0 (.get 5)],
      [(1, .reg 5 7, .bool true)]⟩ := by
    simpa [setTh_th2_0] using PReachable.step h9 (PStep.rlockFree _ 0 _ _ _ rfl rfl)
  have h11 : PReachable pinnedProgs [] ⟨.shared [0], [(5, 7)],
      th2 .idle (.run (.get 5) [.ifExistsRetLoaded, .retNone] .S none),
      [.inv 1 (.reg 5 7), .ret 1 (.reg 5 7) (.bool true), .inv 0 (.get 5)],
      [(1, .reg 5 7, .bool true)]⟩ := by
    simpa [setTh_th2_0] using PReachable.step h10 (PStep.deferRUnlock _ 0 _ _ _ rfl)
  have h12 : PReachable pinnedProgs [] ⟨.shared [0], [(5, 7)],
      th2 .idle (.run (.get 5) [] .S (some (.svc (some 7)))),
      [.inv 1 (.reg 5 7), .ret 1 (.reg 5 7) (.bool true), .inv 0 (.get 5)],
      [(1, .reg 5 7, .bool true)]⟩ := by
    simpa [setTh_th2_0, execStmt, get, contRest, keyOf] using
      PReachable.step h11 (PStep.stmt _ 0 _ .ifExistsRetLoaded _ _ rfl rfl)
  simpa [setTh_th2_1, pdemo, progOf, pinnedProgs] using
    PReachable.step h12 (PStep.invoke _ 1 (.remove 5) rfl)

/-- `pdemo` instantiates 1 and 2 non-trivially: the hypotheses of `pmutual_exclusion` /
    `plinearizable` / `pinned_linearizable` hold (`wellBracketed pinnedProgs`, `pdemo` reachable), a
    reader is inside, a writer waits outside, one call has been linearised, and the reader is at its
    release point with the specification's answer. -/
example : wellBracketed pinnedProgs = true ∧ PReachable pinnedProgs [] pdemo ∧
    rIn pinnedProgs (pdemo.th 0) = true ∧ wIn pinnedProgs (pdemo.th 1) = false ∧
    pdemo.lin.map (fun x => x.2.1) = [.reg 5 7] ∧
    runSpec [] [.reg 5 7] = ([(5, 7)], [.bool true]) ∧
    finished [] (some (Res.svc (some 7))) = some (.svc (some 7)) ∧
    spec [(5, 7)] (.get 5) = ([(5, 7)], .svc (some 7)) := by
  refine ⟨by decide, pdemo_reachable, by decide, by decide, rfl, by decide, rfl, by decide⟩

example : pdemo.mem = (runSpec [] (pdemo.lin.map (fun x => x.2.1))).1 :=
  (pinned_linearizable pdemo_reachable).2.2.1 [0] rfl

/-- non-vacuity for 3: the hypotheses of `preal_time` hold on `pdemo`, and the returned call's
    entry is in the part of `lin` before the cut -/
example : ∃ l1 l2, pdemo.lin = l1 ++ l2 ∧ (1, Call.reg 5 7, Res.bool true) ∈ l1 := by
  obtain ⟨l1, l2, e, _, hm, _⟩ := preal_time pdemo_reachable
    (h1 := [.inv 1 (.reg 5 7), .ret 1 (.reg 5 7) (.bool true)]) (t' := 0) (c' := .get 5)
    (h3 := [.inv 1 (.remove 5)]) rfl
  exact ⟨l1, l2, e, hm 1 _ _ (by simp)⟩

/-- a concrete invoke step satisfying the hypotheses of `pret_before_inv_lin` -/
example : ∃ s', PStep pinnedProgs pdemo s' ∧ s'.hist = pdemo.hist ++ [.inv 2 .clear] :=
  ⟨_, PStep.invoke pdemo 2 .clear (by simp [pdemo, th2]), rfl⟩


/-! ## the explicit per-statement rules (instances of `PStep.stmt`) -/

section rules
variable {ps : Progs} (s : PState) (t : Tid) (c : Call) (rest : Prog) (pend : Pend)

theorem PStep.ifExistsRetFalse_hit (w : Svc) (h : s.th t = .run c (.ifExistsRetFalse :: rest) pend none)
    (hg : get s.mem (keyOf c) = some w) :
    PStep ps s { s with th := setTh s.th t (.run c [] pend (some (.bool false))) } := by
  simpa [execStmt, contRest, hg] using PStep.stmt (ps := ps) s t c .ifExistsRetFalse rest pend h rfl

theorem PStep.ifExistsRetFalse_miss (h : s.th t = .run c (.ifExistsRetFalse :: rest) pend none)
    (hg : get s.mem (keyOf c) = none) :
    PStep ps s { s with th := setTh s.th t (.run c rest pend none) } := by
  simpa [execStmt, contRest, hg] using PStep.stmt (ps := ps) s t c .ifExistsRetFalse rest pend h rfl

theorem PStep.ifExistsRetLoaded_hit (w : Svc) (h : s.th t = .run c (.ifExistsRetLoaded :: rest) pend none)
    (hg : get s.mem (keyOf c) = some w) :
    PStep ps s { s with th := setTh s.th t (.run c [] pend (some (.svc (some w)))) } := by
  simpa [execStmt, contRest, hg] using PStep.stmt (ps := ps) s t c .ifExistsRetLoaded rest pend h rfl

theorem PStep.ifExistsRetLoaded_miss (h : s.th t = .run c (.ifExistsRetLoaded :: rest) pend none)
    (hg : get s.mem (keyOf c) = none) :
    PStep ps s { s with th := setTh s.th t (.run c rest pend none) } := by
  simpa [execStmt, contRest, hg] using PStep.stmt (ps := ps) s t c .ifExistsRetLoaded rest pend h rfl

theorem PStep.store_rule (h : s.th t = .run c (.store :: rest) pend none) :
    PStep ps s { s with mem := insert s.mem (keyOf c) (valOf c),
                        th := setTh s.th t (.run c rest pend none) } := by
  simpa [execStmt, contRest] using PStep.stmt (ps := ps) s t c .store rest pend h rfl

theorem PStep.delete_rule (h : s.th t = .run c (.delete :: rest) pend none) :
    PStep ps s { s with mem := erase s.mem (keyOf c), th := setTh s.th t (.run c rest pend none) } := by
  simpa [execStmt, contRest] using PStep.stmt (ps := ps) s t c .delete rest pend h rfl

theorem PStep.replace_rule (h : s.th t = .run c (.replace :: rest) pend none) :
    PStep ps s { s with mem := [], th := setTh s.th t (.run c rest pend none) } := by
  simpa [execStmt, contRest] using PStep.stmt (ps := ps) s t c .replace rest pend h rfl

theorem PStep.retTrue_rule (h : s.th t = .run c (.retTrue :: rest) pend none) :
    PStep ps s { s with th := setTh s.th t (.run c [] pend (some (.bool true))) } := by
  simpa [execStmt, contRest] using PStep.stmt (ps := ps) s t c .retTrue rest pend h rfl

theorem PStep.retFalse_rule (h : s.th t = .run c (.retFalse :: rest) pend none) :
    PStep ps s { s with th := setTh s.th t (.run c [] pend (some (.bool false))) } := by
  simpa [execStmt, contRest] using PStep.stmt (ps := ps) s t c .retFalse rest pend h rfl

theorem PStep.retNone_rule (h : s.th t = .run c (.retNone :: rest) pend none) :
    PStep ps s { s with th := setTh s.th t (.run c [] pend (some (.svc none))) } := by
  simpa [execStmt, contRest] using PStep.stmt (ps := ps) s t c .retNone rest pend h rfl

/-- falling off the end of a program with `defer mu.Unlock()` pending: the call returns `.unit` -/
theorem PStep.unlock_at_end (h : s.th t = .run c [] .X none) :
    PStep ps s { s with lock := .free, th := setTh s.th t (.ret c .unit), lin := s.lin ++ [(t, c, .unit)] } :=
  PStep.unlock s t c [] none .unit h rfl

end rules

/-! ## "past its lock", read off the thread state alone -/

/-- for reachable states of well-bracketed programs, `wIn` / `rIn` ("has executed its `lock` /
    `rlock` and not yet its deferred unlock") can be read off the thread state alone: a deferred
    unlock is registered, or the next statement is the `defer` right after the lock. -/
theorem in_eq_holds {ps : Progs} (hwb : wellBracketed ps = true) {m0 : Map} {s : PState}
    (h : PReachable ps m0 s) (t : Tid) {c : Call} {rest : Prog} {pend : Pend} {res : Option Res}
    (ht : s.th t = .run c rest pend res) :
    wIn ps (s.th t) = (pend == .X || rest.head? == some .deferUnlock) ∧
    rIn ps (s.th t) = (pend == .S || rest.head? == some .deferRUnlock) := by
  have hok := (sInv_reachable hwb h).1 t
  rw [ht] at hok ⊢
  rcases tok_phase (wb_progOf hwb c) hok with ⟨_, h2, _, h4, h5, r', h6⟩ | ⟨_, _, h1, h2, _, h4, h5⟩ |
      ⟨_, _, _, h2, h3, h4, h5⟩ | ⟨_, _, h1, h2, _, h4, h5⟩ | ⟨_, _, _, h2, h3, h4, h5⟩
  · rw [h4, h5]; rcases h6 with h6 | h6 <;> simp [h2, h6]
  · rw [h4, h5]; simp [h2, h1]
  · rw [h4, h5, h2]
    cases rest with
    | nil => simp
    | cons st r' =>
      have := h3 st (by simp)
      cases st <;> simp [isBody, isLockStmt] at this <;> simp
  · rw [h4, h5]; simp [h2, h1]
  · rw [h4, h5, h2]
    cases rest with
    | nil => simp
    | cons st r' =>
      have := h3 st (by simp)
      cases st <;> simp [isRO, isBody, isLockStmt] at this <;> simp

/-! ## the check is needed: a rejected program set really is not linearizable -/

/-- With `Registry` running its check-then-insert under the READ lock (`badRegShared`, rejected by
    `wellBracketed`), two goroutines registering the same name can both pass the check and both
    return `true`; no atomic execution does that.  So the hypothesis `wellBracketed ps` of
    `plinearizable` cannot be dropped. -/
theorem badRegShared_not_linearizable :
    ∃ s, PReachable badRegShared [] s ∧
      s.lin = [(0, .reg 5 7, .bool true), (1, .reg 5 9, .bool true)] ∧
      (runAtomic badRegShared [] (s.lin.map (fun x => x.2.1))).2 = [.bool true, .bool false] ∧
      (runAtomic badRegShared [] (s.lin.map (fun x => x.2.1))).2 ≠ s.lin.map (fun x => x.2.2) := by
  have g0 : PReachable badRegShared [] ⟨.free, [], th2 .idle .idle, [], []⟩ := by
    rw [← pinit_th2]; exact .init
  have g1 : PReachable badRegShared [] ⟨.free, [],
      th2 .idle (.run (.reg 5 7) [.rlock, .deferRUnlock, .ifExistsRetFalse, .store, .retTrue] .nothing none),
      [.inv 0 (.reg 5 7)], []⟩ := by
    simpa [setTh_th2_0, progOf, badRegShared] using PReachable.step g0 (PStep.invoke _ 0 (.reg 5 7) rfl)
  have g2 : PReachable badRegShared [] ⟨.shared [0], [],
      th2 .idle (.run (.reg 5 7) [.deferRUnlock, .ifExistsRetFalse, .store, .retTrue] .nothing none),
      [.inv 0 (.reg 5 7)], []⟩ := by
    simpa [setTh_th2_0] using PReachable.step g1 (PStep.rlockFree _ 0 _ _ _ rfl rfl)
  have g3 : PReachable badRegShared [] ⟨.shared [0], [],
      th2 .idle (.run (.reg 5 7) [.ifExistsRetFalse, .store, .retTrue] .S none),
      [.inv 0 (.reg 5 7)], []⟩ := by
    simpa [setTh_th2_0] using PReachable.step g2 (PStep.deferRUnlock _ 0 _ _ _ rfl)
  have g4 : PReachable badRegShared [] ⟨.shared [0], [],
      th2 .idle (.run (.reg 5 7) [.store, .retTrue] .S none),
      [.inv 0 (.reg 5 7)], []⟩ := by
    simpa [setTh_th2_0] using
      PReachable.step g3 (PStep.ifExistsRetFalse_miss _ 0 _ _ _ rfl rfl)
  have g5 : PReachable badRegShared [] ⟨.shared [0], [],
      th2 (.run (.reg 5 9) [.rlock, .deferRUnlock, .ifExistsRetFalse, .store, .retTrue] .nothing none)
          (.run (.reg 5 7) [.store, .retTrue] .S none),
      [.inv 0 (.reg 5 7), .inv 1 (.reg 5 9)], []⟩ := by
    simpa [setTh_th2_1, progOf, badRegShared] using PReachable.step g4 (PStep.invoke _ 1 (.reg 5 9) rfl)
  have g6 : PReachable badRegShared [] ⟨.shared [1, 0], [],
      th2 (.run (.reg 5 9) [.deferRUnlock, .ifExistsRetFalse, .store, .retTrue] .nothing none)
          (.run (.reg 5 7) [.store, .retTrue] .S none),
      [.inv 0 (.reg 5 7), .inv 1 (.reg 5 9)], []⟩ := by
    simpa [setTh_th2_1] using PReachable.step g5 (PStep.rlockShared _ 1 _ _ _ [0] rfl rfl)
  have g7 : PReachable badRegShared [] ⟨.shared [1, 0], [],
      th2 (.run (.reg 5 9) [.ifExistsRetFalse, .store, .retTrue] .S none)
          (.run (.reg 5 7) [.store, .retTrue] .S none),
      [.inv 0 (.reg 5 7), .inv 1 (.reg 5 9)], []⟩ := by
    simpa [setTh_th2_1] using PReachable.step g6 (PStep.deferRUnlock _ 1 _ _ _ rfl)
  -- the second goroutine passes the check too: the first has not stored yet
  have g8 : PReachable badRegShared [] ⟨.shared [1, 0], [],
      th2 (.run (.reg 5 9) [.store, .retTrue] .S none)
          (.run (.reg 5 7) [.store, .retTrue] .S none),
      [.inv 0 (.reg 5 7), .inv 1 (.reg 5 9)], []⟩ := by
    simpa [setTh_th2_1] using
      PReachable.step g7 (PStep.ifExistsRetFalse_miss _ 1 _ _ _ rfl rfl)
  have g9 : PReachable badRegShared [] ⟨.shared [1, 0], [(5, 7)],
      th2 (.run (.reg 5 9) [.store, .retTrue] .S none)
          (.run (.reg 5 7) [.retTrue] .S none),
      [.inv 0 (.reg 5 7), .inv 1 (.reg 5 9)], []⟩ := by
    simpa [setTh_th2_0, keyOf, valOf, insert, erase] using
      PReachable.step g8 (PStep.store_rule _ 0 _ _ _ rfl)
  have g10 : PReachable badRegShared [] ⟨.shared [1, 0], [(5, 9)],
      th2 (.run (.reg 5 9) [.retTrue] .S none)
          (.run (.reg 5 7) [.retTrue] .S none),
      [.inv 0 (.reg 5 7), .inv 1 (.reg 5 9)], []⟩ := by
    simpa [setTh_th2_1, keyOf, valOf, insert, erase] using
      PReachable.step g9 (PStep.store_rule _ 1 _ _ _ rfl)
  have g11 : PReachable badRegShared [] ⟨.shared [1, 0], [(5, 9)],
      th2 (.run (.reg 5 9) [.retTrue] .S none)
          (.run (.reg 5 7) [] .S (some (.bool true))),
      [.inv 0 (.reg 5 7), .inv 1 (.reg 5 9)], []⟩ := by
    simpa [setTh_th2_0] using PReachable.step g10 (PStep.retTrue_rule _ 0 _ _ _ rfl)
  have g12 : PReachable badRegShared [] ⟨.shared [1], [(5, 9)],
      th2 (.run (.reg 5 9) [.retTrue] .S none) (.ret (.reg 5 7) (.bool true)),
      [.inv 0 (.reg 5 7), .inv 1 (.reg 5 9)], [(0, .reg 5 7, .bool true)]⟩ := by
    simpa [setTh_th2_0] using
      PReachable.step g11 (PStep.runlock _ 0 _ _ _ (.bool true) [1, 0] rfl rfl rfl)
  have g13 : PReachable badRegShared [] ⟨.shared [1], [(5, 9)],
      th2 (.run (.reg 5 9) [] .S (some (.bool true))) (.ret (.reg 5 7) (.bool true)),
      [.inv 0 (.reg 5 7), .inv 1 (.reg 5 9)], [(0, .reg 5 7, .bool true)]⟩ := by
    simpa [setTh_th2_1] using PReachable.step g12 (PStep.retTrue_rule _ 1 _ _ _ rfl)
  have g14 : PReachable badRegShared [] ⟨.free, [(5, 9)],
      th2 (.ret (.reg 5 9) (.bool true)) (.ret (.reg 5 7) (.bool true)),
      [.inv 0 (.reg 5 7), .inv 1 (.reg 5 9)],
      [(0, .reg 5 7, .bool true), (1, .reg 5 9, .bool true)]⟩ := by
    simpa [setTh_th2_1] using
      PReachable.step g13 (PStep.runlock _ 1 _ _ _ (.bool true) [1] rfl rfl rfl)
  exact ⟨_, g14, rfl, by decide, by decide⟩

end FinProto.Reg
