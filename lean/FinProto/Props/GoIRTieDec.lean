/-
  The GoIR tie, decoder half: see GoIRTie.lean.
-/
import FinProto.Props.GoIRTie
import FinProto.Props.GoIR_D
namespace FinProto.GoIR
open FinProto

def opOKr : Op → Prop
  | .vstr pw _ => pw ≤ 8
  | .nums cw _ _ => cw ≤ 8
  | .fixed n _ _ => n < 2 ^ 63
  | .fixeds cw n _ _ _ => cw ≤ 8 ∧ n < 2 ^ 63
  | .vstrs cw pw _ => cw ≤ 8 ∧ pw ≤ 8
  | .objs cw _ _ => cw ≤ 8
  | _ => True

theorem rspec_mapR {r : CallRes O} {inj : β → V O} {f : α → β} {rd : R α} {buf : Bytes}
    (h : RSpec r (fun a => inj (f a)) (rd buf)) : RSpec r inj (mapR f rd buf) := by
  simp only [mapR, bindR]
  cases hrd : rd buf with
  | ok p => rw [hrd] at h; simpa [RSpec] using h
  | err => rw [hrd] at h; simpa [RSpec] using h
  | panic => rw [hrd] at h; simpa [RSpec] using h

/-- how a decoded wire value is held by the Go reader's result -/
def vOfVal : Val → V Val
  | .num n => natV n
  | .str s => .bytes s
  | .nums l => natsV l
  | .strs l => .strs l
  | .msgs l => .objs l
  | _ => .unit

/-- DECODER LEAVES.  The call that a decoder statement of kind `op` makes, executed on the translated source, returns the
    value `decOp` returns and consumes exactly the bytes it consumes, fails exactly when it fails (a short buffer, a
    claimed length beyond what is present) and panics exactly when it panics (a 64-bit count with the top bit set). -/
theorem decOp_ir (env : Env) (decTy : Nat → R Val) (acc : List Val) (ext : Ext Val)
    (op : Op) (c : Nat × List Ty × List (V Val)) (hc : opReader false op = some c) (hok : opOKr op)
    (hext : ∀ cw ty e, op = .objs cw ty e → ∀ b, ext.dec ext.new b = decTy ty b)
    (buf : Bytes) (lf k : Nat) (hlf : 2 ^ 64 ≤ lf) (hk : 4 ≤ k) :
    RSpec (runFn ext prog lf k c.1 c.2.1 c.2.2 buf) vOfVal (decOp env decTy acc op buf) := by
  cases op <;> simp only [opReader, Option.some.injEq, reduceCtorEq, Bool.false_eq_true, if_false] at hc
  case scalar w e =>
    subst hc; exact rspec_mapR (ir_readScalar ext e w buf lf k (by omega))
  case fixed n pad left =>
    subst hc
    exact rspec_mapR (ir_readFixed ext n pad left buf lf k (by simp only [opOKr] at hok; omega) (by omega))
  case vstr pw e =>
    subst hc; exact rspec_mapR (ir_readVstr ext e pw hok buf lf k (by omega))
  case nums cw w e =>
    subst hc; exact rspec_mapR (ir_readNums ext e cw w hok buf lf k hlf (by omega))
  case fixeds cw n pad left e =>
    subst hc; exact rspec_mapR (ir_readFixeds ext e cw n pad left hok.1 hok.2 buf lf k hlf (by omega))
  case vstrs cw pw e =>
    subst hc; exact rspec_mapR (ir_readVstrs ext e cw pw hok.1 hok.2 buf lf k hlf (by omega))
  case objs cw ty e =>
    subst hc
    exact rspec_mapR (ir_readObjs ext (decTy ty) (hext cw ty e rfl) e cw (.u 0) hok buf lf k hlf (by omega))

example : rspecB (runFn noExt prog 100 callDepth (ixRNums .le) [.u 2, .u 2] [] [2, 0, 2, 1, 3, 0, 0xBB]) natsV
    (.ok ([0x0102, 3], [0xBB])) = true := by decide +kernel

end FinProto.GoIR
